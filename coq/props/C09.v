(* C09 - Closed blocks render independently; reference definitions work from anywhere.
   Statements only: the reference-map mechanism (proofs in proofs/RefsProofs.v).  RefsAdd /
   RefsLookup are parser.Context's AddReference / Reference with the real label normalisation
   (ToLinkReference on the dumped tables).  The block-independence half of the property is a law
   checked end to end on the implementation (see DESIGN.md). *)
Require Import GM.model.Base GM.model.Util GM.model.Refs GM.model.UtilI GM.proofs.RefsProofs.
Open Scope N_scope.

(* the first definition of a label wins *)
Theorem C09_first_definition_wins : forall m l1 v1 l2 v2, ToLinkReference l1 = ToLinkReference l2 ->
  RefsAdd (RefsAdd m l1 v1) l2 v2 = RefsAdd m l1 v1.
Proof. exact (first_definition_wins ToLinkReference bytes). Qed.
Print Assumptions C09_first_definition_wins.

(* definitions of different labels commute for every lookup *)
Theorem C09_add_reference_commutes : forall m l1 v1 l2 v2 k, ToLinkReference l1 <> ToLinkReference l2 ->
  lookup_key bytes (RefsAdd (RefsAdd m l1 v1) l2 v2) k = lookup_key bytes (RefsAdd (RefsAdd m l2 v2) l1 v1) k.
Proof. exact (add_reference_commutes ToLinkReference bytes). Qed.
Print Assumptions C09_add_reference_commutes.

(* moving a block of definitions whose labels are not otherwise defined from the top of the
   document to its end changes no lookup (all definitions are collected before any inline
   content is parsed, so only the order of AddReference calls changes) *)
Theorem C09_definitions_position_independent : forall block others k,
  (forall l v l' v', In (l, v) block -> In (l', v') others -> ToLinkReference l <> ToLinkReference l') ->
  lookup_key bytes (add_all ToLinkReference bytes [] (block ++ others)) k =
  lookup_key bytes (add_all ToLinkReference bytes [] (others ++ block)) k.
Proof. exact (definitions_position_independent ToLinkReference bytes). Qed.
Print Assumptions C09_definitions_position_independent.

(* any case / white-space variant of the label finds the definition *)
Theorem C09_reference_by_variant : forall m l v l', ToLinkReference l = ToLinkReference l' ->
  lookup_key bytes m (ToLinkReference l) = None -> RefsLookup (RefsAdd m l v) l' = Some v.
Proof. exact (reference_by_variant ToLinkReference bytes). Qed.
Print Assumptions C09_reference_by_variant.

(* non-vacuity: 'Foo  Bar' and 'foo bar' have the same key *)
Example C09_demo : ToLinkReference [70;111;111;32;32;66;97;114] = ToLinkReference [102;111;111;32;98;97;114].
Proof. vm_compute. reflexivity. Qed.

(* ---------------- block independence itself, on a fragment, for EVERY pair of documents of it:
   a plain document (paragraphs of words and soft breaks), an empty line, another plain document
   convert to the concatenation of the two conversions - about the whole Convert model *)
Require Import GM.model.Html GM.model.SpecDoc GM.model.ParseI GM.proofs.SpecParaConform GM.proofs.SpecQuoteConform.
Theorem C09_plain_documents_independent : forall c fin d1 d2 o1 o2,
  hardwraps c = false -> plain_doc d1 = true -> plain_doc d2 = true ->
  ConvertModel c (md_of false true d1) = Ok o1 ->
  ConvertModel c (md_of false fin d2) = Ok o2 ->
  ConvertModel c (md_of false true d1 ++ nl ++ md_of false fin d2) = Ok (o1 ++ o2).
Proof. exact plain_docs_independent. Qed.
Print Assumptions C09_plain_documents_independent.

(* the law as the property words it - A, an empty line, an ATX heading line, an empty line, B - on
   the larger fragment of leaf documents (plain paragraphs, ATX headings, thematic breaks, fenced
   code blocks in any order), for EVERY A and B of the fragment; the separator may be any leaf
   block, in particular the heading line.  html_of writes <hr /> as the specification does, hence
   the XHTML switch. *)
Require Import GM.proofs.SpecLeafConform GM.proofs.SpecLeafIndep.
Theorem C09_leaf_documents_independent : forall c fin d1 h d2 o1 o2,
  hardwraps c = false -> xhtml c = true ->
  leaf_doc d1 = true -> leaf_block h = true -> leaf_doc d2 = true ->
  ConvertModel c (md_of false true d1) = Ok o1 ->
  ConvertModel c (md_of false fin d2) = Ok o2 ->
  ConvertModel c (md_of false true d1 ++ nl ++ md_of false true [h] ++ nl ++ md_of false fin d2)
    = Ok (o1 ++ html_of [h] ++ o2).
Proof. exact leaf_docs_independent. Qed.
Print Assumptions C09_leaf_documents_independent.
Theorem C09_leaf_documents_independent_heading : forall c fin d1 lv ws d2 o1 o2,
  hardwraps c = false -> xhtml c = true ->
  leaf_doc d1 = true -> leaf_doc d2 = true ->
  leaf_block (SpecDoc.BHeading 0 lv 0 0 (map AWord ws)) = true ->
  ConvertModel c (md_of false true d1) = Ok o1 ->
  ConvertModel c (md_of false fin d2) = Ok o2 ->
  ConvertModel c (md_of false true d1 ++ nl ++ md_of false true [SpecDoc.BHeading 0 lv 0 0 (map AWord ws)] ++ nl ++ md_of false fin d2)
    = Ok (o1 ++ html_of [SpecDoc.BHeading 0 lv 0 0 (map AWord ws)] ++ o2).
Proof. exact leaf_docs_independent_heading. Qed.
Print Assumptions C09_leaf_documents_independent_heading.

(* block quotes nested to any depth around plain paragraphs: a quoted document, an empty line,
   another one convert to the two conversions side by side, for EVERY pair; and the fact behind
   all three independence theorems - the printer md_of is a homomorphism on documents without
   reference definitions, for ANY blocks and either tab spelling *)
Require Import GM.proofs.SpecDocApp.
Theorem C09_quoted_documents_independent : forall c fin fuel d1 d2 o1 o2,
  hardwraps c = false -> qdoc fuel d1 = true -> qdoc fuel d2 = true ->
  ConvertModel c (md_of false true d1) = Ok o1 ->
  ConvertModel c (md_of false fin d2) = Ok o2 ->
  ConvertModel c (md_of false true d1 ++ nl ++ md_of false fin d2) = Ok (o1 ++ o2).
Proof. exact quoted_docs_independent. Qed.
Print Assumptions C09_quoted_documents_independent.
Theorem C09_printer_is_homomorphic : forall tabs fin d1 d2,
  d1 <> nil -> d2 <> nil ->
  flat_map block_defs d1 = nil -> flat_map block_defs d2 = nil ->
  map (line_md tabs) (doc_lines d1) <> nil -> map (line_md tabs) (doc_lines d2) <> nil ->
  md_of tabs fin (d1 ++ d2) = md_of tabs true d1 ++ nl ++ md_of tabs fin d2.
Proof. exact md_of_app. Qed.
Print Assumptions C09_printer_is_homomorphic.
