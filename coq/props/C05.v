(* C05 - Every parsed AST is a well-formed tree with all positions inside the source.
   Statements only.  What is proved: (S) the tree mutators - the only code that can touch the
   link fields - keep the pointer structure a faithful representation of a list-of-children
   forest with ChildCount = number of children (C13's refinement theorem); (P) segment
   arithmetic and both readers only ever produce positions inside the source.  That the parser
   as a whole only builds trees satisfying the formal predicate wf_tree (model/HtmlSpec.v) and
   the kind/position clauses is evaluated on the real parser's output on every run. *)
Require Import GM.model.Base GM.model.Util GM.model.Reader GM.model.ReaderSpec.
Require Import GM.model.AstHeap GM.model.AstSpec GM.model.AstLegal.
Require Import GM.proofs.AstProofs GM.proofs.MiscProofs GM.proofs.ReaderProofs GM.proofs.BReaderProofs.
From Coq Require Import ZArith.
Open Scope Z_scope.

(* (S) any sequence of legal mutator calls from the empty pool yields a consistent structure *)
Theorem C05_mutators_preserve_consistency : forall fuel ops,
  LegalRun fuel empty_forest ops ->
  exists h, run fuel empty_heap ops = Ok h /\ Repr h (spec_run empty_forest ops) /\ wf_forest (spec_run empty_forest ops).
Proof. intros fuel ops H. exact (run_refines fuel ops empty_heap empty_forest wf_empty repr_empty H). Qed.
Print Assumptions C05_mutators_preserve_consistency.

(* (P) segment operations *)
Theorem C05_seg_with_start_in_range : forall src t v, seg_range src t -> s_start t <= v <= s_stop t ->
  seg_range src (seg_with_start t v).
Proof. exact seg_with_start_in_range. Qed.
Theorem C05_seg_with_stop_in_range : forall src t v, seg_range src t -> s_start t <= v <= s_stop t ->
  seg_range src (seg_with_stop t v).
Proof. exact seg_with_stop_in_range. Qed.
Theorem C05_seg_between_in_range : forall src a b, seg_range src a -> seg_range src b -> s_stop a = s_stop b ->
  s_start a <= s_start b ->
  exists c, seg_between a b = Ok c /\ seg_range src c /\ s_start c = s_start a /\ s_stop c = s_start b.
Proof. exact seg_between_in_range. Qed.
Theorem C05_seg_trim_left_space_in_range : forall space_table src t, seg_range src t ->
  exists t', seg_trim_left_space space_table src t = Ok t' /\ seg_range src t' /\
             s_stop t' = s_stop t /\ s_start t <= s_start t'.
Proof. exact seg_trim_left_space_in_range. Qed.
Theorem C05_seg_trim_right_space_in_range : forall space_table src t, seg_range src t ->
  exists t', seg_trim_right_space space_table src t = Ok t' /\ seg_range src t' /\
             s_start t' = s_start t /\ s_stop t' <= s_stop t.
Proof. exact seg_trim_right_space_in_range. Qed.
Print Assumptions C05_seg_with_start_in_range.
Print Assumptions C05_seg_with_stop_in_range.
Print Assumptions C05_seg_between_in_range.
Print Assumptions C05_seg_trim_left_space_in_range.
Print Assumptions C05_seg_trim_right_space_in_range.

(* (P) the positions both readers report stay inside the source *)
Theorem C05_reader_positions_in_range : forall r, RInv r ->
  0 <= s_start (r_pos r) <= s_stop (r_pos r) /\ s_stop (r_pos r) <= zlen (r_src r).
Proof. exact inv_in_range. Qed.
Print Assumptions C05_reader_positions_in_range.
Theorem C05_block_reader_positions_in_range : forall r, BInv r -> b_in_range r = true ->
  0 <= s_start (b_pos r) <= s_stop (b_pos r) /\ s_stop (b_pos r) <= zlen (b_src r).
Proof. exact b_inv_in_range. Qed.
Print Assumptions C05_block_reader_positions_in_range.

(* (P, continued) the positions reported by the modelled block scanners lie inside the line they
   were given: list marker indices, ATX heading text, fence info string, fence content and
   closing advance, delimiter-run length *)
Require Import GM.model.Blocks GM.model.ListItem GM.model.LeafBlocks GM.model.Delim GM.gen.Tables GM.proofs.BlockRangeProofs.
Theorem C05_parse_list_item_in_range : forall line m typ, parse_list_item line = (m, typ) -> typ <> 0%N ->
  0 <= m1 m <= 3 /\ m2 m = m1 m /\ m1 m < m3 m <= zlen line /\
  ((m4 m = -1 /\ m5 m = -1 /\ m3 m = zlen line) \/ (m4 m = m3 m /\ m3 m < zlen line /\ m4 m <= m5 m <= zlen line)).
Proof. exact parse_list_item_in_range. Qed.
Print Assumptions C05_parse_list_item_in_range.
Theorem C05_atx_open_in_range : forall line pos lv a b,
  atx_open space_table line pos = Ok (Some (lv, Some (a, b))) -> 1 <= lv <= 6 /\ pos < a /\ a < b /\ b <= zlen line.
Proof. exact (atx_open_in_range space_table). Qed.
Print Assumptions C05_atx_open_in_range.
Theorem C05_fence_open_in_range : forall line pos ch ind n info, 0 <= pos ->
  fence_open space_table line pos = Ok (Some (ch, ind, n, info)) ->
  (ch = 96%N \/ ch = 126%N) /\ ind = pos /\ 3 <= n /\ pos + n <= zlen line /\
  match info with Some (a, b) => pos + n <= a /\ a < b /\ b <= zlen line | None => True end.
Proof. exact (fence_open_in_range space_table). Qed.
Print Assumptions C05_fence_open_in_range.
Theorem C05_fence_continue_in_range : forall line off pad ch indent flen, 0 <= off -> 0 <= pad -> 0 <= indent ->
  match fence_continue space_table line off pad ch indent flen with
  | inl adv => 0 <= adv <= zlen line
  | inr (p, padding) => 0 <= p + pad /\ p <= zlen line /\ 0 <= padding
  end.
Proof. exact (fence_continue_in_range space_table). Qed.
Print Assumptions C05_fence_continue_in_range.
Theorem C05_scan_delimiter_in_range : forall pr sr isd line before minimum co cc len ch,
  scan_delimiter pr sr isd line before minimum = Ok (Some (co, cc, len, ch)) ->
  1 <= len <= zlen line /\ minimum <= len /\ isd ch = true.
Proof. exact scan_delimiter_in_range. Qed.
Print Assumptions C05_scan_delimiter_in_range.

(* the parser model with its output checked (model/ParseChecked.v): a tree it yields is well
   formed; compared with goldmark's tree on every run (case kind ParseTree / Convert) *)
Require Import GM.model.Html GM.model.HtmlSpec GM.model.ParseI GM.model.ParseChecked GM.proofs.ParseCheckedProofs.
Theorem C05_checked_parser_output_wf : forall src t, ParseTreeC src = Ok t -> ParseTree src = Ok t /\ wf_tree src t = true.
Proof. exact ParseTreeC_ok. Qed.
Print Assumptions C05_checked_parser_output_wf.

(* the parser model itself, without any run-time check: EVERY tree it yields is well formed (all
   segments inside the source and in order, heading levels 1..6, counts and links consistent by
   construction of the tree type), and its inline children are of public inline kinds only - no
   delimiter, link label state or other bookkeeping node is left behind *)
Require Import GM.model.BlockParse GM.model.InlineParse GM.proofs.ParseInv GM.proofs.ParseFinal GM.proofs.ParseInlineRange GM.proofs.ParseBlocksRange.
Theorem C05_parser_output_wf : forall src t, bytes_ok src -> ParseTree src = Ok t -> wf_tree src t = true.
Proof. exact ParseTree_wf_all. Qed.
Print Assumptions C05_parser_output_wf.
Theorem C05_block_phase_wf : forall src t refs, bytes_ok src -> ParseBlocksTree src = Ok (t, refs) ->
  wf_node src false false t = true /\ tree_lines_ok src t = true /\ refs_ok refs.
Proof. exact ParseBlocksTree_ok. Qed.
Print Assumptions C05_block_phase_wf.
Theorem C05_inline_children_public_kinds : forall refs src lines ts,
  bytes_ok src -> refs_ok refs -> lines_ok src lines -> InlineChildren refs src lines = Ok ts ->
  Forall (fun t => all_kinds inline_kind t = true) ts.
Proof. exact InlineChildren_public_kinds. Qed.
Print Assumptions C05_inline_children_public_kinds.

(* ---------------- the same for the parser with extension.GFM (model/GfmI.v): for EVERY source
   and every subset xc of the four extensions the tree is well formed - table cells' segments
   inside the source included - with no run-time check (proofs/GfmWf*.v, 18 k lines: the range
   and totality proofs of the default parser ported to the generalised driver copies, with
   invariants for the table transformer: cells' segments, paragraphs that lose their last lines,
   detached paragraph nodes) *)
Require Import GM.model.InlineParseX GM.model.GfmI GM.proofs.GfmWf.
Theorem C05_gfm_parser_output_wf : forall xc src t, bytes_ok src -> ParseTreeX xc src = Ok t -> wf_tree src t = true.
Proof. exact ParseTreeX_wf. Qed.
Print Assumptions C05_gfm_parser_output_wf.

(* ---------------- and for the parser with extension.Typographer and extension.DefinitionList
   (model/TypoDefI.v; both switches): every tree is well formed, for EVERY source
   (proofs/TypoDefWf*.v, 58 files, 18.9 k lines) *)
Require Import GM.model.TypoDefParse GM.model.TypoDefI GM.proofs.TypoDefWf.
Theorem C05_typodef_parser_output_wf : forall tc src t, bytes_ok src -> ParseTreeTD tc src = Ok t -> wf_tree src t = true.
Proof. exact ParseTreeTD_wf. Qed.
Print Assumptions C05_typodef_parser_output_wf.
