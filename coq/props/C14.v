(* C14 - Writer failures surface as errors and never corrupt what was written.
   Statements only; proofs are in proofs/BufioProofs.v.  render_to size limit ops is
   renderer.Render's use of a bufio.Writer of the given size over a destination failing at
   byte offset `limit`, for an arbitrary sequence of Write/WriteString/WriteByte/WriteRune
   calls made by the node renderers (which ignore per-write errors). *)
Require Import GM.model.Base GM.model.Bufio GM.proofs.BufioProofs.
From Coq Require Import ZArith.
Open Scope Z_scope.

(* the bytes the destination accepted are always a prefix of the full output *)
Theorem C14_accepted_is_prefix : forall size limit ops, 1 <= size -> rune_ops_ok ops ->
  is_prefix (d_acc (fst (render_to size limit ops))) (full_output ops) = true.
Proof. exact accepted_is_prefix. Qed.
Print Assumptions C14_accepted_is_prefix.

(* no fault: everything arrives, no error *)
Theorem C14_no_fault_complete : forall size ops, 1 <= size -> rune_ops_ok ops ->
  render_to size None ops = ({| d_acc := full_output ops; d_limit := None; d_failed := false |}, false).
Proof. exact no_fault_complete. Qed.
Print Assumptions C14_no_fault_complete.

(* fault at offset k: an error is returned exactly when the output is longer than k (also for
   offsets beyond the buffer size), and exactly the first k bytes were accepted *)
Theorem C14_fault_reported : forall size k ops, 1 <= size -> 0 <= k -> rune_ops_ok ops ->
  let '(d, err) := render_to size (Some k) ops in
  (err = true <-> k < zlen (full_output ops)) /\
  d_acc d = firstn (Z.to_nat k) (full_output ops).
Proof. exact fault_reported. Qed.
Print Assumptions C14_fault_reported.

(* non-vacuity: writes larger than the 16-byte buffer (direct writes) with a fault at offset 50 *)
Example C14_demo :
  let ops := [WWrite (repeat 65%N 10); WWrite (repeat 66%N 100); WByte 67%N] in
  render_to 16 (Some 50) ops = ({| d_acc := firstn 50 (full_output ops); d_limit := Some 50; d_failed := true |}, true).
Proof. vm_compute. reflexivity. Qed.
