(* C19 - Escaping and normalisation utilities obey their algebraic laws.
   Statements only; every proof is `exact` of a lemma from proofs/. *)
Require Import GM.model.Base GM.model.Util GM.model.HtmlDecode GM.model.UtilI GM.proofs.Concrete.
Open Scope N_scope.

(* EscapeHTML output: bytes other than lt gt dquote amp and the four references (so no raw lt gt dquote,
   and every ampersand starts a well-formed reference) *)
Theorem C19_escape_html_alphabet : forall v, EscOut (EscapeHTML v).
Proof. exact EscapeHTML_out. Qed.
Print Assumptions C19_escape_html_alphabet.

Theorem C19_escape_html_no_raw : forall v,
  Forall (fun b => b <> 60 /\ b <> 62 /\ b <> 34) (EscapeHTML v).
Proof. exact EscapeHTML_no_raw. Qed.
Print Assumptions C19_escape_html_no_raw.

(* ... and decodes back to the input *)
Theorem C19_escape_html_roundtrip : forall v, html_decode (EscapeHTML v) = v.
Proof. exact EscapeHTML_roundtrip. Qed.
Print Assumptions C19_escape_html_roundtrip.
