(* C19 - Escaping and normalisation utilities obey their algebraic laws.
   Statements only; every proof is `exact` of a lemma from proofs/. *)
Require Import GM.model.Base GM.model.Util GM.model.HtmlDecode GM.model.UrlSpec GM.model.UtilI GM.proofs.Concrete.
Require Import GM.gen.Tables.
Open Scope N_scope.

(* EscapeHTML output: bytes other than lt gt dquote amp and the four references (so no raw lt gt dquote,
   and every ampersand starts a well-formed reference) *)
Theorem C19_escape_html_alphabet : forall v, EscOut (EscapeHTML v).
Proof. exact EscapeHTML_out. Qed.
Print Assumptions C19_escape_html_alphabet.

Theorem C19_escape_html_no_raw : forall v,
  Forall (fun b => b <> 60 /\ b <> 62 /\ b <> 34) (EscapeHTML v).
Proof. exact EscapeHTML_no_raw. Qed.
Print Assumptions C19_escape_html_no_raw.

(* ... and decodes back to the input *)
Theorem C19_escape_html_roundtrip : forall v, html_decode (EscapeHTML v) = v.
Proof. exact EscapeHTML_roundtrip. Qed.
Print Assumptions C19_escape_html_roundtrip.

(* URLEscape, escaping stage (URLEscape v false; with resolveReference the input is first
   resolved and then goes through the same stage).  Inputs are Go byte slices: every element < 256. *)

(* no space, control, DEL, double-quote or angle-bracket byte *)
Theorem C19_url_escape_alphabet : forall v, all_bytes v -> forallb url_byte_ok (URLEscapeRaw v) = true.
Proof. exact URLEscape_alphabet. Qed.
Print Assumptions C19_url_escape_alphabet.

(* every percent sign is followed by two hexadecimal digits *)
Theorem C19_url_escape_percent : forall v, all_bytes v -> percent_ok (URLEscapeRaw v) = true.
Proof. exact URLEscape_percent. Qed.
Print Assumptions C19_url_escape_percent.

(* an existing %XX triple reached by the scan is kept as it is *)
Theorem C19_url_escape_keeps_triple : forall f total h1 h2 rest,
  is_hex h1 = true -> is_hex h2 = true ->
  url_escape_loop url_escape_table utf8len_table (S f) total (37 :: h1 :: h2 :: rest)
  = 37 :: h1 :: h2 :: url_escape_loop url_escape_table utf8len_table f total rest.
Proof. exact URLEscape_keeps_triple. Qed.
Print Assumptions C19_url_escape_keeps_triple.

(* idempotent *)
Theorem C19_url_escape_idempotent : forall v, all_bytes v -> URLEscapeRaw (URLEscapeRaw v) = URLEscapeRaw v.
Proof. exact URLEscape_idempotent. Qed.
Print Assumptions C19_url_escape_idempotent.

(* pure ASCII for valid UTF-8 input *)
Theorem C19_url_escape_ascii : forall v, all_bytes v -> valid_utf8 v = true ->
  Forall (fun b => b < 128) (URLEscapeRaw v).
Proof. exact URLEscape_ascii. Qed.
Print Assumptions C19_url_escape_ascii.
