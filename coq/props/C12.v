(* C12 - The source buffer is never written.  Statements only; proofs in proofs/SliceProofs.v.
   The model (model/SliceHeap.v) gives Go slices their backing arrays, capacities and in-place
   append, and logs every store. *)
Require Import GM.model.Base GM.model.SliceHeap GM.proofs.SliceProofs.
From Coq Require Import Arith.
Open Scope nat_scope.

(* Segment.Value (after the fix) performs no store into the array of the buffer it is given,
   whatever spare capacity that buffer has and whatever else lives in the heap, and leaves that
   array's content unchanged *)
Theorem C12_seg_value_no_store_into_input : forall h buffer t h' r, valid_slice h buffer ->
  seg_value_h h buffer t = Some (h', r) ->
  (exists n, h_stores h' = h_stores h ++ n /\ Forall (fun st => fst st <> sl_arr buffer) n) /\
  arr_of h' (sl_arr buffer) = arr_of h (sl_arr buffer).
Proof. exact seg_value_no_store_into_input. Qed.
Print Assumptions C12_seg_value_no_store_into_input.

(* the pinned tree's version did write past the caller's slice: witness with one spare byte *)
Theorem C12_seg_value_pinned_refuted : exists h buffer t h' r,
  valid_slice h buffer /\ seg_value_h_pinned h buffer t = Some (h', r) /\
  In (sl_arr buffer, sl_off buffer + sl_len buffer) (h_stores h').
Proof. exact seg_value_pinned_refuted. Qed.
Print Assumptions C12_seg_value_pinned_refuted.

(* util.CopyOnWriteBuffer: after NewCopyOnWriteBuffer(s) no sequence of Write / Append calls
   stores into the array of s (every transforming util function writes through such a buffer) *)
Theorem C12_cob_protocol : forall h s ops h' b', valid_slice h s ->
  cob_run h (new_cob s) ops = (h', b') ->
  (exists n, h_stores h' = h_stores h ++ n /\ Forall (fun st => fst st <> sl_arr s) n) /\
  arr_of h' (sl_arr s) = arr_of h (sl_arr s).
Proof. exact cob_protocol. Qed.
Print Assumptions C12_cob_protocol.

(* the frame: the statements of goldmark that can store through a []byte at all (regenerated on
   every run with go/types from the current source, gen/WriteSites.v) are all on the reviewed
   list of model/WriteSitesReviewed.v, where each is shown to write into a slice made in the
   same function, or is one of the two mechanisms modelled above *)
Require GM.gen.WriteSites GM.model.WriteSitesReviewed GM.proofs.MiscProofs.
Import GM.proofs.MiscProofs.
Theorem C12_write_sites_reviewed :
  WriteSitesReviewed.sites_reviewed WriteSites.write_sites WriteSites.write_scan_problems = true.
Proof. exact write_sites_all_reviewed. Qed.
Print Assumptions C12_write_sites_reviewed.
