(* C06 - Output is a pure function of configuration and source.  Statements only; proofs in
   proofs/ConcProofs.v (Section InstP) and proofs/AccessFacts.v.
   The life-cycle model (model/Instance.v) freezes the dispatch tables once and makes every call a
   function of the frozen tables and its arguments; that the Go code has no other state
   surviving a call is the regenerated fact accesses_ok on the store sites of the current source
   (every store is on a per-call object, in a set-up function, or inside a Once.Do closure). *)
Require Import GM.model.Base GM.model.Instance GM.model.AccessSpec GM.gen.Access.
Require Import GM.proofs.ConcProofs GM.proofs.AccessFacts.

Theorem C06_accesses_ok : accesses_ok store_sites = true.
Proof. exact accesses_ok_holds. Qed.
Print Assumptions C06_accesses_ok.

Section Inst.
Variables config ptables rtables tree : Type.
Variable freeze_p : config -> ptables.
Variable freeze_r : config -> rtables.
Variable parse_with : ptables -> bytes -> tree.
Variable render_with : rtables -> bytes -> tree -> bytes.
Notation step := (step config ptables rtables tree freeze_p freeze_r parse_with render_with).
Notation run := (run config ptables rtables tree freeze_p freeze_r parse_with render_with).
Notation new_inst := (new_inst config ptables rtables).

(* after any history of Convert / Parse / Render calls, any call gives the same result as on a
   fresh instance of the same configuration *)
Theorem C06_history_independent : forall c h call,
  snd (step (run (new_inst c) h) call) = snd (step (new_inst c) call).
Proof. exact (history_independent config ptables rtables tree freeze_p freeze_r parse_with render_with). Qed.

(* Convert is Parse followed by Render *)
Theorem C06_convert_is_parse_render : forall c h src,
  snd (step (run (new_inst c) h) (CConvert tree src)) =
  OBytes tree (render_with (freeze_r c) src (parse_with (freeze_p c) src)).
Proof. exact (convert_is_parse_render config ptables rtables tree freeze_p freeze_r parse_with render_with). Qed.

(* rendering the same tree again gives the same bytes *)
Theorem C06_rerender_same : forall c h1 h2 src t,
  snd (step (run (new_inst c) h1) (CRender tree src t)) =
  snd (step (run (new_inst c) (h1 ++ CRender tree src t :: h2)) (CRender tree src t)).
Proof. exact (rerender_same config ptables rtables tree freeze_p freeze_r parse_with render_with). Qed.
End Inst.
Print Assumptions C06_history_independent.
Print Assumptions C06_convert_is_parse_render.
Print Assumptions C06_rerender_same.
