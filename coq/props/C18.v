(* C18 - Reader, BlockReader and Segment behave as a cursor over the source.
   Statements only; proofs are in proofs/ReaderProofs.v and proofs/BReaderProofs.v.
   RInv / BInv are the reader invariants (model/ReaderSpec.v); r_view / b_view is the view at
   the position (padding spaces, then the bytes to the end of the line), r_rest / b_rest all
   that the cursor still delivers. *)
Require Import GM.model.Base GM.model.Util GM.model.Reader GM.model.ReaderSpec.
Require Import GM.proofs.ReaderProofs GM.proofs.BReaderProofs.
From Coq Require Import ZArith.
Open Scope Z_scope.

(* ================= plain reader ================= *)
Theorem C18_new_reader_inv : forall src, RInv (new_reader src).
Proof. exact new_reader_inv. Qed.
Print Assumptions C18_new_reader_inv.

Theorem C18_peek_line_is_view : forall r, RInv r ->
  exists r', r_peek_line r = Ok (r', (if r_in_range r then Some (r_view r) else None), r_pos r)
             /\ RInv r' /\ r_position r' = r_position r /\ r_src r' = r_src r.
Proof. exact peek_line_is_view. Qed.
Print Assumptions C18_peek_line_is_view.

Theorem C18_peek_is_head : forall r, RInv r ->
  r_peek r = Ok (if r_in_range r then hd 255%N (r_view r) else 255%N).
Proof. exact peek_is_head. Qed.
Print Assumptions C18_peek_is_head.

Theorem C18_advance_skips : forall r n, RInv r -> 0 <= n <= zlen (r_rest r) ->
  exists r', r_advance r n = Ok r' /\ RInv r' /\ r_src r' = r_src r /\
             r_rest r' = skipn (Z.to_nat n) (r_rest r).
Proof. exact advance_skips. Qed.
Print Assumptions C18_advance_skips.

Theorem C18_advance_line_skips : forall r, RInv r ->
  RInv (r_advance_line r) /\ r_src (r_advance_line r) = r_src r /\
  (r_in_range r = true -> r_rest (r_advance_line r) = skipn (length (r_view r)) (r_rest r)).
Proof. exact advance_line_skips. Qed.
Print Assumptions C18_advance_line_skips.

Theorem C18_set_position_restores : forall r line pos, RInv r -> saved_from (r_src r) line pos ->
  exists r', r_set_position r line pos = Ok r' /\ RInv r' /\ r_src r' = r_src r /\
             r_position r' = (line, pos).
Proof. exact set_position_restores. Qed.
Print Assumptions C18_set_position_restores.

Theorem C18_set_padding_inv : forall r v, RInv r -> 0 <= v ->
  RInv (r_set_padding r v) /\ r_src (r_set_padding r v) = r_src r /\
  s_start (r_pos (r_set_padding r v)) = s_start (r_pos r) /\ s_pad (r_pos (r_set_padding r v)) = v.
Proof. exact set_padding_inv. Qed.
Print Assumptions C18_set_padding_inv.

Theorem C18_line_offset_is_column : forall r h, RInv r -> r_in_range r = true ->
  line_head (r_src r) (s_start (r_pos r)) = Some h ->
  exists r', r_line_offset r = Ok (r', r_column r h) /\ RInv r' /\ r_position r' = r_position r /\ r_src r' = r_src r.
Proof. exact line_offset_is_column. Qed.
Print Assumptions C18_line_offset_is_column.

Theorem C18_line_head_exists : forall src start, 0 <= start <= zlen src ->
  exists h, line_head src start = Some h /\ 0 <= h <= start.
Proof. exact line_head_exists. Qed.
Print Assumptions C18_line_head_exists.

Theorem C18_value_is_segment_value : forall r t, r_value r t = seg_value (r_src r) t.
Proof. exact value_is_segment_value. Qed.
Print Assumptions C18_value_is_segment_value.

Section Tables.
Variable punct_table : list N.
Theorem C18_find_closure_pure : forall r fuel o c opts r' res, RInv r -> o_advance opts = false ->
  r_find_closure punct_table fuel r o c opts = Ok (r', res) ->
  r_position r' = r_position r /\ RInv r' /\ r_src r' = r_src r.
Proof. exact (find_closure_pure punct_table). Qed.

Theorem C18_find_closure_total : forall r o c opts, RInv r ->
  exists r' res, r_find_closure punct_table (Z.to_nat (zlen (r_src r)) + 2) r o c opts = Ok (r', res).
Proof. exact (find_closure_total punct_table). Qed.

Theorem C18_b_find_closure_pure : forall r fuel o c opts r' res, BInv r -> o_advance opts = false ->
  b_find_closure punct_table fuel r o c opts = Ok (r', res) ->
  b_position r' = b_position r /\ BInv r' /\ b_src r' = b_src r /\ b_segs r' = b_segs r.
Proof. exact (b_find_closure_pure punct_table). Qed.

Theorem C18_b_find_closure_total : forall r o c opts, BInv r ->
  exists r' res, b_find_closure punct_table (length (b_segs r) + 2) r o c opts = Ok (r', res).
Proof. exact (b_find_closure_total punct_table). Qed.
End Tables.
Print Assumptions C18_find_closure_pure.
Print Assumptions C18_find_closure_total.
Print Assumptions C18_b_find_closure_pure.
Print Assumptions C18_b_find_closure_total.

Theorem C18_inv_in_range : forall r, RInv r ->
  0 <= s_start (r_pos r) <= s_stop (r_pos r) /\ s_stop (r_pos r) <= zlen (r_src r).
Proof. exact inv_in_range. Qed.
Print Assumptions C18_inv_in_range.

(* ================= block reader ================= *)
Theorem C18_new_block_reader_inv : forall src segs, segs_ok src segs ->
  exists r, new_block_reader src segs = Ok r /\ BInv r /\ b_src r = src /\ b_segs r = segs.
Proof. exact new_block_reader_inv. Qed.
Print Assumptions C18_new_block_reader_inv.

Theorem C18_b_peek_line_is_view : forall r, BInv r ->
  b_peek_line r = Ok (r, (if b_in_range r then Some (b_view r) else None), b_pos r).
Proof. exact b_peek_line_is_view. Qed.
Print Assumptions C18_b_peek_line_is_view.

Theorem C18_b_peek_is_head : forall r, BInv r ->
  b_peek r = Ok (if b_in_range r then hd 255%N (b_view r) else 255%N).
Proof. exact b_peek_is_head. Qed.
Print Assumptions C18_b_peek_is_head.

Theorem C18_b_advance_skips : forall r n, BInv r -> 0 <= n <= zlen (b_rest r) ->
  exists r', b_advance r n = Ok r' /\ BInv r' /\ b_src r' = b_src r /\ b_segs r' = b_segs r /\
             b_rest r' = skipn (Z.to_nat n) (b_rest r).
Proof. exact b_advance_skips. Qed.
Print Assumptions C18_b_advance_skips.

Theorem C18_b_advance_line_skips : forall r, BInv r ->
  exists r', b_advance_line r = Ok r' /\ BInv r' /\ b_src r' = b_src r /\ b_segs r' = b_segs r /\
  (b_in_range r = true -> b_rest r' = skipn (length (b_view r)) (b_rest r)).
Proof. exact b_advance_line_skips. Qed.
Print Assumptions C18_b_advance_line_skips.

(* restoring a saved position; over an EMPTY block the saved position is the marker -1, which
   SetPosition does not restore - excluded by the first disjunct (found while proving) *)
Theorem C18_b_set_position_restores : forall r line pos, BInv r -> b_saved_from (b_src r) (b_segs r) line pos ->
  (b_segs r <> [] \/ b_pos r = pos) ->
  exists r', b_set_position r line pos = Ok r' /\ BInv r' /\ b_src r' = b_src r /\ b_segs r' = b_segs r /\
             b_position r' = (line, pos).
Proof. exact b_set_position_restores. Qed.
Print Assumptions C18_b_set_position_restores.

Theorem C18_b_set_padding_inv : forall r v, BInv r -> 0 <= v ->
  BInv (b_set_padding r v) /\ b_src (b_set_padding r v) = b_src r /\ b_segs (b_set_padding r v) = b_segs r /\
  s_start (b_pos (b_set_padding r v)) = s_start (b_pos r) /\ s_pad (b_pos (b_set_padding r v)) = v.
Proof. exact b_set_padding_inv. Qed.
Print Assumptions C18_b_set_padding_inv.

Theorem C18_b_line_offset_is_column : forall r, BInv r ->
  exists r', b_line_offset r = Ok (r', b_column r) /\ BInv r' /\ b_position r' = b_position r /\
             b_src r' = b_src r /\ b_segs r' = b_segs r.
Proof. exact b_line_offset_is_column. Qed.
Print Assumptions C18_b_line_offset_is_column.

Theorem C18_b_value_is_segment_value : forall r sg k s, BInv r ->
  nth_error (b_segs r) k = Some s ->
  s_start s <= s_start sg <= s_stop sg -> s_stop sg <= s_stop s -> s_start sg < s_stop s ->
  0 <= s_pad sg -> s_fnl sg = false ->
  b_value r sg = seg_value (b_src r) sg.
Proof. exact b_value_is_segment_value. Qed.
Print Assumptions C18_b_value_is_segment_value.

Theorem C18_b_inv_in_range : forall r, BInv r -> b_in_range r = true ->
  0 <= s_start (b_pos r) <= s_stop (b_pos r) /\ s_stop (b_pos r) <= zlen (b_src r).
Proof. exact b_inv_in_range. Qed.
Print Assumptions C18_b_inv_in_range.

(* non-vacuity: the invariants hold of concrete readers, and a saved position exists *)
Example C18_demo : RInv (new_reader [97; 10; 9; 98]%N) /\ saved_from [97; 10; 9; 98]%N 0 (mksegp 0 2 0).
Proof.
  split; [apply new_reader_inv|].
  exists (new_reader [97; 10; 9; 98]%N). split; [apply new_reader_inv|]. split; reflexivity.
Qed.
