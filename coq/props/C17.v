(* C17 - Every rendered table is rectangular.  Statements only; proofs in proofs/TableProofs.v.
   TableTransform is the model of the table paragraph transformer instantiated with the space
   table dumped from the running code. *)
Require Import GM.model.Base GM.model.Util GM.model.Reader GM.model.Html GM.model.TableX GM.model.UtilI.
Require Import GM.gen.Tables GM.proofs.TableProofs.
Open Scope N_scope.

(* every table produced has at least one column, a header with exactly one cell per column
   (a header that does not match the delimiter row yields no table at all), and every body row
   has exactly that many cells *)
Theorem C17_transform_rectangular : forall src lines kept tbl,
  TableTransform src lines = Ok (Some (kept, tbl)) ->
  t_aligns tbl <> [] /\
  length (t_header tbl) = length (t_aligns tbl) /\
  Forall (fun r => length r = length (t_aligns tbl)) (t_rows tbl).
Proof. exact (transform_rectangular space_table). Qed.
Print Assumptions C17_transform_rectangular.

(* short rows are padded, excess cells dropped *)
Theorem C17_body_row_width : forall src sg aligns cells,
  parse_row space_table src sg aligns false = Ok cells -> length cells = length aligns.
Proof. exact (body_row_width space_table). Qed.
Print Assumptions C17_body_row_width.

(* each cell written in the source carries the alignment of its column *)
Theorem C17_row_cell_alignment : forall src sg aligns hdr cells i s a,
  parse_row space_table src sg aligns hdr = Ok cells -> nth_error cells i = Some (Some s, a) ->
  nth_error aligns i = Some a \/ (hdr = true /\ (length aligns <= i)%nat /\ a = ANone).
Proof. exact (row_cell_alignment space_table). Qed.
Print Assumptions C17_row_cell_alignment.

Theorem C17_row_padding_cells : forall src sg aligns cells i a,
  parse_row space_table src sg aligns false = Ok cells -> nth_error cells i = Some (None, a) -> a = ANone.
Proof. exact (row_padding_cells space_table). Qed.
Print Assumptions C17_row_padding_cells.

(* no line is lost: kept paragraph lines + header + delimiter + body rows *)
Theorem C17_transform_accounts_lines : forall src lines kept tbl,
  TableTransform src lines = Ok (Some (kept, tbl)) ->
  (length kept + 2 + length (t_rows tbl) = length lines)%nat.
Proof. exact (transform_accounts_lines space_table). Qed.
Print Assumptions C17_transform_accounts_lines.

(* non-vacuity: '|a|b|' / '|-|:-:|' / '|c|'  gives a 2-column table whose short row is padded;
   the pinned tree's witness '|a|' / '|-|-|' gives no table *)
Example C17_demo :
  let src := [124;97;124;98;124;10;124;45;124;58;45;58;124;10;124;99;124;10] in
  match TableTransform src [mkseg 0 6; mkseg 6 14; mkseg 14 18] with
  | Ok (Some (kept, tbl)) => (length kept, t_aligns tbl, map (fun r => length r) (t_rows tbl)) = (0%nat, [ANone; ACenter], [2%nat])
  | _ => False
  end /\
  TableTransform [124;97;124;10;124;45;124;45;124;10] [mkseg 0 4; mkseg 4 10] = Ok None.
Proof. vm_compute. split; reflexivity. Qed.

(* ---------------- end to end, for the model of the parser with extension.GFM (model/GfmI.v:
   the table paragraph transformer inside the block driver, the conversion to Table / Header /
   Row / Cell nodes, the inline phase in the cells, the escaped-pipe AST transformer; compared
   with goldmark on every run).  For EVERY source and every subset of the four extensions, every
   Table node of the tree has one header row with at least one cell, body rows that all have as
   many cells as the header, cells only, and every cell written in the source carries the
   alignment of its column (tables_ok / table_rect of model/GfmSpec.v; header, row and cell nodes
   occur nowhere else). *)
Require Import GM.model.Html GM.model.InlineParseX GM.model.GfmI GM.model.GfmSpec GM.proofs.GfmTableRect.
Theorem C17_every_table_rectangular : forall xc src t, ParseTreeX xc src = Ok t -> tables_ok false t = true.
Proof. exact ParseTreeX_tables_rect. Qed.
Print Assumptions C17_every_table_rectangular.
