(* C07 - A configured instance is safe for concurrent use.  Statements only; proofs in
   proofs/ConcProofs.v (Section ConcP) and proofs/AccessFacts.v.
   The interleaving model (model/Conc.v): N threads, each a list of once.Do / read actions over
   the three sync.Once sites; per-call state is private (model/Instance.v).  What the model
   cannot exhibit - torn reads, compiler reordering, map internals - is covered only by the
   race detector on executed paths. *)
Require Import GM.model.Base GM.model.Conc GM.model.AccessSpec GM.gen.Access.
Require Import GM.proofs.ConcProofs GM.proofs.AccessFacts.
From Coq Require Import Arith.

(* every store in the source is on a per-call object, in a set-up function or inside a Do closure *)
Theorem C07_accesses_ok : accesses_ok store_sites = true.
Proof. exact accesses_ok_holds. Qed.
Print Assumptions C07_accesses_ok.

Section Conc.
Variable spec : oid_ -> once_spec.
Variable progs : tid -> list action.
Hypothesis guarded : forall t, reads_guarded spec [] (progs t) = true.
Variable init_val : loc -> nat.
Hypothesis spec_functional : forall o f v, In (f, v) (o_writes (spec o)) -> v = init_val f.
Hypothesis unique_writer : forall o o' f v v',
  In (f, v) (o_writes (spec o)) -> In (f, v') (o_writes (spec o')) -> o = o'.

(* for every schedule: no deadlock *)
Theorem C07_no_deadlock : forall s t, reachable spec progs s -> c_threads s t <> [] ->
  exists t', cstep spec s t' <> None.
Proof. exact (no_deadlock spec progs guarded init_val spec_functional). Qed.

(* every read of a frozen table returns its initialised value: each call computes what it would
   compute alone (with C06: its output is the sequential output) *)
Theorem C07_reads_see_init : forall s t f v, reachable spec progs s -> In (ERead t f v) (c_trace s) ->
  v = Some (init_val f).
Proof. exact (reads_see_init spec progs guarded init_val spec_functional). Qed.

(* no data race on the frozen tables: every write precedes every read, and the reader has
   returned from the Do that orders them (write -> DoExit -> Do return -> read) *)
Theorem C07_writes_before_reads : forall s i j t o f v t' v', reachable spec progs s ->
  nth_error (c_trace s) i = Some (EWrite t o f v) -> nth_error (c_trace s) j = Some (ERead t' f v') -> i < j.
Proof. exact (writes_before_reads spec progs guarded init_val spec_functional unique_writer). Qed.

Theorem C07_read_after_do_return : forall s j t f v, reachable spec progs s ->
  nth_error (c_trace s) j = Some (ERead t f v) ->
  exists k o, k < j /\ (exists w, In (f, w) (o_writes (spec o))) /\
              (nth_error (c_trace s) k = Some (EDoExit t o) \/ nth_error (c_trace s) k = Some (EDoSkip t o)).
Proof. exact (read_after_do_return spec progs guarded init_val spec_functional). Qed.

(* the initialising closure runs at most once *)
Theorem C07_once_runs_once : forall s i j t t' o, reachable spec progs s ->
  nth_error (c_trace s) i = Some (EDoExit t o) -> nth_error (c_trace s) j = Some (EDoExit t' o) -> i = j.
Proof. exact (once_runs_once spec progs guarded init_val spec_functional). Qed.
End Conc.
Print Assumptions C07_no_deadlock.
Print Assumptions C07_reads_see_init.
Print Assumptions C07_writes_before_reads.
Print Assumptions C07_read_after_do_return.
Print Assumptions C07_once_runs_once.

(* non-vacuity: three threads racing the first use of two Onces *)
Example C07_demo :
  let spec := fun o => {| o_writes := if Nat.eqb o 0 then [(0, 7); (1, 8)] else [(2, 9)] |} in
  let progs := fun t => if Nat.ltb t 3 then [ADo 0; ARead 0; ADo 1; ARead 2; ARead 1] else [] in
  let s := crun spec (init_state progs) [0;1;2;1;0;0;2;0;1;1;2;2;0;0;1;1;2;2;0;0;1;1;2;2;0;1;2;0;1;2;0;1;2] in
  (forall t, reads_guarded spec [] (progs t) = true) /\
  forallb (fun e => match e with ERead _ 0 v => match v with Some 7 => true | _ => false end | _ => true end) (c_trace s) = true.
Proof. cbv zeta. split; [intro t; destruct t as [|[|[|t]]]; reflexivity | vm_compute; reflexivity]. Qed.
