(* C01 - Conversion is total.  Theorems about the modelled code: no modelled function panics
   or diverges.  (The unmodelled remainder is covered by watchdog runs; see DESIGN.md.) *)
Require Import GM.model.Base GM.model.Util GM.model.UrlSpec GM.model.UtilI.
Require Import GM.gen.Tables GM.proofs.TotalProofs GM.proofs.Concrete GM.proofs.UrlProofs.
From Coq Require Import ZArith.
Require Import GM.model.Reader GM.model.Html GM.model.HtmlI GM.model.HtmlSpec GM.proofs.HtmlConcrete.

(* util.ToRune never panics for an in-range position (the CJK soft-break rule calls it with
   the last index of a non-empty text value) *)
Theorem C01_to_rune_total : forall v pos, (0 <= pos < zlen v)%Z -> exists r, to_rune v pos = Ok r.
Proof. exact to_rune_total. Qed.
Print Assumptions C01_to_rune_total.

(* util.URLEscape's loop terminates: each iteration consumes at least one byte, so fuel equal
   to the input length is enough and more fuel changes nothing *)
Theorem C01_url_escape_terminates : forall v total f1 f2,
  (length v <= f1)%nat -> (length v <= f2)%nat ->
  url_escape_loop url_escape_table utf8len_table f1 total v
  = url_escape_loop url_escape_table utf8len_table f2 total v.
Proof. exact (url_escape_fuel_enough url_escape_table utf8len_table real_url_tables_ok). Qed.
Print Assumptions C01_url_escape_terminates.

(* rendering a well-formed tree never panics, under every option combination (this covers e.g.
   the heading-level index, every Segment.Value slice, the code-span type assertion) *)
Theorem C01_render_total : forall c src t, wf_tree src t = true -> exists o, RenderHTML c src t = Ok o.
Proof. exact RenderHTML_total. Qed.
Print Assumptions C01_render_total.

(* the modelled block and inline scanners (ATX heading and fence openers, ScanDelimiter) never
   panic on what the driver hands them: any line and block offset for ATX; an offset inside
   the line for a fence; a non-empty line for a delimiter run *)
Require Import GM.model.ListItem GM.model.LeafBlocks GM.model.Delim GM.model.DelimI GM.proofs.BlockRangeProofs.
Theorem C01_atx_open_total : forall line pos, atx_open space_table line pos <> Panic.
Proof. exact (atx_open_total space_table). Qed.
Print Assumptions C01_atx_open_total.
Theorem C01_fence_open_total : forall line pos, (pos < zlen line)%Z -> fence_open space_table line pos <> Panic.
Proof. exact (fence_open_total space_table). Qed.
Print Assumptions C01_fence_open_total.
Theorem C01_scan_delimiter_total : forall line before minimum, line <> [] -> ScanDelimiter line before minimum <> Panic.
Proof. exact (scan_delimiter_total PunctRune SpaceRune emph_delim). Qed.
Print Assumptions C01_scan_delimiter_total.

(* the Convert model (parser model, checked, then the renderer model): once parsing has returned
   its tree, rendering cannot fail, in any configuration *)
Require Import GM.model.ParseI GM.model.ParseChecked GM.proofs.ParseCheckedProofs.
Theorem C01_convert_render_total : forall c src t, ParseTreeC src = Ok t -> exists o, ConvertModelC c src = Ok o.
Proof. exact ConvertModelC_render_total. Qed.
Print Assumptions C01_convert_render_total.
(* the regular expression matcher of the model (HTML blocks, raw HTML, autolinks) is total by
   construction (it returns an option); its fuel never runs out: it decides the declarative
   semantics of proofs/RegexProofs.v *)
Require Import GM.model.Regex GM.proofs.RegexProofs.
Theorem C01_regex_matcher_decides : forall r s, re_match r s = true <-> exists i j, Boundary s i /\ Matches s r i j.
Proof. exact re_match_spec. Qed.
Print Assumptions C01_regex_matcher_decides.

(* the block phase of the parser model (parseBlocks, openBlocks, closeBlocks, the ten block parsers,
   the link reference definition transformer, and the conversion of the heap to a tree) never
   panics and never runs out of fuel: for EVERY source *)
Require Import GM.proofs.ParseBlocksTotal GM.proofs.ParseInv.
Theorem C01_parse_blocks_total : forall src, bytes_ok src -> exists r, ParseBlocksTree src = Ok r.
Proof. exact ParseBlocksTree_total. Qed.
Print Assumptions C01_parse_blocks_total.
(* once the (unchecked) parser model has returned its tree, rendering cannot fail, in any
   configuration: the tree is well formed by C05_parser_output_wf *)
Require Import GM.proofs.ParseFinal.
Theorem C01_convert_model_render_total : forall c src t, bytes_ok src -> ParseTree src = Ok t -> exists o, ConvertModel c src = Ok o.
Proof. exact ConvertModel_render_total_all. Qed.
Print Assumptions C01_convert_model_render_total.

(* THE statement of C01 for the Convert model of the default parser: for EVERY source and EVERY
   renderer configuration the model - block phase, inline phase, renderer - returns an output; no
   modelled function panics, no fuel runs out (the fuel formulas of the model are therefore
   irrelevant: the loops they bound terminate) *)
Require Import GM.proofs.ParseInlineTotal.
Theorem C01_inline_phase_total : forall refs src lines, bytes_ok src -> lines_ok src lines ->
  exists ts, InlineChildren refs src lines = Ok ts.
Proof. exact InlineChildren_total. Qed.
Print Assumptions C01_inline_phase_total.
Theorem C01_parser_model_total : forall src, bytes_ok src -> exists t, ParseTree src = Ok t.
Proof. exact ParseTree_total_all. Qed.
Print Assumptions C01_parser_model_total.
Theorem C01_convert_model_total : forall c src, bytes_ok src -> exists o, ConvertModel c src = Ok o.
Proof. exact ConvertModel_total_all. Qed.
Print Assumptions C01_convert_model_total.
(* bytes_ok says that every element of the source is a byte (< 256): true of every Go []byte *)

(* ---------------- the statement of C01 for the Convert model with extension.GFM (model/GfmI.v:
   tables, strikethrough, task lists, linkify; every subset): for EVERY source and EVERY renderer
   configuration the model returns an output - no Panic, no exhausted fuel in the generalised
   block driver with the table transformer, the inline loop with the three extension parsers, the
   table AST pass, the renderer *)
Require Import GM.model.InlineParseX GM.model.GfmI GM.proofs.GfmWf.
Theorem C01_gfm_parser_model_total : forall xc src, bytes_ok src -> exists t, ParseTreeX xc src = Ok t.
Proof. exact ParseTreeX_total. Qed.
Print Assumptions C01_gfm_parser_model_total.
Theorem C01_convert_gfm_model_total : forall xc c src, bytes_ok src -> exists o, ConvertModelX xc c src = Ok o.
Proof. exact ConvertModelX_total. Qed.
Print Assumptions C01_convert_gfm_model_total.

(* and with extension.Footnote (model/FootnoteI.v) - including the nested definitions whose
   list -> footnote -> list cycle in the heap the tree walks have to survive *)
Require Import GM.model.FootnoteI GM.proofs.FootnoteWf.
Theorem C01_convert_footnote_model_total : forall c src, bytes_ok src -> exists o, ConvertModelFn c src = Ok o.
Proof. exact ConvertModelFn_total. Qed.
Print Assumptions C01_convert_footnote_model_total.

(* and with the heading options (model/HeadingOptsI.v; all four option sets), attribute parser
   included *)
Require Import GM.model.HeadingOpts GM.model.HeadingOptsI GM.proofs.HeadingOptsWf.
Theorem C01_convert_heading_options_total : forall hc c src, bytes_ok src -> exists o, ConvertModelH hc c src = Ok o.
Proof. exact ConvertModelH_total. Qed.
Print Assumptions C01_convert_heading_options_total.

(* and with extension.Typographer / extension.DefinitionList (model/TypoDefI.v; both switches) *)
Require Import GM.model.TypoDefParse GM.model.TypoDefI GM.proofs.TypoDefWf.
Theorem C01_convert_typodef_model_total : forall tc c src, bytes_ok src -> exists o, ConvertModelTD tc c src = Ok o.
Proof. exact ConvertModelTD_total. Qed.
Print Assumptions C01_convert_typodef_model_total.
