(* C20 - Registered parsers, transformers and renderers are applied strictly by priority.
   Statements only; proofs are in proofs/PrioProofs.v. *)
Require Import GM.model.Base GM.model.Prio GM.proofs.PrioProofs.
From Coq Require Import ZArith Permutation Sorted.
Open Scope Z_scope.

(* for pairwise distinct priorities the sorted order is unique: it does not depend on the
   sorting algorithm (sort.Slice is not stable) nor on the registration order *)
Theorem C20_sorted_unique : forall l1 l2, distinct_prios l1 -> Permutation l1 l2 ->
  StronglySorted prio_le l1 -> StronglySorted prio_le l2 -> l1 = l2.
Proof. exact sorted_unique. Qed.
Print Assumptions C20_sorted_unique.

Theorem C20_tables_perm_invariant : forall l l', distinct_prios l -> Permutation l l' ->
  (forall c, block_candidates l c = block_candidates l' c) /\
  (forall c, inline_table l c = inline_table l' c) /\
  transformer_order l = transformer_order l' /\
  renderer_table l = renderer_table l'.
Proof. exact tables_perm_invariant. Qed.
Print Assumptions C20_tables_perm_invariant.

(* parsers registered for the trigger in ascending priority, trigger-less block parsers after
   them, also ascending *)
Theorem C20_block_order : forall l c, distinct_prios l ->
  exists trig free, block_candidates l c = trig ++ free /\
    StronglySorted prio_le trig /\ StronglySorted prio_le free /\
    Forall (fun p => has_trigger c p = true) trig /\ Forall (fun p => is_free p = true) free /\
    (forall p, In p l -> is_free p = true -> In p free) /\
    (forall p, In p l -> has_trigger c p = true -> In p trig).
Proof. exact block_order. Qed.
Print Assumptions C20_block_order.

Theorem C20_inline_order : forall l c, distinct_prios l ->
  StronglySorted prio_le (inline_table l c) /\
  Forall (fun p => has_trigger c p = true) (inline_table l c) /\
  (forall p, In p l -> has_trigger c p = true -> In p (inline_table l c)).
Proof. exact inline_order. Qed.
Print Assumptions C20_inline_order.

(* the first to accept wins *)
Theorem C20_first_accept_wins : forall cands log w, consult cands = (log, Some w) ->
  exists before p after, cands = before ++ p :: after /\ c_id p = w /\ c_accept p = true /\
    Forall (fun q => c_accept q = false) before /\ log = map c_id before ++ [w].
Proof. exact first_accept_wins. Qed.
Print Assumptions C20_first_accept_wins.

Theorem C20_nobody_accepts : forall cands log, consult cands = (log, None) ->
  Forall (fun q => c_accept q = false) cands /\ log = map c_id cands.
Proof. exact nobody_accepts. Qed.
Print Assumptions C20_nobody_accepts.

(* transformers run in ascending priority *)
Theorem C20_transformers_ascending : forall l, exists s, transformer_order l = map c_id s /\
  Permutation l s /\ StronglySorted prio_le s.
Proof. exact transformers_ascending. Qed.
Print Assumptions C20_transformers_ascending.

(* the renderer function registered with the smallest priority value is the one used *)
Theorem C20_renderer_min_wins : forall l k p, distinct_prios l -> In p l -> In k (c_kinds p) ->
  (forall q, In q l -> In k (c_kinds q) -> c_prio p <= c_prio q) ->
  dispatch (renderer_table l) k = Some (c_id p).
Proof. exact renderer_min_wins. Qed.
Print Assumptions C20_renderer_min_wins.

(* a node of a kind with no renderer function is skipped, without failing, and its children
   are still rendered *)
Theorem C20_missing_renderer_skips : forall l k cs, (forall q, In q l -> ~ In k (c_kinds q)) ->
  render_ktree (renderer_table l) (KNode k cs) = flat_map (render_ktree (renderer_table l)) cs.
Proof. exact missing_renderer_skips. Qed.
Print Assumptions C20_missing_renderer_skips.

(* non-vacuity: three components with distinct priorities competing for one trigger and one kind *)
Example C20_demo :
  let l := [ {| c_id := 1; c_prio := 700; c_trig := Some [64%N]; c_kinds := [5%N]; c_accept := true |};
             {| c_id := 2; c_prio := 50;  c_trig := Some [64%N]; c_kinds := [5%N]; c_accept := false |};
             {| c_id := 3; c_prio := 300; c_trig := None; c_kinds := []; c_accept := true |} ] in
  distinct_prios l /\ consult (block_candidates l 64%N) = ([2%N; 1%N], Some 1%N) /\
  dispatch (renderer_table l) 5%N = Some 2%N.
Proof. cbv zeta. split; [|vm_compute; split; reflexivity].
  unfold distinct_prios; cbn [map c_prio]. repeat constructor; cbn [In]; intuition discriminate. Qed.
