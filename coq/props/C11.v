(* C11 - Extensions are conservative: no trigger syntax, no change.
   Statements only: the framework part.  Registering one more component changes the dispatch
   list of a byte only if the component is registered for that byte; so a document that
   contains none of an extension's trigger bytes is parsed with exactly the same candidate
   lists as without the extension.  (That each built-in extension declines without its trigger
   syntax beyond the trigger byte itself - Footnote without '[^', Linkify without ':' '@' 'www.',
   Typographer - is checked end to end on the implementation.) *)
Require Import GM.model.Base GM.model.Prio GM.proofs.MiscProofs.
Open Scope Z_scope.

Theorem C11_untriggered_inline_noop : forall l p c, has_trigger c p = false ->
  inline_table (p :: l) c = inline_table l c.
Proof. exact untriggered_inline_noop. Qed.
Print Assumptions C11_untriggered_inline_noop.

Theorem C11_untriggered_block_noop : forall l p c, has_trigger c p = false -> is_free p = false ->
  block_candidates (p :: l) c = block_candidates l c.
Proof. exact untriggered_block_noop. Qed.
Print Assumptions C11_untriggered_block_noop.

(* a component that is consulted but declines does not change which component wins *)
Theorem C11_declining_component_invisible : forall l p c, c_accept p = false ->
  snd (consult (inline_table (p :: l) c)) = snd (consult (inline_table l c)).
Proof. exact declining_component_invisible. Qed.
Print Assumptions C11_declining_component_invisible.
