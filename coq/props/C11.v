(* C11 - Extensions are conservative: no trigger syntax, no change.
   Statements only: the framework part.  Registering one more component changes the dispatch
   list of a byte only if the component is registered for that byte; so a document that
   contains none of an extension's trigger bytes is parsed with exactly the same candidate
   lists as without the extension.  (That each built-in extension declines without its trigger
   syntax beyond the trigger byte itself - Footnote without '[^', Linkify without ':' '@' 'www.',
   Typographer - is checked end to end on the implementation.) *)
Require Import GM.model.Base GM.model.Prio GM.proofs.MiscProofs.
Open Scope Z_scope.

Theorem C11_untriggered_inline_noop : forall l p c, has_trigger c p = false ->
  inline_table (p :: l) c = inline_table l c.
Proof. exact untriggered_inline_noop. Qed.
Print Assumptions C11_untriggered_inline_noop.

Theorem C11_untriggered_block_noop : forall l p c, has_trigger c p = false -> is_free p = false ->
  block_candidates (p :: l) c = block_candidates l c.
Proof. exact untriggered_block_noop. Qed.
Print Assumptions C11_untriggered_block_noop.

(* a component that is consulted but declines does not change which component wins *)
Theorem C11_declining_component_invisible : forall l p c, c_accept p = false ->
  snd (consult (inline_table (p :: l) c)) = snd (consult (inline_table l c)).
Proof. exact declining_component_invisible. Qed.
Print Assumptions C11_declining_component_invisible.

(* ---------------- conservativity itself, for the model of the parser with extension.GFM
   (model/GfmI.v; compared with goldmark for all sixteen subsets of the four extensions on every
   run).  For EVERY source and whatever the other three switches are: switching Strikethrough on
   does not change the tree of a source without '~'; TaskList, of a source without '['; Table, of
   a source without '-'; and with all four off the GFM model IS the model of the default parser
   (so the theorems of C01, C03, C04, C05 about ParseTree hold for it).
   (proofs/GfmConservative*.v, 3.8 k lines.) *)
Require Import GM.model.ParseI GM.model.InlineParseX GM.model.GfmI GM.proofs.ParseInv GM.proofs.GfmConservative.
Theorem C11_strikethrough_conservative : forall xc src, lacks 126 src ->
  ParseTreeX (with_strike xc true) src = ParseTreeX (with_strike xc false) src.
Proof. exact strike_conservative. Qed.
Print Assumptions C11_strikethrough_conservative.
Theorem C11_tasklist_conservative : forall xc src, lacks 91 src ->
  ParseTreeX (with_task xc true) src = ParseTreeX (with_task xc false) src.
Proof. exact task_conservative. Qed.
Print Assumptions C11_tasklist_conservative.
(* for Table the sources are byte strings (every element below 256: true of every Go []byte) *)
Theorem C11_table_conservative : forall xc src, bytes_ok src -> lacks 45 src ->
  ParseTreeX (with_table xc true) src = ParseTreeX (with_table xc false) src.
Proof. exact table_conservative_bytes. Qed.
Print Assumptions C11_table_conservative.
Theorem C11_no_extension_is_default : forall src, ParseTreeX gfm_none src = ParseTree src.
Proof. exact none_is_default. Qed.
Print Assumptions C11_no_extension_is_default.

(* the same at the level the property speaks about - the rendering - for the three extensions
   together: on a source without '~', '[' and '-' they change no byte of the output, whatever the
   Linkify switch is, and with Linkify off the output is the default parser's *)
Require Import GM.model.Html GM.proofs.GfmConservativeOut.
Theorem C11_three_extensions_conservative_output : forall l cfg src,
  bytes_ok src -> lacks 126 src -> lacks 91 src -> lacks 45 src ->
  ConvertModelX (three_on l) cfg src = ConvertModelX (three_off l) cfg src.
Proof. exact three_conservative_output. Qed.
Print Assumptions C11_three_extensions_conservative_output.
Theorem C11_three_extensions_render_as_default : forall cfg src,
  bytes_ok src -> lacks 126 src -> lacks 91 src -> lacks 45 src ->
  ConvertModelX (three_on false) cfg src = ConvertModel cfg src.
Proof. exact three_conservative_default. Qed.
Print Assumptions C11_three_extensions_render_as_default.

(* Linkify, the mechanism (partial: the parser side).  On a line with no ':' , no '@' and nowhere
   "www." - the three conditions of the property - the Linkify inline parser of the GFM model
   declines: no node, context untouched, reader where PeekLine left it; for ANY regular
   expressions, tables and state.  What is NOT a theorem: that the driver's extra flush of the
   pending text at every blank (Linkify sits on the blank trigger) leaves the rendering unchanged;
   that half is decided on the implementation by the with/without comparison of this check. *)
Require Import GM.model.Reader GM.model.InlineParse GM.model.InlineParseX GM.proofs.GfmLinkifyDeclines.
Theorem C11_linkify_parser_declines_partial : forall punct_table email_table re_email_domain re_url re_www xs parent r line segment,
  i_labels (t_c xs) = None ->
  b_peek_line (t_r xs) = Ok (r, Some line, segment) ->
  line <> nil -> no_linkify_trigger line ->
  linkify_parse punct_table email_table re_email_domain re_url re_www xs parent = Ok (ist_r xs r, None).
Proof. exact linkify_declines. Qed.
Print Assumptions C11_linkify_parser_declines_partial.
(* the statement about TREES is false for Linkify: "a b c" carries none of the triggers, the parser
   never accepts, and yet the tree has two Text nodes instead of one, because the driver flushes
   the pending text at every blank when a parser sits on the blank trigger; the output bytes are
   equal under every renderer configuration.  Conservativity of Linkify is a statement about the
   rendering only. *)
Require Import GM.model.Html GM.model.GfmI.
Theorem C11_linkify_tree_at_blank_refuted :
  no_linkify_trigger abc /\
  (forall xc, ParseTreeX (with_linkify xc true) abc <> ParseTreeX (with_linkify xc false) abc) /\
  (forall xc u x h ta, ConvertModelX (with_linkify xc true) {| unsafe := u; xhtml := x; hardwraps := h; talign := ta |} abc
                     = ConvertModelX (with_linkify xc false) {| unsafe := u; xhtml := x; hardwraps := h; talign := ta |} abc).
Proof. exact linkify_tree_counterexample. Qed.
Print Assumptions C11_linkify_tree_at_blank_refuted.

(* ---------------- the same for the models of the other extension parsers (each on top of the
   default parser; compared with goldmark on every run: case kinds ParseTreeFn / ConvertFn,
   ParseTreeTD / ConvertTD).  For EVERY source:
   - Footnote: a source in which no '[' is directly followed by '^' gets the tree of the default
     parser (the inline parser's '!' case gets as far as looking for the closing bracket, but no
     definition exists, so it declines and the driver restores the reader);
   - DefinitionList: without ':' the switch does not matter;
   - Typographer: without the bytes 39 34 45 46 60 62 (apostrophe, double quote, hyphen, full
     stop, angle brackets) and 44 (comma) the switch does not matter.  For the six
     bytes of the property text alone the TREES differ - the parser is also registered on ',' and
     that registration makes the inline loop flush the text before a comma into a node of its
     own (the source a,b: two Text nodes instead of one) - while the rendering is the same; the witness is
     the second theorem, and the rendering is what the with/without runs compare;
   - with both switches off the model is the model of the default parser. *)
Require Import GM.model.FootnoteI GM.proofs.FootnoteConservative.
Theorem C11_footnote_conservative : forall src, bytes_ok src -> no_fn_marker src = true -> ParseTreeFn src = ParseTree src.
Proof. exact footnote_conservative. Qed.
Print Assumptions C11_footnote_conservative.
Require Import GM.model.TypoDefParse GM.model.TypoDefI GM.proofs.TypoDefConservative.
Theorem C11_deflist_conservative : forall tc src, bytes_ok src -> lacks_all [58%N] src ->
  ParseTreeTD (with_deflist tc true) src = ParseTreeTD (with_deflist tc false) src.
Proof. exact deflist_conservative. Qed.
Print Assumptions C11_deflist_conservative.
Theorem C11_typographer_conservative_partial : forall tc src, lacks_all [39; 34; 44; 45; 46; 60; 62]%N src ->
  ParseTreeTD (with_typo tc true) src = ParseTreeTD (with_typo tc false) src.
Proof. exact typographer_conservative_comma. Qed.
Print Assumptions C11_typographer_conservative_partial.
Theorem C11_typographer_tree_at_comma_refuted :
  bytes_ok [97; 44; 98]%N /\ lacks_all [39; 34; 45; 46; 60; 62]%N [97; 44; 98]%N /\
  forall tc, ParseTreeTD (with_typo tc true) [97; 44; 98]%N <> ParseTreeTD (with_typo tc false) [97; 44; 98]%N.
Proof. exact typographer_conservative_counterexample. Qed.
Print Assumptions C11_typographer_tree_at_comma_refuted.
Theorem C11_typodef_none_is_default : forall src, ParseTreeTD td_none src = ParseTree src.
Proof. exact typodef_none_is_default. Qed.
Print Assumptions C11_typodef_none_is_default.
