(* C11 - Extensions are conservative: no trigger syntax, no change.
   Statements only: the framework part.  Registering one more component changes the dispatch
   list of a byte only if the component is registered for that byte; so a document that
   contains none of an extension's trigger bytes is parsed with exactly the same candidate
   lists as without the extension.  (That each built-in extension declines without its trigger
   syntax beyond the trigger byte itself - Footnote without '[^', Linkify without ':' '@' 'www.',
   Typographer - is checked end to end on the implementation.) *)
Require Import GM.model.Base GM.model.Prio GM.proofs.MiscProofs.
Open Scope Z_scope.

Theorem C11_untriggered_inline_noop : forall l p c, has_trigger c p = false ->
  inline_table (p :: l) c = inline_table l c.
Proof. exact untriggered_inline_noop. Qed.
Print Assumptions C11_untriggered_inline_noop.

Theorem C11_untriggered_block_noop : forall l p c, has_trigger c p = false -> is_free p = false ->
  block_candidates (p :: l) c = block_candidates l c.
Proof. exact untriggered_block_noop. Qed.
Print Assumptions C11_untriggered_block_noop.

(* a component that is consulted but declines does not change which component wins *)
Theorem C11_declining_component_invisible : forall l p c, c_accept p = false ->
  snd (consult (inline_table (p :: l) c)) = snd (consult (inline_table l c)).
Proof. exact declining_component_invisible. Qed.
Print Assumptions C11_declining_component_invisible.

(* ---------------- conservativity itself, for the model of the parser with extension.GFM
   (model/GfmI.v; compared with goldmark for all sixteen subsets of the four extensions on every
   run).  For EVERY source and whatever the other three switches are: switching Strikethrough on
   does not change the tree of a source without '~'; TaskList, of a source without '['; Table, of
   a source without '-'; and with all four off the GFM model IS the model of the default parser
   (so the theorems of C01, C03, C04, C05 about ParseTree hold for it).
   (proofs/GfmConservative*.v, 3.8 k lines.) *)
Require Import GM.model.ParseI GM.model.InlineParseX GM.model.GfmI GM.proofs.ParseInv GM.proofs.GfmConservative.
Theorem C11_strikethrough_conservative : forall xc src, lacks 126 src ->
  ParseTreeX (with_strike xc true) src = ParseTreeX (with_strike xc false) src.
Proof. exact strike_conservative. Qed.
Print Assumptions C11_strikethrough_conservative.
Theorem C11_tasklist_conservative : forall xc src, lacks 91 src ->
  ParseTreeX (with_task xc true) src = ParseTreeX (with_task xc false) src.
Proof. exact task_conservative. Qed.
Print Assumptions C11_tasklist_conservative.
(* for Table the sources are byte strings (every element below 256: true of every Go []byte) *)
Theorem C11_table_conservative : forall xc src, bytes_ok src -> lacks 45 src ->
  ParseTreeX (with_table xc true) src = ParseTreeX (with_table xc false) src.
Proof. exact table_conservative_bytes. Qed.
Print Assumptions C11_table_conservative.
Theorem C11_no_extension_is_default : forall src, ParseTreeX gfm_none src = ParseTree src.
Proof. exact none_is_default. Qed.
Print Assumptions C11_no_extension_is_default.
