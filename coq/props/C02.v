(* C02 - CommonMark conformance on constructed documents and rewritten spec examples.
   Statements only.  The full property,

     forall d tabs nl, generated d -> Convert (md_of tabs nl d) = html_of d   (up to the
                                                   specification's inter-block white space),

   is NOT a theorem here: Convert is goldmark's whole parser and renderer, of which only the
   components below are modelled.  It is decided on every run by conversion of the generated
   trees (the Go port of md_of / html_of is compared with the extracted model on the same
   trees).  What is proved, for all inputs, is the part carried by modelled mechanisms: the
   spellings md_of chooses for a leaf construct are mapped by goldmark's mechanism to the bytes
   html_of prescribes (partial conformance, names end in _partial), and html_of is a function of
   the structure alone.  Proofs: proofs/SpecMechProofs.v, proofs/SpecTextProofs.v,
   proofs/SpecDocProofs.v. *)
Require Import GM.model.Base GM.model.Util GM.model.UtilI GM.model.Ids GM.model.SpecMech GM.model.SpecDoc
               GM.model.HtmlWriter GM.model.Refs GM.model.Blocks GM.model.Reader GM.model.ListItem GM.model.LeafBlocks GM.model.Delim GM.model.DelimI GM.model.CodeSpan GM.model.CodeBlock.
Require Import GM.gen.Tables GM.gen.Entities.
Require Import GM.proofs.SpecMechProofs GM.proofs.SpecTextProofs GM.proofs.SpecDocProofs GM.proofs.SpecTabProofs GM.proofs.ListItemProofs GM.proofs.LeafBlocksProofs GM.proofs.DelimProofs GM.proofs.CodeSpanProofs GM.proofs.CodeBlockProofs.
Open Scope N_scope.

(* the hard-break test (parser.go, after the fix) looks at the parity of the final run of
   backslashes ... *)
Theorem C02_hard_break_parity_partial : forall body k, (match rev body with 92 :: _ => False | _ => True end) ->
  ends_with_unescaped_backslash (body ++ repeat 92 k) = Nat.odd k.
Proof. exact ends_with_unescaped_backslash_parity. Qed.
Print Assumptions C02_hard_break_parity_partial.

(* ... which is what reading the escapes from the left gives (the specification's reading), for
   lines whose other backslashes are not in the final run *)
Theorem C02_left_to_right_parity_partial : forall body k, (forall c, In c body -> c <> 92) ->
  final_backslash_unescaped (body ++ repeat 92 k) = Nat.odd k.
Proof. exact trailing_parity_is_unescaped. Qed.
Print Assumptions C02_left_to_right_parity_partial.

(* decimal and hexadecimal spellings of a code point resolve to the same bytes in link
   destinations and titles ... *)
Theorem C02_numeric_spellings_agree_partial : forall cp, 0 < cp -> cp < 1114112 ->
  ResolveNumericReferences (ref_decimal cp) = ResolveNumericReferences (ref_hex cp).
Proof. exact numeric_spellings_agree. Qed.
Print Assumptions C02_numeric_spellings_agree_partial.

(* ... and in text *)
Theorem C02_writer_numeric_spellings_agree_partial : forall cp, 0 < cp -> cp < 1114112 ->
  WriterWrite false (ref_decimal cp) = WriterWrite false (ref_hex cp).
Proof. exact (writer_numeric_spellings_agree html_escape_table punct_table entities). Qed.
Print Assumptions C02_writer_numeric_spellings_agree_partial.

(* indentation written with blanks or with tabs reaching the same column has the same width *)
Theorem C02_tabs_equal_spaces_partial : forall ws1 ws2 c rest cur, all_ws ws1 -> all_ws ws2 -> c <> 32 -> c <> 9 -> (0 <= cur)%Z ->
  expanded_width ws1 cur = expanded_width ws2 cur ->
  fst (indent_width (ws1 ++ c :: rest) cur) = fst (indent_width (ws2 ++ c :: rest) cur).
Proof. exact tabs_equal_spaces. Qed.
Print Assumptions C02_tabs_equal_spaces_partial.

(* a run of text leaves (lower-case words, backslash-escaped punctuation, character references
   spelled by name, in decimal, in hexadecimal or in upper-case hexadecimal) is written by the
   renderer's text writer as exactly the bytes the specification prescribes *)
Theorem C02_text_run_conformance_partial : forall l, forallb (leaf IsPunct) l = true ->
  WriterWrite false (atoms_md l) = atoms_html l.
Proof. exact text_run_conformance. Qed.
Print Assumptions C02_text_run_conformance_partial.

(* the end of a line of such leaves is classified by the spelling of the break alone: two blanks
   or one more backslash give a hard break, nothing gives a soft one, whatever escapes precede *)
Theorem C02_hard_break_spellings_partial : forall l st, l <> [] -> forallb (leaf IsPunct) l = true ->
  line_break_kind (atoms_md l ++ atom_md (AHard st)) = (if st =? 0 then 2 else 1) /\
  line_break_kind (atoms_md l ++ atom_md ASoft) = 3.
Proof. exact hard_break_spellings. Qed.
Print Assumptions C02_hard_break_spellings_partial.

(* the case and white-space variants of a label that md_of writes at reference sites have the
   key of the label itself, so the reference map finds the definition *)
Theorem C02_label_variants_resolve_partial : forall m ws d, label_words ws = true ->
  lookup_key bytes m (ToLinkReference (join sp ws)) = None ->
  RefsLookup (RefsAdd m (join sp ws) d) (upper (join sp ws)) = Some d /\
  RefsLookup (RefsAdd m (join sp ws) d) (widen (join sp ws)) = Some d /\
  RefsLookup (RefsAdd m (join sp ws) d) (join sp ws) = Some d.
Proof. exact label_variants_resolve. Qed.
Print Assumptions C02_label_variants_resolve_partial.

(* destinations over the generator's alphabet are written HTML-escaped and otherwise unchanged *)
Theorem C02_dest_rendering_partial : forall d resolve, forallb dest_char d = true ->
  UrlValue true d resolve = esc_html d.
Proof. exact dest_rendering. Qed.
Print Assumptions C02_dest_rendering_partial.

(* the prescribed HTML is a function of the structure alone: documents that differ only in
   spelling choices are prescribed the same bytes *)
Theorem C02_html_of_spelling_independent : forall d1 d2, erase d1 = erase d2 -> html_of d1 = html_of d2.
Proof. exact html_of_spelling_independent. Qed.
Print Assumptions C02_html_of_spelling_independent.

(* the final newline is one more byte at the end and nothing else *)
Theorem C02_md_of_final_newline : forall tabs d, md_of tabs true d = md_of tabs false d ++ [10].
Proof. exact md_of_final_newline. Qed.
Print Assumptions C02_md_of_final_newline.

(* the tab spelling md_of uses for structural indentation keeps every byte of the line in its
   column: expanding tabs to the next multiple of four, as the specification does for block
   structure, gives the same bytes as for the line written with blanks *)
Theorem C02_tab_spelling_same_columns : forall l, expand (line_md true l) 0 = expand (line_md false l) 0.
Proof. exact line_md_same_columns. Qed.
Print Assumptions C02_tab_spelling_same_columns.

(* ---- block-level mechanisms (models of parser/list.go, list_item.go, thematic_break.go,
   atx_heading.go, fcode_block.go; the concrete white-space table is the dumped one) ---- *)

(* a marker line: up to three blanks, a bullet or 1-9 digits with '.' or ')', a gap of blanks
   and tabs, content: parseListItem finds the marker and where the content starts *)
Theorem C02_list_item_marker_partial : forall (ind : nat) (mk gap rest : bytes) (c : N),
  (ind <= 3)%nat -> marker_ok mk = true -> all_ws gap -> gap <> [] -> c <> 32 -> c <> 9 -> c <> 10 ->
  let line := repeat 32 ind ++ mk ++ gap ++ c :: rest in
  let i := (Z.of_nat ind + zlen mk)%Z in
  parse_list_item line =
    ({| m1 := Z.of_nat ind; m2 := Z.of_nat ind; m3 := i; m4 := i;
        m5 := if N.eqb (nth_byte line (zlen line - 1)) 10 then (zlen line - 1)%Z else zlen line |},
     if Nat.eqb (length mk) 1 then 1 else 2).
Proof. exact (parse_list_item_marker space_table eq_refl eq_refl). Qed.
Print Assumptions C02_list_item_marker_partial.

(* the content offset of the item is the width of the gap in columns, measured from the column
   where the gap starts (after the fix: commit), or one when the gap is wider than four *)
Theorem C02_list_item_offset_by_columns_partial : forall (pre gap rest : bytes) (c : N) (m : lmatch) (off : Z),
  all_ws gap -> gap <> [] -> c <> 32 -> c <> 9 -> IsSpace c = false -> m4 m = zlen pre -> (0 <= off)%Z ->
  calc_list_offset space_table (pre ++ gap ++ c :: rest) m off =
    (let g := gap_width gap (off + zlen pre) in if (4 <? g)%Z then 1%Z else g).
Proof. exact (calc_list_offset_columns space_table eq_refl eq_refl). Qed.
Print Assumptions C02_list_item_offset_by_columns_partial.

(* hence any two spellings of the gap that span the same columns give the same item *)
Theorem C02_list_item_offset_spelling_independent_partial : forall (pre gap1 gap2 rest : bytes) (c : N) (m : lmatch) (off : Z),
  all_ws gap1 -> gap1 <> [] -> all_ws gap2 -> gap2 <> [] -> c <> 32 -> c <> 9 -> IsSpace c = false ->
  m4 m = zlen pre -> (0 <= off)%Z -> gap_width gap1 (off + zlen pre) = gap_width gap2 (off + zlen pre) ->
  calc_list_offset space_table (pre ++ gap1 ++ c :: rest) m off = calc_list_offset space_table (pre ++ gap2 ++ c :: rest) m off.
Proof. exact (list_item_offset_spelling_independent space_table eq_refl eq_refl). Qed.
Print Assumptions C02_list_item_offset_spelling_independent_partial.

(* a gap of at most four columns is consumed entirely and leaves no padding; of a wider gap one
   column belongs to the marker and what is left of a tab becomes padding *)
Theorem C02_indent_position_consumes_gap_partial : forall (gap rest : bytes) (c : N) (cur : Z),
  all_ws gap -> gap <> [] -> c <> 32 -> c <> 9 -> (0 <= cur)%Z -> (gap_width gap cur <= 4)%Z ->
  indent_position (gap ++ c :: rest) cur (gap_width gap cur) = (zlen gap, 0%Z).
Proof. exact (indent_position_consumes_gap space_table eq_refl eq_refl). Qed.
Print Assumptions C02_indent_position_consumes_gap_partial.

Theorem C02_indent_position_code_gap_partial : forall (g : N) (gap rest : bytes) (cur : Z),
  (g = 32 \/ g = 9) -> (0 <= cur)%Z ->
  indent_position (g :: gap ++ rest) cur 1 = (1%Z, if N.eqb g 9 then (tab_width cur - 1)%Z else 0%Z).
Proof. exact (indent_position_code_gap space_table eq_refl eq_refl). Qed.
Print Assumptions C02_indent_position_code_gap_partial.

(* thematic breaks: three or more of the same mark with any white space between and after,
   indented at most three blanks, at any line offset; any other visible byte prevents it *)
Theorem C02_thematic_break_spellings_partial : forall (ind : nat) (mark : N) (body : bytes) (off : Z),
  (ind <= 3)%nat -> (mark = 42 \/ mark = 45 \/ mark = 95) ->
  Forall (fun c => c = mark \/ IsSpace c = true) body -> (2 <= count_occ N.eq_dec body mark)%nat -> IsSpace mark = false ->
  is_thematic_break space_table (repeat 32 ind ++ mark :: body) off = true.
Proof. exact (thematic_break_spellings space_table eq_refl eq_refl eq_refl). Qed.
Print Assumptions C02_thematic_break_spellings_partial.

Theorem C02_thematic_break_rejects_other_partial : forall (ind : nat) (mark x : N) (body1 body2 : bytes) (off : Z),
  (ind <= 3)%nat -> x <> mark -> IsSpace x = false -> IsSpace mark = false ->
  Forall (fun c => c = mark \/ IsSpace c = true) body1 ->
  is_thematic_break space_table (repeat 32 ind ++ mark :: body1 ++ x :: body2) off = false.
Proof. exact (thematic_break_rejects_other space_table eq_refl eq_refl eq_refl). Qed.
Print Assumptions C02_thematic_break_rejects_other_partial.

(* ATX headings: the level is the number of hashes, the line is the text, whatever closing run *)
Theorem C02_atx_open_spellings_partial : forall (ind lv : nat) (text cl trail : bytes) (first last : N) (mid : bytes),
  (ind <= 3)%nat -> (1 <= lv <= 6)%nat ->
  text = first :: mid ++ [last] \/ (text = [first] /\ last = first) ->
  IsSpace first = false -> IsSpace last = false -> first <> 35 -> last <> 35 ->
  atx_closing cl -> Forall (fun c => c = 32) trail ->
  atx_open space_table (repeat 32 ind ++ repeat 35 lv ++ [32] ++ text ++ cl ++ trail ++ [10]) (Z.of_nat ind) =
    Ok (Some (Z.of_nat lv, Some ((Z.of_nat ind + Z.of_nat lv + 1)%Z,
                                 (Z.of_nat ind + Z.of_nat lv + 1 + zlen text + match cl with [] => 0 | _ => 1 end)%Z))).
Proof. exact (fun ind lv text cl trail first last mid => atx_open_spellings space_table eq_refl eq_refl eq_refl ind lv text cl trail first last mid eq_refl). Qed.
Print Assumptions C02_atx_open_spellings_partial.

(* fences: character, length, indentation and info word are read off the opening line; a line
   of at least as many fence characters closes; any other line is content, dedented by at most
   the opening indentation *)
Theorem C02_fence_open_spellings_partial : forall (ind fl : nat) (ch : N) (info : bytes),
  (ind <= 3)%nat -> (3 <= fl)%nat -> (ch = 96 \/ ch = 126) ->
  Forall (fun c => IsSpace c = false /\ c <> 96 /\ c <> 126) info ->
  fence_open space_table (repeat 32 ind ++ repeat ch fl ++ info ++ [10]) (Z.of_nat ind) =
    Ok (Some (ch, Z.of_nat ind, Z.of_nat fl,
              match info with [] => None | _ => Some ((Z.of_nat ind + Z.of_nat fl)%Z, (Z.of_nat ind + Z.of_nat fl + zlen info)%Z) end)).
Proof. exact (fence_open_spellings space_table eq_refl eq_refl eq_refl). Qed.
Print Assumptions C02_fence_open_spellings_partial.

Theorem C02_fence_close_recognised_partial : forall (j k : nat) (ch : N) (trail : bytes) (off indent flen : Z),
  (1 <= k)%nat -> (j <= 3)%nat -> (flen <= Z.of_nat k)%Z -> (ch = 96 \/ ch = 126) ->
  Forall (fun c => c = 32 \/ c = 9) trail ->
  fence_continue space_table (repeat 32 j ++ repeat ch k ++ trail ++ [10]) off 0 ch indent flen =
    inl (Z.of_nat j + Z.of_nat k + zlen trail)%Z.
Proof. exact (fence_close_recognised space_table eq_refl eq_refl eq_refl). Qed.
Print Assumptions C02_fence_close_recognised_partial.

Theorem C02_fence_content_dedent_partial : forall (j : nat) (c ch : N) (rest : bytes) (off indent flen : Z),
  c <> 32 -> c <> 9 -> c <> 10 -> c <> ch -> (0 <= indent)%Z -> (1 <= flen)%Z ->
  fence_continue space_table (repeat 32 j ++ c :: rest) off 0 ch indent flen = inr (Z.min (Z.of_nat j) indent, 0%Z).
Proof. exact (fence_content_dedent space_table eq_refl eq_refl eq_refl). Qed.
Print Assumptions C02_fence_content_dedent_partial.

(* ---- emphasis delimiter runs (model of parser.ScanDelimiter; the rune classes are the ranges
   regenerated from the unicode package through util.IsPunctRune / util.IsSpaceRune) ---- *)

(* ScanDelimiter's answer is the specification's can-open / can-close (section 6.2) of the
   classes of the characters before and after the run *)
Theorem C02_scan_delimiter_is_spec_partial : forall line before minimum co cc len ch after,
  ScanDelimiter line before minimum = Ok (Some (co, cc, len, ch)) ->
  (if (len =? zlen line)%Z then Ok 32 else to_rune line len) = Ok after ->
  co = can_open (ch =? 95) (SpaceRune before) (PunctRune before) (SpaceRune after) (PunctRune after) /\
  cc = can_close (ch =? 95) (SpaceRune before) (PunctRune before) (SpaceRune after) (PunctRune after) /\
  len = count_byte ch line.
Proof. exact (scan_delimiter_is_spec PunctRune SpaceRune emph_delim). Qed.
Print Assumptions C02_scan_delimiter_is_spec_partial.

(* the situations in which the generator places a delimiter run force one reading each: after
   white space it only opens, before white space it only closes, between punctuation and a
   letter it only opens, between a letter and punctuation it only closes *)
Theorem C02_generated_delimiters_unambiguous : forall u bp bw aw ap,
  (aw = false -> can_open u true bp aw ap = true /\ can_close u true bp aw ap = false) /\
  (bw = false -> can_close u bw bp true ap = true /\ can_open u bw bp true ap = false) /\
  (can_open u false true false false = true /\ can_close u false true false false = false) /\
  (can_close u false false false true = true /\ can_open u false false false true = false).
Proof. exact (fun u bp bw aw ap => conj (after_space_opens_only u bp aw ap) (conj (before_space_closes_only u bw bp ap)
              (conj (punct_then_letter_opens_only u) (letter_then_punct_closes_only u)))). Qed.
Print Assumptions C02_generated_delimiters_unambiguous.

(* ---- code spans (model of parser/code_span.go over the block reader) ---- *)

(* in a one-line paragraph, a code span spelled with t backticks on each side and optional
   padding of one blank yields a CodeSpan whose text is exactly the content, and the reader is
   left just after the closing run (content: every backtick run shorter than t, first and last
   byte neither blank nor backtick) *)
Theorem C02_code_span_spellings_partial : forall (pre c rest : bytes) (t : nat) (padded : bool) (first last : N) (mid : bytes),
  (1 <= t)%nat -> runs_shorter t 0 c = true ->
  c = first :: mid ++ [last] \/ (c = [first] /\ last = first) ->
  first <> 96 -> last <> 96 -> first <> 32 -> last <> 32 -> IsSpace first = false ->
  no_newline pre -> no_newline c -> no_newline rest ->
  (match rest with 96 :: _ => False | _ => True end) ->
  let pad := if padded then [32] else [] in
  let src := pre ++ repeat 96 t ++ pad ++ c ++ pad ++ repeat 96 t ++ rest ++ [10] in
  forall r0 r, new_block_reader src [mkseg 0 (zlen src)] = Ok r0 -> b_advance r0 (zlen pre) = Ok r ->
  exists segs r',
    code_span_parse space_table r = Ok (inl segs, r') /\
    concat_values src segs = Ok c /\
    b_line r' = 0%Z /\ s_start (b_pos r') = (zlen pre + 2 * Z.of_nat t + 2 * zlen pad + zlen c)%Z /\ s_pad (b_pos r') = 0%Z.
Proof. exact (code_span_single_line space_table eq_refl). Qed.
Print Assumptions C02_code_span_spellings_partial.

(* a line without a run of exactly t backticks does not close the span *)
Theorem C02_code_span_no_closer_partial : forall (t : nat) (c : bytes) (fuel : nat),
  (1 <= t)%nat -> runs_shorter t 0 c = true -> find_closer fuel c 0 (Z.of_nat t) = None.
Proof. exact find_closer_none. Qed.
Print Assumptions C02_code_span_no_closer_partial.

(* ---- indented code (model of parser/code_block.go with IndentPosition, the reader's padding
   and preserveLeadingTabInCodeBlock) ---- *)

(* behind any container prefix without tabs, a line whose indentation spans at least four
   columns - written with blanks, tabs or both - opens an indented code block whose first line
   has exactly the content CommonMark prescribes: four columns removed, a partly used tab
   leaving blanks for its remaining columns, later tabs kept *)
Theorem C02_code_block_open_dedents_partial : forall (prefix ws body : bytes) (c : N),
  (forall b, In b prefix -> b <> 10 /\ b <> 9) ->
  all_ws ws -> c <> 32 -> c <> 9 -> c <> 10 -> IsSpace c = false ->
  (forall b, In b body -> b <> 10) ->
  (4 <= expanded_width ws (zlen prefix) - zlen prefix)%Z ->
  let line := ws ++ c :: body ++ [10] in
  let src := prefix ++ line in
  forall r, r_advance (new_reader src) (zlen prefix) = Ok r ->
  exists sg r', code_block_open space_table r = Ok (Some (sg, r')) /\
                seg_value src sg = Ok (dedent_cols 4 line (zlen prefix)).
Proof. exact (code_block_open_dedents space_table eq_refl eq_refl). Qed.
Print Assumptions C02_code_block_open_dedents_partial.

(* and a line indented less than four columns does not *)
Theorem C02_code_block_open_declines_partial : forall (prefix ws body : bytes) (c : N),
  (forall b, In b prefix -> b <> 10 /\ b <> 9) ->
  all_ws ws -> c <> 32 -> c <> 9 -> c <> 10 ->
  (forall b, In b body -> b <> 10) ->
  (expanded_width ws (zlen prefix) - zlen prefix < 4)%Z ->
  let src := prefix ++ ws ++ c :: body ++ [10] in
  forall r, r_advance (new_reader src) (zlen prefix) = Ok r ->
  code_block_open space_table r = Ok None.
Proof. exact (code_block_open_declines space_table eq_refl eq_refl). Qed.
Print Assumptions C02_code_block_open_declines_partial.

(* non-vacuity: the design-time deviation (three backslashes before the line end) is a hard break *)
Example C02_demo : line_break_kind [97; 92; 92; 92; 10] = 1 /\ line_break_kind [97; 92; 92; 10] = 3.
Proof. vm_compute. split; reflexivity. Qed.

(* ---------------- the whole default parser and renderer as one model ----------------
   ConvertModel (model/ParseI.v) = ParseTree (model/BlockParse.v + InlineParse.v: parser.go, the
   ten block parsers, the link reference definition transformer, the five inline parsers and
   ProcessDelimiters, transcribed) followed by RenderHTML (model/Html.v).  It is compared with
   goldmark's tree and with goldmark.Convert's bytes on every run (case kinds ParseTree, Convert).
   Inside the kernel: it reproduces the prescribed HTML of every example of the specification
   shipped with the repository (gen/SpecExamples.v is regenerated from _test/spec.json). *)
Require Import GM.model.ParseI GM.gen.SpecExamples GM.proofs.SpecConformance.
Theorem C02_model_conforms_to_spec_examples : forall n md html,
  In (n, (md, html)) spec_examples -> ConvertModel spec_cfg md = Ok html.
Proof. exact spec_examples_conform. Qed.
Print Assumptions C02_model_conforms_to_spec_examples.
Example C02_spec_examples_present : (600 <= length spec_examples)%nat.
Proof. exact spec_examples_nonempty. Qed.

(* the link destination scanner (parser/link.go parseLinkDestination, model/LinkDest.v) reads
   the destinations md_of writes, bare and in pointy brackets *)
Require Import GM.model.LinkDest GM.proofs.LinkDestProofs GM.proofs.LinkDestConcrete.
Theorem C02_link_destination_bare : forall (d rest : bytes) (stop : N),
  d <> [] -> forallb dest_char d = true -> (stop = 32%N \/ stop = 41%N) ->
  parse_link_destination space_table punct_table (d ++ stop :: rest) = Some (d, zlen d).
Proof. exact (bare_destination space_table punct_table sp32_concrete dest_not_space_concrete). Qed.
Print Assumptions C02_link_destination_bare.
Theorem C02_link_destination_angle : forall (d rest : bytes),
  (forall c, In c d -> c <> 62%N /\ c <> 92%N /\ c <> 10%N) ->
  parse_link_destination space_table punct_table (60%N :: d ++ 62%N :: rest) = Some (d, (zlen d + 2)%Z).
Proof. exact (angle_destination space_table punct_table sp32_concrete dest_not_space_concrete). Qed.
Print Assumptions C02_link_destination_angle.
Theorem C02_link_destination_unclosed_angle : forall (d : bytes),
  (forall c, In c d -> c <> 62%N /\ c <> 92%N) ->
  parse_link_destination space_table punct_table (60%N :: d) = None.
Proof. exact (angle_unclosed space_table punct_table). Qed.
Print Assumptions C02_link_destination_unclosed_angle.

(* ---------------- the conformance statement itself, on a fragment, for EVERY document ----------
   For every document made of plain paragraphs (words [a-z]+ separated by single blanks and soft
   line breaks, paragraphs separated by one empty line), with or without the final newline, the
   Convert model - the whole parser model and the renderer model - maps the CommonMark spelling
   md_of to the prescribed HTML html_of.  A parser-correctness proof (proofs/SpecPara*.v): the
   block driver, the paragraph parser, the link reference definition transformer, the inline
   scan with soft breaks and trailing-blank trimming, and the renderer are run symbolically. *)
Require Import GM.model.Html GM.model.ParseI GM.proofs.SpecParaConform.
Theorem C02_plain_documents_conform : forall c fin d,
  hardwraps c = false -> plain_doc d = true ->
  ConvertModel c (md_of false fin d) = Ok (html_of d).
Proof. exact plain_doc_conforms. Qed.
Print Assumptions C02_plain_documents_conform.
(* non-vacuity: a two-paragraph document with a soft break is in the fragment *)
Example C02_plain_doc_demo : plain_doc [BPara 0 [AWord [97;98]; AWord [99]; ASoft; AWord [100]]; BPara 0 [AWord [101]]] = true.
Proof. reflexivity. Qed.

(* the same for block quotes, nested to any depth and in both marker spellings, around plain
   paragraphs (proofs/SpecQuote*.v) *)
Require Import GM.proofs.SpecQuoteConform.
Theorem C02_quoted_documents_conform : forall c fin fuel d,
  hardwraps c = false -> qdoc fuel d = true ->
  ConvertModel c (md_of false fin d) = Ok (html_of d).
Proof. exact quoted_doc_conforms. Qed.
Print Assumptions C02_quoted_documents_conform.

(* and for the leaf blocks: every document made of plain paragraphs, ATX headings (levels 1..6),
   thematic breaks (three spellings) and fenced code blocks (an info word or none, code lines of
   lower-case letters and blanks, possibly empty), separated by one empty line, with or without
   the final newline (proofs/SpecLeaf*.v, 2.0 k lines: one "one more block" step lemma per block
   kind under a common interface, then an induction over the document) *)
Require Import GM.proofs.SpecLeafConform.
Theorem C02_leaf_documents_conform : forall c fin d,
  hardwraps c = false -> xhtml c = true -> leaf_doc d = true ->
  ConvertModel c (md_of false fin d) = Ok (html_of d).
Proof. exact leaf_doc_conforms. Qed.
Print Assumptions C02_leaf_documents_conform.
