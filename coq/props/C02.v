(* C02 - CommonMark conformance on constructed documents and rewritten spec examples.
   Statements only.  The full property,

     forall d tabs nl, generated d -> Convert (md_of tabs nl d) = html_of d   (up to the
                                                   specification's inter-block white space),

   is NOT a theorem here: Convert is goldmark's whole parser and renderer, of which only the
   components below are modelled.  It is decided on every run by conversion of the generated
   trees (the Go port of md_of / html_of is compared with the extracted model on the same
   trees).  What is proved, for all inputs, is the part carried by modelled mechanisms: the
   spellings md_of chooses for a leaf construct are mapped by goldmark's mechanism to the bytes
   html_of prescribes (partial conformance, names end in _partial), and html_of is a function of
   the structure alone.  Proofs: proofs/SpecMechProofs.v, proofs/SpecTextProofs.v,
   proofs/SpecDocProofs.v. *)
Require Import GM.model.Base GM.model.Util GM.model.UtilI GM.model.Ids GM.model.SpecMech GM.model.SpecDoc
               GM.model.HtmlWriter GM.model.Refs GM.model.Blocks.
Require Import GM.gen.Tables GM.gen.Entities.
Require Import GM.proofs.SpecMechProofs GM.proofs.SpecTextProofs GM.proofs.SpecDocProofs GM.proofs.SpecTabProofs.
Open Scope N_scope.

(* the hard-break test (parser.go, after the fix) looks at the parity of the final run of
   backslashes ... *)
Theorem C02_hard_break_parity_partial : forall body k, (match rev body with 92 :: _ => False | _ => True end) ->
  ends_with_unescaped_backslash (body ++ repeat 92 k) = Nat.odd k.
Proof. exact ends_with_unescaped_backslash_parity. Qed.
Print Assumptions C02_hard_break_parity_partial.

(* ... which is what reading the escapes from the left gives (the specification's reading), for
   lines whose other backslashes are not in the final run *)
Theorem C02_left_to_right_parity_partial : forall body k, (forall c, In c body -> c <> 92) ->
  final_backslash_unescaped (body ++ repeat 92 k) = Nat.odd k.
Proof. exact trailing_parity_is_unescaped. Qed.
Print Assumptions C02_left_to_right_parity_partial.

(* decimal and hexadecimal spellings of a code point resolve to the same bytes in link
   destinations and titles ... *)
Theorem C02_numeric_spellings_agree_partial : forall cp, 0 < cp -> cp < 1114112 ->
  ResolveNumericReferences (ref_decimal cp) = ResolveNumericReferences (ref_hex cp).
Proof. exact numeric_spellings_agree. Qed.
Print Assumptions C02_numeric_spellings_agree_partial.

(* ... and in text *)
Theorem C02_writer_numeric_spellings_agree_partial : forall cp, 0 < cp -> cp < 1114112 ->
  WriterWrite false (ref_decimal cp) = WriterWrite false (ref_hex cp).
Proof. exact (writer_numeric_spellings_agree html_escape_table punct_table entities). Qed.
Print Assumptions C02_writer_numeric_spellings_agree_partial.

(* indentation written with blanks or with tabs reaching the same column has the same width *)
Theorem C02_tabs_equal_spaces_partial : forall ws1 ws2 c rest cur, all_ws ws1 -> all_ws ws2 -> c <> 32 -> c <> 9 -> (0 <= cur)%Z ->
  expanded_width ws1 cur = expanded_width ws2 cur ->
  fst (indent_width (ws1 ++ c :: rest) cur) = fst (indent_width (ws2 ++ c :: rest) cur).
Proof. exact tabs_equal_spaces. Qed.
Print Assumptions C02_tabs_equal_spaces_partial.

(* a run of text leaves (lower-case words, backslash-escaped punctuation, character references
   spelled by name, in decimal, in hexadecimal or in upper-case hexadecimal) is written by the
   renderer's text writer as exactly the bytes the specification prescribes *)
Theorem C02_text_run_conformance_partial : forall l, forallb (leaf IsPunct) l = true ->
  WriterWrite false (atoms_md l) = atoms_html l.
Proof. exact text_run_conformance. Qed.
Print Assumptions C02_text_run_conformance_partial.

(* the end of a line of such leaves is classified by the spelling of the break alone: two blanks
   or one more backslash give a hard break, nothing gives a soft one, whatever escapes precede *)
Theorem C02_hard_break_spellings_partial : forall l st, l <> [] -> forallb (leaf IsPunct) l = true ->
  line_break_kind (atoms_md l ++ atom_md (AHard st)) = (if st =? 0 then 2 else 1) /\
  line_break_kind (atoms_md l ++ atom_md ASoft) = 3.
Proof. exact hard_break_spellings. Qed.
Print Assumptions C02_hard_break_spellings_partial.

(* the case and white-space variants of a label that md_of writes at reference sites have the
   key of the label itself, so the reference map finds the definition *)
Theorem C02_label_variants_resolve_partial : forall m ws d, label_words ws = true ->
  lookup_key bytes m (ToLinkReference (join sp ws)) = None ->
  RefsLookup (RefsAdd m (join sp ws) d) (upper (join sp ws)) = Some d /\
  RefsLookup (RefsAdd m (join sp ws) d) (widen (join sp ws)) = Some d /\
  RefsLookup (RefsAdd m (join sp ws) d) (join sp ws) = Some d.
Proof. exact label_variants_resolve. Qed.
Print Assumptions C02_label_variants_resolve_partial.

(* destinations over the generator's alphabet are written HTML-escaped and otherwise unchanged *)
Theorem C02_dest_rendering_partial : forall d resolve, forallb dest_char d = true ->
  UrlValue true d resolve = esc_html d.
Proof. exact dest_rendering. Qed.
Print Assumptions C02_dest_rendering_partial.

(* the prescribed HTML is a function of the structure alone: documents that differ only in
   spelling choices are prescribed the same bytes *)
Theorem C02_html_of_spelling_independent : forall d1 d2, erase d1 = erase d2 -> html_of d1 = html_of d2.
Proof. exact html_of_spelling_independent. Qed.
Print Assumptions C02_html_of_spelling_independent.

(* the final newline is one more byte at the end and nothing else *)
Theorem C02_md_of_final_newline : forall tabs d, md_of tabs true d = md_of tabs false d ++ [10].
Proof. exact md_of_final_newline. Qed.
Print Assumptions C02_md_of_final_newline.

(* the tab spelling md_of uses for structural indentation keeps every byte of the line in its
   column: expanding tabs to the next multiple of four, as the specification does for block
   structure, gives the same bytes as for the line written with blanks *)
Theorem C02_tab_spelling_same_columns : forall l, expand (line_md true l) 0 = expand (line_md false l) 0.
Proof. exact line_md_same_columns. Qed.
Print Assumptions C02_tab_spelling_same_columns.

(* non-vacuity: the design-time deviation (three backslashes before the line end) is a hard break *)
Example C02_demo : line_break_kind [97; 92; 92; 92; 10] = 1 /\ line_break_kind [97; 92; 92; 10] = 3.
Proof. vm_compute. split; reflexivity. Qed.
