(* C10 - Renderer options are orthogonal rewrites of the same output.
   Statements only; proofs are in proofs/HtmlRelProofs.v.  RenderHTML is the model of the whole
   HTML renderer (html.go and the extension renderers) instantiated with the tables and attribute
   allow-lists dumped from the running code; the relations are defined in model/HtmlSpec.v. *)
Require Import GM.model.Base GM.model.Util GM.model.Reader GM.model.HtmlWriter GM.model.Html GM.model.HtmlI GM.model.HtmlSpec.
Require Import GM.gen.Tables GM.gen.Entities GM.gen.Filters GM.proofs.HtmlRelProofs.
From Coq Require Import ZArith.
Open Scope N_scope.

(* XHTML changes nothing except that void elements are written with " />" (table alignment
   rendering pinned to one method: the default method depends on XHTML by design) *)
Theorem C10_xhtml_rel : forall c src t o, pinned c -> RenderHTML (with_xhtml c false) src t = Ok o ->
  exists o', RenderHTML (with_xhtml c true) src t = Ok o' /\ XhtmlRel o o'.
Proof. exact (xhtml_rel html_escape_table punct_table entities url_escape_table utf8len_table
  f_global f_blockquote f_list f_listitem f_thematic f_link f_image f_table f_thead f_tr f_th f_td). Qed.
Print Assumptions C10_xhtml_rel.

(* HardWraps changes nothing except a <br> before the newline of each soft line break *)
Theorem C10_hardwraps_rel : forall c src t o, RenderHTML (with_hardwraps c false) src t = Ok o ->
  exists o', RenderHTML (with_hardwraps c true) src t = Ok o' /\ HardWrapRel (xhtml c) o o'.
Proof. exact (hardwraps_rel html_escape_table punct_table entities url_escape_table utf8len_table
  f_global f_blockquote f_list f_listitem f_thematic f_link f_image f_table f_thead f_tr f_th f_td). Qed.
Print Assumptions C10_hardwraps_rel.

(* Unsafe changes only raw-HTML placeholders and blanked URLs ... *)
Theorem C10_unsafe_rel : forall c src t o', RenderHTML (with_unsafe c true) src t = Ok o' ->
  exists o, RenderHTML (with_unsafe c false) src t = Ok o /\ UnsafeRel o o'.
Proof. exact (unsafe_rel html_escape_table punct_table entities url_escape_table utf8len_table
  f_global f_blockquote f_list f_listitem f_thematic f_link f_image f_table f_thead f_tr f_th f_td). Qed.
Print Assumptions C10_unsafe_rel.

(* ... and nothing at all unless the document contains raw HTML or a destination classified dangerous *)
Theorem C10_unsafe_same : forall c src t,
  no_raw_no_danger punct_table entities url_escape_table utf8len_table t = true ->
  RenderHTML (with_unsafe c true) src t = RenderHTML (with_unsafe c false) src t.
Proof. exact (unsafe_same html_escape_table punct_table entities url_escape_table utf8len_table
  f_global f_blockquote f_list f_listitem f_thematic f_link f_image f_table f_thead f_tr f_th f_td). Qed.
Print Assumptions C10_unsafe_same.

(* non-vacuity: a paragraph with a soft break, an image and a thematic break *)
Example C10_demo :
  let t := Node KDocument [] None
             [Node KParagraph [] None [Node (KText (mkseg 0 1) true false false) [] None [];
                                       Node (KImage [47;105] None) [] None [Node (KText (mkseg 2 3) false false false) [] None []]];
              Node KThematicBreak [] None []] in
  let c := {| unsafe := false; xhtml := false; hardwraps := false; talign := 2%Z |} in
  RenderHTML c [97;10;98] t = Ok [60;112;62;97;10;60;105;109;103;32;115;114;99;61;34;47;105;34;32;97;108;116;61;34;98;34;62;60;47;112;62;10;60;104;114;62;10].
Proof. vm_compute. reflexivity. Qed.

(* the same relations for the Convert model of the default parser (ParseTree then RenderHTML,
   model/ParseI.v): both sides parse to the same tree *)
Require Import GM.model.ParseI GM.proofs.ParseCompose.
Theorem C10_convert_xhtml_rel : forall c src o, pinned c -> ConvertModel (with_xhtml c false) src = Ok o ->
  exists o', ConvertModel (with_xhtml c true) src = Ok o' /\ XhtmlRel o o'.
Proof. exact ConvertModel_xhtml_rel. Qed.
Print Assumptions C10_convert_xhtml_rel.
Theorem C10_convert_hardwraps_rel : forall c src o, ConvertModel (with_hardwraps c false) src = Ok o ->
  exists o', ConvertModel (with_hardwraps c true) src = Ok o' /\ HardWrapRel (xhtml c) o o'.
Proof. exact ConvertModel_hardwraps_rel. Qed.
Print Assumptions C10_convert_hardwraps_rel.
Theorem C10_convert_unsafe_rel : forall c src o', ConvertModel (with_unsafe c true) src = Ok o' ->
  exists o, ConvertModel (with_unsafe c false) src = Ok o /\ UnsafeRel o o'.
Proof. exact ConvertModel_unsafe_rel. Qed.
Print Assumptions C10_convert_unsafe_rel.

(* "for every input and every extension set": the same three relations for ANY composition of a
   parser with the renderer model (conv parse cfg src = parse src >>= RenderHTML cfg src; the
   parser does not see the renderer options), and the Convert models of the extension parsers
   are such compositions by definition: extension.GFM in all sixteen subsets (ConvertModelX),
   extension.Footnote (ConvertModelFn), Typographer / DefinitionList (ConvertModelTD), the
   heading options (ConvertModelH) - each compared with goldmark byte for byte on every run *)
Require Import GM.model.InlineParseX GM.model.GfmI GM.model.FootnoteI GM.model.TypoDefParse GM.model.TypoDefI GM.model.HeadingOpts GM.model.HeadingOptsI
               GM.proofs.ConvertRelAll.
Theorem C10_any_parser_xhtml_rel : forall parse c src o, pinned c -> conv parse (with_xhtml c false) src = Ok o ->
  exists o', conv parse (with_xhtml c true) src = Ok o' /\ XhtmlRel o o'.
Proof. exact conv_xhtml_rel. Qed.
Print Assumptions C10_any_parser_xhtml_rel.
Theorem C10_any_parser_hardwraps_rel : forall parse c src o, conv parse (with_hardwraps c false) src = Ok o ->
  exists o', conv parse (with_hardwraps c true) src = Ok o' /\ HardWrapRel (xhtml c) o o'.
Proof. exact conv_hardwraps_rel. Qed.
Print Assumptions C10_any_parser_hardwraps_rel.
Theorem C10_any_parser_unsafe_rel : forall parse c src o', conv parse (with_unsafe c true) src = Ok o' ->
  exists o, conv parse (with_unsafe c false) src = Ok o /\ UnsafeRel o o'.
Proof. exact conv_unsafe_rel. Qed.
Print Assumptions C10_any_parser_unsafe_rel.
Theorem C10_extension_models_are_compositions :
  (forall xc, ConvertModelX xc = conv (ParseTreeX xc)) /\ ConvertModelFn = conv ParseTreeFn /\
  (forall tc, ConvertModelTD tc = conv (ParseTreeTD tc)) /\ (forall hc, ConvertModelH hc = conv (ParseTreeH hc)).
Proof. exact (conj ConvertModelX_conv (conj ConvertModelFn_conv (conj ConvertModelTD_conv ConvertModelH_conv))). Qed.
Print Assumptions C10_extension_models_are_compositions.
