(* C15 - Auto heading IDs are present, non-empty and unique within a document.
   Statements only; proofs are in proofs/IdsProofs.v.  The id table is part of the per-call
   parser context (a fresh one for every Parse), so the ids of a document are generate_all
   from the empty table, whatever was converted before (see C06). *)
Require Import GM.model.Base GM.model.Util GM.model.Ids GM.model.UtilI GM.proofs.IdsProofs.
Require Import GM.gen.Tables.
Open Scope N_scope.

Definition GenerateAll := generate_all utf8len_table space_table spaces.

(* Generate returns a non-empty id from [a-z0-9-] that was not in the table, and records it *)
Theorem C15_generate_fresh : forall t v h r t', IdsGenerate t v h = Ok (r, t') ->
  r <> [] /\ mem t r = false /\ t' = r :: t /\ forallb id_char r = true.
Proof. exact (generate_fresh utf8len_table space_table spaces). Qed.
Print Assumptions C15_generate_fresh.

(* Generate always returns (the probe loop terminates, by pigeonhole) *)
Theorem C15_generate_total : forall t v h, exists r t', IdsGenerate t v h = Ok (r, t').
Proof. exact (generate_total utf8len_table space_table spaces). Qed.
Print Assumptions C15_generate_total.

(* all ids generated for the headings of one document are pairwise distinct and non-empty *)
Theorem C15_generate_all_distinct : forall t vs rs, GenerateAll t vs = Ok rs ->
  NoDup rs /\ Forall (fun r => r <> [] /\ mem t r = false) rs /\ length rs = length vs.
Proof. exact (generate_all_distinct utf8len_table space_table spaces). Qed.
Print Assumptions C15_generate_all_distinct.

Theorem C15_generate_all_total : forall t vs, exists rs, GenerateAll t vs = Ok rs.
Proof. exact (generate_all_total utf8len_table space_table spaces). Qed.
Print Assumptions C15_generate_all_total.

(* non-vacuity / the colliding example of the property: 'a', 'a', 'a-1' *)
Example C15_demo : GenerateAll [] [[97]; [97]; [97; 45; 49]] = Ok [[97]; [97; 45; 49]; [97; 45; 49; 45; 49]].
Proof. vm_compute. reflexivity. Qed.
