(* C15 - Auto heading IDs are present, non-empty and unique within a document.
   Statements only; proofs are in proofs/IdsProofs.v.  The id table is part of the per-call
   parser context (a fresh one for every Parse), so the ids of a document are generate_all
   from the empty table, whatever was converted before (see C06). *)
Require Import GM.model.Base GM.model.Util GM.model.Ids GM.model.UtilI GM.proofs.IdsProofs.
Require Import GM.gen.Tables.
Open Scope N_scope.

Definition GenerateAll := generate_all utf8len_table space_table spaces.

(* Generate returns a non-empty id from [a-z0-9-] that was not in the table, and records it *)
Theorem C15_generate_fresh : forall t v h r t', IdsGenerate t v h = Ok (r, t') ->
  r <> [] /\ mem t r = false /\ t' = r :: t /\ forallb id_char r = true.
Proof. exact (generate_fresh utf8len_table space_table spaces). Qed.
Print Assumptions C15_generate_fresh.

(* Generate always returns (the probe loop terminates, by pigeonhole) *)
Theorem C15_generate_total : forall t v h, exists r t', IdsGenerate t v h = Ok (r, t').
Proof. exact (generate_total utf8len_table space_table spaces). Qed.
Print Assumptions C15_generate_total.

(* all ids generated for the headings of one document are pairwise distinct and non-empty *)
Theorem C15_generate_all_distinct : forall t vs rs, GenerateAll t vs = Ok rs ->
  NoDup rs /\ Forall (fun r => r <> [] /\ mem t r = false) rs /\ length rs = length vs.
Proof. exact (generate_all_distinct utf8len_table space_table spaces). Qed.
Print Assumptions C15_generate_all_distinct.

Theorem C15_generate_all_total : forall t vs, exists rs, GenerateAll t vs = Ok rs.
Proof. exact (generate_all_total utf8len_table space_table spaces). Qed.
Print Assumptions C15_generate_all_total.

(* non-vacuity / the colliding example of the property: 'a', 'a', 'a-1' *)
Example C15_demo : GenerateAll [] [[97]; [97]; [97; 45; 49]] = Ok [[97]; [97; 45; 49]; [97; 45; 49; 45; 49]].
Proof. vm_compute. reflexivity. Qed.

(* ---------------- end to end, for the model of the default parser with
   parser.WithAutoHeadingID() (model/HeadingIds.v: the block phase, then Generate on the last
   line of every heading in document order, then the inline phase), compared with goldmark on
   every run (case kind ConvertA).  For EVERY source: every heading of the tree carries an id
   attribute, no id is empty, the ids are pairwise distinct and over [a-z0-9-]; the tree is well
   formed; and the conversion returns.  The ids depend on the source only: ParseTreeA is a
   function of it (the id table is created per Parse; see C06 for the implementation side). *)
Require Import GM.model.HtmlWriter GM.model.Html GM.model.HtmlSpec GM.model.ParseI GM.model.HeadingIds GM.proofs.ParseInv GM.proofs.HeadingIdsProofs GM.proofs.ParseInlineTotal.
Theorem C15_auto_ids_present_nonempty_distinct : forall src t, bytes_ok src -> ParseTreeA src = Ok t ->
  exists rs, heading_ids t = map (fun r => Some (AVBytes r)) rs /\ NoDup rs /\
             Forall (fun r => r <> [] /\ forallb id_char r = true) rs.
Proof. exact ParseTreeA_ids_ok. Qed.
Print Assumptions C15_auto_ids_present_nonempty_distinct.
Theorem C15_auto_ids_tree_wf : forall src t, bytes_ok src -> ParseTreeA src = Ok t -> wf_tree src t = true.
Proof. exact ParseTreeA_wf. Qed.
Print Assumptions C15_auto_ids_tree_wf.
Theorem C15_auto_ids_convert_total : forall c src, bytes_ok src -> exists o, ConvertModelA c src = Ok o.
Proof. exact (ConvertModelA_total InlineChildren_total). Qed.
Print Assumptions C15_auto_ids_convert_total.
(* non-vacuity: 'a', 'a', 'a-1' as three headings *)
Example C15_auto_ids_demo : exists t, ParseTreeA [35;32;97;10;35;32;97;10;35;32;97;45;49;10]%N = Ok t /\
  heading_ids t = [Some (AVBytes [97]); Some (AVBytes [97;45;49]); Some (AVBytes [97;45;49;45;49])]%N.
Proof. eexists. split; vm_compute; reflexivity. Qed.

(* ---------------- the heading options inside the block driver (model/HeadingOpts.v: the model
   of parser.WithAttribute() and parser.WithAutoHeadingID() as goldmark implements them, in the
   heading parsers' Open and Close; compared with goldmark for the four option sets, case kinds
   ParseTreeH / ConvertH).  With automatic ids alone the driver-internal assignment - Generate in
   Close, in closing order - yields exactly the tree of the pass of model/HeadingIds.v, for EVERY
   source, so the theorems above (ids present, non-empty, pairwise distinct; tree well formed;
   conversion total) are theorems about it; with both options off it is the default parser. *)
Require Import GM.model.HeadingOpts GM.model.HeadingOptsI GM.proofs.HeadingOptsEq.
Theorem C15_driver_ids_equal_pass : forall src, bytes_ok src -> ParseTreeH h_ids src = ParseTreeA src.
Proof. exact heading_opts_ids_is_pass. Qed.
Print Assumptions C15_driver_ids_equal_pass.
Theorem C15_no_heading_option_is_default : forall src, ParseTreeH h_none src = ParseTree src.
Proof. exact heading_opts_none_is_default. Qed.
Print Assumptions C15_no_heading_option_is_default.
Require Import GM.proofs.HeadingOptsFinal.
Theorem C15_driver_ids_present_nonempty_distinct : forall src t, bytes_ok src -> ParseTreeH h_ids src = Ok t ->
  exists rs, heading_ids t = map (fun r => Some (AVBytes r)) rs /\ NoDup rs /\
             Forall (fun r => r <> [] /\ forallb id_char r = true) rs.
Proof. exact ParseTreeH_ids_ok. Qed.
Print Assumptions C15_driver_ids_present_nonempty_distinct.

(* ---------------- and for all four option sets of the heading option model (WithAttribute with
   and without WithAutoHeadingID included): for EVERY source the tree is well formed, the
   conversion returns, safe-mode output is inert (proofs/HeadingOptsWf*.v, 41 files, 14.3 k lines:
   the block range and totality proofs ported to the driver copy, the attribute parser proved
   total - its first fuel formula was not enough for nested arrays and was corrected -, headings
   whose last line segment becomes empty when an attribute block is cut off) *)
Require Import GM.proofs.HeadingOptsWf.
Theorem C15_heading_options_tree_wf : forall hc src t, bytes_ok src -> ParseTreeH hc src = Ok t -> wf_tree src t = true.
Proof. exact ParseTreeH_wf. Qed.
Print Assumptions C15_heading_options_tree_wf.
Theorem C15_heading_options_convert_total : forall hc c src, bytes_ok src -> exists o, ConvertModelH hc c src = Ok o.
Proof. exact ConvertModelH_total. Qed.
Print Assumptions C15_heading_options_convert_total.
