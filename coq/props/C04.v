(* C04 - Safe mode never emits a script-capable or local-file URL.
   Statements only.  browser_dangerous is the specification: decode the character references of
   the attribute value, drop leading bytes <= 0x20, delete TAB/LF/CR, lower-case, and test for
   javascript: vbscript: file: and data: other than the five allowed image types. *)
Require Import GM.model.Base GM.model.Util GM.model.HtmlDecode GM.model.HtmlWriter GM.model.UtilI GM.proofs.Concrete.
Require Import GM.model.Reader GM.model.Html GM.model.HtmlI GM.model.HtmlSpec GM.proofs.HtmlConcrete.
Open Scope N_scope.

(* whatever destination the parser stored (raw bytes, with backslash escapes and character
   references still unresolved), the value written into href / src in safe mode is harmless;
   resolve = true for links and images, false for autolinks *)
Theorem C04_url_value_safe : forall dest resolve, all_bytes dest ->
  browser_dangerous (UrlValue false dest resolve) = false.
Proof. exact UrlValue_safe. Qed.
Print Assumptions C04_url_value_safe.

(* non-vacuity and the pinned tree's four witnesses: all are blanked *)
Example C04_witnesses :
  map (fun d => UrlValue false d true)
      [ [106;97;118;97;115;99;114;105;112;116;38;99;111;108;111;110;59;97];       (* javascript&colon;a *)
        [38;35;49;48;54;59;97;118;97;115;99;114;105;112;116;58;97];               (* &#106;avascript:a *)
        [106;97;118;97;115;99;114;105;112;116;92;58;97] ]                          (* javascript\:a *)
  = [[]; []; []].
Proof. vm_compute. reflexivity. Qed.

(* the whole renderer: in the output of safe-mode rendering of any well-formed tree every
   attribute named href or src has a value that is not browser_dangerous - this is the side
   condition of AttrOut in the definition of Inert (model/HtmlSpec.v) *)
Theorem C04_safe_render_urls : forall c src t o, unsafe c = false -> wf_tree src t = true ->
  RenderHTML c src t = Ok o -> Inert o.
Proof. exact RenderHTML_safe_inert. Qed.
Print Assumptions C04_safe_render_urls.

(* the whole pipeline for the default parser (see props/C03.v, Part 3): every href / src value of
   the safe-mode output of the Convert model is free of the dangerous schemes (the URL clause is
   part of Inert's attribute grammar, HtmlSpec.AttrOut) *)
Require Import GM.model.ParseI GM.model.ParseChecked GM.proofs.ParseCheckedProofs.
Theorem C04_convert_safe_urls : forall c src o, unsafe c = false -> ConvertModelC c src = Ok o -> Inert o.
Proof. exact ConvertModelC_safe_inert. Qed.
Print Assumptions C04_convert_safe_urls.
(* the same without the run-time check of the parser's output (the parser model is proved to
   yield well-formed trees, props/C05.v): for every source *)
Require Import GM.proofs.ParseInv GM.proofs.ParseFinal.
Theorem C04_convert_model_safe_urls : forall c src o, unsafe c = false -> bytes_ok src -> ConvertModel c src = Ok o -> Inert o.
Proof. exact ConvertModel_safe_inert_all. Qed.
Print Assumptions C04_convert_model_safe_urls.

(* and with extension.GFM, where Linkify adds autolinks of its own (model/GfmI.v, checked output;
   compared with goldmark on every run): every href / src of safe-mode output is guarded *)
Require Import GM.model.InlineParseX GM.model.GfmI GM.model.GfmChecked GM.proofs.GfmCheckedProofs.
Theorem C04_convert_gfm_safe_urls : forall xc c src o, unsafe c = false -> ConvertModelXC xc c src = Ok o -> Inert o.
Proof. exact ConvertModelXC_safe_inert. Qed.
Print Assumptions C04_convert_gfm_safe_urls.

(* and without the run-time check (the GFM parser model yields well-formed trees: props/C05.v) *)
Require Import GM.proofs.ParseInv GM.proofs.GfmWf.
Theorem C04_convert_gfm_model_safe_urls : forall xc c src o, unsafe c = false -> bytes_ok src -> ConvertModelX xc c src = Ok o -> Inert o.
Proof. exact ConvertModelX_safe_inert. Qed.
Print Assumptions C04_convert_gfm_model_safe_urls.

(* and for the models of the other extension parsers (the URL clause is part of Inert, as above):
   extension.Footnote - whose renderer writes href values of its own, "#fn:1" / "#fnref:1" -, the
   heading options WithAttribute / WithAutoHeadingID - where the source chooses attribute values -
   and extension.Typographer / extension.DefinitionList; every source, no run-time check *)
Require Import GM.model.FootnoteI GM.proofs.FootnoteWf.
Theorem C04_convert_footnote_model_safe_urls : forall c src o, unsafe c = false -> bytes_ok src -> ConvertModelFn c src = Ok o -> Inert o.
Proof. exact ConvertModelFn_safe_inert. Qed.
Print Assumptions C04_convert_footnote_model_safe_urls.
Require Import GM.model.HeadingOpts GM.model.HeadingOptsI GM.proofs.HeadingOptsWf.
Theorem C04_convert_heading_options_safe_urls : forall hc c src o, unsafe c = false -> bytes_ok src -> ConvertModelH hc c src = Ok o -> Inert o.
Proof. exact ConvertModelH_safe_inert. Qed.
Print Assumptions C04_convert_heading_options_safe_urls.
Require Import GM.model.TypoDefParse GM.model.TypoDefI GM.proofs.TypoDefWf.
Theorem C04_convert_typodef_model_safe_urls : forall tc c src o, unsafe c = false -> bytes_ok src -> ConvertModelTD tc c src = Ok o -> Inert o.
Proof. exact ConvertModelTD_safe_inert. Qed.
Print Assumptions C04_convert_typodef_model_safe_urls.
