(* C08 - Prefixing every line with a block-quote marker wraps the same content.
   Statements only: the mechanisms (proofs in proofs/BlocksProofs.v).  The law itself
   (Convert(prefix^n D) = wrap^n(Convert D)) is decided end to end on the implementation. *)
Require Import GM.model.Base GM.model.Util GM.model.Reader GM.model.ReaderSpec GM.model.Blocks GM.proofs.BlocksProofs.
Require Import GM.gen.Tables.
From Coq Require Import ZArith.
Open Scope Z_scope.

(* the marker code consumes exactly the marker and one following space and leaves the reader
   on the same line looking at the rest of it, with no padding: the children of the block quote
   see exactly what they would see without the prefix *)
Theorem C08_bq_process_marker_space : forall r k tl, RInv r -> (k <= 3)%nat -> s_pad (r_pos r) = 0 ->
  r_view r = spaces_k k ++ [62%N; 32%N] ++ tl ->
  exists r', bq_process_total r = Ok (r', true) /\ RInv r' /\ r_src r' = r_src r /\
             r_line r' = r_line r /\ r_view r' = tl /\ s_pad (r_pos r') = 0.
Proof. exact bq_process_marker_space. Qed.
Print Assumptions C08_bq_process_marker_space.

Theorem C08_bq_process_marker_only : forall r k c tl, RInv r -> (k <= 3)%nat -> s_pad (r_pos r) = 0 ->
  c <> 32%N -> c <> 9%N -> c <> 10%N ->
  r_view r = spaces_k k ++ [62%N; c] ++ tl ->
  exists r', bq_process_total r = Ok (r', true) /\ RInv r' /\ r_src r' = r_src r /\
             r_line r' = r_line r /\ r_view r' = c :: tl.
Proof. exact bq_process_marker_only. Qed.
Print Assumptions C08_bq_process_marker_only.

(* a line without marker is declined and the position is untouched (lazy continuation / close) *)
Theorem C08_bq_process_declines : forall r k c tl, RInv r -> (k <= 3)%nat -> s_pad (r_pos r) = 0 ->
  c <> 62%N -> c <> 32%N -> c <> 9%N ->
  r_view r = spaces_k k ++ [c] ++ tl ->
  exists r', bq_process_total r = Ok (r', false) /\ RInv r' /\ r_position r' = r_position r /\ r_src r' = r_src r.
Proof. exact bq_process_declines. Qed.
Print Assumptions C08_bq_process_declines.

Theorem C08_bq_process_never_panics : forall r, RInv r ->
  exists r' b, bq_process_total r = Ok (r', b) /\ RInv r' /\ r_src r' = r_src r.
Proof. exact bq_process_total_ok. Qed.
Print Assumptions C08_bq_process_never_panics.

(* line synchrony of leaf parsers that consume "the line without its trailing white space"
   (HTML block Open/Continue after the fix): the amount is strictly less than the length of a
   newline-terminated line, and advancing by less than the view stays on the line - so the
   driver's AdvanceLine moves to the next line and every enclosing container sees that line's
   marker.  (The pinned tree advanced by the full length on a closing line of an HTML block of
   type 2-5 and crossed into the next line.) *)
Theorem C08_rest_of_line_advance_stays : forall line, last line 0%N = 10%N -> line <> [] ->
  0 <= rest_of_line_advance space_table line < zlen line.
Proof. apply rest_of_line_advance_stays. vm_compute. reflexivity. Qed.
Print Assumptions C08_rest_of_line_advance_stays.

Theorem C08_advance_within_view_keeps_line : forall r n, RInv r -> 0 <= n < zlen (r_view r) -> r_in_range r = true ->
  exists r', r_advance r n = Ok r' /\ RInv r' /\ r_line r' = r_line r /\ r_src r' = r_src r /\
             r_view r' = skipn (Z.to_nat n) (r_view r).
Proof. exact advance_within_view_keeps_line. Qed.
Print Assumptions C08_advance_within_view_keeps_line.

(* ---------------- the block quote law itself, on a fragment, for EVERY document of it -------
   For every document made of plain paragraphs and block quotes of such documents, nested to any
   depth, in both marker spellings ("> " and ">"): prefixing every line of its CommonMark spelling
   with "> " (a bare ">" on an empty line) wraps the Convert model's output in one more
   blockquote element.  About the whole parser model and the renderer model (proofs/SpecQuote*.v,
   3.3 k lines: an abstract line machine for nested quotes, shown to be followed step by step by
   the block driver of model/BlockParse.v). *)
Require Import GM.model.Html GM.model.SpecDoc GM.model.ParseI GM.proofs.SpecParaConform GM.proofs.SpecQuoteConform.
Theorem C08_quoting_wraps : forall c fuel d o,
  hardwraps c = false -> qdoc fuel d = true ->
  ConvertModel c (md_of false false d) = Ok o ->
  ConvertModel c (quote_lines (md_of false false d)) =
    Ok (tag [98;108;111;99;107;113;117;111;116;101] ++ nl ++ o ++ ctag [98;108;111;99;107;113;117;111;116;101] ++ nl)%N.
Proof. exact quoting_wraps. Qed.
Print Assumptions C08_quoting_wraps.

(* the law applied n times (the property's "also applied n times: nested quotes"), for EVERY n and
   every document of the fragment: iter_quote n prefixes every line n times, wrap_n n wraps the
   conversion in n blockquote elements (definitions in proofs/SpecQuoteIter.v, 8 lines) *)
Require Import GM.proofs.SpecQuoteIter.
Theorem C08_quoting_wraps_n_times : forall n c fuel d o,
  hardwraps c = false -> qdoc fuel d = true ->
  ConvertModel c (md_of false false d) = Ok o ->
  ConvertModel c (iter_quote n (md_of false false d)) = Ok (wrap_n n o).
Proof. exact quoting_wraps_n. Qed.
Print Assumptions C08_quoting_wraps_n_times.
(* and the step behind it: quoting the spelling of a document is the spelling of its quote *)
Theorem C08_quoted_spelling_is_spelling_of_quote : forall fuel d, qdoc fuel d = true ->
  quote_lines (md_of false false d) = md_of false false (cons (BQuote 0 d) nil).
Proof. exact quote_lines_md. Qed.
Print Assumptions C08_quoted_spelling_is_spelling_of_quote.
