(* C03 - Safe mode emits only inert, well-nested markup from a fixed vocabulary.
   Statements only.  Part 1: the text-level writers (every byte of document text reaches the
   output through one of them).  Part 2 (L1): the whole renderer on well-formed trees. *)
Require Import GM.model.Base GM.model.Util GM.model.HtmlDecode GM.model.HtmlWriter GM.model.UtilI GM.proofs.Concrete.
Require Import GM.model.Reader GM.model.Html GM.model.HtmlI GM.model.HtmlSpec GM.proofs.HtmlConcrete.
Open Scope N_scope.

(* Writer.Write (text, titles, info strings): no raw < > double-quote; every & starts one of the
   four references *)
Theorem C03_writer_write_out : forall es v, all_bytes v -> EscOut (WriterWrite es v).
Proof. exact WriterWrite_out. Qed.
Print Assumptions C03_writer_write_out.

(* Writer.RawWrite (code, alt text of raw nodes) *)
Theorem C03_raw_write_out : forall v, EscOut (RawWrite v).
Proof. exact RawWrite_out. Qed.
Print Assumptions C03_raw_write_out.

(* RenderAttributes: names of the safe grammar, escaped values *)
Theorem C03_render_attributes_out : forall filter attrs,
  Forall (fun a => attr_name_ok (a_name a) = true) attrs -> AttrsOut (RenderAttributes filter attrs).
Proof. exact RenderAttributes_out. Qed.
Print Assumptions C03_render_attributes_out.

(* ---------------- Part 2: the whole renderer (L1) ---------------- *)
(* RenderHTML: html.go plus the table, footnote, strikethrough, task-list and definition-list
   renderers, on the list-of-children tree dumped from the real parser; wf_tree: the
   well-formedness predicate evaluated on every dumped tree; Inert / InertX: sequences of
   properly nested and closed elements of the fixed vocabulary, attributes `name="value"` with
   names of the safe grammar, text and attribute values free of raw < > double-quote with every
   & starting a character reference, the only comment the placeholder; InertX additionally has
   every void element self-closed. *)
Theorem C03_safe_render_inert : forall c src t o, unsafe c = false -> wf_tree src t = true ->
  RenderHTML c src t = Ok o -> Inert o.
Proof. exact RenderHTML_safe_inert. Qed.
Print Assumptions C03_safe_render_inert.

Theorem C03_safe_render_inert_xhtml : forall c src t o, unsafe c = false -> xhtml c = true -> wf_tree src t = true ->
  RenderHTML c src t = Ok o -> InertX o.
Proof. exact RenderHTML_safe_inert_xhtml. Qed.
Print Assumptions C03_safe_render_inert_xhtml.

(* non-vacuity: an attribute-carrying heading, an image with a quote in its alt text *)
Definition demo_tree : tree :=
  Node KDocument [] None
    [Node (KHeading 2%Z) [mkseg 0 1] (Some [{| a_name := [105;100]; a_val := AVBytes [34;120] |}])
          [Node (KText (mkseg 0 1) false false false) [] None []];
     Node KParagraph [] None [Node (KImage [47;117] (Some [60])) [] None [Node (KText (mkseg 1 2) false false false) [] None []]]].
Definition demo_cfg : rcfg := {| unsafe := false; xhtml := true; hardwraps := false; talign := 0%Z |}.
Example C03_demo_wf : wf_tree [60;34] demo_tree = true.
Proof. vm_compute. reflexivity. Qed.
Example C03_demo_render : exists o, RenderHTML demo_cfg [60;34] demo_tree = Ok o /\ InertX o.
Proof.
  destruct (RenderHTML_total demo_cfg [60;34] demo_tree C03_demo_wf) as [o Ho].
  exists o. split; [exact Ho|].
  exact (RenderHTML_safe_inert_xhtml demo_cfg [60;34] demo_tree o eq_refl eq_refl C03_demo_wf Ho).
Qed.

(* ---------------- Part 3: the whole pipeline for the default parser ----------------
   ConvertModelC (model/ParseChecked.v) = the parser model (model/BlockParse.v, InlineParse.v:
   parser.go, the block and inline parsers and ProcessDelimiters of the default configuration),
   its output checked with wf_tree, followed by RenderHTML.  No hypothesis on the source or the
   tree: whatever safe-mode conversion of the model returns is inert.  The model's trees and
   output bytes are compared with goldmark's on every run (case kinds ParseTree, Convert). *)
Require Import GM.model.ParseI GM.model.ParseChecked GM.proofs.ParseCheckedProofs.
Theorem C03_convert_safe_inert : forall c src o, unsafe c = false -> ConvertModelC c src = Ok o -> Inert o.
Proof. exact ConvertModelC_safe_inert. Qed.
Print Assumptions C03_convert_safe_inert.
Theorem C03_convert_safe_inert_xhtml : forall c src o, unsafe c = false -> xhtml c = true ->
  ConvertModelC c src = Ok o -> InertX o.
Proof. exact ConvertModelC_safe_inert_xhtml. Qed.
Print Assumptions C03_convert_safe_inert_xhtml.
(* non-vacuity: the pipeline returns a result on a document with raw HTML, an entity and a link *)
Example C03_convert_demo : exists o, ConvertModelC demo_cfg [60;98;62;32;38;97;109;112;59;32;91;120;93;40;47;117;41;10] = Ok o.
Proof. eexists. vm_compute. reflexivity. Qed.
(* the same for the Convert model WITHOUT the run-time check of the parser's output: the parser
   model is proved to yield well-formed trees (props/C05.v, C05_parser_output_wf), so safe-mode
   output is inert for every source for which the model returns *)
Require Import GM.proofs.ParseInv GM.proofs.ParseFinal.
Theorem C03_convert_model_safe_inert : forall c src o, unsafe c = false -> bytes_ok src -> ConvertModel c src = Ok o -> Inert o.
Proof. exact ConvertModel_safe_inert_all. Qed.
Print Assumptions C03_convert_model_safe_inert.
Theorem C03_convert_model_safe_inert_xhtml : forall c src o, unsafe c = false -> xhtml c = true -> bytes_ok src ->
  ConvertModel c src = Ok o -> InertX o.
Proof. exact ConvertModel_safe_inert_xhtml_all. Qed.
Print Assumptions C03_convert_model_safe_inert_xhtml.

(* ---------------- Part 4: attribute blocks ----------------
   Every attribute name parser.ParseAttributes yields (model/Attr.v, compared with the public
   function on every run, case kind ParseAttrs) is a name of the safe grammar that
   C03_render_attributes_out asks for, at every nesting level. *)
Require Import GM.model.Attr GM.proofs.AttrProofs.
Theorem C03_parsed_attribute_names_safe : forall space_table punct_table fuel r r' attrs,
  parse_attributes space_table punct_table fuel r = Ok (r', Some attrs) ->
  Forall (fun a => attr_name_ok (fst a) = true /\ pval_names_ok (snd a)) attrs.
Proof. exact parse_attributes_names_ok. Qed.
Print Assumptions C03_parsed_attribute_names_safe.

(* ---------------- the same end to end with extension.GFM (tables, strikethrough, task lists,
   linkify on top of the default parser): model/GfmI.v, the parser's output checked with wf_tree
   (model/GfmChecked.v), compared with goldmark.Convert under extension.GFM on every run (case
   kinds ParseTreeGfm, ConvertGfm, ParseTreeX).  For every source and every subset xc of the
   four extensions: whatever safe-mode conversion returns is inert *)
Require Import GM.model.InlineParseX GM.model.GfmI GM.model.GfmChecked GM.proofs.GfmCheckedProofs.
Theorem C03_convert_gfm_safe_inert : forall xc c src o, unsafe c = false -> ConvertModelXC xc c src = Ok o -> Inert o.
Proof. exact ConvertModelXC_safe_inert. Qed.
Print Assumptions C03_convert_gfm_safe_inert.
Theorem C03_convert_gfm_safe_inert_xhtml : forall xc c src o, unsafe c = false -> xhtml c = true ->
  ConvertModelXC xc c src = Ok o -> InertX o.
Proof. exact ConvertModelXC_safe_inert_xhtml. Qed.
Print Assumptions C03_convert_gfm_safe_inert_xhtml.

(* and without the run-time check: the GFM parser model is proved to yield well-formed trees
   (props/C05.v, C05_gfm_parser_output_wf), so the plain composition is inert in safe mode *)
Require Import GM.proofs.ParseInv GM.proofs.GfmWf.
Theorem C03_convert_gfm_model_safe_inert : forall xc c src o, unsafe c = false -> bytes_ok src -> ConvertModelX xc c src = Ok o -> Inert o.
Proof. exact ConvertModelX_safe_inert. Qed.
Print Assumptions C03_convert_gfm_model_safe_inert.
Theorem C03_convert_gfm_model_safe_inert_xhtml : forall xc c src o, unsafe c = false -> xhtml c = true -> bytes_ok src ->
  ConvertModelX xc c src = Ok o -> InertX o.
Proof. exact ConvertModelX_safe_inert_xhtml. Qed.
Print Assumptions C03_convert_gfm_model_safe_inert_xhtml.

(* and with extension.Footnote (model/FootnoteI.v; no run-time check: props/C16.v) *)
Require Import GM.model.FootnoteI GM.proofs.FootnoteWf.
Theorem C03_convert_footnote_model_safe_inert : forall c src o, unsafe c = false -> bytes_ok src -> ConvertModelFn c src = Ok o -> Inert o.
Proof. exact ConvertModelFn_safe_inert. Qed.
Print Assumptions C03_convert_footnote_model_safe_inert.

(* and with the heading options parser.WithAttribute() / parser.WithAutoHeadingID(), where the
   source chooses attribute names and values (model/HeadingOptsI.v; all four option sets) *)
Require Import GM.model.HeadingOpts GM.model.HeadingOptsI GM.proofs.HeadingOptsWf.
Theorem C03_convert_heading_options_safe_inert : forall hc c src o, unsafe c = false -> bytes_ok src -> ConvertModelH hc c src = Ok o -> Inert o.
Proof. exact ConvertModelH_safe_inert. Qed.
Print Assumptions C03_convert_heading_options_safe_inert.

(* and with extension.Typographer / extension.DefinitionList (model/TypoDefI.v; both switches) *)
Require Import GM.model.TypoDefParse GM.model.TypoDefI GM.proofs.TypoDefWf.
Theorem C03_convert_typodef_model_safe_inert : forall tc c src o, unsafe c = false -> bytes_ok src -> ConvertModelTD tc c src = Ok o -> Inert o.
Proof. exact ConvertModelTD_safe_inert. Qed.
Print Assumptions C03_convert_typodef_model_safe_inert.

(* the composition principle (DESIGN.md 3.1): the safe-mode theorems hold for all well-formed
   trees, so ANY parser whose trees are well formed - property C05 - inherits them when composed
   with the renderer model (conv parse c src = parse src >>= RenderHTML c src); the per-model
   theorems above are instances *)
Require Import GM.proofs.ConvertRelAll.
Theorem C03_any_wf_parser_safe_inert : forall parse, (forall src t, parse src = Ok t -> wf_tree src t = true) ->
  forall c src o, unsafe c = false -> conv parse c src = Ok o -> Inert o.
Proof. exact conv_safe_inert. Qed.
Print Assumptions C03_any_wf_parser_safe_inert.
Theorem C03_any_wf_parser_safe_inert_xhtml : forall parse, (forall src t, parse src = Ok t -> wf_tree src t = true) ->
  forall c src o, unsafe c = false -> xhtml c = true -> conv parse c src = Ok o -> InertX o.
Proof. exact conv_safe_inert_xhtml. Qed.
Print Assumptions C03_any_wf_parser_safe_inert_xhtml.
