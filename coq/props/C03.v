(* C03 - Safe mode emits only inert, well-nested markup from a fixed vocabulary.
   Statements only.  Part 1: the text-level writers (every byte of document text reaches the
   output through one of them).  Part 2 (L1): the whole renderer on well-formed trees. *)
Require Import GM.model.Base GM.model.Util GM.model.HtmlDecode GM.model.HtmlWriter GM.model.UtilI GM.proofs.Concrete.
Open Scope N_scope.

(* Writer.Write (text, titles, info strings): no raw < > double-quote; every & starts one of the
   four references *)
Theorem C03_writer_write_out : forall es v, all_bytes v -> EscOut (WriterWrite es v).
Proof. exact WriterWrite_out. Qed.
Print Assumptions C03_writer_write_out.

(* Writer.RawWrite (code, alt text of raw nodes) *)
Theorem C03_raw_write_out : forall v, EscOut (RawWrite v).
Proof. exact RawWrite_out. Qed.
Print Assumptions C03_raw_write_out.

(* RenderAttributes: names of the safe grammar, escaped values *)
Theorem C03_render_attributes_out : forall filter attrs,
  Forall (fun a => attr_name_ok (a_name a) = true) attrs -> AttrsOut (RenderAttributes filter attrs).
Proof. exact RenderAttributes_out. Qed.
Print Assumptions C03_render_attributes_out.
