(* C16 - Footnote numbering and cross-links are consistent.  Statements only; proofs in
   proofs/FootnoteProofs.v.  `footnotes defs refs` is the model of the footnote pipeline: defs
   are the labels of the definitions in list order, refs the labels of the reference events in
   inline-parse order; it returns the references (index, RefCount, RefIndex) and the rendered
   items with their back-links.  The theorems speak about ALL references the transformer
   counted; on the pinned tree a reference that is counted but not rendered (inside image alt
   text, or in the body of a footnote that is itself removed) leaves a dangling back-link: that
   is the recorded known finding, and is a statement about the renderer/tree, not about this
   numbering model. *)
Require Import GM.model.Base GM.model.Util GM.model.Ids GM.model.Html GM.model.FootnoteX GM.proofs.FootnoteProofs.
From Coq Require Import ZArith.
Open Scope Z_scope.

(* items are numbered consecutively from 1 in the order they are listed *)
Theorem C16_numbering_consecutive : forall defs refs links items, footnotes defs refs = (links, items) ->
  map i_index items = map Z.of_nat (seq 1 (length items)).
Proof. exact numbering_consecutive. Qed.
Print Assumptions C16_numbering_consecutive.

(* every reference shows the number of, and links to, exactly one rendered item *)
Theorem C16_ref_targets_exist : forall defs refs links items l, footnotes defs refs = (links, items) -> In l links ->
  exists it, In it items /\ i_index it = l_index l /\
             forall it', In it' items -> i_index it' = l_index l -> it' = it.
Proof. exact ref_targets_exist. Qed.
Print Assumptions C16_ref_targets_exist.

(* references and back-links correspond one to one *)
Theorem C16_links_distinct : forall defs refs links items, footnotes defs refs = (links, items) ->
  NoDup (map (fun l => (l_index l, l_refindex l)) links).
Proof. exact links_distinct. Qed.
Print Assumptions C16_links_distinct.
Theorem C16_backlinks_distinct : forall defs refs links items, footnotes defs refs = (links, items) ->
  NoDup (map (fun l => (l_index l, l_refindex l)) (flat_map i_backlinks items)).
Proof. exact backlinks_distinct. Qed.
Print Assumptions C16_backlinks_distinct.
Theorem C16_backlinks_bijective : forall defs refs links items, footnotes defs refs = (links, items) ->
  forall i k, In (i, k) (map (fun l => (l_index l, l_refindex l)) links) <->
              In (i, k) (map (fun l => (l_index l, l_refindex l)) (flat_map i_backlinks items)).
Proof. exact backlinks_bijective. Qed.
Print Assumptions C16_backlinks_bijective.

(* a definition that is never referenced produces no item *)
Theorem C16_unreferenced_silent : forall defs refs links items it, footnotes defs refs = (links, items) -> In it items ->
  exists l, In l links /\ l_index l = i_index it.
Proof. exact unreferenced_silent. Qed.
Print Assumptions C16_unreferenced_silent.

(* distinct (index, RefIndex) pairs / indices give distinct generated ids *)
Theorem C16_ref_id_injective : forall a b, 0 <= l_refindex a -> 0 <= l_refindex b -> 0 < l_index a -> 0 < l_index b ->
  ref_id a = ref_id b -> l_index a = l_index b /\ l_refindex a = l_refindex b.
Proof. exact ref_id_injective. Qed.
Print Assumptions C16_ref_id_injective.
Theorem C16_item_id_injective : forall i j, 0 <= i -> 0 <= j -> item_id i = item_id j -> i = j.
Proof. exact item_id_injective. Qed.
Print Assumptions C16_item_id_injective.

(* non-vacuity: definitions a, b, c referenced a, c, b, a *)
Example C16_demo :
  let '(links, items) := footnotes [[97%N]; [98%N]; [99%N]] [[97%N]; [99%N]; [98%N]; [97%N]] in
  (map (fun l => (l_index l, l_refcount l, l_refindex l)) links, map i_index items)
  = ([(1, 2, 0); (2, 1, 0); (3, 1, 0); (1, 2, 1)], [1; 2; 3]).
Proof. vm_compute. reflexivity. Qed.

(* ---------------- end to end, for the model of the parser with extension.Footnote
   (model/FootnoteI.v: the definition block parser, the reference parser, the AST transformer on
   the heap; compared with goldmark tree-for-tree and byte-for-byte on every run, case kinds
   ParseTreeFn / ConvertFn).  For EVERY source: the footnotes of the footnote list are numbered
   1, 2, ... in list order, and every footnote reference in the tree carries the number of a
   footnote of the list (the numbering and target clauses of C16; the back-link clause is where
   the recorded finding lives: a counted reference that is not rendered).  The tree is well
   formed and the conversion returns.  (proofs/FootnoteWf*.v, 54 files, 14.9 k lines.) *)
Require Import GM.model.Html GM.model.HtmlSpec GM.model.FootnoteI GM.proofs.ParseInv GM.proofs.FootnoteWf.
Theorem C16_model_numbering_and_targets : forall src t, bytes_ok src -> ParseTreeFn src = Ok t ->
  fn_items t = map Z.of_nat (seq 1 (length (fn_items t))) /\
  Forall (fun i => In i (fn_items t)) (fn_links t).
Proof. exact ParseTreeFn_numbering. Qed.
Print Assumptions C16_model_numbering_and_targets.
Theorem C16_model_tree_wf : forall src t, bytes_ok src -> ParseTreeFn src = Ok t -> wf_tree src t = true.
Proof. exact ParseTreeFn_wf. Qed.
Print Assumptions C16_model_tree_wf.
Theorem C16_model_convert_total : forall c src, bytes_ok src -> exists o, ConvertModelFn c src = Ok o.
Proof. exact ConvertModelFn_total. Qed.
Print Assumptions C16_model_convert_total.

(* the back-link clause is FALSE of the faithful model - the recorded finding as a theorem: for
   the source  ![x[^1]](/u) / empty line / [^1]: n  the output has the item (id="fn:1") and its
   back-link (href="#fnref:1") but no element with id="fnref:1", in every renderer configuration.
   goldmark gives the same bytes (case kind ConvertFn; known_findings.json). *)
Require Import GM.proofs.FootnoteFinding.
Theorem C16_backlink_clause_refuted : forall u x h ta, exists o,
  ConvertModelFn {| unsafe := u; xhtml := x; hardwraps := h; talign := ta |} dangling_src = Ok o /\
  occurs id_fn1 o = true /\ occurs href_fnref1 o = true /\ occurs id_fnref1 o = false.
Proof. exact backlink_dangling_witness. Qed.
Print Assumptions C16_backlink_clause_refuted.
