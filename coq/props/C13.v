(* C13 - AST mutation API and Walk behave like a plain ordered tree.
   Statements only; proofs are in proofs/AstProofs.v. *)
Require Import GM.model.Base GM.model.AstHeap GM.model.AstSpec GM.model.AstLegal GM.proofs.AstProofs.
From Coq Require Import Permutation Sorted.
Open Scope N_scope.

(* the empty pool represents the empty forest *)
Theorem C13_initial : Repr empty_heap empty_forest /\ wf_forest empty_forest.
Proof. exact (conj repr_empty wf_empty). Qed.
Print Assumptions C13_initial.

(* one call of AppendChild / InsertBefore / InsertAfter / ReplaceChild / RemoveChild /
   RemoveChildren / SortChildren on a heap that represents a well-formed forest neither panics
   nor diverges and yields a heap that represents the forest the list-of-children specification
   gives (Repr: Parent, FirstChild, LastChild, NextSibling, PreviousSibling, ChildCount agree
   pointwise), provided the call is legal (node argument not nil, not inserted into its own
   subtree or relative to itself) *)
Theorem C13_step_refines : forall fuel h f o,
  wf_forest f -> Repr h f -> Legal f o -> fuel_ok fuel f o ->
  exists h', step fuel h o = Ok h' /\ Repr h' (spec_step f o) /\ wf_forest (spec_step f o).
Proof. exact step_refines. Qed.
Print Assumptions C13_step_refines.

(* every sequence of legal calls, from any represented state (in particular from the empty pool) *)
Theorem C13_run_refines : forall fuel ops h f,
  wf_forest f -> Repr h f -> LegalRun fuel f ops ->
  exists h', run fuel h ops = Ok h' /\ Repr h' (spec_run f ops) /\ wf_forest (spec_run f ops).
Proof. exact run_refines. Qed.
Print Assumptions C13_run_refines.

(* SortChildren's specification: a permutation of the children, sorted by the comparator *)
Theorem C13_sort_spec : forall key l,
  Permutation l (s_sort key l) /\ StronglySorted (fun a b => (key a <= key b)%Z) (s_sort key l).
Proof. exact s_sort_sorted_perm. Qed.
Print Assumptions C13_sort_spec.

(* Walk over the pointer structure is the depth-first walk of the forest (walk_spec: enter,
   children in order unless SkipChildren, leave; stop at once on WalkStop or an error), for
   every visitor and every amount of fuel *)
Theorem C13_walk_refines : forall h f, Repr h f -> wf_forest f -> forall fuel v n,
  walk fuel h v n =
  (r <- walk_spec fuel f v n [] ;; let '(_, err, tr) := r in Ok (err, tr)).
Proof. exact walk_refines. Qed.
Print Assumptions C13_walk_refines.

(* non-vacuity: a pool with three parents after a 12-operation program (moves between parents,
   a nil reference, a foreign reference, a replace, a sort) runs without panic to the expected tree *)
Definition demo_ops : list op :=
  [OAppend 1 (Some 2); OAppend 1 (Some 3); OInsertBefore 1 (Some 2) (Some 4); OAppend 5 (Some 6);
   OInsertAfter 5 (Some 6) (Some 7); OAppend 8 (Some 3); OReplace 1 (Some 4) (Some 7); OAppend 1 (Some 6);
   OInsertBefore 8 None (Some 9); ORemove 1 (Some 2); OSort 8 (fun x => (10 - Z.of_N x)%Z); OInsertAfter 1 (Some 42) (Some 2)].
Example C13_demo_runs :
  match run 20 empty_heap demo_ops with
  | Ok h => (children_fwd 20 h (fst_ h 1), children_fwd 20 h (fst_ h 8), children_fwd 20 h (fst_ h 5), cnt h 1)
            = ([7; 6; 2], [9; 3], [], 3%Z)
  | _ => False
  end.
Proof. vm_compute. reflexivity. Qed.
