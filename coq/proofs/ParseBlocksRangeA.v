(* Helper library for ParseBlocksRange.v, part A: the plain reader along successful runs.
   Every lemma here has the shape "the operation returned Ok, the reader satisfied the invariant
   before => it satisfies it afterwards, over the same source, at a position that is not smaller". *)
Require Import GM.model.Base GM.model.Util GM.model.Reader GM.model.ReaderSpec GM.model.Blocks GM.model.ListItem
               GM.model.LeafBlocks GM.model.CodeBlock.
Require Import GM.proofs.ReaderProofs GM.proofs.BlockRangeProofs.
From Coq Require Import ZArith Lia.
Open Scope Z_scope.

(* ---------- result helpers ---------- *)
Lemma bind_ok {A B} (r : result A) (f : A -> result B) (b : B) :
  bind r f = Ok b -> exists a, r = Ok a /\ f a = Ok b.
Proof. destruct r as [a| |]; cbn [bind]; intros H; try discriminate. exists a. split; [reflexivity|exact H]. Qed.

Ltac bind_inv H x Hx :=
  let H' := fresh in
  apply bind_ok in H; destruct H as [x [Hx H']]; rename H' into H.

(* ---------- the strengthened reader invariant ---------- *)
(* padding only ever appears after at least one source byte (a tab) has been consumed *)
Definition PadInv (r : reader) : Prop := 0 < s_pad (r_pos r) -> 1 <= s_start (r_pos r).
Definition R2 (src : bytes) (r : reader) : Prop := RInv r /\ r_src r = src /\ PadInv r.
(* same source, position not smaller *)
Definition Rle (r r' : reader) : Prop :=
  r_src r' = r_src r /\ s_start (r_pos r) <= s_start (r_pos r').

Lemma Rle_refl r : Rle r r.
Proof. split; [reflexivity|lia]. Qed.
Lemma Rle_trans a b c : Rle a b -> Rle b c -> Rle a c.
Proof. intros [H1 H2] [H3 H4]. split; [congruence|lia]. Qed.

Lemma line_end_mono src s t : 0 <= s <= t -> t <= zlen src -> line_end src s <= line_end src t.
Proof.
  intros Hst Ht. destruct (Z_lt_le_dec t (line_end src s)) as [Hlt|Hge].
  - destruct (Z_lt_le_dec s (zlen src)) as [Hin|Hout].
    + destruct (line_end_mid src s t ltac:(lia) Hlt Hin) as [H1 _]. lia.
    + rewrite line_end_eof in Hlt by lia. lia.
  - pose proof (line_end_range src t ltac:(lia)). lia.
Qed.

Lemma Rle_stop r r' : RInv r -> RInv r' -> Rle r r' -> s_stop (r_pos r) <= s_stop (r_pos r').
Proof.
  intros Hi Hi' [Hs Hle]. rewrite (ri_stop r Hi), (ri_stop r' Hi'), Hs.
  pose proof (ri_range r Hi). pose proof (ri_range r' Hi'). rewrite Hs in *.
  apply line_end_mono; lia.
Qed.

(* ---------- PeekLine ---------- *)
Lemma peek_ok r r' l sg : RInv r -> r_peek_line r = Ok (r', l, sg) ->
  RInv r' /\ r_pos r' = r_pos r /\ r_src r' = r_src r /\ sg = r_pos r /\
  l = (if r_in_range r then Some (r_view r) else None) /\
  r_line r' = r_line r /\ r_head r' = r_head r.
Proof.
  intros Hinv H. unfold r_peek_line in H. pose proof (seg_value_view r Hinv) as Hv.
  destruct (r_in_range r) eqn:Hin.
  - destruct (r_peeked r) as [v|] eqn:Hpk.
    + injection H as <- <- <-. pose proof (ri_peeked r Hinv v Hpk) as Hv'. rewrite Hv in Hv'.
      injection Hv' as <-. csplit; auto.
    + rewrite Hv in H. cbn [bind] in H. injection H as <- <- <-.
      csplit; auto. apply RInv_set_peeked; assumption.
  - injection H as <- <- <-. csplit; auto.
Qed.

(* ---------- LineOffset ---------- *)
Lemma loff_ok r r' o : RInv r -> r_line_offset r = Ok (r', o) ->
  RInv r' /\ r_pos r' = r_pos r /\ r_src r' = r_src r /\ r_line r' = r_line r /\ r_head r' = r_head r /\
  r_peeked r' = r_peeked r /\ o = r_column r (r_head r).
Proof.
  intros Hinv H. unfold r_line_offset in H.
  destruct (Z.ltb_spec (r_loff r) 0) as [Hneg|Hpos].
  - destruct (Z.ltb_spec (r_head r) (s_start (r_pos r))) as [Hlt|Hge].
    + bind_inv H v Hv. injection H as <- <-.
      unfold slice in Hv.
      destruct ((0 <=? r_head r) && (r_head r <=? s_start (r_pos r)) && (s_start (r_pos r) <=? zlen (r_src r))) eqn:Hc;
        [|discriminate].
      injection Hv as <-. csplit; auto.
      apply RInv_set_loff; [exact Hinv|]. intros _. reflexivity.
    + injection H as <- <-. csplit; auto.
      * apply RInv_set_loff; [exact Hinv|]. intros _. unfold r_column. rewrite ReaderProofs.sub_empty by lia. reflexivity.
      * unfold r_column. rewrite ReaderProofs.sub_empty by lia. reflexivity.
  - injection H as <- <-. csplit; auto. apply (ri_loff r Hinv). lia.
Qed.

(* ---------- Advance ---------- *)
Lemma advance_slow_mono fuel : forall n r r', RInv r -> r_peeked r = None -> r_loff r = -1 ->
  r_advance_slow fuel r n = Ok r' ->
  s_start (r_pos r) <= s_start (r_pos r') /\
  (0 < s_pad (r_pos r') -> 0 < s_pad (r_pos r)) /\
  (1 <= n -> s_pad (r_pos r) = 0 -> s_start (r_pos r) < zlen (r_src r) -> s_start (r_pos r) < s_start (r_pos r')).
Proof.
  induction fuel as [|f IH]; intros n r r' Hinv Hpk Hlo H; [discriminate|].
  cbn [r_advance_slow] in H. unfold r_len in H.
  destruct (Z.ltb_spec 0 n) as [Hn0|Hn0]; cbn [andb] in H.
  2: { injection H as <-. csplit; lia. }
  destruct (Z.ltb_spec (s_start (r_pos r)) (zlen (r_src r))) as [Hlt|Hge].
  2: { injection H as <-. csplit; lia. }
  pose proof (inv_bounds r Hinv) as Hb. pose proof (ri_pad r Hinv) as Hpad.
  destruct (Z.eqb_spec (s_pad (r_pos r)) 0) as [Hp0|Hp0]; cbn [negb] in H.
  - rewrite at_nth in H by lia. cbn [bind] in H.
    destruct (N.eqb_spec (nth (Z.to_nat (s_start (r_pos r))) (r_src r) 0%N) 10) as [Hc|Hc].
    + apply IH in H; [|apply advance_line_inv; exact Hinv|apply advance_line_peeked|apply advance_line_loff].
      destruct H as [H1 [H2 H3]].
      pose proof (inv_bounds_in r Hinv Hlt) as Hss.
      assert (s_start (r_pos (r_advance_line r)) = s_stop (r_pos r)) as Hst.
      { rewrite r_advance_line_eq by lia. reflexivity. }
      csplit; try lia.
      intros Hp'. apply H2 in Hp'. rewrite r_advance_line_eq in Hp' by lia. cbn in Hp'. lia.
    + destruct (step_char r Hinv Hpk Hlo ltac:(lia) Hp0 Hc) as [Hi1 _].
      apply IH in H; [|exact Hi1|exact Hpk|exact Hlo]. cbn [r_pos rset_pos s_start s_pad] in H.
      destruct H as [H1 [H2 H3]]. csplit; try lia.
  - destruct (step_pad r Hinv Hpk Hlo ltac:(lia) Hp0) as [Hi1 _].
    apply IH in H; [|exact Hi1|exact Hpk|exact Hlo]. cbn [r_pos rset_pos s_start s_pad] in H.
    destruct H as [H1 [H2 H3]]. csplit; try lia.
Qed.

Lemma adv_ok r n r' : RInv r -> 0 <= n -> r_advance r n = Ok r' ->
  RInv r' /\ Rle r r' /\
  (0 < s_pad (r_pos r') -> 0 < s_pad (r_pos r)) /\
  (1 <= n -> s_pad (r_pos r) = 0 -> s_start (r_pos r) < zlen (r_src r) -> s_start (r_pos r) < s_start (r_pos r')).
Proof.
  intros Hinv Hn H.
  destruct (advance_skips_gen r n Hinv Hn) as [r'' [E [Hinv' [Hsrc _]]]].
  rewrite E in H. injection H as ->. split; [exact Hinv'|].
  assert (s_start (r_pos r) <= s_start (r_pos r') /\
          (0 < s_pad (r_pos r') -> 0 < s_pad (r_pos r)) /\
          (1 <= n -> s_pad (r_pos r) = 0 -> s_start (r_pos r) < zlen (r_src r) -> s_start (r_pos r) < s_start (r_pos r'))) as Hm.
  { unfold r_advance in E. rsimpl.
    assert (forall r1, r_advance_slow (Z.to_nat n + 1) (rset_peeked (rset_loff r (-1)) None) n = Ok r1 ->
            s_start (r_pos r) <= s_start (r_pos r1) /\ (0 < s_pad (r_pos r1) -> 0 < s_pad (r_pos r)) /\
            (1 <= n -> s_pad (r_pos r) = 0 -> s_start (r_pos r) < zlen (r_src r) -> s_start (r_pos r) < s_start (r_pos r1))) as Hslow.
    { intros r1 E1. apply advance_slow_mono in E1; [|apply RInv_clear; exact Hinv|reflexivity|reflexivity].
      exact E1. }
    destruct ((n <? match r_peeked r with Some v => zlen v | None => 0 end) && (s_pad (r_pos r) =? 0)) eqn:Hc.
    - injection E as <-. rsimpl. apply andb_true_iff in Hc. destruct Hc as [_ Hc]. csplit; lia.
    - apply Hslow. exact E. }
  destruct Hm as [H1 [H2 H3]]. split; [split; [exact Hsrc|exact H1]|]. split; assumption.
Qed.

Lemma adv_R2 src r n r' : R2 src r -> 0 <= n -> r_advance r n = Ok r' -> R2 src r' /\ Rle r r'.
Proof.
  intros [Hinv [Hsrc Hpad]] Hn H. destruct (adv_ok r n r' Hinv Hn H) as [Hi [[Hs Hle] [Hp _]]].
  split; [|split; assumption]. split; [exact Hi|]. split; [congruence|].
  intros Hp'. specialize (Hpad (Hp Hp')). lia.
Qed.

(* after consuming at least one byte from a position inside the source the start is >= 1 *)
Lemma adv_pos r n r' : RInv r -> PadInv r -> 1 <= n -> r_in_range r = true -> r_advance r n = Ok r' ->
  1 <= s_start (r_pos r').
Proof.
  intros Hinv Hpad Hn Hin H. apply in_range_true in Hin.
  destruct (adv_ok r n r' Hinv ltac:(lia) H) as [_ [[_ Hle] [_ Hlt]]].
  pose proof (ri_pad r Hinv) as Hp.
  destruct (Z.eq_dec (s_pad (r_pos r)) 0) as [E|E].
  - specialize (Hlt Hn E ltac:(lia)). lia.
  - specialize (Hpad ltac:(lia)). lia.
Qed.

Lemma set_padding_R2 src r v : R2 src r -> 0 <= v -> (0 < v -> 1 <= s_start (r_pos r)) ->
  R2 src (r_set_padding r v) /\ Rle r (r_set_padding r v).
Proof.
  intros [Hinv [Hsrc Hpad]] Hv Hst.
  destruct (set_padding_inv r v Hinv Hv) as [Hi [Hs [Hstart Hp]]].
  split; [|split; [exact Hs|lia]]. split; [exact Hi|]. split; [congruence|].
  intros Hp'. rewrite Hp in Hp'. rewrite Hstart. auto.
Qed.

(* AdvanceAndSetPadding: the padding is only set (to a positive value) when the start is >= 1 afterwards *)
Lemma adv_pad_ok src r n p r' : R2 src r -> 0 <= n ->
  (0 < p -> 1 <= s_start (r_pos r) \/ (1 <= n /\ r_in_range r = true)) ->
  r_advance_and_set_padding r n p = Ok r' -> R2 src r' /\ Rle r r'.
Proof.
  intros HR Hn Hp H. unfold r_advance_and_set_padding in H. bind_inv H r1 E1.
  destruct (adv_R2 src r n r1 HR Hn E1) as [HR1 Hle1].
  destruct (Z.ltb_spec (s_pad (r_pos r1)) p) as [Hlt|Hge].
  - injection H as <-. destruct HR as [Hinv [Hsrc Hpad]].
    pose proof (ri_pad r1 (proj1 HR1)) as Hp1.
    destruct (set_padding_R2 src r1 p HR1 ltac:(lia)) as [HR2 Hle2].
    + intros Hp0. destruct (Hp Hp0) as [Hs|[Hn1 Hin]].
      * destruct Hle1 as [_ Hle1]. lia.
      * apply (adv_pos r n r1 Hinv Hpad Hn1 Hin E1).
    + split; [exact HR2|]. eapply Rle_trans; eassumption.
  - injection H as <-. split; assumption.
Qed.

(* ---------- AdvanceLine ---------- *)
Lemma advl_inv src r : RInv r -> r_src r = src -> R2 src (r_advance_line r) /\ Rle r (r_advance_line r) /\
  s_start (r_pos (r_advance_line r)) = s_stop (r_pos r).
Proof.
  intros Hinv Hsrc. pose proof (inv_bounds r Hinv) as Hb.
  assert (s_start (r_pos (r_advance_line r)) = s_stop (r_pos r) /\ s_pad (r_pos (r_advance_line r)) = 0) as [Hst Hp0].
  { rewrite r_advance_line_eq by lia. split; reflexivity. }
  split; [|split; [split; [apply advance_line_src|lia]|exact Hst]].
  split; [apply advance_line_inv; exact Hinv|]. split; [rewrite advance_line_src; exact Hsrc|].
  intros Hp. lia.
Qed.

Lemma advl_R2 src r : R2 src r -> R2 src (r_advance_line r) /\ Rle r (r_advance_line r) /\
  s_start (r_pos (r_advance_line r)) = s_stop (r_pos r).
Proof. intros [Hinv [Hsrc _]]. apply advl_inv; assumption. Qed.

(* ---------- the weak reader of an (almost) consumed line ---------- *)
(* all that AdvanceLine looks at agrees with a reader that satisfies the invariant *)
Definition RW (src : bytes) (r : reader) : Prop :=
  exists r0, RInv r0 /\ r_src r0 = src /\ r_src r = src /\ s_stop (r_pos r) = s_stop (r_pos r0) /\
             s_fnl (r_pos r) = s_fnl (r_pos r0) /\ r_line r = r_line r0.

Lemma R2_RW src r : R2 src r -> RW src r.
Proof. intros [Hinv [Hsrc _]]. exists r. csplit; auto. Qed.

Lemma RW_stop src r : RW src r -> 0 <= s_stop (r_pos r) <= zlen src.
Proof.
  intros [r0 [Hinv [Hs0 [Hs [Hstop _]]]]]. pose proof (inv_bounds r0 Hinv) as Hb. rewrite Hs0 in Hb. lia.
Qed.

Lemma advl_RW src r : RW src r -> R2 src (r_advance_line r) /\
  s_start (r_pos (r_advance_line r)) = s_stop (r_pos r).
Proof.
  intros [r0 [Hinv [Hs0 [Hs [Hstop [Hfnl Hline]]]]]].
  pose proof (inv_bounds r0 Hinv) as Hb.
  assert (r_advance_line r = r_advance_line r0) as E.
  { rewrite (r_advance_line_eq r) by lia. rewrite (r_advance_line_eq r0) by lia.
    rewrite Hs, Hs0, Hstop, Hfnl, Hline. reflexivity. }
  rewrite E. destruct (advl_inv src r0 Hinv Hs0) as [H1 [_ H3]]. split; [exact H1|]. rewrite H3. auto.
Qed.

(* ---------- Advance with any count, when only the weak invariant is wanted afterwards ---------- *)
Lemma RInv_RW src r : RInv r -> r_src r = src -> RW src r.
Proof. intros Hinv Hsrc. exists r. csplit; auto. Qed.

Lemma adv_RW src r n r' : RInv r -> r_src r = src -> r_advance r n = Ok r' ->
  RW src r' /\ s_stop (r_pos r) <= s_stop (r_pos r').
Proof.
  intros Hinv Hsrc H. destruct (Z_le_gt_dec 0 n) as [Hn|Hn].
  - destruct (adv_ok r n r' Hinv Hn H) as [Hi [Hle _]]. split.
    + apply RInv_RW; [exact Hi|destruct Hle; congruence].
    + apply Rle_stop; assumption.
  - unfold r_advance in H. rsimpl.
    destruct ((n <? match r_peeked r with Some v => zlen v | None => 0 end) && (s_pad (r_pos r) =? 0)).
    + injection H as <-. rsimpl. split; [|lia].
      exists r. csplit; auto.
    + replace (Z.to_nat n + 1)%nat with 1%nat in H by lia. cbn [r_advance_slow] in H.
      destruct (Z.ltb_spec 0 n) as [Hc|_]; [lia|]. cbn [andb] in H. injection H as <-. rsimpl.
      split; [|lia]. exists r. csplit; auto.
Qed.

Lemma set_padding_RW src r v : RW src r -> RW src (r_set_padding r v) /\
  s_stop (r_pos (r_set_padding r v)) = s_stop (r_pos r).
Proof.
  intros [r0 [Hinv [Hs0 [Hs [Hstop [Hfnl Hline]]]]]]. split; [|reflexivity].
  exists r0. unfold r_set_padding. rsimpl. csplit; auto.
Qed.

Lemma adv_pad_RW src r n p r' : RInv r -> r_src r = src -> r_advance_and_set_padding r n p = Ok r' ->
  RW src r' /\ s_stop (r_pos r) <= s_stop (r_pos r').
Proof.
  intros Hinv Hsrc H. unfold r_advance_and_set_padding in H. bind_inv H r1 E1.
  destruct (adv_RW src r n r1 Hinv Hsrc E1) as [HW Hle].
  destruct (s_pad (r_pos r1) <? p).
  - injection H as <-. destruct (set_padding_RW src r1 p HW) as [HW2 E]. split; [exact HW2|]. rewrite E. exact Hle.
  - injection H as <-. split; assumption.
Qed.

(* ---------- preserveLeadingTabInCodeBlock: SetPosition to the byte before, LineOffset, SetPosition back ---------- *)
Lemma tab_dance r p1 ra rb o2 rc :
  r_set_position r (r_line r) p1 = Ok ra -> r_line_offset ra = Ok (rb, o2) ->
  r_set_position rb (r_line r) (r_pos r) = Ok rc ->
  rc = rset_peeked (rset_loff r (-1)) None.
Proof.
  intros H1 H2 H3. unfold r_set_position in H1. rsimpl. rewrite Z.eqb_refl in H1. cbn [negb bind] in H1.
  injection H1 as <-. unfold r_line_offset in H2. rsimpl.
  assert (r_line rb = r_line r /\ r_src rb = r_src r /\ r_head rb = r_head r) as [El [Es Eh]].
  { destruct (-1 <? 0); [|injection H2 as <- <-; auto].
    destruct (r_head r <? s_start p1).
    - bind_inv H2 v Hv. injection H2 as <- <-. auto.
    - injection H2 as <- <-. auto. }
  unfold r_set_position in H3. rsimpl. rewrite El, Z.eqb_refl in H3. cbn [negb bind] in H3.
  injection H3 as <-. destruct r as [src line pk pos head loff]. destruct rb as [src' line' pk' pos' head' loff'].
  rsimpl. cbv [rset_pos rset_line rset_peeked rset_loff]. rsimpl. subst. reflexivity.
Qed.

(* ---------- indentation arithmetic (no assumption on the current column) ---------- *)
Lemma tabw_range x : 1 <= 4 - x mod 4 <= 4.
Proof. pose proof (Z.mod_pos_bound x 4 ltac:(lia)). lia. Qed.

Lemma iw_pos_range bs cur : forall w pos w' pos', indent_width_pos bs cur w pos = (w', pos') ->
  w <= w' /\ pos <= pos' <= pos + zlen bs.
Proof.
  induction bs as [|c r IH]; intros w pos w' pos' H; cbn [indent_width_pos] in H.
  - injection H as <- <-. rewrite zlen_nil. lia.
  - rewrite zlen_cons. pose proof (zlen_nonneg r). pose proof (tabw_range (cur + w)).
    destruct (N.eqb c 32); [apply IH in H; lia|].
    destruct (N.eqb c 9); [apply IH in H; lia|]. injection H as <- <-. lia.
Qed.

Lemma iw_range bs cur w pos : indent_width bs cur = (w, pos) -> 0 <= w /\ 0 <= pos <= zlen bs.
Proof. intros H. apply iw_pos_range in H. lia. Qed.

Lemma ipl_mono bs cur width : forall w i p w' i', indent_position_loop bs cur w i p width = (w', i') ->
  w <= w' /\ i <= i' <= i + zlen bs /\ (i' = i -> w' = w) /\ (0 <= p <= zlen bs -> i + p <= i').
Proof.
  induction bs as [|c r IH]; intros w i p w' i' H; cbn [indent_position_loop] in H.
  - injection H as <- <-. rewrite zlen_nil. lia.
  - rewrite zlen_cons. pose proof (zlen_nonneg r). pose proof (tabw_range (cur + w)). unfold tab_width in H.
    destruct (Z.ltb_spec 0 p).
    + apply IH in H. lia.
    + destruct (N.eqb c 9 && (w <? width))%bool; [apply IH in H; lia|].
      destruct (N.eqb c 32 && (w <? width))%bool; [apply IH in H; lia|].
      injection H as <- <-. lia.
Qed.

Lemma ip_range bs cur width pos padding : 0 <= width -> indent_position bs cur width = (pos, padding) ->
  (pos = -1 /\ padding = -1) \/ (0 <= pos <= zlen bs /\ 0 <= padding /\ (0 < padding -> 1 <= pos)).
Proof.
  intros Hw H. unfold indent_position, indent_position_padding in H. pose proof (zlen_nonneg bs).
  destruct (Z.eqb_spec width 0).
  - injection H as <- <-. right. lia.
  - destruct (indent_position_loop bs cur 0 0 0 width) as [w i] eqn:E. apply ipl_mono in E.
    destruct (Z.leb_spec width w); injection H as <- <-; [right|left]; lia.
Qed.

Lemma ip_vs_iw bs cur width : forall w i j W P w' i', indent_width_pos bs cur w j = (W, P) ->
  indent_position_loop bs cur w i 0 width = (w', i') -> width <= W -> width <= w'.
Proof.
  induction bs as [|c r IH]; intros w i j W P w' i' H1 H2 Hle; cbn [indent_width_pos indent_position_loop] in H1, H2.
  - injection H1 as <- <-. injection H2 as <- <-. exact Hle.
  - change (0 <? 0) with false in H2. cbv iota in H2. unfold tab_width in H2.
    destruct (N.eqb_spec c 32) as [E|E].
    + subst c. change (N.eqb 32 9) with false in H2. cbn [andb] in H2. change (N.eqb 32 32) with true in H2.
      cbn [andb] in H2. destruct (Z.ltb_spec w width).
      * eapply IH; eassumption.
      * injection H2 as <- <-. lia.
    + destruct (N.eqb_spec c 9) as [E9|E9].
      * cbn [andb] in H2. destruct (Z.ltb_spec w width).
        -- eapply IH; eassumption.
        -- replace (N.eqb c 32) with false in H2 by (symmetry; apply N.eqb_neq; exact E).
           cbn [andb] in H2. injection H2 as <- <-. lia.
      * cbn [andb] in H2. replace (N.eqb c 32) with false in H2 by (symmetry; apply N.eqb_neq; exact E).
        cbn [andb] in H2. injection H1 as <- <-. injection H2 as <- <-. exact Hle.
Qed.

Lemma ip_defined line off width pos padding : indent_position line off width = (pos, padding) ->
  width <= fst (indent_width line off) -> pos <> -1.
Proof.
  intros H Hle. unfold indent_position, indent_position_padding in H.
  destruct (Z.eqb_spec width 0); [injection H as <- <-; lia|].
  destruct (indent_position_loop line off 0 0 0 width) as [w i] eqn:E.
  unfold indent_width in Hle. destruct (indent_width_pos line off 0 0) as [W P] eqn:EW. cbn [fst] in Hle.
  pose proof (ip_vs_iw _ _ _ _ _ _ _ _ _ _ EW E Hle) as Hw. apply ipl_mono in E.
  destruct (Z.leb_spec width w); [|lia]. injection H as <- <-. lia.
Qed.

(* ---------- lines that start with virtual padding ---------- *)
Lemma spaces_n_repeat p : spaces_n p = repeat 32%N (Z.to_nat p).
Proof. reflexivity. Qed.

Lemma nth_spaces_app p v i : 0 <= i < p -> nth (Z.to_nat i) (spaces_n p ++ v) 0%N = 32%N.
Proof.
  intros Hi. unfold spaces_n. rewrite app_nth1 by (rewrite repeat_length; lia).
  rewrite (nth_indep _ 0%N 32%N) by (rewrite repeat_length; lia). apply nth_repeat.
Qed.

Lemma skipn_hd_nth {A} (d : A) : forall n (l : list A) c r, skipn n l = c :: r -> nth n l d = c /\ (n < length l)%nat.
Proof.
  induction n as [|n IH]; intros l c r H.
  - destruct l; [discriminate|]. cbn in H. injection H as <- <-. cbn. split; [reflexivity|lia].
  - destruct l as [|x l]; [discriminate|]. cbn [skipn] in H. apply IH in H. cbn [nth length]. split; [apply H|lia].
Qed.

Lemma count_byte_pos ch l : 0 < count_byte ch l -> exists r, l = ch :: r.
Proof.
  destruct l as [|c r]; cbn [count_byte]; [lia|]. destruct (N.eqb_spec c ch) as [E|E]; [|lia].
  intros _. subst. eexists; reflexivity.
Qed.

Lemma fnsp_spaces v : forall k i, first_non_space_position (repeat 32%N k ++ v) i = first_non_space_position v (i + Z.of_nat k).
Proof.
  induction k as [|k IH]; intros i.
  - cbn [repeat app]. f_equal. lia.
  - cbn [repeat app first_non_space_position]. change (N.eqb 32 32) with true. cbn [orb]. rewrite IH. f_equal. lia.
Qed.

Section Tables.
Variable space_table : list N.

Lemma atx_open_pos line pos lv a b : atx_open space_table line pos = Ok (Some (lv, Some (a, b))) ->
  0 <= pos /\ nth (Z.to_nat pos) line 0%N = 35%N.
Proof.
  intros H. unfold atx_open in H. destruct (Z.ltb_spec pos 0) as [Hn|Hn]; [discriminate|]. split; [exact Hn|].
  cbv zeta in H.
  destruct (Z.eqb_spec (pos + count_byte 35 (zskip pos line)) pos) as [E|E]; cbn [orb] in H; [discriminate|].
  pose proof (br_count_byte_range 35 (zskip pos line)) as Hc.
  destruct (count_byte_pos 35 (zskip pos line) ltac:(lia)) as [r Hr].
  unfold zskip in Hr. apply (skipn_hd_nth 0%N) in Hr. apply Hr.
Qed.

Lemma fence_open_pos line pos ch ind n info : fence_open space_table line pos = Ok (Some (ch, ind, n, info)) ->
  0 <= pos < zlen line /\ (nth (Z.to_nat pos) line 0%N = 96%N \/ nth (Z.to_nat pos) line 0%N = 126%N).
Proof.
  intros H. unfold fence_open in H. destruct (Z.ltb_spec pos 0) as [Hn|Hn]; [discriminate|].
  unfold at_ in H. destruct (Z.ltb_spec pos (zlen line)) as [Hl|Hl].
  2: { replace (0 <=? pos) with true in H by lia. cbn in H. discriminate. }
  replace (0 <=? pos) with true in H by lia. cbn [andb bind] in H. split; [lia|].
  destruct (N.eqb_spec (nth (Z.to_nat pos) line 0%N) 96); [left; assumption|].
  destruct (N.eqb_spec (nth (Z.to_nat pos) line 0%N) 126); [right; assumption|].
  cbn in H. discriminate.
Qed.

(* an index of the view that holds a byte other than a blank lies behind the padding *)
Lemma view_idx_pad p v i c : 0 <= i -> nth (Z.to_nat i) (spaces_n p ++ v) 0%N = c -> c <> 32%N -> p <= i.
Proof.
  intros Hi Hn Hc. destruct (Z_lt_le_dec i p) as [Hlt|Hge]; [|exact Hge].
  rewrite nth_spaces_app in Hn by lia. congruence.
Qed.

Lemma fence_continue_view v off pad ch indent flen : 0 <= pad -> 0 <= indent ->
  match fence_continue space_table (spaces_n pad ++ v) off pad ch indent flen with
  | inl adv => spaces_n pad ++ v <> [] -> 0 <= adv
  | inr (p, padding) => 0 <= p <= zlen v /\ 0 <= padding /\ (0 < padding -> 0 < pad \/ 1 <= p)
  end.
Proof.
  intros Hpad Hind. set (line := spaces_n pad ++ v).
  assert (zlen line = pad + zlen v) as Hzl.
  { unfold line. rewrite zlen_app, zlen_spaces by lia. reflexivity. }
  pose proof (zlen_nonneg v) as Hv.
  unfold fence_continue. destruct (indent_width line off) as [w pos]. cbv zeta.
  match goal with |- match (if ?b then _ else _) with _ => _ end => destruct b end.
  - intros Hne. destruct (N.eqb (nth_byte line (zlen line - 1)) 10); [|lia].
    destruct line; [congruence|]. rewrite zlen_cons in *. pose proof (zlen_nonneg line). lia.
  - unfold indent_position_padding.
    assert (Hq : let q := first_non_space_position line 0 in
                 0 <= (if q <? 0 then 0 else q - pad) <= zlen v).
    { cbv zeta. unfold line, spaces_n. rewrite fnsp_spaces.
      destruct (br_fnsp_range v (0 + Z.of_nat (Z.to_nat pad))) as [E|E].
      - rewrite E. cbn. lia.
      - destruct (Z.ltb_spec (first_non_space_position v (0 + Z.of_nat (Z.to_nat pad))) 0); lia. }
    cbv zeta in Hq.
    destruct (Z.eqb_spec indent 0) as [E|E].
    + change (0 <? 0) with false. cbv iota. lia.
    + destruct (indent_position_loop line off 0 0 pad indent) as [w' i'] eqn:Hloop.
      apply ipl_mono in Hloop.
      destruct (Z.leb_spec indent w') as [Hle|Hlt].
      * destruct (Z.ltb_spec (i' - pad) 0) as [Hn|Hn]; [lia|]. lia.
      * change (-1 <? 0) with true. cbv iota. lia.
Qed.

End Tables.

(* ---------- composite reader operations ---------- *)
Lemma in_range_eq a b : r_pos a = r_pos b -> r_src a = r_src b -> r_in_range a = r_in_range b.
Proof. intros H1 H2. unfold r_in_range, r_len. rewrite H1, H2. reflexivity. Qed.

Lemma R2_same src a b : R2 src a -> RInv b -> r_pos b = r_pos a -> r_src b = r_src a -> R2 src b /\ Rle a b.
Proof.
  intros [Hi [Hs Hp]] Hib Hpos Hsrc. split; [|split; [exact Hsrc|rewrite Hpos; lia]].
  split; [exact Hib|]. split; [congruence|]. unfold PadInv. rewrite Hpos. exact Hp.
Qed.

Lemma peek_R2 src r r' l sg : R2 src r -> r_peek_line r = Ok (r', l, sg) ->
  R2 src r' /\ Rle r r' /\ r_pos r' = r_pos r /\ sg = r_pos r /\
  l = (if r_in_range r then Some (r_view r) else None) /\ r_in_range r' = r_in_range r.
Proof.
  intros HR H. destruct (peek_ok r r' l sg (proj1 HR) H) as [Hi [Hp [Hs [Hsg [Hl _]]]]].
  destruct (R2_same src r r' HR Hi Hp Hs) as [H1 H2]. csplit; auto. apply in_range_eq; assumption.
Qed.

Lemma loff_R2 src r r' o : R2 src r -> r_line_offset r = Ok (r', o) ->
  R2 src r' /\ Rle r r' /\ r_pos r' = r_pos r /\ r_in_range r' = r_in_range r.
Proof.
  intros HR H. destruct (loff_ok r r' o (proj1 HR) H) as [Hi [Hp [Hs _]]].
  destruct (R2_same src r r' HR Hi Hp Hs) as [H1 H2]. csplit; auto. apply in_range_eq; assumption.
Qed.

(* what the view and the column depend on *)
Definition rkey (r : reader) := (r_src r, r_pos r, r_head r).
Lemma rkey_view a b : rkey a = rkey b -> r_view a = r_view b /\ r_column a (r_head a) = r_column b (r_head b) /\
  r_in_range a = r_in_range b.
Proof.
  unfold rkey. intros E. injection E as E1 E2 E3. unfold r_view, r_column, r_in_range, r_len. rewrite E1, E2, E3. auto.
Qed.
Lemma peek_rkey r r' l sg : RInv r -> r_peek_line r = Ok (r', l, sg) -> rkey r' = rkey r.
Proof. intros Hi H. destruct (peek_ok r r' l sg Hi H) as [_ [Hp [Hs [_ [_ [_ Hh]]]]]]. unfold rkey. congruence. Qed.
Lemma loff_rkey r r' o : RInv r -> r_line_offset r = Ok (r', o) -> rkey r' = rkey r /\ o = r_column r (r_head r).
Proof. intros Hi H. destruct (loff_ok r r' o Hi H) as [_ [Hp [Hs [_ [Hh [_ Ho]]]]]]. unfold rkey. split; congruence. Qed.

Lemma view_spaces r : r_view r = spaces_n (s_pad (r_pos r)) ++ sub (r_src r) (s_start (r_pos r)) (s_stop (r_pos r)).
Proof. reflexivity. Qed.

Lemma view_nonempty r : RInv r -> r_in_range r = true -> 1 <= zlen (r_view r).
Proof.
  intros Hinv Hin. apply in_range_true in Hin. pose proof (inv_bounds_in r Hinv ltac:(lia)).
  rewrite view_zlen by exact Hinv. pose proof (ri_pad r Hinv). lia.
Qed.

Lemma peeked_some r l : l = (if r_in_range r then Some (r_view r) else None) -> forall v, l = Some v ->
  r_in_range r = true /\ v = r_view r.
Proof. intros Hl v E. destruct (r_in_range r); rewrite Hl in E; [injection E as <-; auto|discriminate]. Qed.

Lemma bq_process_ok src r r' ok : R2 src r -> bq_process r = Ok (r', ok) ->
  R2 src r' /\ Rle r r' /\ (ok = false -> r_pos r' = r_pos r).
Proof.
  intros HR H. unfold bq_process in H.
  bind_inv H x Ex. destruct x as [[r1 line] sg0].
  destruct (peek_R2 src r r1 line sg0 HR Ex) as [HR1 [Hle1 [Hp1 [_ [Hl Hin1]]]]].
  destruct line as [line|]; [|discriminate].
  destruct (peeked_some r _ Hl line eq_refl) as [Hin Hv].
  bind_inv H y Ey. destruct y as [r2 off].
  destruct (loff_R2 src r1 r2 off HR1 Ey) as [HR2 [Hle2 [Hp2 Hin2]]].
  assert (Rle r r2) as Hle by (eapply Rle_trans; eassumption).
  assert (r_pos r2 = r_pos r) as Hp by congruence.
  assert (r_in_range r2 = true) as Hinr2 by congruence.
  destruct (indent_width line off) as [w pos] eqn:Eiw. apply iw_range in Eiw.
  destruct ((3 <? w) || (zlen line <=? pos)).
  { injection H as <- <-. csplit; auto. }
  bind_inv H c Ec. destruct (negb (N.eqb c 62)).
  { injection H as <- <-. csplit; auto. }
  cbv zeta in H.
  assert (forall r3, r_advance r2 (pos + 1) = Ok r3 -> R2 src r3 /\ Rle r r3 /\ 1 <= s_start (r_pos r3)) as Hadv.
  { intros r3 E3. destruct (adv_R2 src r2 (pos + 1) r3 HR2 ltac:(lia) E3) as [HR3 Hle3].
    csplit; [exact HR3|eapply Rle_trans; eassumption|].
    destruct HR2 as [Hi2 [_ Hpad2]]. apply (adv_pos r2 (pos + 1) r3 Hi2 Hpad2 ltac:(lia) Hinr2 E3). }
  destruct (zlen line <=? pos + 1).
  { bind_inv H r3 E3. injection H as <- <-. destruct (Hadv r3 E3) as [H1 [H2 _]]. csplit; auto. discriminate. }
  bind_inv H d Ed. destruct (N.eqb d 10).
  { bind_inv H r3 E3. injection H as <- <-. destruct (Hadv r3 E3) as [H1 [H2 _]]. csplit; auto. discriminate. }
  bind_inv H r3 E3. destruct (Hadv r3 E3) as [HR3 [Hle3 Hst3]].
  destruct (N.eqb d 32 || N.eqb d 9).
  - bind_inv H z Ez. destruct z as [r4 off2]. bind_inv H r5 E5. injection H as <- <-.
    destruct (loff_R2 src r3 r4 off2 HR3 Ez) as [HR4 [Hle4 [Hp4 _]]].
    eapply (adv_pad_ok src) in E5; [|exact HR4|lia|intros _; left; rewrite Hp4; exact Hst3].
    destruct E5 as [HR5 Hle5].
    csplit; [exact HR5| |discriminate]. eapply Rle_trans; [exact Hle3|]. eapply Rle_trans; eassumption.
  - injection H as <- <-. csplit; auto. discriminate.
Qed.

Lemma bq_process_total_ok src r r' ok : R2 src r -> bq_process_total r = Ok (r', ok) ->
  R2 src r' /\ Rle r r' /\ (ok = false -> r_pos r' = r_pos r).
Proof.
  intros HR H. unfold bq_process_total in H.
  bind_inv H x Ex. destruct x as [[r1 line] sg0].
  destruct (peek_R2 src r r1 line sg0 HR Ex) as [HR1 [Hle1 [Hp1 _]]].
  destruct line as [line|].
  - apply (bq_process_ok src r r' ok HR H).
  - injection H as <- <-. csplit; auto.
Qed.

Section Tables2.
Variable space_table : list N.

Lemma calc_list_offset_nonneg line m off : 0 <= calc_list_offset space_table line m off.
Proof.
  unfold calc_list_offset. destruct ((m4 m <? 0) || ListItem.is_blank space_table (zskip (m4 m) line))%bool; [lia|].
  destruct (indent_width (zskip (m4 m) line) (off + m4 m)) as [w p] eqn:E. apply iw_range in E. cbn [fst].
  destruct (4 <? w); lia.
Qed.

Lemma list_item_open_ok src lo r no r' ch : R2 src r ->
  list_item_open space_table lo r = Ok (Some (no, r', ch)) ->
  R2 src r' /\ Rle r r' /\ 0 <= no.
Proof.
  intros HR H. unfold list_item_open in H.
  bind_inv H x Ex. destruct x as [[r1 line] sg0].
  destruct (peek_R2 src r r1 line sg0 HR Ex) as [HR1 [Hle1 [Hp1 [_ [Hl Hin1]]]]].
  destruct line as [line|]; [|discriminate].
  destruct (peeked_some r _ Hl line eq_refl) as [Hin Hv].
  destruct (parse_list_item line) as [m typ] eqn:Epl.
  destruct (N.eqb_spec typ 0) as [Et|Et]; [discriminate|].
  destruct (3 <? m1 m - lo); [discriminate|].
  destruct (parse_list_item_in_range line m typ Epl Et) as [Hm1 [_ [Hm3 _]]].
  bind_inv H y Ey. destruct y as [r2 off].
  destruct (loff_R2 src r1 r2 off HR1 Ey) as [HR2 [Hle2 [Hp2 Hin2]]].
  assert (Rle r r2) as Hle by (eapply Rle_trans; eassumption).
  cbv zeta in H. pose proof (calc_list_offset_nonneg line m off) as Hco.
  destruct ((m4 m <? 0) || ListItem.is_blank space_table (zfirst (m5 m - m4 m) (zskip (m4 m) line)))%bool.
  - injection H as <- <- <-. csplit; auto. lia.
  - destruct (indent_position (zskip (m4 m) line) (off + m4 m) (calc_list_offset space_table line m off)) as [pos padding] eqn:Eip.
    bind_inv H r3 E3. injection H as <- <- <-.
    destruct (ip_range _ _ _ _ _ Hco Eip) as [[Hp Hq]|[Hp [Hq Hpq]]].
    + eapply (adv_pad_ok src) in E3; [|exact HR2|lia|lia]. destruct E3 as [HR3 Hle3].
      csplit; [exact HR3|eapply Rle_trans; eassumption|lia].
    + eapply (adv_pad_ok src) in E3; [|exact HR2|lia|intros _; right; split; [lia|congruence]].
      destruct E3 as [HR3 Hle3].
      csplit; [exact HR3|eapply Rle_trans; eassumption|lia].
Qed.

(* a segment inside the source with non-negative padding *)
Definition seg_inr (src : bytes) (sg : seg) : Prop :=
  0 <= s_start sg <= s_stop sg /\ s_stop sg <= zlen src /\ 0 <= s_pad sg.

Lemma pos_inr src r : R2 src r -> seg_inr src (r_pos r).
Proof.
  intros [Hinv [Hsrc _]]. pose proof (inv_bounds r Hinv). pose proof (ri_pad r Hinv). unfold seg_inr. rewrite <- Hsrc. lia.
Qed.

Lemma code_block_take_ok src r pos padding sg r' : R2 src r -> r_in_range r = true -> 0 <= pos ->
  (0 < padding -> 1 <= pos) -> code_block_take r pos padding = Ok (sg, r') ->
  RW src r' /\ s_stop (r_pos r) <= s_stop (r_pos r') /\ seg_inr src sg.
Proof.
  intros HR Hin Hpos Hpp H. unfold code_block_take in H.
  bind_inv H r1 E1.
  pose proof E1 as E1'. eapply (adv_pad_ok src) in E1'; [|exact HR|exact Hpos|intros Hp; right; split; [auto|exact Hin]].
  destruct E1' as [HR1 Hle1].
  pose proof (Rle_stop r r1 (proj1 HR) (proj1 HR1) Hle1) as Hst1.
  bind_inv H x Ex. destruct x as [[r2 l2] sg0].
  destruct (peek_R2 src r1 r2 l2 sg0 HR1 Ex) as [HR2 [Hle2 [Hp2 [Hsg0 _]]]].
  pose proof (pos_inr src r1 HR1) as Hinr1. subst sg0.
  bind_inv H t Et. destruct t as [sg1 r3].
  assert (RInv r3 /\ r_src r3 = src /\ s_stop (r_pos r3) = s_stop (r_pos r1) /\
          seg_inr src sg1 /\ s_stop sg1 = s_stop (r_pos r1)) as [Hi3 [Hs3 [Hst3 [Hsg1 Hsg1s]]]].
  { destruct (Z.eqb_spec (s_pad (r_pos r1)) 0) as [Ep|Ep].
    - injection Et as <- <-. destruct HR2 as [Hi2 [Hs2 _]]. csplit; auto. rewrite Hp2. reflexivity.
    - bind_inv Et y Ey. destruct y as [r2' off]. cbv [r_position] in Et.
      bind_inv Et ra Ea. bind_inv Et z Ez. destruct z as [rb off2]. bind_inv Et rc Ec.
      destruct (loff_R2 src r2 r2' off HR2 Ey) as [HR2' [_ [Hp2' _]]].
      pose proof (tab_dance r2' _ ra rb off2 rc Ea Ez Ec) as ->.
      assert (1 <= s_start (r_pos r1)) as Hs1.
      { destruct HR1 as [Hi1 [_ Hpad1]]. apply Hpad1. pose proof (ri_pad r1 Hi1). lia. }
      injection Et as <- <-. destruct HR2' as [Hi2' [Hs2' _]]. csplit.
      + apply RInv_clear. exact Hi2'.
      + exact Hs2'.
      + rsimpl. rewrite Hp2', Hp2. reflexivity.
      + destruct (off =? off2); [|exact Hinr1]. unfold seg_inr in *. rsimpl. lia.
      + destruct (off =? off2); reflexivity. }
  bind_inv H r4 E4. injection H as <- <-.
  destruct (adv_RW src r3 _ r4 Hi3 Hs3 E4) as [HW Hle4]. csplit; [exact HW|lia|].
  unfold seg_inr in *. cbn [s_start s_stop s_pad]. exact Hsg1.
Qed.

Lemma code_block_open_ok src r sg r' : R2 src r -> code_block_open space_table r = Ok (Some (sg, r')) ->
  RW src r' /\ s_stop (r_pos r) <= s_stop (r_pos r') /\ seg_inr src sg.
Proof.
  intros HR H. unfold code_block_open in H.
  bind_inv H x Ex. destruct x as [[r1 line] sg0].
  destruct (peek_R2 src r r1 line sg0 HR Ex) as [HR1 [Hle1 [Hp1 [_ [Hl Hin1]]]]].
  bind_inv H y Ey. destruct y as [r2 off].
  destruct (loff_R2 src r1 r2 off HR1 Ey) as [HR2 [Hle2 [Hp2 Hin2]]].
  destruct (indent_position match line with Some l => l | None => [] end off 4) as [pos padding] eqn:Eip.
  destruct (Z.ltb_spec pos 0) as [Hn|Hn]; cbn [orb] in H; [discriminate|].
  destruct (ListItem.is_blank space_table match line with Some l => l | None => [] end) eqn:Eb; [discriminate|].
  bind_inv H t Et. injection H as ->.
  assert (r_in_range r2 = true) as Hin.
  { destruct line as [line|]; [|cbn in Eb; discriminate].
    destruct (peeked_some r _ Hl line eq_refl) as [Hin _]. congruence. }
  destruct (ip_range _ _ 4 _ _ ltac:(lia) Eip) as [[Hp _]|[Hp [Hq Hpq]]]; [lia|].
  destruct (code_block_take_ok src r2 pos padding sg r' HR2 Hin Hn Hpq Et) as [HW [Hst Hsg]].
  csplit; auto.
  pose proof (Rle_stop r r2 (proj1 HR) (proj1 HR2) ltac:(eapply Rle_trans; eassumption)). lia.
Qed.

Lemma tlsw_range text : forall start stop width s' w', tlsw_loop text start stop width = (s', w') ->
  start <= stop -> start <= s' <= stop.
Proof.
  induction text as [|c r IH]; intros start stop width s' w' H Hle; cbn [tlsw_loop] in H.
  - injection H as <- <-. lia.
  - destruct (Z.leb_spec (stop - 1) start); cbn [orb] in H; [injection H as <- <-; lia|].
    destruct (width <=? 0); [injection H as <- <-; lia|].
    destruct (N.eqb c 32); [apply IH in H; lia|].
    destruct (N.eqb c 9); [apply IH in H; lia|]. injection H as <- <-. lia.
Qed.

Lemma seg_tlsw_ok src t width t' : seg_inr src t -> seg_trim_left_space_width src t width = Ok t' -> seg_inr src t'.
Proof.
  unfold seg_inr. intros Ht H. unfold seg_trim_left_space_width in H. cbv zeta in H.
  destruct (width - Z.min (Z.max width 0) (Z.max (s_pad t) 0) =? 0).
  - injection H as <-. cbn [mksegp s_start s_stop s_pad]. lia.
  - bind_inv H text Etext. destruct (tlsw_loop text (s_start t) (s_stop t) _) as [s' w'] eqn:E.
    apply tlsw_range in E; [|lia]. injection H as <-. cbn [mksegp s_start s_stop s_pad].
    destruct (Z.ltb_spec w' 0); lia.
Qed.

Lemma code_block_continue_ok src r sg r' : R2 src r -> code_block_continue space_table r = Ok (inl (sg, r')) ->
  RW src r' /\ s_stop (r_pos r) <= s_stop (r_pos r') /\ seg_inr src sg.
Proof.
  intros HR H. unfold code_block_continue in H.
  bind_inv H x Ex. destruct x as [[r1 line] sg0].
  destruct (peek_R2 src r r1 line sg0 HR Ex) as [HR1 [Hle1 [Hp1 [Hsg0 [Hl Hin1]]]]].
  destruct (ListItem.is_blank space_table match line with Some l => l | None => [] end) eqn:Eb.
  - bind_inv H t Et. injection H as <- <-. csplit.
    + apply R2_RW. exact HR1.
    + rewrite Hp1. lia.
    + destruct HR1 as [_ [Hs1 _]]. rewrite Hs1 in Et. apply (seg_tlsw_ok src sg0 4 t); [|exact Et].
      subst sg0. apply pos_inr. exact HR.
  - bind_inv H y Ey. destruct y as [r2 off].
    destruct (loff_R2 src r1 r2 off HR1 Ey) as [HR2 [Hle2 [Hp2 Hin2]]].
    destruct (indent_position match line with Some l => l | None => [] end off 4) as [pos padding] eqn:Eip.
    destruct (Z.ltb_spec pos 0) as [Hn|Hn]; [discriminate|].
    bind_inv H t Et. injection H as ->.
    assert (r_in_range r2 = true) as Hin.
    { destruct line as [line|]; [|cbn in Eb; discriminate].
      destruct (peeked_some r _ Hl line eq_refl) as [Hin _]. congruence. }
    destruct (ip_range _ _ 4 _ _ ltac:(lia) Eip) as [[Hp _]|[Hp [Hq Hpq]]]; [lia|].
    destruct (code_block_take_ok src r2 pos padding sg r' HR2 Hin Hn Hpq Et) as [HW [Hst Hsg]].
    csplit; auto.
    pose proof (Rle_stop r r2 (proj1 HR) (proj1 HR2) ltac:(eapply Rle_trans; eassumption)). lia.
Qed.

Lemma fence_continue_r_ok src r ch indent flen closed ln r' : R2 src r -> 0 <= indent ->
  fence_continue_r space_table r ch indent flen = Ok (closed, ln, r') ->
  (closed = true -> R2 src r' /\ Rle r r') /\
  (closed = false -> RW src r' /\ s_stop (r_pos r) <= s_stop (r_pos r') /\
                     exists st pd, ln = Some (st, pd) /\ 0 <= st <= s_stop (r_pos r) /\ 0 <= pd).
Proof.
  intros HR Hind H. unfold fence_continue_r in H.
  bind_inv H x Ex. destruct x as [[r1 line] sg0].
  destruct (peek_R2 src r r1 line sg0 HR Ex) as [HR1 [Hle1 [Hp1 [Hsg0 [Hl Hin1]]]]].
  destruct line as [line|]; [|discriminate].
  destruct (peeked_some r _ Hl line eq_refl) as [Hin Hv].
  bind_inv H y Ey. destruct y as [r2 off].
  destruct (loff_R2 src r1 r2 off HR1 Ey) as [HR2 [Hle2 [Hp2 Hin2]]].
  assert (Rle r r2) as Hle by (eapply Rle_trans; eassumption).
  pose proof (pos_inr src r HR) as Hinr. destruct HR as [Hinv [Hsrc Hpad]]. unfold seg_inr in Hinr.
  pose proof (fence_continue_view space_table (sub (r_src r) (s_start (r_pos r)) (s_stop (r_pos r))) off
                (s_pad (r_pos r)) ch indent flen ltac:(lia) Hind) as Hfc.
  rewrite <- view_spaces, <- Hv in Hfc. subst sg0.
  rewrite ReaderProofs.zlen_sub in Hfc by (try rewrite Hsrc; lia).
  destruct (fence_continue space_table line off (s_pad (r_pos r)) ch indent flen) as [adv|[pos padding]].
  - bind_inv H r3 E3. injection H as <- <- <-. split; [intros _|discriminate].
    assert (0 <= adv) as Ha.
    { apply Hfc. intros E. pose proof (view_nonempty r Hinv Hin) as Hz. rewrite <- Hv, E in Hz. rewrite zlen_nil in Hz. lia. }
    destruct (adv_R2 src r2 adv r3 HR2 Ha E3) as [HR3 Hle3]. split; [exact HR3|]. eapply Rle_trans; eassumption.
  - destruct Hfc as [Hp [Hq Hpq]].
    bind_inv H t Et. destruct t as [adj r3]. bind_inv H r4 E4. injection H as <- <- <-.
    split; [discriminate|intros _].
    assert (RInv r3 /\ r_src r3 = src /\ s_stop (r_pos r3) = s_stop (r_pos r) /\
            0 <= fst adj <= s_stop (r_pos r) /\ 0 <= snd adj) as [Hi3 [Hs3 [Hst3 [Ha1 Ha2]]]].
    { destruct (Z.eqb_spec padding 0) as [Ep|Ep].
      - injection Et as <- <-. destruct HR2 as [Hi2 [Hs2 _]]. cbn [fst snd]. csplit; auto; try lia.
        rewrite Hp2, Hp1. reflexivity.
      - cbv [r_position] in Et.
        bind_inv Et ra Ea. bind_inv Et z Ez. destruct z as [rb off2]. bind_inv Et rc Ec.
        pose proof (tab_dance r2 _ ra rb off2 rc Ea Ez Ec) as ->. injection Et as <- <-.
        destruct HR2 as [Hi2 [Hs2 _]].
        assert (1 <= s_start (r_pos r) + pos) as H1.
        { destruct (Hpq ltac:(lia)) as [Hp0|Hp0]; [specialize (Hpad Hp0); lia|lia]. }
        split; [apply RInv_clear; exact Hi2|]. split; [exact Hs2|].
        split; [rsimpl; rewrite Hp2, Hp1; reflexivity|].
        destruct (off + indent =? off2); cbn [fst snd]; lia. }
    destruct (adv_pad_RW src r3 _ padding r4 Hi3 Hs3 E4) as [HW Hle4].
    csplit; [exact HW|lia|]. destruct adj as [a1 a2]. exists a1, a2. cbn [fst snd] in *. csplit; auto; lia.
Qed.

Lemma skip_blank_ok src fuel : forall r n r' sg lines ok, R2 src r ->
  skip_blank_lines space_table reader r_peek_line r_advance_line_res fuel r n = Ok (r', sg, lines, ok) ->
  R2 src r' /\ Rle r r'.
Proof.
  induction fuel as [|f IH]; intros r n r' sg lines ok HR H; [discriminate|].
  cbn [skip_blank_lines] in H. bind_inv H x Ex. destruct x as [[r1 line] sg0].
  destruct (peek_R2 src r r1 line sg0 HR Ex) as [HR1 [Hle1 _]].
  destruct line as [l|].
  - destruct (Reader.is_blank space_table l).
    + unfold r_advance_line_res in H. cbn [bind] in H. apply IH in H.
      * destruct H as [H1 H2]. split; [exact H1|]. eapply Rle_trans; [exact Hle1|].
        eapply Rle_trans; [|exact H2]. apply advl_R2 with (src := src). exact HR1.
      * apply advl_R2. exact HR1.
    + injection H as <- _ _ _. split; assumption.
  - injection H as <- _ _ _. split; assumption.
Qed.

End Tables2.
