(* Helper file for ParseInlineRange.v (public inline kinds): the invariants on the inline heap that say
   where the key nodes (delimiters, link label states) and the block node are, and their
   preservation by the generic steps of ParseInlineRangeKStep.v / ParseInlineRangeKLabel.v. *)
Require Import GM.model.Base GM.model.Util GM.model.Reader GM.model.HtmlSpec GM.model.BlockParse GM.model.InlineParse.
Require Import GM.proofs.ParseInlineRangeHeap GM.proofs.ParseInlineRangeKList GM.proofs.ParseInlineRangeKStep
               GM.proofs.ParseInlineRangeKDelim GM.proofs.ParseInlineRangeKLabel.
From Coq Require Import ZArith Lia List Bool.
Import ListNotations.
Open Scope Z_scope.

(* node 0 is the block node, the only one of its class, without parent; the key children of node 0
   are in increasing order *)
Record ginv (h : iheap) : Prop := {
  gi_root : kcls h 0%nat = 0%nat;
  gi_root1 : forall x, kcls h x = 0%nat -> x = 0%nat;
  gi_rootp : pr h 0%nat = None;
  gi_incr : incr (K h)
}.

Lemma ginv_pos h : ginv h -> (0 < length h)%nat.
Proof.
  intros [R _ _ _]. destruct (Nat.lt_ge_cases 0 (length h)) as [H|H]; [exact H|]. rewrite kcls_none in R by lia. discriminate.
Qed.

Lemma ginv_gstep h h' : ginv h -> gstep h h' -> ginv h'.
Proof.
  intros Hg G. pose proof (ginv_pos h Hg) as H0. destruct Hg as [R R1 Rp Hi]. constructor.
  - rewrite (kle_kcls h h' 0%nat (g_kle _ _ G) H0). exact R.
  - intros x Hx. destruct (Nat.lt_ge_cases x (length h)) as [Hlt|Hge].
    + apply R1. rewrite <- (kle_kcls h h' x (g_kle _ _ G) Hlt). exact Hx.
    + destruct (g_new _ _ G x Hge) as (Hn & _). contradiction.
  - apply (g_root _ _ G). exact Rp.
  - apply (g_incr _ _ G). exact Hi.
Qed.

Lemma ginv_lstep h h' : ginv h -> lstep h h' -> tree_ok h -> ginv h'.
Proof.
  intros [R R1 Rp Hi] S Ht. destruct (lstep_gfacts _ _ S Ht) as (_ & EK & _ & Hc). constructor.
  - rewrite Hc. exact R.
  - intros x Hx. apply R1. rewrite <- Hc. exact Hx.
  - rewrite (ls_pr _ _ S). exact Rp.
  - rewrite EK. exact Hi.
Qed.

(* label state nodes with a parent are in the list, or among the exceptions *)
Definition latt (h : iheap) (LL E : list nat) : Prop :=
  forall x, islab h x = true -> pr h x <> None -> In x LL \/ In x E.

Lemma latt_gstep h h' LL E : latt h LL E -> gstep h h' -> latt h' LL E.
Proof.
  intros Hl G x Hx Hp. assert (Hk : iskey h' x = true) by (unfold iskey; rewrite Hx; apply orb_true_r).
  pose proof (g_att _ _ G x Hk Hp) as Hp0. apply Hl; [|exact Hp0].
  destruct (Nat.lt_ge_cases x (length h)) as [Hlt|Hge].
  - unfold islab in *. rewrite <- (kle_kcls h h' x (g_kle _ _ G) Hlt). exact Hx.
  - rewrite (nkey_iskey _ _ (g_new _ _ G x Hge)) in Hk. discriminate.
Qed.

Lemma latt_lstep h h' LL E : latt h LL E -> lstep h h' -> tree_ok h -> latt h' LL E.
Proof.
  intros Hl S Ht x Hx Hp. destruct (lstep_gfacts _ _ S Ht) as (_ & _ & _ & Hc).
  apply Hl; [unfold islab in *; rewrite <- Hc; exact Hx|rewrite <- (ls_pr _ _ S); exact Hp].
Qed.

Lemma latt_weaken h LL E LL' E' : latt h LL E -> (forall x, In x LL \/ In x E -> In x LL' \/ In x E') -> latt h LL' E'.
Proof. intros H Hs x Hx Hp. apply Hs. apply H; assumption. Qed.

(* the bottoms pushed with the label states: older delimiters *)
Definition botinv (h : iheap) (LL : list nat) (bs : list (option nat)) : Prop :=
  Forall2 (fun l b => forall x, b = Some x -> (x < l)%nat /\ isdel h x = true) LL bs.

Lemma botinv_kle h h' LL bs : botinv h LL bs -> kle h h' -> botinv h' LL bs.
Proof.
  intros H Hk. induction H as [|l b LL bs Hlb _ IH]; constructor; [|exact IH].
  intros x Ex. destruct (Hlb x Ex) as [H1 H2]. split; [exact H1|]. rewrite (isdel_kle _ _ x Hk); [exact H2|apply isdel_valid; exact H2].
Qed.

Lemma botinv_snoc h LL bs l b : botinv h LL bs -> (forall x, b = Some x -> (x < l)%nat /\ isdel h x = true) ->
  botinv h (LL ++ [l]) (bs ++ [b]).
Proof. intros H Hb. apply Forall2_app; [exact H|]. constructor; [exact Hb|constructor]. Qed.

Lemma botinv_last h LL0 l bs : botinv h (LL0 ++ [l]) bs ->
  exists bs0 b, bs = bs0 ++ [b] /\ botinv h LL0 bs0 /\ (forall x, b = Some x -> (x < l)%nat /\ isdel h x = true).
Proof.
  intros H. apply Forall2_app_inv_l in H. destruct H as (bs0 & bs1 & H0 & H1 & ->).
  inversion H1 as [|? b ? bs2 Hb H2]; subst. inversion H2; subst. exists bs0, b. auto.
Qed.

Lemma pop_bottom_snoc c bs0 b : i_bottoms c = bs0 ++ [b] -> pop_bottom c = (cx_bottoms c bs0, BPtr b).
Proof. intros H. unfold pop_bottom. rewrite H, rev_app_distr. cbn. rewrite rev_involutive. reflexivity. Qed.

(* a fresh node of any class but that of the block node *)
Lemma new_node_g c k c' x : new_inode c k = (c', x) -> cls k <> 0%nat -> tree_ok (i_h c) -> ginv (i_h c) ->
  ginv (i_h c') /\ tree_ok (i_h c') /\ kle (i_h c) (i_h c') /\ rch (i_h c') = rch (i_h c) /\
  K (i_h c') = K (i_h c) /\ dch (i_h c') = dch (i_h c) /\
  kd (i_h c') x = Some k /\ pr (i_h c') x = None /\ x = length (i_h c) /\
  (forall j, ch (i_h c') j = ch (i_h c) j) /\ (forall j, pr (i_h c') j = pr (i_h c) j) /\
  (forall j, j <> x -> kd (i_h c') j = kd (i_h c) j) /\
  (forall LL E, latt (i_h c) LL E -> latt (i_h c') LL E).
Proof.
  intros H Hk Ht Hg. destruct (new_inode_view c k c' x H) as (Hx & L & _ & _ & _ & _ & Kd & P & C).
  assert (Hkle : kle (i_h c) (i_h c')).
  { intros j kj Hj. rewrite Kd. destruct (Nat.eqb_spec j x) as [->|Hne]; [|exists kj; auto]. apply kd_valid in Hj. lia. }
  assert (Ht' : tree_ok (i_h c')) by (eapply tree_ok_same; eassumption).
  destruct (K_same _ _ Ht Hkle (C 0%nat)) as [EK ED].
  assert (Kne : forall j, j <> x -> kd (i_h c') j = kd (i_h c) j).
  { intros j Hj. rewrite Kd. destruct (Nat.eqb_spec j x); [contradiction|reflexivity]. }
  assert (Px : pr (i_h c') x = None). { rewrite P. unfold pr. rewrite (proj2 (nth_error_None _ _)) by lia. reflexivity. }
  pose proof (ginv_pos _ Hg) as H0. destruct Hg as [R R1 Rp Hi].
  assert (Hlat : forall LL E, latt (i_h c) LL E -> latt (i_h c') LL E).
  { intros LL E Hl y Hy Hp. rewrite P in Hp. destruct (Nat.eq_dec y x) as [->|Hne]; [rewrite <- P in Hp; contradiction|].
    apply Hl; [|exact Hp]. unfold islab, kcls in *. rewrite <- (Kne y Hne). exact Hy. }
  assert (Hg' : ginv (i_h c')).
  { constructor.
    - rewrite (kle_kcls _ _ 0%nat Hkle H0). exact R.
    - intros y Hy. destruct (Nat.eq_dec y x) as [->|Hne].
      + unfold kcls in Hy. rewrite Kd, Nat.eqb_refl in Hy. contradiction.
      + apply R1. unfold kcls in *. rewrite <- (Kne y Hne). exact Hy.
    - rewrite P. exact Rp.
    - rewrite EK. exact Hi. }
  assert (Kx : kd (i_h c') x = Some k) by (rewrite Kd, Nat.eqb_refl; reflexivity).
  split; [exact Hg'|]. split; [exact Ht'|]. split; [exact Hkle|]. split; [apply C|]. split; [exact EK|]. split; [exact ED|].
  split; [exact Kx|]. split; [exact Px|]. split; [exact Hx|]. split; [exact C|]. split; [exact P|]. split; [exact Kne|exact Hlat].
Qed.

(* the node an inline parser has returned becomes the last child of the block node *)
Lemma append_pending h nd h' : i_append h 0%nat nd = Ok h' -> tree_ok h -> pr h nd = None ->
  tree_ok h' /\ same_nodes h h' /\ rch h' = rch h ++ [nd] /\
  (forall j, pr h' j = if Nat.eqb j nd then Some 0%nat else pr h j).
Proof.
  intros H Ht Hp. destruct (append_ch h 0%nat nd h' H Ht) as (Ht' & S & _ & _ & C & P).
  split; [exact Ht'|]. split; [exact S|]. split; [|exact P].
  unfold rch. rewrite C. cbn. rewrite remove_id_notin; [reflexivity|]. apply notin_other_parent; [exact Ht|congruence].
Qed.

Lemma filter_snoc (f : nat -> bool) l x : filter f (l ++ [x]) = filter f l ++ (if f x then [x] else []).
Proof. rewrite filter_app. cbn. destruct (f x); reflexivity. Qed.

(* ---------- the delimiter list is determined by the context ---------- *)
Lemma dseg_unique h : forall L1 L2 p, dseg h p L1 None -> dseg h p L2 None -> nxt_of L1 None = nxt_of L2 None -> L1 = L2.
Proof.
  induction L1 as [|a L1 IH]; intros L2 p H1 H2 Hn.
  - destruct L2; [reflexivity|discriminate].
  - destruct L2 as [|b L2]; [discriminate|]. cbn in Hn. inversion Hn; subst b.
    cbn [dseg] in H1, H2. destruct H1 as [A1 B1]. destruct H2 as [A2 B2]. rewrite A1 in A2. inversion A2 as [Hn'].
    f_equal. eapply IH; eassumption.
Qed.

Lemma dl_unique E c L E' c' L' : dl_ok E c L -> dl_ok E' c' L' -> i_dfirst c' = i_dfirst c ->
  (forall d, In d L -> dlk (i_h c') d = dlk (i_h c) d) -> L' = L.
Proof.
  intros H H' Hf Hk. eapply dseg_unique.
  - exact (dl_chain _ _ _ H').
  - eapply dseg_ext; [|exact (dl_chain _ _ _ H)]. exact Hk.
  - rewrite <- (dl_first _ _ _ H'), <- (dl_first _ _ _ H). exact Hf.
Qed.
