(* The inline parser of extension.Typographer (model/TypoDefParseT.v typo_parse) over the state
   invariant SInv of the inline totality proof: called at a position inside a line it returns Ok,
   and a returned node comes with a reader that has moved forward by 1 .. 3 bytes (PPost). *)
Require Import GM.model.Base GM.model.Util GM.model.Reader GM.model.ReaderSpec GM.model.ListItem GM.model.LeafBlocks
               GM.model.CodeSpan GM.model.LinkDest GM.model.Regex GM.model.Delim GM.model.BlockParse GM.model.Html GM.model.InlineParse
               GM.model.TypoDefParseT.
Require Import GM.proofs.BReaderProofs GM.proofs.BlockRangeProofs GM.proofs.RegexProofs.
Require Import GM.proofs.ParseInlineTotalHeap GM.proofs.ParseInlineTotalDelim GM.proofs.ParseInlineTotalEmph
               GM.proofs.ParseInlineTotalLabel GM.proofs.ParseInlineTotalCtx GM.proofs.ParseInlineTotalTree
               GM.proofs.TypoDefWfTotInlRd GM.proofs.TypoDefWfTotInlRd2 GM.proofs.TypoDefWfTotInlPar.
From Coq Require Import ZArith Lia List Arith Bool.
Import ListNotations.
Open Scope Z_scope.

Lemma to_rune_ok v pos : pos < zlen v -> exists a, to_rune v pos = Ok a.
Proof.
  intros H. unfold to_rune. destruct (Z.ltb_spec pos 0); [eexists; reflexivity|].
  destruct (Z.leb_spec (zlen v) pos); [lia|].
  destruct (rune_start_before _ _); eexists; reflexivity.
Qed.

Section St.
Variable src : bytes.
Variable segs : list seg.
Variable first : seg.
Hypothesis Hfirst : hd_error segs = Some first.
Notation lo := (s_start first).
Notation CInv := (CInv src lo).
Notation RI := (RI src segs).
Notation KOK := (KOK src lo).
Notation SInv := (SInv src segs first).
Notation PPost := (PPost src segs first).

Variable space_table punct_table : list N.
Variable punct_rune space_rune : N -> bool.
Variable uni_punct uni_space uni_digit uni_letter : N -> bool.
Notation TYPO := (typo_parse space_table punct_table punct_rune space_rune uni_punct uni_space uni_digit uni_letter).

(* what the parser answers, as a predicate on the result *)
Definition TP (s : ist) (e : result (tst * option nat)) : Prop :=
  exists x' res, e = Ok (x', res) /\ PPost s (ts_s x') res.

Lemma TP_bind {A} s (e : result A) k v : e = Ok v -> TP s (k v) -> TP s (a <- e ;; k a).
Proof. intros E H. rewrite E. exact H. Qed.

Lemma TP_if s (b : bool) e1 e2 : TP s e1 -> TP s e2 -> TP s (if b then e1 else e2).
Proof. intros H1 H2. destruct b; assumption. Qed.

(* no node: the reader is where it was *)
Lemma TP_nil s dl ll y : SInv s dl ll -> ts_s y = ist_r s (t_r s) -> TP s (Ok (y, None)).
Proof.
  intros Iv Ey. exists y, None. split; [reflexivity|]. rewrite Ey. apply (PPost_none_r src segs first s dl ll). exact Iv.
Qed.

(* a String node over the next adv bytes of the line *)
Lemma TP_node s dl ll y p adv : SInv s dl ll -> b_in_range (t_r s) = true -> ts_s y = ist_r s (t_r s) ->
  1 <= adv <= zlen (b_view (t_r s)) -> TP s (typo_node y p adv).
Proof.
  intros Iv Hin Ey Hadv. pose proof Iv as [C R B]. unfold typo_node. rewrite Ey. cbn [ist_r t_c t_r].
  rewrite new_inode_eq.
  destruct (ri_view src segs _ R Hin) as (_ & Elen & Hrange & Hstop & tl & Er).
  destruct (ri_advance_rle src segs (t_r s) adv R) as (r1 & E1 & HR1 & Hle1 & Hrest1 & _).
  { rewrite Er, zlen_app. pose proof (zlen_nonneg tl). lia. }
  rewrite E1. cbn [bind]. eexists _, (Some _). split; [reflexivity|]. cbn [ts_s tst_s].
  apply (PPost_fresh src segs first s dl ll); try assumption; try reflexivity; try exact Logic.I. lia.
Qed.

Lemma ok_if {A} (b : bool) (e1 e2 : result A) : (exists v, e1 = Ok v) -> (exists v, e2 = Ok v) ->
  exists v, (if b then e1 else e2) = Ok v.
Proof. intros H1 H2. destruct b; assumption. Qed.

Ltac peel n := match goal with |- TP ?S (let a := ?A in @?K a) => set (n := A); change (TP S (K n)); cbv beta end.

Lemma typo_parse_spec x dl ll : SInv (ts_s x) dl ll -> b_in_range (t_r (ts_s x)) = true ->
  TP (ts_s x) (TYPO x).
Proof.
  intros Iv Hin. pose proof Iv as [C R B]. cbv beta delta [typo_parse]. set (s := ts_s x) in *.
  peel s0. subst s0.
  eapply TP_bind; [apply (ri_peek_line src segs); exact R|]. cbv beta iota.
  peel s1. peel x1. rewrite Hin.
  destruct (ri_view src segs _ R Hin) as (_ & Elen & Hrange & Hstop & tl & Er).
  destruct (b_view (t_r s)) as [|c vt] eqn:Ev.
  { change (zlen (@nil N)) with 0 in Elen. lia. }
  cbv beta iota.
  set (line := c :: vt) in *.
  assert (Hlen1 : 1 <= zlen line) by (unfold line; rewrite zlen_cons; pose proof (zlen_nonneg vt); lia).
  assert (Ex1 : ts_s x1 = ist_r s (t_r s)) by reflexivity.
  assert (Hnil : TP s (Ok (x1, None))) by (apply (TP_nil s dl ll); assumption).
  assert (Hnode : forall y p adv, ts_s y = ist_r s (t_r s) -> 1 <= adv <= zlen line -> TP s (typo_node y p adv)).
  { intros y p adv Ey Ha. apply (TP_node s dl ll); try assumption. rewrite Ev. exact Ha. }
  assert (Hx1 : forall p adv, 1 <= adv <= zlen line -> TP s (typo_node x1 p adv)) by (intros; apply Hnode; [reflexivity|assumption]).
  assert (Hsg : forall v p adv, 1 <= adv <= zlen line -> TP s (typo_node (tst_single x1 v) p adv))
    by (intros; apply Hnode; [reflexivity|assumption]).
  assert (Hdb : forall v p adv, 1 <= adv <= zlen line -> TP s (typo_node (tst_double x1 v) p adv))
    by (intros; apply Hnode; [reflexivity|assumption]).
  clearbody x1.
  peel len. peel at1. peel at2. peel at3. peel nil0. peel quotes. peel two.
  (* the rules for the two quote characters *)
  assert (Hq : TP s quotes).
  { unfold quotes. apply TP_if; [|exact Hnil].
    destruct (ri_preceding src segs (t_r s) R) as [before Eb]. eapply TP_bind; [exact Eb|].
    destruct (scan_delimiter_ok punct_rune space_rune (fun b => (N.eqb b 39 || N.eqb b 34)%bool) line before 1) as [d Ed];
      [discriminate|].
    eapply TP_bind; [exact Ed|]. destruct d as [[[[co cc] dlen] dch]|]; [|exact Hnil]. cbv beta iota.
    set (maybe_close := if cc && co && (1 <? len) then _ else Ok false).
    assert (Hmc : exists b, maybe_close = Ok b).
    { unfold maybe_close. destruct (Z.ltb_spec 1 len) as [H1|H1]; [|rewrite andb_false_r; eexists; reflexivity].
      apply ok_if; [|eexists; reflexivity].
      destruct (to_rune_ok line 1 H1) as [r1 E1]. rewrite E1. eexists. reflexivity. }
    destruct Hmc as [mc Emc]. clearbody maybe_close.
    apply TP_if.
    - (* the single quote *)
      match goal with |- TP _ (a1 <- ?E ;; _) => assert (Ha1 : exists b, E = Ok b) end.
      { apply ok_if; [|eexists; reflexivity].
        match goal with |- exists b, (after <- ?E ;; _) = Ok b => assert (Haf : exists a, E = Ok a) end.
        { destruct (Z.ltb_spec 4 len) as [H4|H4]; [apply to_rune_ok; exact H4|eexists; reflexivity]. }
        destruct Haf as [af Eaf]. rewrite Eaf. eexists. reflexivity. }
      destruct Ha1 as [a1 Ea1]. eapply TP_bind; [exact Ea1|].
      apply TP_if; [apply Hx1; lia|]. apply TP_if; [apply Hx1; lia|].
      match goal with |- TP _ (a3 <- ?E ;; _) => assert (Ha3 : exists b, E = Ok b) end.
      { destruct (Z.ltb_spec 1 len) as [H1|H1]; cbn [andb]; [|eexists; reflexivity].
        apply ok_if; [|eexists; reflexivity].
        destruct (to_rune_ok line 1 H1) as [r1 E1]. rewrite E1. eexists. reflexivity. }
      destruct Ha3 as [a3 Ea3]. eapply TP_bind; [exact Ea3|].
      apply TP_if; [apply Hx1; lia|]. apply TP_if.
      + apply TP_if; [apply Hx1; lia|apply Hsg; lia].
      + destruct (to_rune_ok line 0 ltac:(lia)) as [r0 E0]. eapply TP_bind; [exact E0|].
        match goal with |- TP _ (p1 <- ?E ;; _) => assert (Hp1 : exists b, E = Ok b) end.
        { apply ok_if; [eexists; reflexivity|].
          destruct (Z.ltb_spec 2 len) as [H2|H2]; [|rewrite andb_false_r; eexists; reflexivity].
          apply ok_if; [|eexists; reflexivity].
          destruct (to_rune_ok line 1 ltac:(lia)) as [r1 E1]. rewrite E1. eexists. reflexivity. }
        destruct Hp1 as [p1 Ep1]. eapply TP_bind; [exact Ep1|].
        apply TP_if; [apply Hx1; lia|]. apply TP_if; [|exact Hnil].
        eapply TP_bind; [exact Emc|]. apply TP_if; [apply Hsg; lia|exact Hnil].
    - (* the double quote *)
      apply TP_if; [apply Hdb; lia|]. apply TP_if; [|exact Hnil].
      eapply TP_bind; [exact Emc|]. apply TP_if; [|exact Hnil].
      apply TP_if; [exact Hnil|apply Hdb; lia]. }
  clearbody quotes.
  assert (Ht : TP s two).
  { unfold two. destruct (Z.ltb_spec 1 len) as [H1|H1]; [|exact Hq].
    apply TP_if; [apply TP_if; [apply Hx1; lia|exact Hnil]|].
    apply TP_if; [apply TP_if; [apply Hx1; lia|exact Hnil]|].
    apply TP_if; [apply Hx1; lia|exact Hq]. }
  clearbody two.
  destruct (Z.ltb_spec 2 len) as [H2|H2]; [|exact Ht].
  apply TP_if; [apply TP_if; [apply Hx1; lia|exact Ht]|].
  apply TP_if; [|exact Ht]. apply TP_if; [apply Hx1; lia|exact Hnil].
Qed.

End St.
