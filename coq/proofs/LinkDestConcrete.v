(* the link destination theorems for the tables regenerated from the code *)
Require Import GM.model.Base GM.model.Util GM.model.ListItem GM.model.LinkDest GM.model.SpecDoc GM.proofs.LinkDestProofs.
Require Import GM.gen.Tables.
From Coq Require Import ZArith Lia Bool.

Lemma sp32_concrete : is_space space_table 32%N = true.
Proof. vm_compute. reflexivity. Qed.

Lemma dest_not_space_concrete : forall c, dest_char c = true -> is_space space_table c = false.
Proof.
  intros c H.
  assert (Hlt : (c < 128)%N).
  { destruct (N.ltb_spec c 128) as [L|L]; [exact L|exfalso].
    unfold dest_char, lower in H. cbn [existsb] in H.
    repeat (apply orb_true_iff in H as [H|H]);
      try (apply andb_true_iff in H as [H1 H2]; apply N.leb_le in H2; lia);
      try (apply N.eqb_eq in H; lia); try discriminate. }
  revert H.
  assert (A : forallb (fun c => implb (dest_char c) (negb (is_space space_table c))) (map N.of_nat (seq 0 128)) = true)
    by (vm_compute; reflexivity).
  rewrite forallb_forall in A.
  intros H. specialize (A c).
  assert (Hin : In c (map N.of_nat (seq 0 128))).
  { apply in_map_iff. exists (N.to_nat c). split; [apply Nnat.N2Nat.id|]. apply in_seq. lia. }
  specialize (A Hin). rewrite H in A. cbn [implb] in A. apply negb_true_iff in A. exact A.
Qed.
