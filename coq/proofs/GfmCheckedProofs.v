(* End-to-end statements about the GFM Convert model with checked parser output
   (model/GfmChecked.v): the renderer theorems composed with the checked GFM parser model, for
   every subset of the four GFM extensions. *)
Require Import GM.model.Base GM.model.Util GM.model.Reader GM.model.HtmlWriter GM.model.Html GM.model.HtmlSpec GM.model.HtmlI
               GM.model.InlineParseX GM.model.GfmParse GM.model.GfmI GM.model.GfmChecked.
Require Import GM.proofs.HtmlConcrete.
From Coq Require Import Bool.

Lemma ParseTreeXC_ok xc src t : ParseTreeXC xc src = Ok t -> ParseTreeX xc src = Ok t /\ wf_tree src t = true.
Proof.
  unfold ParseTreeXC. destruct (ParseTreeX xc src) as [t'| |]; cbn [bind]; try discriminate.
  destruct (wf_tree src t') eqn:W; try discriminate. intros H. injection H as <-. split; [reflexivity|exact W].
Qed.

Lemma ConvertModelXC_ok xc c src o : ConvertModelXC xc c src = Ok o ->
  exists t, ParseTreeXC xc src = Ok t /\ RenderHTML c src t = Ok o.
Proof.
  unfold ConvertModelXC. destruct (ParseTreeXC xc src) as [t| |]; cbn [bind]; try discriminate.
  intros H. exists t. split; [reflexivity|exact H].
Qed.

Theorem ConvertModelXC_agrees xc c src o : ConvertModelXC xc c src = Ok o -> ConvertModelX xc c src = Ok o.
Proof.
  intros H. destruct (ConvertModelXC_ok _ _ _ _ H) as (t & Ht & Hr).
  destruct (ParseTreeXC_ok _ _ _ Ht) as [Hp _]. unfold ConvertModelX. rewrite Hp. exact Hr.
Qed.

Theorem ConvertModelXC_safe_inert xc c src o : unsafe c = false -> ConvertModelXC xc c src = Ok o -> Inert o.
Proof.
  intros Hu H. destruct (ConvertModelXC_ok _ _ _ _ H) as (t & Ht & Hr).
  destruct (ParseTreeXC_ok _ _ _ Ht) as [_ Hw]. exact (RenderHTML_safe_inert c src t o Hu Hw Hr).
Qed.

Theorem ConvertModelXC_safe_inert_xhtml xc c src o : unsafe c = false -> xhtml c = true ->
  ConvertModelXC xc c src = Ok o -> InertX o.
Proof.
  intros Hu Hx H. destruct (ConvertModelXC_ok _ _ _ _ H) as (t & Ht & Hr).
  destruct (ParseTreeXC_ok _ _ _ Ht) as [_ Hw]. exact (RenderHTML_safe_inert_xhtml c src t o Hu Hx Hw Hr).
Qed.

Theorem ConvertModelXC_render_total xc c src t : ParseTreeXC xc src = Ok t -> exists o, ConvertModelXC xc c src = Ok o.
Proof.
  intros Ht. destruct (ParseTreeXC_ok _ _ _ Ht) as [_ Hw].
  destruct (RenderHTML_total c src t Hw) as [o Ho]. exists o. unfold ConvertModelXC. rewrite Ht. exact Ho.
Qed.
