(* The model of the heading options (model/HeadingOpts.v) against the models it generalises:
   with both options off it is the model of the default parser, and with automatic heading ids
   alone it is the pass of model/HeadingIds.v - so the theorems of C01/C03/C04/C05 about ParseTree
   and of C15 about ParseTreeA hold for it.

   Helper files: HeadingOptsEqBlk.v (both options off: every driver function is that of the default
   parser lifted to the state with the id table and the attribute map), HeadingOptsEqDefs.v (the
   heading order of a heap, the heap changes that keep it, the invariant of the driver with
   automatic ids), HeadingOptsEqHp.v (the heading order under the heap operations; AppendChild at the
   end of the rightmost spine), HeadingOptsEqFrame.v (Continue / Close / the paragraph transformer
   as such heap changes), HeadingOptsEqDrvA.v, DrvB.v, DrvC.v (the driver with automatic ids in
   lockstep with the driver of the default parser and the invariant of ParseBlocksRange*.v: the
   headings are closed in document order, each heading once, and the text read at Close is the
   text of the finished tree), HeadingOptsEqFinal.v (from the invariant at the end to the trees). *)
Require Import GM.model.Base GM.model.Util GM.model.UtilI GM.model.Reader GM.model.HtmlWriter GM.model.Html GM.model.HtmlI
               GM.model.BlockParse GM.model.InlineParse GM.model.ParseI GM.model.HeadingIds GM.model.HeadingOpts GM.model.HeadingOptsI.
Require Import GM.gen.Tables GM.gen.Regexes.
Require Import GM.proofs.ParseInv GM.proofs.ParseBlocksRangeB GM.proofs.ParseBlocksRangeP GM.proofs.ParseBlocksRange GM.proofs.ParseBlocksTotal
               GM.proofs.HeadingOptsEqBlk GM.proofs.HeadingOptsEqDefs GM.proofs.HeadingOptsEqHp GM.proofs.HeadingOptsEqDrvC GM.proofs.HeadingOptsEqFinal.
From Coq Require Import List NArith Bool.
Import ListNotations.

Definition h_none : hcfg := {| h_attr := false; h_autoid := false |}.
Definition h_ids : hcfg := {| h_attr := false; h_autoid := true |}.

Theorem heading_opts_none_is_default : forall src, ParseTreeH h_none src = ParseTree src.
Proof.
  intros src. unfold ParseTreeH, ParseBlocksTreeH, ParseBlocksH, ParseTree, ParseBlocksTree, ParseBlocks.
  rewrite (parse_blocksH_off h_none eq_refl eq_refl).
  destruct (parse_blocks _ _ _ _ _ _ _ _ _ _ _ _ src) as [s| |]; cbn [bind]; try reflexivity.
  cbn [hx_s hx_attrs]. rewrite to_treeH_nil. reflexivity.
Qed.

(* automatic ids alone: the driver-internal assignment (in closing order) equals the pass over
   the finished block tree of model/HeadingIds.v *)
Theorem heading_opts_ids_is_pass : forall src, bytes_ok src -> ParseTreeH h_ids src = ParseTreeA src.
Proof.
  intros src Hb. unfold ParseTreeH, ParseBlocksTreeH, ParseBlocksH, ParseTreeA, ParseBlocksTree, ParseBlocks.
  destruct (parse_blocks_total space_table punct_table ToLinkReference
              re_htmlBlockType1Open re_htmlBlockType1Close re_htmlBlockType2Open re_htmlBlockType3Open
              re_htmlBlockType4Open re_htmlBlockType5Open re_htmlBlockType6 re_htmlBlockType7 allowed_block_tags
              space_table_ok src Hb) as [s [t [E1 E2]]].
  destruct (parse_blocksH_ids h_ids eq_refl eq_refl space_table punct_table ToLinkReference
              re_htmlBlockType1Open re_htmlBlockType1Close re_htmlBlockType2Open re_htmlBlockType3Open
              re_htmlBlockType4Open re_htmlBlockType5Open re_htmlBlockType6 re_htmlBlockType7 allowed_block_tags
              utf8len_table spaces src space_table_blank Hb s E1) as [x [Ex [Eh [log [Hhp [Hnd [Hrun Htx]]]]]]].
  destruct (parse_blocks_final space_table punct_table ToLinkReference
              re_htmlBlockType1Open re_htmlBlockType1Close re_htmlBlockType2Open re_htmlBlockType3Open
              re_htmlBlockType4Open re_htmlBlockType5Open re_htmlBlockType6 re_htmlBlockType7 allowed_block_tags
              src space_table_blank Hb s E1) as [HhS _].
  rewrite E1, Ex. cbn [bind]. rewrite Eh, E2. cbn [bind].
  cbn [hd_ids filter map] in Hhp, Hnd. rewrite app_nil_r in Hhp, Hnd. rewrite Eh in Hhp, Htx.
  destruct (final_tree src (s_h s) log (hx_ids x) (hx_attrs x) t (TS_heapS _ _ _ HhS) Hhp Hnd Hrun Htx E2) as [t1 [EA ET]].
  rewrite ET, EA. cbn [bind]. reflexivity.
Qed.
