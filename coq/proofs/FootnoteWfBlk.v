(* C05 / C01 / C03 / C04 (block phase of the parser model with extension.Footnote,
   model/FootnoteParseBlock.v): the state the block phase `parse_blocksF` returns satisfies
   FootnoteWfDefs.BlkFinal: the invariant of the core block phase (ParseBlocksRangeB.heapS and
   Jinv [], reference map of byte strings) for its heap, in which a Footnote and the FootnoteList are
   written as block quote nodes, and the footnote facts: every node written as a block quote is a
   block quote (b_i1 = 0), a Footnote with Index -1 and a label segment (b_i1 = 1), or THE FootnoteList of
   the context (b_i1 = 2); the FootnoteList exists, has a parent, and all its children are Footnotes.
   For all punctuation tables, regular expressions, label normalisations and allowed tags, and for
   every white space table that classifies the blank (byte 32) as white space.

   The core invariant (nodeP / heapS / Jinv / Bnd / openS / HI / SInv / OInv of ParseBlocksRangeB.v, E.v)
   is used UNCHANGED for the core state bf_s x (heapS has parent / child consistency but no ordering of
   node numbers and no acyclicity, so the detached cycle list -> footnote -> list of nested definitions
   is allowed), and everything proved about the ten core block parsers (ParseBlocksRange{A..J,M}.v) is
   reused.  New, in the helper files FootnoteWfBlk*.v (compile order Inv, Frame, O, A, C, L, N, P):
     Inv    the footnote facts FL / FLI carried next to SInv (fn_nodes_ok; the list exists, is a list
            node, has a parent; every node whose parent is the list is a Footnote; no dangling parent
            links; the list is not an opened block), and the frame `cfr` of the heap;
     Frame  Open / Continue / Close of the ten core parsers and transformParagraph keep `cfr`
            (kind, numbers of every node; segment and parent of nodes written as block quotes; new
            block quote nodes have b_i1 = 0; new parent links point to parents of other nodes);
     O      Open and Continue of the footnote parser satisfy open_post / cont_post of PBlockquote;
     A, C   detach / append_child_iso / insert_before, and Close of the footnote parser on the last of
            the blocks being closed (the move of the footnote to the list, which is created before it);
     L      closeBlocks; N openBlocks; P the loops and the final invariant (ports of
            ParseBlocksRange{L,N,P}.v to the driver functions over stf). *)
Require Import GM.model.Base GM.model.Util GM.model.Reader GM.model.Regex GM.model.BlockParse GM.model.FootnoteParseBlock.
Require Import GM.proofs.ParseInv GM.proofs.FootnoteWfDefs GM.proofs.FootnoteWfDefs2 GM.proofs.FootnoteWfBlkP.
From Coq Require Import ZArith List.
Import ListNotations.

Theorem parse_blocksF_final_sp : forall space_table punct_table norm re_t1o re_t1c re_t2 re_t3 re_t4 re_t5 re_t6 re_t7 allowed_tags src x,
  is_space space_table 32%N = true -> bytes_ok src ->
  parse_blocksF space_table punct_table norm re_t1o re_t1c re_t2 re_t3 re_t4 re_t5 re_t6 re_t7 allowed_tags src = Ok x ->
  BlkFinal space_table src x.
Proof.
  intros space_table punct_table norm re_t1o re_t1c re_t2 re_t3 re_t4 re_t5 re_t6 re_t7 allowed_tags src x sp32 Hsrc H.
  exact (parse_blocksF_final space_table punct_table norm re_t1o re_t1c re_t2 re_t3 re_t4 re_t5 re_t6 re_t7 allowed_tags src sp32 Hsrc x H).
Qed.

(* ... and the parent the FootnoteList node records is a node of the heap (FootnoteWfDefs2.BlkFinal2) *)
Theorem parse_blocksF_final2_sp : forall space_table punct_table norm re_t1o re_t1c re_t2 re_t3 re_t4 re_t5 re_t6 re_t7 allowed_tags src x,
  is_space space_table 32%N = true -> bytes_ok src ->
  parse_blocksF space_table punct_table norm re_t1o re_t1c re_t2 re_t3 re_t4 re_t5 re_t6 re_t7 allowed_tags src = Ok x ->
  BlkFinal2 space_table src x.
Proof.
  intros space_table punct_table norm re_t1o re_t1c re_t2 re_t3 re_t4 re_t5 re_t6 re_t7 allowed_tags src x sp32 Hsrc H.
  exact (parse_blocksF_final2 space_table punct_table norm re_t1o re_t1c re_t2 re_t3 re_t4 re_t5 re_t6 re_t7 allowed_tags src sp32 Hsrc x H).
Qed.
