(* C02: an indented code line gives the content CommonMark prescribes, however its indentation
   is spelled (blanks, tabs, or a mixture reaching at least four columns), at any column. *)
Require Import GM.model.Base GM.model.Util GM.model.Reader GM.model.Blocks GM.model.ListItem GM.model.LeafBlocks GM.model.CodeBlock.
Require Import GM.proofs.SpecMechProofs GM.proofs.ListItemProofs.
From Coq Require Import ZArith Lia ZifyBool ZifyNat ZifyN.
Open Scope Z_scope.

(* ---------- the specification function ---------- *)
Lemma cbp_dedent_zero l col : dedent_cols 0 l col = l.
Proof. destruct l; reflexivity. Qed.

Lemma cbp_dedent_blank k r col : (1 <= k)%nat ->
  dedent_cols k (32%N :: r) col = dedent_cols (k - 1) r (col + 1).
Proof.
  intros Hk. destruct k as [|k']; [lia|].
  cbn [dedent_cols]. change (N.eqb 32 32) with true. cbv iota.
  replace (S k' - 1)%nat with k' by lia. reflexivity.
Qed.

Lemma cbp_dedent_tab k r col : (1 <= k)%nat ->
  dedent_cols k (9%N :: r) col =
  if 4 - col mod 4 <=? Z.of_nat k then dedent_cols (k - Z.to_nat (4 - col mod 4)) r (col + (4 - col mod 4))
  else repeat 32%N (Z.to_nat (4 - col mod 4 - Z.of_nat k)) ++ r.
Proof.
  intros Hk. destruct k as [|k']; [lia|]. reflexivity.
Qed.

Lemma cbp_loop_done bs cur w i : 4 <= w -> indent_position_loop bs cur w i 0 4 = (w, i).
Proof.
  intros Hw. destruct bs as [|c r]; [reflexivity|].
  cbn [indent_position_loop]. change (0 <? 0) with false. cbv iota.
  destruct (Z.ltb_spec w 4) as [Hlt|_]; [lia|].
  rewrite !andb_false_r. reflexivity.
Qed.

(* the core: over a run of blanks/tabs spanning at least the columns still needed, the loop of
   IndentPosition stops after j bytes with an excess pd, and these are exactly what dedent_cols
   removes / leaves *)
Lemma cbp_core (ws : bytes) (c : N) (rest : bytes) (cur : Z) : all_ws ws ->
  forall w i, 0 <= w < 4 -> 4 <= expanded_width ws (cur + w) - cur ->
  exists (j : nat) (pd : Z),
    indent_position_loop (ws ++ c :: rest) cur w i 0 4 = (4 + pd, i + Z.of_nat j) /\
    (j <= length ws)%nat /\ 0 <= pd /\
    dedent_cols (Z.to_nat (4 - w)) (ws ++ c :: rest) (cur + w) = repeat 32%N (Z.to_nat pd) ++ skipn j (ws ++ c :: rest) /\
    col_width (firstn j (ws ++ c :: rest)) (cur + w) = cur + 4 + pd /\
    (0 < pd -> exists j0, j = S j0 /\ col_width (firstn j0 (ws ++ c :: rest)) (cur + w) < cur + 4).
Proof.
  intros Hws. induction Hws as [|d ws Hd Hws IH]; intros w i Hw Hex.
  - cbn [expanded_width] in Hex. lia.
  - cbn [app]. cbn [expanded_width] in Hex.
    destruct Hd as [Hd|Hd]; subst d.
    + (* blank *)
      change (N.eqb 32 32) with true in Hex. cbv iota in Hex.
      cbn [indent_position_loop]. change (0 <? 0) with false. cbv iota.
      change (N.eqb 32 9) with false. change (N.eqb 32 32) with true. cbn [andb].
      destruct (Z.ltb_spec w 4) as [_|Hge]; [|lia].
      rewrite cbp_dedent_blank by lia.
      destruct (Z.eq_dec w 3) as [E3|N3].
      * subst w. rewrite cbp_loop_done by lia.
        exists 1%nat, 0. change (Z.to_nat (4 - 3) - 1)%nat with 0%nat.
        cbn [dedent_cols repeat Z.to_nat app skipn firstn col_width length].
        change (N.eqb 32 9) with false. cbv iota.
        repeat split; try lia. apply cbp_dedent_zero.
      * replace (cur + w + 1) with (cur + (w + 1)) in Hex |- * by lia.
        destruct (IH (w + 1) (i + 1) ltac:(lia) Hex) as (j & pd & Hl & Hj & Hpd & Hdd & Hcw & Hlast).
        exists (S j), pd. rewrite Hl.
        replace (Z.to_nat (4 - w) - 1)%nat with (Z.to_nat (4 - (w + 1))) by lia.
        rewrite Hdd. cbn [skipn firstn col_width length]. change (N.eqb 32 9) with false. cbv iota.
        replace (cur + w + 1) with (cur + (w + 1)) by lia.
        repeat split; try lia; try assumption.
        -- f_equal. lia.
        -- intros Hp. destruct (Hlast Hp) as (j0 & Ej & Hc0). exists (S j0). split; [lia|].
           cbn [firstn col_width]. change (N.eqb 32 9) with false. cbv iota.
           replace (cur + w + 1) with (cur + (w + 1)) by lia. exact Hc0.
    + (* tab *)
      change (N.eqb 9 32) with false in Hex. change (N.eqb 9 9) with true in Hex. cbv iota in Hex.
      cbn [indent_position_loop]. change (0 <? 0) with false. cbv iota.
      change (N.eqb 9 9) with true. cbn [andb].
      destruct (Z.ltb_spec w 4) as [_|Hge]; [|lia].
      rewrite cbp_dedent_tab by lia. unfold tab_width.
      pose proof (Z.mod_pos_bound (cur + w) 4 ltac:(lia)) as Hm.
      set (tw := 4 - (cur + w) mod 4) in *.
      destruct (Z_lt_le_dec (w + tw) 4) as [Hlt|Hge].
      * replace (cur + w + tw) with (cur + (w + tw)) in Hex |- * by lia.
        destruct (IH (w + tw) (i + 1) ltac:(lia) Hex) as (j & pd & Hl & Hj & Hpd & Hdd & Hcw & Hlast).
        exists (S j), pd. rewrite Hl.
        destruct (Z.leb_spec tw (Z.of_nat (Z.to_nat (4 - w)))) as [_|Hbad]; [|lia].
        replace (Z.to_nat (4 - w) - Z.to_nat tw)%nat with (Z.to_nat (4 - (w + tw))) by lia.
        rewrite Hdd. cbn [skipn firstn col_width length]. change (N.eqb 9 9) with true. cbv iota.
        fold tw. replace (cur + w + tw) with (cur + (w + tw)) by lia.
        repeat split; try lia; try assumption.
        -- f_equal. lia.
        -- intros Hp. destruct (Hlast Hp) as (j0 & Ej & Hc0). exists (S j0). split; [lia|].
           cbn [firstn col_width]. change (N.eqb 9 9) with true. cbv iota.
           fold tw. replace (cur + w + tw) with (cur + (w + tw)) by lia. exact Hc0.
      * rewrite cbp_loop_done by lia.
        exists 1%nat, (w + tw - 4).
        cbn [skipn firstn col_width length]. change (N.eqb 9 9) with true. cbv iota. fold tw.
        repeat split; try lia.
        -- f_equal; lia.
        -- destruct (Z.leb_spec tw (Z.of_nat (Z.to_nat (4 - w)))) as [Hle|Hgt].
           ++ replace (Z.to_nat (4 - w) - Z.to_nat tw)%nat with 0%nat by lia.
              replace (w + tw - 4) with 0 by lia. apply cbp_dedent_zero.
           ++ f_equal. f_equal. lia.
        -- intros Hp. exists 0%nat. split; [reflexivity|]. cbn [firstn col_width]. lia.
Qed.

Lemma cbp_indent_position (ws : bytes) (c : N) (rest : bytes) (cur : Z) : all_ws ws ->
  4 <= expanded_width ws cur - cur ->
  exists (j : nat) (pd : Z),
    indent_position (ws ++ c :: rest) cur 4 = (Z.of_nat j, pd) /\
    (j <= length ws)%nat /\ 0 <= pd /\
    dedent_cols 4 (ws ++ c :: rest) cur = repeat 32%N (Z.to_nat pd) ++ skipn j (ws ++ c :: rest) /\
    col_width (firstn j (ws ++ c :: rest)) cur = cur + 4 + pd /\
    (0 < pd -> exists j0, j = S j0 /\ col_width (firstn j0 (ws ++ c :: rest)) cur < cur + 4).
Proof.
  intros Hws Hex.
  destruct (cbp_core ws c rest cur Hws 0 0 ltac:(lia) ltac:(rewrite Z.add_0_r; exact Hex))
    as (j & pd & Hl & Hj & Hpd & Hdd & Hcw & Hlast).
  rewrite Z.add_0_r in Hdd, Hcw, Hlast. change (Z.to_nat (4 - 0)) with 4%nat in Hdd.
  exists j, pd. unfold indent_position, indent_position_padding. change (4 =? 0) with false. cbv iota.
  rewrite Hl. destruct (Z.leb_spec 4 (4 + pd)) as [_|Hbad]; [|lia].
  repeat split; try assumption. f_equal; lia.
Qed.

(* ---------- lists ---------- *)
Lemma cbp_zlen_nonneg {A} (l : list A) : 0 <= zlen l.
Proof. unfold zlen. lia. Qed.
Lemma cbp_zlen_app {A} (a b : list A) : zlen (a ++ b) = zlen a + zlen b.
Proof. unfold zlen. rewrite app_length. lia. Qed.
Lemma cbp_zlen_cons {A} (x : A) (l : list A) : zlen (x :: l) = 1 + zlen l.
Proof. unfold zlen. cbn [length]. lia. Qed.

Lemma cbp_skipn_app (a b : bytes) (j : nat) :
  skipn (Z.to_nat (zlen a + Z.of_nat j)) (a ++ b) = skipn j b.
Proof.
  unfold zlen. replace (Z.to_nat (Z.of_nat (length a) + Z.of_nat j)) with (length a + j)%nat by lia.
  rewrite skipn_app. rewrite skipn_all2 by lia. replace (length a + j - length a)%nat with j by lia.
  reflexivity.
Qed.

Lemma cbp_firstn_app (a b : bytes) (j : nat) :
  firstn (Z.to_nat (zlen a + Z.of_nat j)) (a ++ b) = a ++ firstn j b.
Proof.
  unfold zlen. replace (Z.to_nat (Z.of_nat (length a) + Z.of_nat j)) with (length a + j)%nat by lia.
  apply firstn_app_2.
Qed.

Lemma cbp_slice_to_end (src : bytes) x : 0 <= x <= zlen src ->
  slice src x (zlen src) = Ok (skipn (Z.to_nat x) src).
Proof.
  intros Hx. unfold slice.
  replace ((0 <=? x) && (x <=? zlen src) && (zlen src <=? zlen src)) with true by lia.
  f_equal. apply firstn_all2. rewrite skipn_length. unfold zlen in *. lia.
Qed.

Lemma cbp_slice_from_start (src : bytes) x : 0 <= x <= zlen src ->
  slice src 0 x = Ok (firstn (Z.to_nat x) src).
Proof.
  intros Hx. unfold slice.
  replace ((0 <=? 0) && (0 <=? x) && (x <=? zlen src)) with true by lia.
  rewrite Z.sub_0_r. reflexivity.
Qed.

Lemma cbp_at (src : bytes) i : 0 <= i < zlen src -> at_ src i = Ok (nth (Z.to_nat i) src 0%N).
Proof. intros Hi. unfold at_. replace ((0 <=? i) && (i <? zlen src)) with true by lia. reflexivity. Qed.

Lemma cbp_nth_nonl (X Y : bytes) i : (forall b, In b X -> b <> 10%N) -> 0 <= i < zlen X ->
  nth (Z.to_nat i) (X ++ Y) 0%N <> 10%N.
Proof.
  intros HX Hi. unfold zlen in Hi. rewrite app_nth1 by lia. apply HX. apply nth_In. lia.
Qed.

Lemma cbp_col_width_app u : forall v acc, col_width (u ++ v) acc = col_width v (col_width u acc).
Proof.
  induction u as [|x u IH]; intros v acc; [reflexivity|].
  cbn [app col_width]. destruct (N.eqb x 9); apply IH.
Qed.

Lemma cbp_col_width_notab u : (forall b, In b u -> b <> 9%N) -> forall acc, col_width u acc = acc + zlen u.
Proof.
  induction u as [|x u IH]; intros Hu acc.
  - cbn [col_width]. unfold zlen. cbn [length]. lia.
  - cbn [col_width]. destruct (N.eqb_spec x 9) as [E|_].
    + exfalso. apply (Hu x); [left; reflexivity|exact E].
    + rewrite IH by (intros b Hb; apply Hu; right; exact Hb). rewrite cbp_zlen_cons. lia.
Qed.

Lemma cbp_line_stop (X : bytes) : (forall b, In b X -> b <> 10%N) -> forall rest i,
  line_stop (X ++ 10%N :: rest) i = i + zlen X + 1.
Proof.
  induction X as [|x X IH]; intros HX rest i.
  - cbn [app line_stop]. change (N.eqb 10 10) with true. cbv iota. unfold zlen. cbn [length]. lia.
  - cbn [app line_stop]. destruct (N.eqb_spec x 10) as [E|_].
    + exfalso. apply (HX x); [left; reflexivity|exact E].
    + rewrite IH by (intros b Hb; apply HX; right; exact Hb). rewrite cbp_zlen_cons. lia.
Qed.

(* ---------- the reader on the first line [0, L) of the source ---------- *)
Definition cbst (src : bytes) (L a p : Z) (pk : option bytes) (lo : Z) : reader :=
  {| r_src := src; r_line := 0; r_peeked := pk;
     r_pos := {| s_start := a; s_stop := L; s_pad := p; s_fnl := false |}; r_head := 0; r_loff := lo |}.

Ltac cbsimpl :=
  cbv beta zeta delta [cbst rset_pos rset_line rset_peeked rset_head rset_loff r_len r_position mkseg mksegp];
  cbn [r_src r_line r_peeked r_pos r_head r_loff s_start s_stop s_pad s_fnl bind].
Ltac cbsimpl_in H :=
  cbv beta zeta delta [cbst rset_pos rset_line rset_peeked rset_head rset_loff r_len r_position mkseg mksegp] in H;
  cbn [r_src r_line r_peeked r_pos r_head r_loff s_start s_stop s_pad s_fnl bind] in H.

Lemma cbp_new_reader (X : bytes) : (forall b, In b X -> b <> 10%N) ->
  new_reader (X ++ [10%N]) = cbst (X ++ [10%N]) (zlen (X ++ [10%N])) 0 0 None (-1).
Proof.
  intros HX. unfold new_reader, r_advance_line. cbv beta zeta. cbsimpl.
  change (0 <? 0) with false. cbv iota. cbsimpl.
  pose proof (cbp_zlen_nonneg X) as HX0.
  destruct (Z.ltb_spec 0 (zlen (X ++ [10%N]))) as [_|Hbad]; [|unfold zlen in Hbad; rewrite app_length in Hbad; cbn [length] in Hbad; lia].
  change (Z.to_nat 0) with 0%nat. cbn [skipn].
  rewrite cbp_line_stop by exact HX. unfold cbst. cbsimpl.
  replace (0 + zlen X + 1) with (zlen (X ++ [10%N])) by (unfold zlen; rewrite app_length; cbn [length]; lia).
  reflexivity.
Qed.

(* Advance, slow path: over k bytes none of which is a newline *)
Lemma cbp_slow_chars (src : bytes) (L lo : Z) : forall (k fuel : nat) (a : Z),
  (k < fuel)%nat -> 0 <= a -> a + Z.of_nat k < zlen src ->
  (forall i, a <= i < a + Z.of_nat k -> nth (Z.to_nat i) src 0%N <> 10%N) ->
  r_advance_slow fuel (cbst src L a 0 None lo) (Z.of_nat k) = Ok (cbst src L (a + Z.of_nat k) 0 None lo).
Proof.
  induction k as [|k IH]; intros fuel a Hf Ha Hlen Hnl.
  - destruct fuel as [|f]; [lia|]. cbn [r_advance_slow Z.of_nat]. change (0 <? 0) with false. cbn [andb].
    rewrite Z.add_0_r. reflexivity.
  - destruct fuel as [|f]; [lia|]. cbn [r_advance_slow]. cbsimpl.
    replace ((0 <? Z.of_nat (S k)) && (a <? zlen src)) with true by lia.
    change (0 =? 0) with true. cbn [negb]. rewrite cbp_at by lia. cbsimpl.
    destruct (N.eqb_spec (nth (Z.to_nat a) src 0%N) 10) as [E|_]; [exfalso; apply (Hnl a); [lia|exact E]|].
    replace (Z.of_nat (S k) - 1) with (Z.of_nat k) by lia.
    fold (cbst src L (a + 1) 0 None lo).
    replace (a + Z.of_nat (S k)) with (a + 1 + Z.of_nat k) by lia.
    apply IH; [lia|lia|lia|].
    intros i Hi. apply Hnl. lia.
Qed.

(* Advance, slow path: the padding is used up first *)
Lemma cbp_slow_pad (src : bytes) (L lo a : Z) : a < zlen src -> forall (p fuel : nat) (n : Z),
  (p < fuel)%nat -> Z.of_nat p <= n ->
  r_advance_slow fuel (cbst src L a (Z.of_nat p) None lo) n =
  r_advance_slow (fuel - p) (cbst src L a 0 None lo) (n - Z.of_nat p).
Proof.
  intros Ha. induction p as [|p IH]; intros fuel n Hf Hn.
  - cbn [Z.of_nat]. rewrite Z.sub_0_r, Nat.sub_0_r. reflexivity.
  - destruct fuel as [|f]; [lia|]. cbn [r_advance_slow]. cbsimpl.
    replace ((0 <? n) && (a <? zlen src)) with true by lia.
    destruct (Z.eqb_spec (Z.of_nat (S p)) 0) as [Hbad|_]; [lia|]. cbn [negb].
    replace (Z.of_nat (S p) - 1) with (Z.of_nat p) by lia.
    fold (cbst src L a (Z.of_nat p) None lo).
    rewrite IH by lia. f_equal. lia.
Qed.

Lemma cbp_seg_value (src : bytes) a L p v : 0 <= p -> slice src a L = Ok v ->
  seg_value src {| s_start := a; s_stop := L; s_pad := p; s_fnl := false |} = Ok (repeat 32%N (Z.to_nat p) ++ v).
Proof.
  intros Hp Hv. unfold seg_value. cbn [s_start s_stop s_pad s_fnl]. rewrite Hv. cbn [bind].
  destruct (Z.ltb_spec p 0) as [Hbad|_]; [lia|].
  destruct (Z.eqb_spec p 0) as [E|_]; [subst p; reflexivity|reflexivity].
Qed.

Lemma cbp_peek (src : bytes) L a p lo v : 0 <= a < zlen src -> 0 <= p -> slice src a L = Ok v ->
  r_peek_line (cbst src L a p None lo) =
  Ok (cbst src L a p (Some (repeat 32%N (Z.to_nat p) ++ v)) lo, Some (repeat 32%N (Z.to_nat p) ++ v),
      {| s_start := a; s_stop := L; s_pad := p; s_fnl := false |}).
Proof.
  intros Ha Hp Hv. unfold r_peek_line, r_in_range. cbsimpl.
  replace ((0 <=? a) && (a <? zlen src)) with true by lia.
  rewrite (cbp_seg_value src a L p v Hp Hv). reflexivity.
Qed.

Lemma cbp_line_offset (src : bytes) L a p pk : 0 <= a <= zlen src ->
  r_line_offset (cbst src L a p pk (-1)) =
  Ok (cbst src L a p pk (col_width (firstn (Z.to_nat a) src) 0 - p), col_width (firstn (Z.to_nat a) src) 0 - p).
Proof.
  intros Ha. unfold r_line_offset. cbsimpl. change (-1 <? 0) with true. cbv iota.
  destruct (Z.ltb_spec 0 a) as [Hlt|Hge].
  - rewrite cbp_slice_from_start by lia. reflexivity.
  - replace a with 0 by lia. reflexivity.
Qed.

(* the reader handed to the block parser: advanced over a prefix without newline *)
Lemma cbp_start (prefix X : bytes) r : (forall b, In b prefix -> b <> 10%N) ->
  (forall b, In b X -> b <> 10%N) ->
  let src := prefix ++ X ++ [10%N] in
  r_advance (new_reader src) (zlen prefix) = Ok r ->
  r = cbst src (zlen src) (zlen prefix) 0 None (-1).
Proof.
  intros Hp HX src Hr.
  assert (Hsrc : src = (prefix ++ X) ++ [10%N]) by (unfold src; rewrite app_assoc; reflexivity).
  assert (HpX : forall b, In b (prefix ++ X) -> b <> 10%N).
  { intros b Hb. apply in_app_or in Hb. destruct Hb as [Hb|Hb]; [apply Hp|apply HX]; exact Hb. }
  rewrite Hsrc in Hr. rewrite cbp_new_reader in Hr by exact HpX. rewrite <- Hsrc in Hr.
  unfold r_advance in Hr. cbsimpl_in Hr.
  pose proof (cbp_zlen_nonneg prefix) as H0.
  replace ((zlen prefix <? 0) && (0 =? 0)) with false in Hr by lia.
  fold (cbst src (zlen src) 0 0 None (-1)) in Hr.
  change (zlen prefix) with (Z.of_nat (length prefix)) in Hr. rewrite Nat2Z.id in Hr.
  rewrite cbp_slow_chars in Hr.
  - injection Hr as Hr. subst r. reflexivity.
  - lia.
  - lia.
  - unfold src. unfold zlen. rewrite !app_length. cbn [length]. lia.
  - intros i Hi. rewrite Hsrc. apply cbp_nth_nonl; [exact HpX|]. rewrite cbp_zlen_app.
    pose proof (cbp_zlen_nonneg X). unfold zlen in *. lia.
Qed.

(* the last step of Open/Continue: consume the rest of the line but its newline *)
Lemma cbp_adv_rest (src : bytes) (L b p : Z) pk lo : L = zlen src -> 0 <= p -> 0 <= b < L ->
  (forall i, b <= i < L - 1 -> nth (Z.to_nat i) src 0%N <> 10%N) ->
  exists r', r_advance (cbst src L b p pk lo) (L - b + p - 1) = Ok r'.
Proof.
  intros HL Hp Hb Hnl.
  set (pn := Z.to_nat p). assert (Ep : p = Z.of_nat pn) by lia. clearbody pn. subst p.
  unfold r_advance. cbsimpl.
  match goal with |- context [if ?c then _ else _] => destruct c end; [eexists; reflexivity|].
  fold (cbst src L b (Z.of_nat pn) None (-1)).
  rewrite cbp_slow_pad by lia.
  replace (L - b + Z.of_nat pn - 1 - Z.of_nat pn) with (Z.of_nat (Z.to_nat (L - b - 1))) by lia.
  rewrite cbp_slow_chars; [eexists; reflexivity|lia|lia|lia|].
  intros i Hi. apply Hnl. lia.
Qed.

Lemma cbp_adv_pad (src : bytes) (L a : Z) v lo n pd : 0 <= n < zlen v -> 0 <= pd ->
  r_advance_and_set_padding (cbst src L a 0 (Some v) lo) n pd = Ok (cbst src L (a + n) pd None (-1)).
Proof.
  intros Hn Hpd. unfold r_advance_and_set_padding, r_advance. cbsimpl.
  replace ((n <? zlen v) && (0 =? 0)) with true by lia. cbsimpl.
  destruct (Z.ltb_spec 0 pd) as [Hlt|Hge]; [reflexivity|]. replace pd with 0 by lia. reflexivity.
Qed.

Lemma cbp_set_position (src : bytes) (L a p : Z) pk lo a' p' :
  r_set_position (cbst src L a p pk lo) 0 {| s_start := a'; s_stop := L; s_pad := p'; s_fnl := false |} =
  Ok (cbst src L a' p' None (-1)).
Proof. reflexivity. Qed.

Lemma cbp_seg_value_fnl (src : bytes) a L p v : 0 <= p -> slice src a L = Ok (v ++ [10%N]) ->
  seg_value src {| s_start := a; s_stop := L; s_pad := p; s_fnl := true |} =
  Ok (repeat 32%N (Z.to_nat p) ++ v ++ [10%N]).
Proof.
  intros Hp Hv. unfold seg_value. cbn [s_start s_stop s_pad s_fnl]. rewrite Hv. cbn [bind].
  destruct (Z.ltb_spec p 0) as [Hbad|_]; [lia|].
  destruct (Z.eqb_spec p 0) as [E|_].
  - subst p. cbn [Z.to_nat repeat app]. rewrite rev_app_distr. cbn [rev app].
    change (N.eqb 10 10) with true. reflexivity.
  - unfold spaces_n. rewrite app_assoc, rev_app_distr. cbn [rev app].
    change (N.eqb 10 10) with true. reflexivity.
Qed.

Section WithTables.
Variable space_table : list N.
Hypothesis sp32 : is_space space_table 32%N = true.
Hypothesis sp9 : is_space space_table 9%N = true.

Lemma cbp_not_blank (ws : bytes) c rest : is_space space_table c = false ->
  ListItem.is_blank space_table (ws ++ c :: rest) = false.
Proof.
  intros Hc. unfold ListItem.is_blank. rewrite forallb_app. cbn [forallb]. rewrite Hc.
  cbn [andb]. apply andb_false_r.
Qed.

(* the line sits behind a container prefix without tabs or newlines (so that it starts at
   column |prefix|); its indentation ws spans at least four columns from there *)
Theorem code_block_open_dedents (prefix ws body : bytes) (c : N) :
  (forall b, In b prefix -> b <> 10%N /\ b <> 9%N) ->
  all_ws ws -> c <> 32%N -> c <> 9%N -> c <> 10%N -> is_space space_table c = false ->
  (forall b, In b body -> b <> 10%N) ->
  4 <= expanded_width ws (zlen prefix) - zlen prefix ->
  let line := ws ++ c :: body ++ [10%N] in
  let src := prefix ++ line in
  forall r, r_advance (new_reader src) (zlen prefix) = Ok r ->
  exists sg r', code_block_open space_table r = Ok (Some (sg, r')) /\
                seg_value src sg = Ok (dedent_cols 4 line (zlen prefix)).
Proof using All.
  intros Hpre Hws Hc32 Hc9 Hc10 Hcsp Hbody Hex line src r Hr.
  set (a := zlen prefix). set (L := zlen src).
  pose proof (cbp_zlen_nonneg prefix) as Ha0. fold a in Ha0.
  assert (HX : forall b, In b (ws ++ c :: body) -> b <> 10%N).
  { intros b Hb. apply in_app_or in Hb. destruct Hb as [Hb|[Hb|Hb]].
    - unfold all_ws in Hws. rewrite Forall_forall in Hws. destruct (Hws b Hb) as [E|E]; subst b; discriminate.
    - subst b. exact Hc10.
    - apply Hbody. exact Hb. }
  assert (Hline : line = (ws ++ c :: body) ++ [10%N]) by (unfold line; rewrite <- app_assoc; reflexivity).
  assert (Hsrc : src = (prefix ++ ws ++ c :: body) ++ [10%N]).
  { unfold src. rewrite Hline, app_assoc. reflexivity. }
  assert (HpX : forall b, In b (prefix ++ ws ++ c :: body) -> b <> 10%N).
  { intros b Hb. apply in_app_or in Hb. destruct Hb as [Hb|Hb]; [apply Hpre|apply HX]; exact Hb. }
  assert (HL : L = a + zlen line) by (unfold L, src, a; apply cbp_zlen_app).
  assert (Hll : zlen line = zlen ws + zlen body + 2).
  { unfold line. rewrite cbp_zlen_app, cbp_zlen_cons, cbp_zlen_app. unfold zlen. cbn [length]. lia. }
  pose proof (cbp_zlen_nonneg ws) as Hws0. pose proof (cbp_zlen_nonneg body) as Hbody0.
  assert (Er : r = cbst src L a 0 None (-1)).
  { unfold src in Hr. rewrite Hline in Hr.
    pose proof (cbp_start prefix (ws ++ c :: body) r (fun b Hb => proj1 (Hpre b Hb)) HX Hr) as E.
    rewrite <- Hline in E. exact E. }
  subst r. clear Hr.
  destruct (cbp_indent_position ws c (body ++ [10%N]) a Hws Hex)
    as (j & pd & Hip & Hj & Hpd & Hdd & Hcw & Hlast).
  fold line in Hip, Hdd, Hcw, Hlast.
  assert (Hjz : Z.of_nat j <= zlen ws) by (unfold zlen; lia).
  (* slices *)
  assert (Hsl0 : slice src a L = Ok line).
  { unfold L. rewrite cbp_slice_to_end by (fold L; lia).
    replace a with (a + Z.of_nat 0) by lia. unfold a, src. rewrite cbp_skipn_app. reflexivity. }
  assert (Hslj : slice src (a + Z.of_nat j) L = Ok (skipn j line)).
  { unfold L. rewrite cbp_slice_to_end by (fold L; lia).
    unfold a, src. rewrite cbp_skipn_app. reflexivity. }
  assert (Hcolp : col_width prefix 0 = a).
  { rewrite cbp_col_width_notab by (intros b Hb; apply (Hpre b Hb)). fold a. lia. }
  unfold code_block_open.
  rewrite (cbp_peek src L a 0 (-1) line) by (try exact Hsl0; fold L; lia).
  change (repeat 32%N (Z.to_nat 0) ++ line) with line. cbn [bind].
  rewrite cbp_line_offset by (fold L; lia). cbn [bind].
  replace (col_width (firstn (Z.to_nat a) src) 0 - 0) with a.
  2: { pose proof (cbp_firstn_app prefix line 0) as Hf. change (Z.of_nat 0) with 0 in Hf.
       rewrite Z.add_0_r in Hf. fold a src in Hf. rewrite Hf. cbn [firstn]. rewrite app_nil_r. lia. }
  rewrite Hip.
  destruct (Z.ltb_spec (Z.of_nat j) 0) as [Hbad|_]; [lia|].
  unfold line at 1. rewrite cbp_not_blank by exact Hcsp. cbn [orb]. cbv iota.
  (* code_block_take *)
  unfold code_block_take. rewrite cbp_adv_pad by lia. cbn [bind].
  rewrite (cbp_peek src L (a + Z.of_nat j) pd (-1) (skipn j line)) by (try exact Hslj; fold L; lia).
  cbn [bind].
  set (v := repeat 32%N (Z.to_nat pd) ++ skipn j line).
  set (sgf := {| s_start := a + Z.of_nat j; s_stop := L; s_pad := pd; s_fnl := true |}).
  (* the value of the final segment *)
  assert (Hval : seg_value src sgf = Ok (dedent_cols 4 line a)).
  { rewrite Hdd. unfold sgf.
    assert (Hend : skipn j line = skipn j (ws ++ c :: body) ++ [10%N]).
    { rewrite Hline. rewrite skipn_app.
      replace (j - length (ws ++ c :: body))%nat with 0%nat by (rewrite app_length; lia).
      reflexivity. }
    rewrite Hend in Hslj |- *. apply cbp_seg_value_fnl; [exact Hpd|exact Hslj]. }
  (* the rest of the line holds no newline *)
  assert (Hnl : forall i, a + Z.of_nat j <= i < L - 1 -> nth (Z.to_nat i) src 0%N <> 10%N).
  { intros i Hi. rewrite Hsrc. apply cbp_nth_nonl; [exact HpX|].
    replace (zlen (prefix ++ ws ++ c :: body)) with (L - 1); [lia|].
    rewrite HL, Hll. unfold a. rewrite !cbp_zlen_app, cbp_zlen_cons. lia. }
  cbn [s_start s_stop s_pad].
  destruct (Z.eqb_spec pd 0) as [Ep|Np].
  - (* no padding left *)
    cbn [bind s_start s_stop s_pad]. fold sgf.
    destruct (cbp_adv_rest src L (a + Z.of_nat j) pd (Some v) (-1) eq_refl Hpd ltac:(lia) Hnl) as [r' Hr'].
    unfold seg_len. cbn [sgf s_start s_stop s_pad].
    rewrite Hr'. cbn [bind]. exists sgf, r'. split; [reflexivity|exact Hval].
  - (* part of a tab is left as padding: the byte before the position is that tab *)
    destruct (Hlast ltac:(lia)) as (j0 & Ej & Hc0).
    rewrite cbp_line_offset by (fold L; lia). cbn [bind]. unfold r_position.
    cbn [cbst r_line r_pos s_start s_stop]. unfold mkseg. rewrite cbp_set_position. cbn [bind].
    rewrite cbp_line_offset by (fold L; lia). cbn [bind].
    rewrite cbp_set_position. cbn [bind].
    assert (Hoff : col_width (firstn (Z.to_nat (a + Z.of_nat j)) src) 0 - pd = a + 4).
    { unfold a at 1, src. rewrite cbp_firstn_app, cbp_col_width_app, Hcolp, Hcw. lia. }
    assert (Hoff2 : col_width (firstn (Z.to_nat (a + Z.of_nat j - 1)) src) 0 - 0 < a + 4).
    { replace (a + Z.of_nat j - 1) with (a + Z.of_nat j0) by lia.
      unfold a at 1, src. rewrite cbp_firstn_app, cbp_col_width_app, Hcolp. lia. }
    destruct (Z.eqb_spec (col_width (firstn (Z.to_nat (a + Z.of_nat j)) src) 0 - pd)
                         (col_width (firstn (Z.to_nat (a + Z.of_nat j - 1)) src) 0 - 0)) as [Hbad|_]; [lia|].
    cbn [s_start s_stop s_pad]. fold sgf.
    destruct (cbp_adv_rest src L (a + Z.of_nat j) pd None (-1) eq_refl Hpd ltac:(lia) Hnl) as [r' Hr'].
    unfold seg_len. cbn [sgf s_start s_stop s_pad].
    rewrite Hr'. cbn [bind]. exists sgf, r'. split; [reflexivity|exact Hval].
Qed.

(* a line indented less than four columns is not (the start of) an indented code block *)
Theorem code_block_open_declines (prefix ws body : bytes) (c : N) :
  (forall b, In b prefix -> b <> 10%N /\ b <> 9%N) ->
  all_ws ws -> c <> 32%N -> c <> 9%N -> c <> 10%N ->
  (forall b, In b body -> b <> 10%N) ->
  expanded_width ws (zlen prefix) - zlen prefix < 4 ->
  let src := prefix ++ ws ++ c :: body ++ [10%N] in
  forall r, r_advance (new_reader src) (zlen prefix) = Ok r ->
  code_block_open space_table r = Ok None.
Proof using All.
  intros Hpre Hws Hc32 Hc9 Hc10 Hbody Hex src r Hr.
  set (line := ws ++ c :: body ++ [10%N]) in *.
  set (a := zlen prefix) in *. set (L := zlen src).
  pose proof (cbp_zlen_nonneg prefix) as Ha0. fold a in Ha0.
  assert (HX : forall b, In b (ws ++ c :: body) -> b <> 10%N).
  { intros b Hb. apply in_app_or in Hb. destruct Hb as [Hb|[Hb|Hb]].
    - unfold all_ws in Hws. rewrite Forall_forall in Hws. destruct (Hws b Hb) as [E|E]; subst b; discriminate.
    - subst b. exact Hc10.
    - apply Hbody. exact Hb. }
  assert (Hline : line = (ws ++ c :: body) ++ [10%N]) by (unfold line; rewrite <- app_assoc; reflexivity).
  assert (HL : L = a + zlen line) by (unfold L, src, a; apply cbp_zlen_app).
  assert (Hll : zlen line = zlen ws + zlen body + 2).
  { unfold line. rewrite cbp_zlen_app, cbp_zlen_cons, cbp_zlen_app. unfold zlen. cbn [length]. lia. }
  pose proof (cbp_zlen_nonneg ws) as Hws0. pose proof (cbp_zlen_nonneg body) as Hbody0.
  assert (Er : r = cbst src L a 0 None (-1)).
  { unfold src in Hr. rewrite Hline in Hr.
    pose proof (cbp_start prefix (ws ++ c :: body) r (fun b Hb => proj1 (Hpre b Hb)) HX Hr) as E.
    rewrite <- Hline in E. exact E. }
  subst r. clear Hr.
  assert (Hsl0 : slice src a L = Ok line).
  { unfold L. rewrite cbp_slice_to_end by (fold L; lia).
    replace a with (a + Z.of_nat 0) by lia. unfold a, src. rewrite cbp_skipn_app. reflexivity. }
  unfold code_block_open.
  rewrite (cbp_peek src L a 0 (-1) line) by (try exact Hsl0; fold L; lia).
  change (repeat 32%N (Z.to_nat 0) ++ line) with line. cbn [bind].
  rewrite cbp_line_offset by (fold L; lia). cbn [bind].
  replace (col_width (firstn (Z.to_nat a) src) 0 - 0) with a.
  2: { pose proof (cbp_firstn_app prefix line 0) as Hf. change (Z.of_nat 0) with 0 in Hf.
       rewrite Z.add_0_r in Hf. fold a src in Hf. rewrite Hf. cbn [firstn]. rewrite app_nil_r.
       rewrite cbp_col_width_notab by (intros b Hb; apply (Hpre b Hb)). fold a. lia. }
  unfold indent_position, indent_position_padding. change (4 =? 0) with false. cbv iota.
  unfold line at 1.
  rewrite (li_ip_loop ws c (body ++ [10%N]) a 4 Hws Hc32 Hc9 0 0) by (rewrite Z.add_0_r; lia).
  rewrite Z.add_0_r.
  destruct (Z.leb_spec 4 (expanded_width ws a - a)) as [Hbad|_]; [lia|].
  reflexivity.
Qed.

(* the specification function itself: spellings that expand to the same blanks dedent alike *)
Theorem dedent_cols_blanks (n : nat) (rest : bytes) (col : Z) (k : nat) :
  (k <= n)%nat -> dedent_cols k (repeat 32%N n ++ rest) col = repeat 32%N (n - k) ++ rest.
Proof using All.
  revert n col. induction k as [|k IH]; intros n col Hk.
  - rewrite cbp_dedent_zero, Nat.sub_0_r. reflexivity.
  - destruct n as [|n]; [lia|]. cbn [repeat app]. rewrite cbp_dedent_blank by lia.
    replace (S k - 1)%nat with k by lia. rewrite IH by lia. reflexivity.
Qed.

End WithTables.
