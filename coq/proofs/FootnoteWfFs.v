(* C16 for the Footnote parser model, part 1: the footnote data (fstate) along the inline phase of
   one block (model/FootnoteParseInline.v): the invariant FSI is kept, the link list only grows,
   and every FootnoteLink node of the trees carries the index found at its position of the link list. *)
Require Import GM.model.Base GM.model.Util GM.model.Reader GM.model.ListItem GM.model.Regex GM.model.HtmlWriter GM.model.Html GM.model.HtmlSpec
               GM.model.BlockParse GM.model.InlineParse GM.model.FootnoteX
               GM.model.FootnoteParseBlock GM.model.FootnoteParseInline GM.model.FootnoteParse.
Require Import GM.proofs.ParseInv GM.proofs.FootnoteProofs GM.proofs.FootnoteWfDefs.
From Coq Require Import List ZArith Lia Bool Permutation.
Import ListNotations.
Open Scope Z_scope.

Lemma fw_bind_ok {A B} (r : result A) (f : A -> result B) b :
  (x <- r ;; f x) = Ok b -> exists a, r = Ok a /\ f a = Ok b.
Proof. destruct r as [a| |]; cbn [bind]; intros H; try discriminate. exists a. split; [reflexivity|exact H]. Qed.

Tactic Notation "fw_bind" hyp(H) ident(x) ident(Hx) :=
  let H' := fresh in
  apply fw_bind_ok in H; destruct H as [x [Hx H']]; rename H' into H.

(* ---------- assign ---------- *)
Lemma assign_refs defs : forall count label defs' c' r,
  assign defs count label = (defs', c', r) -> map d_ref defs' = map d_ref defs.
Proof.
  induction defs as [|d rest IH]; intros count label defs' c' r H; cbn [assign] in H.
  - injection H as <- <- <-. reflexivity.
  - destruct (bytes_eqb (d_ref d) label).
    + destruct (d_index d <? 0); injection H as <- <- <-; reflexivity.
    + destruct (assign rest count label) as [[rest' c] r0] eqn:E. injection H as <- <- <-.
      cbn [map]. f_equal. eapply IH. exact E.
Qed.

Lemma assign_Inv defs count label defs' c' r : Inv defs count -> assign defs count label = (defs', c', r) ->
  Inv defs' c' /\ count <= c' /\ (forall i, r = Some i -> 1 <= i <= c').
Proof.
  intros [Hc [Hnd Hin]] H.
  destruct (assign_spec _ _ _ _ _ _ Hc H) as [[-> [-> Hr]]|[-> [-> Hp]]].
  - split; [split; [exact Hc|split; assumption]|]. split; [lia|].
    intros i Hi. destruct Hr as [->|[j [-> Hj]]]; [discriminate|]. injection Hi as <-. apply Hin. exact Hj.
  - split; [|split; [lia|intros i Hi; injection Hi as <-; lia]].
    split; [lia|]. split.
    + apply (Permutation_NoDup (Permutation_sym Hp)). constructor; [|exact Hnd].
      intros Hx. apply Hin in Hx. lia.
    + intros i. split.
      * intros Hi. apply (Permutation_in _ Hp) in Hi. destruct Hi as [<-|Hi]; [lia|]. apply Hin in Hi. lia.
      * intros Hi. apply (Permutation_in _ (Permutation_sym Hp)).
        destruct (Z.eq_dec i (count + 1)) as [->|Hne]; [now left|]. right. apply Hin. lia.
Qed.

(* ---------- one step of the footnote data ---------- *)
Definition fs_step (a b : fstate) : Prop := (FSI a -> FSI b) /\ fs_le a b.

Lemma fs_le_refl a : fs_le a a.
Proof.
  split; [tauto|]. split.
  - intros da db Ha Hb. congruence.
  - exists []. rewrite app_nil_r. reflexivity.
Qed.
Lemma fs_le_trans a b c : fs_le a b -> fs_le b c -> fs_le a c.
Proof.
  intros [A1 [A2 [m1 A3]]] [B1 [B2 [m2 B3]]]. split; [tauto|]. split.
  - intros da dc Ha Hc. destruct (fs_defs b) as [db|] eqn:Eb.
    + rewrite (B2 db dc eq_refl Hc). apply (A2 da db Ha eq_refl).
    + destruct A1 as [_ A1]. rewrite (A1 eq_refl) in Ha. discriminate.
  - exists (m1 ++ m2). rewrite B3, A3, app_assoc. reflexivity.
Qed.
Lemma fs_step_refl a : fs_step a a.
Proof. split; [auto|apply fs_le_refl]. Qed.
Lemma fs_step_trans a b c : fs_step a b -> fs_step b c -> fs_step a c.
Proof. intros [A1 A2] [B1 B2]. split; [auto|eapply fs_le_trans; eassumption]. Qed.

Section WithTables.
Variable space_table punct_table : list N.
Variable norm : bytes -> bytes.
Variable url_table email_table : list N.
Variable re_email_domain re_open_tag re_close_tag : re.
Variable punct_rune space_rune : N -> bool.
Variable refs : list (bytes * (bytes * option bytes)).
Notation FP := (footnote_parse punct_table).
Notation IPF := (ip_parseF space_table punct_table norm url_table email_table re_email_domain re_open_tag re_close_tag
                           punct_rune space_rune refs).
Notation TIF := (try_inlineF space_table punct_table norm url_table email_table re_email_domain re_open_tag re_close_tag
                             punct_rune space_rune refs).
Notation SLF := (scan_lineF space_table punct_table norm url_table email_table re_email_domain re_open_tag re_close_tag
                            punct_rune space_rune refs).
Notation LOOPF := (parse_block_loopF space_table punct_table norm url_table email_table re_email_domain re_open_tag re_close_tag
                                     punct_rune space_rune refs).
Notation PBF := (parse_blockF space_table punct_table norm url_table email_table re_email_domain re_open_tag re_close_tag
                              punct_rune space_rune refs).
Notation ICF := (inline_childrenF space_table punct_table norm url_table email_table re_email_domain re_open_tag re_close_tag
                                  punct_rune space_rune refs).

Lemma footnote_parse_fs x parent x' o : FP x parent = Ok (x', o) -> fs_step (fi_f x) (fi_f x').
Proof.
  unfold footnote_parse. intros H.
  fw_bind H y Hy. destruct y as [[r line] segment].
  cbv zeta in H.
  match type of H with (if ?c then _ else _) = _ => destruct c end.
  { injection H as <- _. apply fs_step_refl. }
  match type of H with (if ?c then _ else _) = _ => destruct c end.
  { injection H as <- _. apply fs_step_refl. }
  match type of H with (if ?c then _ else _) = _ => destruct c end.
  { injection H as <- _. apply fs_step_refl. }
  fw_bind H value Hv. fw_bind H r2 Hr2. cbn [fi_f fist_s] in H.
  destruct (fs_defs (fi_f x)) as [defs|] eqn:Ed.
  2:{ injection H as <- _. apply fs_step_refl. }
  destruct (assign defs (fs_count (fi_f x)) value) as [[defs' count'] found] eqn:Ea.
  destruct found as [index|].
  2:{ injection H as <- _. apply fs_step_refl. }
  destruct (new_inode _ _) as [c n] eqn:En.
  fw_bind H c2 Hc2. injection H as <- _. cbn [fi_f].
  split.
  - unfold FSI. rewrite Ed. cbn [fs_defs fs_count fs_links]. intros [HI Hl].
    destruct (assign_Inv _ _ _ _ _ _ HI Ea) as [HI' [Hle Hr]]. split; [exact HI'|].
    intros i Hi. apply in_app_or in Hi. destruct Hi as [Hi|[<-|[]]].
    + specialize (Hl i Hi). lia.
    + apply Hr. reflexivity.
  - split; [|split].
    + cbn [fs_defs]. rewrite Ed. split; discriminate.
    + cbn [fs_defs]. intros da db Ha Hb. rewrite Ed in Ha. injection Ha as <-. injection Hb as <-.
      eapply assign_refs. exact Ea.
    + cbn [fs_links]. eexists. reflexivity.
Qed.

Lemma ip_parseF_fs p x parent x' o : IPF p x parent = Ok (x', o) -> fs_step (fi_f x) (fi_f x').
Proof.
  destruct p as [p|]; cbn [ip_parseF]; intros H.
  - fw_bind H y Hy. injection H as <- _. cbn [fist_s fi_f]. apply fs_step_refl.
  - eapply footnote_parse_fs. exact H.
Qed.

Lemma try_inlineF_fs : forall ips x parent sl sp x' o, TIF ips x parent sl sp = Ok (x', o) -> fs_step (fi_f x) (fi_f x').
Proof.
  induction ips as [|p rest IH]; intros x parent sl sp x' o H; cbn [try_inlineF] in H.
  - injection H as <- _. apply fs_step_refl.
  - fw_bind H y Hy. destruct y as [x1 n]. pose proof (ip_parseF_fs _ _ _ _ _ Hy) as S1.
    destruct n as [n|].
    + injection H as <- _. exact S1.
    + fw_bind H r Hr. apply IH in H. cbn [fist_s fi_f] in H. eapply fs_step_trans; eassumption.
Qed.

Lemma scan_lineF_fs : forall fuel line i ll n esc sp x parent out,
  SLF fuel line i ll n esc sp x parent = Ok out ->
  fs_step (fi_f x) (fi_f (match out with inl (x', _) => x' | inr (x', _, _) => x' end)).
Proof.
  induction fuel as [|f IH]; intros line i ll n esc sp x parent out H; cbn [scan_lineF] in H; [discriminate|].
  destruct (ll <=? i). { injection H as <-. apply fs_step_refl. }
  destruct (zskip i line) as [|c tl]. { injection H as <-. apply fs_step_refl. }
  destruct (N.eqb c 10). { injection H as <-. apply fs_step_refl. }
  cbv zeta in H.
  fw_bind H r Hr.
  assert (S1 : fs_step (fi_f x) (fi_f (match r with inl x1 => x1 | inr (x1, _, _) => x1 end))).
  { clear H.
    match type of Hr with match ?l with [] => _ | _ :: _ => _ end = _ => destruct l as [|ip ips] eqn:Eips end.
    - injection Hr as <-. apply fs_step_refl.
    - rewrite <- Eips in Hr. clear Eips.
      fw_bind Hr rd Hrd. fw_bind Hr t Ht. destruct t as [s1 sp1]. fw_bind Hr y Hy. destruct y as [x1 node].
      apply try_inlineF_fs in Hy. cbn [fist_s fi_f] in Hy.
      destruct node as [nd|].
      + fw_bind Hr h Hh. injection Hr as <-. cbn [fist_s fi_f]. exact Hy.
      + injection Hr as <-. exact Hy. }
  destruct r as [x1|[[x1 n1] sp1]].
  - injection H as <-. exact S1.
  - destruct esc; [|destruct (N.eqb c 92)]; apply IH in H; eapply fs_step_trans; eassumption.
Qed.

Lemma parse_block_loopF_fs : forall fuel x parent esc x', LOOPF fuel x parent esc = Ok x' -> fs_step (fi_f x) (fi_f x').
Proof.
  induction fuel as [|f IH]; intros x parent esc x' H; cbn [parse_block_loopF] in H; [discriminate|].
  fw_bind H y Hy. destruct y as [[r line] sg0]. destruct line as [line|].
  2:{ injection H as <-. cbn [fist_s fi_f]. apply fs_step_refl. }
  cbv zeta in H.
  match type of H with (match ?e with pair _ _ => _ end) = _ => destruct e as [[[line_length hard] visible] soft] end.
  fw_bind H z Hz. apply scan_lineF_fs in Hz. cbn [fist_s fi_f] in Hz.
  destruct z as [[x1 esc1]|[[x1 n1] sp1]].
  - apply IH in H. eapply fs_step_trans; eassumption.
  - fw_bind H r1 Hr1.
    match type of H with (if ?c then _ else _) = _ => destruct c end.
    + apply IH in H. cbn [fist_s fi_f] in H. eapply fs_step_trans; eassumption.
    + fw_bind H diff Hd. fw_bind H t Ht. destruct t as [c tseg].
      destruct (new_inode c _) as [c2 tx]. fw_bind H h Hh. fw_bind H r2 Hr2.
      apply IH in H. cbn [fist_s fi_f] in H. eapply fs_step_trans; eassumption.
Qed.

Lemma parse_blockF_fs fs src lines c fs' : PBF fs src lines = Ok (c, fs') -> fs_step fs fs'.
Proof.
  unfold parse_blockF. intros H. fw_bind H r Hr. fw_bind H x Hx. fw_bind H c1 Hc1. fw_bind H c2 Hc2.
  injection H as _ <-. apply parse_block_loopF_fs in Hx. cbn [fi_f] in Hx. exact Hx.
Qed.

End WithTables.

(* ---------- the trees itreeF builds ---------- *)
Lemma link_nodes_unfold k l a kids :
  link_nodes (Node k l a kids) = (match k with KFootnoteLink i _ s => [(i, s)] | _ => [] end) ++ flat_map link_nodes kids.
Proof.
  cbn [link_nodes]. f_equal; try reflexivity;
  (induction kids as [|x r IH]; [reflexivity|cbn [flat_map]; rewrite IH; reflexivity]).
Qed.

Lemma fw_all_kinds_unfold p k l a kids : all_kinds p (Node k l a kids) = p k && forallb (all_kinds p) kids.
Proof.
  cbn [all_kinds]. f_equal; try reflexivity;
  (induction kids as [|x r IH]; [reflexivity|cbn [forallb]; rewrite IH; reflexivity]).
Qed.

Lemma fw_map_res_forall2 {A B} (f : A -> result B) l : forall ys,
  map_res f l = Ok ys -> Forall2 (fun x y => f x = Ok y) l ys.
Proof.
  induction l as [|x r IH]; intros ys H; cbn [map_res] in H.
  - injection H as <-. constructor.
  - fw_bind H y Hy. fw_bind H z Hz. injection H as <-. constructor; [exact Hy|apply IH; exact Hz].
Qed.

(* a link node of a tree of itreeF carries the index at its position of the link list; the tree
   has no Footnote / FootnoteList / FootnoteBacklink node *)
Definition link_ok (links : list Z) (p : Z * Z) : Prop := 0 <= snd p /\ nth_error links (Z.to_nat (snd p)) = Some (fst p).

Lemma itreeF_links src h links : forall fuel i t, itreeF fuel src h links i = Ok t ->
  Forall (link_ok links) (link_nodes t) /\ all_kinds not_fn_block t = true.
Proof.
  induction fuel as [|f IH]; intros i t H; cbn [itreeF] in H; [discriminate|].
  fw_bind H n Hn. fw_bind H kids Hk. fw_bind H k Hkd. injection H as <-.
  apply fw_map_res_forall2 in Hk.
  assert (Hkids : Forall (fun y => Forall (link_ok links) (link_nodes y) /\ all_kinds not_fn_block y = true) kids).
  { clear Hkd. induction Hk as [|a b la lb Hab _ IHk]; constructor; [eapply IH; exact Hab|exact IHk]. }
  rewrite link_nodes_unfold, fw_all_kinds_unfold.
  assert (Hflat : Forall (link_ok links) (flat_map link_nodes kids)).
  { apply Forall_forall. intros p Hp. apply in_flat_map in Hp. destruct Hp as [y [Hy Hp]].
    rewrite Forall_forall in Hkids. destruct (Hkids y Hy) as [Hl _]. rewrite Forall_forall in Hl. exact (Hl p Hp). }
  assert (Hall : forallb (all_kinds not_fn_block) kids = true).
  { apply forallb_forall. intros y Hy. rewrite Forall_forall in Hkids. apply (Hkids y Hy). }
  rewrite Hall, andb_true_r.
  destruct (ik n) as [|sg sf hd rw| |lv|d ti|d ti|em sg|segs|sg co cc ln og ch dp dn|sg im lp lnx lf ll];
    try (injection Hkd as <-; split; [exact Hflat|reflexivity]).
  - (* IEmphasis *)
    destruct (Z.leb_spec lv (-3)) as [Hle|Hgt].
    + destruct (nth_error links (Z.to_nat (-3 - lv))) as [idx|] eqn:En; [|discriminate].
      injection Hkd as <-. split; [|reflexivity]. apply Forall_app. split; [|exact Hflat].
      constructor; [|constructor]. split; [change (0 <= -3 - lv); lia|exact En].
    + injection Hkd as <-. split; [exact Hflat|reflexivity].
  - (* IAutoLink *) fw_bind Hkd v Hv. injection Hkd as <-. split; [exact Hflat|reflexivity].
Qed.

Section Children.
Variable space_table punct_table : list N.
Variable norm : bytes -> bytes.
Variable url_table email_table : list N.
Variable re_email_domain re_open_tag re_close_tag : re.
Variable punct_rune space_rune : N -> bool.
Variable refs : list (bytes * (bytes * option bytes)).

Theorem inline_childrenF_fs fs src lines ts fs' :
  inline_childrenF space_table punct_table norm url_table email_table re_email_domain re_open_tag re_close_tag
                   punct_rune space_rune refs fs src lines = Ok (ts, fs') ->
  fs_step fs fs' /\
  Forall (fun t => Forall (link_ok (fs_links fs')) (link_nodes t) /\ all_kinds not_fn_block t = true) ts.
Proof.
  unfold inline_childrenF. intros H. fw_bind H x Hx. destruct x as [c fs1].
  fw_bind H t Ht. injection H as <- <-.
  split; [eapply parse_blockF_fs; exact Hx|].
  destruct (itreeF_links _ _ _ _ _ _ Ht) as [Hl Hk]. destruct t as [k l a kids]. cbn [t_children].
  rewrite link_nodes_unfold in Hl. apply Forall_app in Hl. destruct Hl as [_ Hl].
  rewrite fw_all_kinds_unfold in Hk. apply andb_true_iff in Hk. destruct Hk as [_ Hk].
  apply Forall_forall. intros y Hy. split.
  - apply Forall_forall. intros p Hp. rewrite Forall_forall in Hl. apply Hl. apply in_flat_map. exists y. auto.
  - rewrite forallb_forall in Hk. apply Hk. exact Hy.
Qed.
End Children.
