(* C09 on plain documents, shape side: the source of two plain documents separated by an empty
   line is the source of the appended document, and so is the prescribed HTML. *)
Require Import GM.model.Base GM.model.Util GM.model.SpecDoc.
Require Import GM.proofs.SpecParaBytes GM.proofs.SpecParaSpec.
From Coq Require Import List NArith ZArith Bool Lia.
Import ListNotations.
Open Scope N_scope.

Lemma doc_ok_inv d : doc_ok d = true -> d <> [] /\ forallb para_ok d = true.
Proof.
  unfold doc_ok. intros H. apply andb_true_iff in H. destruct H as [Hn Hd].
  split; [destruct d; [discriminate|discriminate]|exact Hd].
Qed.
Lemma doc_ok_app d1 d2 : doc_ok d1 = true -> doc_ok d2 = true -> doc_ok (d1 ++ d2) = true.
Proof.
  intros H1 H2. destruct (doc_ok_inv d1 H1) as [Hn1 Hd1]. destruct (doc_ok_inv d2 H2) as [Hn2 Hd2].
  unfold doc_ok. rewrite forallb_app, Hd1, Hd2. destruct d1; [congruence|reflexivity].
Qed.
Lemma pdoc_src_app d1 d2 fin : d1 <> [] -> d2 <> [] ->
  pdoc_src d1 true ++ nl ++ pdoc_src d2 fin = pdoc_src (d1 ++ d2) fin.
Proof.
  intros H1 H2. unfold pdoc_src, pdoc_body. rewrite map_app.
  rewrite join_app_ne; [|destruct d1; [congruence|discriminate]|destruct d2; [congruence|discriminate]].
  rewrite <- !app_assoc. reflexivity.
Qed.
Lemma pdoc_html_app d1 d2 : pdoc_html (d1 ++ d2) = pdoc_html d1 ++ pdoc_html d2.
Proof. unfold pdoc_html. apply flat_map_app. Qed.
