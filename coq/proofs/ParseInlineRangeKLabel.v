(* Helper file for ParseInlineRange.v (public inline kinds): the list of link label states of the parse
   context (pushLinkLabelState, removeLinkLabelState of link.go) as a list of node numbers. *)
Require Import GM.model.Base GM.model.Util GM.model.Reader GM.model.HtmlSpec GM.model.BlockParse GM.model.InlineParse.
Require Import GM.proofs.ParseInlineRangeHeap GM.proofs.ParseInlineRangeKList GM.proofs.ParseInlineRangeKStep.
From Coq Require Import ZArith Lia List Bool.
Import ListNotations.
Open Scope Z_scope.

(* the links of a label state node: (prev, next) and last *)
Definition lpn (h : iheap) (x : nat) : option (option nat * option nat) :=
  match kd h x with Some (ILabel _ _ p n _ _) => Some (p, n) | _ => None end.
Definition llast (h : iheap) (x : nat) : option (option nat) :=
  match kd h x with Some (ILabel _ _ _ _ _ l) => Some l | _ => None end.

Fixpoint lseg (h : iheap) (prev : option nat) (L : list nat) (nxt : option nat) : Prop :=
  match L with
  | [] => True
  | d :: L' => lpn h d = Some (prev, nxt_of L' nxt) /\ lseg h (Some d) L' nxt
  end.

Lemma lseg_app h A : forall prev B nxt,
  lseg h prev (A ++ B) nxt <-> lseg h prev A (nxt_of B nxt) /\ lseg h (lst_of prev A) B nxt.
Proof.
  induction A as [|a A IH]; intros prev B nxt; cbn [app lseg lst_of].
  - tauto.
  - rewrite IH, nxt_of_app. tauto.
Qed.

Lemma lseg_ext h h' L : forall prev nxt, (forall d, In d L -> lpn h' d = lpn h d) ->
  lseg h prev L nxt -> lseg h' prev L nxt.
Proof.
  induction L as [|a L IH]; intros prev nxt Hs; cbn [lseg]; [auto|].
  intros [H1 H2]. split; [rewrite Hs by (cbn; auto); exact H1|]. apply IH; [|exact H2].
  intros d Hd. apply Hs. cbn. auto.
Qed.

Lemma lseg_in h L : forall prev nxt d, lseg h prev L nxt -> In d L -> lpn h d <> None.
Proof.
  induction L as [|a L IH]; intros prev nxt d; cbn [lseg In]; [tauto|].
  intros [H1 H2] [->|Hin]; [congruence|]. eapply IH; eassumption.
Qed.

Lemma lseg_mid h A d B prev nxt : lseg h prev (A ++ d :: B) nxt ->
  lpn h d = Some (lst_of prev A, nxt_of B nxt).
Proof. rewrite lseg_app. cbn [lseg]. tauto. Qed.

Record lchain (c : ictx) (LL : list nat) : Prop := {
  lc_nodup : NoDup LL;
  lc_head : i_labels c = nxt_of LL None;
  lc_seg : lseg (i_h c) None LL None;
  lc_last : forall x, nxt_of LL None = Some x -> llast (i_h c) x = Some (lst_of None LL)
}.

(* reading and writing *)
Lemma lget_lab h x s im p nx fs ls : lget h x = Ok (s, im, p, nx, fs, ls) -> lpn h x = Some (p, nx) /\ llast h x = Some ls.
Proof. intros H. apply lget_view in H. unfold lpn, llast. rewrite H. auto. Qed.

(* the tree and the classes stay, only the links of label state nodes change *)
Record lstep (h h' : iheap) : Prop := {
  ls_len : length h' = length h;
  ls_pr : forall j, pr h' j = pr h j;
  ls_ch : forall j, ch h' j = ch h j;
  ls_kle : kle h h';
  ls_kd : forall j, islab h j = false -> kd h' j = kd h j
}.
Lemma lstep_refl h : lstep h h.
Proof. constructor; auto. apply kle_refl. Qed.
Lemma lstep_trans a b c : lstep a b -> lstep b c -> lstep a c.
Proof.
  intros [A1 A2 A3 A4 A5] [B1 B2 B3 B4 B5]. constructor.
  - congruence.
  - intros j. rewrite B2. apply A2.
  - intros j. rewrite B3. apply A3.
  - eapply kle_trans; eassumption.
  - intros j Hj. rewrite B5, A5; [reflexivity|exact Hj|].
    unfold islab, kcls in *. rewrite A5; [exact Hj|]. unfold islab, kcls. exact Hj.
Qed.

Lemma lset_view h x p nx fs ls h' : lset h x p nx fs ls = Ok h' ->
  lstep h h' /\ lpn h x <> None /\
  (forall j, lpn h' j = if Nat.eqb j x then Some (p, nx) else lpn h j) /\
  (forall j, llast h' j = if Nat.eqb j x then Some ls else llast h j).
Proof.
  intros H. apply lset_step in H. destruct H as (s & im & p0 & n0 & f0 & l0 & Hk & Hs).
  pose proof (kind_step_kle _ _ _ _ _ Hs Hk eq_refl) as Hkle.
  destruct Hs as (L & Kd & P & C).
  split; [|split; [unfold lpn; rewrite Hk; discriminate|split]].
  - constructor; try assumption. intros j Hj. rewrite Kd. destruct (Nat.eqb_spec j x) as [->|]; [|reflexivity].
    unfold islab, kcls in Hj. rewrite Hk in Hj. cbn in Hj. discriminate.
  - intros j. unfold lpn. rewrite Kd. destruct (Nat.eqb_spec j x); reflexivity.
  - intros j. unfold llast. rewrite Kd. destruct (Nat.eqb_spec j x); reflexivity.
Qed.

(* the tree invariants under a change of label links *)
Lemma lstep_gfacts h h' : lstep h h' -> tree_ok h ->
  tree_ok h' /\ K h' = K h /\ dch h' = dch h /\ (forall x, kcls h' x = kcls h x).
Proof.
  intros [L P C Hk Kd] Ht. destruct (K_same h h' Ht Hk (C 0%nat)) as [EK ED].
  split; [eapply tree_ok_same; eassumption|]. split; [exact EK|]. split; [exact ED|].
  intros x. destruct (Nat.lt_ge_cases x (length h)) as [Hlt|Hge]; [apply kle_kcls; assumption|].
  rewrite !kcls_none by lia. reflexivity.
Qed.

(* ---------- pushLinkLabelState ---------- *)
Lemma push_label_k c v c' LL : push_label c v = Ok c' -> lchain c LL -> lpn (i_h c) v = Some (None, None) -> ~ In v LL ->
  lchain c' (LL ++ [v]) /\ lstep (i_h c) (i_h c') /\
  i_dfirst c' = i_dfirst c /\ i_dlast c' = i_dlast c /\ i_bottoms c' = i_bottoms c.
Proof.
  unfold push_label. intros H [N Hd S La] Hv HvL.
  destruct (i_labels c) as [lst|] eqn:El.
  - destruct LL as [|l1 rest]; [cbn in Hd; discriminate|]. cbn [nxt_of] in Hd, La. inversion Hd; subst lst.
    destruct (lget (i_h c) l1) as [[[[[[s im] p] nx] fs] ls]| |] eqn:E0; cbn [bind] in H; try discriminate.
    destruct (lget_lab _ _ _ _ _ _ _ _ E0) as [Hpn0 Hl0]. rewrite (La l1 eq_refl) in Hl0.
    assert (Hl : lst_of None (l1 :: rest) = ls) by congruence. clear Hl0.
    destruct ls as [l|]; [|discriminate].
    destruct (lst_of_snoc _ None l Hl ltac:(discriminate)) as [A HA].
    destruct (lset (i_h c) l1 p nx fs (Some v)) as [h1| |] eqn:E1; cbn [bind] in H; try discriminate.
    destruct (lset_view _ _ _ _ _ _ _ E1) as (S1 & _ & V1 & W1).
    destruct (lget h1 l) as [[[[[[s2 im2] lp] n2] lf] ll]| |] eqn:E2; cbn [bind] in H; try discriminate.
    destruct (lget_lab _ _ _ _ _ _ _ _ E2) as [Hpn2 Hl2].
    destruct (lset h1 l lp (Some v) lf ll) as [h2| |] eqn:E3; cbn [bind] in H; try discriminate.
    destruct (lset_view _ _ _ _ _ _ _ E3) as (S2 & _ & V2 & W2).
    destruct (lget h2 v) as [[[[[[s3 im3] p3] vn] vf] vl]| |] eqn:E4; cbn [bind] in H; try discriminate.
    destruct (lget_lab _ _ _ _ _ _ _ _ E4) as [Hpn4 _].
    destruct (lset h2 v (Some l) vn vf vl) as [h3| |] eqn:E5; cbn [bind] in H; try discriminate.
    destruct (lset_view _ _ _ _ _ _ _ E5) as (S3 & _ & V3 & W3).
    inversion H; subst c'. clear H. cbn [i_h cx_h i_labels i_dfirst i_dlast i_bottoms].
    split; [|split; [eapply lstep_trans; [exact S1|eapply lstep_trans; eassumption]|auto]].
    assert (Hvl1 : v <> l1) by (intros ->; apply HvL; cbn; auto).
    assert (HlL : In l (l1 :: rest)) by (rewrite HA, in_app_iff; cbn; auto).
    assert (Hvl : v <> l) by (intros ->; contradiction).
    (* the links of v in h2 are those in h *)
    assert (Hvn : vn = None /\ p3 = None).
    { rewrite V2, V1 in Hpn4. destruct (Nat.eqb_spec v l); [contradiction|]. destruct (Nat.eqb_spec v l1); [contradiction|].
      rewrite Hv in Hpn4. inversion Hpn4. auto. }
    destruct Hvn as [-> ->].
    (* the links of l in h1 *)
    assert (Hlpn : lp = lst_of None A /\ n2 = None).
    { rewrite HA in S. pose proof (lseg_mid _ _ _ _ _ _ S) as Hm. cbn [nxt_of] in Hm.
      rewrite V1 in Hpn2. destruct (Nat.eqb_spec l l1) as [->|].
      - rewrite Hpn0 in Hm. inversion Hm; subst. inversion Hpn2; subst. auto.
      - rewrite Hm in Hpn2. inversion Hpn2. auto. }
    destruct Hlpn as [-> ->].
    constructor; cbn [i_h cx_h i_labels].
    + apply nodup_snoc; assumption.
    + rewrite El. reflexivity.
    + rewrite HA. rewrite HA in S, N. rewrite <- app_assoc. cbn [app].
      apply lseg_app. apply lseg_app in S. destruct S as [SA Sl]. cbn [lseg nxt_of] in Sl, SA. cbn [nxt_of lseg].
      assert (HlA : ~ In l A). { apply NoDup_remove_2 in N. rewrite app_nil_r in N. exact N. }
      assert (HvA : ~ In v A). { intros Hin. apply HvL. rewrite HA, in_app_iff. auto. }
      split; [|split; [|split; [|exact I]]].
      * eapply lseg_ext; [|exact SA]. intros x Hx. rewrite V3, V2, V1.
        destruct (Nat.eqb_spec x v) as [->|]; [contradiction|]. destruct (Nat.eqb_spec x l) as [->|]; [contradiction|].
        destruct (Nat.eqb_spec x l1) as [->|]; [|reflexivity]. symmetry. exact Hpn0.
      * rewrite V3, V2. destruct (Nat.eqb_spec l v); [congruence|]. rewrite Nat.eqb_refl. reflexivity.
      * rewrite V3, Nat.eqb_refl. reflexivity.
    + intros x Ex. cbn [app nxt_of] in Ex. inversion Ex; subst x. rewrite W3, W2, W1.
      destruct (Nat.eqb_spec l1 v); [congruence|]. rewrite lst_of_app. cbn [lst_of].
      destruct (Nat.eqb_spec l1 l) as [<-|].
      * rewrite W1, Nat.eqb_refl in Hl2. symmetry. exact Hl2.
      * rewrite Nat.eqb_refl. reflexivity.
  - destruct LL as [|l1 rest]; [|cbn in Hd; discriminate].
    destruct (lget (i_h c) v) as [[[[[[s im] p] nx] fs] ls]| |] eqn:E0; cbn [bind] in H; try discriminate.
    destruct (lget_lab _ _ _ _ _ _ _ _ E0) as [Hpn0 _]. rewrite Hv in Hpn0. inversion Hpn0; subst p nx.
    destruct (lset (i_h c) v None None (Some v) (Some v)) as [h1| |] eqn:E1; cbn [bind] in H; try discriminate.
    destruct (lset_view _ _ _ _ _ _ _ E1) as (S1 & _ & V1 & W1).
    inversion H; subst c'. clear H. cbn [i_h cx_h cx_labels i_labels i_dfirst i_dlast i_bottoms app].
    split; [|split; [exact S1|auto]].
    constructor; cbn [i_h cx_h cx_labels i_labels nxt_of lst_of lseg].
    + constructor; [intros []|constructor].
    + reflexivity.
    + split; [|exact I]. rewrite V1, Nat.eqb_refl. reflexivity.
    + intros x Ex. inversion Ex; subst x. rewrite W1, Nat.eqb_refl. reflexivity.
Qed.

(* ---------- removeLinkLabelState of the last and of the first label state ---------- *)
Lemma nxt_of_app_ne (L B : list nat) n n' : L <> [] -> nxt_of (L ++ B) n = nxt_of L n'.
Proof. destruct L; [congruence|reflexivity]. Qed.

Lemma remove_label_last_k c d c' LL0 : remove_label c d = Ok c' -> lchain c (LL0 ++ [d]) ->
  lchain c' LL0 /\ lstep (i_h c) (i_h c') /\
  i_dfirst c' = i_dfirst c /\ i_dlast c' = i_dlast c /\ i_bottoms c' = i_bottoms c.
Proof.
  unfold remove_label. intros H [N Hd S La].
  destruct (i_labels c) as [lst0|] eqn:El; [|destruct LL0; cbn in Hd; discriminate].
  destruct (lget (i_h c) d) as [[[[[[s im] dp] dn] df] dl]| |] eqn:E0; cbn [bind] in H; try discriminate.
  destruct (lget_lab _ _ _ _ _ _ _ _ E0) as [Hpn0 _].
  pose proof (lseg_mid _ _ _ _ _ _ S) as Hm. cbn [nxt_of] in Hm. rewrite Hm in Hpn0. inversion Hpn0; subst dp dn. clear Hpn0.
  destruct (last_error_cases LL0) as [[-> _]|(A & pp & -> & _)].
  - cbn [lst_of bind i_h cx_labels] in H.
    destruct (lset (i_h c) d None None None None) as [h3| |] eqn:E3; cbn [bind] in H; try discriminate.
    destruct (lset_view _ _ _ _ _ _ _ E3) as (S3 & _).
    inversion H; subst c'. clear H. cbn [i_h cx_h cx_labels i_labels i_dfirst i_dlast i_bottoms].
    split; [|split; [exact S3|auto]].
    constructor; cbn [i_h cx_h cx_labels i_labels nxt_of lseg]; [constructor|reflexivity|exact I|intros x Ex; discriminate].
  - rewrite lst_of_app in H. cbn [lst_of] in H.
    destruct (lget (i_h c) pp) as [[[[[[s2 im2] ppv] pn] pf] pl]| |] eqn:E1; cbn [bind] in H; try discriminate.
    destruct (lget_lab _ _ _ _ _ _ _ _ E1) as [Hpn1 _].
    destruct (lset (i_h c) pp ppv None pf pl) as [h1| |] eqn:E2; cbn [bind] in H; try discriminate.
    destruct (lset_view _ _ _ _ _ _ _ E2) as (S1 & _ & V1 & W1).
    cbn [i_h cx_h] in H.
    destruct (lget h1 lst0) as [[[[[[s3 im3] lp] ln] lf] ll]| |] eqn:E3; cbn [bind] in H; try discriminate.
    destruct (lget_lab _ _ _ _ _ _ _ _ E3) as [Hpn3 _].
    destruct (lset h1 lst0 lp ln lf (Some pp)) as [h2| |] eqn:E4; cbn [bind] in H; try discriminate.
    destruct (lset_view _ _ _ _ _ _ _ E4) as (S2 & _ & V2 & W2).
    destruct (lset h2 d None None None None) as [h3| |] eqn:E5; cbn [bind] in H; try discriminate.
    destruct (lset_view _ _ _ _ _ _ _ E5) as (S3 & _ & V3 & W3).
    inversion H; subst c'. clear H. cbn [i_h cx_h i_labels i_dfirst i_dlast i_bottoms].
    split; [|split; [eapply lstep_trans; [exact S1|eapply lstep_trans; eassumption]|auto]].
    assert (N' : NoDup (A ++ [pp])). { apply NoDup_remove_1 in N. rewrite app_nil_r in N. exact N. }
    assert (Hd' : ~ In d (A ++ [pp])). { apply NoDup_remove_2 in N. rewrite app_nil_r in N. exact N. }
    assert (Hhead : nxt_of (A ++ [pp]) None = Some lst0).
    { rewrite Hd. symmetry. apply nxt_of_app_ne. destruct A; discriminate. }
    assert (Hlst0 : In lst0 (A ++ [pp])). { apply nxt_of_in. exact Hhead. }
    assert (Hld : lst0 <> d) by (intros ->; contradiction).
    apply lseg_app in S. destruct S as [SA _]. cbn [nxt_of] in SA.
    pose proof (lseg_mid _ _ _ _ _ _ SA) as Hpp. cbn [nxt_of] in Hpp. rewrite Hpp in Hpn1. inversion Hpn1; subst ppv pn. clear Hpn1.
    apply lseg_app in SA. destruct SA as [SA _]. cbn [nxt_of] in SA.
    assert (HppA : ~ In pp A). { apply NoDup_remove_2 in N'. rewrite app_nil_r in N'. exact N'. }
    assert (Hppd : pp <> d). { intros ->. apply Hd'. rewrite in_app_iff. cbn. auto. }
    (* lst0 keeps its links *)
    assert (Hl0 : lpn h2 lst0 = lpn h1 lst0). { rewrite V2, Nat.eqb_refl. symmetry. exact Hpn3. }
    constructor; cbn [i_h cx_h i_labels].
    + exact N'.
    + rewrite El. symmetry. exact Hhead.
    + apply lseg_app. cbn [nxt_of lseg]. split; [|split; [|exact I]].
      * eapply lseg_ext; [|exact SA]. intros x Hx. rewrite V3.
        destruct (Nat.eqb_spec x d) as [->|]; [exfalso; apply Hd'; rewrite in_app_iff; auto|].
        assert (Hx2 : lpn h2 x = lpn h1 x).
        { destruct (Nat.eq_dec x lst0) as [->|Hne]; [exact Hl0|]. rewrite V2. destruct (Nat.eqb_spec x lst0); [contradiction|reflexivity]. }
        rewrite Hx2, V1. destruct (Nat.eqb_spec x pp) as [->|]; [contradiction|reflexivity].
      * rewrite V3. destruct (Nat.eqb_spec pp d); [contradiction|].
        assert (Hx2 : lpn h2 pp = lpn h1 pp).
        { destruct (Nat.eq_dec pp lst0) as [->|Hne]; [exact Hl0|]. rewrite V2. destruct (Nat.eqb_spec pp lst0); [contradiction|reflexivity]. }
        rewrite Hx2, V1, Nat.eqb_refl. reflexivity.
    + intros x Ex. rewrite Hhead in Ex. inversion Ex; subst x. rewrite W3. destruct (Nat.eqb_spec lst0 d); [contradiction|].
      rewrite W2, Nat.eqb_refl, lst_of_app. reflexivity.
Qed.

Lemma remove_label_head_k c d c' LL' : remove_label c d = Ok c' -> lchain c (d :: LL') ->
  lchain c' LL' /\ lstep (i_h c) (i_h c') /\
  i_dfirst c' = i_dfirst c /\ i_dlast c' = i_dlast c /\ i_bottoms c' = i_bottoms c.
Proof.
  unfold remove_label. intros H [N Hd S La].
  destruct (i_labels c) as [lst0|] eqn:El; [|cbn in Hd; discriminate].
  destruct (lget (i_h c) d) as [[[[[[s im] dp] dn] df] dl]| |] eqn:E0; cbn [bind] in H; try discriminate.
  destruct (lget_lab _ _ _ _ _ _ _ _ E0) as [Hpn0 Hl0].
  cbn [lseg] in S. destruct S as [Hm S']. rewrite Hm in Hpn0. inversion Hpn0; subst dp dn. clear Hpn0.
  rewrite (La d eq_refl) in Hl0. inversion Hl0; subst dl. clear Hl0.
  destruct LL' as [|nl LL''].
  - cbn [nxt_of bind i_h cx_labels] in H.
    destruct (lset (i_h c) d None None None None) as [h3| |] eqn:E3; cbn [bind] in H; try discriminate.
    destruct (lset_view _ _ _ _ _ _ _ E3) as (S3 & _).
    inversion H; subst c'. clear H. cbn [i_h cx_h cx_labels i_labels i_dfirst i_dlast i_bottoms].
    split; [|split; [exact S3|auto]].
    constructor; cbn [i_h cx_h cx_labels i_labels nxt_of lseg]; [constructor|reflexivity|exact I|intros x Ex; discriminate].
  - cbn [nxt_of] in H.
    destruct (lget (i_h c) nl) as [[[[[[s2 im2] np] nn] nf] nl2]| |] eqn:E1; cbn [bind] in H; try discriminate.
    destruct (lget_lab _ _ _ _ _ _ _ _ E1) as [Hpn1 _].
    destruct (lset (i_h c) nl None nn (Some d) _) as [h1| |] eqn:E2; cbn [bind] in H; try discriminate.
    destruct (lset_view _ _ _ _ _ _ _ E2) as (S1 & _ & V1 & W1).
    cbn [i_h cx_h cx_labels] in H.
    destruct (lset h1 d None None None None) as [h3| |] eqn:E5; cbn [bind] in H; try discriminate.
    destruct (lset_view _ _ _ _ _ _ _ E5) as (S3 & _ & V3 & W3).
    inversion H; subst c'. clear H. cbn [i_h cx_h cx_labels i_labels i_dfirst i_dlast i_bottoms].
    split; [|split; [eapply lstep_trans; eassumption|auto]].
    inversion N as [|? ? HdL N']; subst.
    assert (Hnd : nl <> d) by (intros ->; apply HdL; cbn; auto).
    cbn [lseg] in S'. destruct S' as [Hnl S''].
    rewrite Hnl in Hpn1. inversion Hpn1; subst np nn. clear Hpn1.
    inversion N' as [|? ? HnL _]; subst.
    constructor; cbn [i_h cx_h cx_labels i_labels nxt_of].
    + exact N'.
    + reflexivity.
    + cbn [lseg]. split.
      * rewrite V3. destruct (Nat.eqb_spec nl d); [contradiction|]. rewrite V1, Nat.eqb_refl. reflexivity.
      * eapply lseg_ext; [|exact S'']. intros x Hx. rewrite V3, V1.
        destruct (Nat.eqb_spec x d) as [->|]; [exfalso; apply HdL; cbn; auto|].
        destruct (Nat.eqb_spec x nl) as [->|]; [contradiction|reflexivity].
    + intros x Ex. inversion Ex; subst x. rewrite W3. destruct (Nat.eqb_spec nl d); [contradiction|].
      rewrite W1, Nat.eqb_refl. reflexivity.
Qed.

(* steps that do not touch the label state nodes keep the list *)
Lemma lchain_frame c c' LL : lchain c LL -> i_labels c' = i_labels c ->
  (forall x, In x LL -> kd (i_h c') x = kd (i_h c) x) -> lchain c' LL.
Proof.
  intros [N Hd S La] Hl Hk. constructor.
  - exact N.
  - congruence.
  - eapply lseg_ext; [|exact S]. intros d Hin. unfold lpn. rewrite (Hk d Hin). reflexivity.
  - intros x Ex. unfold llast. rewrite Hk; [apply La; exact Ex|]. apply nxt_of_in. exact Ex.
Qed.

Lemma lchain_islab c LL x : lchain c LL -> In x LL -> islab (i_h c) x = true.
Proof.
  intros [_ _ S _] Hin. pose proof (lseg_in _ _ _ _ x S Hin) as Hx. unfold lpn in Hx. unfold islab, kcls.
  destruct (kd (i_h c) x) as [k|]; [|congruence]. destruct k; try congruence. reflexivity.
Qed.

Lemma lchain_gstep c c' LL : lchain c LL -> i_labels c' = i_labels c -> gstep (i_h c) (i_h c') -> lchain c' LL.
Proof.
  intros Hc Hl G. eapply lchain_frame; [exact Hc|exact Hl|]. intros x Hx. apply (g_lab _ _ G). eapply lchain_islab; eassumption.
Qed.
