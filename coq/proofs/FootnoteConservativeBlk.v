(* C11 for the footnote parser model, block phase: on a source without "[^" the generalised copy
   of the block driver with the footnote block parser (model/FootnoteParseBlock.v) is the driver
   of the default parser (model/BlockParse.v), lifted through the state with no FootnoteList:
   the footnote block parser declines at every call (the line it looks at has no "[^"), no node
   of the heap is a Footnote node, so Continue and Close are those of the default parsers. *)
Require Import GM.model.Base GM.model.Util GM.model.Reader GM.model.Blocks GM.model.ListItem
               GM.model.LeafBlocks GM.model.CodeBlock GM.model.LinkDest GM.model.Regex
               GM.model.BlockParse GM.model.FootnoteParseBlock.
Require Import GM.proofs.FootnoteConservativeDefs GM.proofs.FootnoteConservativeRd GM.proofs.FootnoteConservativeSt
               GM.proofs.FootnoteConservativeParsers.
From Coq Require Import List ZArith NArith Bool Lia ZifyBool.
Import ListNotations.
Open Scope Z_scope.

Definition L (s : st) : stf := {| bf_s := s; bf_list := None |}.

Section Blk.
Variable src : bytes.
Hypothesis Hsrc : nfm src = true.
Variable space_table punct_table : list N.
Variable norm : bytes -> bytes.
Variable re_t1o re_t1c re_t2 re_t3 re_t4 re_t5 re_t6 re_t7 : re.
Variable allowed_tags : list bytes.
Notation FI := (FI src).
Notation ext := (ext src).
Notation p_open := (p_open space_table re_t1o re_t2 re_t3 re_t4 re_t5 re_t6 re_t7 allowed_tags).
Notation p_continue := (p_continue space_table re_t1c).
Notation p_close := (p_close space_table).
Notation p_openF := (p_openF space_table punct_table re_t1o re_t2 re_t3 re_t4 re_t5 re_t6 re_t7 allowed_tags).
Notation p_continueF := (p_continueF space_table re_t1c).
Notation p_closeF := (p_closeF space_table).
Notation TP := (transform_paragraph space_table punct_table norm).
Notation TPF := (transform_paragraphF space_table punct_table norm).
Notation CR := (close_range space_table punct_table norm).
Notation CRF := (close_rangeF space_table punct_table norm).
Notation CB := (close_blocks space_table punct_table norm).
Notation CBF := (close_blocksF space_table punct_table norm).
Notation TRY := (try_parsers space_table punct_table norm re_t1o re_t2 re_t3 re_t4 re_t5 re_t6 re_t7 allowed_tags).
Notation TRYF := (try_parsersF space_table punct_table norm re_t1o re_t2 re_t3 re_t4 re_t5 re_t6 re_t7 allowed_tags).
Notation OBL := (open_blocks_loop space_table punct_table norm re_t1o re_t2 re_t3 re_t4 re_t5 re_t6 re_t7 allowed_tags).
Notation OBLF := (open_blocks_loopF space_table punct_table norm re_t1o re_t2 re_t3 re_t4 re_t5 re_t6 re_t7 allowed_tags).
Notation OB := (open_blocks space_table punct_table norm re_t1o re_t1c re_t2 re_t3 re_t4 re_t5 re_t6 re_t7 allowed_tags).
Notation OBF := (open_blocksF space_table punct_table norm re_t1o re_t1c re_t2 re_t3 re_t4 re_t5 re_t6 re_t7 allowed_tags).
Notation EO := (each_opened space_table punct_table norm re_t1o re_t1c re_t2 re_t3 re_t4 re_t5 re_t6 re_t7 allowed_tags).
Notation EOF_ := (each_openedF space_table punct_table norm re_t1o re_t1c re_t2 re_t3 re_t4 re_t5 re_t6 re_t7 allowed_tags).
Notation LL := (lines_loop space_table punct_table norm re_t1o re_t1c re_t2 re_t3 re_t4 re_t5 re_t6 re_t7 allowed_tags).
Notation LLF := (lines_loopF space_table punct_table norm re_t1o re_t1c re_t2 re_t3 re_t4 re_t5 re_t6 re_t7 allowed_tags).
Notation PBL := (parse_blocks_loop space_table punct_table norm re_t1o re_t1c re_t2 re_t3 re_t4 re_t5 re_t6 re_t7 allowed_tags).
Notation PBLF := (parse_blocks_loopF space_table punct_table norm re_t1o re_t1c re_t2 re_t3 re_t4 re_t5 re_t6 re_t7 allowed_tags).

(* goals of the shape  X = C /\ (forall r, C = Ok r -> Q r)  where X and C start with the same bind *)
Ltac fin := split; [reflexivity|intros ? HH; discriminate HH].
Ltac bstep x E :=
  match goal with
  | |- (bind ?e _ = _) /\ _ => destruct e as [x| |] eqn:E; cbn [bind]; [|fin|fin]
  end.

Lemma hget_some h i : (i < length h)%nat -> exists n, hget h i = Ok n.
Proof.
  intros H. unfold hget. destruct (nth_error h i) as [n|] eqn:E; [eexists; reflexivity|].
  apply nth_error_None in E. lia.
Qed.

Lemma is_footnote_plain h i : plain h -> (i < length h)%nat -> is_footnote h i = Ok false.
Proof.
  intros Hp Hi. unfold is_footnote. destruct (hget_some h i Hi) as [n En]. rewrite En. cbn [bind].
  rewrite (proj1 (plain_not_footnote n (hget_plain _ _ _ En Hp))). reflexivity.
Qed.

Lemma attached_lt h i b : attached h i = Ok b -> (i < length h)%nat.
Proof. unfold attached. intros H. fc_bind H n En. eapply hget_lt. exact En. Qed.
Lemma is_paragraph_lt h i b : is_paragraph h i = Ok b -> (i < length h)%nat.
Proof. unfold is_paragraph. intros H. fc_bind H n En. eapply hget_lt. exact En. Qed.

Lemma p_closeF_core tag s node : FI s -> (node < length (s_h s))%nat ->
  p_closeF tag (L s) node = (s' <- p_close tag s node ;; Ok (L s')).
Proof.
  intros (Hp & _) Hn. unfold FootnoteParseBlock.p_closeF. cbn [bf_s L].
  rewrite (is_footnote_plain _ _ Hp Hn). cbn [bind]. reflexivity.
Qed.

Lemma p_continueF_core tag s node : FI s -> (node < length (s_h s))%nat ->
  p_continueF tag (L s) node = (y <- p_continue tag s node ;; Ok (L (fst (fst y)), snd (fst y), snd y)).
Proof.
  intros (Hp & _) Hn. unfold FootnoteParseBlock.p_continueF. cbn [bf_s L].
  rewrite (is_footnote_plain _ _ Hp Hn). cbn [bind].
  destruct (p_continue tag s node) as [[[s1 c] k]| |]; reflexivity.
Qed.

Lemma TPF_core s node : TPF (L s) node = (y <- TP s node ;; Ok (L (fst y), snd y)).
Proof. reflexivity. Qed.

Lemma close_rangeF_core : forall cnt s blocks i, FI s ->
  CRF (L s) blocks cnt i = (s' <- CR s blocks cnt i ;; Ok (L s')) /\
  (forall s', CR s blocks cnt i = Ok s' -> FI s').
Proof.
  induction cnt as [|k IH]; intros s blocks i HF; cbn [close_rangeF close_range].
  - split; [reflexivity|]. intros s' E. injection E as <-. exact HF.
  - destruct ((i <? 0) || (zlen blocks <=? i)); [fin|].
    destruct (nth_error blocks (Z.to_nat i)) as [[node p]|]; [|fin].
    cbn [bf_s L]. bstep isp Eisp. bstep att Eatt. pose proof (attached_lt _ _ _ Eatt) as Hlt.
    set (XF := (if isp && att then _ else _) : result stf).
    set (XC := (if isp && att then _ else _) : result st).
    assert (HX : XF = (s1 <- XC ;; Ok (L s1)) /\ (forall s1, XC = Ok s1 -> FI s1 /\ (node < length (s_h s1))%nat)).
    { subst XF XC. destruct (isp && att).
      - rewrite TPF_core. destruct (TP s node) as [[s1 g]| |] eqn:Et; cbn [bind fst]; [|fin|fin].
        split; [reflexivity|]. intros s2 E. injection E as <-. apply (transform_paragraph_ext src) in Et.
        split; [eapply ext_FI; eassumption|]. pose proof (ext_len _ _ _ Et). lia.
      - split; [reflexivity|]. intros s1 E. injection E as <-. split; assumption. }
    destruct HX as [HX1 HX2]. rewrite HX1. clear HX1 XF.
    destruct XC as [s1| |]; cbn [bind]; [|fin|fin]. destruct (HX2 s1 eq_refl) as [HF1 Hlt1]. cbn [bf_s L].
    bstep att2 Eatt2. destruct att2.
    + rewrite (p_closeF_core p s1 node HF1 Hlt1).
      destruct (p_close p s1 node) as [s2| |] eqn:Ec; cbn [bind]; [|fin|fin].
      apply IH. eapply ext_FI; [|exact HF1]. eapply (p_close_ext src); exact Ec.
    + cbn [bind]. apply IH. exact HF1.
Qed.

(* Forall over the pieces of the opened-blocks array *)
Lemma Forall_firstn {A} (P : A -> Prop) n l : Forall P l -> Forall P (firstn n l).
Proof. intros H. rewrite <- (firstn_skipn n l) in H. apply Forall_app in H. apply H. Qed.
Lemma Forall_skipn {A} (P : A -> Prop) n l : Forall P l -> Forall P (skipn n l).
Proof. intros H. rewrite <- (firstn_skipn n l) in H. apply Forall_app in H. apply H. Qed.

Lemma FI_set_c s c : FI s -> arr_ok (s_h s) c -> FI (st_c s c).
Proof. intros (H1 & H2 & _) H3. split; [exact H1|]. split; [exact H2|exact H3]. Qed.

Lemma close_blocksF_core s from to : FI s ->
  CBF (L s) from to = (s' <- CB s from to ;; Ok (L s')) /\ (forall s', CB s from to = Ok s' -> FI s').
Proof.
  intros HF. unfold close_blocksF, close_blocks. cbn [bf_s L].
  destruct (close_rangeF_core (Z.to_nat (from - to + 1)) s (opened (s_c s)) from HF) as [Heq Hinv]. rewrite Heq. clear Heq.
  destruct (CR s (opened (s_c s)) (Z.to_nat (from - to + 1)) from) as [s1| |]; cbn [bind]; [|fin|fin].
  specialize (Hinv s1 eq_refl). cbn [bf_s L]. pose proof Hinv as (_ & _ & Ha). unfold arr_ok in Ha.
  destruct (from =? Z.of_nat (c_len (s_c s1)) - 1).
  - destruct ((to <? 0) || (Z.of_nat (c_len (s_c s1)) <? to)); [fin|].
    split; [reflexivity|]. intros s' E. injection E as <-. apply FI_set_c; [exact Hinv|exact Ha].
  - destruct ((to <? 0) || (from + 1 <? to) || (Z.of_nat (c_len (s_c s1)) <? from + 1)); [fin|].
    split; [reflexivity|]. intros s' E. injection E as <-. apply FI_set_c; [exact Hinv|].
    unfold arr_ok. cbn [c_arr cset_open]. unfold zfirst, zskip. apply Forall_app. split; [apply Forall_firstn, Ha|].
    apply Forall_app. split; [apply Forall_skipn, Forall_firstn, Ha|apply Forall_skipn, Ha].
Qed.

Definition lift_try (t : try_res) : try_resF :=
  match t with
  | TRetry parent cont res s => TRetryF parent cont res (L s)
  | TDone res s => TDoneF res (L s)
  end.
Definition try_state (t : try_res) : st := match t with TRetry _ _ _ s => s | TDone _ s => s end.

Lemma last_opened_in c e : last_opened c = Some e -> In e (c_arr c).
Proof. unfold last_opened. destruct (c_len c) as [|k]; [discriminate|]. apply nth_error_In. Qed.
Lemma last_opened_lt s e : FI s -> last_opened (s_c s) = Some e -> (fst e < length (s_h s))%nat.
Proof.
  intros (_ & _ & Ha) E. apply last_opened_in in E. unfold arr_ok in Ha. rewrite Forall_forall in Ha. apply Ha, E.
Qed.
Lemma append_child_lt h p c h' : append_child h p c = Ok h' -> (c < length h')%nat.
Proof.
  unfold append_child. intros H. fc_bind H h1 E1. pose proof (hupd_lt _ _ _ _ E1) as Hc.
  destruct (hupd_hstep _ _ _ _ E1 (keeps_set_par _)) as [_ L1].
  assert (K : keeps (fun n => set_ch n (bch n ++ [c]))) by keeps_tac.
  destruct (hupd_hstep _ _ _ _ H K) as [_ L2]. lia.
Qed.

Lemma FI_st_h s h : FI s -> hstep (s_h s) h -> FI (st_h s h).
Proof. intros HF Hs. eapply (ext_FI src); [|exact HF]. apply ext_st_h. exact Hs. Qed.

Lemma try_parsersF_core : forall bps parent blank cont res w s, FI s ->
  TRYF (map FCore bps) parent blank cont res w (L s) = (t <- TRY bps parent blank cont res w s ;; Ok (lift_try t)) /\
  (forall t, TRY bps parent blank cont res w s = Ok t -> FI (try_state t)).
Proof.
  induction bps as [|bp rest IH]; intros parent blank cont res w s HF; cbn [map try_parsersF try_parsers].
  - split; [reflexivity|]. intros t E. injection E as <-. exact HF.
  - cbn [can_interrupt_paragraphF can_accept_indentedF].
    destruct (cont && (res =? noBlocksOpened) && negb (can_interrupt_paragraph bp)); [apply IH; exact HF|].
    destruct ((3 <? w) && negb (can_accept_indented bp)); [apply IH; exact HF|].
    cbn [FootnoteParseBlock.p_openF bf_s L]. unfold liftF.
    destruct (p_open bp s parent) as [[s1 o]| |] eqn:Eo; cbn [bind fst snd]; [|fin|fin].
    pose proof (p_open_ext src Hsrc _ _ _ _ _ _ _ _ _ _ _ _ _ _ Eo) as Hx1.
    pose proof (ext_FI src _ _ Hx1 HF) as HF1. pose proof (ext_len src _ _ Hx1) as Hl1.
    change (stf_s (L s) s1) with (L s1).
    destruct o as [[[node hc] rp]|]; [|apply IH; exact HF1].
    cbn [bf_s L].
    set (RX := (if rp then _ else _) : result (stf + stf)).
    set (R := (if rp then _ else _) : result (st + st)).
    assert (HR : RX = (r <- R ;; Ok (match r with inl a => inl (L a) | inr a => inr (L a) end)) /\
                 (forall r, R = Ok r -> FI (match r with inl a => a | inr a => a end))).
    { subst RX R. destruct rp; [|split; [reflexivity|intros r E; injection E as <-; exact HF1]].
      destruct (last_opened (s_c s)) as [[last lp]|] eqn:Elast; [|split; [reflexivity|intros r E; injection E as <-; exact HF1]].
      pose proof (last_opened_lt s _ HF Elast) as Hlast. cbn [fst] in Hlast.
      bstep pn Epn. destruct (opt_nat_eqb (Some last) (last_id (bch pn))); [|split; [reflexivity|intros r E; injection E as <-; exact HF1]].
      rewrite (p_closeF_core lp s1 last HF1 ltac:(lia)).
      destruct (p_close lp s1 last) as [s2| |] eqn:Ec; cbn [bind]; [|fin|fin].
      pose proof (ext_FI src _ _ (p_close_ext src _ _ _ _ _ Ec) HF1) as HF2. cbn [bf_s L].
      destruct (Nat.eqb (c_len (s_c s2)) 0); [fin|].
      set (s3 := st_c s2 (cset_open (s_c s2) (c_arr (s_c s2)) (pred (c_len (s_c s2))))).
      change (stf_s (L s2) s3) with (L s3). rewrite TPF_core.
      assert (HF3 : FI s3) by (apply FI_set_c; [exact HF2|exact (proj2 (proj2 HF2))]).
      destruct (TP s3 last) as [[s4 gone]| |] eqn:Et; cbn [bind fst snd]; [|fin|fin].
      pose proof (ext_FI src _ _ (transform_paragraph_ext src _ _ _ _ _ _ _ Et) HF3) as HF4.
      destruct gone; (split; [reflexivity|intros r E; injection E as <-; exact HF4]). }
    destruct HR as [HR1 HR2]. rewrite HR1. clear HR1 RX.
    destruct R as [[sA|sA]| |]; cbn [bind]; [| |fin|fin]; specialize (HR2 _ eq_refl).
    2:{ split; [reflexivity|]. intros t E. injection E as <-. exact HR2. }
    cbn [bf_s L]. bstep h Eh.
    assert (Kb : keeps (fun n => set_blank n blank)) by apply keeps_set_blank.
    pose proof (FI_st_h sA h HR2 (hupd_hstep _ _ _ _ Eh Kb)) as HFh.
    change (stf_s (L sA) (st_h sA h)) with (L (st_h sA h)).
    set (YF := match last_opened (s_c s) with Some _ => _ | None => _ end : result stf).
    set (Y := match last_opened (s_c s) with Some _ => _ | None => _ end : result st).
    assert (HY : YF = (y <- Y ;; Ok (L y)) /\ (forall y, Y = Ok y -> FI y)).
    { subst YF Y. destruct (last_opened (s_c s)) as [[last lp]|]; [|split; [reflexivity|intros y E; injection E as <-; exact HFh]].
      cbn [bf_s L]. bstep att Eatt. destruct (negb att); [|split; [reflexivity|intros y E; injection E as <-; exact HFh]].
      apply close_blocksF_core. exact HFh. }
    destruct HY as [HY1 HY2]. rewrite HY1. clear HY1 YF.
    destruct Y as [sB| |]; cbn [bind]; [|fin|fin]. specialize (HY2 _ eq_refl). cbn [bf_s L].
    bstep h2 Eh2. cbn [tag_of].
    assert (HFf : FI (st_c (st_h sB h2) (push_opened (s_c sB) (node, bp)))).
    { pose proof (append_child_hstep _ _ _ _ Eh2) as Hs2. pose proof (append_child_lt _ _ _ _ Eh2) as Hn2.
      apply FI_set_c; [apply FI_st_h; assumption|]. cbn [s_h st_h].
      destruct HY2 as (_ & _ & Ha). pose proof (arr_ok_mono _ h2 _ Ha (proj2 Hs2)) as Ha2. unfold arr_ok in *.
      unfold push_opened. cbn [c_arr cset_open]. apply Forall_app. split; [apply Forall_firstn, Ha2|].
      apply Forall_app. split; [constructor; [exact Hn2|constructor]|apply Forall_skipn, Ha2]. }
    destruct hc; (split; [reflexivity|intros t E; injection E as <-; exact HFf]).
Qed.

(* ---- the footnote block parser declines ---- *)
Lemma peek_again r r0 line sg r1 off : r_peek_line r = Ok (r0, line, sg) -> r_line_offset r0 = Ok (r1, off) ->
  r_peek_line r1 = Ok (r1, line, sg).
Proof.
  unfold r_peek_line. intros Hp Ho.
  assert (X : r_in_range r0 = r_in_range r /\ r_pos r0 = r_pos r /\ sg = r_pos r /\
              (r_in_range r = true -> exists v, line = Some v /\ r_peeked r0 = Some v) /\
              (r_in_range r = false -> line = None)).
  { destruct (r_in_range r) eqn:Ein.
    - destruct (r_peeked r) as [v|] eqn:Ec.
      + injection Hp as <- <- <-. repeat split; auto. intros _. exists v. auto. discriminate.
      + fc_bind Hp v Ev. injection Hp as <- <- <-. repeat split; auto. intros _. exists v. auto. discriminate.
    - injection Hp as <- <- <-. repeat split; auto. discriminate. }
  destruct X as (X1 & X2 & X3 & X4 & X5).
  assert (Y : r_in_range r1 = r_in_range r0 /\ r_pos r1 = r_pos r0 /\ r_peeked r1 = r_peeked r0).
  { unfold r_line_offset in Ho. destruct (r_loff r0 <? 0).
    - destruct (r_head r0 <? s_start (r_pos r0)).
      + fc_bind Ho v Ev. injection Ho as <- <-. repeat split.
      + injection Ho as <- <-. repeat split.
    - injection Ho as <- <-. repeat split. }
  destruct Y as (Y1 & Y2 & Y3). rewrite Y1, X1, Y2, X2, Y3, <- X3.
  destruct (r_in_range r).
  - destruct (X4 eq_refl) as [v [-> Ev]]. rewrite Ev. reflexivity.
  - rewrite (X5 eq_refl). reflexivity.
Qed.

Lemma at_some (l : bytes) i : 0 <= i < zlen l -> exists c, at_ l i = Ok c.
Proof.
  intros H. unfold at_. destruct (Z.leb_spec 0 i); [|lia]. destruct (Z.ltb_spec i (zlen l)); [|lia].
  eexists. reflexivity.
Qed.

Lemma footnote_open_none s line sg : peek_line_s s = Ok (s, line, sg) -> nfm (line_of line) = true ->
  c_boff (s_c s) < zlen (line_of line) -> footnote_open space_table punct_table s = Ok (s, None).
Proof.
  intros Hp Hn Hb. unfold footnote_open. rewrite Hp. cbn [bind]. set (l := line_of line) in *. set (pos := c_boff (s_c s)) in *.
  destruct (Z.ltb_spec pos 0) as [Hneg|Hpos]; [reflexivity|].
  destruct (at_some l pos ltac:(lia)) as [c Ec]. rewrite Ec. cbn [bind]. destruct (N.eqb_spec c 91) as [->|Hc]; [|reflexivity]. cbn [negb].
  destruct (Z.ltb_spec (zlen l - 1) (pos + 1)) as [Hend|Hin]; [reflexivity|].
  destruct (at_some l (pos + 1) ltac:(lia)) as [c2 Ec2]. rewrite Ec2. cbn [bind]. destruct (N.eqb_spec c2 94) as [->|Hc2]; [|reflexivity].
  exfalso. exact (nfm_at l pos Hn Ec Ec2).
Qed.

Lemma candidates_91 : candidates 91 = free_parsers.
Proof. reflexivity. Qed.

Lemma FI_ext s s' : ext s s' -> FI s -> FI s'.
Proof. apply ext_FI. Qed.

Lemma open_blocks_loopF_core : forall fuel parent blank cont res s, FI s ->
  OBLF fuel parent blank cont res (L s) =
  (y <- OBL fuel parent blank cont res s ;; Ok (fst (fst y), snd (fst y), L (snd y))) /\
  (forall y, OBL fuel parent blank cont res s = Ok y -> FI (snd y)).
Proof.
  induction fuel as [|f IH]; intros parent blank cont res s HF; cbn [open_blocks_loopF open_blocks_loop]; [fin|].
  cbn [bf_s L].
  destruct (peek_line_s s) as [[[s0 line] sg]| |] eqn:Ep; cbn [bind]; [|fin|fin].
  destruct (line_offset_s s0) as [[s1 off]| |] eqn:Eo; cbn [bind]; [|fin|fin].
  destruct (Blocks.indent_width (line_of line) off) as [w pos] eqn:Eiw.
  set (l := line_of line) in *.
  set (s2 := st_c s1 (if zlen l <=? w then cset_off (s_c s1) (-1) (-1) else cset_off (s_c s1) pos w)).
  change (stf_s (L s) s2) with (L s2).
  pose proof (FI_ext _ _ (peek_line_s_ext src Hsrc _ _ _ _ Ep) HF) as HF0.
  pose proof (FI_ext _ _ (line_offset_s_ext src _ _ _ Eo) HF0) as HF1.
  assert (HF2 : FI s2).
  { apply FI_set_c; [exact HF1|]. destruct HF1 as (_ & _ & Ha). destruct (zlen l <=? w); exact Ha. }
  match goal with |- (if ?b then _ else _) = _ /\ _ => destruct b end.
  { split; [reflexivity|]. intros y E. injection E as <-. exact HF2. }
  (* the parser table *)
  set (bpsF := if pos <? zlen l then candidatesF (nth_byte l pos) else free_parsersF).
  set (bps := if pos <? zlen l then candidates (nth_byte l pos) else free_parsers).
  assert (HT : TRYF bpsF parent blank cont res w (L s2) = (t <- TRY bps parent blank cont res w s2 ;; Ok (lift_try t)) /\
               (forall t, TRY bps parent blank cont res w s2 = Ok t -> FI (try_state t))).
  { subst bpsF bps. destruct (Z.ltb_spec pos (zlen l)) as [Hlt|Hge]; [|apply try_parsersF_core; exact HF2].
    unfold candidatesF. destruct (N.eqb_spec (nth_byte l pos) 91) as [E91|_]; [|apply try_parsersF_core; exact HF2].
    rewrite E91, candidates_91.
    destruct (try_parsersF_core free_parsers parent blank cont res w s2 HF2) as [Heq Hinv].
    split; [|exact Hinv]. rewrite <- Heq. unfold free_parsersF.
    cbn [try_parsersF can_interrupt_paragraphF can_accept_indentedF negb]. rewrite !andb_false_r.
    destruct (3 <? w); cbn [andb]; [reflexivity|].
    cbn [FootnoteParseBlock.p_openF bf_s L].
    assert (Hfo : footnote_open space_table punct_table s2 = Ok (s2, None)).
    { apply (footnote_open_none s2 line sg).
      - unfold peek_line_s in *. fc_bind Ep x Ex. destruct x as [[r0 l0] sg0]. injection Ep as <- <- <-.
        unfold line_offset_s in Eo. fc_bind Eo y Ey. destruct y as [r1 o1]. injection Eo as <- <-.
        cbn [s_r st_r st_c s2]. rewrite (peek_again _ _ _ _ _ _ Ex Ey). cbn [bind]. reflexivity.
      - eapply (peek_line_s_nfm src Hsrc); [exact Ep|exact (proj1 (proj2 HF))].
      - fold l. subst s2. cbn [s_c st_c]. destruct (Z.leb_spec (zlen l) w); cbn [c_boff cset_off]; unfold zlen in *; lia. }
    unfold liftF. rewrite Hfo. cbn [bind fst snd]. reflexivity. }
  destruct HT as [HT1 HT2]. rewrite HT1. clear HT1 bpsF.
  destruct (TRY bps parent blank cont res w s2) as [t| |]; cbn [bind]; [|fin|fin].
  specialize (HT2 t eq_refl). destruct t as [p2 c2 r2 s3|r2 s3]; cbn [lift_try try_state] in *.
  - apply IH. exact HT2.
  - split; [reflexivity|]. intros y E. injection E as <-. exact HT2.
Qed.

Lemma open_blocksF_core fuel parent blank s : FI s ->
  OBF fuel parent blank (L s) = (y <- OB fuel parent blank s ;; Ok (fst y, L (snd y))) /\
  (forall y, OB fuel parent blank s = Ok y -> FI (snd y)).
Proof.
  intros HF. unfold open_blocksF, open_blocks. cbn [bf_s L].
  match goal with |- (cont <- ?e ;; _) = _ /\ _ => destruct e as [cont| |] end; cbn [bind]; [|fin|fin].
  destruct (open_blocks_loopF_core fuel parent blank cont noBlocksOpened s HF) as [Heq Hinv]. rewrite Heq. clear Heq.
  destruct (OBL fuel parent blank cont noBlocksOpened s) as [[[res c2] s2]| |]; cbn [bind fst snd]; [|fin|fin].
  specialize (Hinv _ eq_refl). cbn [snd] in Hinv. cbn [bf_s L].
  destruct ((res =? noBlocksOpened) && c2); [|split; [reflexivity|intros y E; injection E as <-; exact Hinv]].
  destruct (last_opened (s_c s2)) as [[l lp]|] eqn:El; [|fin].
  pose proof (last_opened_lt s2 _ Hinv El) as Hl. cbn [fst] in Hl.
  rewrite (p_continueF_core lp s2 l Hinv Hl).
  destruct (p_continue lp s2 l) as [[[s3 c3] k3]| |] eqn:Ec; cbn [bind fst snd]; [|fin|fin].
  split; [reflexivity|]. intros y E. injection E as <-. cbn [snd].
  eapply FI_ext; [|exact Hinv]. eapply (p_continue_ext src Hsrc). exact Ec.
Qed.

Definition lift_sum (r : st + st) : stf + stf := match r with inl s => inl (L s) | inr s => inr (L s) end.
Definition sum_state (r : st + st) : st := match r with inl s => s | inr s => s end.

Lemma FI_advance_line s : FI s -> FI (advance_line_s s).
Proof.
  intros HF. eapply FI_ext; [|exact HF]. unfold advance_line_s. apply ext_st_r. apply RB_advance_line.
Qed.

Lemma each_openedF_core : forall fuel captured root i last_index stats s, FI s ->
  EOF_ fuel captured root i last_index stats (L s) =
  (y <- EO fuel captured root i last_index stats s ;; Ok (lift_sum (fst y), snd y)) /\
  (forall y, EO fuel captured root i last_index stats s = Ok y -> FI (sum_state (fst y))).
Proof.
  induction fuel as [|f IH]; intros captured root i last_index stats s HF; cbn [each_openedF each_opened]; [fin|].
  destruct (last_index <? i); [split; [reflexivity|intros y E; injection E as <-; exact HF]|].
  destruct (nth_error captured (Z.to_nat i)) as [[node bp]|]; [|fin].
  cbn [bf_s L].
  destruct (peek_line_s s) as [[[s0 line] sg]| |] eqn:Ep; cbn [bind]; [|fin|fin].
  pose proof (FI_ext _ _ (peek_line_s_ext src Hsrc _ _ _ _ Ep) HF) as HF0.
  change (stf_s (L s) s0) with (L s0).
  destruct line as [line|].
  2:{ destruct (close_blocksF_core s0 last_index 0 HF0) as [Heq Hinv]. rewrite Heq. clear Heq.
      destruct (CB s0 last_index 0) as [s1| |]; cbn [bind]; [|fin|fin].
      split; [reflexivity|]. intros y E. injection E as <-. cbn [fst sum_state].
      apply FI_advance_line. apply Hinv. reflexivity. }
  cbn [bf_s L]. bstep isp Eisp. pose proof (is_paragraph_lt _ _ _ Eisp) as Hnode.
  set (CF := (if negb isp then _ else _) : result (stf * bool * bool)).
  set (C := (if negb isp then _ else _) : result (st * bool * bool)).
  assert (HC : CF = (c <- C ;; Ok (L (fst (fst c)), snd (fst c), snd c)) /\ (forall c, C = Ok c -> FI (fst (fst c)))).
  { subst CF C. destruct (negb isp); [|split; [reflexivity|intros c E; injection E as <-; exact HF0]].
    rewrite (p_continueF_core bp s0 node HF0 Hnode).
    destruct (p_continue bp s0 node) as [[[s1 c1] k1]| |] eqn:Ec; cbn [bind fst snd]; [|fin|fin].
    split; [reflexivity|]. intros c E. injection E as <-. cbn [fst].
    eapply FI_ext; [|exact HF0]. eapply (p_continue_ext src Hsrc). exact Ec. }
  destruct HC as [HC1 HC2]. rewrite HC1. clear HC1 CF.
  destruct C as [[[s1 cont] kids]| |]; cbn [bind fst snd]; [|fin|fin]. specialize (HC2 _ eq_refl). cbn [fst] in HC2.
  destruct cont.
  - destruct (kids && (i =? last_index)).
    + destruct (open_blocksF_core (2 * length line + 8) node (is_blank_line (rline s0 - 1) i ((rline s0, i, Reader.is_blank space_table line) :: stats)) s1 HC2) as [Heq Hinv].
      cbn [bf_s L]. rewrite Heq. clear Heq.
      destruct (OB _ node _ s1) as [[r2 s2]| |]; cbn [bind fst snd]; [|fin|fin].
      split; [reflexivity|]. intros y E. injection E as <-. exact (Hinv _ eq_refl).
    + apply IH. exact HC2.
  - match goal with |- (this_parent <- ?e ;; _) = _ /\ _ => destruct e as [tp| |] end; cbn [bind]; [|fin|fin].
    match goal with |- (last_node <- ?e ;; _) = _ /\ _ => destruct e as [ln| |] end; cbn [bind]; [|fin|fin].
    destruct (open_blocksF_core (2 * length line + 8) tp (is_blank_line (rline s0 - 1) i ((rline s0, i, Reader.is_blank space_table line) :: stats)) s1 HC2) as [Heq Hinv].
    cbn [bf_s L]. rewrite Heq. clear Heq.
    destruct (OB _ tp _ s1) as [[r2 s2]| |]; cbn [bind fst snd]; [|fin|fin].
    specialize (Hinv _ eq_refl). cbn [snd] in Hinv.
    destruct (negb (r2 =? paragraphContinuation)); [|split; [reflexivity|intros y E; injection E as <-; exact Hinv]].
    cbn [bf_s L].
    match goal with |- (now_last <- ?e ;; _) = _ /\ _ => destruct e as [nl| |] end; cbn [bind]; [|fin|fin].
    match goal with |- context [CBF (L s2) ?a ?b] => destruct (close_blocksF_core s2 a b Hinv) as [Heq Hinv2] end.
    rewrite Heq. clear Heq.
    match goal with |- context [CB s2 ?a ?b] => destruct (CB s2 a b) as [s3| |] end; cbn [bind]; [|fin|fin].
    split; [reflexivity|]. intros y E. injection E as <-. exact (Hinv2 _ eq_refl).
Qed.

Lemma lines_loopF_core : forall fuel root stats s, FI s ->
  LLF fuel root stats (L s) = (y <- LL fuel root stats s ;; Ok (lift_sum (fst y), snd y)) /\
  (forall y, LL fuel root stats s = Ok y -> FI (sum_state (fst y))).
Proof.
  induction fuel as [|f IH]; intros root stats s HF; cbn [lines_loopF lines_loop]; [fin|].
  cbn [bf_s L]. destruct (opened (s_c s)) as [|e0 cap] eqn:Ecap.
  - split; [reflexivity|]. intros y E. injection E as <-. exact HF.
  - destruct (each_openedF_core (S (length (e0 :: cap))) (e0 :: cap) root 0 (zlen (e0 :: cap) - 1) stats s HF) as [Heq Hinv].
    rewrite Heq. clear Heq.
    destruct (EO _ (e0 :: cap) root 0 _ stats s) as [[[s1|s1] st1]| |]; cbn [bind fst snd lift_sum]; [| |fin|fin];
      specialize (Hinv _ eq_refl); cbn [fst sum_state] in Hinv.
    + split; [reflexivity|]. intros y E. injection E as <-. exact Hinv.
    + unfold advance_line_f. cbn [bf_s L]. change (stf_s (L s1) (advance_line_s s1)) with (L (advance_line_s s1)).
      apply IH. apply FI_advance_line. exact Hinv.
Qed.

Lemma parse_blocks_loopF_core : forall fuel root stats s, FI s ->
  PBLF fuel root stats (L s) = (s' <- PBL fuel root stats s ;; Ok (L s')) /\
  (forall s', PBL fuel root stats s = Ok s' -> FI s').
Proof.
  induction fuel as [|f IH]; intros root stats s HF; cbn [parse_blocks_loopF parse_blocks_loop]; [fin|].
  cbn [bf_s L].
  destruct (r_skip_blank_lines space_table (S (length (src_of s))) (s_r s)) as [[[[r a] lines] ok]| |] eqn:Esk;
    cbn [bind]; [|fin|fin].
  assert (HF0 : FI (st_r s r)).
  { eapply FI_ext; [|exact HF]. apply ext_st_r. intros HR. unfold r_skip_blank_lines in Esk.
    eapply (RB_skip_blank src Hsrc); [exact Esk|exact HR]. }
  change (stf_s (L s) (st_r s r)) with (L (st_r s r)).
  destruct (negb ok); [split; [reflexivity|intros s' E; injection E as <-; exact HF0]|].
  cbn [bf_s L].
  match goal with |- context [OBF ?fu root ?bl (L (st_r s r))] =>
    destruct (open_blocksF_core fu root bl (st_r s r) HF0) as [Heq Hinv]; rewrite Heq; clear Heq;
    destruct (OB fu root bl (st_r s r)) as [[res s1]| |]; cbn [bind fst snd]; [|fin|fin] end.
  specialize (Hinv _ eq_refl). cbn [snd] in Hinv.
  destruct (negb (res =? newBlocksOpened)); [split; [reflexivity|intros s' E; injection E as <-; exact Hinv]|].
  unfold advance_line_f. cbn [bf_s L]. change (stf_s (L s1) (advance_line_s s1)) with (L (advance_line_s s1)). cbn [bf_s L].
  pose proof (FI_advance_line s1 Hinv) as HFa.
  match goal with |- context [LLF ?fu root ?st (L (advance_line_s s1))] =>
    destruct (lines_loopF_core fu root st (advance_line_s s1) HFa) as [Heq Hinv2]; rewrite Heq; clear Heq;
    destruct (LL fu root st (advance_line_s s1)) as [[[s2|s2] st2]| |]; cbn [bind fst snd lift_sum]; [| |fin|fin] end;
    specialize (Hinv2 _ eq_refl); cbn [fst sum_state] in Hinv2.
  - split; [reflexivity|]. intros s' E. injection E as <-. exact Hinv2.
  - apply IH. exact Hinv2.
Qed.

Lemma FI_init : FI {| s_h := [mknode BDocument 0]; s_c := init_ctx; s_r := new_reader src |}.
Proof.
  split; [|split]; cbn [s_h s_c s_r].
  - constructor; [|constructor]. unfold plain_node. cbn. discriminate.
  - unfold new_reader. apply (RB_advance_line src). apply RB_nocache; reflexivity.
  - constructor.
Qed.

(* on a source without "[^" the block phase with the footnote block parser is that of the
   default parser; its heap is plain *)
Theorem parse_blocksF_core :
  parse_blocksF space_table punct_table norm re_t1o re_t1c re_t2 re_t3 re_t4 re_t5 re_t6 re_t7 allowed_tags src =
  (s <- parse_blocks space_table punct_table norm re_t1o re_t1c re_t2 re_t3 re_t4 re_t5 re_t6 re_t7 allowed_tags src ;;
   Ok (L s)) /\
  (forall s, parse_blocks space_table punct_table norm re_t1o re_t1c re_t2 re_t3 re_t4 re_t5 re_t6 re_t7 allowed_tags src = Ok s ->
             plain (s_h s)).
Proof.
  unfold parse_blocksF, parse_blocks.
  destruct (parse_blocks_loopF_core (S (length src)) 0%nat [] _ FI_init) as [Heq Hinv].
  split; [exact Heq|]. intros s E. exact (proj1 (Hinv s E)).
Qed.

End Blk.
