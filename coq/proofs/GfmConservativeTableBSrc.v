(* Helper file for GfmConservativeTableB.v: no step of the block phase changes the source of the
   reader (r_src / src_of), along successful runs and without any invariant on the state. *)
Require Import GM.model.Base GM.model.Util GM.model.Reader GM.model.Blocks GM.model.ListItem
               GM.model.LeafBlocks GM.model.CodeBlock GM.model.LinkDest GM.model.Regex
               GM.model.Html GM.model.BlockParse.
Require Import GM.proofs.GfmConservativeDefs.
From Coq Require Import List ZArith NArith Bool Lia.
Import ListNotations.
Open Scope Z_scope.

(* ---------------- the reader primitives ---------------- *)
Lemma tbs_advance_line r : r_src (r_advance_line r) = r_src r.
Proof.
  unfold r_advance_line. cbn [rset_peeked rset_loff rset_head rset_pos rset_line r_src r_pos r_line s_stop].
  destruct (s_stop (r_pos r) <? 0); reflexivity.
Qed.

Lemma tbs_peek_line r r' l sg : r_peek_line r = Ok (r', l, sg) -> r_src r' = r_src r.
Proof.
  unfold r_peek_line. intros H. destruct (r_in_range r).
  - destruct (r_peeked r) as [v|].
    + injection H as <- _ _. reflexivity.
    + gc_bind H v Hv. injection H as <- _ _. reflexivity.
  - injection H as <- _ _. reflexivity.
Qed.

Lemma tbs_line_offset r r' o : r_line_offset r = Ok (r', o) -> r_src r' = r_src r.
Proof.
  unfold r_line_offset. intros H. destruct (r_loff r <? 0).
  - destruct (r_head r <? s_start (r_pos r)).
    + gc_bind H v Hv. injection H as <- _. reflexivity.
    + injection H as <- _. reflexivity.
  - injection H as <- _. reflexivity.
Qed.

Lemma tbs_advance_slow : forall fuel r n r', r_advance_slow fuel r n = Ok r' -> r_src r' = r_src r.
Proof.
  induction fuel as [|f IH]; intros r n r' H; cbn [r_advance_slow] in H; [discriminate|].
  destruct ((0 <? n) && (s_start (r_pos r) <? r_len r)).
  - destruct (negb (s_pad (r_pos r) =? 0)).
    + apply IH in H. exact H.
    + gc_bind H c Hc. destruct (N.eqb c 10).
      * apply IH in H. rewrite H. apply tbs_advance_line.
      * apply IH in H. exact H.
  - injection H as <-. reflexivity.
Qed.

Lemma tbs_advance r n r' : r_advance r n = Ok r' -> r_src r' = r_src r.
Proof.
  unfold r_advance. intros H.
  match type of H with (if ?b then _ else _) = _ => destruct b end.
  - injection H as <-. reflexivity.
  - apply tbs_advance_slow in H. exact H.
Qed.

Lemma tbs_set_padding r v : r_src (r_set_padding r v) = r_src r.
Proof. reflexivity. Qed.

Lemma tbs_set_position r line pos r' : r_set_position r line pos = Ok r' -> r_src r' = r_src r.
Proof.
  unfold r_set_position. intros H. gc_bind H r1 H1. injection H as <-.
  cbn [rset_pos rset_line r_src].
  destruct (negb (line =? r_line (rset_peeked (rset_loff r (-1)) None))).
  - gc_bind H1 h Hh. injection H1 as <-. destruct (0 <=? h); reflexivity.
  - injection H1 as <-. reflexivity.
Qed.

Lemma tbs_advance_and_set_padding r n p r' :
  r_advance_and_set_padding r n p = Ok r' -> r_src r' = r_src r.
Proof.
  unfold r_advance_and_set_padding. intros H. gc_bind H r1 H1. apply tbs_advance in H1.
  destruct (s_pad (r_pos r1) <? p); injection H as <-; [rewrite tbs_set_padding|]; exact H1.
Qed.

Lemma tbs_skip_blank_lines tbl : forall fuel r lines r' sg n ok,
  skip_blank_lines tbl reader r_peek_line r_advance_line_res fuel r lines = Ok (r', sg, n, ok) ->
  r_src r' = r_src r.
Proof.
  induction fuel as [|f IH]; intros r lines r' sg n ok H; cbn [skip_blank_lines] in H; [discriminate|].
  gc_bind H x Hx. destruct x as [[r1 line] sg1]. apply tbs_peek_line in Hx.
  destruct line as [l|].
  - destruct (Reader.is_blank tbl l).
    + unfold r_advance_line_res in H. cbn [bind] in H. apply IH in H. rewrite H, tbs_advance_line. exact Hx.
    + injection H as <- _ _ _. exact Hx.
  - injection H as <- _ _ _. exact Hx.
Qed.

Lemma tbs_r_skip_blank_lines tbl fuel r r' sg n ok :
  r_skip_blank_lines tbl fuel r = Ok (r', sg, n, ok) -> r_src r' = r_src r.
Proof. apply tbs_skip_blank_lines. Qed.

(* ---------------- the reader-level parts of the block parsers ---------------- *)
Lemma tbs_bq_process r r' b : bq_process r = Ok (r', b) -> r_src r' = r_src r.
Proof.
  unfold bq_process. intros H. gc_bind H x Hx. destruct x as [[r1 line] sg1]. apply tbs_peek_line in Hx.
  destruct line as [line|]; [|discriminate].
  gc_bind H y Hy. destruct y as [r2 off]. apply tbs_line_offset in Hy.
  destruct (indent_width line off) as [w pos].
  destruct ((3 <? w) || (zlen line <=? pos)); [injection H as <- _; congruence|].
  gc_bind H c Hc. destruct (negb (N.eqb c 62)); [injection H as <- _; congruence|].
  destruct (zlen line <=? pos + 1).
  { gc_bind H r3 H3. apply tbs_advance in H3. injection H as <- _. congruence. }
  gc_bind H d Hd. destruct (N.eqb d 10).
  { gc_bind H r3 H3. apply tbs_advance in H3. injection H as <- _. congruence. }
  gc_bind H r3 H3. apply tbs_advance in H3.
  destruct (N.eqb d 32 || N.eqb d 9).
  - gc_bind H z Hz. destruct z as [r4 off2]. apply tbs_line_offset in Hz.
    gc_bind H r5 H5. apply tbs_advance_and_set_padding in H5. injection H as <- _. congruence.
  - injection H as <- _. congruence.
Qed.

Lemma tbs_bq_process_total r r' b : bq_process_total r = Ok (r', b) -> r_src r' = r_src r.
Proof.
  unfold bq_process_total. intros H. gc_bind H x Hx. destruct x as [[r1 line] sg1]. apply tbs_peek_line in Hx.
  destruct line as [line|].
  - apply tbs_bq_process in H. exact H.
  - injection H as <- _. exact Hx.
Qed.

Lemma tbs_list_item_open tbl lo r off r' ch :
  list_item_open tbl lo r = Ok (Some (off, r', ch)) -> r_src r' = r_src r.
Proof.
  unfold list_item_open. intros H. gc_bind H x Hx. destruct x as [[r1 line] sg1]. apply tbs_peek_line in Hx.
  destruct line as [line|]; [|discriminate].
  destruct (parse_list_item line) as [m typ].
  destruct (N.eqb typ 0); [discriminate|].
  destruct (3 <? m1 m - lo); [discriminate|].
  gc_bind H y Hy. destruct y as [r2 o2]. apply tbs_line_offset in Hy.
  match type of H with (if ?b then _ else _) = _ => destruct b end.
  - injection H as _ <- _. congruence.
  - match type of H with (let '(_, _) := ?e in _) = _ => destruct e as [pos padding] end.
    gc_bind H r3 H3. apply tbs_advance_and_set_padding in H3. injection H as _ <- _. congruence.
Qed.

Lemma tbs_code_block_take r pos padding sg r' :
  code_block_take r pos padding = Ok (sg, r') -> r_src r' = r_src r.
Proof.
  unfold code_block_take. intros H. gc_bind H r1 H1. apply tbs_advance_and_set_padding in H1.
  gc_bind H x Hx. destruct x as [[r2 l2] sg2]. apply tbs_peek_line in Hx.
  gc_bind H t Ht. destruct t as [sg3 r3].
  assert (E3 : r_src r3 = r_src r2).
  { destruct (s_pad sg2 =? 0).
    - injection Ht as _ <-. reflexivity.
    - gc_bind Ht y Hy. destruct y as [r4 off]. apply tbs_line_offset in Hy.
      unfold r_position in Ht.
      gc_bind Ht r5 H5. apply tbs_set_position in H5.
      gc_bind Ht z Hz. destruct z as [r6 off2]. apply tbs_line_offset in Hz.
      gc_bind Ht r7 H7. apply tbs_set_position in H7.
      injection Ht as _ <-. congruence. }
  gc_bind H r8 H8. apply tbs_advance in H8. injection H as _ <-. congruence.
Qed.

Lemma tbs_code_block_open tbl r sg r' : code_block_open tbl r = Ok (Some (sg, r')) -> r_src r' = r_src r.
Proof.
  unfold code_block_open. intros H. gc_bind H x Hx. destruct x as [[r1 line] sg1]. apply tbs_peek_line in Hx.
  gc_bind H y Hy. destruct y as [r2 off]. apply tbs_line_offset in Hy.
  match type of H with (let '(_, _) := ?e in _) = _ => destruct e as [pos padding] end.
  match type of H with (if ?b then _ else _) = _ => destruct b end; [discriminate|].
  gc_bind H t Ht. destruct t as [sg2 r3]. apply tbs_code_block_take in Ht. injection H as _ <-. congruence.
Qed.

Lemma tbs_code_block_continue tbl r sg r' :
  code_block_continue tbl r = Ok (inl (sg, r')) -> r_src r' = r_src r.
Proof.
  unfold code_block_continue. intros H. gc_bind H x Hx. destruct x as [[r1 line] sg1]. apply tbs_peek_line in Hx.
  match type of H with (if ?b then _ else _) = _ => destruct b end.
  - gc_bind H t Ht. injection H as _ <-. exact Hx.
  - gc_bind H y Hy. destruct y as [r2 off]. apply tbs_line_offset in Hy.
    match type of H with (let '(_, _) := ?e in _) = _ => destruct e as [pos padding] end.
    destruct (pos <? 0); [discriminate|].
    gc_bind H t Ht. destruct t as [sg2 r3]. apply tbs_code_block_take in Ht. injection H as _ <-. congruence.
Qed.

Lemma tbs_fence_continue_r tbl r ch indent flen closed ln r' :
  fence_continue_r tbl r ch indent flen = Ok (closed, ln, r') -> r_src r' = r_src r.
Proof.
  unfold fence_continue_r. intros H. gc_bind H x Hx. destruct x as [[r1 line] sg1]. apply tbs_peek_line in Hx.
  destruct line as [line|]; [|discriminate].
  gc_bind H y Hy. destruct y as [r2 off]. apply tbs_line_offset in Hy.
  destruct (fence_continue tbl line off (s_pad sg1) ch indent flen) as [adv|[pos padding]].
  - gc_bind H r3 H3. apply tbs_advance in H3. injection H as _ _ <-. congruence.
  - gc_bind H t Ht. destruct t as [adj r3].
    assert (E3 : r_src r3 = r_src r2).
    { destruct (padding =? 0).
      - injection Ht as _ <-. reflexivity.
      - unfold r_position in Ht.
        gc_bind Ht r5 H5. apply tbs_set_position in H5.
        gc_bind Ht z Hz. destruct z as [r6 off2]. apply tbs_line_offset in Hz.
        gc_bind Ht r7 H7. apply tbs_set_position in H7.
        injection Ht as _ <-. congruence. }
    gc_bind H r8 H8. apply tbs_advance_and_set_padding in H8. injection H as _ _ <-. congruence.
Qed.

(* ---------------- the state-level steps ---------------- *)
Section St.
Variable space_table punct_table : list N.
Variable norm : bytes -> bytes.
Variable re_t1o re_t1c re_t2 re_t3 re_t4 re_t5 re_t6 re_t7 : re.
Variable allowed_tags : list bytes.
Notation p_open := (p_open space_table re_t1o re_t2 re_t3 re_t4 re_t5 re_t6 re_t7 allowed_tags).
Notation p_continue := (p_continue space_table re_t1c).
Notation p_close := (p_close space_table).
Notation lrd_transform := (lrd_transform space_table punct_table norm).

Lemma tbs_peek_line_s s s' l sg : peek_line_s s = Ok (s', l, sg) -> src_of s' = src_of s.
Proof.
  unfold peek_line_s. intros H. gc_bind H x Hx. destruct x as [[r l1] sg1]. apply tbs_peek_line in Hx.
  injection H as <- _ _. exact Hx.
Qed.
Lemma tbs_line_offset_s s s' o : line_offset_s s = Ok (s', o) -> src_of s' = src_of s.
Proof.
  unfold line_offset_s. intros H. gc_bind H x Hx. destruct x as [r o1]. apply tbs_line_offset in Hx.
  injection H as <- _. exact Hx.
Qed.
Lemma tbs_advance_s s n s' : advance_s s n = Ok s' -> src_of s' = src_of s.
Proof.
  unfold advance_s. intros H. gc_bind H r Hr. apply tbs_advance in Hr. injection H as <-. exact Hr.
Qed.
Lemma tbs_advance_line_s s : src_of (advance_line_s s) = src_of s.
Proof. unfold advance_line_s, src_of. cbn [st_r s_r]. apply tbs_advance_line. Qed.

(* one inversion step of a successful run *)
Ltac src_step H :=
  match type of H with
  | bind (peek_line_s _) _ = Ok _ =>
    let x := fresh "x" in let E := fresh "E" in
    gc_bind H x E; destruct x as [[? ?] ?]; apply tbs_peek_line_s in E
  | bind (line_offset_s _) _ = Ok _ =>
    let x := fresh "x" in let E := fresh "E" in
    gc_bind H x E; destruct x as [? ?]; apply tbs_line_offset_s in E
  | bind (advance_s _ _) _ = Ok _ =>
    let x := fresh "x" in let E := fresh "E" in gc_bind H x E; apply tbs_advance_s in E
  | bind (bq_process_total _) _ = Ok _ =>
    let x := fresh "x" in let E := fresh "E" in
    gc_bind H x E; destruct x as [? ?]; apply tbs_bq_process_total in E
  | bind (r_advance_and_set_padding _ _ _) _ = Ok _ =>
    let x := fresh "x" in let E := fresh "E" in gc_bind H x E; apply tbs_advance_and_set_padding in E
  | bind _ _ = Ok _ => let x := fresh "x" in let E := fresh "E" in gc_bind H x E
  | (if ?b then _ else _) = Ok _ => destruct b
  | match ?x with Some _ => _ | None => _ end = Ok _ => destruct x
  | match ?x with inl _ => _ | inr _ => _ end = Ok _ => destruct x
  | (let '(_, _) := ?x in _) = Ok _ => destruct x
  | Ok _ = Ok _ => injection H as <- <-
  | Ok _ = Ok _ => injection H as <-
  | Panic = Ok _ => discriminate H
  end.
Ltac src_done :=
  repeat match goal with |- context [if ?b then _ else _] => destruct b end;
  unfold src_of in *; cbn [s_r st_h st_c st_r fst snd] in *; congruence.

Lemma tbs_p_open bp s parent s' o : p_open bp s parent = Ok (s', o) -> src_of s' = src_of s.
Proof.
  intros H. destruct bp; cbn [p_open] in H.
  - unfold setext_open, new_node, halloc in H. repeat src_step H; try destruct p as [? ?]; repeat src_step H; src_done.
  - unfold thematic_open, new_node, halloc in H. repeat src_step H; src_done.
  - unfold list_open, new_node, halloc in H. repeat src_step H; src_done.
  - unfold list_item_open_s, new_node, halloc in H. repeat src_step H; try destruct p as [[? ?] ?]; repeat src_step H;
      try (apply tbs_list_item_open in E1); src_done.
  - unfold code_open, new_node, halloc in H. repeat src_step H; try destruct p as [? ?]; repeat src_step H;
      try (apply tbs_code_block_open in E); src_done.
  - unfold atx_open_s, new_node, halloc in H. repeat src_step H; try destruct p as [? ?]; repeat src_step H; src_done.
  - unfold fenced_open, new_node, halloc in H. repeat src_step H; try destruct p as [[[? ?] ?] ?]; repeat src_step H; src_done.
  - unfold bq_open, new_node, halloc in H. repeat src_step H; src_done.
  - unfold html_open, new_node, halloc in H. cbv zeta in H. repeat src_step H; src_done.
  - unfold paragraph_open, new_node, halloc in H. repeat src_step H; src_done.
Qed.

Lemma tbs_p_continue bp s node s' c k : p_continue bp s node = Ok (s', c, k) -> src_of s' = src_of s.
Proof.
  intros H. destruct bp; cbn [p_continue] in H.
  - injection H as <- _ _. reflexivity.
  - injection H as <- _ _. reflexivity.
  - gc_bind H y Hy. destruct y as [s1 c1]. injection H as <- _ _. cbn [fst].
    unfold list_continue in Hy. cbv zeta in Hy. repeat src_step Hy; src_done.
  - gc_bind H y Hy. destruct y as [s1 c1]. injection H as <- _ _. cbn [fst].
    unfold list_item_continue in Hy. cbv zeta in Hy. repeat src_step Hy; src_done.
  - gc_bind H y Hy. destruct y as [s1 c1]. injection H as <- _ _. cbn [fst].
    unfold code_continue in Hy. repeat src_step Hy; try destruct p as [? ?]; repeat src_step Hy;
      try (apply tbs_code_block_continue in E); src_done.
  - injection H as <- _ _. reflexivity.
  - gc_bind H y Hy. destruct y as [s1 c1]. injection H as <- _ _. cbn [fst].
    unfold fenced_continue in Hy. destruct (c_fence (s_c s)) as [[[[ch indent] flen] fnode]|]; [|discriminate].
    gc_bind Hy p Hp. destruct p as [[s2 l2] sg2]. apply tbs_peek_line_s in Hp.
    gc_bind Hy x Hx. destruct x as [[closed ln] r]. apply tbs_fence_continue_r in Hx.
    repeat src_step Hy; try destruct p as [? ?]; repeat src_step Hy; src_done.
  - gc_bind H y Hy. destruct y as [s1 c1]. injection H as <- _ _. cbn [fst].
    unfold bq_continue in Hy. repeat src_step Hy; src_done.
  - gc_bind H y Hy. destruct y as [s1 c1]. injection H as <- _ _. cbn [fst].
    unfold html_continue in Hy. cbv zeta in Hy. repeat src_step Hy; src_done.
  - gc_bind H y Hy. destruct y as [s1 c1]. injection H as <- _ _. cbn [fst].
    unfold paragraph_continue in Hy. repeat src_step Hy; src_done.
Qed.

(* the Close functions and the paragraph transformer leave the reader alone *)
Lemma tbs_setext_close s node s' : setext_close space_table s node = Ok s' -> s_r s' = s_r s.
Proof.
  unfold setext_close. intros H. gc_bind H n Hn.
  destruct (blines n) as [|sg rest]; [discriminate|].
  destruct (c_tmp_para (s_c s)) as [tmp|]; [|discriminate].
  gc_bind H h Hh. gc_bind H t Ht.
  destruct (blines t) as [|t1 tl].
  - destruct (bpar n) as [p|]; [|discriminate].
    gc_bind H pn Hpn. gc_bind H sg2 Hsg. gc_bind H isp Hisp. gc_bind H s1 H1. gc_bind H h2 H2.
    injection H as <-. cbn [st_h s_r].
    destruct isp.
    + match type of H1 with match ?x with Some _ => _ | None => _ end = _ => destruct x as [y|] end; [|discriminate].
      gc_bind H1 h3 H3. gc_bind H1 ny Hny. destruct (blines ny); [discriminate|].
      injection H1 as <-. reflexivity.
    + unfold new_node, halloc in H1. gc_bind H1 h3 H3. injection H1 as <-. reflexivity.
  - gc_bind H h2 H2. destruct (bpar t) as [tp|].
    + gc_bind H h3 H3. injection H as <-. reflexivity.
    + injection H as <-. reflexivity.
Qed.

Definition tbs_kids (c : nat) : list nat -> st -> result st :=
  fix kids (gs : list nat) (s : st) : result st :=
    match gs with
    | [] => Ok s
    | g :: tl =>
      gn <- hget (s_h s) g ;;
      if bkind_eqb (bk gn) BParagraph then
        let '(s, t) := new_node s (set_lines (mknode BTextBlock 0) (blines gn)) in
        h <- replace_child (s_h s) c g t ;;
        kids tl (st_h s h)
      else kids tl s
    end.
Definition tbs_items : list nat -> st -> result st :=
  fix items (cs : list nat) (s : st) : result st :=
    match cs with
    | [] => Ok s
    | c :: rest => cn <- hget (s_h s) c ;; s <- tbs_kids c (bch cn) s ;; items rest s
    end.

Lemma tbs_kids_r c : forall gs s s', tbs_kids c gs s = Ok s' -> s_r s' = s_r s.
Proof.
  induction gs as [|g tl IH]; intros s s' H; cbn [tbs_kids] in H.
  - injection H as <-. reflexivity.
  - gc_bind H gn Hgn. destruct (bkind_eqb (bk gn) BParagraph).
    + unfold new_node, halloc in H. gc_bind H h Hh. apply IH in H. exact H.
    + apply IH in H. exact H.
Qed.
Lemma tbs_items_r : forall cs s s', tbs_items cs s = Ok s' -> s_r s' = s_r s.
Proof.
  induction cs as [|c rest IH]; intros s s' H; cbn [tbs_items] in H.
  - injection H as <-. reflexivity.
  - gc_bind H cn Hcn. gc_bind H s1 H1. apply tbs_kids_r in H1. apply IH in H. congruence.
Qed.

Lemma tbs_list_close s node s' : list_close s node = Ok s' -> s_r s' = s_r s.
Proof.
  unfold list_close. intros H. gc_bind H n Hn. gc_bind H tight Ht. gc_bind H h Hh.
  destruct (negb tight).
  - injection H as <-. reflexivity.
  - change (tbs_items (bch n) (st_h s h) = Ok s') in H. apply tbs_items_r in H. exact H.
Qed.

Lemma tbs_p_close_r bp s node s' : p_close bp s node = Ok s' -> s_r s' = s_r s.
Proof.
  intros H. destruct bp; cbn [p_close] in H; try (injection H as <-; reflexivity).
  - apply tbs_setext_close in H. exact H.
  - apply tbs_list_close in H. exact H.
  - unfold code_close in H. gc_bind H n Hn. gc_bind H ls Hls. gc_bind H h Hh. injection H as <-. reflexivity.
  - unfold fenced_close in H. destruct (c_fence (s_c s)) as [[[[ch indent] flen] fnode]|]; [|discriminate].
    injection H as <-. destruct (Nat.eqb fnode node); reflexivity.
  - unfold paragraph_close in H. gc_bind H n Hn. destruct (blines n) as [|l0 ls0].
    + destruct (bpar n) as [p|]; [|discriminate]. gc_bind H h Hh. injection H as <-. reflexivity.
    + gc_bind H ls Hls. destruct (rev ls) as [|lst pre]; [discriminate|].
      gc_bind H lst2 Hlst. gc_bind H h Hh. injection H as <-. reflexivity.
Qed.
Lemma tbs_p_close bp s node s' : p_close bp s node = Ok s' -> src_of s' = src_of s.
Proof. intros H. apply tbs_p_close_r in H. unfold src_of. rewrite H. reflexivity. Qed.

Lemma tbs_lrd_transform_r s node s' : lrd_transform s node = Ok s' -> s_r s' = s_r s.
Proof.
  unfold lrd_transform. intros H. gc_bind H n Hn. gc_bind H br Hbr. gc_bind H x Hx. destruct x as [c removes].
  gc_bind H lines Hl. destruct lines as [|l0 ls].
  - unfold new_node, halloc in H. destruct (bpar n) as [p|]; [|discriminate].
    gc_bind H h Hh. injection H as <-. reflexivity.
  - gc_bind H h Hh. injection H as <-. reflexivity.
Qed.
Lemma tbs_lrd_transform s node s' : lrd_transform s node = Ok s' -> src_of s' = src_of s.
Proof. intros H. apply tbs_lrd_transform_r in H. unfold src_of. rewrite H. reflexivity. Qed.
End St.
