(* The phase theorems (ParseBlocksRange.v, ParseInlineRange.v, ParseBlocksTotal.v) composed into
   unconditional statements about ParseTree and ConvertModel (model/ParseI.v): for EVERY source. *)
Require Import GM.model.Base GM.model.Util GM.model.UtilI GM.model.Reader GM.model.Regex GM.model.HtmlWriter GM.model.Html GM.model.HtmlI GM.model.HtmlSpec
               GM.model.BlockParse GM.model.InlineParse GM.model.ParseI.
Require Import GM.proofs.ParseInv GM.proofs.ParseCompose GM.proofs.ParseBlocksRange GM.proofs.ParseInlineRange.
Require Import GM.proofs.HtmlConcrete.
From Coq Require Import ZArith Bool.

(* C05: every tree the parser model yields is well formed *)
Theorem ParseTree_wf_all : forall src t, bytes_ok src -> ParseTree src = Ok t -> wf_tree src t = true.
Proof. exact (ParseTree_wf ParseBlocks_tree_ok InlineChildren_ok). Qed.

(* C03 / C04: safe-mode output of the Convert model is inert, for every source *)
Theorem ConvertModel_safe_inert_all : forall c src o, unsafe c = false -> bytes_ok src ->
  ConvertModel c src = Ok o -> Inert o.
Proof. exact (ConvertModel_safe_inert ParseBlocks_tree_ok InlineChildren_ok). Qed.

Theorem ConvertModel_safe_inert_xhtml_all : forall c src o, unsafe c = false -> xhtml c = true -> bytes_ok src ->
  ConvertModel c src = Ok o -> InertX o.
Proof. exact (ConvertModel_safe_inert_xhtml ParseBlocks_tree_ok InlineChildren_ok). Qed.

(* C01: once the parser model has returned a tree, rendering cannot fail *)
Theorem ConvertModel_render_total_all : forall c src t, bytes_ok src -> ParseTree src = Ok t ->
  exists o, ConvertModel c src = Ok o.
Proof. exact (ConvertModel_render_total ParseBlocks_tree_ok InlineChildren_ok). Qed.

(* ---------- totality of the whole Convert model ---------- *)
Require Import GM.proofs.ParseBlocksTotal.
From Coq Require Import List.
Import ListNotations.

Section Total.
Variable src : bytes.
Variable inl : list seg -> result (list tree).
Hypothesis inl_total : forall lines, lines_ok src lines -> exists ts, inl lines = Ok ts.

Lemma map_res_total {A B} (f : A -> result B) (l : list A) :
  Forall (fun x => exists y, f x = Ok y) l -> exists ys, map_res f l = Ok ys.
Proof.
  induction 1 as [|x r [y Hy] _ [ys Hys]]; cbn [map_res].
  - eexists. reflexivity.
  - rewrite Hy. cbn [bind]. rewrite Hys. cbn [bind]. eexists. reflexivity.
Qed.

Theorem attach_total : forall t, tree_lines_ok src t = true -> exists t', attach_inlines inl t = Ok t'.
Proof.
  intros t. induction t as [k l a kids IH] using tree_ind_forall. intros Hl.
  rewrite tree_lines_ok_unfold in Hl. apply andb_true_iff in Hl as [Hl Hk].
  rewrite attach_inlines_unfold. destruct (has_inlines k) eqn:Hh.
  - apply andb_true_iff in Hl as [H1 H2].
    destruct (inl_total l (conj H1 H2)) as [ts Hts]. rewrite Hts. cbn [bind]. eexists. reflexivity.
  - assert (Hall : Forall (fun x => exists y, attach_inlines inl x = Ok y) kids).
    { rewrite forallb_forall in Hk. rewrite Forall_forall in IH. apply Forall_forall. intros x Hx. exact (IH x Hx (Hk x Hx)). }
    destruct (map_res_total _ _ Hall) as [ys Hys]. rewrite Hys. cbn [bind]. eexists. reflexivity.
Qed.
End Total.

Section TotalCompose.
Hypothesis inlines_total : forall refs src lines, bytes_ok src -> lines_ok src lines ->
  exists ts, InlineChildren refs src lines = Ok ts.

(* C01 for the parser model: it never panics and never runs out of fuel *)
Theorem ParseTree_total : forall src, bytes_ok src -> exists t, ParseTree src = Ok t.
Proof.
  intros src Hsrc. destruct (ParseBlocksTree_total src Hsrc) as [[t refs] Hb].
  destruct (ParseBlocksTree_ok src t refs Hsrc Hb) as (_ & Hl & _).
  unfold ParseTree. rewrite Hb. cbn [bind].
  exact (attach_total src (InlineChildren refs src) (fun lines Hlo => inlines_total refs src lines Hsrc Hlo) t Hl).
Qed.

(* C01 for the Convert model: for every source and every renderer configuration there is an output *)
Theorem ConvertModel_total : forall c src, bytes_ok src -> exists o, ConvertModel c src = Ok o.
Proof.
  intros c src Hsrc. destruct (ParseTree_total src Hsrc) as [t Ht].
  exact (ConvertModel_render_total_all c src t Hsrc Ht).
Qed.
End TotalCompose.

(* the totality of the inline phase (ParseInlineTotal.v) instantiates the section above *)
Require Import GM.proofs.ParseInlineTotal.
Theorem ParseTree_total_all : forall src, bytes_ok src -> exists t, ParseTree src = Ok t.
Proof. exact (ParseTree_total InlineChildren_total). Qed.
Theorem ConvertModel_total_all : forall c src, bytes_ok src -> exists o, ConvertModel c src = Ok o.
Proof. exact (ConvertModel_total InlineChildren_total). Qed.
