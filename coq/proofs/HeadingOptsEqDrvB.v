(* The driver of model/HeadingOpts.v with automatic heading ids only, in lockstep with the driver of
   the default parser and the invariant of proofs/ParseBlocksRange*.v, part B: openBlocks. *)
Require Import GM.model.Base GM.model.Util GM.model.Reader GM.model.ReaderSpec GM.model.Blocks GM.model.ListItem
               GM.model.LeafBlocks GM.model.CodeBlock GM.model.LinkDest GM.model.Regex GM.model.HtmlWriter
               GM.model.Html GM.model.HtmlSpec GM.model.Attr GM.model.Ids GM.model.BlockParse GM.model.InlineParse GM.model.HeadingOpts.
Require Import GM.proofs.MiscProofs GM.proofs.ReaderProofs GM.proofs.BlockRangeProofs GM.proofs.ParseInv GM.proofs.IdsProofs
               GM.proofs.ParseBlocksRangeA GM.proofs.ParseBlocksRangeB GM.proofs.ParseBlocksRangeC
               GM.proofs.ParseBlocksRangeD GM.proofs.ParseBlocksRangeE GM.proofs.ParseBlocksRangeF
               GM.proofs.ParseBlocksRangeG GM.proofs.ParseBlocksRangeH GM.proofs.ParseBlocksRangeI GM.proofs.ParseBlocksRangeJ
               GM.proofs.ParseBlocksRangeL GM.proofs.ParseBlocksRangeM GM.proofs.ParseBlocksRangeN.
Require Import GM.proofs.HeadingOptsEqDefs GM.proofs.HeadingOptsEqHp GM.proofs.HeadingOptsEqFrame
               GM.proofs.HeadingOptsEqBlk GM.proofs.HeadingOptsEqDrvA.
From Coq Require Import List ZArith NArith Bool Lia Sorted.
Import ListNotations.
Open Scope Z_scope.

Lemma nth_app_old_h {X} (h : list X) n i x : nth_error h i = Some x -> nth_error (h ++ [n]) i = Some x.
Proof. intros H. rewrite nth_error_app1 by (apply nth_error_Some; congruence). exact H. Qed.
Lemma is_hd_pkind bp : is_hd (pkind bp) = is_hp bp.
Proof. destruct bp; reflexivity. Qed.

Section D.
Variable hc : hcfg.
Hypothesis Hattr : h_attr hc = false.
Hypothesis Hauto : h_autoid hc = true.
Variable space_table punct_table : list N.
Variable norm : bytes -> bytes.
Variable re_t1o re_t1c re_t2 re_t3 re_t4 re_t5 re_t6 re_t7 : re.
Variable allowed_tags : list bytes.
Variable utf8len_table : list N.
Variable spaces : bytes.
Variable src : bytes.
Hypothesis sp32 : is_space space_table 32%N = true.
Hypothesis Hsrc : bytes_ok src.
Set Default Proof Using "All".

Notation CC f := (f space_table punct_table norm re_t1o re_t1c re_t2 re_t3 re_t4 re_t5 re_t6 re_t7 allowed_tags src sp32) (only parsing).
Notation CE f := (f space_table punct_table norm re_t1o re_t1c re_t2 re_t3 re_t4 re_t5 re_t6 re_t7 allowed_tags src sp32) (only parsing).
Notation CJ f := (f space_table punct_table norm re_t1o re_t1c re_t2 re_t3 re_t4 re_t5 re_t6 re_t7 allowed_tags src sp32 Hsrc) (only parsing).
Notation CD f := (f hc Hattr Hauto space_table punct_table norm re_t1o re_t1c re_t2 re_t3 re_t4 re_t5 re_t6 re_t7 allowed_tags
                    utf8len_table spaces src sp32 Hsrc) (only parsing).
Notation SInv := (SInv space_table src).
Notation OInv := (OInv space_table src).
Notation heapS := (heapS space_table src).
Notation QH := (QH utf8len_table space_table spaces src).
Notation QLg := (QLg space_table utf8len_table spaces src).
Notation QL := (QL space_table utf8len_table spaces src).
Notation TPre := (TPre space_table src).
Notation p_open := (p_open space_table re_t1o re_t2 re_t3 re_t4 re_t5 re_t6 re_t7 allowed_tags).
Notation p_openH := (p_open_h hc space_table punct_table re_t1o re_t2 re_t3 re_t4 re_t5 re_t6 re_t7 allowed_tags).
Notation p_continue := (p_continue space_table re_t1c).
Notation p_close := (p_close space_table).
Notation p_closeH := (p_close_h hc space_table punct_table utf8len_table spaces).
Notation TP := (transform_paragraph space_table punct_table norm).
Notation CB := (close_blocks space_table punct_table norm).
Notation CBH := (close_blocksH hc space_table punct_table norm utf8len_table spaces).
Notation TRY := (try_parsers space_table punct_table norm re_t1o re_t2 re_t3 re_t4 re_t5 re_t6 re_t7 allowed_tags).
Notation TRYH := (try_parsersH hc space_table punct_table norm re_t1o re_t2 re_t3 re_t4 re_t5 re_t6 re_t7 allowed_tags utf8len_table spaces).
Notation OBL := (open_blocks_loop space_table punct_table norm re_t1o re_t2 re_t3 re_t4 re_t5 re_t6 re_t7 allowed_tags).
Notation OBLH := (open_blocks_loopH hc space_table punct_table norm re_t1o re_t2 re_t3 re_t4 re_t5 re_t6 re_t7 allowed_tags utf8len_table spaces).
Notation OB := (open_blocks space_table punct_table norm re_t1o re_t1c re_t2 re_t3 re_t4 re_t5 re_t6 re_t7 allowed_tags).
Notation OBH := (open_blocksH hc space_table punct_table norm re_t1o re_t1c re_t2 re_t3 re_t4 re_t5 re_t6 re_t7 allowed_tags utf8len_table spaces).

(* the invariant for the opened blocks of the state *)
Definition QO (x : sth) : Prop := QH x (opened (s_c (hx_s x))).

Lemma QO_Oeq x E : Oeq (s_c (hx_s x)) E -> (QO x <-> QH x E).
Proof. intros [Ho _]. unfold QO. rewrite Ho. reflexivity. Qed.

(* a change of the reader / of the context that keeps the opened blocks *)
Lemma QO_same x s : QO x -> s_h s = s_h (hx_s x) -> c_arr (s_c s) = c_arr (s_c (hx_s x)) ->
  c_len (s_c s) = c_len (s_c (hx_s x)) -> QO (sth_s x s).
Proof.
  intros HQ Eh Ea El. unfold QO in *. cbn [hx_s sth_s]. unfold opened in *. rewrite Ea, El.
  apply (CD QH_sth_s); assumption.
Qed.

Lemma QLg_sth_s log x s tail : QLg log x tail -> s_h s = s_h (hx_s x) -> QLg log (sth_s x s) tail.
Proof. intros [H1 [H2 [H3 H4]]] Eh. unfold HeadingOptsEqDrvA.QLg. cbn [hx_s sth_s hx_ids hx_attrs]. rewrite Eh. auto. Qed.

(* ---------- the tail of an Open: set the blank flag, attach the node, push it ---------- *)
Lemma tailH_q fl x A D N parent node bp blank (lb : option (nat * bparser)) nn h2 s2 h3 log :
  OInv fl (hx_s x) A D N -> nth_error (s_h (hx_s x)) node = Some nn -> bpar nn = None -> bch nn = [] ->
  bk nn = pkind bp -> ~ In node (ids (A ++ D ++ N)) -> node <> 0%nat -> topC (A ++ N) ->
  parent = lastid (ids (A ++ N)) ->
  (forall last lp, lb = Some (last, lp) -> last <> node /\
     exists nl q, nth_error (s_h (hx_s x)) last = Some nl /\ bpar nl = Some q) ->
  QLg log x (hd_ids (A ++ D ++ N)) -> ~ In node (map fst log) ->
  hupd (s_h (hx_s x)) node (fun n => set_blank n blank) = Ok h2 ->
  match lb with
  | Some (last, _) =>
      att <- attached (s_h (st_h (hx_s x) h2)) last ;;
      (if negb att
       then CB (st_h (hx_s x) h2) (Z.of_nat (c_len (s_c (st_h (hx_s x) h2))) - 1) (Z.of_nat (c_len (s_c (st_h (hx_s x) h2))) - 1)
       else Ok (st_h (hx_s x) h2))
  | None => Ok (st_h (hx_s x) h2)
  end = Ok s2 ->
  append_child (s_h s2) parent node = Ok h3 ->
  s2 = st_h (hx_s x) h2 /\
  (forall last lp, lb = Some (last, lp) -> attached h2 last = Ok true) /\
  match lb with
  | Some (last, _) =>
      att <- attached (s_h (hx_s (sth_s x (st_h (hx_s x) h2)))) last ;;
      (if negb att
       then let lp := Z.of_nat (c_len (s_c (hx_s (sth_s x (st_h (hx_s x) h2))))) - 1 in CBH (sth_s x (st_h (hx_s x) h2)) lp lp
       else Ok (sth_s x (st_h (hx_s x) h2)))
  | None => Ok (sth_s x (st_h (hx_s x) h2))
  end = Ok (sth_s x s2) /\
  QLg log (sth_s x (st_c (st_h s2 h3) (push_opened (s_c s2) (node, bp)))) (hd_ids ((A ++ D ++ N) ++ [(node, bp)])).
Proof.
  intros HO En Pn Cn Kn Hni Hn0 Htop Hpar Hlb HQ Hlog Eh2 Es2 Eh3.
  pose proof HO as [HS [HOe Hu]].
  apply hupd_ok in Eh2. destruct Eh2 as [n0 [En0 ->]]. assert (n0 = nn) by congruence. subst n0.
  set (h2 := hset (s_h (hx_s x)) node (set_blank nn blank)) in *.
  assert (s2 = st_h (hx_s x) h2 /\
          match lb with
          | Some (last, _) =>
              att <- attached (s_h (hx_s (sth_s x (st_h (hx_s x) h2)))) last ;;
              (if negb att
               then let lp := Z.of_nat (c_len (s_c (hx_s (sth_s x (st_h (hx_s x) h2))))) - 1 in CBH (sth_s x (st_h (hx_s x) h2)) lp lp
               else Ok (sth_s x (st_h (hx_s x) h2)))
          | None => Ok (sth_s x (st_h (hx_s x) h2))
          end = Ok (sth_s x s2)) as [-> HH].
  { destruct lb as [[last lp]|].
    - destruct (Hlb last lp eq_refl) as [Hln [nl [q [Enl Pnl]]]].
      cbn [hx_s sth_s st_h s_h] in *. unfold attached, hget in *. unfold h2 in *.
      rewrite nth_hset_ne in * by congruence. rewrite Enl in *. cbn [bind] in *. rewrite Pnl in *. cbn [negb] in *.
      injection Es2 as <-. auto.
    - injection Es2 as <-. auto. }
  split; [reflexivity|]. split.
  { intros last lp E. destruct (Hlb last lp E) as [Hln [nl [q [Enl Pnl]]]]. unfold attached, hget, h2.
    rewrite nth_hset_ne by congruence. rewrite Enl. cbn [bind]. rewrite Pnl. reflexivity. }
  split; [exact HH|].
  cbn [st_h s_h s_c] in Eh3.
  pose proof (CD heapS_SInv _ _ _ _ _ HS) as HhS. pose proof (TS_heapS _ _ _ HhS) as HTS.
  (* the state with the blank flag set *)
  assert (QLg log (sth_s x (st_h (hx_s x) h2)) (hd_ids (A ++ D ++ N))) as HQ2.
  { eapply (CD QLg_hstep) with (exc := no_exc); [exact HQ| |eapply (CD closed_SInv); exact HS|intros j []].
    cbn [st_h s_h]. apply hstep_hset with (n := nn); auto. }
  destruct (CE parent_node _ _ _ _ _ HS Htop) as [np [Enp Knp]]. rewrite <- Hpar in Enp.
  assert (parent <> node) as Hpn.
  { intros ->. destruct (CE lastid_cases (ids (A ++ N))) as [[_ E0]|[_ Hin]].
    - rewrite <- Hpar in E0. congruence.
    - rewrite <- Hpar in Hin. apply Hni. rewrite !ids_app in *. apply in_app_or in Hin. apply in_or_app.
      destruct Hin as [Hin|Hin]; [left; exact Hin|right; apply in_or_app; right; exact Hin]. }
  assert (shape_le (s_h (hx_s x)) h2) as Hsh.
  { apply shape_le_hset with (n := nn); [exact En|]. unfold same_shape. cbn [set_blank bk bpar bch]. auto. }
  replace (hd_ids ((A ++ D ++ N) ++ [(node, bp)])) with
      (hd_ids (A ++ D ++ N) ++ (if is_hd (bk (set_blank nn blank)) then [node] else [])).
  2: { rewrite (hd_ids_app (A ++ D ++ N) [(node, bp)]), (hd_ids_cons (node, bp) []). cbn [set_blank bk fst snd]. rewrite Kn, is_hd_pkind.
       destruct (is_hp bp); reflexivity. }
  change (sth_s x (st_c (st_h (st_h (hx_s x) h2) h3) (push_opened (s_c (st_h (hx_s x) h2)) (node, bp))))
    with (sth_s (sth_s x (st_h (hx_s x) h2)) (st_c (st_h (st_h (hx_s x) h2) h3) (push_opened (s_c (st_h (hx_s x) h2)) (node, bp)))).
  eapply (CD QLg_append) with (x := sth_s x (st_h (hx_s x) h2)) (chain := ids (A ++ N)) (p := parent) (np := np) (h' := h3); cbn [sth_s hx_s st_h st_c s_h].
  - exact HQ2.
  - apply TS_hset_same with (n := nn); auto.
  - destruct HS as [_ HH']. pose proof (os_spine _ _ _ _ _ _ (hi_open _ _ _ _ _ _ _ _ HH')) as Hsp.
    eapply spineL_le; [|exact Hsp]. intros q y _ Hl. eapply lastchild_le; eassumption.
  - exact Hpar.
  - unfold h2. rewrite nth_hset_ne by congruence. exact Enp.
  - exact Knp.
  - unfold h2. apply nth_hset_eq. eapply nth_some_lt. exact En.
  - exact Pn.
  - exact Cn.
  - exact Hn0.
  - intros Hin. apply in_app_or in Hin. destruct Hin as [Hin|Hin]; [exact (Hlog Hin)|].
    apply hd_ids_in in Hin. destruct Hin as [bq [Hin _]]. apply Hni. eapply in_ids. exact Hin.
  - exact Eh3.
  - reflexivity.
Qed.

(* ---------- the parser table ---------- *)
Section Track.
Variables (s0 : st) (A D0 : list (nat * bparser)) (cont0 : bool).
Notation Trk := (Trk s0 D0 cont0).
Notation TPre := (TPre A).

Definition try_rel (t : try_res) (tH : try_resH) : Prop :=
  match t, tH with
  | TRetry p c r s, TRetryH p' c' r' x' => p' = p /\ c' = c /\ r' = r /\ hx_s x' = s /\ QO x'
  | TDone r s, TDoneH r' x' => r' = r /\ hx_s x' = s /\ QO x'
  | _, _ => False
  end.

Lemma QLg_QO log x E : Oeq (s_c (hx_s x)) E -> QLg log x (hd_ids E) -> QO x.
Proof. intros HO H. apply (QO_Oeq _ _ HO). exists log. exact H. Qed.

Lemma try_parsersH_q blank w : forall bps x D N parent res cont t,
  TPre (hx_s x) D N parent -> Trk (hx_s x) D N res cont -> QO x ->
  TRY bps parent blank cont res w (hx_s x) = Ok t ->
  exists tH, TRYH bps parent blank cont res w x = Ok tH /\ try_rel t tH.
Proof.
  induction bps as [|bp rest IH]; intros x D N parent res cont t HP HT HQ H.
  - cbn [try_parsers] in H. cbn [try_parsersH]. injection H as <-. exists (TDoneH res x). split; [reflexivity|]. cbn. auto.
  - cbn [try_parsers] in H. cbn [try_parsersH].
    destruct (cont && (res =? noBlocksOpened) && negb (can_interrupt_paragraph bp))%bool; [eapply IH; eassumption|].
    destruct ((3 <? w) && negb (can_accept_indented bp))%bool; [eapply IH; eassumption|].
    cbv zeta in H. bind_inv H y Ex. destruct y as [s1 o].
    rewrite (p_open_h_off hc Hattr). unfold hlift. rewrite Ex. cbn [bind fst snd].
    pose proof HP as [[HS [HO Hu]] [Hpar Htop]].
    assert (PC N (s_h (hx_s x))) as HPC.
    { intros HN. rewrite <- (CJ lastid_app_ne A N HN). eapply (CE parent_node); eassumption. }
    pose proof (CC p_open_spec bp (hx_s x) parent s1 o A D N HS HO HPC Ex) as [Ea [El Hpost]].
    assert (Oeq (s_c s1) (A ++ D ++ N)) as HO1 by (eapply (CE Oeq_same); eassumption).
    assert (last_opened (s_c s1) = last_opened (s_c (hx_s x))) as Elo1 by (unfold last_opened; rewrite Ea, El; reflexivity).
    destruct o as [[[node hch] rp]|].
    2: { destruct Hpost as [HS1 Eh1]. eapply (IH (sth_s x s1)); cbn [hx_s sth_s].
         - eapply (CJ TPre_same); eassumption.
         - eapply (CJ Trk_same); eassumption.
         - apply QO_same; assumption.
         - exact H. }
    destruct Hpost as [Hnode [[n [Eh1 [Pn [Cn [Kn Hatx]]]]] [HW1 [Hhc [Hrpf Hrpt]]]]].
    assert (nth_error (s_h s1) node = Some n) as En1 by (rewrite Eh1, Hnode; apply nth_app_new).
    assert (forall z, In z (ids (A ++ D ++ N)) -> (z < node)%nat) as Hold.
    { intros z Hz. apply in_ids_inv in Hz. destruct Hz as [bq Hz].
      destruct (CE SInv_entry _ _ _ _ _ _ _ HS Hz) as [nx [_ [_ Hlt]]]. lia. }
    assert (node <> 0%nat) as Hn0.
    { destruct HS as [_ HH]. destruct (hs_root _ _ _ (hi_heap _ _ _ _ _ _ _ _ HH)) as [r0 [E0 _]]. apply nth_some_lt in E0. lia. }
    assert (~ In node (ids (A ++ D ++ N))) as Hni by (intros Hi; apply Hold in Hi; lia).
    assert (length (s_h s1) = S (length (s_h (hx_s x)))) as Hlen1 by (rewrite Eh1, app_length; cbn [length]; lia).
    (* the invariant after the allocation of the new node *)
    apply (QO_Oeq _ _ HO) in HQ. destruct HQ as [log HQg].
    assert (~ In node (map fst log)) as Hlog.
    { intros Hi. pose proof (CD QLg_bound _ _ _ HQg node (in_or_app _ _ _ (or_introl Hi))). lia. }
    assert (QLg log (sth_s x s1) (hd_ids (A ++ D ++ N))) as HQ1.
    { eapply (CD QLg_hstep) with (exc := no_exc); [exact HQg| |eapply (CD closed_SInv); exact HS|intros j []].
      rewrite Eh1. apply hstep_alloc. exact Cn. }
    destruct rp.
    + (* RequireParagraph: a setext heading *)
      destruct (Hrpt eq_refl) as [-> [-> [HF1 [-> [last [lp [nl [Elo [Etmp [Enl [Knl Pnl]]]]]]]]]]].
      rewrite Elo in *. bind_inv H r Er. bind_inv Er pn Epn. pose proof Epn as Epn0. apply hget_ok in Epn.
      assert (nth_error (s_h s1) last = Some nl) as Enl1 by (rewrite Eh1; apply nth_app_old_h; exact Enl).
      destruct (CJ setext_pos FF s1 A D last lp nl parent HF1 HO1 Elo1 Enl1 Knl Pnl Hpar) as [-> [[pn' [Epn' Hlc]] Hno]].
      assert (pn' = pn) by congruence. subst pn'. rewrite Hlc in Er. cbn [opt_nat_eqb] in Er. rewrite Nat.eqb_refl in Er.
      cbn [hx_s sth_s]. rewrite Epn0. cbn [bind]. rewrite Hlc. cbn [opt_nat_eqb]. rewrite Nat.eqb_refl.
      assert (lp = PParagraph) as ->.
      { assert (In (last, lp) (A ++ [(last, PParagraph)] ++ [])) as Hin.
        { pose proof (CC last_opened_spec _ _ HO1) as Hs. rewrite Elo1 in Hs. destruct Hs as [E' HE]. rewrite HE. apply in_or_app. right. left. reflexivity. }
        destruct (CE SInv_entry _ _ _ _ _ _ _ HF1 Hin) as [n0 [En0 [K0 _]]]. apply (CE pkind_para). congruence. }
      bind_inv Er s2 Ec2. cbn [p_close_h]. unfold hlift0. cbn [hx_s sth_s]. rewrite Ec2. cbn [bind hx_s sth_s].
      cbn [BlockParse.p_close] in Ec2.
      assert (In (last, PParagraph) (A ++ [(last, PParagraph)] ++ [])) as Hin by (apply in_or_app; right; left; reflexivity).
      destruct (CE paragraph_close_ok FF s1 last s2 A _ [] HF1 Hin Ec2) as [HF2 [Ec2' [Er2 [Hlen2 [Hsh2 [n2 [En2 Ffin2]]]]]]].
      destruct (Nat.eqb (c_len (s_c s2)) 0); [discriminate|].
      set (s3 := st_c s2 (cset_open (s_c s2) (c_arr (s_c s2)) (Init.Nat.pred (c_len (s_c s2))))) in *.
      bind_inv Er t4 Et. destruct t4 as [s4 gone]. rewrite Et. cbn [bind].
      assert (SInv FF s3 A ([] ++ [(last, PParagraph)]) []) as HF3 by (apply (CC SInv_ctx); auto).
      destruct (CJ transform_paragraph_ok FF s3 last s4 gone A [] [] HF3 Et) as [T1 [T2 [T3 [T4 [T5 [T6 [T7 T8]]]]]]].
      pose proof (CJ transform_frame _ _ _ _ Et) as Hfr. cbn [s3 st_c s_h] in Hfr, T5.
      assert (Oeq (s_c s4) (A ++ [] ++ [])) as HO4.
      { eapply (CE Oeq_same); [|exact T1|exact T2]. cbn [s3 st_c s_c app]. rewrite app_nil_r. rewrite Ec2'.
        eapply (CE Oeq_pop). cbn [app] in HO1. exact HO1. }
      assert (uniqS (A ++ [] ++ [])) as Hu4.
      { eapply (CE uniqS_incl); [exact Hu|]. intros e He. cbn [app] in He. rewrite app_nil_r in He. apply in_or_app. left. exact He. }
      (* the invariant after Close of the paragraph and the transformer *)
      assert (hd_ids (A ++ [(last, PParagraph)] ++ []) = hd_ids (A ++ [] ++ [])) as Ehd.
      { rewrite !hd_ids_app. reflexivity. }
      rewrite Ehd in HQ1.
      assert (QLg log (sth_s x s2) (hd_ids (A ++ [] ++ []))) as HQ2.
      { change (sth_s x s2) with (sth_s (sth_s x s1) s2).
        eapply (CD QLg_hstep) with (exc := eq last); [exact HQ1| |eapply (CD closed_SInv); exact HF1|].
        - cbn [hx_s sth_s]. eapply (p_close_hstep _ PParagraph); [exact Ec2|exact Enl1|exact Knl|discriminate].
        - intros j <-. right. cbn [hx_s sth_s]. intros m Em. assert (m = nl) by congruence. subst m. congruence. }
      destruct (Hsh2 last nl Enl1) as [nl2 [Enl2 [Knl2 _]]].
      assert (QLg log (sth_s x s4) (hd_ids (A ++ [] ++ []))) as HQ4.
      { change (sth_s x s4) with (sth_s (sth_s x s3) s4).
        eapply (CD QLg_hstep) with (exc := no_exc); [apply (QLg_sth_s log (sth_s x s2) s3); [exact HQ2|reflexivity]| |eapply (CD closed_SInv); exact HF3|intros j []].
        cbn [hx_s sth_s]. eapply transform_paragraph_hstep; [exact Et|exact Enl2|congruence]. }
      destruct gone.
      * (* the paragraph held only link reference definitions *)
        injection Er as <-. injection H as <-. eexists. split; [reflexivity|]. cbn [try_rel hx_s sth_s].
        csplit; auto. eapply QLg_QO; [exact HO4|exact HQ4].
      * (* the heading is attached, the paragraph becomes its temporary paragraph *)
        injection Er as <-. destruct (T8 eq_refl) as [HF4 Hfin4].
        bind_inv H h5 Eh5. bind_inv H s5 Es5. bind_inv H h6 Eh6. injection H as <-.
        destruct (Hsh2 node n En1) as [n2' [En2' [K2 [P2 C2]]]].
        assert (node <> last) as Hnl by (apply nth_some_lt in Enl; lia).
        destruct (Hfr node n2' En2' Hnl ltac:(lia)) as [n4 [En4 [K4 [P4 C4]]]].
        assert (In (last, PParagraph) (A ++ ([] ++ [(last, PParagraph)]) ++ [])) as Hin4 by (apply in_or_app; right; left; reflexivity).
        destruct (CE SInv_entry _ _ _ _ _ _ _ HF4 Hin4) as [l4 [El4 [Kl4 _]]].
        assert (fin_lines src (blines l4)) as Ffin4 by (eapply Hfin4; [exact En2|exact El4|exact Ffin2]).
        assert (SInv FF s4 A [] []) as HF4'.
        { eapply (CE SInv_drop); [exact HF4|]. intros m Em _ _. assert (m = l4) by congruence. subst m. exact Ffin4. }
        assert (exists q4, bpar l4 = Some q4) as [q4 Pl4].
        { destruct (bpar l4) as [q|] eqn:Pq; [eauto|]. pose proof (proj2 (T6 l4 El4) Pq). discriminate. }
        destruct (tailH_q FF (sth_s x s4) A [] [] parent node PSetext blank (Some (last, PParagraph)) n4 h5 s5 h6 log)
          as [Es5' [Hatt [_ HQ6]]]; cbn [hx_s sth_s]; auto.
        -- split; [exact HF4'|split; assumption].
        -- congruence.
        -- apply C4. congruence.
        -- cbn [pkind]. cbn [pkind] in Kn. congruence.
        -- intros Hi. apply Hni. cbn [app] in *. rewrite app_nil_r in Hi. rewrite ids_app in *. apply in_or_app. left. exact Hi.
        -- intros l' lp' E. injection E as <- <-. split; [auto|]. eauto.
        -- cbn [bind]. cbn [hx_s sth_s] in *. rewrite Eh5. cbn [bind hx_s sth_s st_h s_h].
           apply hupd_ok in Eh5. destruct Eh5 as [n5 [En5 ->]]. assert (n5 = n4) by congruence. subst n5.
           rewrite (Hatt last PParagraph eq_refl). cbn [bind negb hx_s sth_s st_h s_h].
           subst s5. cbn [st_h s_h s_c] in Eh6. rewrite Eh6. cbn [bind].
           eexists. split; [reflexivity|]. cbn [try_rel hx_s sth_s]. csplit; auto.
           eapply QLg_QO; [|exact HQ6]. cbn [hx_s sth_s st_c st_h s_c]. apply (CE Oeq_push). exact HO4.
    + (* an ordinary Open *)
      pose proof (Hrpf eq_refl) as Hbp. cbn [bind] in H. bind_inv H h2 Eh2. bind_inv H s2 Es2. bind_inv H h3 Eh3.
      destruct (tailH_q WW (sth_s x s1) A D N parent node bp blank (last_opened (s_c (hx_s x))) n h2 s2 h3 log)
        as [Es2' [Hatt [_ HQ3]]]; cbn [hx_s sth_s]; auto.
      * split; [exact HW1|split; assumption].
      * intros last lp Elo.
        assert (In last (ids (A ++ D ++ N))) as Hin.
        { pose proof (CC last_opened_spec _ _ HO) as Hs. rewrite Elo in Hs. destruct Hs as [E' HE]. rewrite HE, (CC ids_snoc).
          apply in_or_app. right. left. reflexivity. }
        split; [apply Hold in Hin; lia|]. destruct (CE opened_attached _ _ _ _ _ _ HS Hin) as [q [nx [Ex' Px]]].
        exists nx, q. split; [rewrite Eh1; apply nth_app_old_h; exact Ex'|exact Px].
      * cbn [bind hx_s sth_s]. rewrite Eh2. cbn [bind hx_s sth_s st_h s_h].
        apply hupd_ok in Eh2. destruct Eh2 as [n2 [En2 ->]]. assert (n2 = n) by congruence. subst n2.
        destruct (last_opened (s_c (hx_s x))) as [[last lp]|] eqn:Elo0; [rewrite (Hatt last lp eq_refl)|].
        all: cbn [bind negb hx_s sth_s st_h s_h s_c]; subst s2; cbn [st_h s_h s_c] in Eh3; rewrite Eh3; cbn [bind].
        all: assert (QO (sth_s x (st_c (st_h (st_h s1 (hset (s_h s1) node (set_blank n blank))) h3) (push_opened (s_c s1) (node, bp))))) as HQO
          by (eapply QLg_QO; [|exact HQ3]; cbn [hx_s sth_s st_c st_h s_c]; rewrite app_assoc; rewrite <- (app_assoc A D N);
              apply (CE Oeq_push); exact HO1).
        all: destruct hch; injection H as <-; eexists; (split; [reflexivity|]); cbn [try_rel hx_s sth_s]; csplit; auto.
Qed.


(* ---------- the loop of openBlocks ---------- *)
Lemma open_blocks_loopH_q blank : forall fuel parent x D N res cont res' cont' s',
  TPre (hx_s x) D N parent -> Trk (hx_s x) D N res cont -> QO x ->
  OBL fuel parent blank cont res (hx_s x) = Ok (res', cont', s') ->
  exists x', OBLH fuel parent blank cont res x = Ok (res', cont', x') /\ hx_s x' = s' /\ QO x'.
Proof.
  induction fuel as [|f IH]; intros parent x D N res cont res' cont' s' HP HT HQ H; [discriminate|].
  cbn [open_blocks_loop] in H. cbn [open_blocks_loopH]. bind_inv H y Ex. destruct y as [[s1 line] sg].
  rewrite Ex. cbn [bind].
  pose proof HP as [[HS [HO Hu]] [Hpar Htop]].
  destruct (CC peek_s_ok _ _ _ _ _ _ _ HS Ex) as [HS1 [Eh1 [Ec1 _]]].
  bind_inv H y Ey. destruct y as [s2 off]. rewrite Ey. cbn [bind].
  destruct (CC loff_s_ok _ _ _ _ _ _ HS1 Ey) as [HS2 [Eh2 [Ec2 _]]].
  destruct (indent_width (line_of line) off) as [w pos].
  match type of H with context [st_c s2 ?c] => set (c3 := c) in * end.
  assert (c_tmp_para c3 = c_tmp_para (s_c s2) /\ c_fence c3 = c_fence (s_c s2) /\ c_refs c3 = c_refs (s_c s2) /\
          c_arr c3 = c_arr (s_c s2) /\ c_len c3 = c_len (s_c s2)) as [C1 [C2 [C3 [C4 C5]]]].
  { unfold c3. destruct (zlen (line_of line) <=? w); cbn [cset_off c_tmp_para c_fence c_refs c_arr c_len]; auto. }
  assert (TPre (st_c s2 c3) D N parent) as HP3.
  { eapply (CJ TPre_same s0 A D0 cont0); [exact HP|apply (CC SInv_ctx); auto|cbn [st_c s_c]; congruence|cbn [st_c s_c]; congruence]. }
  assert (Trk (st_c s2 c3) D N res cont) as HT3.
  { eapply (CJ Trk_same s0 A D0 cont0); [exact HT|cbn [st_c s_h]; congruence|cbn [st_c s_c]; congruence]. }
  assert (QO (sth_s x (st_c s2 c3))) as HQ3.
  { apply QO_same; [exact HQ|cbn [st_c s_h]; congruence|cbn [st_c s_c]; congruence|cbn [st_c s_c]; congruence]. }
  match type of H with (if ?b then _ else _) = _ => destruct b end.
  - injection H as <- <- <-. eexists. split; [reflexivity|]. split; [reflexivity|exact HQ3].
  - bind_inv H t Et. pose proof (CJ try_parsers_ok s0 A D0 cont0 _ _ _ _ _ _ _ _ _ _ HP3 HT3 Et) as Ht.
    destruct (try_parsersH_q blank w _ (sth_s x (st_c s2 c3)) D N parent res cont t HP3 HT3 HQ3 Et) as [tH [EtH Hrel]].
    cbn [hx_s sth_s] in EtH. rewrite EtH. cbn [bind].
    destruct t as [p' c' r' st'|r' st']; destruct tH as [p'' c'' r'' x''|r'' x'']; cbn [try_rel] in Hrel; try contradiction.
    + destruct Hrel as [-> [-> [-> [Ex'' HQ'']]]]. destruct Ht as [D' [N' [HP' HT']]].
      subst st'. eapply IH; eassumption.
    + destruct Hrel as [-> [Ex'' HQ'']]. injection H as <- <- <-. eexists. split; [reflexivity|]. split; assumption.
Qed.

End Track.

(* ---------- openBlocks ---------- *)
Lemma QO_hstep x s' : QO x -> hstep no_exc (s_h (hx_s x)) (s_h s') -> closed (s_h (hx_s x)) ->
  c_arr (s_c s') = c_arr (s_c (hx_s x)) -> c_len (s_c s') = c_len (s_c (hx_s x)) -> QO (sth_s x s').
Proof.
  intros HQ Hst Hcl Ea El. unfold QO in *. cbn [hx_s sth_s]. unfold opened in *. rewrite Ea, El.
  apply (CD QH_QL). eapply (CD QL_hstep) with (exc := no_exc); [apply (CD QH_QL); exact HQ|exact Hst|exact Hcl|intros j []].
Qed.

Lemma open_blocksH_q fuel parent blank x A D res s' : OInv FF (hx_s x) A D [] -> topC A -> parent = lastid (ids A) ->
  QO x -> OB fuel parent blank (hx_s x) = Ok (res, s') ->
  exists x', OBH fuel parent blank x = Ok (res, x') /\ hx_s x' = s' /\ QO x'.
Proof.
  intros HO0 Htop Hpar HQ H. unfold open_blocks in H. unfold open_blocksH. bind_inv H cont0 Ec0. rewrite Ec0. cbn [bind].
  bind_inv H y Ex. destruct y as [[res1 cont1] s1].
  assert (TPre A (hx_s x) D [] parent) as HP.
  { split; [exact HO0|]. rewrite app_nil_r. auto. }
  assert (Trk (hx_s x) D cont0 (hx_s x) D [] noBlocksOpened cont0) as HT.
  { constructor; auto. - intros Hc. split; [exact Hc|]. intros _. split; [reflexivity|apply shape_le_refl]. - intros y []. }
  destruct (CJ open_blocks_loop_ok (hx_s x) A D cont0 blank _ _ _ _ _ _ _ _ _ _ HP HT Ex) as [D' [N' [HW1 [HT1 HF1]]]].
  destruct (open_blocks_loopH_q (hx_s x) A D cont0 blank _ _ x _ _ _ _ _ _ _ HP HT HQ Ex) as [x1 [Ex1 [Eh1 HQ1]]].
  rewrite Ex1. cbn [bind]. subst s1.
  destruct ((res1 =? noBlocksOpened) && cont1)%bool eqn:Ecnd.
  - apply andb_true_iff in Ecnd. destruct Ecnd as [Er1 ->]. apply Z.eqb_eq in Er1. subst res1.
    destruct (tk_res _ _ _ _ _ _ _ _ HT1) as [[_ ->]|[Hr _]]; [|discriminate].
    destruct (tk_cont _ _ _ _ _ _ _ _ HT1 eq_refl) as [-> Hc]. destruct (Hc eq_refl) as [-> Hsh1].
    pose proof (HF1 eq_refl) as [HS1 [HO1 Hu1]].
    destruct (last_opened (s_c (hx_s x1))) as [[l lp]|] eqn:Elo; [|discriminate].
    bind_inv H y Ey. destruct y as [[s2 c2] k2]. injection H as <- <-. rewrite Ey. cbn [bind].
    pose proof (CC last_opened_spec _ _ HO1) as Hs. rewrite Elo in Hs. destruct Hs as [E' HE].
    assert (In (l, lp) (A ++ D ++ [])) as Hin by (rewrite HE; apply in_or_app; right; left; reflexivity).
    destruct (CE SInv_entry _ _ _ _ _ _ _ HS1 Hin) as [nl [Enl [Knl _]]].
    assert (lp = PParagraph) as ->.
    { destruct HO0 as [HS0 [HO0 Hu0]]. rewrite HE in HO0. rewrite (CE Oeq_last _ _ _ HO0) in Ec0.
      unfold is_paragraph in Ec0. bind_inv Ec0 nl0 Enl0. apply hget_ok in Enl0. injection Ec0 as Ek. apply (CC bkind_eqb_eq) in Ek.
      destruct (CE SInv_entry _ _ _ _ _ _ _ HS0 Hin) as [n0 [En0 [K0 _]]]. assert (n0 = nl0) by congruence. subst n0.
      apply (CE pkind_para). congruence. }
    assert (c_arr (s_c s2) = c_arr (s_c (hx_s x1)) /\ c_len (s_c s2) = c_len (s_c (hx_s x1))) as [Ea El].
    { pose proof Ey as Ey'. cbn [BlockParse.p_continue] in Ey'. bind_inv Ey' z Ez. destruct z as [s2' c2']. cbn [fst snd] in Ey'.
      injection Ey' as <- <- <-.
      destruct (CC paragraph_continue_ok _ _ _ _ _ _ _ HS1 Hin Ez) as [Ea [El _]]. auto. }
    eexists. split; [reflexivity|]. split; [reflexivity|].
    apply QO_hstep; auto.
    + eapply p_continue_hstep; eassumption.
    + eapply (CD closed_SInv). exact HS1.
  - injection H as <- <-. eexists. split; [reflexivity|]. split; [reflexivity|exact HQ1].
Qed.

End D.
