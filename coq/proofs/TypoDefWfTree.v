(* The tree passes of the parser model with extension.Typographer and extension.DefinitionList
   (model/TypoDefParseD.v to_treeD, model/TypoDefParse.v attach_inlinesTD): to_treeD yields block
   kinds only; attach_inlinesTD, which threads the quote counters of the typographer through the
   document, keeps a tree well formed when the inline phase yields well-formed children, and
   never fails when the inline phase is total on the lines of the inline-bearing blocks.
   Counterparts of ParseCompose.v (to_tree_block_kinds, attach_wf) and ParseFinal.v (attach_total). *)
Require Import GM.model.Base GM.model.Util GM.model.Reader GM.model.ReaderSpec GM.model.Regex GM.model.HtmlWriter GM.model.Html GM.model.HtmlSpec
               GM.model.BlockParse GM.model.InlineParse GM.model.TypoDefParseT GM.model.TypoDefParseD GM.model.TypoDefParse.
Require Import GM.proofs.ParseInv GM.proofs.ParseCompose GM.proofs.TypoDefWfDefs GM.proofs.TypoDefConservativeTree.
From Coq Require Import List ZArith Bool Lia.
Import ListNotations.
Open Scope Z_scope.

(* ---------- to_treeD ---------- *)
Lemma kind_ofD_block_kind src n k : kind_ofD src n = Ok k -> block_kindTD k = true.
Proof.
  unfold kind_ofD. intros H.
  destruct (is_dl n); [apply pc_Ok_inj in H as <-; reflexivity|].
  destruct (is_dt n); [apply pc_Ok_inj in H as <-; reflexivity|].
  destruct (is_dd n); [apply pc_Ok_inj in H as <-; reflexivity|].
  apply block_kind_TD. exact (kind_of_block_kind src n k H).
Qed.

Theorem to_treeD_block_kinds : forall fuel src h i t, to_treeD fuel src h i = Ok t -> all_kinds block_kindTD t = true.
Proof.
  induction fuel as [|f IH]; intros src h i t H; cbn [to_treeD] in H; [discriminate|].
  apply pc_bind_ok in H as (n & _ & H). apply pc_bind_ok in H as (k & Hk & H).
  apply pc_bind_ok in H as (kids & Hkids & H). apply pc_Ok_inj in H as <-.
  rewrite all_kinds_unfold. rewrite (kind_ofD_block_kind _ _ _ Hk). cbn [andb].
  apply map_res_forall2 in Hkids. apply forallb_forall. intros y Hy.
  induction Hkids as [|x y' xs ys Hxy Hrest IHrest]; [destruct Hy|].
  destruct Hy as [<- | Hy]; [exact (IH _ _ _ _ Hxy) | exact (IHrest Hy)].
Qed.

(* ---------- attach_inlinesTD: well-formedness ---------- *)
Section AttachWf.
Variable src : bytes.
Variable inl : Z * Z -> list seg -> result (list tree * (Z * Z)).
Hypothesis inl_ok : forall cnt lines ts cnt', linesTD_ok src lines -> inl cnt lines = Ok (ts, cnt') ->
  Forall (fun t => wf_node src false false t = true) ts.

Theorem attachTD_wf : forall t cnt t' cnt',
  all_kinds block_kindTD t = true ->
  wf_node src false false t = true -> tree_lines_okTD src t = true ->
  attach_inlinesTD inl cnt t = Ok (t', cnt') -> wf_node src false false t' = true.
Proof.
  intros t. induction t as [k l a kids IH] using tree_ind_forall.
  intros cnt t' cnt' Hkinds Hwf Hlines Hatt.
  rewrite all_kinds_unfold in Hkinds. apply andb_true_iff in Hkinds as [Hk Hkinds].
  rewrite wf_node_unfold in Hwf. apply andb_true_iff in Hwf as [Hwf Hwfk].
  apply andb_true_iff in Hwf as [Hnode Hcell].
  rewrite tree_lines_okTD_unfold in Hlines. apply andb_true_iff in Hlines as [Hl Hlk].
  rewrite attach_inlinesTD_unfold in Hatt.
  destruct (block_kindTD_flags k Hk) as (Hf1 & Hf2 & Hf3).
  rewrite Hf2, Hf3 in Hwfk.
  destruct (has_inlinesTD k) eqn:Hhas.
  - apply pc_bind_ok in Hatt as ([ch c1] & Hch & Hatt). apply pc_Ok_inj in Hatt. cbn [fst snd] in Hatt. injection Hatt as <- <-.
    rewrite wf_node_unfold. rewrite (node_ok_blockTD_children src false k l a ch kids Hk), Hnode, Hcell.
    rewrite Hf2, Hf3. cbn [andb].
    apply linesTD_ok_b_spec in Hl.
    apply forallb_forall. apply Forall_forall. exact (inl_ok cnt l ch c1 Hl Hch).
  - apply pc_bind_ok in Hatt as ([kids' c1] & Hk' & Hatt). apply pc_Ok_inj in Hatt. cbn [fst snd] in Hatt. injection Hatt as <- <-.
    rewrite wf_node_unfold. rewrite (node_ok_blockTD_children src false k l a kids' kids Hk), Hnode, Hcell.
    rewrite Hf2, Hf3. cbn [andb].
    clear Hnode Hcell Hl Hhas.
    revert cnt kids' c1 Hk' Hkinds Hwfk Hlk.
    induction IH as [|x r IHx _ IHr]; intros cnt kids' c1 Hk' Hkinds Hwfk Hlk; cbn [attach_listTD] in Hk'.
    + apply pc_Ok_inj in Hk'. injection Hk' as <- <-. reflexivity.
    + apply pc_bind_ok in Hk' as ([y cy] & Hy & Hk'). apply pc_bind_ok in Hk' as ([z cz] & Hz & Hk').
      apply pc_Ok_inj in Hk'. cbn [fst snd] in Hk', Hz. injection Hk' as <- <-.
      cbn [forallb] in *.
      apply andb_true_iff in Hkinds as [Hkx Hkr]. apply andb_true_iff in Hwfk as [Hwx Hwr].
      apply andb_true_iff in Hlk as [Hlx Hlr].
      rewrite (IHx cnt y cy Hkx Hwx Hlx Hy). cbn [andb]. exact (IHr cy z cz Hz Hkr Hwr Hlr).
Qed.
End AttachWf.

(* ---------- attach_inlinesTD: totality ---------- *)
Section AttachTotal.
Variable src : bytes.
Variable inl : Z * Z -> list seg -> result (list tree * (Z * Z)).
Hypothesis inl_total : forall cnt lines, linesTD_ok src lines -> exists x, inl cnt lines = Ok x.

Theorem attachTD_total : forall t cnt, tree_lines_okTD src t = true -> exists x, attach_inlinesTD inl cnt t = Ok x.
Proof.
  intros t. induction t as [k l a kids IH] using tree_ind_forall. intros cnt Hl.
  rewrite tree_lines_okTD_unfold in Hl. apply andb_true_iff in Hl as [Hl Hk].
  rewrite attach_inlinesTD_unfold. destruct (has_inlinesTD k).
  - apply linesTD_ok_b_spec in Hl. destruct (inl_total cnt l Hl) as [x Hx]. rewrite Hx. cbn [bind]. eexists. reflexivity.
  - assert (HL : exists x, attach_listTD inl cnt kids = Ok x).
    { clear Hl. revert cnt Hk. induction IH as [|x r IHx _ IHr]; intros cnt Hk; cbn [attach_listTD].
      - eexists. reflexivity.
      - cbn [forallb] in Hk. apply andb_true_iff in Hk as [Hkx Hkr].
        destruct (IHx cnt Hkx) as [y Hy]. rewrite Hy. cbn [bind].
        destruct (IHr (snd y) Hkr) as [z Hz]. rewrite Hz. cbn [bind]. eexists. reflexivity. }
    destruct HL as [x Hx]. rewrite Hx. cbn [bind]. eexists. reflexivity.
Qed.
End AttachTotal.
