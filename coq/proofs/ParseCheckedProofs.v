(* End-to-end statements about ConvertModelC (model/ParseChecked.v): the renderer theorems
   composed with the checked parser model. *)
Require Import GM.model.Base GM.model.Util GM.model.Reader GM.model.HtmlWriter GM.model.Html GM.model.HtmlSpec GM.model.HtmlI
               GM.model.ParseI GM.model.ParseChecked.
Require Import GM.proofs.HtmlConcrete.
From Coq Require Import Bool.

Lemma ParseTreeC_ok src t : ParseTreeC src = Ok t -> ParseTree src = Ok t /\ wf_tree src t = true.
Proof.
  unfold ParseTreeC. destruct (ParseTree src) as [t'| |]; cbn [bind]; try discriminate.
  destruct (wf_tree src t') eqn:W; try discriminate. intros H. injection H as <-. split; [reflexivity|exact W].
Qed.

Lemma ConvertModelC_ok c src o : ConvertModelC c src = Ok o ->
  exists t, ParseTreeC src = Ok t /\ RenderHTML c src t = Ok o.
Proof.
  unfold ConvertModelC. destruct (ParseTreeC src) as [t| |]; cbn [bind]; try discriminate.
  intros H. exists t. split; [reflexivity|exact H].
Qed.

(* whatever the checked pipeline returns, the unchecked one returns too *)
Theorem ConvertModelC_agrees c src o : ConvertModelC c src = Ok o -> ConvertModel c src = Ok o.
Proof.
  intros H. destruct (ConvertModelC_ok _ _ _ H) as (t & Ht & Hr).
  destruct (ParseTreeC_ok _ _ Ht) as [Hp _]. unfold ConvertModel. rewrite Hp. exact Hr.
Qed.

Theorem ConvertModelC_safe_inert c src o : unsafe c = false -> ConvertModelC c src = Ok o -> Inert o.
Proof.
  intros Hu H. destruct (ConvertModelC_ok _ _ _ H) as (t & Ht & Hr).
  destruct (ParseTreeC_ok _ _ Ht) as [_ Hw]. exact (RenderHTML_safe_inert c src t o Hu Hw Hr).
Qed.

Theorem ConvertModelC_safe_inert_xhtml c src o : unsafe c = false -> xhtml c = true ->
  ConvertModelC c src = Ok o -> InertX o.
Proof.
  intros Hu Hx H. destruct (ConvertModelC_ok _ _ _ H) as (t & Ht & Hr).
  destruct (ParseTreeC_ok _ _ Ht) as [_ Hw]. exact (RenderHTML_safe_inert_xhtml c src t o Hu Hx Hw Hr).
Qed.

(* once the parser model has produced its (checked) tree, rendering cannot fail *)
Theorem ConvertModelC_render_total c src t : ParseTreeC src = Ok t -> exists o, ConvertModelC c src = Ok o.
Proof.
  intros Ht. destruct (ParseTreeC_ok _ _ Ht) as [_ Hw].
  destruct (RenderHTML_total c src t Hw) as [o Ho]. exists o. unfold ConvertModelC. rewrite Ht. exact Ho.
Qed.
