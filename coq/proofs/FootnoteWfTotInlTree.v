(* itreeF (model/FootnoteParseInline.v) is total on a well-formed acyclic heap whose FootnoteLink
   nodes (IEmphasis l with l <= -3) all carry a serial -3 - l that is a position of the link list.
   Port of itree_total / itree_root_total of proofs/ParseInlineTotalTree.v. *)
Require Import GM.model.Base GM.model.Util GM.model.Reader GM.model.ReaderSpec GM.model.ListItem GM.model.LeafBlocks
               GM.model.CodeSpan GM.model.LinkDest GM.model.Regex GM.model.Delim GM.model.BlockParse GM.model.Html GM.model.InlineParse
               GM.model.FootnoteX GM.model.FootnoteParseBlock GM.model.FootnoteParseInline.
Require Import GM.proofs.MiscProofs GM.proofs.BReaderProofs GM.proofs.BlockRangeProofs GM.proofs.ParseInv.
Require Import GM.proofs.ParseInlineTotalHeap GM.proofs.ParseInlineTotalTree GM.proofs.ParseInlineTotalReader2.
From Coq Require Import ZArith Lia List Arith Bool.
Import ListNotations.
Open Scope Z_scope.

(* every emphasis node of the heap has a level above -3 - n: a real emphasis (level 1 or 2), or a
   FootnoteLink with a serial below n *)
Definition EB (n : Z) (h : iheap) : Prop := forall y l, kd h y = Some (IEmphasis l) -> -3 - n < l.

Lemma EB_mono n n' h : n <= n' -> EB n h -> EB n' h.
Proof. intros Hn H y l E. specialize (H y l E). lia. Qed.

Section TravF.
Variable rk : nat -> nat.
Variable h : iheap.
Hypothesis W : HWF h.
Hypothesis R : Ranked rk h.
Variable links : list Z.
Hypothesis HE : EB (zlen links) h.

Lemma itreeF_total src lo : KOKh src lo h -> forall fuel S i,
  (length S < fuel)%nat -> (forall y, In y S -> (y < length h)%nat) -> closed h S -> In i S ->
  exists t, itreeF fuel src h links i = Ok t.
Proof.
  intros K. induction fuel as [|f IH]; intros S i Hf Hlt C Hi; [lia|].
  cbn [itreeF]. destruct (nth_error_ex_lt h i (Hlt i Hi)) as [n Hn]. rewrite (iget_ok _ _ _ Hn). cbn [bind].
  assert (Ech : ich n = chl h i) by (unfold chl; rewrite Hn; reflexivity).
  destruct (map_res_total (itreeF f src h links) (ich n)) as [kids Ek].
  { intros c Hc. rewrite Ech in Hc. apply (IH (above rk i S) c).
    - pose proof (above_lt rk i S Hi). lia.
    - intros y Hy. apply in_above in Hy. apply Hlt. tauto.
    - apply (closed_above rk h W R). exact C.
    - apply (children_above rk h W R); assumption. }
  rewrite Ek. cbn [bind].
  assert (Hk : kd h i = Some (ik n)) by (unfold kd; rewrite Hn; reflexivity).
  pose proof (K i _ Hk) as Kk.
  destruct (ik n) as [| | |l| | | | | |] eqn:Eik; cbn [bind]; try (eexists; reflexivity).
  - pose proof (HE i l Hk) as Hl. destruct (Z.leb_spec l (-3)) as [Hle|Hgt]; [|eexists; reflexivity].
    destruct (nth_error_ex_lt links (Z.to_nat (-3 - l))) as [idx Eidx]; [unfold zlen in Hl; lia|].
    rewrite Eidx. cbn [bind]. eexists. reflexivity.
  - cbn in Kk. destruct Kk as (Hs & Hp & Hfn).
    destruct (seg_value_total src s) as [v Ev]; [exact Hs|lia|]. rewrite Ev. cbn [bind]. eexists. reflexivity.
Qed.
End TravF.

Lemma itreeF_root_total src lo h links : HWF h -> Acyc h -> KOKh src lo h -> EB (zlen links) h ->
  exists t, itreeF (S (length h)) src h links 0 = Ok t.
Proof.
  intros W [rk R] K HE. apply (itreeF_total rk h W R links HE src lo K (S (length h)) (seq 0 (length h)) 0%nat).
  - rewrite seq_length. lia.
  - intros y Hy. apply in_seq in Hy. lia.
  - intros y Hy c Hc. apply in_seq. pose proof (hwf_child_lt h y c W Hc). lia.
  - apply in_seq. pose proof (w_len h W). lia.
Qed.
