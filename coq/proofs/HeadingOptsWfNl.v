(* Shared definitions of the HeadingOptsWf*.v files, second part: every line of a heading but the last
   ends at the end of the source or just behind a newline byte (it is a complete line of the source:
   only the last line of a paragraph is trimmed on the right / cut by parseLastLineAttributes).
   The inline phase needs this when the last line segment is empty (proofs/HeadingOptsWfInl.v: with a
   gap between an incomplete line and the empty segment the block reader changes the line inside
   Advance and parseBlock drops a text node). *)
Require Import GM.model.Base GM.model.Util GM.model.Reader GM.model.ListItem GM.model.HtmlWriter GM.model.Html GM.model.HtmlSpec
               GM.model.BlockParse GM.model.InlineParse.
Require Import GM.proofs.ParseInv GM.proofs.HeadingOptsWfDefs.
From Coq Require Import List ZArith NArith Bool Lia.
Import ListNotations.
Open Scope Z_scope.

(* the segment ends at the end of the source or just behind a newline *)
Definition seg_nl_b (src : bytes) (sg : seg) : bool :=
  (s_stop sg =? zlen src) || N.eqb (nth_byte src (s_stop sg - 1)) 10%N.
(* all lines but the last *)
Definition lines_nlH_b (src : bytes) (lines : list seg) : bool := forallb (seg_nl_b src) (removelast lines).

(* what the block phase with the heading options guarantees about the lines handed to the inline phase *)
Definition lines_okN_b (src : bytes) (lines : list seg) : bool := lines_okH_b src lines && lines_nlH_b src lines.

Fixpoint tree_lines_okN (src : bytes) (t : tree) {struct t} : bool :=
  match t with
  | Node k lines _ kids =>
    (if has_inlines k then
       if is_heading_kind k then lines_okN_b src lines
       else forallb (seg_ok_b src) lines && segs_sorted_b lines
     else true) &&
    (fix go (l : list tree) : bool := match l with [] => true | x :: r => tree_lines_okN src x && go r end) kids
  end.

Lemma tree_lines_okN_unfold src k l a kids :
  tree_lines_okN src (Node k l a kids) =
  (if has_inlines k then
     if is_heading_kind k then lines_okN_b src l else forallb (seg_ok_b src) l && segs_sorted_b l
   else true) && forallb (tree_lines_okN src) kids.
Proof.
  cbn [tree_lines_okN]. f_equal; try reflexivity;
  (induction kids as [|x r IH]; [reflexivity|cbn [forallb]; rewrite IH; reflexivity]).
Qed.

(* a list of good lines (the block reader's hypothesis) needs nothing more: lines_okN_b is asked of
   heading lines only, and the inline phase uses lines_nlH_b only when the last segment is empty *)
Lemma lines_nlH_single src a : lines_nlH_b src [a] = true.
Proof. reflexivity. Qed.
Lemma lines_nlH_nil src : lines_nlH_b src [] = true.
Proof. reflexivity. Qed.
