(* Block quotes around plain paragraphs, inline phase: the inline children of a quoted paragraph
   (every line behind the marker prefix, so the line segments are not adjacent in the source) are
   one text node per line, and attaching the inline children to the tree of the block phase of a
   quoted document yields the full tree.  The analogue of SpecParaInline.para_inline and
   SpecParaCompose.attach_doc_blocks; the per-line steps of SpecParaInline are reused unchanged. *)
Require Import GM.model.Base GM.model.Util GM.model.UtilI GM.model.Reader GM.model.ListItem GM.model.HtmlWriter GM.model.Html
               GM.model.SpecDoc GM.model.BlockParse GM.model.InlineParse GM.model.DelimI GM.model.ParseI.
Require Import GM.gen.Tables GM.gen.Regexes.
Require Import GM.proofs.SpecParaBytes GM.proofs.SpecParaInline GM.proofs.SpecParaCompose
               GM.proofs.SpecQuoteShape GM.proofs.SpecQuoteLen.
From Coq Require Import List NArith ZArith Bool Lia.
Import ListNotations.
Open Scope Z_scope.

(* ---------- the text nodes of the lines, as (segment, soft break) pairs ---------- *)
Fixpoint qits (L off : Z) (p : list bytes) : list (seg * bool) :=
  match p with
  | [] => []
  | [b] => [(mkseg (off + L) (off + L + zlen b), false)]
  | b :: r => (mkseg (off + L) (off + L + zlen b), true) :: qits L (off + L + zlen b + 1) r
  end.

Lemma qsegs_cons2 L tl off b b' r :
  qsegs L tl off (b :: b' :: r) = mkseg (off + L) (off + L + zlen b + 1) :: qsegs L tl (off + L + zlen b + 1) (b' :: r).
Proof. reflexivity. Qed.
Lemma qits_cons2 L off b b' r :
  qits L off (b :: b' :: r) = (mkseg (off + L) (off + L + zlen b), true) :: qits L (off + L + zlen b + 1) (b' :: r).
Proof. reflexivity. Qed.
Lemma qtexts_cons2 L off b b' r :
  qtexts L off (b :: b' :: r) = text_node (off + L) b true :: qtexts L (off + L + zlen b + 1) (b' :: r).
Proof. reflexivity. Qed.

Lemma qsegs_cons L tl off b rest : exists s r, qsegs L tl off (b :: rest) = s :: r.
Proof. destruct rest as [|b' rest]; cbn [qsegs]; eauto. Qed.
Lemma qsegs_length L tl : forall p off, length (qsegs L tl off p) = length p.
Proof.
  induction p as [|b [|b' r] IH]; intros off; [reflexivity|reflexivity|].
  rewrite qsegs_cons2. cbn [length] in IH |- *. rewrite IH. reflexivity.
Qed.
Lemma qits_texts L : forall p off, map ttree (qits L off p) = qtexts L off p.
Proof.
  induction p as [|b [|b' r] IH]; intros off; [reflexivity|reflexivity|].
  rewrite qits_cons2, qtexts_cons2. cbn [map]. rewrite IH. reflexivity.
Qed.
(* the stop of the last segment *)
Lemma last_qsegs L : forall p off d, p <> [] -> s_stop (last (qsegs L 0 off p) d) = off + plen L p.
Proof.
  induction p as [|b [|b' r] IH]; intros off d Hp; [congruence|cbn [qsegs last s_stop mkseg plen]; lia|].
  rewrite qsegs_cons2.
  destruct (qsegs_cons L 0 (off + L + zlen b + 1) b' r) as (s & tl & E).
  rewrite E. change (last (mkseg (off + L) (off + L + zlen b + 1) :: s :: tl) d) with (last (s :: tl) d).
  rewrite <- E, IH by discriminate. rewrite plen_cons2. lia.
Qed.

(* ---------- the loop over the lines of a quoted paragraph ---------- *)
Lemma loop_qpara refs src pfx post : forall rest b cons off hd ts fuel A,
  body_okb b = true -> forallb body_okb rest = true ->
  src = A ++ join nl (map (app pfx) (b :: rest)) ++ post -> off = zlen A ->
  (S (length rest) < fuel)%nat ->
  exists r', LOOP refs fuel {| t_c := ctx_of (heap_of ts);
                               t_r := rdr src (cons ++ qsegs (zlen pfx) 0 off (b :: rest)) (zlen cons)
                                          (List.hd (mkseg 0 0) (qsegs (zlen pfx) 0 off (b :: rest))) hd
                                          (off + plen (zlen pfx) (b :: rest)) |} 0%nat false
             = Ok {| t_c := ctx_of (heap_of (ts ++ qits (zlen pfx) off (b :: rest))); t_r := r' |}.
Proof.
  induction rest as [|b' rest IH]; intros b cons off hd ts fuel A Hb Hrest Hsrc Hoff Hf.
  - destruct fuel as [|[|f]]; [cbn [length] in Hf; lia|cbn [length] in Hf; lia|].
    cbn [qsegs plen List.hd qits]. cbn [map join] in Hsrc.
    pose proof (zlen_nonneg A) as HA. pose proof (zlen_nonneg pfx) as HL.
    replace (off + zlen pfx + zlen b + 0) with (off + zlen pfx + zlen b) by lia.
    replace (off + (zlen pfx + zlen b)) with (off + zlen pfx + zlen b) by lia.
    eexists. apply step_last; [exact Hb|apply zlen_nonneg| |lia|].
    + rewrite zlen_app, zlen_cons. change (zlen (@nil seg)) with 0. lia.
    + rewrite Hsrc.
      replace (A ++ (pfx ++ b) ++ post) with ((A ++ pfx) ++ b ++ post) by (rewrite <- !app_assoc; reflexivity).
      apply spi_slice_mid; rewrite zlen_app; lia.
  - destruct fuel as [|f]; [lia|].
    cbn [forallb] in Hrest. apply andb_true_iff in Hrest. destruct Hrest as [Hb' Hrest].
    rewrite qsegs_cons2, qits_cons2, plen_cons2. rewrite psrc_cons2 in Hsrc. cbn [List.hd].
    set (L := zlen pfx) in *.
    destruct (qsegs_cons L 0 (off + L + zlen b + 1) b' rest) as (nxt & tl & Enxt).
    pose proof (zlen_nonneg A) as HA. pose proof (body_ok_nonempty b Hb) as Hbpos.
    assert (HL : 0 <= L) by (apply zlen_nonneg).
    pose proof (plen_nonneg L (b' :: rest) HL) as Hrpos.
    rewrite (step_mid refs f src _ (zlen cons) (off + L) b hd _ ts nxt); [|exact Hb|apply zlen_nonneg| | | |].
    + specialize (IH b' (cons ++ [mkseg (off + L) (off + L + zlen b + 1)]) (off + L + zlen b + 1) (s_start nxt)
                     (ts ++ [(mkseg (off + L) (off + L + zlen b), true)]) f (A ++ pfx ++ b ++ [10%N]) Hb' Hrest).
      fold L in IH.
      rewrite Enxt in IH. cbn [List.hd] in IH. rewrite <- Enxt in IH.
      rewrite <- !app_assoc in IH. cbn [app] in IH.
      replace (zlen (cons ++ [mkseg (off + L) (off + L + zlen b + 1)])) with (zlen cons + 1) in IH
        by (rewrite zlen_app, zlen_cons; change (zlen (@nil seg)) with 0; lia).
      replace (off + L + zlen b + 1 + plen L (b' :: rest)) with (off + (L + zlen b + 1 + plen L (b' :: rest))) in IH by lia.
      apply IH; [rewrite Hsrc, <- !app_assoc; reflexivity| |cbn [length] in Hf |- *; lia].
      rewrite !zlen_app, zlen_cons. change (zlen (@nil N)) with 0. fold L. lia.
    + lia.
    + replace (Z.to_nat (zlen cons + 1)) with (S (length cons)) by (unfold zlen; lia).
      rewrite Enxt.
      replace (cons ++ mkseg (off + L) (off + L + zlen b + 1) :: nxt :: tl)
        with ((cons ++ [mkseg (off + L) (off + L + zlen b + 1)]) ++ nxt :: tl) by (rewrite <- app_assoc; reflexivity).
      replace (S (length cons)) with (length (cons ++ [mkseg (off + L) (off + L + zlen b + 1)])) by (rewrite app_length; cbn [length]; lia).
      apply spi_nth_error_mid.
    + rewrite Hsrc.
      replace (A ++ ((pfx ++ b) ++ nl ++ join nl (map (app pfx) (b' :: rest))) ++ post)
        with ((A ++ pfx) ++ (b ++ [10%N]) ++ join nl (map (app pfx) (b' :: rest)) ++ post)
        by (rewrite <- !app_assoc; reflexivity).
      apply spi_slice_mid; [rewrite zlen_app; fold L; lia|].
      rewrite !zlen_app, zlen_cons. change (zlen (@nil N)) with 0. fold L. lia.
    + rewrite Hsrc.
      replace (A ++ ((pfx ++ b) ++ nl ++ join nl (map (app pfx) (b' :: rest))) ++ post)
        with ((A ++ pfx) ++ b ++ (nl ++ join nl (map (app pfx) (b' :: rest))) ++ post)
        by (rewrite <- !app_assoc; reflexivity).
      apply spi_slice_mid; rewrite zlen_app; fold L; lia.
Qed.

(* ---------- the inline children of a quoted paragraph ---------- *)
Theorem qpara_inline : forall refs pre pfx p post src,
  para_ok p = true -> src = pre ++ join nl (map (app pfx) p) ++ post ->
  InlineChildren refs src (qsegs (zlen pfx) 0 (zlen pre) p) = Ok (qtexts (zlen pfx) (zlen pre) p).
Proof.
  intros refs pre pfx p post src Hp Hsrc.
  destruct (para_ok_inv p Hp) as (b & rest & -> & Hb & Hrest).
  unfold InlineChildren, inline_children, parse_block.
  destruct (qsegs_cons (zlen pfx) 0 (zlen pre) b rest) as (s0 & tl & E0).
  destruct (loop_qpara refs src pfx post rest b [] (zlen pre) (s_start s0) []
              (2 * length src + 2 * length (qsegs (zlen pfx) 0 (zlen pre) (b :: rest)) + 8)
              pre Hb Hrest Hsrc eq_refl) as (r' & Hloop).
  { rewrite qsegs_length. cbn [length]. lia. }
  cbn [app] in Hloop. change (zlen (@nil seg)) with 0 in Hloop.
  rewrite <- (last_qsegs (zlen pfx) (b :: rest) (zlen pre) s0) in Hloop by discriminate.
  rewrite E0 in Hloop |- *. cbn [List.hd] in Hloop.
  rewrite new_reader_rdr. cbn [bind].
  change init_ictx with (ctx_of (heap_of [])).
  rewrite Hloop. cbn [bind t_c].
  unfold process_delimiters. cbn [ctx_of i_dlast bind].
  unfold link_close_block. cbn [ctx_of cx_bottoms i_labels i_h i_dfirst i_dlast close_labels bind].
  rewrite itree_heap. cbn [bind t_children]. rewrite qits_texts. reflexivity.
Qed.

(* ---------- attaching the inline children in a quoted document ---------- *)
Lemma qb_qbs_attach refs :
  (forall b pfx pre post, qb_ok b = true ->
     attach_inlines (InlineChildren refs (pre ++ qb_src pfx b ++ post)) (qb_tree false (zlen pfx) (zlen pre) b)
     = Ok (qb_tree true (zlen pfx) (zlen pre) b)) /\
  (forall bs pfx sep pre post, qbs_ok bs = true ->
     attach_list (InlineChildren refs (pre ++ qbs_src pfx sep bs ++ post)) (qbs_trees false (zlen pfx) (zlen sep) (zlen pre) bs)
     = Ok (qbs_trees true (zlen pfx) (zlen sep) (zlen pre) bs)).
Proof.
  apply qb_qbs_ind.
  - intros p pfx pre post Hp. cbn [qb_ok] in Hp. cbn [qb_src qb_tree].
    rewrite attach_inlines_eq. cbn [has_inlines].
    rewrite (qpara_inline refs pre pfx p post _ Hp eq_refl). reflexivity.
  - intros st bs IH pfx pre post Hbs. cbn [qb_ok] in Hbs. cbn [qb_src qb_tree].
    rewrite attach_inlines_eq. cbn [has_inlines].
    specialize (IH (pfx ++ mk st) (pfx ++ [62%N]) pre post Hbs).
    rewrite !zlen_app in IH. change (zlen [62%N]) with 1 in IH.
    rewrite IH. reflexivity.
  - intros b IH pfx sep pre post Hb. cbn [qbs_ok] in Hb. cbn [qbs_src qbs_trees attach_list].
    rewrite (IH pfx pre post Hb). reflexivity.
  - intros b IHb r IHr pfx sep pre post Hbr. cbn [qbs_ok] in Hbr. apply andb_true_iff in Hbr. destruct Hbr as [Hb Hr].
    cbn [qbs_src qbs_trees attach_list].
    rewrite <- (app_assoc (qb_src pfx b) _ post).
    rewrite (IHb pfx pre _ Hb). cbn [bind].
    replace (pre ++ qb_src pfx b ++ (nl ++ sep ++ nl ++ qbs_src pfx sep r) ++ post)
      with ((pre ++ qb_src pfx b ++ nl ++ sep ++ nl) ++ qbs_src pfx sep r ++ post)
      by (rewrite <- !app_assoc; reflexivity).
    replace (zlen pre + qb_len (zlen pfx) b + 1 + zlen sep + 1) with (zlen (pre ++ qb_src pfx b ++ nl ++ sep ++ nl)).
    2:{ rewrite !zlen_app, qb_len_src. change (zlen nl) with 1. lia. }
    rewrite (IHr pfx sep _ post Hr). reflexivity.
Qed.

Theorem qdoc_attach : forall refs d fin, qbs_ok d = true ->
  attach_inlines (InlineChildren refs (qdoc_src d fin)) (qdoc_tree false d) = Ok (qdoc_tree true d).
Proof.
  intros refs d fin Hd. unfold qdoc_tree, qdoc_src.
  rewrite attach_inlines_eq. cbn [has_inlines].
  pose proof (proj2 (qb_qbs_attach refs) d [] [] [] (if fin then nl else []) Hd) as H.
  cbn [app] in H. change (zlen (@nil N)) with 0 in H.
  rewrite H. reflexivity.
Qed.
