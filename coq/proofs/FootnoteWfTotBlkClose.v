(* Helper file for FootnoteWfTotBlk.v (fork of ParseBlocksTotalClose.v): p_close for all parsers, closeBlocks
   of the footnote model (close_rangeF, close_blocksF) under the state invariant SI, with the frame the drivers
   need.  CHANGES: lemmas over x : stf (s := bf_s x, invariant parameter lst := bf_list x); a closed footnote gets
   another parent, hence the third alternative of the parent clause of CFrame. *)
Require Import GM.model.Base GM.model.Util GM.model.Reader GM.model.ReaderSpec GM.model.Blocks GM.model.ListItem
               GM.model.LeafBlocks GM.model.CodeBlock GM.model.LinkDest GM.model.Regex GM.model.BlockParse
               GM.model.FootnoteParseBlock.
Require Import GM.proofs.ReaderProofs GM.proofs.BlocksProofs
               GM.proofs.ParseBlocksTotalReader GM.proofs.FootnoteWfTotBlkDefs GM.proofs.FootnoteWfTotBlkSpec
               GM.proofs.FootnoteWfTotBlkSt GM.proofs.FootnoteWfTotBlkShape GM.proofs.FootnoteWfTotBlkLeaf2 GM.proofs.FootnoteWfTotBlkCont
               GM.proofs.FootnoteWfTotBlkTransform GM.proofs.FootnoteWfTotBlkPair GM.proofs.FootnoteWfTotBlkFn.
From Coq Require Import ZArith Lia List Bool.
Open Scope Z_scope.

(* ---------- the accumulated frame of closing steps ---------- *)
Definition CFrame (D : nat -> bnode -> Prop) (C : nat -> Prop) (h h' : heap) : Prop :=
  (length h <= length h')%nat /\
  forall j n, nth_error h j = Some n -> exists n', nth_error h' j = Some n' /\ bk n' = bk n /\
    (~ C j -> blines n' = blines n) /\ (bk n = BList -> bch n' = bch n) /\
    (bpar n' = bpar n \/ (bk n = BParagraph /\ D j n) \/ (bk n = BBlockquote /\ C j)).

Lemma CFrame_refl D C h : CFrame D C h h.
Proof. split; [lia|]. intros j n H. exists n. csplit; auto. Qed.

Lemma CFrame_weaken (D D' : nat -> bnode -> Prop) (C C' : nat -> Prop) h h' :
  CFrame D C h h' -> (forall j n, D j n -> D' j n) -> (forall j, C j -> C' j) -> CFrame D' C' h h'.
Proof.
  intros [L H] HD HC. split; [exact L|]. intros j n Hj. destruct (H j n Hj) as [n' (A1 & A2 & A3 & A4 & A5)].
  exists n'. csplit; auto. destruct A5 as [A5|[[A5 A6]|[A5 A6]]]; auto.
Qed.

Lemma CFrame_trans (D1 D2 D3 : nat -> bnode -> Prop) (C1 C2 C3 : nat -> Prop) h h1 h2 :
  CFrame D1 C1 h h1 -> CFrame D2 C2 h1 h2 ->
  (forall j n, D1 j n -> D3 j n) ->
  (forall j n n1, nth_error h j = Some n -> nth_error h1 j = Some n1 -> bk n1 = bk n -> bpar n1 = bpar n ->
                  D2 j n1 -> D3 j n) ->
  (forall j, C1 j -> C3 j) -> (forall j, C2 j -> C3 j) ->
  CFrame D3 C3 h h2.
Proof.
  intros [L1 H1] [L2 H2] HD1 HD2 HC1 HC2. split; [lia|]. intros j n Hj.
  destruct (H1 j n Hj) as [n1 (A1 & A2 & A3 & A4 & A5)].
  destruct (H2 j n1 A1) as [n2 (B1 & B2 & B3 & B4 & B5)].
  exists n2. csplit.
  - exact B1.
  - congruence.
  - intros NC. rewrite B3, A3; auto.
  - intros K. rewrite B4, A4; congruence.
  - destruct A5 as [A5|[[A5 A6]|[A5 A6]]].
    + destruct B5 as [B5|[[B5 B6]|[B5 B6]]]; [left; congruence| |].
      * right. left. split; [congruence|]. eapply HD2; eauto.
      * right. right. split; [congruence|]. apply HC2, B6.
    + right. left. split; [exact A5|]. apply HD1, A6.
    + right. right. split; [exact A5|]. apply HC1, A6.
Qed.

(* the frame of footnote_close as a closing step *)
Lemma CFrame_fn node h h' n : nth_error h node = Some n -> bk n = BBlockquote -> fn_close_frame node h h' ->
  CFrame (fun _ _ => False) (fun j => j = node) h h'.
Proof.
  intros Hn Kn [L H]. split; [exact L|]. intros j nj Hj. destruct (H j nj Hj) as [n' (A1 & A2 & A3 & A4 & A5)].
  exists n'. csplit; auto. destruct (Nat.eq_dec j node) as [->|Hne].
  - right. right. rewrite Hn in Hj. injection Hj as <-. auto.
  - left. apply A5, Hne.
Qed.

Section S.
Variable space_table punct_table : list N.
Variable norm : bytes -> bytes.
Variable re_t1o re_t1c re_t2 re_t3 re_t4 re_t5 re_t6 re_t7 : re.
Variable allowed_tags : list bytes.
Variable src : bytes.
Hypothesis tbl : TblOK space_table.
Notation SI := (SI space_table src).
Notation SIx x := (SI (bf_list x) (bf_s x)).
Notation close_post := (close_post space_table src).
Notation LF2 lem l := (lem space_table punct_table norm re_t1o re_t1c re_t2 re_t3 re_t4 re_t5 re_t6 re_t7 allowed_tags src l tbl).
Notation CT lem l := (lem space_table src l tbl).

Lemma close_post_id lst bp node s : SI lst s -> bp <> PFenced -> close_post lst bp node s s.
Proof.
  intros HS Hb. unfold close_post, cframe.
  split; [exact HS|]. split; [reflexivity|]. split; [auto|]. split; [auto|].
  split; [intros C; contradiction|]. split; [auto|].
  split; [lia|]. intros j n H. exists n. csplit; auto.
Qed.

Lemma p_close_ok lst bp s node n : SI lst s -> nth_error (s_h s) node = Some n -> bk n = kind_of_parser bp ->
  bpar n <> None ->
  (bp = PFenced -> c_fence (s_c s) <> None) ->
  (bp = PSetext -> blines n <> [] /\ c_tmp_para (s_c s) <> None) ->
  exists s', p_close space_table bp s node = Ok s' /\ close_post lst bp node s s'.
Proof.
  intros HS Hn Hk Hp Hf Hsx. destruct bp; cbn [p_close kind_of_parser] in *.
  - destruct (Hsx eq_refl) as [A B]. exact (LF2 setext_close_ok lst s node n HS Hn Hk A B Hp).
  - exists s. split; [reflexivity|apply close_post_id; [exact HS|discriminate]].
  - exact (CT list_close_ok lst s node n HS Hn Hk).
  - exists s. split; [reflexivity|apply close_post_id; [exact HS|discriminate]].
  - exact (LF2 code_close_ok lst s node n HS Hn Hk).
  - exists s. split; [reflexivity|apply close_post_id; [exact HS|discriminate]].
  - exact (LF2 fenced_close_ok lst s node HS (Hf eq_refl)).
  - exists s. split; [reflexivity|apply close_post_id; [exact HS|discriminate]].
  - exists s. split; [reflexivity|apply close_post_id; [exact HS|discriminate]].
  - destruct (LF2 paragraph_close_ok lst s node n HS Hn Hk) as [s' (A & B & _)]. exists s'. auto.
Qed.

(* what the top block of a closing range needs from the context *)
Definition ReadyLeaf (s : st) (node : nat) (p : bparser) : Prop :=
  (p = PFenced -> c_fence (s_c s) <> None) /\
  (p = PSetext -> c_tmp_para (s_c s) <> None /\
                  forall n, nth_error (s_h s) node = Some n -> bpar n <> None -> blines n <> []).

(* which old paragraphs one closing step may detach *)
Definition Dstep (s : st) (node : nat) (p : bparser) (j : nat) (n : bnode) : Prop :=
  j = node \/ (p = PSetext /\ c_tmp_para (s_c s) = Some j) \/
  (p = PList /\ exists c ln, bpar n = Some c /\ nth_error (s_h s) node = Some ln /\ In c (bch ln)).

Definition ctx_after_close (s s' : st) (node : nat) (p : bparser) : Prop :=
  cframe (s_c s) (s_c s') /\
  (p <> PFenced -> c_fence (s_c s') = c_fence (s_c s)) /\
  (forall ch ind fl nd, c_fence (s_c s) = Some (ch, ind, fl, nd) -> nd <> node -> c_fence (s_c s') = c_fence (s_c s)) /\
  (p <> PSetext -> c_tmp_para (s_c s') = c_tmp_para (s_c s)).

Definition close_step (x : stf) (node : nat) (p : bparser) : result stf :=
  isp <- is_paragraph (s_h (bf_s x)) node ;;
  att <- attached (s_h (bf_s x)) node ;;
  x <- (if isp && att then (y <- transform_paragraphF space_table punct_table norm x node ;; Ok (fst y)) else Ok x) ;;
  att <- attached (s_h (bf_s x)) node ;;
  (if att then p_closeF space_table p x node else Ok x).

Lemma cframe_refl c : cframe c c.
Proof. unfold cframe. auto. Qed.
Lemma cframe_trans a b c : cframe a b -> cframe b c -> cframe a c.
Proof. unfold cframe. intros (A1 & A2 & A3 & A4) (B1 & B2 & B3 & B4). csplit; congruence. Qed.

Lemma close_step_ok x node p : let s := bf_s x in
  SIx x -> In (node, p) (c_arr (s_c s)) -> ReadyLeaf s node p ->
  exists x', close_step x node p = Ok x' /\ let s' := bf_s x' in
             SIx x' /\ s_r s' = s_r s /\ ctx_after_close s s' node p /\
             CFrame (Dstep s node p) (fun j => j = node) (s_h s) (s_h s').
Proof.
  intros s0 HS Hin [Rf Rs]. cbv zeta. unfold s0 in *. clear s0. set (s := bf_s x) in *.
  destruct (ci_arr _ _ _ (si_c _ _ _ _ HS) _ Hin) as [n [Hn Hk]]. cbn [fst snd] in Hn, Hk.
  unfold close_step, is_paragraph, attached. fold s. rewrite (hget_some _ _ _ Hn). cbn [bind].
  (* first the paragraph transformer *)
  assert (exists x1, (if bkind_eqb (bk n) BParagraph && match bpar n with Some _ => true | None => false end
                      then (y <- transform_paragraphF space_table punct_table norm x node ;; Ok (fst y)) else Ok x) = Ok x1 /\
            bf_list x1 = bf_list x /\
            SIx x1 /\ s_r (bf_s x1) = s_r s /\ cframe (s_c s) (s_c (bf_s x1)) /\ c_fence (s_c (bf_s x1)) = c_fence (s_c s) /\
            c_tmp_para (s_c (bf_s x1)) = c_tmp_para (s_c s) /\
            CFrame (fun j _ => j = node) (fun j => j = node) (s_h s) (s_h (bf_s x1)) /\
            (p <> PParagraph -> x1 = x)) as [x1 (E1 & EL1 & S1 & R1 & F1 & Ff1 & Ft1 & C1 & Q1)].
  { destruct (bkind_eqb_spec (bk n) BParagraph) as [Kp|Kp]; cbn [andb].
    - destruct (bpar n) as [q|] eqn:Eq.
      + destruct (transform_paragraph_ok space_table punct_table norm src (bf_list x) tbl s node n HS Hn Kp ltac:(congruence))
          as [s1 [gone (E & T1 & T2 & T3 & T4 & T5 & T6 & T7 & T8 & _)]].
        unfold transform_paragraphF, liftF. fold s. rewrite E. cbn [bind fst snd].
        exists (stf_s x s1). cbn [stf_s bf_s bf_list]. csplit; auto.
        * destruct T8 as [L8 H8]. split; [exact L8|]. intros j nj Hj.
          destruct (H8 j nj Hj) as [n' (A1 & A2 & A3 & A4 & A5)]. exists n'. csplit; auto.
          destruct A5 as [A5|[A5 A6]]; auto.
        * intros Np. exfalso. apply Np. destruct p; cbn in Hk; congruence.
      + exists x. csplit; auto; try apply cframe_refl; try apply CFrame_refl.
    - exists x. csplit; auto; try apply cframe_refl; try apply CFrame_refl. }
  rewrite E1. cbn [bind]. set (s1 := bf_s x1) in *.
  destruct C1 as [L1 C1]. destruct (C1 node n Hn) as [n1 (Hn1 & K1 & _ & _ & P1)].
  rewrite (hget_some _ _ _ Hn1). cbn [bind].
  destruct (bpar n1) as [q|] eqn:Eq1.
  2:{ exists x1. cbv zeta. fold s1. csplit; auto.
      - unfold ctx_after_close. csplit; auto.
      - eapply CFrame_weaken; [split; [exact L1|exact C1]| |auto]. intros j y ->. left. reflexivity. }
  unfold p_closeF, is_footnote. fold s1. rewrite (hget_some _ _ _ Hn1). cbn [bind].
  destruct (is_footnote_node n1) eqn:Efn.
  - (* a footnote: it moves to the FootnoteList *)
    assert (Kb : bk n1 = BBlockquote).
    { unfold is_footnote_node in Efn. apply andb_true_iff in Efn. destruct Efn as [Efn _].
      destruct (bkind_eqb_spec (bk n1) BBlockquote); [assumption|discriminate]. }
    assert (Hnl : bf_list x1 <> Some node).
    { destruct F1 as (A & _). apply (ci_nl _ _ _ (si_c _ _ _ _ S1) (node, p)). fold s1. rewrite A. exact Hin. }
    assert (FC : exists x2, footnote_close x1 node = Ok x2 /\ SIx x2 /\
              s_r (bf_s x2) = s_r (bf_s x1) /\ s_c (bf_s x2) = s_c (bf_s x1) /\
              fn_close_frame node (s_h (bf_s x1)) (s_h (bf_s x2)))
      by (eapply footnote_close_ok; eassumption).     (* independent of the section arguments of that lemma *)
    destruct FC as [x2 (E2 & S2 & R2 & Cc2 & Fr2)].
    rewrite E2. exists x2. cbv zeta. fold s1 in R2, Cc2, Fr2. split; [reflexivity|]. split; [exact S2|]. split; [congruence|]. split.
    + unfold ctx_after_close. rewrite Cc2. csplit; auto.
    + eapply (CFrame_trans (fun j _ => j = node) (fun _ _ => False) (Dstep s node p)
                           (fun j => j = node) (fun j => j = node) (fun j => j = node)).
      * split; [exact L1|exact C1].
      * eapply CFrame_fn; eassumption.
      * intros j y ->. left. reflexivity.
      * intros j y y1 _ _ _ _ [].
      * auto.
      * auto.
  - (* a core parser *)
    assert (Hread : (p = PFenced -> c_fence (s_c s1) <> None) /\
                    (p = PSetext -> blines n1 <> [] /\ c_tmp_para (s_c s1) <> None)).
    { split.
      - intros ->. rewrite Ff1. apply Rf. reflexivity.
      - intros ->. destruct (Rs eq_refl) as [A B]. rewrite Ft1. split; [|exact A].
        unfold s1 in Hn1. rewrite (Q1 ltac:(discriminate)) in Hn1. fold s in Hn1. rewrite Hn in Hn1. injection Hn1 as <-.
        apply (B n Hn). congruence. }
    destruct (p_close_ok (bf_list x1) p s1 node n1 S1 Hn1 ltac:(congruence) ltac:(congruence) (proj1 Hread) (proj2 Hread))
      as [s2 (E2 & S2 & R2 & F2 & Ff2 & Ffn2 & Ft2 & C2)].
    unfold lift0F. rewrite E2. cbn [bind].
    exists (stf_s x1 s2). cbv zeta. cbn [stf_s bf_s bf_list]. split; [reflexivity|]. split; [exact S2|]. split; [congruence|]. split.
    + unfold ctx_after_close. csplit.
      * eapply cframe_trans; eassumption.
      * intros Np. rewrite (Ff2 Np). exact Ff1.
      * intros ch ind fl nd Ef Hne. destruct p; try (rewrite Ff2 by discriminate; exact Ff1).
        rewrite <- Ff1 in Ef. rewrite (Ffn2 eq_refl ch ind fl nd Ef Hne). exact Ff1.
      * intros Np. rewrite (Ft2 Np). exact Ft1.
    + eapply (CFrame_trans (fun j _ => j = node) (close_detach p node s1) (Dstep s node p)
                           (fun j => j = node) (fun j => j = node) (fun j => j = node)).
      * split; [exact L1|exact C1].
      * destruct C2 as [L2 H2]. split; [exact L2|]. intros j nj Hj.
        destruct (H2 j nj Hj) as [n' (A1 & A2 & A3 & A4 & A5)]. exists n'. csplit; auto.
        destruct A5 as [A5|[A5 A6]]; auto.
      * intros j y ->. left. reflexivity.
      * intros j y y1 Hy Hy1 Ky Py Hd. unfold close_detach in Hd. unfold Dstep.
        destruct p; try contradiction.
        -- right. left. split; [reflexivity|]. congruence.
        -- right. right. split; [reflexivity|]. destruct Hd as [c [ln (A & B & C)]].
           unfold s1 in B. rewrite (Q1 ltac:(discriminate)) in B. exists c, ln. csplit; auto. congruence.
      * auto.
      * auto.
Qed.

(* close_rangeF is the iteration of close_step *)
Lemma close_range_unfold x blocks k i :
  close_rangeF space_table punct_table norm x blocks (S k) i =
  if (i <? 0) || (zlen blocks <=? i) then Panic
  else match nth_error blocks (Z.to_nat i) with
       | None => Panic
       | Some (node, p) => x <- close_step x node p ;; close_rangeF space_table punct_table norm x blocks k (i - 1)
       end.
Proof.
  cbn [close_rangeF]. destruct ((i <? 0) || (zlen blocks <=? i)); [reflexivity|].
  destruct (nth_error blocks (Z.to_nat i)) as [[node p]|]; [|reflexivity].
  unfold close_step. destruct (is_paragraph (s_h (bf_s x)) node) as [isp| |]; cbn [bind]; try reflexivity.
  destruct (attached (s_h (bf_s x)) node) as [att| |]; cbn [bind]; try reflexivity.
  destruct (if isp && att then _ else _) as [x1| |]; cbn [bind]; try reflexivity.
  destruct (attached (s_h (bf_s x1)) node) as [att1| |]; cbn [bind]; reflexivity.
Qed.

(* which old paragraphs a closing range may detach: the closed nodes themselves, the temporary
   paragraph of a closed setext heading, the grandchildren of a closed list *)
Definition Dacc (h0 : heap) (c0 : pctx) (closed : list (nat * bparser)) (j : nat) (n : bnode) : Prop :=
  In j (map fst closed) \/
  (c_tmp_para c0 = Some j /\ exists H, In (H, PSetext) closed) \/
  (exists L c ln, In (L, PList) closed /\ bpar n = Some c /\ nth_error h0 L = Some ln /\ In c (bch ln)).

Fixpoint close_list (x : stf) (l : list (nat * bparser)) : result stf :=
  match l with
  | [] => Ok x
  | (node, p) :: t => x <- close_step x node p ;; close_list x t
  end.

Lemma container_ready s node p : is_container p = true -> ReadyLeaf s node p.
Proof. intros H. split; intros ->; discriminate. Qed.

Lemma close_list_ok : forall l x, let s := bf_s x in
  SIx x -> (forall e, In e l -> In e (c_arr (s_c s))) ->
  match l with [] => True | e :: t => ReadyLeaf s (fst e) (snd e) /\ Forall (fun y => is_container (snd y) = true) t end ->
  exists x', close_list x l = Ok x' /\ let s' := bf_s x' in
    SIx x' /\ s_r s' = s_r s /\ cframe (s_c s) (s_c s') /\
    (forall ch ind fl nd, c_fence (s_c s) = Some (ch, ind, fl, nd) -> ~ In (nd, PFenced) l ->
                          c_fence (s_c s') = c_fence (s_c s)) /\
    ((forall H, ~ In (H, PSetext) l) -> c_tmp_para (s_c s') = c_tmp_para (s_c s)) /\
    CFrame (Dacc (s_h s) (s_c s) l) (fun j => In j (map fst l)) (s_h s) (s_h s').
Proof.
  induction l as [|[node p] t IH]; intros x s0 HS Hin Hhd; cbv zeta; unfold s0 in *; clear s0; set (s := bf_s x) in *.
  - exists x. split; [reflexivity|]. csplit; auto; try apply cframe_refl. apply CFrame_refl.
  - cbn [close_list]. destruct Hhd as [Hr Hct]. cbn [fst snd] in Hr.
    assert (Hinc : In (node, p) (c_arr (s_c s))) by (apply Hin; left; reflexivity).
    pose proof (close_step_ok x node p) as CS. cbv zeta in CS. fold s in CS.
    destruct (CS HS Hinc Hr) as [x1 (E1 & S1 & R1 & (F1 & Ff1 & Ffn1 & Ft1) & C1)]. clear CS.
    rewrite E1. cbn [bind]. set (s1 := bf_s x1) in *.
    pose proof (IH x1) as IH1. cbv zeta in IH1. fold s1 in IH1.
    destruct (IH1 S1) as [x2 (E2 & S2 & R2 & F2 & Ff2 & Ft2 & C2)]. clear IH1.
    { intros e Hein. destruct F1 as (A & _). rewrite A. apply Hin. right. exact Hein. }
    { destruct t as [|e2 t2]; [exact I|]. inversion Hct as [|y z Hy Hz]; subst. split; [|exact Hz].
      apply container_ready, Hy. }
    set (s2 := bf_s x2) in *.
    exists x2. split; [exact E2|]. cbv zeta. fold s2. split; [exact S2|]. split; [congruence|]. split; [eapply cframe_trans; eassumption|].
    assert (Hnoleaf : forall q y, In (q, y) t -> is_container y = true).
    { intros q y Hq. rewrite Forall_forall in Hct. exact (Hct (q, y) Hq). }
    csplit.
    + intros ch ind fl nd Ef Hni.
      assert (E01 : c_fence (s_c s1) = c_fence (s_c s)).
      { destruct (bkind_eqb_spec (kind_of_parser p) BFenced) as [Kp|Kp].
        - apply (Ffn1 ch ind fl nd Ef). intros ->. apply Hni. left. destruct p; cbn in Kp; try discriminate. reflexivity.
        - apply Ff1. intros ->. apply Kp. reflexivity. }
      rewrite (Ff2 ch ind fl nd); [exact E01|congruence|]. intros Hx. apply Hni. right. exact Hx.
    + intros Hns. rewrite Ft2; [apply Ft1|].
      * intros ->. apply (Hns node). left. reflexivity.
      * intros H Hx. apply (Hns H). right. exact Hx.
    + eapply (CFrame_trans (Dstep s node p) (Dacc (s_h s1) (s_c s1) t)); [exact C1|exact C2| | | |].
      * intros j y Hd. unfold Dstep in Hd. unfold Dacc. destruct Hd as [->|[[-> Hd]|[-> Hd]]].
        -- left. left. reflexivity.
        -- right. left. split; [exact Hd|]. exists node. left. reflexivity.
        -- right. right. destruct Hd as [c [ln (A & B & C)]]. exists node, c, ln. csplit; auto. left. reflexivity.
      * intros j y y1 Hy Hy1 Ky Py Hd. unfold Dacc in *. destruct Hd as [Hd|[[Hd [H HH]]|Hd]].
        -- left. right. exact Hd.
        -- apply Hnoleaf in HH. discriminate.
        -- right. right. destruct Hd as [L [c [ln1 (A & B & C & D)]]].
           assert (HLin : In (L, PList) (c_arr (s_c s))) by (apply Hin; right; exact A).
           destruct (ci_arr _ _ _ (si_c _ _ _ _ HS) _ HLin) as [ln [Hln Kln]]. cbn [fst snd] in Hln, Kln.
           destruct C1 as [_ C1]. destruct (C1 L ln Hln) as [ln' (G1 & G2 & G3 & G4 & G5)].
           rewrite G1 in C. injection C as <-. exists L, c, ln. csplit.
           ++ right. exact A.
           ++ congruence.
           ++ exact Hln.
           ++ rewrite <- (G4 Kln). exact D.
      * intros j ->. left. reflexivity.
      * intros j Hj. right. exact Hj.
Qed.

(* the entries at indices i-cnt+1 .. i of blocks *)
Definition range_of (blocks : list (nat * bparser)) (cnt : nat) (i : Z) : list (nat * bparser) :=
  firstn cnt (skipn (Z.to_nat (i + 1 - Z.of_nat cnt)) blocks).

Lemma firstn_S_nth {A} (l : list A) k e : nth_error l k = Some e -> firstn (S k) l = firstn k l ++ [e].
Proof.
  revert l. induction k as [|k IH]; intros l He.
  - destruct l as [|y l]; [discriminate|]. cbn in He. injection He as ->. reflexivity.
  - destruct l as [|y l]; [discriminate|]. cbn [nth_error] in He.
    change (firstn (S (S k)) (y :: l)) with (y :: firstn (S k) l). rewrite (IH l He). reflexivity.
Qed.

Lemma in_firstn {A} (l : list A) n y : In y (firstn n l) -> In y l.
Proof. intros H. rewrite <- (firstn_skipn n l). apply in_or_app. left. exact H. Qed.
Lemma in_skipn {A} (l : list A) n y : In y (skipn n l) -> In y l.
Proof. intros H. rewrite <- (firstn_skipn n l). apply in_or_app. right. exact H. Qed.

Lemma nth_error_skipn_add {A} (l : list A) a k : nth_error (skipn a l) k = nth_error l (a + k).
Proof.
  revert l. induction a as [|a IH]; intros l; [reflexivity|]. destruct l as [|y l]; [destruct k; reflexivity|]. apply IH.
Qed.

Lemma range_of_S blocks k i e : Z.of_nat (S k) <= i + 1 -> nth_error blocks (Z.to_nat i) = Some e ->
  range_of blocks (S k) i = range_of blocks k (i - 1) ++ [e].
Proof.
  intros Hk He. unfold range_of.
  replace (Z.to_nat (i + 1 - Z.of_nat (S k))) with (Z.to_nat (i - 1 + 1 - Z.of_nat k)) by lia.
  set (a := Z.to_nat (i - 1 + 1 - Z.of_nat k)).
  assert (Ha : (a + k = Z.to_nat i)%nat) by (unfold a; lia).
  apply firstn_S_nth. rewrite nth_error_skipn_add. rewrite Ha. exact He.
Qed.

Lemma close_range_list blocks : forall cnt x i, Z.of_nat cnt <= i + 1 -> i < zlen blocks ->
  close_rangeF space_table punct_table norm x blocks cnt i = close_list x (rev (range_of blocks cnt i)).
Proof.
  induction cnt as [|k IH]; intros x i Hc Hi; [reflexivity|].
  rewrite close_range_unfold.
  destruct (Z.ltb_spec i 0) as [C|_]; [lia|]. destruct (Z.leb_spec (zlen blocks) i) as [C|_]; [lia|]. cbn [orb].
  destruct (nth_error_ex_lt blocks (Z.to_nat i) ltac:(unfold zlen in Hi; lia)) as [[node p] He]. rewrite He.
  rewrite (range_of_S blocks k i (node, p) Hc He). rewrite rev_app_distr. cbn [rev app close_list].
  destruct (close_step x node p) as [x1| |]; cbn [bind]; try reflexivity.
  apply IH; lia.
Qed.

(* closeBlocks(from, to) on the opened blocks: closes the entries to..from (from the top down) and
   removes them from the slice *)
Lemma zfirst_firstn {A} (l : list A) n m : (n <= m)%nat -> firstn n (firstn m l) = firstn n l.
Proof. intros H. rewrite firstn_firstn. f_equal. lia. Qed.

Lemma close_blocks_ok x from to : let s := bf_s x in
  SIx x -> 0 <= to -> to <= from + 1 -> from < Z.of_nat (c_len (s_c s)) ->
  let closed := rev (range_of (ops s) (Z.to_nat (from - to + 1)) from) in
  match closed with [] => True | e :: t => ReadyLeaf s (fst e) (snd e) /\ Forall (fun y => is_container (snd y) = true) t end ->
  exists x', close_blocksF space_table punct_table norm x from to = Ok x' /\ let s' := bf_s x' in
    SIx x' /\ s_r s' = s_r s /\
    ops s' = firstn (Z.to_nat to) (ops s) ++ skipn (Z.to_nat (from + 1)) (ops s) /\
    (forall ch ind fl nd, c_fence (s_c s) = Some (ch, ind, fl, nd) -> ~ In (nd, PFenced) closed ->
                          c_fence (s_c s') = c_fence (s_c s)) /\
    ((forall H, ~ In (H, PSetext) closed) -> c_tmp_para (s_c s') = c_tmp_para (s_c s)) /\
    CFrame (Dacc (s_h s) (s_c s) closed) (fun j => In j (map fst closed)) (s_h s) (s_h s').
Proof.
  intros s0 HS Hto Hft Hfrom closed0 Hhd. cbv zeta. unfold closed0, s0 in *. clear closed0 s0. set (s := bf_s x) in *.
  set (closed := rev (range_of (ops s) (Z.to_nat (from - to + 1)) from)) in *.
  pose proof (ci_len _ _ _ (si_c _ _ _ _ HS)) as Hlen.
  pose proof (opened_length (s_c s) Hlen) as Hol. fold (ops s) in Hol.
  unfold close_blocksF. fold s. fold (ops s).
  rewrite close_range_list by (unfold zlen; lia). fold closed.
  pose proof (close_list_ok closed x) as CL. cbv zeta in CL. fold s in CL.
  destruct (CL HS) as [x1 (E1 & S1 & R1 & (F1 & F2 & F3 & F4) & Ff1 & Ft1 & C1)]. clear CL.
  { intros e He. apply opened_in. unfold closed in He. apply in_rev in He. unfold range_of in He.
    apply in_firstn in He. eapply in_skipn. exact He. }
  { exact Hhd. }
  rewrite E1. cbn [bind]. set (s1 := bf_s x1) in *. rewrite F2.
  destruct (Z.eqb_spec from (Z.of_nat (c_len (s_c s)) - 1)) as [Ef|Ef].
  - destruct (Z.ltb_spec to 0) as [C|_]; [lia|]. destruct (Z.ltb_spec (Z.of_nat (c_len (s_c s))) to) as [C|_]; [lia|].
    cbn [orb]. eexists. split; [reflexivity|]. cbn [stf_s bf_s bf_list].
    assert (HC : CInv (bf_list x1) (s_h s1) (cset_open (s_c s1) (c_arr (s_c s1)) (Z.to_nat to))).
    { pose proof (si_c _ _ _ _ S1) as [D1 D2 D3 D4 D5]. constructor; cbn [cset_open c_arr c_len c_tmp_para c_fence]; auto.
      rewrite F1. lia. }
    split; [apply SI_set_c; assumption|]. split; [exact R1|]. csplit; auto.
    unfold ops, opened. cbn [st_c s_c cset_open c_arr c_len]. rewrite F1.
    rewrite skipn_all2 by (rewrite firstn_length; lia). rewrite app_nil_r.
    rewrite zfirst_firstn by lia. reflexivity.
  - destruct (Z.ltb_spec to 0) as [C|_]; [lia|]. destruct (Z.ltb_spec (from + 1) to) as [C|_]; [lia|].
    destruct (Z.ltb_spec (Z.of_nat (c_len (s_c s))) (from + 1)) as [C|_]; [lia|]. cbn [orb].
    eexists. split; [reflexivity|]. cbn [stf_s bf_s bf_list].
    set (moved := zskip (from + 1) (firstn (c_len (s_c s)) (c_arr (s_c s1)))).
    assert (Hmv : moved = skipn (Z.to_nat (from + 1)) (ops s)).
    { unfold moved, zskip, ops, opened. rewrite F1. reflexivity. }
    assert (Hml : length moved = (c_len (s_c s) - Z.to_nat (from + 1))%nat).
    { rewrite Hmv, skipn_length, Hol. reflexivity. }
    assert (Hzf : length (zfirst to (c_arr (s_c s1))) = Z.to_nat to).
    { unfold zfirst. rewrite firstn_length, F1. lia. }
    assert (HC : CInv (bf_list x1) (s_h s1)
              (cset_open (s_c s1) (zfirst to (c_arr (s_c s1)) ++ moved ++ skipn (Z.to_nat to + length moved) (c_arr (s_c s1)))
                         (Z.to_nat to + length moved))).
    { pose proof (si_c _ _ _ _ S1) as [D1 D2 D3 D4 D5].
      assert (Hsub : forall e, In e (zfirst to (c_arr (s_c s1)) ++ moved ++ skipn (Z.to_nat to + length moved) (c_arr (s_c s1))) ->
                               In e (c_arr (s_c s1))).
      { intros e He. apply in_app_or in He. destruct He as [He|He].
        + unfold zfirst in He. eapply in_firstn, He.
        + apply in_app_or in He. destruct He as [He|He].
          * unfold moved, zskip in He. apply in_skipn in He. eapply in_firstn, He.
          * eapply in_skipn, He. }
      constructor; cbn [cset_open c_arr c_len c_tmp_para c_fence]; try assumption.
      - rewrite !app_length, Hzf. lia.
      - intros e He. apply D2. apply Hsub, He.
      - intros e He. apply D5. apply Hsub, He. }
    split; [apply SI_set_c; assumption|]. split; [exact R1|]. csplit; auto.
    unfold ops at 1. unfold opened. cbn [st_c s_c cset_open c_arr c_len].
    rewrite app_assoc. rewrite firstn_app.
    replace (Z.to_nat to + length moved - length (zfirst to (c_arr (s_c s1)) ++ moved))%nat with O
      by (rewrite app_length, Hzf; lia).
    cbn [firstn]. rewrite app_nil_r. rewrite firstn_all2 by (rewrite app_length, Hzf; lia).
    rewrite Hmv. f_equal. unfold zfirst, ops, opened. rewrite F1. symmetry. apply zfirst_firstn. lia.
Qed.

End S.
