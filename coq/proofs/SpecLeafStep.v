(* Leaf blocks, block phase, generic steps of the driver for a block that is one node under the
   document: the outer loop up to the point where the block's first line has opened it
   (pbl_open), the tests of openBlocks on an empty line or at the end of the source, closing the
   block (close_blocks_leaf), the loop over the lines for a block of one line (lines_oneline), an
   empty line before a block in the outer loop (pbl_skip_gap). *)
Require Import GM.model.Base GM.model.Util GM.model.Reader GM.model.ListItem GM.model.Blocks GM.model.CodeBlock
               GM.model.Regex GM.model.BlockParse.
Require Import GM.gen.Tables GM.proofs.SpecParaBytes GM.proofs.SpecParaReader GM.proofs.SpecParaBlocks GM.proofs.SpecParaBlocks2
               GM.proofs.SpecLeafBytes.
From Coq Require Import List NArith ZArith Bool Lia.
Import ListNotations.
Open Scope Z_scope.

Opaque space_table punct_table.

(* ---------- contexts with a fence and block offsets ---------- *)
Definition ctxG (arr : list (nat * bparser)) (len : nat) (bo bi : Z) (fe : option (N * Z * Z * nat)) : pctx :=
  {| c_arr := arr; c_len := len; c_boff := bo; c_bind := bi; c_refs := []; c_skip_list := false;
     c_empty_item := false; c_fence := fe; c_tmp_para := None |}.
Lemma ctx_ctxG arr len : ctx arr len = ctxG arr len 0 0 None.
Proof. reflexivity. Qed.

(* ---------- bytes ---------- *)
Lemma startc_neq c k : startc c = true -> k = 32%N \/ k = 9%N \/ k = 10%N -> N.eqb c k = false.
Proof.
  unfold startc. intros H Hk. apply N.eqb_neq. intros ->.
  repeat (apply orb_true_iff in H; destruct H as [H|H]); try (apply N.eqb_eq in H; lia).
  apply wordc_range in H. lia.
Qed.
Lemma startc_indent c r off : startc c = true -> indent_width (c :: r) off = (0, 0).
Proof.
  intros H. unfold indent_width. cbn [indent_width_pos].
  rewrite (startc_neq c 32 H), (startc_neq c 9 H) by auto. reflexivity.
Qed.
Lemma startc_not_blank c r : startc c = true -> Reader.is_blank space_table (c :: r) = false.
Proof. intros H. cbn [Reader.is_blank]. rewrite (startc_not_space c H). reflexivity. Qed.

(* ---------- readers ---------- *)
Lemma r_src_advance_line r : r_src (r_advance_line r) = r_src r.
Proof.
  unfold r_advance_line, rset_peeked, rset_loff, rset_head, rset_pos, rset_line. cbn [r_src r_pos s_stop].
  destruct (s_stop (r_pos r) <? 0); reflexivity.
Qed.
Lemma rdA_fline src k pre suf line : fline suf = line ->
  rdA src k pre suf = rd src k (zlen pre) (zlen pre + zlen line) (zlen pre) None (-1).
Proof. intros <-. reflexivity. Qed.
Lemma at_line_here pre line rest : at_line (pre ++ line ++ rest) pre line rest (zlen pre) (zlen pre + zlen line).
Proof. split; [reflexivity|split; reflexivity]. Qed.

Lemma skip_blank_gen f src k a b pre line rest : at_line src pre line rest a b -> line <> [] ->
  Reader.is_blank space_table line = false ->
  r_skip_blank_lines space_table (S f) (rd src k a b a None (-1)) =
  Ok (rd src k a b a (SomeB line) (-1), lseg a b, 0, true).
Proof.
  intros Hat Hne Hb. unfold r_skip_blank_lines. cbn [skip_blank_lines].
  rewrite (peek_fresh src pre line rest k a b (-1) Hat Hne). cbn [bind]. rewrite Hb. reflexivity.
Qed.

(* ---------- heaps ---------- *)
Lemma is_paragraph_last_gen d cl nd : is_paragraph (d :: cl ++ [nd]) (S (length cl)) = Ok (bkind_eqb (bk nd) BParagraph).
Proof. unfold is_paragraph. rewrite hget_last. reflexivity. Qed.
Lemma attached_last_gen d cl nd p : bpar nd = Some p -> attached (d :: cl ++ [nd]) (S (length cl)) = Ok true.
Proof. intros H. unfold attached. rewrite hget_last. cbn [bind]. rewrite H. reflexivity. Qed.

Section Driver.
Variable norm : bytes -> bytes.
Variables re_t1o re_t1c re_t2 re_t3 re_t4 re_t5 re_t6 re_t7 : re.
Variable allowed_tags : list bytes.
Notation TRY := (try_parsers space_table punct_table norm re_t1o re_t2 re_t3 re_t4 re_t5 re_t6 re_t7 allowed_tags).
Notation OB := (open_blocks space_table punct_table norm re_t1o re_t1c re_t2 re_t3 re_t4 re_t5 re_t6 re_t7 allowed_tags).
Notation EACH := (each_opened space_table punct_table norm re_t1o re_t1c re_t2 re_t3 re_t4 re_t5 re_t6 re_t7 allowed_tags).
Notation LINES := (lines_loop space_table punct_table norm re_t1o re_t1c re_t2 re_t3 re_t4 re_t5 re_t6 re_t7 allowed_tags).
Notation PBL := (parse_blocks_loop space_table punct_table norm re_t1o re_t1c re_t2 re_t3 re_t4 re_t5 re_t6 re_t7 allowed_tags).
Notation CLOSE := (close_blocks space_table punct_table norm).
Notation POPEN := (p_open space_table re_t1o re_t2 re_t3 re_t4 re_t5 re_t6 re_t7 allowed_tags).
Notation PCLOSE := (p_close space_table).
Notation PCONT := (p_continue space_table re_t1c).

(* ---------- a parser that opens a block without children under the document ---------- *)
(* the tail of try_parsers once the parser bp has allocated the detached node nd0 *)
Lemma try_opened bp rest cs cl arr bo bi fe nd0 r blank s0 :
  last_opened (s_c s0) = None ->
  POPEN bp s0 0%nat = Ok (mkst ((dnode cs :: cl) ++ [nd0]) (ctxG arr 0 bo bi fe) r, Some (S (length cl), false, false)) ->
  TRY (bp :: rest) 0%nat blank false noBlocksOpened 0 s0 =
  Ok (TDone newBlocksOpened
        (mkst (dnode (cs ++ [S (length cl)]) :: cl ++ [set_par (set_blank nd0 blank) (Some 0%nat)])
              (ctxG ((S (length cl), bp) :: skipn 1 arr) 1 bo bi fe) r)).
Proof.
  intros Hlast Hopen. cbn [try_parsers andb]. change (3 <? 0) with false. cbn [andb]. cbv iota.
  rewrite Hlast. rewrite Hopen. cbn [bind]. cbv iota. cbn [s_h s_c s_r].
  rewrite <- app_comm_cons. rewrite hupd_last. cbn [bind]. unfold st_h. cbn [s_h s_c s_r].
  unfold append_child. rewrite hupd_last. cbn [bind]. rewrite hupd_root. cbn [bind].
  unfold st_c. cbn [s_h s_c s_r]. reflexivity.
Qed.

(* openBlocks with no block open, on a line that begins with a non-blank byte *)
Lemma open_blocks_idle_gen f cs cl arr src pre c0 rl rest k a b blank s' :
  at_line src pre (c0 :: rl) rest a b -> startc c0 = true ->
  TRY (candidates c0) 0%nat blank false noBlocksOpened 0
      (mkst (dnode cs :: cl) (ctx arr 0) (rd src k a b a (SomeB (c0 :: rl)) 0)) = Ok (TDone newBlocksOpened s') ->
  OB (S f) 0%nat blank (mkst (dnode cs :: cl) (ctx arr 0) (rd src k a b a (SomeB (c0 :: rl)) (-1))) = Ok (newBlocksOpened, s').
Proof.
  intros Hat Hc Htry.
  assert (Hr : 0 <= a /\ a < b /\ b <= zlen src) by (apply (at_line_in_range _ _ _ _ _ _ Hat); discriminate).
  unfold open_blocks. cbn [s_c]. rewrite last_opened_idle. cbn [bind].
  cbn [open_blocks_loop]. rewrite peek_s_cached by lia. cbn [bind]. rewrite line_offset_s_fresh. cbn [bind line_of].
  rewrite (startc_indent c0 rl 0 Hc).
  replace (zlen (c0 :: rl) <=? 0) with false by (symmetry; apply Z.leb_gt; rewrite zlen_cons; pose proof (zlen_nonneg rl); lia).
  unfold st_c. cbn [s_h s_c s_r]. rewrite cset_off_ctx. rewrite (startc_neq c0 10 Hc) by auto.
  replace (0 <? zlen (c0 :: rl)) with true by (symmetry; apply Z.ltb_lt; rewrite zlen_cons; pose proof (zlen_nonneg rl); lia).
  unfold nth_byte. cbn [Z.to_nat nth]. rewrite Htry. cbn [bind].
  change (newBlocksOpened =? noBlocksOpened) with false. cbn [andb]. reflexivity.
Qed.

(* the outer loop, from the head of the first line of a block to the loop over its lines *)
Lemma pbl_open f cs cl arr src pre c0 rl rest k stats s' :
  src = pre ++ (c0 :: rl) ++ rest -> fline ((c0 :: rl) ++ rest) = c0 :: rl -> startc c0 = true ->
  TRY (candidates c0) 0%nat (is_blank_line (k - 1) 0 stats) false noBlocksOpened 0
      (mkst (dnode cs :: cl) (ctx arr 0) (rd src k (zlen pre) (zlen pre + zlen (c0 :: rl)) (zlen pre) (SomeB (c0 :: rl)) 0))
    = Ok (TDone newBlocksOpened s') ->
  r_src (s_r s') = src ->
  PBL (S f) 0%nat stats (mkst (dnode cs :: cl) (ctx arr 0) (rdA src k pre ((c0 :: rl) ++ rest))) =
  (y <- LINES (S (length src)) 0%nat stats (advance_line_s s') ;;
   let '(r, stats0) := y in match r with inl s => Ok s | inr s => PBL f 0%nat stats0 s end).
Proof.
  intros Hsrc Hfl Hc Htry Hs'.
  assert (Hat : at_line src pre (c0 :: rl) rest (zlen pre) (zlen pre + zlen (c0 :: rl))) by (rewrite Hsrc; apply at_line_here).
  cbn [parse_blocks_loop]. unfold src_of. cbn [s_r].
  rewrite (rdA_fline src k pre _ _ Hfl). rewrite !r_src_rd.
  rewrite (skip_blank_gen _ src k _ _ pre (c0 :: rl) rest Hat) by (try discriminate; apply startc_not_blank; exact Hc).
  cbn [bind]. cbv iota. cbn [negb].
  unfold st_r. cbn [s_h s_c s_r]. change (0 =? 0) with true. cbn [negb]. cbv iota.
  unfold rline. cbn [s_r]. rewrite !r_line_rd, !r_src_rd.
  replace (2 * length src + 8)%nat with (S (2 * length src + 7))%nat by lia.
  rewrite (open_blocks_idle_gen _ cs cl arr src pre c0 rl rest k _ _ _ s' Hat Hc Htry).
  cbn [bind]. change (newBlocksOpened =? newBlocksOpened) with true. cbn [negb]. cbv iota.
  replace (r_src (s_r (advance_line_s s'))) with src; [reflexivity|].
  unfold advance_line_s, st_r. cbn [s_r]. rewrite r_src_advance_line, Hs'. reflexivity.
Qed.

(* ---------- openBlocks with a leaf block open, on an empty line: nothing opens ---------- *)
Lemma open_blocks_leaf_blank f cs cl nd id bp tl fe src pre rest k a b blank :
  id = S (length cl) -> bkind_eqb (bk nd) BParagraph = false ->
  at_line src pre [10%N] rest a b ->
  OB (S f) 0%nat blank (mkst (dnode cs :: cl ++ [nd]) (ctxG ((id, bp) :: tl) 1 0 0 fe) (rd src k a b a (SomeB [10%N]) (-1))) =
  Ok (noBlocksOpened, mkst (dnode cs :: cl ++ [nd]) (ctxG ((id, bp) :: tl) 1 0 0 fe) (rd src k a b a (SomeB [10%N]) 0)).
Proof.
  intros -> Hnp Hat. assert (Hr : 0 <= a /\ a < b /\ b <= zlen src) by (apply (at_line_in_range _ _ _ _ _ _ Hat); discriminate).
  unfold open_blocks. cbn [s_c s_h]. unfold last_opened at 1. cbn [ctxG c_len c_arr nth_error].
  rewrite is_paragraph_last_gen, Hnp. cbn [bind].
  cbn [open_blocks_loop]. rewrite peek_s_cached by lia. cbn [bind]. rewrite line_offset_s_fresh. cbn [bind line_of].
  unfold indent_width. cbn [indent_width_pos]. change (N.eqb 10 32) with false. change (N.eqb 10 9) with false. cbv iota.
  change (zlen [10%N] <=? 0) with false. cbv iota.
  unfold st_c. cbn [s_h s_c s_r]. change (N.eqb 10 10) with true. cbv iota. cbn [bind andb]. cbv iota. reflexivity.
Qed.

(* ---------- closeBlocks of the one open leaf block ---------- *)
Lemma close_blocks_leaf cs cl nd bp tl bo bi fe fe' r p :
  bkind_eqb (bk nd) BParagraph = false -> bpar nd = Some p ->
  PCLOSE bp (mkst (dnode cs :: cl ++ [nd]) (ctxG ((S (length cl), bp) :: tl) 1 bo bi fe) r) (S (length cl)) =
    Ok (mkst (dnode cs :: cl ++ [nd]) (ctxG ((S (length cl), bp) :: tl) 1 bo bi fe') r) ->
  CLOSE (mkst (dnode cs :: cl ++ [nd]) (ctxG ((S (length cl), bp) :: tl) 1 bo bi fe) r) 0 0 =
  Ok (mkst (dnode cs :: cl ++ [nd]) (ctxG ((S (length cl), bp) :: tl) 0 bo bi fe') r).
Proof.
  intros Hnp Hpar Hclose. unfold close_blocks. cbn [s_c]. unfold opened. cbn [ctxG c_len c_arr firstn].
  change (Z.to_nat (0 - 0 + 1)) with 1%nat. cbn [close_range].
  change (0 <? 0) with false. change (zlen [(S (length cl), bp)] <=? 0) with false. cbn [orb]. cbv iota.
  cbn [Z.to_nat nth_error s_h]. rewrite is_paragraph_last_gen, Hnp. cbn [bind]. rewrite (attached_last_gen _ _ _ _ Hpar).
  cbn [bind andb]. cbv iota. cbn [s_h]. rewrite (attached_last_gen _ _ _ _ Hpar). cbn [bind]. cbv iota.
  rewrite Hclose. cbn [bind].
  cbn [s_c ctxG c_len]. change (0 =? Z.of_nat 1 - 1) with true. cbv iota.
  change (0 <? 0) with false. change (Z.of_nat 1 <? 0) with false. cbn [orb]. cbv iota. reflexivity.
Qed.

(* ---------- a block of one line: the next line is empty or the source ends ---------- *)
Definition oneline (bp : bparser) : Prop := bp = PATX \/ bp = PThematic.

Lemma each_blank_oneline f bp cs cl tl nd src pre rest k a b stats p :
  oneline bp -> bkind_eqb (bk nd) BParagraph = false -> bpar nd = Some p ->
  at_line src pre [10%N] rest a b ->
  EACH (S f) [(S (length cl), bp)] 0%nat 0 0 stats
       (mkst (dnode cs :: cl ++ [nd]) (ctx ((S (length cl), bp) :: tl) 1) (rd src k a b a None (-1))) =
  Ok (inr (mkst (dnode cs :: cl ++ [nd]) (ctx ((S (length cl), bp) :: tl) 0) (rd src k a b a (SomeB [10%N]) 0)),
      (k, 0, true) :: stats).
Proof.
  intros Hbp Hnp Hpar Hat.
  cbn [each_opened]. change (0 <? 0) with false. cbv iota. cbn [Z.to_nat nth_error].
  rewrite (peek_s_fresh _ _ src pre [10%N] rest k a b (-1) Hat) by discriminate.
  cbn [bind s_h]. rewrite is_paragraph_last_gen, Hnp. cbn [bind negb]. cbv iota.
  assert (Hcont : forall s, PCONT bp s (S (length cl)) = Ok (s, false, false)) by (intros s; destruct Hbp as [-> | ->]; reflexivity).
  rewrite Hcont. cbn [bind]. cbv iota.
  change (0 =? 0) with true. cbv iota. cbn [bind nth_error].
  change (2 * length [10%N] + 8)%nat with 10%nat.
  rewrite !ctx_ctxG.
  rewrite (open_blocks_leaf_blank _ cs cl nd _ bp tl None src pre rest k a b _ eq_refl Hnp Hat).
  cbn [bind]. change (noBlocksOpened =? paragraphContinuation) with false. cbn [negb]. cbv iota.
  cbn [s_c ctxG c_arr nth_error bind]. rewrite Nat.eqb_refl.
  rewrite (close_blocks_leaf cs cl nd bp tl 0 0 None None _ p Hnp Hpar) by (destruct Hbp as [-> | ->]; reflexivity).
  cbn [bind]. unfold rline. cbn [s_r]. unfold rd at 1. cbn [r_line Reader.is_blank]. rewrite nl_is_space. reflexivity.
Qed.

Lemma each_eof_oneline f bp cs cl tl nd src k a b stats p :
  oneline bp -> bkind_eqb (bk nd) BParagraph = false -> bpar nd = Some p -> zlen src <= a ->
  exists r, EACH (S f) [(S (length cl), bp)] 0%nat 0 0 stats
       (mkst (dnode cs :: cl ++ [nd]) (ctx ((S (length cl), bp) :: tl) 1) (rd src k a b a None (-1))) =
  Ok (inl (mkst (dnode cs :: cl ++ [nd]) (ctx ((S (length cl), bp) :: tl) 0) r), stats).
Proof.
  intros Hbp Hnp Hpar Ha. eexists.
  cbn [each_opened]. change (0 <? 0) with false. cbv iota. cbn [Z.to_nat nth_error].
  rewrite peek_s_eof by exact Ha. cbn [bind]. rewrite !ctx_ctxG.
  rewrite (close_blocks_leaf cs cl nd bp tl 0 0 None None _ p Hnp Hpar) by (destruct Hbp as [-> | ->]; reflexivity).
  cbn [bind]. unfold advance_line_s, st_r. cbn [s_h s_c s_r]. reflexivity.
Qed.

Lemma ptail_nil_inv eb suf next : ptail eb [] suf next ->
  (eb = false /\ suf = [] /\ next = []) \/ (eb = true /\ suf = 10%N :: next).
Proof.
  intros H. remember (@nil bytes) as bs eqn:E. destruct H as [|nx|eb body term bs rest nx Hb Ht Hp].
  - left. auto.
  - right. auto.
  - discriminate.
Qed.

(* the loop over the lines for a block of one line, from the line after it on *)
Lemma lines_oneline bp eb suf next f cs cl tl nd pre k stats src p :
  ptail eb [] suf next -> oneline bp -> bkind_eqb (bk nd) BParagraph = false -> bpar nd = Some p ->
  src = pre ++ suf ->
  exists stats' sfin,
    LINES (S (S f)) 0%nat stats
          (mkst (dnode cs :: cl ++ [nd]) (ctx ((S (length cl), bp) :: tl) 1) (rdA src k pre suf)) =
    Ok ((if eb then inr sfin else inl sfin), stats') /\
    s_h sfin = dnode cs :: cl ++ [nd] /\ s_c sfin = ctx ((S (length cl), bp) :: tl) 0 /\
    (eb = true -> s_r sfin = rdA src (k + 1) (pre ++ [10%N]) next).
Proof.
  intros Hpt Hbp Hnp Hpar Hsrc.
  destruct (ptail_nil_inv _ _ _ Hpt) as [(-> & -> & ->)|(-> & ->)].
  - destruct (each_eof_oneline 1 bp cs cl tl nd src k (zlen pre) (zlen pre + zlen (fline [])) stats p Hbp Hnp Hpar) as [r Hr].
    { rewrite Hsrc, app_nil_r. lia. }
    exists stats. eexists. split; [|split; [|split]].
    + cbn [lines_loop s_c]. rewrite !opened_open. cbn [length]. change (zlen [(S (length cl), bp)] - 1) with 0.
      unfold rdA. rewrite Hr. cbn [bind]. reflexivity.
    + reflexivity.
    + reflexivity.
    + discriminate.
  - assert (Hat : at_line src pre [10%N] next (zlen pre) (zlen pre + 1)).
    { split; [|split; reflexivity]. rewrite Hsrc. reflexivity. }
    exists ((k, 0, true) :: stats). eexists. split; [|split; [|split]].
    + cbn [lines_loop s_c]. rewrite !opened_open. cbn [length]. change (zlen [(S (length cl), bp)] - 1) with 0.
      rewrite rdA_blank.
      rewrite (each_blank_oneline 1 bp cs cl tl nd src pre next k _ _ stats p Hbp Hnp Hpar Hat). cbn [bind].
      unfold advance_line_s, st_r. cbn [s_h s_c s_r].
      rewrite (advance_line_suf' src (pre ++ [10%N]) next).
      2:{ rewrite Hsrc. rewrite <- !app_assoc. reflexivity. }
      2:{ rewrite zlen_app. reflexivity. }
      reflexivity.
    + reflexivity.
    + reflexivity.
    + intros _. reflexivity.
Qed.

(* ---------- an empty line in front of a block, in the outer loop ---------- *)
Lemma pbl_skip_gap f h arr bo bi src pre c0 next k stats :
  src = pre ++ 10%N :: c0 :: next -> startc c0 = true ->
  PBL f 0%nat stats (mkst h (ctxG arr 0 bo bi None) (rdA src k pre (10%N :: c0 :: next))) =
  PBL f 0%nat [] (mkst h (ctxG arr 0 bo bi None) (rdA src (k + 1) (pre ++ [10%N]) (c0 :: next))).
Proof.
  intros Hsrc Hc. destruct f as [|f]; [reflexivity|].
  assert (Hat : at_line src pre [10%N] (c0 :: next) (zlen pre) (zlen pre + 1)).
  { split; [|split; reflexivity]. rewrite Hsrc. reflexivity. }
  assert (Hsrc' : src = (pre ++ [10%N]) ++ c0 :: next) by (rewrite Hsrc, <- app_assoc; reflexivity).
  destruct (rdA_at_line src (pre ++ [10%N]) (c0 :: next) Hsrc') as (rest & Hat' & Hrest).
  assert (Hfl : exists rl, fline (c0 :: next) = c0 :: rl).
  { cbn [fline]. rewrite (startc_neq c0 10 Hc) by auto. eexists. reflexivity. }
  destruct Hfl as [rl Hfl]. rewrite Hfl in Hat'.
  cbn [parse_blocks_loop]. unfold src_of. cbn [s_r]. rewrite rdA_blank. rewrite !r_src_rd.
  unfold r_skip_blank_lines.
  replace (S (length src)) with (S (S (length src - 1))).
  2:{ rewrite Hsrc, app_length. cbn [length]. lia. }
  cbn [skip_blank_lines].
  rewrite (peek_fresh src pre [10%N] (c0 :: next) k _ _ (-1) Hat) by discriminate. cbn [bind Reader.is_blank].
  rewrite nl_is_space. cbn [andb]. unfold r_advance_line_res. cbn [bind].
  rewrite (advance_line_suf' src (pre ++ [10%N]) (c0 :: next)); [|exact Hsrc'|rewrite zlen_app; reflexivity].
  unfold rdA. rewrite Hfl.
  rewrite (peek_fresh src (pre ++ [10%N]) (c0 :: rl) rest (k + 1) _ _ (-1) Hat') by discriminate.
  cbn [bind]. rewrite (startc_not_blank c0 rl Hc).
  cbv iota. cbn [negb]. change (0 + 1 =? 0) with false. change (0 =? 0) with true. cbn [negb]. cbv iota.
  unfold st_r. cbn [s_h s_c s_r ctxG c_len seq map rev]. reflexivity.
Qed.


(* ---------- the interface of the document loop: one more block ---------- *)
(* from the head of the first line of block b (no block open, the document has the children cs)
   to the state after it: either the source ends, or an empty line follows and the outer loop
   resumes at the head of the next block *)
Definition block_step (b : lblock) : Prop := forall f eb term suf next cs cl arr pre k stats src,
  ptail eb [] suf next -> term_ok term suf -> src = pre ++ lblock_src b ++ term ++ suf ->
  (eb = true -> exists c r, next = c :: r /\ startc c = true) ->
  exists stats' sfin bl,
    PBL (S (S f)) 0%nat stats (mkst (dnode cs :: cl) (ctx arr 0) (rdA src k pre (lblock_src b ++ term ++ suf))) =
      (if eb then PBL (S f) 0%nat stats' sfin else Ok sfin) /\
    s_h sfin = dnode (cs ++ [S (length cl)]) :: cl ++ [node_of (zlen pre) b bl] /\
    c_refs (s_c sfin) = [] /\
    (eb = true -> exists arr' k' pre', s_c sfin = ctx arr' 0 /\ src = pre' ++ next /\
                                       zlen pre' = zlen pre + zlen (lblock_src b) + 2 /\ s_r sfin = rdA src k' pre' next).

(* a block of one line *)
Lemma oneline_step bp body nd f eb term suf next cs cl arr pre k stats src c0 rl :
  oneline bp -> body = c0 :: rl -> startc c0 = true -> no_nl body ->
  ptail eb [] suf next -> term_ok term suf -> src = pre ++ body ++ term ++ suf ->
  (forall blank, exists st' pk' lo',
     TRY (candidates c0) 0%nat blank false noBlocksOpened 0
         (mkst (dnode cs :: cl) (ctx arr 0) (rd src k (zlen pre) (zlen pre + zlen (body ++ term)) (zlen pre) (SomeB (body ++ term)) 0)) =
     Ok (TDone newBlocksOpened
           (mkst (dnode (cs ++ [S (length cl)]) :: cl ++ [nd blank]) (ctx ((S (length cl), bp) :: skipn 1 arr) 1)
                 (rd src k (zlen pre) (zlen pre + zlen (body ++ term)) st' pk' lo')))) ->
  (forall blank, bkind_eqb (bk (nd blank)) BParagraph = false /\ bpar (nd blank) = Some 0%nat) ->
  exists stats' sfin bl,
    PBL (S f) 0%nat stats (mkst (dnode cs :: cl) (ctx arr 0) (rdA src k pre (body ++ term ++ suf))) =
      (if eb then PBL f 0%nat stats' sfin else Ok sfin) /\
    s_h sfin = dnode (cs ++ [S (length cl)]) :: cl ++ [nd bl] /\
    s_c sfin = ctx ((S (length cl), bp) :: skipn 1 arr) 0 /\
    (eb = true -> s_r sfin = rdA src (k + 1 + 1) ((pre ++ body ++ term) ++ [10%N]) next).
Proof.
  intros Hbp Hbody Hc Hnl Hpt Ht Hsrc Htry Hnd.
  set (blank := is_blank_line (k - 1) 0 stats).
  destruct (Htry blank) as (st' & pk' & lo' & Htry'). destruct (Hnd blank) as [Hnp Hpar].
  assert (Hfl : fline ((c0 :: rl ++ term) ++ suf) = c0 :: rl ++ term).
  { change (c0 :: rl ++ term) with ((c0 :: rl) ++ term). rewrite <- Hbody. rewrite <- app_assoc. apply fline_text; assumption. }
  assert (Hsrc1 : src = pre ++ (c0 :: rl ++ term) ++ suf).
  { rewrite Hsrc, Hbody. cbn [app]. rewrite <- app_assoc. reflexivity. }
  assert (Hsrc2 : src = (pre ++ body ++ term) ++ suf) by (rewrite Hsrc, <- !app_assoc; reflexivity).
  assert (Hlen : (2 <= S (length src))%nat).
  { rewrite Hsrc, Hbody, !app_length. cbn [length]. lia. }
  destruct (S (length src)) as [|[|fl]] eqn:Efl; [lia|lia|].
  destruct (lines_oneline bp eb suf next fl (cs ++ [S (length cl)]) cl (skipn 1 arr) (nd blank) (pre ++ body ++ term) (k + 1) stats src 0%nat
              Hpt Hbp Hnp Hpar Hsrc2) as (stats' & sfin & Hrun & Hh & Hcx & Hnext).
  exists stats', sfin, blank. split; [|split; [|split]]; try assumption.
  replace (body ++ term ++ suf) with ((c0 :: rl ++ term) ++ suf) by (rewrite Hbody; cbn [app]; rewrite <- app_assoc; reflexivity).
  match type of Htry' with _ = Ok (TDone _ ?s1) => rewrite (pbl_open f cs cl arr src pre c0 (rl ++ term) suf k stats s1 Hsrc1 Hfl Hc) end.
  2:{ fold blank. change (c0 :: rl ++ term) with ((c0 :: rl) ++ term). rewrite <- Hbody. exact Htry'. }
  2:{ reflexivity. }
  rewrite Efl.
  unfold advance_line_s, st_r. cbn [s_h s_c s_r].
  rewrite (advance_line_suf' src (pre ++ body ++ term) suf); [|exact Hsrc2|].
  2:{ rewrite !zlen_app. lia. }
  rewrite Hrun. cbn [bind]. destruct eb; reflexivity.
Qed.

End Driver.
