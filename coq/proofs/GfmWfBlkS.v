(* Helper library for GfmWfBlk.v, part S: the table paragraph transformer (BlockParseX.table_transform)
   on a closed paragraph (the paragraph a setext underline follows) and, together with the Close that
   follows it, on the last of the blocks being closed. *)
Require Import GM.model.Base GM.model.Util GM.model.Reader GM.model.ReaderSpec GM.model.Blocks GM.model.ListItem
               GM.model.LeafBlocks GM.model.CodeBlock GM.model.LinkDest GM.model.Regex GM.model.HtmlWriter
               GM.model.Html GM.model.HtmlSpec GM.model.TableX GM.model.BlockParse GM.model.InlineParse GM.model.BlockParseX.
Require Import GM.proofs.ReaderProofs GM.proofs.BlockRangeProofs GM.proofs.ParseInv GM.proofs.GfmWfDefs GM.proofs.GfmWfTab
               GM.proofs.ParseBlocksRangeA GM.proofs.GfmWfBlkB GM.proofs.GfmWfBlkC
               GM.proofs.GfmWfBlkD GM.proofs.GfmWfBlkE GM.proofs.GfmWfBlkG GM.proofs.GfmWfBlkH GM.proofs.GfmWfBlkJ
               GM.proofs.GfmWfBlkQ GM.proofs.GfmWfBlkR.
From Coq Require Import ZArith Lia Sorted.
Open Scope Z_scope.

Lemma remove_insert_id node t l : In node l -> remove_id node (insert_after_id node t l) = replace_id node t l.
Proof.
  induction l as [|z r IH]; intros Hin; [destruct Hin|]. cbn [insert_after_id replace_id].
  destruct (Nat.eqb_spec node z) as [E|E].
  - cbn [remove_id]. destruct (Nat.eqb_spec node z); [reflexivity|congruence].
  - cbn [remove_id]. destruct (Nat.eqb_spec node z); [congruence|]. f_equal. apply IH. destruct Hin; congruence.
Qed.

Section S.
Variable space_table punct_table : list N.
Variable norm : bytes -> bytes.
Variable re_t1o re_t1c re_t2 re_t3 re_t4 re_t5 re_t6 re_t7 : re.
Variable allowed_tags : list bytes.
Variable src : bytes.
Hypothesis sp32 : is_space space_table 32%N = true.
Hypothesis sp10 : is_space space_table 10%N = true.
Set Default Proof Using "All".

Notation CC f := (f space_table punct_table norm re_t1o re_t1c re_t2 re_t3 re_t4 re_t5 re_t6 re_t7 allowed_tags src sp32) (only parsing).
Notation SInv := (SInv space_table src).
Notation HI := (HI space_table src).
Notation nodeP := (nodeP space_table src).
Notation heapS := (heapS space_table src).
Notation Jinv := (Jinv src).
Notation openS := (openS src).
Notation pline := (pline space_table src).
Notation oline := (oline src).
Notation fin_lines := (fin_lines src).
Notation fin := (fin src).
Notation LE := (LE src).
Notation leI := (leI src).
Notation opl := (opl src).
Notation close_lines := (close_lines space_table src).
Hypothesis Hsrc : bytes_ok src.
Notation CJ f := (f space_table punct_table norm re_t1o re_t1c re_t2 re_t3 re_t4 re_t5 re_t6 re_t7 allowed_tags src sp32 Hsrc) (only parsing).
Notation tframe := (tframe).

Definition ph_node : bnode := mknode BThematicBreak 0.
Lemma ph_node_P : nodeP ph_node.
Proof. apply (CC nodeP_plain); discriminate. Qed.

(* ---------- what tableParagraphTransformer.Transform computes ---------- *)
Lemma table_transform_eq x node x' n : nth_error (s_h (bx_s x)) node = Some n ->
  table_transform space_table x node = Ok x' ->
  exists r, TableX.transform space_table (src_of (bx_s x)) (blines n) = Ok r /\
    match r with
    | None => x' = x
    | Some (before, tbl) =>
      exists p h1 h2, bpar n = Some p /\
        insert_after (s_h (bx_s x) ++ [ph_node]) p node (length (s_h (bx_s x))) = Ok h1 /\
        match before with
        | [] => exists h', hupd h1 node (fun m => set_lines m []) = Ok h' /\ remove_child h' p node = Ok h2
        | _ => hupd h1 node (fun m => set_lines m (cut_last_newline before)) = Ok h2
        end /\
        x' = {| bx_s := st_h (bx_s x) h2; bx_tabs := bx_tabs x ++ [(length (s_h (bx_s x)), tbl)] |}
    end.
Proof.
  intros En H. unfold table_transform in H. unfold hget in H. rewrite En in H. cbn [bind] in H.
  bind_inv H r Er. exists r. split; [exact Er|]. destruct r as [[before tbl]|]; [|injection H as <-; reflexivity].
  destruct (bpar n) as [p|]; [|discriminate]. unfold new_node, halloc in H. cbv beta iota zeta in H. cbn [st_h s_h] in H.
  bind_inv H h1 E1. bind_inv H h2 E2. injection H as <-. exists p, h1, h2. csplit; auto.
  destruct before as [|b0 bt]; [|exact E2]. bind_inv E2 h' E'. exists h'. auto.
Qed.

Lemma tabs_ok_snoc tabs t tbl : tabs_ok src tabs -> table_ok src tbl -> tabs_ok src (tabs ++ [(t, tbl)]).
Proof. intros H1 H2. unfold tabs_ok. apply Forall_app. split; [exact H1|]. constructor; [exact H2|constructor]. Qed.

Lemma tframe_heap s h : (length (s_h s) <= length h)%nat -> tframe s (st_h s h).
Proof. intros H. unfold GfmWfBlkJ.tframe. cbn [st_h s_c s_r s_h]. csplit; auto. Qed.

(* ---------- on a closed paragraph ---------- *)
Lemma table_closed_ok fl x node x' A D N n p np :
  SInv fl (bx_s x) A D N -> tabs_ok src (bx_tabs x) -> ~ In node (ids (A ++ D ++ N)) ->
  (forall y, In (y, PSetext) (A ++ D ++ N) -> c_tmp_para (s_c (bx_s x)) <> Some node) ->
  nth_error (s_h (bx_s x)) node = Some n -> bk n = BParagraph -> bpar n = Some p ->
  nth_error (s_h (bx_s x)) p = Some np -> In node (bch np) ->
  fin_lines (blines n) -> blines n <> [] ->
  table_transform space_table x node = Ok x' ->
  tframe (bx_s x) (bx_s x') /\ SInv fl (bx_s x') A D N /\ tabs_ok src (bx_tabs x') /\
  exists n', nth_error (s_h (bx_s x')) node = Some n' /\ bk n' = BParagraph /\
    (bpar n' = None \/ (bpar n' = Some p /\ fin_lines (blines n') /\ blines n' <> [])).
Proof.
  intros [HR HH] Htabs Hni Htmp En Kn Pn Ep Hch Hfin Hne H.
  assert (src_of (bx_s x) = src) as Esrc by (apply (CJ rd_ok_src fl); exact HR).
  destruct (table_transform_eq _ _ _ _ En H) as [r [Er Hres]]. rewrite Esrc in Er.
  pose proof (hi_heap _ _ _ _ _ _ _ _ HH) as HS. pose proof (hs_node _ _ _ HS _ _ En) as HnP.
  destruct r as [[before tbl]|].
  2: { subst x'. split; [apply (CJ tframe_refl)|]. split; [split; assumption|]. split; [exact Htabs|].
       exists n. csplit; auto. }
  destruct (transform_range space_table src _ _ _ (np_lines _ _ _ HnP) Er) as [Htbl [hdr [delim [rest EL]]]].
  destruct Hres as [p' [h1 [h2 [Pn' [Ei [Hb ->]]]]]]. assert (p' = p) by congruence. subst p'. cbn [bx_s bx_tabs st_h s_h s_c s_r].
  set (h := s_h (bx_s x)) in *. set (t := length h) in *.
  destruct (CC HI_insert_unlisted _ _ _ _ _ _ _ _ _ _ h1 HH Hni Ep Hch ph_node_P eq_refl eq_refl) as [HH1 [Hlen1 [E1p [E1t E1o]]]];
    try discriminate; [exact Ei|].
  pose proof (nth_some_lt _ _ _ En) as Hnlt. pose proof (nth_some_lt _ _ _ Ep) as Hplt.
  assert (node <> p) as Hop. { intros ->. exact (hs_noself _ _ _ HS _ _ En Pn). }
  assert (nth_error h1 node = Some n) as En1.
  { rewrite E1o by (fold t; lia). rewrite nth_error_app1 by exact Hnlt. exact En. }
  destruct (np_para _ _ _ HnP Kn) as [Hpl [Hso Hli]].
  split; [|split; [|split; [apply tabs_ok_snoc; assumption|]]].
  - apply tframe_heap. destruct before as [|b0 bt].
    + destruct Hb as [h' [E' Er']]. apply hupd_ok in E'. destruct E' as [m [_ ->]].
      assert (length h2 = length (hset h1 node (set_lines m []))) as El.
      { unfold remove_child in Er'. bind_inv Er' nc Enc. destruct (opt_nat_eqb _ _); [|injection Er' as <-; reflexivity].
        bind_inv Er' ha Ea. apply hupd_ok in Ea. destruct Ea as [? [_ ->]]. apply hupd_ok in Er'. destruct Er' as [? [_ ->]].
        rewrite !length_hset. reflexivity. }
      rewrite El, length_hset, Hlen1. fold h. lia.
    + apply hupd_ok in Hb. destruct Hb as [m [_ ->]]. rewrite length_hset, Hlen1. fold h. lia.
  - split; [exact HR|]. cbn [st_h s_h s_c s_r]. destruct before as [|b0 bt].
    + destruct Hb as [h' [E' Er']]. apply hupd_ok in E'. destruct E' as [m [Em ->]]. assert (m = n) by congruence. subst m.
      assert (HI (rd_bound fl (s_r (bx_s x))) (hset h1 node (set_lines n [])) (s_c (bx_s x)) A D N) as HH2.
      { eapply (CC HI_set_unlisted); [exact HH1|exact Hni|exact Htmp|exact En1|apply (CC same_shape_lines)| | |].
        - destruct HnP as [H1 H2 H3 H4 H5 H6 H7]. constructor; cbn [set_lines blines b_seg bk b_i1 bch]; auto; try congruence.
          intros _. csplit; [constructor|constructor|exact I].
        - intros _ _. cbn [set_lines blines]. split; constructor.
        - cbn [set_lines blines]. intros _ sg []. }
      destruct (CC HI_remove _ _ _ _ _ _ _ _ _ HH2 Er' Hop Hni) as [HH3 _]. exact HH3.
    + apply hupd_ok in Hb. destruct Hb as [m [Em ->]]. assert (m = n) by congruence. subst m.
      rewrite EL in Hpl, Hso, Hli.
      destruct (cut_lines_ok space_table src sp32 sp10 (b0 :: bt) hdr (delim :: rest) ltac:(discriminate) Hpl Hso Hli)
        as [C1 [C2 [C3 [C4 [C5 C6]]]]].
      eapply (CC HI_set_unlisted); [exact HH1|exact Hni|exact Htmp|exact En1|apply (CC same_shape_lines)| | |].
      * destruct HnP as [H1 H2 H3 H4 H5 H6 H7]. constructor; cbn [set_lines blines b_seg bk b_i1 bch]; auto; try congruence.
        eapply Forall_impl; [|exact C1]. intros a Ha. apply Ha.
      * intros _ _. cbn [set_lines blines]. split; [|exact C2]. apply C6.
        destruct Hfin as [Ho _]. rewrite EL in Ho. apply Forall_app in Ho. apply Ho.
      * cbn [set_lines blines]. intros _ sg Hsg. destruct (C5 sg Hsg) as [sg0 [Hin0 Hle0]].
        pose proof (hi_bnd _ _ _ _ _ _ _ _ HH node n sg0 En Kn) as Hb0. rewrite EL in Hb0.
        specialize (Hb0 (in_or_app _ _ _ (or_introl Hin0))). lia.
  - destruct before as [|b0 bt].
    + destruct Hb as [h' [E' Er']]. apply hupd_ok in E'. destruct E' as [m [Em ->]]. assert (m = n) by congruence. subst m.
      assert (nth_error (hset h1 node (set_lines n [])) node = Some (set_lines n [])) as En2.
      { apply nth_hset_eq. eapply nth_some_lt. exact En1. }
      destruct (remove_child_spec _ _ _ _ Er' Hop) as [nc [Enc [[Hbad _]|[_ [np2 [_ [_ [E2c _]]]]]]]];
        assert (nc = set_lines n []) by congruence; subst nc.
      * cbn [set_lines bpar] in Hbad. congruence.
      * eexists. split; [exact E2c|]. cbn [set_par set_lines bk bpar]. split; [exact Kn|]. left. reflexivity.
    + apply hupd_ok in Hb. destruct Hb as [m [Em ->]]. assert (m = n) by congruence. subst m.
      rewrite EL in Hpl, Hso, Hli.
      destruct (cut_lines_ok space_table src sp32 sp10 (b0 :: bt) hdr (delim :: rest) ltac:(discriminate) Hpl Hso Hli)
        as [C1 [C2 [C3 [C4 [C5 C6]]]]].
      eexists. split; [apply nth_hset_eq; eapply nth_some_lt; exact En1|]. cbn [set_lines bk bpar blines].
      split; [exact Kn|]. right. csplit; auto. split; [|exact C2]. apply C6.
      destruct Hfin as [Ho _]. rewrite EL in Ho. apply Forall_app in Ho. apply Ho.
Qed.

Lemma nth_app_hset (h : heap) i a b j : j <> i -> nth_error (hset h i a ++ [b]) j = nth_error (h ++ [b]) j.
Proof.
  intros Hne. destruct (Nat.lt_ge_cases j (length h)) as [Hlt|Hge].
  - rewrite !nth_error_app1 by (rewrite ?length_hset; exact Hlt). apply nth_hset_ne. congruence.
  - rewrite !nth_error_app2 by (rewrite ?length_hset; exact Hge). rewrite length_hset. reflexivity.
Qed.

(* ---------- on the last of the blocks being closed, together with the Close that follows ---------- *)
Lemma table_close_ok fl x node x2 att x3 A D N :
  SInv fl (bx_s x) A (D ++ [(node, PParagraph)]) N -> tabs_ok src (bx_tabs x) ->
  table_transform space_table x node = Ok x2 ->
  attached (s_h (bx_s x2)) node = Ok att ->
  (if att then lift0 x2 (p_close space_table PParagraph (bx_s x2) node) else Ok x2) = Ok x3 ->
  SInv fl (bx_s x3) A D N /\ tabs_ok src (bx_tabs x3) /\ tframe (bx_s x) (bx_s x3).
Proof.
  intros HS0 Htabs H Hatt Hcl. pose proof HS0 as [HR HH].
  assert (src_of (bx_s x) = src) as Esrc by (apply (CJ rd_ok_src fl); exact HR).
  pose proof (hi_heap _ _ _ _ _ _ _ _ HH) as HS. pose proof (hi_open _ _ _ _ _ _ _ _ HH) as HO.
  assert (In (node, PParagraph) (A ++ (D ++ [(node, PParagraph)]) ++ N)) as Hin.
  { apply in_or_app; right; apply in_or_app; left; apply in_or_app; right; left; reflexivity. }
  destruct (os_pair _ _ _ _ _ _ HO node PParagraph Hin) as [n [En Kn]]. cbn [pkind] in Kn.
  pose proof (hs_node _ _ _ HS _ _ En) as HnP.
  destruct (os_para _ _ _ _ _ _ HO node Hin) as [n0 [En0 [Hne Hle]]]. assert (n0 = n) by congruence. subst n0.
  destruct (closing_attached _ _ _ _ _ _ _ _ HS HO) as [p [np [n0 [Ep [Hch [En0p Pn]]]]]]. cbn [fst] in Hch, En0p.
  assert (n0 = n) by congruence. subst n0.
  destruct (table_transform_eq _ _ _ _ En H) as [r [Er Hres]]. rewrite Esrc in Er.
  destruct r as [[before tbl]|].
  2: { subst x2. unfold attached, hget in Hatt. rewrite En in Hatt. cbn [bind] in Hatt. rewrite Pn in Hatt. injection Hatt as <-.
       unfold lift0 in Hcl. bind_inv Hcl s3 Es3. injection Hcl as <-. cbn [p_close] in Es3. cbn [stx_s bx_s bx_tabs].
       destruct (CC paragraph_close_ok fl _ _ _ _ _ _ HS0 Es3) as [H1 [H2 [H3 [H4 _]]]].
       csplit; auto. unfold GfmWfBlkJ.tframe. rewrite H2, H3, H4. csplit; auto. }
  destruct (transform_range space_table src _ _ _ (np_lines _ _ _ HnP) Er) as [Htbl [hdr [delim [rest EL]]]].
  destruct Hres as [p' [h1 [h2 [Pn' [Ei [Hb ->]]]]]]. assert (p' = p) by congruence. subst p'. cbn [bx_s bx_tabs st_h s_h s_c s_r] in *.
  set (h := s_h (bx_s x)) in *. set (t := length h) in *.
  pose proof (nth_some_lt _ _ _ En) as Hnlt. pose proof (nth_some_lt _ _ _ Ep) as Hplt.
  assert (node <> p) as Hop. { intros ->. exact (hs_noself _ _ _ HS _ _ En Pn). }
  assert (t <> p) as Htp by lia. assert (t <> node) as Htn by lia.
  destruct (insert_after_spec _ _ _ _ _ Ei Htp) as [np' [nn' [Ep' [Enn [Hlen1 [E1p [E1t E1o]]]]]]].
  rewrite nth_error_app1 in Ep' by exact Hplt. assert (np' = np) by congruence. subst np'.
  unfold t in Enn. rewrite nth_app_new in Enn. injection Enn as <-. fold t in E1t, E1p.
  rewrite app_length in Hlen1. cbn [length] in Hlen1.
  assert (nth_error h1 node = Some n) as En1.
  { rewrite E1o by lia. rewrite nth_error_app1 by exact Hnlt. exact En. }
  pose proof (CC dropD_notin _ _ _ _ _ (os_nodup _ _ _ _ _ _ HO)) as Hni.
  destruct (np_para _ _ _ HnP Kn) as [Hpl [Hso Hli]].
  destruct before as [|b0 bt].
  - (* the whole paragraph is the table: it is replaced by the placeholder *)
    destruct Hb as [h' [E' Er']]. apply hupd_ok in E'. destruct E' as [m [Em ->]]. assert (m = n) by congruence. subst m.
    assert (nth_error (hset h1 node (set_lines n [])) node = Some (set_lines n [])) as En2.
    { apply nth_hset_eq. eapply nth_some_lt. exact En1. }
    destruct (remove_child_spec _ _ _ _ Er' Hop) as [nc [Enc [[Hbad _]|[_ [np2 [Ep2 [Hlen2 [E2c [E2p E2o]]]]]]]]];
      assert (nc = set_lines n []) by congruence; subst nc; [cbn [set_lines bpar] in Hbad; congruence|].
    rewrite nth_hset_ne in Ep2 by congruence. assert (np2 = set_ch np (insert_after_id node t (bch np))) by congruence. subst np2.
    unfold attached, hget in Hatt. rewrite E2c in Hatt. cbn [bind set_par bpar] in Hatt. injection Hatt as <-. injection Hcl as <-.
    cbn [bx_s bx_tabs st_h s_h s_c s_r]. split; [|split; [apply tabs_ok_snoc; assumption|apply tframe_heap; rewrite Hlen2, length_hset, Hlen1; fold h; lia]].
    split; [exact HR|]. cbn [st_h s_h s_c s_r].
    (* first the paragraph leaves the opened blocks, without lines *)
    assert (HI (rd_bound fl (s_r (bx_s x))) (hset h node (set_lines n [])) (s_c (bx_s x)) A D N) as [B1 S1 J1 O1 R1].
    { eapply (CC HI_close_entry); [exact HH|exact En|apply (CC same_shape_lines)| | |].
      - destruct HnP as [H1 H2 H3 H4 H5 H6 H7]. constructor; cbn [set_lines blines b_seg bk b_i1 bch]; auto; try congruence.
        intros _. csplit; [constructor|constructor|exact I].
      - intros _ _. cbn [set_lines blines]. split; constructor.
      - cbn [set_lines blines]. intros _ sg []. }
    eapply (CJ HI_replace_spec _ (hset h node (set_lines n [])) _ A D N _ p node (set_lines n []) np ph_node h2 B1 S1 J1 O1 R1);
      try discriminate; auto.
    + apply nth_hset_eq. exact Hnlt.
    + rewrite nth_hset_ne by congruence. exact Ep.
    + apply ph_node_P.
    + rewrite length_hset. fold t. rewrite E2o by congruence. rewrite nth_hset_ne by congruence. exact E1t.
    + rewrite length_hset. fold t. rewrite E2p. cbn [set_ch bch]. rewrite remove_insert_id by exact Hch. reflexivity.
    + intros j J1' J2 J3. rewrite length_hset in J2. fold t in J2. rewrite E2o by congruence. rewrite nth_hset_ne by congruence.
      rewrite E1o by congruence. symmetry. apply nth_app_hset. exact J1'.
  - (* the first lines stay in the paragraph, which is closed *)
    apply hupd_ok in Hb. destruct Hb as [m [Em ->]]. assert (m = n) by congruence. subst m.
    set (cb := cut_last_newline (b0 :: bt)) in *.
    assert (nth_error (hset h1 node (set_lines n cb)) node = Some (set_lines n cb)) as En2.
    { apply nth_hset_eq. eapply nth_some_lt. exact En1. }
    unfold attached, hget in Hatt. rewrite En2 in Hatt. cbn [bind set_lines bpar] in Hatt. rewrite Pn in Hatt. injection Hatt as <-.
    rewrite EL in Hpl, Hso, Hli.
    destruct (cut_lines_ok space_table src sp32 sp10 (b0 :: bt) hdr (delim :: rest) ltac:(discriminate) Hpl Hso Hli)
      as [C1 [C2 [C3 [C4 [C5 C6]]]]]. fold cb in C1, C2, C3, C4, C5.
    unfold lift0 in Hcl. bind_inv Hcl s3 Es3. injection Hcl as <-. cbn [p_close] in Es3. cbn [stx_s bx_s bx_tabs].
    rewrite (CC paragraph_close_unfold (st_h (bx_s x) (hset h1 node (set_lines n cb))) node (set_lines n cb)) in Es3; [|exact Esrc|exact En2|exact C4].
    cbn [set_lines blines] in Es3. bind_inv Es3 L' Hcl'. injection Es3 as <-. cbn [st_h s_h s_c s_r].
    rewrite (CC hset_hset). replace (set_lines (set_lines n cb) L') with (set_lines n L') by reflexivity.
    split; [|split; [apply tabs_ok_snoc; assumption|unfold GfmWfBlkJ.tframe; cbn [st_h s_h s_c s_r]; csplit; auto; rewrite !length_hset, Hlen1; fold h; lia]].
    split; [exact HR|]. cbn [st_h s_h s_c s_r].
    assert (HI (rd_bound fl (s_r (bx_s x))) (hset h node (set_lines n L')) (s_c (bx_s x)) A D N) as HH1.
    { eapply (CC HI_close_lines _ _ _ _ _ _ _ _ cb L'); try eassumption.
      intros sg Hsg. destruct (C5 sg Hsg) as [sg0 [Hin0 Hle0]].
      pose proof (hi_bnd _ _ _ _ _ _ _ _ HH node n sg0 En Kn) as Hb0. rewrite EL in Hb0.
      specialize (Hb0 (in_or_app _ _ _ (or_introl Hin0))). lia. }
    eapply (CC HI_insert_spec _ (hset h node (set_lines n L')) _ A D N p node np ph_node); try discriminate; auto.
    + rewrite nth_hset_ne by congruence. exact Ep.
    + apply ph_node_P.
    + rewrite length_hset. fold t. rewrite !nth_hset_ne by congruence. exact E1p.
    + rewrite length_hset. fold t. rewrite !nth_hset_ne by congruence. exact E1t.
    + intros j J1 J2. rewrite length_hset in J2. fold t in J2. destruct (Nat.eq_dec j node) as [->|Hjn].
      * rewrite nth_hset_eq by (eapply nth_some_lt; exact En1).
        rewrite nth_error_app1 by (rewrite length_hset; exact Hnlt). symmetry. apply nth_hset_eq. exact Hnlt.
      * rewrite !nth_hset_ne by congruence. rewrite E1o by congruence. symmetry. apply nth_app_hset. exact Hjn.
Qed.

End S.
