(* Leaf blocks, renderer side: the HTML renderer model applied to the tree of a leaf-block document
   (SpecLeafBytes.ldoc_full: plain paragraphs, ATX headings, thematic breaks, fenced code blocks)
   writes SpecLeafBytes.ldoc_html.  Builds on SpecParaRender.v. *)
Require Import GM.model.Base GM.model.Util GM.model.Ids GM.model.Reader GM.model.HtmlWriter GM.model.Html GM.model.HtmlI.
Require Import GM.gen.Tables GM.gen.Entities GM.gen.Filters.
Require Import GM.proofs.SpecParaBytes GM.proofs.SpecParaRender GM.proofs.SpecLeafBytes.
From Coq Require Import List NArith ZArith Bool Lia.
Import ListNotations.
Open Scope N_scope.

(* ---------- the value of a code line segment ---------- *)
Lemma seg_value_fseg (pre l post : bytes) :
  seg_value (pre ++ (l ++ [10]) ++ post) (fseg (zlen pre) (zlen pre + zlen l + 1)) = Ok (l ++ [10]).
Proof.
  unfold seg_value, fseg. cbn [s_start s_stop s_pad s_fnl].
  replace (zlen pre + zlen l + 1)%Z with (zlen pre + zlen (l ++ [10%N]))%Z
    by (rewrite zlen_app, zlen_cons, zlen_nil; lia).
  rewrite slice_mid. cbn [bind]. change (0 =? 0)%Z with true. change (0 <? 0)%Z with false. cbv iota.
  rewrite rev_app_distr. cbn [rev app]. change (10 =? 10) with true. reflexivity.
Qed.

(* ---------- escaping letters, blanks and newlines ---------- *)
Lemma nl_esc1 : esc1 html_escape_table 10 = [10].
Proof. vm_compute. reflexivity. Qed.
Lemma escape_html_text (v : bytes) : forallb textc v = true -> escape_html html_escape_table v = v.
Proof.
  induction v as [|x v IH]; intros H; [reflexivity|].
  cbn [forallb] in H. apply andb_true_iff in H. destruct H as [Hx Hv].
  unfold escape_html in *. cbn [flat_map]. rewrite (text_esc1 x Hx), (IH Hv). reflexivity.
Qed.
Lemma raw_write_line (l : bytes) : forallb textc l = true -> raw_write html_escape_table (l ++ [10]) = l ++ [10].
Proof.
  intros H. unfold raw_write. unfold escape_html. rewrite flat_map_app. cbn [flat_map]. rewrite nl_esc1, app_nil_r.
  fold (escape_html html_escape_table l). rewrite (escape_html_text l H). reflexivity.
Qed.

(* ---------- the code lines ---------- *)
Lemma code_text_cons l ls : code_text (l :: ls) = (l ++ [10]) ++ code_text ls.
Proof. reflexivity. Qed.

Lemma write_lines_fence ls : forall pre post,
  forallb (forallb textc) ls = true ->
  write_lines html_escape_table (pre ++ code_text ls ++ post) (fence_segs (zlen pre) ls) = Ok (code_text ls).
Proof.
  induction ls as [|l r IH]; intros pre post H; [reflexivity|].
  cbn [forallb] in H. apply andb_true_iff in H. destruct H as [Hl Hr].
  cbn [fence_segs write_lines]. rewrite code_text_cons.
  rewrite <- (app_assoc (l ++ [10]) (code_text r) post).
  rewrite seg_value_fseg. cbn [bind].
  replace (pre ++ (l ++ [10]) ++ code_text r ++ post) with ((pre ++ l ++ [10]) ++ code_text r ++ post)
    by (rewrite <- !app_assoc; reflexivity).
  replace (zlen pre + zlen l + 1)%Z with (zlen (pre ++ l ++ [10]))
    by (rewrite !zlen_app, zlen_cons, zlen_nil; lia).
  rewrite (IH (pre ++ l ++ [10]) post Hr). cbn [bind]. rewrite (raw_write_line l Hl). reflexivity.
Qed.

(* ---------- decimal level ---------- *)
Lemma zdec_of_N lv : zdec (Z.of_N lv) = dec lv.
Proof.
  unfold zdec. replace (Z.of_N lv <? 0)%Z with false by (symmetry; apply Z.ltb_ge; lia).
  rewrite N2Z.id. reflexivity.
Qed.

(* ---------- one block ---------- *)
Lemma render_lblock c b pre post has_next is_last :
  hardwraps c = false -> xhtml c = true -> lblock_ok b = true ->
  RN c (pre ++ lblock_src b ++ post) (Some KDocument) has_next is_last (lblock_full (zlen pre) b) = Ok (lblock_html b).
Proof.
  intros Hc Hx Hb. destruct b as [p|lv t|ch|info ls]; cbn [lblock_ok] in Hb;
    unfold lblock_full; cbn [lblock_kind lblock_lines lblock_kids lblock_src lblock_html].
  - apply render_para; assumption.
  - apply andb_true_iff in Hb. destruct Hb as [Hlv Ht]. apply andb_true_iff in Hlv. destruct Hlv as [H1 H6].
    apply N.leb_le in H1. apply N.leb_le in H6.
    rewrite render_node_eq. cbn [render_enter t_kind t_children render_leave].
    replace ((0 <=? Z.of_N lv) && (Z.of_N lv <=? 6))%Z with true
      by (symmetry; apply andb_true_iff; split; apply Z.leb_le; lia).
    cbn [bind attrs_of render_list]. rewrite zdec_of_N.
    replace (pre ++ (hashes lv ++ [32] ++ t) ++ post) with ((pre ++ hashes lv ++ [32]) ++ t ++ post)
      by (rewrite <- !app_assoc; reflexivity).
    replace (zlen pre + Z.of_N lv + 1)%Z with (zlen (pre ++ hashes lv ++ [32]))
      by (rewrite !zlen_app, zlen_hashes, zlen_cons, zlen_nil; lia).
    rewrite (render_text_node c (pre ++ hashes lv ++ [32]) t post _ _ _ false Hc (body_ok_text t Ht)).
    cbn [bind app]. rewrite !app_nil_r. rewrite <- !app_assoc. reflexivity.
  - rewrite render_node_eq. cbn [render_enter t_kind t_children render_leave bind attrs_of render_list].
    unfold void_end. rewrite Hx. reflexivity.
  - apply andb_true_iff in Hb. destruct Hb as [Hi Hl].
    rewrite render_node_eq. cbn [render_enter t_kind t_children render_leave].
    replace (pre ++ (ticks ++ info ++ [10] ++ code_text ls ++ ticks) ++ post)
      with ((pre ++ ticks ++ info ++ [10]) ++ code_text ls ++ (ticks ++ post))
      by (rewrite <- !app_assoc; reflexivity).
    replace (zlen pre + 3 + zlen info + 1)%Z with (zlen (pre ++ ticks ++ info ++ [10])).
    2:{ rewrite !zlen_app, zlen_cons, zlen_nil. change (zlen ticks) with 3%Z. lia. }
    rewrite (write_lines_fence ls _ _ Hl). cbn [bind render_list].
    destruct info as [|i0 info'].
    + reflexivity.
    + rewrite writer_write_text.
      2:{ apply forallb_forall. intros x Hin. apply wordc_textc. exact (proj1 (forallb_forall wordc _) Hi x Hin). }
      unfold tag_open, tag_close, n_pre, n_code. cbn [app]. rewrite <- !app_assoc. reflexivity.
Qed.

(* ---------- the blocks of a document ---------- *)
Lemma render_ldoc_full c d : forall pre post,
  hardwraps c = false -> xhtml c = true -> forallb lblock_ok d = true ->
  render_list c (pre ++ ldoc_body d ++ post) KDocument (ldoc_full (zlen pre) d) = Ok (ldoc_html d).
Proof.
  induction d as [|b r IH]; intros pre post Hc Hx Hd; [reflexivity|].
  cbn [forallb] in Hd. apply andb_true_iff in Hd. destruct Hd as [Hb Hr].
  cbn [ldoc_full render_list]. destruct r as [|b' r'].
  - change (ldoc_body [b]) with (lblock_src b).
    rewrite (render_lblock c b pre post _ _ Hc Hx Hb). cbn [ldoc_full render_list bind ldoc_html flat_map].
    reflexivity.
  - rewrite ldoc_body_cons2.
    rewrite <- (app_assoc (lblock_src b) ([10;10] ++ ldoc_body (b' :: r')) post).
    rewrite (render_lblock c b pre _ _ _ Hc Hx Hb). cbn [bind].
    replace (pre ++ lblock_src b ++ ([10; 10] ++ ldoc_body (b' :: r')) ++ post)
      with ((pre ++ lblock_src b ++ [10;10]) ++ ldoc_body (b' :: r') ++ post)
      by (rewrite <- !app_assoc; reflexivity).
    replace (zlen pre + zlen (lblock_src b) + 2)%Z with (zlen (pre ++ lblock_src b ++ [10;10]))
      by (rewrite !zlen_app, !zlen_cons, zlen_nil; lia).
    rewrite (IH (pre ++ lblock_src b ++ [10;10]) post Hc Hx Hr). cbn [bind]. reflexivity.
Qed.

(* ---------- the document ---------- *)
Theorem render_leaf : forall c d post,
  hardwraps c = false -> xhtml c = true -> ldoc_ok d = true ->
  RenderHTML c (ldoc_body d ++ post) (Node KDocument [] None (ldoc_full 0 d)) = Ok (ldoc_html d).
Proof.
  intros c d post Hc Hx Hd. unfold ldoc_ok in Hd. apply andb_true_iff in Hd. destruct Hd as [_ Hd].
  unfold RenderHTML, render. rewrite render_node_eq.
  cbn [render_enter t_kind t_children render_leave bind].
  change (ldoc_body d ++ post) with ([] ++ ldoc_body d ++ post).
  change 0%Z with (zlen (@nil N)).
  rewrite (render_ldoc_full c d [] post Hc Hx Hd). cbn [bind app]. rewrite app_nil_r. reflexivity.
Qed.
