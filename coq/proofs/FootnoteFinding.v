(* C16, the recorded finding, as a theorem about the Footnote model: the clause "every back-link of
   a rendered item points to a reference that exists in the output" is FALSE of the faithful model.
   Witness (known_findings.json, dangling-backlink:ref-not-rendered): a footnote reference inside
   image alt text is counted by the inline parser - the definition gets its number, the item and
   its back-link are rendered - but the image renderer writes alt text only, so the output carries
   href="#fnref:1" and no element with id="fnref:1".  The same source converted by goldmark is the
   replay of the finding; the model and goldmark agree on it byte for byte (case kind ConvertFn). *)
Require Import GM.model.Base GM.model.Html GM.model.FootnoteI.
From Coq Require Import List NArith ZArith Bool.
Import ListNotations.
Open Scope N_scope.

Fixpoint occurs (pat l : bytes) : bool :=
  prefix_of pat l || match l with [] => false | _ :: r => occurs pat r end.

(* ![x[^1]](/u) <empty line> [^1]: n *)
Definition dangling_src : bytes := [33;91;120;91;94;49;93;93;40;47;117;41;10;10;91;94;49;93;58;32;110].
Definition href_fnref1 : bytes := [104;114;101;102;61;34;35;102;110;114;101;102;58;49;34].   (* href="#fnref:1" *)
Definition id_fnref1 : bytes := [105;100;61;34;102;110;114;101;102;58;49;34].                 (* id="fnref:1" *)
Definition id_fn1 : bytes := [105;100;61;34;102;110;58;49;34].                                (* id="fn:1" *)

Lemma backlink_dangling_witness : forall u x h ta, exists o,
  ConvertModelFn {| unsafe := u; xhtml := x; hardwraps := h; talign := ta |} dangling_src = Ok o /\
  occurs id_fn1 o = true /\ occurs href_fnref1 o = true /\ occurs id_fnref1 o = false.
Proof.
  intros [|] [|] [|] ta; eexists; (split; [vm_compute; reflexivity|]); vm_compute; repeat split.
Qed.
