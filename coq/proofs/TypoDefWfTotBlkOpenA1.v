(* Helper file 1 for TypoDefWfTotBlkOpenA.v (one round of open_blocks_loopD, see TypoDefWfTotBlkOpenAI.v):
   - the lemmas of TypoDefWfTotBlkTc.v / ...Dl.v that the OpenA files use, restated under local names
     (section Iface: the only place where they are referred to; the proofs do not depend on which
     section variables such a lemma takes),
   - the body of try_parsersD behind a successful Open as functions (req_paraD, att_stepD, attachD,
     after_openD: the generalised copies of ParseBlocksTotalOpen.req_para ... after_open),
   - attachD of a detached node is the core `attach`; tree consistency and the kind frame of that step,
   - Close, pop and the paragraph transformer on the paragraph in front (the RequireParagraph path; shared
     by the setext parser and the definition list parser),
   - from the outcomes of the core proof (OPop, OPush) to those of the interface (OPopD, OPushD). *)
Require Import GM.model.Base GM.model.Util GM.model.Reader GM.model.ReaderSpec GM.model.Blocks GM.model.ListItem
               GM.model.LeafBlocks GM.model.CodeBlock GM.model.LinkDest GM.model.Regex GM.model.BlockParse
               GM.model.TypoDefParseD.
Require Import GM.proofs.ReaderProofs GM.proofs.BlocksProofs
               GM.proofs.ParseBlocksTotalReader GM.proofs.ParseBlocksTotalDefs GM.proofs.ParseBlocksTotalSpec
               GM.proofs.ParseBlocksTotalSt GM.proofs.ParseBlocksTotalShape GM.proofs.ParseBlocksTotalLeaf
               GM.proofs.ParseBlocksTotalOpen
               GM.proofs.GfmConservativeDefs GM.proofs.TypoDefConservativeBlkInv
               GM.proofs.TypoDefWfTotBlkDefs GM.proofs.TypoDefWfTotBlkSpec GM.proofs.TypoDefWfTotBlkOpenI
               GM.proofs.TypoDefWfTotBlkOpenAI GM.proofs.TypoDefWfTotBlkTc GM.proofs.TypoDefWfTotBlkDl.
From Coq Require Import ZArith Lia List Bool.
Import ListNotations.
Open Scope Z_scope.

(* the state a round ends with *)
Definition st_of (t : try_res) : st := match t with TRetry _ _ _ s' => s' | TDone _ s' => s' end.
(* tree consistency and the kind frame of an outcome *)
Definition TCK (h : heap) (t : try_res) : Prop := TC (s_h (st_of t)) /\ kkeep h (s_h (st_of t)).
(* the node that was new for the heap h is no node of the DefinitionList extension *)
Definition DN (h : heap) (t : try_res) : Prop :=
  forall nn, nth_error (s_h (st_of t)) (length h) = Some nn -> dnode nn.

Section S.
Variable space_table punct_table : list N.
Variable norm : bytes -> bytes.
Variable re_t1o re_t1c re_t2 re_t3 re_t4 re_t5 re_t6 re_t7 : re.
Variable allowed_tags : list bytes.
Variable src : bytes.
Hypothesis tbl : TblOK space_table.
Notation SI := (SI space_table src).
Notation SD := (SD space_table src).
Notation HInv := (HInv space_table src).
Notation HStep := (HStep space_table src).
Notation PO := (p_open space_table re_t1o re_t2 re_t3 re_t4 re_t5 re_t6 re_t7 allowed_tags).
Notation TPAR := (transform_paragraph space_table punct_table norm).
Notation close_postD := (close_postD space_table src).
Notation transform_post := (transform_post space_table src).

(* ---------------------------------------------------------------------------------------- *)
(* the interface lemmas used by the OpenA files                                              *)
Section Iface.
(* the section variables an interface lemma takes are found by unification (those that occur in its statement)
   or are irrelevant (any value of the right type will do: `assumption`) *)
Ltac iface L := intros; eapply L; eassumption.

Lemma i_p_open_TC bp s parent s' o : TC (s_h s) -> PO bp s parent = Ok (s', o) ->
  TC (s_h s') /\ kkeep (s_h s) (s_h s') /\
  match o with
  | None => s_h s' = s_h s
  | Some (id, k, r) => exists nd, s_h s' = s_h s ++ [nd] /\ id = length (s_h s) /\ bpar nd = None /\ bch nd = [] /\ dnode nd
  end.
Proof using All. iface p_open_TC. Unshelve. all: assumption. Qed.

Lemma i_TC_hset h i n n' : TC h -> nth_error h i = Some n -> bch n' = bch n -> bpar n' = bpar n -> TC (hset h i n').
Proof. iface TC_hset. Qed.
Lemma i_TC_append_child h p c h' cn : TC h -> append_child h p c = Ok h' -> nth_error h c = Some cn -> bpar cn = None ->
  c <> p -> TC h'.
Proof. iface TC_append_child. Qed.

Lemma i_paragraph_close_same s node s' n : nth_error (s_h s) node = Some n -> blines n <> [] ->
  paragraph_close space_table s node = Ok s' ->
  forall j, j <> node -> nth_error (s_h s') j = nth_error (s_h s) j.
Proof using All. iface paragraph_close_same. Unshelve. all: assumption. Qed.
Lemma i_transform_paragraph_same s node s' g n p : nth_error (s_h s) node = Some n -> bpar n = Some p ->
  TPAR s node = Ok (s', g) ->
  forall j, j <> node -> j <> p -> (j < length (s_h s))%nat -> nth_error (s_h s') j = nth_error (s_h s) j.
Proof using All. iface transform_paragraph_same. Unshelve. all: assumption. Qed.

Lemma i_p_closeD_core bp s node n : nth_error (s_h s) node = Some n -> is_dl n = false -> is_dd n = false ->
  p_closeD space_table bp s node = p_close space_table bp s node.
Proof using All. iface p_closeD_core. Unshelve. all: assumption. Qed.

Lemma i_append_childD_new h p c cn : nth_error h c = Some cn -> bpar cn = None ->
  append_childD h p c = append_child h p c.
Proof using All. iface append_childD_new. Unshelve. all: assumption. Qed.
Lemma i_append_childD_move h p c pn cn : HInv h -> TC h -> nth_error h p = Some pn -> nth_error h c = Some cn ->
  In c (bch pn) -> bk pn <> BList -> bk cn <> BListItem ->
  exists h', append_childD h p c = Ok h' /\ HStep h h' /\ TC h' /\ length h' = length h /\
    bpar cn = Some p /\ nth_error h' c = Some cn /\
    nth_error h' p = Some (set_ch pn (remove_id c (bch pn) ++ [c])) /\
    (forall j, j <> p -> j <> c -> nth_error h' j = nth_error h j).
Proof using All. iface append_childD_move. Unshelve. all: assumption. Qed.

Lemma i_deflist_open_ok s parent pn : SD s -> sin s -> BoffOK s -> OffOK s -> nth_error (s_h s) parent = Some pn ->
  exists s1 o, deflist_open s parent = Ok (s1, o) /\
    SD s1 /\ same_pos (s_r s) (s_r s1) /\ s_c s1 = s_c s /\
    match o with
    | None => s_h s1 = s_h s
    | Some (node, kids, req) =>
      kids = true /\ is_dl pn = false /\ DLine s /\
      exists l ln W, last_id (bch pn) = Some l /\ nth_error (s_h s) l = Some ln /\ Wok s W /\
        ((req = true /\ bk ln = BParagraph /\ node = length (s_h s) /\
          s_h s1 = s_h s ++ [set_seg (set_i2 (mknode BHTML 100) W) (para_ref l)])
         \/
         (req = false /\ bk ln = BParagraph /\ node <> l /\ In node (bch pn) /\
          exists nn, nth_error (s_h s) node = Some nn /\ is_dl nn = true /\
                     s_h s1 = hset (s_h s) node (set_seg (set_i2 nn W) (para_ref l)))
         \/
         (req = false /\ is_dl ln = true /\ node = l /\
          s_h s1 = hset (s_h s) l (set_seg (set_i2 ln W) None)))
    end.
Proof using All. iface deflist_open_ok. Unshelve. all: assumption. Qed.

Lemma i_defdesc_open_none s parent pn : SI s -> sin s -> BoffOK s -> nth_error (s_h s) parent = Some pn -> is_dl pn = false ->
  exists s1, defdesc_open space_table s parent = Ok (s1, None) /\ SI s1 /\ scache s s1.
Proof using All. iface defdesc_open_none. Unshelve. all: assumption. Qed.

Lemma i_defdesc_open_dl s parent pn : SD s -> sin s -> DLine s -> nth_error (s_h s) parent = Some pn -> is_dl pn = true ->
  Wok s (b_i2 pn) -> TmpOK (s_h s) (b_seg pn) ->
  exists s1 node, defdesc_open space_table s parent = Ok (s1, Some (node, true, false)) /\
    SD s1 /\ s_c s1 = s_c s /\ same_line (s_r s) (s_r s1) /\
    s_start (r_pos (s_r s)) + 1 <= s_start (r_pos (s_r s1)) /\
    kkeep (s_h s) (s_h s1) /\ (length (s_h s) <= node)%nat /\ S node = length (s_h s1) /\
    nth_error (s_h s1) node = Some (set_tight (mknode BHTML 102) false) /\
    (exists pn1, nth_error (s_h s1) parent = Some pn1 /\ bpar pn1 = bpar pn /\ b_seg pn1 = None /\
                 blines pn1 = blines pn) /\
    (forall j n, nth_error (s_h s) j = Some n -> exists n', nth_error (s_h s1) j = Some n' /\
        blines n' = blines n /\ (bk n <> BParagraph -> bpar n' = bpar n) /\ (bk n = BList -> bch n' = bch n)) /\
    (forall j n', (length (s_h s) <= j)%nat -> nth_error (s_h s1) j = Some n' -> bk n' = BHTML).
Proof using All. iface defdesc_open_dl. Unshelve. all: assumption. Qed.

Lemma i_p_closeD_ok bp s node n : SD s -> nth_error (s_h s) node = Some n -> bk n = kind_of_parser bp ->
  bpar n <> None ->
  (bp = PFenced -> c_fence (s_c s) <> None) ->
  (bp = PSetext -> blines n <> [] /\ c_tmp_para (s_c s) <> None) ->
  exists s', p_closeD space_table bp s node = Ok s' /\ close_postD bp node s s' /\
             TC (s_h s') /\ kkeep (s_h s) (s_h s').
Proof using All. iface p_closeD_ok. Unshelve. all: assumption. Qed.

Lemma i_transform_paragraph_okD s node n : SD s -> nth_error (s_h s) node = Some n -> bk n = BParagraph ->
  bpar n <> None ->
  exists s' gone, TPAR s node = Ok (s', gone) /\
    transform_post node s s' gone /\ TC (s_h s') /\ kkeep (s_h s) (s_h s').
Proof using All. iface transform_paragraph_okD. Unshelve. all: assumption. Qed.

End Iface.

(* ---------------------------------------------------------------------------------------- *)
(* the body of try_parsersD behind a successful Open                                          *)
Notation TPD := (try_parsersD space_table punct_table norm re_t1o re_t2 re_t3 re_t4 re_t5 re_t6 re_t7 allowed_tags).
Notation POD := (p_openD space_table re_t1o re_t2 re_t3 re_t4 re_t5 re_t6 re_t7 allowed_tags).
Notation CBD := (close_blocksD space_table punct_table norm).

Definition req_paraD (parent : nat) (last_block : option (nat * bparser)) (s : st) (require_para : bool)
  : result (st + st) :=
  if require_para then
    match last_block with
    | None => Ok (inl s)
    | Some (last, lp) =>
      pn <- hget (s_h s) parent ;;
      if opt_nat_eqb (Some last) (last_id (bch pn)) then
        s <- p_closeD space_table lp s last ;;
        let c := s_c s in
        (if Nat.eqb (c_len c) 0 then Panic
         else
           let s := st_c s (cset_open c (c_arr c) (pred (c_len c))) in
           isp <- is_paragraph (s_h s) last ;;
           if negb isp then Panic
           else
           t <- TPAR s last ;;
           let '(s, gone) := t in
           if gone then Ok (inr s) else Ok (inl s))
      else Ok (inl s)
    end
  else Ok (inl s).

Definition att_stepD (last_block : option (nat * bparser)) (s : st) : result st :=
  match last_block with
  | None => Ok s
  | Some (last, _) =>
    att <- attached (s_h s) last ;;
    if negb att then
      let lp := Z.of_nat (c_len (s_c s)) - 1 in CBD s lp lp
    else Ok s
  end.

Definition attachD (bp : bparser) (parent : nat) (blank continuable : bool) (last_block : option (nat * bparser))
                   (s : st) (node : nat) (has_children : bool) : result try_res :=
  h <- hupd (s_h s) node (fun n => set_blank n blank) ;;
  let s := st_h s h in
  s <- att_stepD last_block s ;;
  h <- append_childD (s_h s) parent node ;;
  let s := st_c (st_h s h) (push_opened (s_c s) (node, bp)) in
  if has_children then Ok (TRetry node continuable newBlocksOpened s)
  else Ok (TDone newBlocksOpened s).

Definition after_openD (bp : bparserD) (parent : nat) (blank continuable : bool) (res : Z)
                       (last_block : option (nat * bparser)) (s : st) (node : nat) (has_children require_para : bool)
  : result try_res :=
  r <- req_paraD parent last_block s require_para ;;
  match r with
  | inr s => Ok (TRetry parent false res s)
  | inl s => attachD (recorded bp) parent blank continuable last_block s node has_children
  end.

Lemma try_parsersD_cons bp rest parent blank continuable res w s :
  TPD (bp :: rest) parent blank continuable res w s =
  if continuable && (res =? noBlocksOpened) && negb (can_interrupt_paragraphD bp) then
    TPD rest parent blank continuable res w s
  else if (3 <? w) && negb (can_accept_indentedD bp) then
    TPD rest parent blank continuable res w s
  else
    x <- POD bp s parent ;;
    let '(s', o) := x in
    match o with
    | None => TPD rest parent blank continuable res w s'
    | Some (node, has_children, require_para) =>
      after_openD bp parent blank continuable res (last_opened (s_c s)) s' node has_children require_para
    end.
Proof. reflexivity. Qed.

(* ---------------------------------------------------------------------------------------- *)
(* attaching a detached node: the core function; tree consistency and the kind frame           *)
Lemma attachD_core bp parent blank cont last_block s node kids ndX :
  nth_error (s_h s) node = Some ndX -> bpar ndX = None ->
  (forall l lp, last_block = Some (l, lp) -> exists n, nth_error (s_h s) l = Some n /\ bpar n <> None /\ l <> node) ->
  attachD bp parent blank cont last_block s node kids =
    attach space_table punct_table norm bp parent blank cont last_block s node kids /\
  (forall t, attach space_table punct_table norm bp parent blank cont last_block s node kids = Ok t ->
             TC (s_h s) -> node <> parent -> TC (s_h (st_of t)) /\ kkeep (s_h s) (s_h (st_of t))).
Proof using All.
  intros Hn Hdet Hlast.
  assert (Hnl : (node < length (s_h s))%nat) by (eapply nth_error_lt, Hn).
  set (h1 := hset (s_h s) node (set_blank ndX blank)).
  assert (Hn1 : nth_error h1 node = Some (set_blank ndX blank)) by (unfold h1; apply hset_same; exact Hnl).
  assert (Es : att_step space_table punct_table norm last_block (st_h s h1) = Ok (st_h s h1) /\
               att_stepD last_block (st_h s h1) = Ok (st_h s h1)).
  { unfold att_step, att_stepD. destruct last_block as [[l lp]|]; [|split; reflexivity].
    destruct (Hlast l lp eq_refl) as (n & En & Pn & Hne). unfold attached. cbn [st_h s_h].
    assert (E1 : nth_error h1 l = Some n) by (unfold h1; rewrite hset_other by lia; exact En).
    rewrite (hget_some _ _ _ E1). cbn [bind]. destruct (bpar n); [split; reflexivity|congruence]. }
  destruct Es as [Es EsD]. split.
  - unfold attachD, attach. rewrite (hupd_ok _ _ _ _ Hn). cbn [bind]. cbv zeta. fold h1. rewrite Es, EsD. cbn [bind].
    cbn [st_h s_h]. rewrite (i_append_childD_new h1 parent node _ Hn1) by (cbn [set_blank bpar]; exact Hdet). reflexivity.
  - intros t Ht HT Hne. unfold attach in Ht. rewrite (hupd_ok _ _ _ _ Hn) in Ht. cbn [bind] in Ht. cbv zeta in Ht.
    fold h1 in Ht. rewrite Es in Ht. cbn [bind] in Ht. cbn [st_h s_h s_c] in Ht.
    gc_bind Ht h2 E2.
    assert (T1 : TC h1) by (unfold h1; eapply i_TC_hset; [exact HT|exact Hn|reflexivity|reflexivity]).
    assert (T2 : TC h2).
    { eapply (i_TC_append_child h1 parent node h2); [exact T1|exact E2|exact Hn1|cbn [set_blank bpar]; exact Hdet|exact Hne]. }
    assert (K2 : kkeep (s_h s) h2).
    { apply (kkeep_trans _ h1); [unfold h1; apply (kkeep_hset _ _ ndX); [exact Hn|reflexivity|reflexivity]|].
      eapply (kkeep_hRk 0%nat). eapply hRk_append_child; [exact E2|lia]. }
    destruct kids; injection Ht as <-; cbn [st_of st_c st_h s_h]; split; assumption.
Qed.
(* ---------------------------------------------------------------------------------------- *)
(* the RequireParagraph path: Close, pop, transform the paragraph in front                     *)
Lemma close_frame_weaken node (P Q : nat -> bnode -> Prop) h h' : (forall j n, P j n -> Q j n) ->
  close_frame node P h h' -> close_frame node Q h h'.
Proof.
  intros HPQ [L F]. split; [exact L|]. intros j n Hj. destruct (F j n Hj) as (n' & E & K & A & B & C).
  exists n'. csplit; auto. destruct C as [C|[C1 C2]]; [left; exact C|right; split; [exact C1|apply HPQ, C2]].
Qed.

Lemma para_not_dl n : bk n = BParagraph -> is_dl n = false /\ is_dd n = false.
Proof. intros K. destruct (dnode_kind n) as (A & _ & B); [rewrite K; discriminate|]. auto. Qed.

Lemma cpt_ok s1 last ln base :
  SD s1 -> nth_error (s_h s1) last = Some ln -> bk ln = BParagraph -> bpar ln <> None ->
  opened (s_c s1) = base ++ [(last, PParagraph)] ->
  exists s2 s4 gone,
    p_closeD space_table PParagraph s1 last = Ok s2 /\
    Nat.eqb (c_len (s_c s2)) 0 = false /\
    is_paragraph (s_h s2) last = Ok true /\
    TPAR (st_c s2 (cset_open (s_c s2) (c_arr (s_c s2)) (pred (c_len (s_c s2))))) last = Ok (s4, gone) /\
    SD s4 /\ kkeep (s_h s1) (s_h s4) /\ s_r s4 = s_r s1 /\
    c_fence (s_c s4) = c_fence (s_c s1) /\ c_tmp_para (s_c s4) = c_tmp_para (s_c s1) /\
    c_boff (s_c s4) = c_boff (s_c s1) /\ c_bind (s_c s4) = c_bind (s_c s1) /\
    opened (s_c s4) = base /\
    close_frame last (fun _ _ => False) (s_h s1) (s_h s2) /\
    close_frame last (fun j _ => j = last) (s_h s2) (s_h s4) /\
    (exists n4, nth_error (s_h s4) last = Some n4 /\ (gone = true <-> bpar n4 = None)) /\
    (forall p, bpar ln = Some p -> forall j, j <> last -> j <> p -> (j < length (s_h s1))%nat ->
               nth_error (s_h s4) j = nth_error (s_h s1) j).
Proof using All.
  intros [HS HT] Hl Kl Pl Eo.
  destruct (i_p_closeD_ok PParagraph s1 last ln (conj HS HT) Hl) as (s2 & E2 & CP & T2 & K2);
    [rewrite Kl; reflexivity|exact Pl|discriminate|discriminate|].
  destruct CP as (S2 & R2 & Cf2 & Ffc & _ & Ftc & CF2).
  assert (CF2' : close_frame last (fun _ _ => False) (s_h s1) (s_h s2)).
  { eapply close_frame_weaken; [|exact CF2]. intros j n [C|[C _]]; [exact C|discriminate]. }
  pose proof CF2' as [L2 F2]. destruct (F2 last ln Hl) as (n2 & En2 & Kn2 & _ & _ & Pn2).
  assert (Pn2' : bpar n2 = bpar ln) by (destruct Pn2 as [Pn2|[_ []]]; exact Pn2).
  rewrite Kl in Kn2.
  destruct (pop_opened_spec (s_c s1) base (last, PParagraph) (ci_len _ _ (si_c _ _ _ HS)) Eo) as [_ Elen].
  assert (Hlen : c_len (s_c s2) <> 0%nat) by (destruct Cf2 as (_ & B2 & _); rewrite B2, Elen; lia).
  set (s3 := st_c s2 (cset_open (s_c s2) (c_arr (s_c s2)) (pred (c_len (s_c s2))))).
  assert (S3 : SI s3) by (apply SI_set_c; [exact S2|apply (CInv_pop norm src), (si_c _ _ _ S2)]).
  destruct (i_transform_paragraph_okD s3 last n2 (conj S3 T2) En2 Kn2) as (s4 & gone & E4 & TPo & T4 & K4);
    [rewrite Pn2'; exact Pl|].
  destruct TPo as (S4 & R4 & Cf4 & Ff4 & Ft4 & _ & _ & CF4 & Hn4 & _).
  assert (Eo2 : opened (s_c s2) = base ++ [(last, PParagraph)]).
  { rewrite <- Eo. unfold opened. destruct Cf2 as (A2 & B2 & _). rewrite A2, B2. reflexivity. }
  destruct (pop_opened_spec (s_c s2) base (last, PParagraph) (ci_len _ _ (si_c _ _ _ S2)) Eo2) as [Eo3 _].
  exists s2, s4, gone. csplit.
  - exact E2.
  - apply Nat.eqb_neq, Hlen.
  - unfold is_paragraph. rewrite (hget_some _ _ _ En2). cbn [bind]. rewrite Kn2. reflexivity.
  - exact E4.
  - split; assumption.
  - eapply kkeep_trans; [exact K2|exact K4].
  - rewrite R4. cbn [s3 st_c s_r]. exact R2.
  - rewrite Ff4. cbn [s3 st_c s_c cset_open c_fence]. apply Ffc. discriminate.
  - rewrite Ft4. cbn [s3 st_c s_c cset_open c_tmp_para]. apply Ftc. discriminate.
  - destruct Cf4 as (_ & _ & B4 & _). rewrite B4. cbn [s3 st_c s_c cset_open c_boff]. destruct Cf2 as (_ & _ & B2 & _). exact B2.
  - destruct Cf4 as (_ & _ & _ & B4). rewrite B4. cbn [s3 st_c s_c cset_open c_bind]. destruct Cf2 as (_ & _ & _ & B2). exact B2.
  - rewrite <- Eo3. unfold opened. destruct Cf4 as (A4 & B4 & _). rewrite A4, B4. reflexivity.
  - exact CF2'.
  - exact CF4.
  - exact Hn4.
  - intros p Ep j J1 J2 J3.
    assert (E2' : paragraph_close space_table s1 last = Ok s2).
    { destruct (para_not_dl ln Kl) as [D1 D2]. rewrite (i_p_closeD_core PParagraph s1 last ln Hl D1 D2) in E2. exact E2. }
    assert (Hne : blines ln <> []).
    { pose proof (hi_ok _ _ _ (si_h _ _ _ HS) last ln Hl) as Hok. unfold node_ok in Hok. rewrite Kl in Hok. apply Hok. }
    rewrite (i_transform_paragraph_same s3 last s4 gone n2 p En2 ltac:(congruence) E4 j J1 J2) by (cbn [s3 st_c s_h]; lia).
    cbn [s3 st_c s_h]. exact (i_paragraph_close_same s1 last s2 ln Hl Hne E2' j J1).
Qed.

(* ---------------------------------------------------------------------------------------- *)
(* from the outcomes of the core proof to those of the interface                              *)
Lemma AF_OFrameD h h' p x : (forall j, x = Some j -> exists n, nth_error h j = Some n /\ bk n = BParagraph) ->
  AF h h' p x -> OFrameD h h' p.
Proof.
  intros Hx [L F]. split; [exact L|]. intros j n Hj. destruct (F j n Hj) as (n' & E & K & A & B & _).
  exists n'. csplit; auto. intros Hk. apply A. intros C. destruct (Hx j (eq_sym C)) as (n0 & E0 & K0). congruence.
Qed.

Lemma last_para_kind s : SI s ->
  forall j, last_para (s_c s) = Some j -> exists n, nth_error (s_h s) j = Some n /\ bk n = BParagraph.
Proof.
  intros HS j H. unfold last_para in H. destruct (last_opened (s_c s)) as [[x lp]|] eqn:El; [|discriminate].
  destruct lp; try discriminate. injection H as ->.
  destruct (is_paragraph_ok space_table src s j PParagraph HS El) as (n & En & Kn & _). exists n. auto.
Qed.

Lemma ops_last_kind s base x : SI s -> ops s = base ++ [(x, PParagraph)] ->
  exists n, nth_error (s_h s) x = Some n /\ bk n = BParagraph.
Proof.
  intros HS E. assert (Hin : In (x, PParagraph) (c_arr (s_c s))).
  { apply opened_in. unfold ops in E. rewrite E. apply in_or_app. right. left. reflexivity. }
  destruct (ci_arr _ _ (si_c _ _ _ HS) _ Hin) as (n & En & Kn). exists n. auto.
Qed.

Lemma OPop_D parent pn res w s t : SI s -> OPop space_table src parent pn res w s t -> TCK (s_h s) t ->
  OPopD space_table src parent pn res w s t.
Proof.
  intros HS (s' & base & x & H1 & H2 & H3 & H4 & H5 & H6 & H7 & H8 & H9 & H10 & H11 & H12) [T K].
  subst t. cbn [st_of] in T, K. exists s', base, x. csplit; auto.
  - split; assumption.
  - eapply AF_OFrameD; [|exact H6]. intros j Ej. injection Ej as <-. eapply ops_last_kind; eassumption.
Qed.

Lemma OPush_D parent pn cont s t : SI s -> OPush space_table src parent pn cont s t -> TCK (s_h s) t -> DN (s_h s) t ->
  OPushD space_table src parent pn cont s t.
Proof.
  intros HS (bp & node & kids & s' & H1 & H2 & H3 & H4 & H5 & H6 & H7 & (nn & N1 & N2 & N3 & N4) & H9 & H10 & H11 & H12 & H13 & H14 & H15 & H16) [T K] D.
  assert (Es : st_of t = s') by (subst t; destruct kids; reflexivity).
  rewrite Es in T, K. unfold DN in D. rewrite Es in D.
  exists bp, node, kids, s'. split; [exact H1|]. unfold PFD. csplit; auto.
  - split; assumption.
  - eapply AF_OFrameD; [|exact H7]. apply last_para_kind, HS.
  - exists nn. csplit; auto. apply D. rewrite <- H5. exact N1.
Qed.

End S.
