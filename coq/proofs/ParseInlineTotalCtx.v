(* The invariant of the inline parse context (heap forest + delimiter list + label list), its
   preservation by the three kinds of steps (delimiter phase, label links, tree surgery), and
   the composite steps the inline parsers perform: push a delimiter / a label and append it,
   append a result node under the block, close the labels, containsLink, itree. *)
Require Import GM.model.Base GM.model.Util GM.model.Reader GM.model.BlockParse GM.model.Html GM.model.InlineParse.
Require Import GM.proofs.ParseInlineTotalHeap GM.proofs.ParseInlineTotalDelim GM.proofs.ParseInlineTotalEmph
               GM.proofs.ParseInlineTotalLabel.
From Coq Require Import ZArith Lia List Arith.
Import ListNotations.

Section Ctx.
Variable src : bytes.
Variable lo : Z.
Notation DInv := (DInv src lo).
Notation KOK := (KOK src lo).
Notation KOKh := (KOKh src lo).

Record CInv (c : ictx) (dl ll : list nat) : Prop := {
  ci_d : DInv c dl;
  ci_ap : AllPos (i_h c) dl;
  ci_ll : LL (i_h c) (i_labels c) ll
}.

Lemma isdk_not_islk h y : isdk h y -> islk h y -> False.
Proof. intros (k & E & Hd) (k2 & E2 & Hl). rewrite E in E2. inversion E2; subst. destruct k2; discriminate. Qed.

(* a step of the delimiter phase keeps the label list *)
Lemma LL_dstep c c' ll : LL (i_h c) (i_labels c) ll -> dstep c c' -> LL (i_h c') (i_labels c') ll.
Proof.
  intros L S. rewrite (ds_labels _ _ S). eapply LL_frame; [exact L|exact (ds_lv _ _ S)|].
  intros y _ Hy. apply (ds_att _ _ S); [apply islk_lt; exact Hy|]. intros X. exact (isdk_not_islk _ _ X Hy).
Qed.

Lemma allpos_frame h h' dl : (forall y, In y dl -> dcoreh h' y = dcoreh h y) -> AllPos h dl -> AllPos h' dl.
Proof. intros F A d Hd. unfold dlen. rewrite F by exact Hd. apply A. exact Hd. Qed.

(* a step that only changes label links keeps the delimiter side *)
Lemma DInv_llinkonly c c' dl : DInv c dl -> llinkonly (i_h c) (i_h c') ->
  i_dfirst c' = i_dfirst c -> i_dlast c' = i_dlast c -> DInv c' dl.
Proof.
  intros [W K A D] LO F1 F2. constructor.
  - eapply hwf_same_tree; [exact (proj1 LO)|exact W].
  - eapply llinkonly_kok; eassumption.
  - destruct A as [rk R]. exists rk. eapply ranked_same_tree; [exact (proj1 LO)|exact R].
  - rewrite F1, F2. eapply DL_frame; [exact D|apply llinkonly_dv; exact LO|].
    intros y k _. rewrite (llinkonly_par _ _ LO). tauto.
Qed.

Lemma CInv_llinkonly c c' dl ll ll' : CInv c dl ll -> llinkonly (i_h c) (i_h c') ->
  i_dfirst c' = i_dfirst c -> i_dlast c' = i_dlast c -> LL (i_h c') (i_labels c') ll' -> CInv c' dl ll'.
Proof.
  intros [D A L] LO F1 F2 L'. constructor; [eapply DInv_llinkonly; eassumption| |exact L'].
  eapply allpos_frame; [|exact A]. intros y _. apply dcoreh_dv. apply llinkonly_dv. exact LO.
Qed.

(* a tree step: kinds of delimiters and labels unchanged, nodes of the old heap keep their
   being attached or not (except possibly nodes that are neither) *)
Lemma CInv_tree c c' dl ll : CInv c dl ll ->
  HWF (i_h c') -> KOKh (i_h c') -> Acyc (i_h c') -> ctx_same c c' -> dl_same (i_h c) (i_h c') ->
  (forall y, isdk (i_h c) y \/ islk (i_h c) y -> (par (i_h c') y = None <-> par (i_h c) y = None)) ->
  CInv c' dl ll.
Proof.
  intros [[W K A D] AP L] W' K' A' (F1 & F2 & F3 & F4) [DV LV] Hp. constructor.
  - constructor; try assumption. rewrite F1, F2. eapply DL_frame; [exact D|exact DV|].
    intros y k Hy. apply Hp. left. apply dv_some in Hy. exists k. exact Hy.
  - eapply allpos_frame; [|exact AP]. intros y _. apply dcoreh_dv. exact DV.
  - rewrite F3. eapply LL_frame; [exact L|exact LV|]. intros y _ Hy. apply Hp. right. exact Hy.
Qed.

Lemma CInv_dstep c c' dl dl' ll : CInv c dl ll -> DInv c' dl' -> AllPos (i_h c') dl' -> dstep c c' -> CInv c' dl' ll.
Proof. intros [D A L] D' A' S. constructor; [exact D'|exact A'|eapply LL_dstep; eassumption]. Qed.

(* ---------- appending a result node under the block (node 0) ---------- *)
Lemma append_root_spec h nd : HWF h -> Acyc h -> (nd < length h)%nat -> nd <> 0%nat ->
  exists h', i_append h 0 nd = Ok h' /\ HWF h' /\ same_kinds h h' /\ Acyc h' /\
    par h' nd = Some 0%nat /\ (forall y, y <> nd -> par h' y = par h y).
Proof.
  intros W [rk R] Hnd Hn0. pose proof (w_len h W) as Hpos.
  destruct (i_append_spec h 0 nd W Hpos Hnd) as (h' & E & W' & SK & Pc & Pn & _); [congruence|exact Hn0|].
  exists h'. split; [exact E|]. split; [exact W'|]. split; [exact SK|]. split; [|split; [exact Pc|exact Pn]].
  eexists. eapply ranked_set_par; [apply (ranked_root0 rk h W R)|exact Pc| |exact Pn].
  cbn. destruct (Nat.eqb_spec nd 0); [contradiction|lia].
Qed.

Lemma CInv_append_root c dl ll nd : CInv c dl ll -> (nd < length (i_h c))%nat -> nd <> 0%nat ->
  ~ isdk (i_h c) nd -> ~ islk (i_h c) nd ->
  exists h', i_append (i_h c) 0 nd = Ok h' /\ CInv (cx_h c h') dl ll /\ same_kinds (i_h c) h' /\
    (forall y, y <> nd -> par h' y = par (i_h c) y).
Proof.
  intros Iv Hnd Hn0 Hnd1 Hnd2. pose proof (ci_d _ _ _ Iv) as [W K A D].
  destruct (append_root_spec (i_h c) nd W A Hnd Hn0) as (h' & E & W' & SK & A' & Pc & Pn).
  exists h'. split; [exact E|]. split; [|split; [exact SK|exact Pn]].
  eapply CInv_tree; [exact Iv| | | | | |]; cbn [i_h cx_h].
  - exact W'.
  - eapply kokh_same; eassumption.
  - exact A'.
  - apply ctx_same_cx_h.
  - apply dl_same_kinds. exact SK.
  - intros y Hy. rewrite Pn; [tauto|]. intros X. subst y. tauto.
Qed.


(* ---------- PushDelimiter on a fresh delimiter node, then appending it under the block ---------- *)
Lemma lv_of_kd h h' : (forall y, kd h' y = kd h y) -> forall y, lv h' y = lv h y.
Proof. intros E y. unfold lv. rewrite E. reflexivity. Qed.

Lemma kd_ge_none h y : (length h <= y)%nat -> kd h y = None.
Proof. intros H. destruct (kd h y) eqn:E; [apply kd_lt in E; lia|reflexivity]. Qed.
Lemma par_ge_none h y : (length h <= y)%nat -> par h y = None.
Proof. intros H. destruct (par h y) eqn:E; [apply par_lt in E; lia|reflexivity]. Qed.

Lemma push_delim_append c dl ll s co cc len orig ch :
  CInv c dl ll -> KOK (IDelim s co cc len orig ch None None) -> (1 <= len)%Z ->
  let k := IDelim s co cc len orig ch None None in
  let n := length (i_h c) in
  exists c2 h4, push_delimiter (cx_h c (i_h c ++ [fresh k])) n = Ok c2 /\ i_append (i_h c2) 0 n = Ok h4 /\
    CInv (cx_h c2 h4) (dl ++ [n]) ll /\ i_bottoms c2 = i_bottoms c /\
    sumlen h4 (dl ++ [n]) = (sumlen (i_h c) dl + Z.to_nat len)%nat /\
    length h4 = S (length (i_h c)) /\ (forall y, lv h4 y = lv (i_h c) y).
Proof.
  intros Iv Kk Hlen k n. destruct Iv as [[W K A D] AP L]. set (h := i_h c) in *.
  set (h1 := h ++ [fresh k]).
  assert (W1 : HWF h1) by (apply hwf_snoc; exact W).
  assert (L1 : length h1 = S (length h)) by (unfold h1; rewrite app_length; cbn; lia).
  pose proof (w_len h W) as Hpos.
  assert (Hndl : ~ In n dl).
  { intros X. destruct (dseg_in_dk _ _ _ _ _ (dl_seg _ _ _ _ D) X) as (k0 & Hk0 & _). apply kd_lt in Hk0. unfold n in Hk0. lia. }
  assert (Kn1 : kd h1 n = Some k) by (unfold h1, n; apply kd_snoc_new).
  assert (Ko1 : forall y, y <> n -> kd h1 y = kd h y).
  { intros y Hy. unfold h1. rewrite kd_snoc. destruct (Nat.eqb_spec y (length h)); [contradiction|reflexivity]. }
  (* the link surgery *)
  assert (HP : exists h3 f3, push_delimiter (cx_h c h1) n = Ok (cx_d (cx_h c h3) f3 (Some n)) /\
             f3 = hd_error (dl ++ [n]) /\ linkonly h1 h3 /\ dseg h3 None (dl ++ [n]) None).
  { unfold push_delimiter. cbn [i_dfirst i_dlast cx_h i_h]. rewrite (dl_first _ _ _ _ D), (dl_last _ _ _ _ D).
    destruct (list_snoc_or_nil dl) as [E|(t & l & E)].
    - subst dl. cbn [hd_error app]. exists h1, (Some n). split; [reflexivity|]. split; [reflexivity|]. split; [apply linkonly_refl|].
      cbn [dseg hd_or]. split; [|exact Logic.I]. exists s, co, cc, len, orig, ch. exact Kn1.
    - subst dl. assert (Ehd : exists a, hd_error (t ++ [l]) = Some a) by (destruct t; cbn; eauto).
      destruct Ehd as [a Ehd]. rewrite Ehd. rewrite last_error_snoc.
      pose proof (dl_seg _ _ _ _ D) as S0.
      destruct (dseg_last_next _ _ _ _ S0) as (pl & sl & col & ccl & lenl & origl & chl0 & Hkl).
      assert (Hln : l <> n) by (intros X; subst l; apply Hndl; apply in_app_iff; right; left; reflexivity).
      assert (Hkl1 : kd h1 l = Some (IDelim sl col ccl lenl origl chl0 pl None)) by (rewrite Ko1 by exact Hln; exact Hkl).
      destruct (dset_next_spec h1 l _ _ _ _ _ _ _ _ (Some n) Hkl1) as (h2 & E2 & T2 & Kl2 & Ko2).
      cbn [i_h cx_h]. rewrite E2. cbn [bind].
      assert (Kn2 : kd h2 n = Some k) by (rewrite Ko2 by congruence; exact Kn1).
      destruct (dset_prev_spec h2 n _ _ _ _ _ _ _ _ (Some l) Kn2) as (h3 & E3 & T3 & Kn3 & Ko3).
      rewrite E3. cbn [bind]. exists h3, (Some a). split; [reflexivity|].
      split; [rewrite (hd_error_app1 (t ++ [l]) [n]) by (destruct t; discriminate); symmetry; exact Ehd|].
      split.
      + eapply linkonly_trans; [eapply (linkonly_step h1 h2 l); eassumption|eapply (linkonly_step h2 h3 n); eassumption].
      + apply dseg_app. rewrite last_or_snoc. cbn [hd_or]. split.
        * eapply dseg_frame; [intros x Hx; apply Ko3; intros X; subst x; contradiction|].
          assert (Hlt : ~ In l t).
          { pose proof (dl_nd _ _ _ _ D) as Hnd. apply NoDup_remove_2 in Hnd. rewrite app_nil_r in Hnd. exact Hnd. }
          eapply (dseg_set_last_next h1 h2 None t l None (Some n)); [|exact Hlt|exact Hkl1|exact Kl2|exact Ko2].
          eapply dseg_frame; [|exact S0]. intros x Hx. apply Ko1. intros X. subst x. contradiction.
        * cbn [dseg hd_or]. split; [|exact Logic.I]. exists s, co, cc, len, orig, ch. exact Kn3. }
  destruct HP as (h3 & f3 & EP & Ef3 & LO3 & S3).
  assert (W3 : HWF h3) by (eapply hwf_same_tree; [exact (proj1 LO3)|exact W1]).
  assert (A3 : Acyc h3).
  { destruct A as [rk R]. exists rk. eapply ranked_same_tree; [exact (proj1 LO3)|]. apply ranked_snoc. exact R. }
  pose proof (linkonly_len _ _ LO3) as L3.
  destruct (append_root_spec h3 n W3 A3) as (h4 & E4 & W4 & (L4 & K4) & A4 & Pn4 & Po4); [unfold n; lia|unfold n; lia|].
  exists (cx_d (cx_h c h3) f3 (Some n)), h4. split; [exact EP|]. cbn [i_h cx_d cx_h]. split; [exact E4|].
  assert (Par4 : forall y, y <> n -> par h4 y = par h y).
  { intros y Hy. rewrite Po4 by exact Hy. rewrite (linkonly_par _ _ LO3). unfold h1. apply par_snoc. }
  assert (DK4 : forall y, y <> n -> (isdk h4 y <-> isdk h y)).
  { intros y Hy. unfold isdk at 1. rewrite K4. rewrite <- (linkonly_dk h1 h3 y LO3). unfold isdk. rewrite Ko1 by exact Hy. tauto. }
  assert (Kn4 : exists p4 n4, kd h4 n = Some (IDelim s co cc len orig ch p4 n4)).
  { pose proof (linkonly_core _ _ LO3 n) as X. unfold dcoreh in X. rewrite Kn1 in X. cbn in X.
    rewrite K4. destruct (kd h3 n) as [k3|]; [|discriminate]. destruct k3; try discriminate. inversion X; subst. eauto. }
  destruct Kn4 as (p4 & n4 & Kn4).
  assert (Core4 : forall y, y <> n -> dcoreh h4 y = dcoreh h y).
  { intros y Hy. unfold dcoreh at 1. rewrite K4. fold (dcoreh h3 y). rewrite (linkonly_core _ _ LO3). apply dcoreh_of_kd. apply Ko1. exact Hy. }
  split.
  { constructor; cbn [i_h cx_h cx_d i_dfirst i_dlast i_labels].
    - constructor; cbn [i_h cx_h cx_d i_dfirst i_dlast].
      + exact W4.
      + eapply kokh_same; [split; [exact L4|exact K4]|]. eapply linkonly_kok; [exact LO3|]. apply kokh_snoc; assumption.
      + exact A4.
      + constructor.
        * apply nodup_snoc; [exact (dl_nd _ _ _ _ D)|exact Hndl].
        * exact Ef3.
        * rewrite last_error_snoc. reflexivity.
        * eapply dseg_frame; [intros x _; apply K4|exact S3].
        * intros d Hd. apply in_app_iff in Hd. destruct Hd as [Hd|[Hd|[]]].
          -- rewrite Par4 by (intros X; subst d; contradiction). apply (dl_att _ _ _ _ D d Hd).
          -- subst d. rewrite Pn4. discriminate.
        * intros y k0 Hy Hdk Hp. apply in_app_iff. destruct (Nat.eq_dec y n) as [E|E]; [right; left; auto|left].
          assert (X : isdk h y) by (apply (DK4 y E); exists k0; auto). destruct X as (k1 & Hk1 & Hdk1).
          apply (dl_all _ _ _ _ D y k1 Hk1 Hdk1). rewrite <- Par4 by exact E. exact Hp.
    - intros d Hd. apply in_app_iff in Hd. destruct Hd as [Hd|[Hd|[]]].
      + unfold dlen. rewrite Core4 by (intros X; subst d; contradiction). apply AP. exact Hd.
      + subst d. rewrite (dlen_of_kd _ _ _ _ _ _ _ _ _ _ Kn4). lia.
    - eapply LL_frame; [exact L| |].
      + intros y. unfold lv. rewrite K4. fold (lv h3 y). rewrite (linkonly_lv _ _ LO3). unfold lv, h1. rewrite kd_snoc.
        destruct (Nat.eqb_spec y (length h)) as [E|E]; [|reflexivity]. subst y. rewrite (kd_ge_none h) by lia. reflexivity.
      + intros y _ Hy. rewrite Par4; [tauto|]. apply islk_lt in Hy. unfold n. lia. }
  split; [reflexivity|]. split; [|split; [lia|]].
  - rewrite sumlen_app, (sumlen_frame h h4) by (intros y Hy; apply Core4; intros X; subst y; contradiction).
    rewrite sumlen_cons, (dlen_of_kd _ _ _ _ _ _ _ _ _ _ Kn4). change (sumlen h4 []) with 0%nat. lia.
  - intros y. unfold lv. rewrite K4. fold (lv h3 y). rewrite (linkonly_lv _ _ LO3). unfold lv, h1. rewrite kd_snoc.
    destruct (Nat.eqb_spec y (length h)) as [E|E]; [|reflexivity]. subst y. rewrite (kd_ge_none h) by lia. reflexivity.
Qed.


(* ---------- pushLinkLabelState on a fresh label node, then appending it under the block ---------- *)
Lemma LC_snoc h k : LC h -> (forall s im p n f l, k = ILabel s im p n f l -> p = None /\ n = None /\ f = None /\ l = None) ->
  LC (h ++ [fresh k]).
Proof.
  intros C Hk y s im p n f l Hy. rewrite kd_snoc in Hy. destruct (Nat.eqb_spec y (length h)) as [E|E].
  - inversion Hy; subst k. destruct (Hk _ _ _ _ _ _ eq_refl) as (-> & -> & -> & ->). cbn. auto.
  - destruct (C _ _ _ _ _ _ _ Hy) as (A1 & A2 & A3 & A4).
    assert (X : forall o, optlk h o -> optlk (h ++ [fresh k]) o).
    { intros [z|]; cbn; [|auto]. intros (k0 & E0 & H0). exists k0. split; [|exact H0]. rewrite kd_snoc_old; [exact E0|eapply kd_lt; exact E0]. }
    repeat split; apply X; assumption.
Qed.

Lemma lseg_last_next h p l a : lseg h p (l ++ [a]) None -> exists p0, llinks h a p0 None.
Proof. intros H. apply lseg_split in H. eauto. Qed.

Lemma push_label_append c dl ll s im :
  CInv c dl ll -> KOK (ILabel s im None None None None) ->
  let k := ILabel s im None None None None in
  let n := length (i_h c) in
  exists c2 h5, push_label (cx_h c (i_h c ++ [fresh k])) n = Ok c2 /\ i_append (i_h c2) 0 n = Ok h5 /\
    CInv (cx_h c2 h5) dl (ll ++ [n]) /\ i_bottoms c2 = i_bottoms c /\
    (forall y, dcoreh h5 y = dcoreh (i_h c) y) /\ length h5 = S (length (i_h c)) /\
    (exists p' n' f' l', kd h5 n = Some (ILabel s im p' n' f' l')) /\
    (forall y sg0 im0 p0 n0 f0 l0, y <> n -> kd h5 y = Some (ILabel sg0 im0 p0 n0 f0 l0) ->
       exists p1 n1 f1 l1, kd (i_h c) y = Some (ILabel sg0 im0 p1 n1 f1 l1)).
Proof.
  intros Iv Kk k n. pose proof Iv as [[W K A D] AP L]. set (h := i_h c) in *.
  set (h1 := h ++ [fresh k]).
  assert (W1 : HWF h1) by (apply hwf_snoc; exact W).
  assert (L1 : length h1 = S (length h)) by (unfold h1; rewrite app_length; cbn; lia).
  pose proof (w_len h W) as Hpos.
  assert (Hnll : ~ In n ll).
  { intros X. pose proof (lseg_in_lk _ _ _ _ _ (ll_seg _ _ _ L) X) as Y. apply islk_lt in Y. unfold n in Y. lia. }
  assert (Kn1 : kd h1 n = Some k) by (unfold h1, n; apply kd_snoc_new).
  assert (Ko1 : forall y, y <> n -> kd h1 y = kd h y).
  { intros y Hy. unfold h1. rewrite kd_snoc. destruct (Nat.eqb_spec y (length h)); [contradiction|reflexivity]. }
  assert (C1 : LC h1).
  { apply LC_snoc; [exact (ll_lc _ _ _ L)|]. intros s0 im0 p0 n0 f0 l0 E. inversion E. auto. }
  assert (Hvlk : islk h1 n) by (eapply islk_intro; exact Kn1).
  (* the link surgery *)
  assert (HP : exists c2 h4 lab, push_label (cx_h c h1) n = Ok c2 /\ i_h c2 = h4 /\ i_labels c2 = lab /\
             i_dfirst c2 = i_dfirst c /\ i_dlast c2 = i_dlast c /\ i_bottoms c2 = i_bottoms c /\
             lab = hd_error (ll ++ [n]) /\ llinkonly h1 h4 /\ LC h4 /\ lseg h4 None (ll ++ [n]) None /\
             (forall hd, lab = Some hd -> hlast h4 hd (Some n))).
  { unfold push_label. cbn [i_labels cx_h i_h]. rewrite (ll_head _ _ _ L).
    destruct (list_snoc_or_nil ll) as [Ell|(t & l & Ell)].
    - subst ll. cbn [hd_error]. rewrite (lget_spec _ _ _ _ _ _ _ _ Kn1). cbn [bind].
      destruct (lset_step h1 n _ _ _ _ _ _ None None (Some n) (Some n) C1 Kn1 Logic.I Logic.I Hvlk Hvlk) as (h2 & E2 & LO2 & C2 & Kn2 & Ko2).
      rewrite E2. cbn [bind]. eexists _, h2, (Some n). split; [reflexivity|]. cbn [i_h i_labels i_dfirst i_dlast i_bottoms cx_labels cx_h].
      do 5 (split; [reflexivity|]). split; [reflexivity|]. split; [exact LO2|].
      split; [exact C2|]. split.
      + cbn [app lseg hd_or]. split; [|exact Logic.I]. do 4 eexists. exact Kn2.
      + intros hd E. inversion E; subst hd. do 5 eexists. exact Kn2.
    - subst ll. assert (Ehd : exists lst, hd_error (t ++ [l]) = Some lst) by (destruct t; cbn; eauto).
      destruct Ehd as [lst Ehd]. rewrite Ehd.
      assert (Elab : i_labels c = Some lst) by (rewrite (ll_head _ _ _ L); exact Ehd).
      destruct (ll_last _ _ _ L lst Elab) as (s0 & im0 & p0 & n0 & f0 & Hk0). fold h in Hk0. rewrite last_error_snoc in Hk0.
      pose proof (ll_seg _ _ _ L) as S0.
      assert (Hlst : In lst (t ++ [l])) by (destruct t; cbn in Ehd; inversion Ehd; subst; [left|left]; reflexivity).
      assert (Hlstn : lst <> n) by (intros X; subst lst; contradiction).
      assert (Hln : l <> n) by (intros X; subst l; apply Hnll; apply in_app_iff; right; left; reflexivity).
      assert (Hk01 : kd h1 lst = Some (ILabel s0 im0 p0 n0 f0 (Some l))) by (rewrite Ko1 by exact Hlstn; exact Hk0).
      rewrite (lget_spec _ _ _ _ _ _ _ _ Hk01). cbn [bind].
      destruct (C1 _ _ _ _ _ _ _ Hk01) as (Cp0 & Cn0 & Cf0 & _).
      destruct (lset_step h1 lst _ _ _ _ _ _ p0 n0 f0 (Some n) C1 Hk01 Cp0 Cn0 Cf0 Hvlk) as (h2 & E2 & LO2 & C2 & Kl2 & Ko2).
      rewrite E2. cbn [bind].
      (* the last label, as it is now *)
      destruct (lseg_last_next _ _ _ _ S0) as (lp & sl & iml & lf & ll2 & Hkl).
      assert (Hkl2 : exists ll3, kd h2 l = Some (ILabel sl iml lp None lf ll3) /\ (l = lst -> ll3 = Some n)).
      { destruct (Nat.eq_dec l lst) as [E|E].
        - subst l. rewrite Hk0 in Hkl. inversion Hkl; subst. exists (Some n). split; [exact Kl2|auto].
        - exists ll2. split; [|contradiction]. rewrite Ko2 by exact E. rewrite Ko1 by exact Hln. exact Hkl. }
      destruct Hkl2 as (ll3 & Hkl2 & Hll3).
      rewrite (lget_spec _ _ _ _ _ _ _ _ Hkl2). cbn [bind].
      destruct (C2 _ _ _ _ _ _ _ Hkl2) as (Clp & _ & Clf & Cll3).
      assert (Hvlk2 : islk h2 n) by (apply (llinkonly_islk h1 h2 n LO2); exact Hvlk).
      destruct (lset_step h2 l _ _ _ _ _ _ lp (Some n) lf ll3 C2 Hkl2 Clp Hvlk2 Clf Cll3) as (h3 & E3 & LO3 & C3 & Kl3 & Ko3).
      rewrite E3. cbn [bind].
      assert (Kn3 : kd h3 n = Some k) by (rewrite Ko3 by congruence; rewrite Ko2 by congruence; exact Kn1).
      rewrite (lget_spec _ _ _ _ _ _ _ _ Kn3). cbn [bind].
      assert (Hllk3 : islk h3 l) by (eapply islk_intro; exact Kl3).
      destruct (lset_step h3 n _ _ _ _ _ _ (Some l) None None None C3 Kn3 Hllk3 Logic.I Logic.I Logic.I) as (h4 & E4 & LO4 & C4 & Kn4 & Ko4).
      rewrite E4. cbn [bind]. eexists _, h4, (Some lst). split; [reflexivity|]. cbn [i_h i_labels i_dfirst i_dlast i_bottoms cx_labels cx_h].
      split; [reflexivity|]. split; [exact Elab|]. do 3 (split; [reflexivity|]).
      split; [rewrite (hd_error_app1 (t ++ [l]) [n]) by (destruct t; discriminate); symmetry; exact Ehd|].
      split; [eapply llinkonly_trans; [exact LO2|]; eapply llinkonly_trans; eassumption|]. split; [exact C4|]. split.
      + apply lseg_app. rewrite last_or_snoc. cbn [hd_or]. split.
        * eapply lseg_frame_kd; [intros x Hx; apply Ko4; intros X; subst x; contradiction|].
          assert (Hlt : ~ In l t).
          { pose proof (ll_nd _ _ _ L) as Hnd. apply NoDup_remove_2 in Hnd. rewrite app_nil_r in Hnd. exact Hnd. }
          eapply (lseg_set_last_next h2 h3 None t l None (Some n)); [|exact Hlt| |exact Ko3].
          -- eapply lseg_frame; [|exact S0]. intros x Hx q0 q1 (s1 & im1 & f1 & l1 & X).
             destruct (Nat.eq_dec x lst) as [E|E].
             ++ subst x. rewrite Hk0 in X. inversion X; subst. do 4 eexists. exact Kl2.
             ++ do 4 eexists. rewrite Ko2 by exact E. rewrite Ko1 by (intros Y; subst x; contradiction). exact X.
          -- intros q (s1 & im1 & f1 & l1 & X). rewrite Hkl2 in X. inversion X; subst. do 4 eexists. exact Kl3.
        * cbn [lseg hd_or]. split; [|exact Logic.I]. do 4 eexists. exact Kn4.
      + intros hd E. inversion E; subst hd. unfold hlast. rewrite Ko4 by exact Hlstn.
        destruct (Nat.eq_dec l lst) as [El|El].
        * subst l. rewrite (Hll3 eq_refl) in Kl3. do 5 eexists. exact Kl3.
        * rewrite Ko3 by congruence. do 5 eexists. exact Kl2. }
  destruct HP as (c2 & h4 & lab & EP & Eh4 & Elab2 & Ef2 & El2 & Eb2 & Elab & LO4 & C4 & S4 & Hl4).
  assert (W4 : HWF h4) by (eapply hwf_same_tree; [exact (proj1 LO4)|exact W1]).
  assert (A4 : Acyc h4).
  { destruct A as [rk R]. exists rk. eapply ranked_same_tree; [exact (proj1 LO4)|]. apply ranked_snoc. exact R. }
  pose proof (llinkonly_len _ _ LO4) as L4.
  destruct (append_root_spec h4 n W4 A4) as (h5 & E5 & W5 & (L5 & K5) & A5 & Pn5 & Po5); [unfold n; lia|unfold n; lia|].
  exists c2, h5. split; [exact EP|]. rewrite Eh4. split; [exact E5|].
  assert (Par5 : forall y, y <> n -> par h5 y = par h y).
  { intros y Hy. rewrite Po5 by exact Hy. rewrite (llinkonly_par _ _ LO4). unfold h1. apply par_snoc. }
  assert (DV5 : forall y, dv h5 y = dv h y).
  { intros y. unfold dv at 1. rewrite K5. fold (dv h4 y). rewrite (llinkonly_dv _ _ LO4). unfold dv, h1. rewrite kd_snoc.
    destruct (Nat.eqb_spec y (length h)) as [E|E]; [|reflexivity]. subst y. rewrite (kd_ge_none h) by lia. reflexivity. }
  assert (Kn5 : exists p' n' f' l', kd h5 n = Some (ILabel s im p' n' f' l')).
  { rewrite K5. eapply llinkonly_seg; [exact LO4|exact Kn1]. }
  split.
  { constructor; cbn [i_h cx_h i_dfirst i_dlast i_labels]; rewrite ?Ef2, ?El2, ?Elab2.
    - constructor; cbn [i_h cx_h i_dfirst i_dlast]; rewrite ?Ef2, ?El2.
      + exact W5.
      + eapply kokh_same; [split; [exact L5|exact K5]|]. eapply llinkonly_kok; [exact LO4|]. apply kokh_snoc; assumption.
      + exact A5.
      + eapply DL_frame; [exact D|exact DV5|]. intros y k0 Hy. rewrite Par5; [tauto|].
        apply dv_some in Hy. destruct Hy as [Hy _]. apply kd_lt in Hy. unfold n. fold h in Hy. lia.
    - eapply allpos_frame; [|exact AP]. intros y _. apply dcoreh_dv. exact DV5.
    - constructor.
      + apply nodup_snoc; [exact (ll_nd _ _ _ L)|exact Hnll].
      + exact Elab.
      + eapply lseg_frame_kd; [intros x _; apply K5|exact S4].
      + intros hd E. destruct (Hl4 hd E) as (s1 & im1 & p1 & n1 & f1 & X). rewrite last_error_snoc. do 5 eexists. rewrite K5. exact X.
      + intros d Hd. apply in_app_iff in Hd. destruct Hd as [Hd|[Hd|[]]].
        * rewrite Par5 by (intros X; subst d; contradiction). apply (ll_att _ _ _ L d Hd).
        * subst d. rewrite Pn5. discriminate.
      + eapply LC_frame; [|exact C4]. apply lv_of_kd. exact K5. }
  split; [exact Eb2|]. split; [apply dcoreh_dv; exact DV5|]. split; [lia|]. split; [exact Kn5|].
  intros y sg0 im0 p0 n0 f0 l0 Hy Hk. rewrite K5 in Hk.
  destruct (llinkonly_seg_inv _ _ _ _ _ _ _ _ _ LO4 Hk) as (p1 & n1 & f1 & l1 & X). rewrite Ko1 in X by exact Hy. eauto.
Qed.

End Ctx.
