(* Shared definitions of the FootnoteConservative*.v files (C11 for the parser model with
   extension.Footnote): "no '[' directly followed by '^'" as a boolean on byte lists that is
   stable under taking slices, padding with blanks and appending a newline; the three facts
   about a state of the block phase that make the footnote block parser a no-op (FI). *)
Require Import GM.model.Base GM.model.Util GM.model.Reader GM.model.BlockParse GM.model.FootnoteParseBlock.
From Coq Require Import List ZArith NArith Bool Lia.
Import ListNotations.
Open Scope Z_scope.

Lemma fc_bind_ok {A B} (r : result A) (f : A -> result B) b :
  (x <- r ;; f x) = Ok b -> exists a, r = Ok a /\ f a = Ok b.
Proof. destruct r as [a| |]; cbn [bind]; intros H; try discriminate. exists a. split; [reflexivity|exact H]. Qed.

Ltac fc_bind H x Hx :=
  let H' := fresh in
  apply fc_bind_ok in H; destruct H as [x [Hx H']]; rename H' into H.

(* ---- no '[' directly followed by '^' ---- *)
Definition bad2 (c : N) (r : bytes) : bool :=
  N.eqb c 91 && match r with d :: _ => N.eqb d 94 | [] => false end.
Fixpoint nfm (l : bytes) : bool :=
  match l with
  | [] => true
  | c :: r => negb (bad2 c r) && nfm r
  end.

Lemma nfm_cons c r : nfm (c :: r) = negb (bad2 c r) && nfm r.
Proof. reflexivity. Qed.

Lemma nfm_tail c r : nfm (c :: r) = true -> nfm r = true.
Proof. rewrite nfm_cons. intros H. apply andb_true_iff in H. apply H. Qed.

Lemma nfm_cons_other c r : c <> 91%N -> nfm (c :: r) = nfm r.
Proof.
  intros H. rewrite nfm_cons. unfold bad2. destruct (N.eqb_spec c 91) as [E|_]; [contradiction|reflexivity].
Qed.

Lemma nfm_app_inv a : forall b, nfm (a ++ b) = true -> nfm a = true /\ nfm b = true.
Proof.
  induction a as [|c a IH]; intros b H; [split; [reflexivity|exact H]|].
  cbn [app] in H. rewrite nfm_cons in H. apply andb_true_iff in H as [H1 H2].
  destruct (IH b H2) as [Ha Hb]. split; [|exact Hb].
  rewrite nfm_cons, Ha, andb_true_r. unfold bad2 in *.
  destruct (N.eqb c 91); [|reflexivity]. cbn [andb negb] in *.
  destruct a as [|d a]; [reflexivity|]. exact H1.
Qed.

(* gluing: the last byte of a is not '[' or the first byte of b is not '^' *)
Lemma nfm_app a : forall b, nfm a = true -> nfm b = true ->
  (last a 0%N <> 91%N \/ hd 0%N b <> 94%N) -> nfm (a ++ b) = true.
Proof.
  induction a as [|c a IH]; intros b Ha Hb Hg; [exact Hb|].
  cbn [app]. rewrite nfm_cons in *. apply andb_true_iff in Ha as [H1 H2].
  apply andb_true_iff. split.
  - destruct a as [|d a]; [|exact H1]. cbn [app]. unfold bad2.
    destruct (N.eqb_spec c 91) as [E|_]; [|reflexivity]. cbn [andb].
    destruct b as [|e b]; [reflexivity|]. cbn [last hd] in Hg.
    destruct (N.eqb_spec e 94) as [E2|_]; [|reflexivity]. exfalso. destruct Hg as [Hg|Hg]; congruence.
  - destruct a as [|d a]; [exact Hb|]. apply IH; [exact H2|exact Hb|exact Hg].
Qed.

Lemma nfm_skipn n : forall l, nfm l = true -> nfm (skipn n l) = true.
Proof.
  induction n as [|n IH]; intros l H; [exact H|]. destruct l as [|c l]; [reflexivity|].
  cbn [skipn]. apply IH. eapply nfm_tail. exact H.
Qed.
Lemma nfm_firstn n l : nfm l = true -> nfm (firstn n l) = true.
Proof. intros H. rewrite <- (firstn_skipn n l) in H. apply nfm_app_inv in H. apply H. Qed.

Lemma nfm_slice src a b v : nfm src = true -> slice src a b = Ok v -> nfm v = true.
Proof.
  unfold slice. intros H E. destruct (_ && _); [|discriminate]. injection E as <-.
  apply nfm_firstn, nfm_skipn, H.
Qed.

Lemma nfm_repeat32 k v : nfm (repeat 32%N k ++ v) = nfm v.
Proof. induction k as [|k IH]; [reflexivity|]. cbn [repeat app]. rewrite nfm_cons_other by discriminate. exact IH. Qed.

Lemma nfm_snoc10 v : nfm v = true -> nfm (v ++ [10%N]) = true.
Proof. intros H. apply nfm_app; [exact H|reflexivity|]. right. cbn. discriminate. Qed.

Lemma nfm_seg_value src t v : nfm src = true -> seg_value src t = Ok v -> nfm v = true.
Proof.
  unfold seg_value. intros H E. fc_bind E w Ew. pose proof (nfm_slice _ _ _ _ H Ew) as Hw.
  destruct (s_pad t <? 0) eqn:Eneg; [discriminate|].
  set (r := if s_pad t =? 0 then w else spaces_n (s_pad t) ++ w) in *.
  assert (Hr : nfm r = true).
  { subst r. destruct (s_pad t =? 0); [exact Hw|]. unfold spaces_n. rewrite nfm_repeat32. exact Hw. }
  destruct (s_fnl t); [|injection E as <-; exact Hr].
  destruct (rev r) as [|c tl]; [injection E as <-; exact Hr|].
  destruct (N.eqb c 10); injection E as <-; [exact Hr|apply nfm_snoc10, Hr].
Qed.

(* the two bytes "[^" do not occur at i, i + 1 *)
Lemma nfm_nth : forall l i, nfm l = true -> nth i l 0%N = 91%N -> (S i < length l)%nat -> nth (S i) l 0%N <> 94%N.
Proof.
  induction l as [|c l IH]; intros i H E Hl; [cbn in Hl; lia|].
  rewrite nfm_cons in H. apply andb_true_iff in H as [H1 H2].
  destruct i as [|i].
  - cbn [nth] in E. subst c. destruct l as [|d l]; [cbn in Hl; lia|]. cbn [nth].
    unfold bad2 in H1. cbn in H1. destruct (N.eqb_spec d 94) as [->|Hne]; [discriminate|exact Hne].
  - cbn [nth] in *. apply IH; [exact H2|exact E|cbn [length] in Hl; lia].
Qed.

Lemma nfm_at v i : nfm v = true -> at_ v i = Ok 91%N -> at_ v (i + 1) = Ok 94%N -> False.
Proof.
  unfold at_. intros H E1 E2.
  destruct ((0 <=? i) && (i <? zlen v)) eqn:B1; [|discriminate].
  destruct ((0 <=? i + 1) && (i + 1 <? zlen v)) eqn:B2; [|discriminate].
  injection E1 as E1. injection E2 as E2. unfold zlen in *.
  replace (Z.to_nat (i + 1)) with (S (Z.to_nat i)) in E2 by lia.
  eapply (nfm_nth v (Z.to_nat i)); [exact H|exact E1|lia|exact E2].
Qed.

Section Inv.
Variable src : bytes.

(* ---- the reader: it reads src, and a cached line has no "[^" ---- *)
Definition RB (r : reader) : Prop := r_src r = src /\ forall v, r_peeked r = Some v -> nfm v = true.

(* ---- the heap: no node is written like a Footnote or FootnoteList node ---- *)
Definition plain_node (n : bnode) : Prop := bk n = BBlockquote -> b_i1 n = 0.
Definition plain (h : heap) : Prop := Forall plain_node h.

(* ---- the opened blocks are nodes of the heap ---- *)
Definition arr_ok (h : heap) (c : pctx) : Prop := Forall (fun e => (fst e < length h)%nat) (c_arr c).

Definition FI (s : st) : Prop := plain (s_h s) /\ RB (s_r s) /\ arr_ok (s_h s) (s_c s).

End Inv.

Lemma plain_not_footnote n : plain_node n -> is_footnote_node n = false /\ is_fnlist_node n = false.
Proof.
  unfold plain_node, is_footnote_node, is_fnlist_node, fn_footnote, fn_list. intros H.
  destruct (bk n); try (split; reflexivity). rewrite (H eq_refl). split; reflexivity.
Qed.
