(* Helper library for FootnoteWfBlk.v, part L (port of ParseBlocksRangeL.v to the driver of
   model/FootnoteParseBlock.v): Close of any parser with the footnote parser, closeBlocks.
   The invariant of the core block phase is carried unchanged for the core state bf_s x; next to it
   the footnote facts FLI of FootnoteWfBlkInv.v. *)
Require Import GM.model.Base GM.model.Util GM.model.Reader GM.model.ReaderSpec GM.model.Blocks GM.model.ListItem
               GM.model.LeafBlocks GM.model.CodeBlock GM.model.LinkDest GM.model.Regex GM.model.HtmlWriter
               GM.model.Html GM.model.HtmlSpec GM.model.BlockParse GM.model.InlineParse GM.model.FootnoteParseBlock.
Require Import GM.proofs.ReaderProofs GM.proofs.BlockRangeProofs GM.proofs.ParseInv
               GM.proofs.ParseBlocksRangeA GM.proofs.ParseBlocksRangeB GM.proofs.ParseBlocksRangeC
               GM.proofs.ParseBlocksRangeD GM.proofs.ParseBlocksRangeE
               GM.proofs.ParseBlocksRangeG GM.proofs.ParseBlocksRangeH GM.proofs.ParseBlocksRangeI GM.proofs.ParseBlocksRangeJ
               GM.proofs.ParseBlocksRangeL
               GM.proofs.FootnoteWfDefs GM.proofs.FootnoteWfBlkInv GM.proofs.FootnoteWfBlkFrame GM.proofs.FootnoteWfBlkC.
From Coq Require Import ZArith Lia Sorted List Bool.
Import ListNotations.
Open Scope Z_scope.

(* local copies of small facts of ParseBlocksRangeL.v (which take all its section variables there) *)
Lemma in_midF {X} (A D N : list X) e : In e (A ++ (D ++ [e]) ++ N).
Proof. apply in_or_app. right. apply in_or_app. left. apply in_or_app. right. left. reflexivity. Qed.
Lemma cframe_reflF s : cframe s s.
Proof. unfold cframe. csplit; auto. Qed.
Lemma cframe_transF a b c : cframe a b -> cframe b c -> cframe a c.
Proof. unfold cframe. intros [H1 [H2 [H3 H4]]] [K1 [K2 [K3 K4]]]. csplit; try congruence. lia. Qed.
Lemma nth_error_midF {X} (P : list X) e R : nth_error (P ++ e :: R) (length P) = Some e.
Proof. rewrite nth_error_app2 by lia. rewrite Nat.sub_diag. reflexivity. Qed.
Lemma firstn_app_exactF {X} (a b : list X) : firstn (length a) (a ++ b) = a.
Proof. rewrite firstn_app, Nat.sub_diag, firstn_all. cbn [firstn]. apply app_nil_r. Qed.
Lemma skipn_app_exactF {X} (a b : list X) : skipn (length a) (a ++ b) = b.
Proof. rewrite skipn_app, Nat.sub_diag, skipn_all. reflexivity. Qed.
Lemma opened_prefixF c (A B : list (nat * bparser)) : opened c = A ++ B -> firstn (length A) (c_arr c) = A.
Proof.
  unfold opened. intros H. assert (length A <= c_len c)%nat as Hle.
  { apply (f_equal (@length _)) in H. rewrite firstn_length, app_length in H. lia. }
  transitivity (firstn (length A) (firstn (c_len c) (c_arr c))).
  - rewrite firstn_firstn. f_equal. lia.
  - rewrite H. apply firstn_app_exactF.
Qed.

(* the footnote facts of a state of the footnote driver, for the opened blocks A D N *)
Definition FLs (x : stf) (A D N : list (nat * bparser)) : Prop :=
  FLI (s_h (bf_s x)) (bf_list x) (ids (A ++ D ++ N)).
Lemma FLs_same x x' A D N : FLs x A D N -> s_h (bf_s x') = s_h (bf_s x) -> bf_list x' = bf_list x -> FLs x' A D N.
Proof. unfold FLs. intros H E1 E2. rewrite E1, E2. exact H. Qed.

Lemma FLs_drop x A D N e : FLs x A (D ++ [e]) N -> FLs x A D N.
Proof.
  unfold FLs. intros H. eapply FLI_incl; [exact H|]. intros y Hy. apply in_ids_inv in Hy. destruct Hy as [bp Hy].
  eapply in_ids. apply incl_dropD. exact Hy.
Qed.

Lemma FLs_cfr x x' A D N : FLs x A D N -> cfr (s_h (bf_s x)) (s_h (bf_s x')) -> bf_list x' = bf_list x -> FLs x' A D N.
Proof. unfold FLs. intros H Hc E. rewrite E. eapply cfr_FLI; eassumption. Qed.

Lemma pkind_bq bp : pkind bp = BBlockquote -> bp = PBlockquote.
Proof. destruct bp; cbn; congruence. Qed.


Section L.
Variable space_table punct_table : list N.
Variable norm : bytes -> bytes.
Variable re_t1o re_t1c re_t2 re_t3 re_t4 re_t5 re_t6 re_t7 : re.
Variable allowed_tags : list bytes.
Variable src : bytes.
Hypothesis sp32 : is_space space_table 32%N = true.
Set Default Proof Using "All".

Notation CC f := (f space_table punct_table norm re_t1o re_t1c re_t2 re_t3 re_t4 re_t5 re_t6 re_t7 allowed_tags src sp32) (only parsing).
Notation SInv := (SInv space_table src).
Notation HI := (HI space_table src).
Notation heapS := (heapS space_table src).
Notation openS := (openS src).
Hypothesis Hsrc : bytes_ok src.
Notation CE f := (f space_table punct_table norm re_t1o re_t1c re_t2 re_t3 re_t4 re_t5 re_t6 re_t7 allowed_tags src sp32) (only parsing).
Notation CJ f := (f space_table punct_table norm re_t1o re_t1c re_t2 re_t3 re_t4 re_t5 re_t6 re_t7 allowed_tags src sp32 Hsrc) (only parsing).
Notation OInv := (OInv space_table src).
Notation CF f := (f space_table punct_table norm re_t1o re_t1c re_t2 re_t3 re_t4 re_t5 re_t6 re_t7 allowed_tags) (only parsing).
Notation transform_paragraphF := (transform_paragraphF space_table punct_table norm).
Notation close_rangeF := (close_rangeF space_table punct_table norm).
Notation close_blocksF := (close_blocksF space_table punct_table norm).
Notation p_closeF := (p_closeF space_table).


(* the invariant of the drivers *)
Definition FInv (fl : flavor) (x : stf) (A D N : list (nat * bparser)) : Prop :=
  OInv fl (bf_s x) A D N /\ FLs x A D N.


(* ---------- Close of any parser, on the last of the blocks being closed ---------- *)
Lemma p_closeF_ok fl x node bp x' A D N :
  SInv fl (bf_s x) A (D ++ [(node, bp)]) N -> uniqS (A ++ (D ++ [(node, bp)]) ++ N) -> FLs x A (D ++ [(node, bp)]) N ->
  p_closeF bp x node = Ok x' ->
  SInv fl (bf_s x') A D N /\ cframe (bf_s x) (bf_s x') /\ FLs x' A D N.
Proof.
  intros HS Hu HF H. unfold FootnoteParseBlock.p_closeF in H. bind_inv H isf Ei.
  unfold is_footnote in Ei. bind_inv Ei n En. apply hget_ok in En. injection Ei as <-.
  destruct (CE SInv_entry _ _ _ _ _ _ _ HS (in_midF _ _ _ _)) as [n0 [En0 [K _]]]. assert (n0 = n) by congruence. subst n0.
  destruct (is_footnote_node n) eqn:Ef.
  - pose proof Ef as Ef'. apply is_footnote_node_spec in Ef'. destruct Ef' as [Kb _].
    assert (bp = PBlockquote) as -> by (apply pkind_bq; congruence).
    eapply (CC footnote_close_ok); try eassumption. exists n. auto.
  - unfold lift0F in H. bind_inv H s' Es. injection H as <-. cbn [stf_s bf_s bf_list].
    destruct (CJ p_close_ok fl (bf_s x) node bp s' A D N HS Hu Es) as [H1 H2]. csplit; auto.
    apply FLs_drop with (e := (node, bp)). eapply FLs_cfr; [exact HF| |reflexivity]. cbn [stf_s bf_s].
    eapply (CF p_close_cfr); [| |exact Es].
    + intros m Em. congruence.
    + intros tmp t -> Et Em. destruct HS as [_ HH].
      destruct (os_tmp _ _ _ _ _ _ (hi_open _ _ _ _ _ _ _ _ HH) node (in_midF _ _ _ _)) as [tmp' [t' [T1 [T2 [T3 _]]]]].
      congruence.
Qed.

(* ---------- one round of closeBlocks ---------- *)
Lemma close_stepF_ok fl x node bp x1 x' isp att att' A D N :
  SInv fl (bf_s x) A (D ++ [(node, bp)]) N -> uniqS (A ++ (D ++ [(node, bp)]) ++ N) -> FLs x A (D ++ [(node, bp)]) N ->
  is_paragraph (s_h (bf_s x)) node = Ok isp -> attached (s_h (bf_s x)) node = Ok att ->
  (if (isp && att)%bool then (y <- transform_paragraphF x node ;; Ok (fst y)) else Ok x) = Ok x1 ->
  attached (s_h (bf_s x1)) node = Ok att' ->
  (if att' then p_closeF bp x1 node else Ok x1) = Ok x' ->
  SInv fl (bf_s x') A D N /\ cframe (bf_s x) (bf_s x') /\ FLs x' A D N.
Proof.
  intros HS Hu HF Hisp Hatt Ht Hatt' Hc.
  destruct (CE SInv_entry _ _ _ _ _ _ _ HS (in_midF _ _ _ _)) as [n [En [K _]]].
  unfold is_paragraph in Hisp. unfold hget in Hisp. rewrite En in Hisp. cbn [bind] in Hisp. injection Hisp as <-.
  unfold attached, hget in Hatt. rewrite En in Hatt. cbn [bind] in Hatt. injection Hatt as <-.
  (* closing a block that is not attached any more: nothing to do *)
  assert (forall s2, SInv fl s2 A (D ++ [(node, bp)]) N -> (forall n2, nth_error (s_h s2) node = Some n2 -> bpar n2 = None) ->
            SInv fl s2 A D N) as Hgone.
  { intros s2 HS2 Hn2. eapply (CE SInv_drop); [exact HS2|]. intros n2 E2 P2. exfalso. apply P2. eapply Hn2. exact E2. }
  destruct (bkind_eqb (bk n) BParagraph && match bpar n with Some _ => true | None => false end)%bool eqn:Ecnd.
  - apply andb_true_iff in Ecnd. destruct Ecnd as [Ek Ea]. apply (CE bkind_eqb_eq) in Ek.
    assert (bp = PParagraph) as -> by (apply (CE pkind_para); congruence).
    bind_inv Ht y Ey. cbn [fst] in Ht. injection Ht as <-.
    unfold FootnoteParseBlock.transform_paragraphF, liftF in Ey. bind_inv Ey z Ez. destruct z as [s2 gone]. injection Ey as <-.
    cbn [fst snd stf_s bf_s bf_list] in *.
    destruct (CJ transform_paragraph_ok fl (bf_s x) node s2 gone A D N HS Ez) as [T1 [T2 [T3 [T4 [T5 [T6 [T7 T8]]]]]]].
    assert (cframe (bf_s x) s2) as Hf by (unfold cframe; auto).
    assert (FLs (stf_s x s2) A (D ++ [(node, PParagraph)]) N) as HF2.
    { eapply FLs_cfr; [exact HF| |reflexivity]. cbn [stf_s bf_s]. eapply (CF transform_paragraph_cfr); [|exact Ez].
      intros m Em. congruence. }
    unfold attached in Hatt'. bind_inv Hatt' n2 En2. apply hget_ok in En2. injection Hatt' as <-.
    destruct gone.
    + rewrite (proj1 (T6 n2 En2) eq_refl) in Hc. injection Hc as <-. cbn [stf_s bf_s bf_list].
      csplit; [apply T7; reflexivity|exact Hf|]. eapply FLs_drop. exact HF2.
    + destruct (T8 eq_refl) as [HS2 _]. destruct (bpar n2) eqn:Ep.
      * destruct (p_closeF_ok fl (stf_s x s2) node PParagraph x' A D N HS2 Hu HF2 Hc) as [H1 [H2 H3]].
        csplit; auto. eapply cframe_transF; eassumption.
      * pose proof (proj2 (T6 n2 En2) Ep). discriminate.
  - injection Ht as <-. unfold attached, hget in Hatt'. rewrite En in Hatt'. cbn [bind] in Hatt'. injection Hatt' as <-.
    destruct (bpar n) eqn:Ep.
    + apply (p_closeF_ok fl x node bp x' A D N HS Hu HF Hc).
    + injection Hc as <-. csplit; [|apply cframe_reflF|eapply FLs_drop; exact HF]. apply Hgone; [exact HS|]. intros n2 E2. congruence.
Qed.

(* ---------- closeBlocks: the blocks D2 are closed from the last one down ---------- *)
Lemma close_rangeF_ok fl A N : forall D2 R D1 x x' blocks i,
  blocks = A ++ D1 ++ D2 ++ R -> i = zlen (A ++ D1 ++ D2) - 1 ->
  SInv fl (bf_s x) A (D1 ++ D2) N -> uniqS (A ++ (D1 ++ D2) ++ N) -> FLs x A (D1 ++ D2) N ->
  close_rangeF x blocks (length D2) i = Ok x' ->
  SInv fl (bf_s x') A D1 N /\ cframe (bf_s x) (bf_s x') /\ FLs x' A D1 N.
Proof.
  intros D2. induction D2 as [|[y bp] D2' IH] using rev_ind; intros R D1 x x' blocks i Hb Hi HS Hu HF H.
  - cbn [length FootnoteParseBlock.close_rangeF] in H. injection H as <-. rewrite app_nil_r in HS, HF. csplit; auto. apply cframe_reflF.
  - rewrite app_length in H. cbn [length] in H. rewrite Nat.add_1_r in H. cbn [FootnoteParseBlock.close_rangeF] in H.
    destruct ((i <? 0) || (zlen blocks <=? i))%bool; [discriminate|].
    assert (nth_error blocks (Z.to_nat i) = Some (y, bp)) as Enth.
    { subst blocks i. rewrite !app_assoc. rewrite <- (app_assoc _ [(y, bp)] R). cbn [app].
      replace (Z.to_nat (zlen (((A ++ D1) ++ D2') ++ [(y, bp)]) - 1)) with (length ((A ++ D1) ++ D2')).
      - apply nth_error_midF.
      - unfold zlen. rewrite (app_length _ [(y, bp)]). cbn [length]. lia. }
    rewrite Enth in H.
    bind_inv H isp Eisp. bind_inv H att Eatt. bind_inv H x1 Ex1. bind_inv H att' Eatt'. bind_inv H x2 Ex2.
    rewrite (app_assoc D1 D2' [(y, bp)]) in HS, Hu, HF.
    destruct (close_stepF_ok fl x y bp x1 x2 isp att att' A (D1 ++ D2') N HS Hu HF Eisp Eatt Ex1 Eatt' Ex2) as [HS2 [Hf2 HF2]].
    destruct (IH ((y, bp) :: R) D1 x2 x' blocks (i - 1)) as [HS3 [Hf3 HF3]]; auto.
    + subst blocks. rewrite <- !app_assoc. reflexivity.
    + subst i. unfold zlen. rewrite !app_length. cbn [length]. lia.
    + eapply (CE uniqS_incl); [exact Hu|]. intros e He. apply in_app_or in He. apply in_or_app.
      destruct He as [He|He]; [left; exact He|right]. apply in_app_or in He. apply in_or_app.
      destruct He as [He|He]; [left; apply in_or_app; left; exact He|right; exact He].
    + csplit; auto. eapply cframe_transF; eassumption.
Qed.

Lemma close_blocksF_ok fl x x' A D N from to : FInv fl x A D N -> to = zlen A -> from = zlen A + zlen D - 1 ->
  close_blocksF x from to = Ok x' -> FInv fl x' A [] N /\ s_r (bf_s x') = s_r (bf_s x) /\
  (length (s_h (bf_s x)) <= length (s_h (bf_s x')))%nat.
Proof.
  intros [[HS [[Ho Hl] Hu]] HF] Hto Hfrom H. unfold FootnoteParseBlock.close_blocksF in H. bind_inv H x1 E1.
  replace (Z.to_nat (from - to + 1)) with (length D) in E1 by (subst; unfold zlen; lia).
  destruct (close_rangeF_ok fl A N D N [] x x1 (opened (s_c (bf_s x))) from) as [HS1 [[F1 [F2 [F3 F4]]] HF1]]; auto.
  { subst from. cbn [app]. rewrite zlen_app. lia. }
  remember (bf_s x) as s eqn:Es. remember (bf_s x1) as s1 eqn:Es1.
  assert (Z.of_nat (c_len (s_c s1)) = zlen A + zlen D + zlen N) as Hn.
  { rewrite F2. apply (f_equal (@length _)) in Ho. unfold opened in Ho. rewrite firstn_length, !app_length in Ho. unfold zlen. lia. }
  assert (forall a l, SInv fl (st_c s1 (cset_open (s_c s1) a l)) A [] N) as Hctx.
  { intros a l. apply (CC SInv_ctx); auto. }
  assert (forall a l, FLs (stf_s x1 (st_c s1 (cset_open (s_c s1) a l))) A [] N) as HFctx.
  { intros a l. eapply FLs_same; [exact HF1| |reflexivity]. cbn [stf_s bf_s st_c s_h]. rewrite Es1. reflexivity. }
  assert (uniqS (A ++ [] ++ N)) as Hu'.
  { eapply (CE uniqS_incl); [exact Hu|]. intros e He. cbn [app] in He. apply in_app_or in He. apply in_or_app.
    destruct He as [He|He]; [left; exact He|right; apply in_or_app; right; exact He]. }
  assert (firstn (length A) (c_arr (s_c s1)) = A) as HA by (rewrite F1; eapply opened_prefixF; exact Ho).
  pose proof (zlen_nonneg A) as HzA. pose proof (zlen_nonneg D) as HzD. pose proof (zlen_nonneg N) as HzN.
  destruct (Z.eqb_spec from (Z.of_nat (c_len (s_c s1)) - 1)) as [Efn|Efn].
  - destruct ((to <? 0) || (Z.of_nat (c_len (s_c s1)) <? to))%bool; [discriminate|]. injection H as <-.
    assert (N = []) as -> by (destruct N; [reflexivity|rewrite zlen_cons in Hn; pose proof (zlen_nonneg N); lia]).
    cbn [stf_s bf_s bf_list st_c s_r s_h]. csplit; auto. split; [|apply HFctx]. cbn [stf_s bf_s]. split; [apply Hctx|]. split; [|exact Hu'].
    unfold Oeq, opened. cbn [st_c s_c cset_open c_arr c_len]. cbn [app]. rewrite app_nil_r.
    subst to. unfold zlen. rewrite Nat2Z.id. split; [exact HA|].
    apply (f_equal (@length _)) in HA. rewrite firstn_length in HA. lia.
  - destruct ((to <? 0) || (from + 1 <? to) || (Z.of_nat (c_len (s_c s1)) <? from + 1))%bool; [discriminate|]. injection H as <-.
    cbn [stf_s bf_s bf_list st_c s_r s_h]. csplit; auto. split; [|apply HFctx]. cbn [stf_s bf_s]. split; [apply Hctx|]. split; [|exact Hu'].
    assert (zskip (from + 1) (firstn (c_len (s_c s1)) (c_arr (s_c s1))) = N) as Hmoved.
    { rewrite F1, F2. fold (opened (s_c s)). rewrite Ho. unfold zskip.
      replace (Z.to_nat (from + 1)) with (length (A ++ D)) by (subst from; unfold zlen; rewrite app_length; lia).
      rewrite app_assoc. apply skipn_app_exactF. }
    unfold Oeq, opened. cbn [st_c s_c cset_open c_arr c_len]. rewrite Hmoved. cbn [app].
    unfold zfirst. subst to. replace (Z.to_nat (zlen A)) with (length A) by (unfold zlen; lia). rewrite HA.
    split.
    + rewrite app_assoc. rewrite <- (app_length A N). apply firstn_app_exactF.
    + rewrite !app_length. lia.
Qed.

End L.
