(* The two tree passes of the GFM parser model (model/GfmParse.v) keep trees well formed:
   attach_inlinesX (the inline phase over the block tree; the lines of a table cell may be the
   single empty segment of an empty cell, on which the inline phase yields no children) and
   table_ast_transform (the Table AST transformer: the text children of code spans in table cells
   are split at the escaped pipes). *)
Require Import GM.model.Base GM.model.Util GM.model.Reader GM.model.ReaderSpec GM.model.HtmlWriter GM.model.Html GM.model.HtmlSpec
               GM.model.TableX GM.model.BlockParse GM.model.InlineParse GM.model.BlockParseX GM.model.InlineParseX
               GM.model.GfmParse.
Require Import GM.proofs.ParseInv GM.proofs.ParseCompose GM.proofs.GfmWfDefs.
From Coq Require Import List ZArith Bool Lia Sorted.
Import ListNotations.
Open Scope Z_scope.

(* ---------- what a parent's local conditions see of its children ---------- *)
(* the kind, and for a table header the kinds of its children *)
Definition kshape (t t' : tree) : Prop :=
  t_kind t' = t_kind t /\
  (t_kind t = KTableHeader -> map t_kind (t_children t') = map t_kind (t_children t)).

Lemma kshape_refl t : kshape t t.
Proof. split; [reflexivity|intros _; reflexivity]. Qed.

Lemma forallb_kind (p : tree -> bool) (q : kind -> bool) : (forall t, p t = q (t_kind t)) ->
  forall l l', map t_kind l' = map t_kind l -> forallb p l' = forallb p l.
Proof.
  intros Hp. induction l as [|x r IH]; intros [|y r'] H; cbn [map] in H; try discriminate; [reflexivity|].
  injection H as Hy Hr. cbn [forallb]. rewrite !Hp, Hy, (IH _ Hr). reflexivity.
Qed.

Lemma forall2_kinds cs cs' : Forall2 kshape cs cs' -> map t_kind cs' = map t_kind cs.
Proof. induction 1 as [|x y l l' [Hk _] _ IH]; cbn [map]; [reflexivity|]. rewrite Hk, IH. reflexivity. Qed.

(* the local conditions of a node depend on its children through kshape only *)
Lemma node_ok_cong src it k l a cs cs' : Forall2 kshape cs cs' ->
  node_ok src it (Node k l a cs') = node_ok src it (Node k l a cs).
Proof.
  intros H. pose proof (forall2_kinds _ _ H) as Hk.
  unfold node_ok. f_equal.
  destruct k; try reflexivity.
  - (* code span *) apply (forallb_kind is_text_node (fun k => match k with KText _ _ _ _ => true | _ => false end)); [reflexivity|exact Hk].
  - (* table *)
    destruct H as [|x y r r' [Hxk Hxc] Hr]; [reflexivity|].
    destruct x as [kx lx ax cx], y as [ky ly ay cy]. cbn [t_kind t_children] in Hxk, Hxc. subst ky.
    destruct kx; try reflexivity.
    rewrite (forallb_kind is_table_cell (fun k => match k with KTableCell _ => true | _ => false end) (fun t => eq_refl) _ _ (Hxc eq_refl)).
    rewrite (forallb_kind is_table_row (fun k => match k with KTableRow => true | _ => false end) (fun t => eq_refl) _ _ (forall2_kinds _ _ Hr)).
    reflexivity.
  - (* header *) rewrite (forallb_kind is_table_cell (fun k => match k with KTableCell _ => true | _ => false end) (fun t => eq_refl) _ _ Hk). reflexivity.
  - (* row *) rewrite (forallb_kind is_table_cell (fun k => match k with KTableCell _ => true | _ => false end) (fun t => eq_refl) _ _ Hk). reflexivity.
Qed.

(* wf_node of a node from its parts *)
Lemma wf_node_intro src it ir k l a kids :
  node_ok src it (Node k l a kids) = true -> (match k with KTableCell _ => ir | _ => true end) = true ->
  Forall (fun c => wf_node src (match k with KTable => true | _ => false end)
                               (match k with KTableHeader | KTableRow => true | _ => false end) c = true) kids ->
  wf_node src it ir (Node k l a kids) = true.
Proof.
  intros H1 H2 H3. rewrite wf_node_unfold, H1, H2. cbn [andb]. apply forallb_forall. apply Forall_forall. exact H3.
Qed.

Lemma wf_node_parts src it ir k l a kids : wf_node src it ir (Node k l a kids) = true ->
  node_ok src it (Node k l a kids) = true /\ (match k with KTableCell _ => ir | _ => true end) = true /\
  Forall (fun c => wf_node src (match k with KTable => true | _ => false end)
                               (match k with KTableHeader | KTableRow => true | _ => false end) c = true) kids.
Proof.
  rewrite wf_node_unfold. intros H. apply andb_true_iff in H as [H H3]. apply andb_true_iff in H as [H1 H2].
  split; [exact H1|]. split; [exact H2|]. apply Forall_forall. apply forallb_forall. exact H3.
Qed.

(* ---------- attach_inlinesX ---------- *)
Section Attach.
Variable inl : bool -> list seg -> result (list tree).

Fixpoint attach_list (is_item first : bool) (l : list tree) : result (list tree) :=
  match l with
  | [] => Ok []
  | x :: r => y <- attach_inlinesX inl (first && is_item) x ;; z <- attach_list is_item false r ;; Ok (y :: z)
  end.

Lemma attach_inlinesX_unfold in_item k lines a kids :
  attach_inlinesX inl in_item (Node k lines a kids) =
  if has_inlinesX k then (ch <- inl in_item lines ;; Ok (Node k lines a ch))
  else (kids' <- attach_list (match k with KListItem => true | _ => false end) true kids ;; Ok (Node k lines a kids')).
Proof.
  cbn [attach_inlinesX]. destruct (has_inlinesX k); [reflexivity|]. f_equal.
  match goal with |- ?f true kids = _ =>
    assert (H : forall first, f first kids = attach_list (match k with KListItem => true | _ => false end) first kids);
    [|exact (H true)] end.
  induction kids as [|x r IH]; intros first; cbn [attach_list]; [reflexivity|].
  destruct (attach_inlinesX inl _ x) as [y| |]; cbn [bind]; try reflexivity.
  rewrite IH. reflexivity.
Qed.

Lemma tree_lines_okX_unfold src k l a kids :
  tree_lines_okX src (Node k l a kids) =
  (if has_inlinesX k then lines_okX_b src l else true) && forallb (tree_lines_okX src) kids.
Proof.
  cbn [tree_lines_okX]. reflexivity.
Qed.

Lemma attach_list_all (P : tree -> tree -> Prop) is_item : forall l first l', attach_list is_item first l = Ok l' ->
  (forall x in_item y, In x l -> attach_inlinesX inl in_item x = Ok y -> P x y) -> Forall2 P l l'.
Proof.
  induction l as [|x r IH]; intros first l' H HP; cbn [attach_list] in H.
  - apply pc_Ok_inj in H as <-. constructor.
  - apply pc_bind_ok in H as (y & Hy & H). apply pc_bind_ok in H as (z & Hz & H). apply pc_Ok_inj in H as <-.
    constructor; [exact (HP x _ y (or_introl eq_refl) Hy)|].
    apply (IH false z Hz). intros x' ii y' Hx'. apply HP. right. exact Hx'.
Qed.

Variable src : bytes.
Hypothesis inl_ok : forall in_item lines ts, lines_okX_b src lines = true -> inl in_item lines = Ok ts ->
  Forall (fun t => wf_node src false false t = true) ts.

Lemma has_inlinesX_flags k : has_inlinesX k = true ->
  (match k with KTable => true | _ => false end) = false /\
  (match k with KTableHeader | KTableRow => true | _ => false end) = false /\ k <> KTableHeader.
Proof. destruct k; cbn; intros H; try discriminate H; repeat split; discriminate. Qed.

Lemma node_ok_inline_children src' it k l a cs cs' : has_inlinesX k = true ->
  node_ok src' it (Node k l a cs') = node_ok src' it (Node k l a cs).
Proof. destruct k; cbn [has_inlinesX]; intros H; try discriminate H; reflexivity. Qed.

Theorem attachX_wf : forall t it ir in_item t',
  wf_node src it ir t = true -> tree_lines_okX src t = true ->
  attach_inlinesX inl in_item t = Ok t' -> wf_node src it ir t' = true /\ kshape t t'.
Proof.
  intros t. induction t as [k l a kids IH] using tree_ind_forall.
  intros it ir in_item t' Hwf Hlines Hatt.
  apply wf_node_parts in Hwf as (Hnode & Hcell & Hkids).
  rewrite tree_lines_okX_unfold in Hlines. apply andb_true_iff in Hlines as [Hl Hlk].
  rewrite attach_inlinesX_unfold in Hatt.
  destruct (has_inlinesX k) eqn:Hhas.
  - apply pc_bind_ok in Hatt as (ch & Hch & Hatt). apply pc_Ok_inj in Hatt as <-.
    destruct (has_inlinesX_flags k Hhas) as (F1 & F2 & F3).
    split.
    + apply wf_node_intro; [rewrite (node_ok_inline_children src it k l a kids ch Hhas); exact Hnode|exact Hcell|].
      rewrite F1, F2. exact (inl_ok in_item l ch Hl Hch).
    + split; [reflexivity|]. cbn [t_kind]. intros E. contradiction.
  - apply pc_bind_ok in Hatt as (kids' & Hk' & Hatt). apply pc_Ok_inj in Hatt as <-.
    assert (Hall : Forall2 (fun x y => wf_node src (match k with KTable => true | _ => false end)
                     (match k with KTableHeader | KTableRow => true | _ => false end) y = true /\ kshape x y) kids kids').
    { apply (attach_list_all _ _ _ _ _ Hk'). intros x ii y Hx Hy.
      rewrite Forall_forall in IH, Hkids. rewrite forallb_forall in Hlk.
      exact (IH x Hx _ _ _ y (Hkids x Hx) (Hlk x Hx) Hy). }
    assert (Hsh : Forall2 kshape kids kids').
    { clear -Hall. induction Hall as [|x y r r' [_ Hs] _ IHa]; constructor; assumption. }
    split.
    + apply wf_node_intro; [rewrite (node_ok_cong src it k l a kids kids' Hsh); exact Hnode|exact Hcell|].
      clear -Hall. induction Hall as [|x y r r' [Hw _] _ IHa]; constructor; assumption.
    + split; [reflexivity|]. cbn [t_kind t_children]. intros _. exact (forall2_kinds _ _ Hsh).
Qed.

End Attach.

(* ---------- the Table AST transformer ---------- *)
Section Ast.
Variable src : bytes.

(* the positions recorded for a cell are strictly increasing *)
Lemma escaped_positions_ge : forall v i hb p, In p (escaped_positions v i hb) -> i - 1 <= p.
Proof.
  induction v as [|c r IH]; intros i hb p H; cbn [escaped_positions] in H; [destruct H|].
  destruct (N.eqb c 124 && (hb || N.eqb c 96)).
  - destruct H as [<-|H]; [lia|]. apply IH in H. lia.
  - apply IH in H. lia.
Qed.

Lemma escaped_positions_sorted : forall v i hb, StronglySorted Z.lt (escaped_positions v i hb).
Proof.
  induction v as [|c r IH]; intros i hb; cbn [escaped_positions]; [constructor|].
  destruct (N.eqb c 124 && (hb || N.eqb c 96)); [|apply IH].
  constructor; [apply IH|]. apply Forall_forall. intros p Hp. apply escaped_positions_ge in Hp. lia.
Qed.

(* the pieces of a text segment lie inside it *)
Definition inside (ts s : seg) : Prop :=
  s_start ts <= s_start s /\ s_start s <= s_stop s /\ s_stop s <= s_stop ts /\ s_pad s = s_pad ts.

Lemma split_at_inside ts : forall ps cur l last,
  StronglySorted Z.lt ps -> (forall p, In p ps -> s_start ts <= p -> s_start cur <= p) ->
  inside ts cur -> s_stop cur = s_stop ts ->
  split_at ts cur ps = (l, last) -> Forall (inside ts) l /\ inside ts last.
Proof.
  induction ps as [|p r IH]; intros cur l last Hs Hge Hc Hst H; cbn [split_at] in H.
  - injection H as <- <-. split; [constructor|exact Hc].
  - apply StronglySorted_inv in Hs as [Hsr Hp].
    destruct ((s_start ts <=? p) && (p <? s_stop ts)) eqn:E.
    + apply andb_true_iff in E as [E1 E2]. apply Z.leb_le in E1. apply Z.ltb_lt in E2.
      destruct (split_at ts (seg_with_start cur (p + 1)) r) as [l1 last1] eqn:E3. injection H as <- <-.
      pose proof (Hge p (or_introl eq_refl) E1) as Hcp.
      destruct Hc as (C1 & C2 & C3 & C4).
      destruct (IH (seg_with_start cur (p + 1)) l1 last1 Hsr) as [Hl Hlast]; try exact E3.
      * intros q Hq _. cbn [seg_with_start mksegp s_start]. rewrite Forall_forall in Hp. specialize (Hp q Hq). lia.
      * unfold inside. cbn [seg_with_start mksegp s_start s_stop s_pad]. lia.
      * cbn [seg_with_start mksegp s_stop]. exact Hst.
      * split; [|exact Hlast]. constructor; [|exact Hl].
        unfold inside. cbn [seg_with_stop mksegp s_start s_stop s_pad]. lia.
    + apply (IH cur l last Hsr); try assumption. intros q Hq. apply Hge. right. exact Hq.
Qed.

Lemma seg_in_spec s : seg_in src s = true <->
  (0 <= s_start s /\ s_start s <= s_stop s /\ s_stop s <= zlen src /\ 0 <= s_pad s).
Proof. unfold seg_in. rewrite !andb_true_iff, !Z.leb_le. tauto. Qed.

Lemma inside_seg_in ts s : seg_in src ts = true -> inside ts s -> seg_in src s = true.
Proof. rewrite !seg_in_spec. unfold inside. lia. Qed.

Lemma raw_text_wf it ir s : seg_in src s = true -> wf_node src it ir (raw_text s) = true.
Proof.
  intros H. unfold raw_text. apply wf_node_intro; [|reflexivity|constructor].
  unfold node_ok. cbn [forallb attrs_ok andb]. exact H.
Qed.

(* the pieces a text child of a code span is replaced with: text nodes, well formed *)
Lemma split_text_ok ps t it ir : StronglySorted Z.lt ps -> wf_node src it ir t = true -> is_text_node t = true ->
  Forall (fun x => wf_node src it ir x = true /\ is_text_node x = true) (split_text ps t).
Proof.
  intros Hs Hwf Ht. destruct t as [k l a kids]. destruct k; try discriminate Ht. cbn [split_text].
  destruct (split_at s s ps) as [pieces last] eqn:E.
  destruct pieces as [|p0 pieces']; [constructor; [split; assumption|constructor]|].
  apply wf_node_parts in Hwf as (Hnode & _ & _).
  assert (Hseg : seg_in src s = true).
  { unfold node_ok in Hnode. apply andb_true_iff in Hnode as [_ Hnode]. exact Hnode. }
  destruct (split_at_inside s ps s (p0 :: pieces') last Hs) as [Hl Hlast]; try exact E.
  - intros p _ Hp. exact Hp.
  - apply seg_in_spec in Hseg. unfold inside. lia.
  - reflexivity.
  - apply Forall_app. split.
    + rewrite Forall_forall in Hl. apply Forall_forall. intros x Hx. apply in_map_iff in Hx as (sg & <- & Hsg).
      split; [|reflexivity]. apply raw_text_wf. exact (inside_seg_in s sg Hseg (Hl sg Hsg)).
    + constructor; [|constructor]. split; [|reflexivity]. apply raw_text_wf. exact (inside_seg_in s last Hseg Hlast).
Qed.

Lemma split_code_spans_unfold ps k l a kids :
  split_code_spans ps (Node k l a kids) =
  match k with
  | KCodeSpan => Node k l a (flat_map (split_text ps) kids)
  | _ => Node k l a (map (split_code_spans ps) kids)
  end.
Proof. destruct k; reflexivity. Qed.

Lemma split_code_spans_kind ps t : t_kind (split_code_spans ps t) = t_kind t.
Proof. destruct t as [k l a kids]. rewrite split_code_spans_unfold. destruct k; reflexivity. Qed.

Lemma split_code_spans_kshape ps t : kshape t (split_code_spans ps t).
Proof.
  split; [apply split_code_spans_kind|]. destruct t as [k l a kids]. cbn [t_kind]. intros ->.
  rewrite split_code_spans_unfold. cbn [t_children]. rewrite map_map.
  apply map_ext. intros x. apply split_code_spans_kind.
Qed.

Lemma split_code_spans_wf ps : StronglySorted Z.lt ps -> forall t it ir,
  wf_node src it ir t = true -> wf_node src it ir (split_code_spans ps t) = true.
Proof.
  intros Hs t. induction t as [k l a kids IH] using tree_ind_forall. intros it ir Hwf.
  apply wf_node_parts in Hwf as (Hnode & Hcell & Hkids).
  rewrite split_code_spans_unfold.
  assert (Hother : wf_node src it ir (Node k l a (map (split_code_spans ps) kids)) = true).
  { apply wf_node_intro; [|exact Hcell|].
    - rewrite (node_ok_cong src it k l a kids); [exact Hnode|].
      clear. induction kids as [|x r IHr]; cbn [map]; constructor; [apply split_code_spans_kshape|exact IHr].
    - apply Forall_forall. intros y Hy. apply in_map_iff in Hy as (x & <- & Hx).
      rewrite Forall_forall in IH, Hkids. exact (IH x Hx _ _ (Hkids x Hx)). }
  destruct k; try exact Hother.
  (* code span *)
  clear Hother.
  assert (Htext : forallb is_text_node kids = true).
  { unfold node_ok in Hnode. apply andb_true_iff in Hnode as [_ Hnode]. exact Hnode. }
  assert (Hall : Forall (fun x => wf_node src false false x = true /\ is_text_node x = true) (flat_map (split_text ps) kids)).
  { apply Forall_forall. intros y Hy. apply in_flat_map in Hy as (x & Hx & Hy).
    rewrite Forall_forall in Hkids. rewrite forallb_forall in Htext.
    pose proof (split_text_ok ps x false false Hs (Hkids x Hx) (Htext x Hx)) as Hf.
    rewrite Forall_forall in Hf. exact (Hf y Hy). }
  apply wf_node_intro; [|reflexivity|].
  - unfold node_ok in Hnode |- *. apply andb_true_iff in Hnode as [Hn1 _]. rewrite Hn1. cbn [andb].
    apply forallb_forall. intros y Hy. rewrite Forall_forall in Hall. exact (proj2 (Hall y Hy)).
  - apply Forall_forall. intros y Hy. rewrite Forall_forall in Hall. exact (proj1 (Hall y Hy)).
Qed.

(* table_ast_transform over a node *)
Fixpoint ast_list (l : list tree) : result (list tree) :=
  match l with
  | [] => Ok []
  | x :: r => y <- table_ast_transform src x ;; z <- ast_list r ;; Ok (y :: z)
  end.

Definition ast_cell (t : tree) : option (align * seg) :=
  match t with Node (KTableCell al) [sg] _ _ => Some (al, sg) | _ => None end.

Lemma table_ast_transform_unfold k l a kids :
  table_ast_transform src (Node k l a kids) =
  match ast_cell (Node k l a kids) with
  | Some (al, sg) =>
    v <- seg_value src sg ;;
    match escaped_positions v (s_start sg) false with
    | [] => Ok (Node k l a kids)
    | ps => Ok (Node (KTableCell al) [sg] a (map (split_code_spans ps) kids))
    end
  | None => kids' <- ast_list kids ;; Ok (Node k l a kids')
  end.
Proof.
  assert (Hgo : (fix go (l0 : list tree) : result (list tree) :=
                   match l0 with
                   | [] => Ok []
                   | x :: r => y <- table_ast_transform src x ;; z <- go r ;; Ok (y :: z)
                   end) kids = ast_list kids).
  { reflexivity. }
  destruct k; try (cbn [table_ast_transform ast_cell]; rewrite Hgo; reflexivity).
  destruct l as [|sg [|sg2 l2]]; cbn [table_ast_transform ast_cell]; try (rewrite Hgo; reflexivity).
  reflexivity.
Qed.

Theorem table_ast_transform_wf : forall t it ir t',
  wf_node src it ir t = true -> table_ast_transform src t = Ok t' ->
  wf_node src it ir t' = true /\ kshape t t'.
Proof.
  intros t. induction t as [k l a kids IH] using tree_ind_forall. intros it ir t' Hwf H.
  rewrite table_ast_transform_unfold in H.
  destruct (ast_cell (Node k l a kids)) as [[al sg]|] eqn:Ec.
  - assert (k = KTableCell al /\ l = [sg]) as [-> ->].
    { destruct k; try discriminate Ec. destruct l as [|s1 [|s2 l2]]; try discriminate Ec. cbn in Ec. injection Ec as <- <-. auto. }
    apply pc_bind_ok in H as (v & Hv & H).
    pose proof (escaped_positions_sorted v (s_start sg) false) as Hs.
    destruct (escaped_positions v (s_start sg) false) as [|p0 ps'] eqn:Ep.
    + apply pc_Ok_inj in H as <-. split; [exact Hwf|apply kshape_refl].
    + apply pc_Ok_inj in H as <-.
      pose proof (split_code_spans_wf (p0 :: ps') Hs (Node (KTableCell al) [sg] a kids) it ir Hwf) as Hw.
      rewrite split_code_spans_unfold in Hw. split; [exact Hw|].
      split; [reflexivity|]. cbn [t_kind]. intros E. discriminate E.
  - apply pc_bind_ok in H as (kids' & Hk' & H). apply pc_Ok_inj in H as <-.
    apply wf_node_parts in Hwf as (Hnode & Hcell & Hkids).
    assert (Hall : Forall2 (fun x y => wf_node src (match k with KTable => true | _ => false end)
                     (match k with KTableHeader | KTableRow => true | _ => false end) y = true /\ kshape x y) kids kids').
    { clear Hnode Hcell Ec. revert kids' Hk'. induction kids as [|x r IHr]; intros kids' Hk'; cbn [ast_list] in Hk'.
      - apply pc_Ok_inj in Hk' as <-. constructor.
      - apply pc_bind_ok in Hk' as (y & Hy & Hk'). apply pc_bind_ok in Hk' as (z & Hz & Hk'). apply pc_Ok_inj in Hk' as <-.
        inversion IH as [|? ? IHx IHr']; subst. inversion Hkids as [|? ? Hwx Hwr]; subst.
        constructor; [exact (IHx _ _ y Hwx Hy)|exact (IHr IHr' Hwr z Hz)]. }
    assert (Hsh : Forall2 kshape kids kids').
    { clear -Hall. induction Hall as [|x y r r' [_ Hs] _ IHa]; constructor; assumption. }
    split.
    + apply wf_node_intro; [rewrite (node_ok_cong src it k l a kids kids' Hsh); exact Hnode|exact Hcell|].
      clear -Hall. induction Hall as [|x y r r' [Hw _] _ IHa]; constructor; assumption.
    + split; [reflexivity|]. cbn [t_kind t_children]. intros _. exact (forall2_kinds _ _ Hsh).
Qed.

End Ast.

(* ---------- the inline phase on the lines of an empty table cell ---------- *)
Section Empty.
Variable xc : xcfg.
Variable space_table punct_table : list N.
Variable norm : bytes -> bytes.
Variable url_table email_table : list N.
Variable re_email_domain re_open_tag re_close_tag : Regex.re.
Variable punct_rune space_rune : N -> bool.
Variable re_task re_url re_www : Regex.re.
Notation ICX := (inline_childrenX xc space_table punct_table norm url_table email_table
                   re_email_domain re_open_tag re_close_tag punct_rune space_rune re_task re_url re_www).

(* on one empty segment the block reader is out of range at once *)
Lemma new_block_reader_empty src a p f :
  exists r, new_block_reader src [{| s_start := a; s_stop := a; s_pad := p; s_fnl := f |}] = Ok r /\ b_in_range r = false.
Proof.
  unfold new_block_reader, b_reset_position. cbn -[Z.add Z.sub Z.ltb Z.leb Z.eqb].
  unfold seg_at. cbn.
  unfold b_advance_line, b_set_position. cbn.
  eexists. split; [reflexivity|]. unfold b_in_range. cbn. rewrite Z.ltb_irrefl. rewrite andb_false_r. reflexivity.
Qed.

(* when the block reader is out of range from the start there are no inline children *)
Lemma inline_childrenX_out refs in_item src lines r :
  new_block_reader src lines = Ok r -> b_in_range r = false -> ICX refs in_item src lines = Ok [].
Proof.
  intros Hr Hout. unfold inline_childrenX, parse_blockX. rewrite Hr. cbn [bind].
  replace (2 * length src + 2 * length lines + 8)%nat with (S (2 * length src + 2 * length lines + 7))%nat by lia.
  cbn [parse_block_loopX xs_s t_r]. unfold b_peek_line. rewrite Hout. cbn [bind].
  cbn. reflexivity.
Qed.

(* the two cases of lines_okX_b *)
Lemma lines_okX_cases src lines : lines_okX_b src lines = true ->
  lines_ok src lines \/ exists a p f, lines = [{| s_start := a; s_stop := a; s_pad := p; s_fnl := f |}].
Proof.
  unfold lines_okX_b. intros H. apply orb_true_iff in H as [H|H].
  - left. apply andb_true_iff in H. exact H.
  - right. destruct lines as [|sg [|sg2 r]]; try discriminate H.
    repeat (apply andb_true_iff in H as [H ?]).
    match goal with X : (s_start sg =? s_stop sg) = true |- _ => apply Z.eqb_eq in X; rename X into E end.
    destruct sg as [a b p f]. cbn [s_start s_stop] in E. subst b. exists a, p, f. reflexivity.
Qed.

End Empty.
