(* Helper library for FootnoteWfBlk.v, part Frame: Open, Continue, Close of the ten block parsers of the
   core and the paragraph transformer keep the frame `cfr` of FootnoteWfBlkInv.v (kind and numbers of
   every node, segment and parent of the nodes written as block quotes, new nodes written as block
   quotes are block quotes, new parent links point to parents of nodes not written as block quotes). *)
Require Import GM.model.Base GM.model.Util GM.model.Reader GM.model.Blocks GM.model.ListItem
               GM.model.LeafBlocks GM.model.CodeBlock GM.model.LinkDest GM.model.Regex GM.model.BlockParse
               GM.model.FootnoteParseBlock.
Require Import GM.proofs.ReaderProofs GM.proofs.ParseInv GM.proofs.ParseBlocksRangeA GM.proofs.ParseBlocksRangeB
               GM.proofs.FootnoteWfDefs GM.proofs.FootnoteWfBlkInv.
(* fc_bind and crunch: the symbolic execution of the model equations *)
Require Import GM.proofs.FootnoteConservativeDefs GM.proofs.FootnoteConservativeRd.
From Coq Require Import List ZArith Lia Bool.
Import ListNotations.
Open Scope Z_scope.

(* ---------- kind and parent of a node along updates ---------- *)
(* kp: every node keeps its kind and its parent (updates of lines, children, flags; allocation) *)
Definition kp (h h' : heap) : Prop :=
  forall j m, nth_error h j = Some m -> exists m', nth_error h' j = Some m' /\ bk m' = bk m /\ bpar m' = bpar m.
Lemma kp_refl h : kp h h.
Proof. intros j m E. eauto. Qed.
Lemma kp_trans a b c : kp a b -> kp b c -> kp a c.
Proof.
  intros A B j m E. destruct (A j m E) as [m1 [E1 [K1 P1]]]. destruct (B j m1 E1) as [m2 [E2 [K2 P2]]].
  exists m2. csplit; congruence.
Qed.
Lemma kp_app h n : kp h (h ++ [n]).
Proof. intros j m E. exists m. rewrite nth_error_app1 by (eapply nth_some_lt; eassumption). auto. Qed.
Lemma kp_hupd h i f h' : hupd h i f = Ok h' -> (forall n, bk (f n) = bk n /\ bpar (f n) = bpar n) -> kp h h'.
Proof.
  intros H Hf. apply hupd_ok in H. destruct H as [n [En ->]]. intros j m E. destruct (Nat.eq_dec j i) as [->|Hne].
  - assert (m = n) by congruence. subst m. exists (f n). rewrite nth_hset_eq by (eapply nth_some_lt; eassumption).
    destruct (Hf n). auto.
  - exists m. rewrite nth_hset_ne by congruence. auto.
Qed.

(* the node i of h has kind K / kind K and parent q *)
Definition hask (h : heap) (i : nat) (K : bkind) : Prop := exists n, nth_error h i = Some n /\ bk n = K.
Definition haskp (h : heap) (i : nat) (K : bkind) (q : nat) : Prop :=
  exists n, nth_error h i = Some n /\ bk n = K /\ bpar n = Some q.
Lemma hask_cfr h h' i K : cfr h h' -> hask h i K -> hask h' i K.
Proof. intros [_ [C2 _]] [n [E Kn]]. destruct (C2 i n E) as [n' [E' [K' _]]]. exists n'. split; congruence. Qed.
Lemma haskp_kp h h' i K q : kp h h' -> haskp h i K q -> haskp h' i K q.
Proof. intros C [n [E [Kn Pn]]]. destruct (C i n E) as [n' [E' [K' P']]]. exists n'. csplit; congruence. Qed.
Lemma hask_not h i K : hask h i K -> K <> BBlockquote -> forall n, nth_error h i = Some n -> bk n <> BBlockquote.
Proof. intros [m [E Km]] HK n En. congruence. Qed.
Lemma hask_new h n K : bk n = K -> hask (h ++ [n]) (length h) K.
Proof. intros Kn. exists n. split; [apply nth_app_new|exact Kn]. Qed.

(* nk: the node i, when there, is not written as a block quote *)
Definition nk (h : heap) (i : nat) : Prop := forall n, nth_error h i = Some n -> bk n <> BBlockquote.
Lemma nk_hupd h j f h' i : hupd h j f = Ok h' -> (forall n, bk (f n) = bk n) -> nk h i -> nk h' i.
Proof.
  intros H Hf N. apply hupd_ok in H. destruct H as [n [En ->]]. intros m Em. apply nth_hset_inv in Em.
  destruct Em as [[-> [-> _]]|[_ Em]]; [rewrite Hf; apply N; exact En|apply N; exact Em].
Qed.
Lemma nk_app h n i : nk h i -> bk n <> BBlockquote -> nk (h ++ [n]) i.
Proof. intros N K m Em. apply nth_app_inv in Em. destruct Em as [[_ ->]|[_ Em]]; [exact K|apply N; exact Em]. Qed.
Lemma nk_new h n : bk n <> BBlockquote -> nk (h ++ [n]) (length h).
Proof. intros K m Em. rewrite nth_app_new in Em. congruence. Qed.
Lemma hask_nk h i K : hask h i K -> K <> BBlockquote -> nk h i.
Proof. intros [m [E Km]] HK n En. congruence. Qed.
Lemma nk_of h i K : (forall n, nth_error h i = Some n -> bk n = K) -> K <> BBlockquote -> nk h i.
Proof. intros H HK n En. rewrite (H n En). exact HK. Qed.

(* ---------- primitive steps that change parent links ---------- *)
Lemma cfr_set_par h i n v : nth_error h i = Some n -> bk n <> BBlockquote ->
  (forall q, v = Some q -> exists d nd, nth_error h d = Some nd /\ bpar nd = Some q /\ bk nd <> BBlockquote) ->
  cfr h (hset h i (set_par n v)).
Proof.
  intros E K W. unfold cfr. csplit.
  - rewrite length_hset. lia.
  - intros j m Ej. destruct (Nat.eq_dec j i) as [->|Hne].
    + assert (m = n) by congruence. subst m. exists (set_par n v).
      rewrite nth_hset_eq by (eapply nth_some_lt; eassumption). cbn [set_par bk b_i1 b_i2]. csplit; auto. intros Kb. congruence.
    + exists m. rewrite nth_hset_ne by congruence. csplit; auto.
  - intros j m Ej Hj. apply nth_some_lt in Ej. rewrite length_hset in Ej. lia.
  - intros c nc' q Ec Pq. apply nth_hset_inv in Ec. destruct Ec as [[-> [-> _]]|[_ Ec]].
    + right. cbn [set_par bpar] in Pq. apply W. exact Pq.
    + left. eauto.
Qed.

Lemma cfr_hupd_par h i v h' : hupd h i (fun m => set_par m v) = Ok h' ->
  nk h i ->
  (forall q, v = Some q -> exists d nd, nth_error h d = Some nd /\ bpar nd = Some q /\ bk nd <> BBlockquote) ->
  cfr h h'.
Proof. intros H K W. apply hupd_ok in H. destruct H as [n [En ->]]. apply cfr_set_par; auto. Qed.

Lemma keepsF_set_ch n v : keepsF n (set_ch n v).
Proof. unfold keepsF. cbn. auto. Qed.

Lemma cfr_remove_child h p c h' : remove_child h p c = Ok h' -> nk h c -> cfr h h'.
Proof.
  unfold remove_child. intros H K. fc_bind H n En. destruct (opt_nat_eqb _ _); [|injection H as <-; apply cfr_refl].
  fc_bind H h1 E1. assert (cfr h h1) as C1 by (eapply cfr_hupd; [exact E1|intros; apply keepsF_set_ch]).
  eapply cfr_trans; [exact C1|]. eapply cfr_hupd_par; [exact H| |discriminate].
  eapply nk_hupd; [exact E1|reflexivity|exact K].
Qed.

Lemma opt_nat_eqb_some a p : opt_nat_eqb a (Some p) = true -> a = Some p.
Proof. destruct a as [x|]; cbn; [|discriminate]. intros H. apply Nat.eqb_eq in H. congruence. Qed.

Lemma cfr_replace_child h p old new h' : replace_child h p old new = Ok h' -> nk h old -> nk h new -> cfr h h'.
Proof.
  unfold replace_child. intros H Ko Kn. fc_bind H n En. destruct (opt_nat_eqb _ _) eqn:Ep; [|injection H as <-; apply cfr_refl].
  apply opt_nat_eqb_some in Ep. apply hget_ok in En. fc_bind H h1 E1. fc_bind H h2 E2.
  assert (cfr h h1) as C1 by (eapply cfr_hupd; [exact E1|intros; apply keepsF_set_ch]).
  assert (kp h h1) as P1 by (eapply kp_hupd; [exact E1|intros; cbn; auto]).
  assert (cfr h1 h2) as C2.
  { eapply cfr_hupd_par; [exact E2| |].
    - eapply nk_hupd; [exact E1|reflexivity|exact Kn].
    - intros q Eq. injection Eq as <-. destruct (P1 old n En) as [n1 [En1 [K1 Pp1]]]. exists old, n1. csplit; [exact En1|congruence|].
      rewrite K1. apply Ko. exact En. }
  eapply cfr_trans; [exact C1|]. eapply cfr_trans; [exact C2|].
  eapply cfr_hupd_par; [exact H| |discriminate].
  eapply nk_hupd; [exact E2|reflexivity|]. eapply nk_hupd; [exact E1|reflexivity|exact Ko].
Qed.

Lemma cfr_insert_after h p ref new h' : insert_after h p ref new = Ok h' -> nk h new ->
  (exists d K, haskp h d K p /\ K <> BBlockquote) -> cfr h h'.
Proof.
  unfold insert_after. intros H Kn [d [K [W HK]]]. fc_bind H h1 E1.
  assert (cfr h h1) as C1 by (eapply cfr_hupd; [exact E1|intros; apply keepsF_set_ch]).
  assert (kp h h1) as P1 by (eapply kp_hupd; [exact E1|intros; cbn; auto]).
  eapply cfr_trans; [exact C1|]. eapply cfr_hupd_par; [exact H| |].
  - eapply nk_hupd; [exact E1|reflexivity|exact Kn].
  - intros q Eq. injection Eq as <-. destruct (haskp_kp _ _ _ _ _ P1 W) as [n1 [En1 [K1 Pp1]]]. exists d, n1. csplit; auto. congruence.
Qed.

(* the structure operations keep kind-not-block-quote facts, and kind / parent of the nodes they do not move *)
Lemma nk_remove_child h p c h' i : remove_child h p c = Ok h' -> nk h i -> nk h' i.
Proof.
  unfold remove_child. intros H N. fc_bind H n En. destruct (opt_nat_eqb _ _); [|injection H as <-; exact N].
  fc_bind H h1 E1. eapply nk_hupd; [exact H|reflexivity|]. eapply nk_hupd; [exact E1|reflexivity|exact N].
Qed.
Lemma nk_replace_child h p o n h' i : replace_child h p o n = Ok h' -> nk h i -> nk h' i.
Proof.
  unfold replace_child. intros H N. fc_bind H nd End. destruct (opt_nat_eqb _ _); [|injection H as <-; exact N].
  fc_bind H h1 E1. fc_bind H h2 E2. eapply nk_hupd; [exact H|reflexivity|]. eapply nk_hupd; [exact E2|reflexivity|].
  eapply nk_hupd; [exact E1|reflexivity|exact N].
Qed.
Lemma nk_insert_after h p r n h' i : insert_after h p r n = Ok h' -> nk h i -> nk h' i.
Proof.
  unfold insert_after. intros H N. fc_bind H h1 E1. eapply nk_hupd; [exact H|reflexivity|]. eapply nk_hupd; [exact E1|reflexivity|exact N].
Qed.

(* ---------- the state-level calls: what they do to the heap ---------- *)
Section F0.
Variable space_table punct_table : list N.
Variable norm : bytes -> bytes.
Variable re_t1o re_t1c re_t2 re_t3 re_t4 re_t5 re_t6 re_t7 : re.
Variable allowed_tags : list bytes.

Lemma peek_line_s_st s s' l sg : peek_line_s s = Ok (s', l, sg) -> exists r, s' = st_r s r.
Proof. unfold peek_line_s. intros H. fc_bind H x Ex. destruct x as [[r l1] sg1]. injection H as <- <- <-. eauto. Qed.
Lemma line_offset_s_st s s' o : line_offset_s s = Ok (s', o) -> exists r, s' = st_r s r.
Proof. unfold line_offset_s. intros H. fc_bind H x Ex. destruct x as [r o1]. injection H as <- <-. eauto. Qed.
Lemma advance_s_st s n s' : advance_s s n = Ok s' -> exists r, s' = st_r s r.
Proof. unfold advance_s. intros H. fc_bind H r Er. injection H as <-. eauto. Qed.
Lemma new_node_st s n s' i : new_node s n = (s', i) -> s' = st_h s (s_h s ++ [n]) /\ i = length (s_h s).
Proof. unfold new_node, halloc. intros H. injection H as <- <-. auto. Qed.

(* make the states explicit *)
Ltac norm_st :=
  repeat match goal with
  | H : peek_line_s ?x = Ok (?y, _, _) |- _ => let r := fresh "r" in apply peek_line_s_st in H; destruct H as [r H]; subst y
  | H : line_offset_s ?x = Ok (?y, _) |- _ => let r := fresh "r" in apply line_offset_s_st in H; destruct H as [r H]; subst y
  | H : advance_s ?x _ = Ok ?y |- _ => let r := fresh "r" in apply advance_s_st in H; destruct H as [r H]; subst y
  | H : new_node ?x _ = (?y, ?i) |- _ => let H2 := fresh in apply new_node_st in H; destruct H as [H H2]; subst y; subst i
  end; cbn [s_h s_c s_r st_h st_c st_r] in *.

Ltac kf_tac :=
  let n := fresh "n" in let En := fresh "En" in
  intros n En; unfold keepsF;
  repeat match goal with |- context [match ?l with _ => _ end] => destruct l end;
  cbn [set_lines set_blank set_tight set_seg set_ch set_i2 bk b_i1 b_i2 bpar b_seg]; csplit; auto;
  let K := fresh "K" in intros K;
  match goal with Hk : forall m, nth_error _ _ = Some m -> bk m = _ |- _ => rewrite (Hk n En) in K; discriminate K end.

Ltac nn_tac := 
  repeat match goal with |- context [if ?b then _ else _] => destruct b end; cbn; first [reflexivity | intros K; first [discriminate K|reflexivity]].

Ltac cfr_go :=
  lazymatch goal with
  | |- cfr ?h ?h => apply cfr_refl
  | |- cfr ?h0 (s_h (if ?b then _ else _)) => destruct b; cbn [s_h s_c s_r st_h st_c st_r]; cfr_go
  | |- cfr ?h0 (?x ++ [?n]) => apply (cfr_trans h0 x); [cfr_go | apply cfr_app; nn_tac]
  | |- cfr ?h0 ?h =>
    match goal with
    | H : hupd ?h1 _ _ = Ok h |- _ => apply (cfr_trans h0 h1 h); [cfr_go | eapply cfr_hupd; [exact H|kf_tac]]
    end
  end.

Ltac fin H := first [injection H as <- <- | injection H as <-]; norm_st; cfr_go.

Lemma paragraph_open_cfr s s' o : paragraph_open space_table s = Ok (s', o) -> cfr (s_h s) (s_h s').
Proof. unfold paragraph_open. intros H. crunch H; fin H. Qed.
Lemma paragraph_continue_cfr s node s' b : paragraph_continue space_table s node = Ok (s', b) -> cfr (s_h s) (s_h s').
Proof. unfold paragraph_continue. intros H. crunch H; fin H. Qed.
Lemma thematic_open_cfr s s' o : thematic_open space_table s = Ok (s', o) -> cfr (s_h s) (s_h s').
Proof. unfold thematic_open. intros H. crunch H; fin H. Qed.
Lemma atx_open_s_cfr s s' o : atx_open_s space_table s = Ok (s', o) -> cfr (s_h s) (s_h s').
Proof. unfold atx_open_s. intros H. crunch H; fin H. Qed.
Lemma fenced_open_cfr s s' o : fenced_open space_table s = Ok (s', o) -> cfr (s_h s) (s_h s').
Proof. unfold fenced_open. intros H. crunch H; fin H. Qed.
Lemma fenced_continue_cfr s node s' b : fenced_continue space_table s node = Ok (s', b) -> cfr (s_h s) (s_h s').
Proof. unfold fenced_continue. intros H. crunch H; fin H. Qed.
Lemma fenced_close_cfr s node s' : fenced_close s node = Ok s' -> cfr (s_h s) (s_h s').
Proof. unfold fenced_close. intros H. crunch H; fin H. Qed.
Lemma code_open_cfr s s' o : code_open space_table s = Ok (s', o) -> cfr (s_h s) (s_h s').
Proof. unfold code_open. intros H. crunch H; fin H. Qed.
Lemma code_continue_cfr s node s' b : code_continue space_table s node = Ok (s', b) -> cfr (s_h s) (s_h s').
Proof. unfold code_continue. intros H. crunch H; fin H. Qed.
Lemma code_close_cfr s node s' : code_close space_table s node = Ok s' -> cfr (s_h s) (s_h s').
Proof. unfold code_close. intros H. crunch H; fin H. Qed.
Lemma bq_open_cfr s s' o : bq_open s = Ok (s', o) -> cfr (s_h s) (s_h s').
Proof. unfold bq_open. intros H. crunch H; fin H. Qed.
Lemma bq_continue_cfr s s' b : bq_continue s = Ok (s', b) -> cfr (s_h s) (s_h s').
Proof. unfold bq_continue. intros H. crunch H; fin H. Qed.
Lemma setext_open_cfr s parent s' o : setext_open space_table s parent = Ok (s', o) -> cfr (s_h s) (s_h s').
Proof. unfold setext_open. intros H. crunch H; fin H. Qed.
Lemma html_open_cfr s s' o :
  html_open space_table re_t1o re_t2 re_t3 re_t4 re_t5 re_t6 re_t7 allowed_tags s = Ok (s', o) -> cfr (s_h s) (s_h s').
Proof. unfold html_open. intros H. cbv zeta in H. crunch H; fin H. Qed.
Lemma html_continue_cfr s node s' b : (forall n, nth_error (s_h s) node = Some n -> bk n = BHTML) ->
  html_continue space_table re_t1c s node = Ok (s', b) -> cfr (s_h s) (s_h s').
Proof. unfold html_continue. intros Hk H. cbv zeta in H. crunch H; fin H. Qed.
Lemma list_open_cfr s parent s' o : list_open space_table s parent = Ok (s', o) -> cfr (s_h s) (s_h s').
Proof. unfold list_open. intros H. cbv zeta in H. crunch H; fin H. Qed.
Lemma list_continue_cfr s node s' b : list_continue space_table s node = Ok (s', b) -> cfr (s_h s) (s_h s').
Proof. unfold list_continue. intros H. cbv zeta in H. crunch H; fin H. Qed.
Lemma list_item_open_s_cfr s parent s' o : list_item_open_s space_table s parent = Ok (s', o) -> cfr (s_h s) (s_h s').
Proof. unfold list_item_open_s. intros H. crunch H; fin H. Qed.
Lemma list_item_continue_cfr s node s' b : list_item_continue space_table s node = Ok (s', b) -> cfr (s_h s) (s_h s').
Proof. unfold list_item_continue. intros H. cbv zeta in H. crunch H; fin H. Qed.

Lemma nBQ_para : BParagraph <> BBlockquote. Proof. discriminate. Qed.
Lemma nBQ_head : BHeading <> BBlockquote. Proof. discriminate. Qed.

Lemma paragraph_close_cfr s node s' : (forall n, nth_error (s_h s) node = Some n -> bk n = BParagraph) ->
  paragraph_close space_table s node = Ok s' -> cfr (s_h s) (s_h s').
Proof.
  unfold paragraph_close. intros Hk H. pose proof (nk_of _ _ _ Hk nBQ_para) as N. crunch H; injection H as <-; norm_st; try cfr_go.
  eapply cfr_remove_child; eassumption.
Qed.

Lemma lrd_transform_cfr s node s' : (forall n, nth_error (s_h s) node = Some n -> bk n = BParagraph) ->
  lrd_transform space_table punct_table norm s node = Ok s' -> cfr (s_h s) (s_h s').
Proof.
  unfold lrd_transform. intros Hk H. pose proof (nk_of _ _ _ Hk nBQ_para) as N.
  fc_bind H n En. fc_bind H br Ebr. fc_bind H x Ex. destruct x as [c removes]. cbv zeta in H.
  crunch H; injection H as <-; norm_st; try cfr_go.
  eapply cfr_trans; [|eapply cfr_replace_child; [eassumption| |]].
  - apply cfr_app; nn_tac.
  - apply nk_app; [exact N|discriminate].
  - apply nk_new. discriminate.
Qed.

Lemma transform_paragraph_cfr0 s node s' g : (forall n, nth_error (s_h s) node = Some n -> bk n = BParagraph) ->
  transform_paragraph space_table punct_table norm s node = Ok (s', g) -> cfr (s_h s) (s_h s').
Proof.
  unfold transform_paragraph. intros Hk H. fc_bind H s1 E1. fc_bind H n En. injection H as <- <-.
  eapply lrd_transform_cfr; eassumption.
Qed.

Ltac crunch_all :=
  repeat match goal with
  | E : (if _ then _ else _) = Ok _ |- _ => crunch E; try (inversion E; subst; clear E)
  | E : match _ with _ => _ end = Ok _ |- _ => crunch E; try (inversion E; subst; clear E)
  end.

Ltac kk_tac :=
  let n := fresh "n" in intros n;
  repeat match goal with |- context [match ?l with _ => _ end] => destruct l end;
  cbn [set_lines set_blank set_tight set_seg set_ch set_i2 bk bpar]; auto.

(* nk h i along the equations that lead to h *)
Ltac nk_go :=
  lazymatch goal with
  | |- nk (?x ++ [?n]) (length ?x) => apply nk_new; discriminate
  | |- nk (?x ++ [?n]) _ => apply nk_app; [nk_go|discriminate]
  | |- nk ?h ?i =>
    first [ assumption |
    match goal with
    | H : hupd ?h1 _ _ = Ok h |- _ => apply (nk_hupd h1 _ _ h i H); [kk_tac|nk_go]
    | H : insert_after ?h1 _ _ _ = Ok h |- _ => apply (nk_insert_after _ _ _ _ _ _ H); nk_go
    | H : remove_child ?h1 _ _ = Ok h |- _ => apply (nk_remove_child _ _ _ _ _ H); nk_go
    | H : replace_child ?h1 _ _ _ = Ok h |- _ => apply (nk_replace_child _ _ _ _ _ _ H); nk_go
    end ]
  end.
(* haskp h i K q along updates and allocations *)
Ltac hk_go :=
  lazymatch goal with
  | |- haskp (?x ++ [?n]) _ _ _ => apply (haskp_kp x); [apply kp_app|hk_go]
  | |- haskp ?h _ _ _ =>
    first [ eassumption |
    match goal with
    | H : hupd ?h1 _ _ = Ok h |- _ => apply (haskp_kp h1); [eapply kp_hupd; [exact H|kk_tac]|hk_go]
    end ]
  end.
(* cfr with the structure operations; the witness of insert_after stays open *)
Ltac cfr_go2 :=
  lazymatch goal with
  | |- cfr ?h ?h => apply cfr_refl
  | |- cfr ?h0 (?x ++ [?n]) => apply (cfr_trans h0 x); [cfr_go2 | apply cfr_app; nn_tac]
  | |- cfr ?h0 ?h =>
    match goal with
    | H : hupd ?h1 _ _ = Ok h |- _ => apply (cfr_trans h0 h1 h); [cfr_go2 | eapply cfr_hupd; [exact H|kf_tac]]
    | H : remove_child ?h1 _ _ = Ok h |- _ => apply (cfr_trans h0 h1 h); [cfr_go2 | eapply cfr_remove_child; [exact H|nk_go]]
    | H : replace_child ?h1 _ _ _ = Ok h |- _ => apply (cfr_trans h0 h1 h); [cfr_go2 | eapply cfr_replace_child; [exact H|nk_go|nk_go]]
    | H : insert_after ?h1 _ _ _ = Ok h |- _ => apply (cfr_trans h0 h1 h); [cfr_go2 | eapply cfr_insert_after; [exact H|nk_go|]]
    end
  end.

Lemma setext_close_cfr s node s' : (forall n, nth_error (s_h s) node = Some n -> bk n = BHeading) ->
  (forall tmp t, c_tmp_para (s_c s) = Some tmp -> nth_error (s_h s) tmp = Some t -> bk t = BParagraph) ->
  setext_close space_table s node = Ok s' -> cfr (s_h s) (s_h s').
Proof.
  unfold setext_close. intros Hk Ht H. pose proof (nk_of _ _ _ Hk nBQ_head) as N. cbv zeta in H.
  crunch H; crunch_all; injection H as <-; norm_st;
  match goal with E : c_tmp_para _ = Some ?t |- _ => pose proof (nk_of _ _ _ (fun x => Ht t x eq_refl) nBQ_para) as Nt end;
  match goal with E : hget (s_h s) node = Ok ?a, E' : bpar ?a = Some ?p |- _ => 
     assert (haskp (s_h s) node BHeading p) as W by (apply hget_ok in E; exists a; csplit; auto) | _ => idtac end.
  all: cfr_go2.
  all: exists node, BHeading; split; [hk_go|discriminate].
Qed.

Lemma list_close_cfr s node s' : list_close s node = Ok s' -> cfr (s_h s) (s_h s').
Proof.
  unfold list_close. intros H. fc_bind H n En. fc_bind H tight Et. fc_bind H h Eh. cbv zeta in H.
  assert (X : cfr (s_h s) (s_h (st_h s h))) by (cbn [s_h st_h]; cfr_go).
  destruct (negb tight); [injection H as <-; exact X|].
  eapply cfr_trans; [exact X|]. clear X Et Eh En. revert H. generalize (st_h s h). generalize (bch n).
  induction l as [|c rest IH]; intros s0 H; [injection H as <-; apply cfr_refl|].
  fc_bind H cn Ecn. fc_bind H s1 E1. eapply cfr_trans; [|apply IH; exact H].
  clear H Ecn IH. revert s0 E1. generalize (bch cn).
  induction l as [|g tl IH]; intros s0 H; [injection H as <-; apply cfr_refl|].
  fc_bind H gn Egn. destruct (bkind_eqb (bk gn) BParagraph) eqn:Ek; [|apply IH; exact H].
  destruct (new_node s0 _) as [s2 t] eqn:En. fc_bind H h2 Eh2.
  eapply cfr_trans; [|apply IH; exact H]. norm_st.
  assert (nk (s_h s0) g) as Ng.
  { apply hget_ok in Egn. intros m Em. assert (m = gn) by congruence. subst m.
    destruct (bk gn); cbn in Ek; discriminate. }
  cfr_go2.
Qed.

End F0.

(* ---------- the four statements, over all twelve tables ---------- *)
Section F.
Variable space_table punct_table : list N.
Variable norm : bytes -> bytes.
Variable re_t1o re_t1c re_t2 re_t3 re_t4 re_t5 re_t6 re_t7 : re.
Variable allowed_tags : list bytes.
Notation p_open := (p_open space_table re_t1o re_t2 re_t3 re_t4 re_t5 re_t6 re_t7 allowed_tags).
Notation p_continue := (p_continue space_table re_t1c).
Notation p_close := (p_close space_table).
Notation transform_paragraph := (transform_paragraph space_table punct_table norm).

Lemma p_open_cfr bp s parent s' o : p_open bp s parent = Ok (s', o) -> cfr (s_h s) (s_h s').
Proof using All.
  destruct bp; cbn [BlockParse.p_open]; intros H.
  - eapply setext_open_cfr; exact H.
  - eapply thematic_open_cfr; exact H.
  - eapply list_open_cfr; exact H.
  - eapply list_item_open_s_cfr; exact H.
  - eapply code_open_cfr; exact H.
  - eapply atx_open_s_cfr; exact H.
  - eapply fenced_open_cfr; exact H.
  - eapply bq_open_cfr; exact H.
  - eapply html_open_cfr; exact H.
  - eapply paragraph_open_cfr; exact H.
Qed.

Lemma p_continue_cfr bp s node s' c k :
  (forall n, nth_error (s_h s) node = Some n -> bk n = pkind bp) ->
  p_continue bp s node = Ok (s', c, k) -> cfr (s_h s) (s_h s').
Proof using All.
  destruct bp; cbn [BlockParse.p_continue pkind]; intros Hk H;
    try (injection H as <- <- <-; apply cfr_refl);
    fc_bind H x Ex; destruct x as [s1 b1]; injection H as <- <- <-; cbn [fst].
  - eapply list_continue_cfr; exact Ex.
  - eapply list_item_continue_cfr; exact Ex.
  - eapply code_continue_cfr; exact Ex.
  - eapply fenced_continue_cfr; exact Ex.
  - eapply bq_continue_cfr; exact Ex.
  - eapply html_continue_cfr; [exact Hk|exact Ex].
  - eapply paragraph_continue_cfr; exact Ex.
Qed.

Lemma p_close_cfr bp s node s' :
  (forall n, nth_error (s_h s) node = Some n -> bk n = pkind bp) ->
  (forall tmp t, bp = PSetext -> c_tmp_para (s_c s) = Some tmp -> nth_error (s_h s) tmp = Some t -> bk t = BParagraph) ->
  p_close bp s node = Ok s' -> cfr (s_h s) (s_h s').
Proof using All.
  destruct bp; cbn [BlockParse.p_close pkind]; intros Hk Ht H; try (injection H as <-; apply cfr_refl).
  - eapply setext_close_cfr; [exact Hk| |exact H]. intros tmp t. apply Ht. reflexivity.
  - eapply list_close_cfr; exact H.
  - eapply code_close_cfr; exact H.
  - eapply fenced_close_cfr; exact H.
  - eapply paragraph_close_cfr; [exact Hk|exact H].
Qed.

Lemma transform_paragraph_cfr s node s' g :
  (forall n, nth_error (s_h s) node = Some n -> bk n = BParagraph) ->
  transform_paragraph s node = Ok (s', g) -> cfr (s_h s) (s_h s').
Proof using All.
  intros Hk H. eapply transform_paragraph_cfr0; [exact Hk|exact H].
Qed.

End F.
