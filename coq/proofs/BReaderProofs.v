(* C18, block reader: the blockReader of model/Reader.v behaves as the cursor of model/ReaderSpec.v.

   Changes made while machine-checking (statements / invariant):

   1. BInv (model/ReaderSpec.v, block-reader part) got one new field
        bi_bounds : (b_segs r = [] /\ s_start (b_pos r) = -1 /\ b_head r = -1) \/
                    (b_segs r <> [] /\ 0 <= b_head r /\ 0 <= s_start (b_pos r) <= zlen (b_src r)).
      Why: the original BInv said nothing about the position once the reader has run off the
      block (b_line >= number of lines) - bi_pos is vacuous there - so it allowed states with
      s_start (b_pos r) = -1 over a non-empty block, which SetPosition treats as the marker
      "go to the start of the line" and does not restore.  The field records what the code
      really maintains (position and head stay inside the source; over an empty block the
      position keeps the marker -1 and the head is -1).  It also makes LineOffset total.

   2. b_set_position_restores: added the precondition  (b_segs r <> [] \/ b_pos r = pos).
      The statement as given is false over an empty block.  Counterexample (checked with
      vm_compute): src = "abc", segs = [];  r0 = new_block_reader src [] has
      Position = (0, {start=-1, stop=-1, pad=0});  r = b_set_padding r0 3 (BInv holds);
      b_set_position r 0 (b_pos r0) = Ok r' with b_position r' = (0, {start=-1, stop=-1, pad=3}):
      because pos.Start = -1 is the marker and line 0 >= 0 lines, the position is left
      untouched, so the padding 3 survives.  With a non-empty block (or when the reader's
      position already is pos, the case FindClosure needs) the law holds.

   3. b_line_offset_is_column: the hypothesis  b_in_range r = true  was dropped (the theorem is
      stronger: with bi_bounds LineOffset never panics, in range or not).

   All other statements are proved as given.  Added: b_set_position_total (SetPosition never
   panics for a line number >= 0) and b_find_closure_inv (FindClosure preserves the invariant,
   source and lines also when it advances). *)
Require Import GM.model.Base GM.model.Util GM.model.Reader GM.model.ReaderSpec.
From Coq Require Import ZArith Lia ZifyBool List.
Open Scope Z_scope.

(* ---------- lists, sub, slice ---------- *)
Lemma zlen_nonneg {A} (l : list A) : 0 <= zlen l.
Proof. unfold zlen. lia. Qed.
Lemma zlen_app {A} (a b : list A) : zlen (a ++ b) = zlen a + zlen b.
Proof. unfold zlen. rewrite app_length. lia. Qed.
Lemma zlen_cons {A} (x : A) (l : list A) : zlen (x :: l) = 1 + zlen l.
Proof. unfold zlen. cbn [length]. lia. Qed.
Lemma zlen_nil {A} : zlen (@nil A) = 0.
Proof. reflexivity. Qed.

Lemma skipn_skipn_add {A} (x y : nat) (l : list A) : skipn x (skipn y l) = skipn (y + x) l.
Proof.
  revert l. induction y as [|y IH]; intros l.
  - reflexivity.
  - destruct l as [|a l].
    + cbn. destruct x; reflexivity.
    + cbn [skipn Nat.add]. apply IH.
Qed.

Lemma skipn_nth_cons {A} (d : A) (n : nat) (l : list A) :
  (n < length l)%nat -> skipn n l = nth n l d :: skipn (S n) l.
Proof.
  revert l. induction n as [|n IH]; intros [|a l] Hn; cbn [length] in Hn; try lia.
  - reflexivity.
  - cbn [skipn nth]. rewrite (IH l) by lia. reflexivity.
Qed.

Lemma skipn_nth_error_cons {A} (n : nat) (l : list A) (x : A) :
  nth_error l n = Some x -> skipn n l = x :: skipn (S n) l.
Proof.
  revert l. induction n as [|n IH]; intros [|a l] Hn; cbn in Hn; try discriminate.
  - inversion Hn. reflexivity.
  - cbn [skipn]. rewrite (IH l Hn). reflexivity.
Qed.

Lemma sub_length src a b : 0 <= a -> a <= b -> b <= zlen src -> zlen (sub src a b) = b - a.
Proof.
  intros Ha Hab Hb. unfold sub, zlen in *. rewrite firstn_length, skipn_length. lia.
Qed.

Lemma sub_empty src a b : b <= a -> sub src a b = [].
Proof. intros H. unfold sub. replace (Z.to_nat (b - a)) with O by lia. reflexivity. Qed.

Lemma slice_ok src a b : 0 <= a -> a <= b -> b <= zlen src -> slice src a b = Ok (sub src a b).
Proof.
  intros Ha Hab Hb. unfold slice, sub.
  replace ((0 <=? a) && (a <=? b) && (b <=? zlen src)) with true by lia. reflexivity.
Qed.

Lemma sub_cons src a b : 0 <= a -> a < b -> a < zlen src ->
  sub src a b = nth (Z.to_nat a) src 0%N :: sub src (a + 1) b.
Proof.
  intros Ha Hab Hl. unfold sub.
  rewrite (skipn_nth_cons 0%N) by (unfold zlen in Hl; lia).
  replace (Z.to_nat (b - a)) with (S (Z.to_nat (b - (a + 1)))) by lia.
  cbn [firstn]. replace (Z.to_nat (a + 1)) with (S (Z.to_nat a)) by lia. reflexivity.
Qed.

Lemma sub_skipn src a b n : 0 <= a -> 0 <= n ->
  skipn (Z.to_nat n) (sub src a b) = sub src (a + n) b.
Proof.
  intros Ha Hn. unfold sub. rewrite skipn_firstn_comm, skipn_skipn_add.
  f_equal; [lia | f_equal; lia].
Qed.

Lemma spaces_n_S p : 0 < p -> spaces_n p = 32%N :: spaces_n (p - 1).
Proof.
  intros Hp. unfold spaces_n. replace (Z.to_nat p) with (S (Z.to_nat (p - 1))) by lia. reflexivity.
Qed.
Lemma spaces_n_0 p : p <= 0 -> spaces_n p = [].
Proof. intros Hp. unfold spaces_n. replace (Z.to_nat p) with O by lia. reflexivity. Qed.

(* ---------- segment lists ---------- *)
Definition last_stop (l : list seg) : Z := match rev l with [] => 0 | x :: _ => s_stop x end.

Lemma rev_nil_inv {A} (l : list A) : rev l = [] -> l = [].
Proof. intros H. apply (f_equal (@rev A)) in H. rewrite rev_involutive in H. exact H. Qed.

Lemma last_stop_cons a l : l <> [] -> last_stop (a :: l) = last_stop l.
Proof.
  intros Hl. unfold last_stop. cbn [rev]. destruct (rev l) as [|x xs] eqn:E.
  - exfalso. apply Hl. apply rev_nil_inv. exact E.
  - reflexivity.
Qed.

Lemma last_stop_app pre l : l <> [] -> last_stop (pre ++ l) = last_stop l.
Proof.
  intros Hl. induction pre as [|a pre IH].
  - reflexivity.
  - cbn [app]. rewrite last_stop_cons.
    + exact IH.
    + destruct pre; cbn; [exact Hl | discriminate].
Qed.

Lemma segs_ok_cons_inv src a l : segs_ok src (a :: l) -> seg_ok src a /\ segs_ok src l.
Proof.
  intros [HF HS]. inversion HF as [|x xs Ha Hl]; subst. split; [exact Ha|].
  split; [exact Hl|]. destruct l as [|b l]; [exact I | exact (proj2 HS)].
Qed.

Lemma segs_ok_app_inv src pre l : segs_ok src (pre ++ l) -> segs_ok src l.
Proof.
  induction pre as [|a pre IH]; intros H.
  - exact H.
  - apply IH. cbn [app] in H. apply segs_ok_cons_inv in H. exact (proj2 H).
Qed.

Lemma stop_le_last src post : forall s, segs_ok src (s :: post) -> s_stop s <= last_stop (s :: post).
Proof.
  induction post as [|t post IH]; intros s H.
  - unfold last_stop. cbn. lia.
  - rewrite last_stop_cons by discriminate.
    pose proof (segs_ok_cons_inv _ _ _ H) as [_ Ht].
    pose proof (IH t Ht) as Hle.
    destruct H as [_ HS]. cbn in HS. destruct HS as [Hst _].
    destruct Ht as [HF _]. inversion HF as [|x xs Hx _]; subst.
    unfold seg_ok in Hx. lia.
Qed.

Lemma stop_lt_last src s t post : segs_ok src (s :: t :: post) -> s_stop s < last_stop (s :: t :: post).
Proof.
  intros H. rewrite last_stop_cons by discriminate.
  pose proof (segs_ok_cons_inv _ _ _ H) as [_ Ht].
  pose proof (stop_le_last _ _ _ Ht) as Hle.
  destruct H as [_ HS]. cbn in HS. destruct HS as [Hst _].
  destruct Ht as [HF _]. inversion HF as [|x xs Hx _]; subst.
  unfold seg_ok in Hx. lia.
Qed.

Lemma nth_facts src l k s : segs_ok src l -> nth_error l k = Some s ->
  exists pre post, l = pre ++ s :: post /\ length pre = k /\ seg_ok src s /\
    s_stop s <= last_stop l /\
    (post <> [] -> s_stop s < last_stop l) /\ (post = [] -> s_stop s = last_stop l).
Proof.
  intros Hok Hn. destruct (nth_error_split _ _ Hn) as (pre & post & El & Elen).
  exists pre, post. split; [exact El|]. split; [exact Elen|].
  subst l. pose proof (segs_ok_app_inv _ _ _ Hok) as Hs.
  rewrite last_stop_app by discriminate.
  split; [exact (proj1 (segs_ok_cons_inv _ _ _ Hs))|].
  split; [exact (stop_le_last _ _ _ Hs)|].
  split.
  - intros Hp. destruct post as [|t post]; [congruence|]. exact (stop_lt_last _ _ _ _ Hs).
  - intros Hp. subst post. unfold last_stop. reflexivity.
Qed.

Lemma seg_at_ok l i s : 0 <= i -> nth_error l (Z.to_nat i) = Some s -> seg_at l i = Ok s.
Proof.
  intros Hi Hn. unfold seg_at.
  assert (Hlt : (Z.to_nat i < length l)%nat) by (apply nth_error_Some; congruence).
  replace ((0 <=? i) && (i <? zlen l)) with true by (unfold zlen; lia).
  rewrite Hn. reflexivity.
Qed.

Lemma nth_error_ex {A} (l : list A) i : 0 <= i < zlen l -> exists s, nth_error l (Z.to_nat i) = Some s.
Proof.
  intros Hi. destruct (nth_error l (Z.to_nat i)) as [s|] eqn:E.
  - exists s. reflexivity.
  - apply nth_error_None in E. unfold zlen in Hi. lia.
Qed.

(* ---------- reader-level facts ---------- *)
Ltac bsimpl := cbn [b_src b_segs b_line b_pos b_head b_last b_loff bset_pos bset_line bset_head
  bset_loff bset_last s_start s_stop s_pad s_fnl mkseg mksegp bind b_position fst snd] in *.

Lemma in_range_true r : b_in_range r = true ->
  b_line r < zlen (b_segs r) /\ 0 <= s_start (b_pos r) < b_last r.
Proof. unfold b_in_range, b_nsegs. lia. Qed.

Lemma in_range_iff r : b_in_range r = true <->
  (b_line r < zlen (b_segs r) /\ 0 <= s_start (b_pos r) < b_last r).
Proof. unfold b_in_range, b_nsegs. lia. Qed.

Lemma in_range_false_intro r :
  ~ (b_line r < zlen (b_segs r) /\ 0 <= s_start (b_pos r) < b_last r) -> b_in_range r = false.
Proof. unfold b_in_range, b_nsegs. lia. Qed.

Lemma b_rest_in r : b_in_range r = true ->
  b_rest r = b_view r ++ flat_map (seg_bytes (b_src r)) (skipn (Z.to_nat (b_line r + 1)) (b_segs r)).
Proof. intros H. unfold b_rest. unfold b_in_range in H. rewrite H. reflexivity. Qed.

Lemma b_rest_out r : b_in_range r = false -> b_rest r = [].
Proof. intros H. unfold b_rest. unfold b_in_range in H. rewrite H. reflexivity. Qed.

Lemma binv_last r : BInv r -> b_last r = last_stop (b_segs r).
Proof. intros H. exact (bi_last r H). Qed.

(* the current line, when the reader is on a line of the block *)
Lemma binv_cur r : BInv r -> b_line r < zlen (b_segs r) ->
  exists s pre post,
    nth_error (b_segs r) (Z.to_nat (b_line r)) = Some s /\
    b_segs r = pre ++ s :: post /\ zlen pre = b_line r /\ seg_ok (b_src r) s /\
    s_start s <= s_start (b_pos r) <= s_stop s /\ s_stop (b_pos r) = s_stop s /\
    b_head r = s_start s /\
    (s_start (b_pos r) = s_stop s -> s_stop s = b_last r) /\
    s_stop s <= b_last r /\ (post <> [] -> s_stop s < b_last r) /\ (post = [] -> s_stop s = b_last r).
Proof.
  intros H Hl. pose proof (bi_line r H) as H0.
  destruct (nth_error_ex (b_segs r) (b_line r) (conj H0 Hl)) as [s Hs].
  destruct (nth_facts _ _ _ _ (bi_segs r H) Hs) as (pre & post & El & Elen & Hok & Hle & Hlt & Heq).
  rewrite <- (binv_last r H) in Hle, Hlt, Heq.
  destruct (bi_pos r H s Hs) as (Ha & Hb & Hc & Hd).
  exists s, pre, post. unfold seg_ok in *.
  repeat split; try assumption; try lia; try (unfold zlen; lia); try apply Hok.
Qed.

(* in range: additionally start < stop *)
Lemma binv_in r : BInv r -> b_in_range r = true ->
  exists s pre post,
    nth_error (b_segs r) (Z.to_nat (b_line r)) = Some s /\
    b_segs r = pre ++ s :: post /\ zlen pre = b_line r /\ seg_ok (b_src r) s /\
    s_start s <= s_start (b_pos r) /\ s_start (b_pos r) < s_stop (b_pos r) /\ s_stop (b_pos r) = s_stop s /\
    b_head r = s_start s /\
    s_stop s <= b_last r /\ (post <> [] -> s_stop s < b_last r) /\ (post = [] -> s_stop s = b_last r).
Proof.
  intros H Hin. apply in_range_true in Hin. destruct Hin as [Hl Hs].
  destruct (binv_cur r H Hl) as (s & pre & post & Hn & El & Elen & Hok & Ha & Hb & Hc & Hd & Hle & Hlt & Heq).
  exists s, pre, post. unfold seg_ok in *.
  repeat split; try assumption; try lia; try apply Hok.
Qed.

Lemma skipn_next r s pre post : b_segs r = pre ++ s :: post -> zlen pre = b_line r ->
  skipn (Z.to_nat (b_line r + 1)) (b_segs r) = post.
Proof.
  intros El Elen. rewrite El. unfold zlen in Elen.
  replace (Z.to_nat (b_line r + 1)) with (length pre + 1)%nat by lia.
  rewrite <- skipn_skipn_add. rewrite skipn_app, skipn_all, Nat.sub_diag. reflexivity.
Qed.

Lemma view_length r : BInv r -> b_in_range r = true ->
  zlen (b_view r) = s_pad (b_pos r) + (s_stop (b_pos r) - s_start (b_pos r)).
Proof.
  intros H Hin. destruct (binv_in r H Hin) as (s & pre & post & Hn & El & Elen & Hok & Ha & Hb & Hc & Hd & Hle & Hlt & Heq).
  unfold b_view. rewrite zlen_app. unfold seg_ok in Hok. rewrite sub_length by lia.
  pose proof (bi_pad r H). unfold spaces_n, zlen. rewrite repeat_length. lia.
Qed.

(* ---------- PeekLine, Peek ---------- *)
Lemma b_peek_line_view r : BInv r ->
  b_peek_line r = Ok (r, (if b_in_range r then Some (b_view r) else None), b_pos r).
Proof.
  intros H. unfold b_peek_line. destruct (b_in_range r) eqn:Hin; [|reflexivity].
  destruct (binv_in r H Hin) as (s & pre & post & Hn & El & Elen & Hok & Ha & Hb & Hc & Hd & Hle & Hlt & Heq).
  unfold seg_ok in Hok. pose proof (bi_pad r H) as Hp. pose proof (bi_fnl r H) as Hf.
  unfold seg_value. rewrite slice_ok by lia. cbn [bind]. rewrite Hf.
  replace (s_pad (b_pos r) <? 0) with false by lia.
  unfold b_view. destruct (Z.eqb_spec (s_pad (b_pos r)) 0) as [E|E].
  - rewrite E. reflexivity.
  - reflexivity.
Qed.

Lemma b_peek_head r : BInv r ->
  b_peek r = Ok (if b_in_range r then hd 255%N (b_view r) else 255%N).
Proof.
  intros H. unfold b_peek. destruct (b_in_range r) eqn:Hin; [|reflexivity].
  destruct (binv_in r H Hin) as (s & pre & post & Hn & El & Elen & Hok & Ha & Hb & Hc & Hd & Hle & Hlt & Heq).
  unfold seg_ok in Hok. pose proof (bi_pad r H) as Hp.
  unfold b_view. destruct (Z.eqb_spec (s_pad (b_pos r)) 0) as [E|E]; cbn [negb].
  - unfold at_. replace ((0 <=? s_start (b_pos r)) && (s_start (b_pos r) <? zlen (b_src r))) with true by lia.
    rewrite E. change (spaces_n 0) with (@nil N). cbn [app]. rewrite sub_cons by lia. reflexivity.
  - rewrite spaces_n_S by lia. reflexivity.
Qed.

(* ---------- rebuilding the invariant ---------- *)
Lemma binv_set_loff r : BInv r -> BInv (bset_loff r (-1)).
Proof.
  intros [Hsegs Hlast Hline Hpad Hfnl Hpos Hb Hloff]. constructor; bsimpl; try assumption.
  intros C. exfalso. apply C. reflexivity.
Qed.

Lemma binv_set_pos r p : BInv r -> b_loff r = -1 ->
  0 <= s_pad p -> s_fnl p = false -> s_stop p = s_stop (b_pos r) ->
  (forall s, nth_error (b_segs r) (Z.to_nat (b_line r)) = Some s ->
     s_start s <= s_start p <= s_stop s /\ (s_start p = s_stop s -> s_stop s = b_last r)) ->
  (b_segs r <> [] -> 0 <= s_start p <= zlen (b_src r)) ->
  (b_segs r = [] -> s_start p = -1) ->
  BInv (bset_pos r p).
Proof.
  intros [Hsegs Hlast Hline Hpad Hfnl Hpos Hb Hloff] Hl Hp Hf Hst Hcur Hne He.
  constructor; bsimpl; try assumption.
  - intros s Hs. destruct (Hpos s Hs) as (Ha & Hb' & Hc & Hd). destruct (Hcur s Hs) as [Hx Hy].
    repeat split; try lia; auto.
  - destruct Hb as [(E & E1 & E2)|(E & E1 & E2)].
    + left. repeat split; auto.
    + right. repeat split; auto; apply Hne; exact E.
  - intros C. exfalso. apply C. exact Hl.
Qed.

(* ---------- SetPadding ---------- *)
Lemma b_set_padding_binv r v : BInv r -> 0 <= v -> BInv (b_set_padding r v).
Proof.
  intros H Hv. unfold b_set_padding.
  apply binv_set_pos; bsimpl; try reflexivity; try exact Hv.
  - apply binv_set_loff. exact H.
  - exact (bi_fnl r H).
  - intros s Hs. destruct (bi_pos r H s Hs) as (Ha & Hb & Hc & Hd). split; [lia | exact Hd].
  - intros Hne. destruct (bi_bounds r H) as [(E & E1 & E2)|(E & E1 & E2)]; [contradiction | lia].
  - intros He. destruct (bi_bounds r H) as [(E & E1 & E2)|(E & E1 & E2)]; [lia | contradiction].
Qed.

(* ---------- AdvanceLine ---------- *)
Lemma b_advance_line_spec r : BInv r ->
  exists r', b_advance_line r = Ok r' /\ BInv r' /\ b_src r' = b_src r /\ b_segs r' = b_segs r /\
    b_loff r' = -1 /\ b_line r' = b_line r + 1 /\
    (b_in_range r = true -> b_rest r' = skipn (length (b_view r)) (b_rest r)).
Proof.
  intros H. pose proof (bi_line r H) as H0.
  unfold b_advance_line, b_set_position.
  change (s_start (mkseg (-1) (-1)) =? -1) with true. cbv iota. unfold b_nsegs. bsimpl.
  destruct (Z.ltb_spec (b_line r + 1) (zlen (b_segs r))) as [Hlt|Hge].
  - destruct (nth_error_ex (b_segs r) (b_line r + 1)) as [t Ht]; [lia|].
    rewrite (seg_at_ok _ _ t) by (try lia; exact Ht). bsimpl.
    destruct (nth_facts _ _ _ _ (bi_segs r H) Ht) as (pre' & post' & El' & Elen' & Hok' & Hle' & _ & _).
    rewrite <- (binv_last r H) in Hle'. unfold seg_ok in Hok'.
    eexists. split; [reflexivity|].
    assert (Hne : b_segs r <> []).
    { intros E. rewrite E in Ht. destruct (Z.to_nat (b_line r + 1)); discriminate. }
    split; [|split; [reflexivity|split; [reflexivity|split; [reflexivity|split; [reflexivity|]]]]].
    + destruct H as [Hsegs Hlast Hline Hpad Hfnl Hpos Hb Hloff]. constructor; bsimpl; try assumption; try lia.
      * intros s Hs. rewrite Ht in Hs. inversion Hs; subst s. repeat split; try lia.
      * right. repeat split; try assumption; lia.
    + intros Hin. rewrite (b_rest_in r Hin).
      rewrite skipn_app, skipn_all, Nat.sub_diag. cbn [app skipn].
      rewrite (skipn_nth_error_cons _ _ _ Ht). cbn [flat_map].
      rewrite b_rest_in.
      * bsimpl. unfold b_view, seg_bytes. bsimpl.
        replace (Z.to_nat (b_line r + 1 + 1)) with (S (Z.to_nat (b_line r + 1))) by lia. reflexivity.
      * apply in_range_iff. bsimpl. lia.
  - eexists. split; [reflexivity|].
    split; [|split; [reflexivity|split; [reflexivity|split; [reflexivity|split; [reflexivity|]]]]].
    + destruct H as [Hsegs Hlast Hline Hpad Hfnl Hpos Hb Hloff]. constructor; bsimpl; try assumption; try lia.
      * intros s Hs. exfalso.
        assert (Hn : nth_error (b_segs r) (Z.to_nat (b_line r + 1)) <> None) by congruence.
        apply nth_error_Some in Hn. unfold zlen in Hge. lia.
      * destruct Hb as [(E & E1 & E2)|(E & E1 & E2)].
        -- left. repeat split; auto.
        -- right. repeat split; auto; lia.
    + intros Hin. rewrite (b_rest_in r Hin).
      rewrite skipn_app, skipn_all, Nat.sub_diag. cbn [app skipn].
      rewrite skipn_all2 by (unfold zlen in Hge; lia). cbn [flat_map].
      apply b_rest_out. apply in_range_true in Hin.
      destruct (b_in_range _) eqn:E; [|reflexivity].
      apply in_range_true in E. bsimpl. lia.
Qed.

(* ---------- Advance ---------- *)
Definition b_step (r : breader) : result breader :=
  if negb (s_pad (b_pos r) =? 0) then
    Ok (bset_pos r {| s_start := s_start (b_pos r); s_stop := s_stop (b_pos r); s_pad := s_pad (b_pos r) - 1; s_fnl := s_fnl (b_pos r) |})
  else if (s_stop (b_pos r) - 1 <=? s_start (b_pos r)) && (s_stop (b_pos r) <? b_last r) then
    b_advance_line r
  else
    Ok (bset_pos r {| s_start := s_start (b_pos r) + 1; s_stop := s_stop (b_pos r); s_pad := s_pad (b_pos r); s_fnl := s_fnl (b_pos r) |}).

Lemma b_advance_slow_step f r n :
  b_advance_slow (S f) r n = if 0 <? n then (r1 <- b_step r ;; b_advance_slow f r1 (n - 1)) else Ok r.
Proof.
  cbn [b_advance_slow]. unfold b_step.
  destruct (0 <? n); [|reflexivity].
  destruct (negb (s_pad (b_pos r) =? 0)); [reflexivity|].
  destruct ((s_stop (b_pos r) - 1 <=? s_start (b_pos r)) && (s_stop (b_pos r) <? b_last r)); reflexivity.
Qed.

Lemma b_step_spec r : BInv r -> b_loff r = -1 -> b_in_range r = true ->
  exists r1, b_step r = Ok r1 /\ BInv r1 /\ b_loff r1 = -1 /\ b_src r1 = b_src r /\ b_segs r1 = b_segs r /\
    b_rest r1 = skipn 1 (b_rest r).
Proof.
  intros H Hl Hin.
  destruct (binv_in r H Hin) as (s & pre & post & Hn & El & Elen & Hok & Ha & Hb & Hc & Hd & Hle & Hlt & Heq).
  unfold seg_ok in Hok. pose proof (bi_pad r H) as Hp. pose proof (bi_fnl r H) as Hf.
  pose proof (in_range_true r Hin) as [Hi1 Hi2].
  assert (Hne : b_segs r <> []) by (rewrite El; destruct pre; discriminate).
  unfold b_step.
  destruct (Z.eqb_spec (s_pad (b_pos r)) 0) as [E|E]; cbn [negb].
  - destruct (Z.leb_spec (s_stop (b_pos r) - 1) (s_start (b_pos r))) as [E1|E1]; cbn [andb].
    + destruct (Z.ltb_spec (s_stop (b_pos r)) (b_last r)) as [E2|E2].
      * (* last byte of a non-last line: next line *)
        destruct (b_advance_line_spec r H) as (r1 & Hr1 & Hinv & Hsrc & Hsegs & Hloff & _ & Hrest).
        exists r1. split; [exact Hr1|]. split; [exact Hinv|]. split; [exact Hloff|].
        split; [exact Hsrc|]. split; [exact Hsegs|].
        rewrite (Hrest Hin). f_equal.
        pose proof (view_length r H Hin) as Hvl. unfold zlen in Hvl. lia.
      * (* last byte of the last line *)
        eexists. split; [reflexivity|].
        split; [|split; [exact Hl|split; [reflexivity|split; [reflexivity|]]]].
        -- apply binv_set_pos; bsimpl; try assumption; try reflexivity; try lia; try (intro; contradiction).
           intros s' Hs'. rewrite Hn in Hs'. inversion Hs'; subst s'. split; lia.
        -- rewrite (b_rest_in r Hin). unfold b_view. rewrite E. change (spaces_n 0) with (@nil N). cbn [app].
           rewrite sub_cons by lia. cbn [app skipn].
           rewrite (skipn_next r s pre post El Elen).
           assert (Hpost : post = []) by (destruct post; [reflexivity | exfalso; assert (s_stop s < b_last r) by (apply Hlt; discriminate); lia]).
           subst post. cbn [flat_map]. rewrite sub_empty by lia. cbn [app].
           apply b_rest_out, in_range_false_intro. bsimpl. lia.
    + (* inside the line *)
      eexists. split; [reflexivity|].
      split; [|split; [exact Hl|split; [reflexivity|split; [reflexivity|]]]].
      * apply binv_set_pos; bsimpl; try assumption; try reflexivity; try lia; try (intro; contradiction).
        intros s' Hs'. rewrite Hn in Hs'. inversion Hs'; subst s'. split; lia.
      * rewrite (b_rest_in r Hin). unfold b_view. rewrite E. change (spaces_n 0) with (@nil N). cbn [app].
        rewrite sub_cons by lia. cbn [app skipn].
        rewrite b_rest_in by (apply in_range_iff; bsimpl; lia).
        unfold b_view. bsimpl. reflexivity.
  - (* consume one padding space *)
    eexists. split; [reflexivity|].
    split; [|split; [exact Hl|split; [reflexivity|split; [reflexivity|]]]].
    + apply binv_set_pos; bsimpl; try assumption; try reflexivity; try lia; try (intro; contradiction).
      intros s' Hs'. rewrite Hn in Hs'. inversion Hs'; subst s'. split; lia.
    + rewrite (b_rest_in r Hin). unfold b_view. rewrite spaces_n_S by lia. cbn [app skipn].
      rewrite b_rest_in by (apply in_range_iff; bsimpl; lia).
      unfold b_view. bsimpl. reflexivity.
Qed.

Lemma b_advance_slow_spec : forall fuel r n, BInv r -> b_loff r = -1 ->
  0 <= n <= zlen (b_rest r) -> n < Z.of_nat fuel ->
  exists r', b_advance_slow fuel r n = Ok r' /\ BInv r' /\ b_src r' = b_src r /\ b_segs r' = b_segs r /\
    b_rest r' = skipn (Z.to_nat n) (b_rest r).
Proof.
  induction fuel as [|f IH]; intros r n H Hl Hn Hf; [lia|].
  rewrite b_advance_slow_step. destruct (Z.ltb_spec 0 n) as [Hpos|Hz].
  - assert (Hin : b_in_range r = true).
    { destruct (b_in_range r) eqn:E; [reflexivity|]. rewrite (b_rest_out r E) in Hn. unfold zlen in Hn. cbn [length] in Hn. lia. }
    destruct (b_step_spec r H Hl Hin) as (r1 & Hr1 & Hinv1 & Hl1 & Hsrc1 & Hsegs1 & Hrest1).
    rewrite Hr1. cbn [bind].
    destruct (IH r1 (n - 1) Hinv1 Hl1) as (r' & Hr' & Hinv' & Hsrc' & Hsegs' & Hrest'); [|lia|].
    + rewrite Hrest1. unfold zlen in *. rewrite skipn_length. lia.
    + exists r'. split; [exact Hr'|]. split; [exact Hinv'|]. split; [congruence|]. split; [congruence|].
      rewrite Hrest', Hrest1, skipn_skipn_add. f_equal. lia.
  - exists r. replace (Z.to_nat n) with O by lia.
    split; [reflexivity|]. split; [exact H|]. split; [reflexivity|]. split; reflexivity.
Qed.

Lemma b_rest_set_loff r v : b_rest (bset_loff r v) = b_rest r.
Proof. reflexivity. Qed.

Lemma b_advance_spec r n : BInv r -> 0 <= n <= zlen (b_rest r) ->
  exists r', b_advance r n = Ok r' /\ BInv r' /\ b_src r' = b_src r /\ b_segs r' = b_segs r /\
             b_rest r' = skipn (Z.to_nat n) (b_rest r).
Proof.
  intros H Hn. unfold b_advance.
  pose proof (binv_set_loff r H) as H1.
  set (r0 := bset_loff r (-1)) in *.
  assert (Hl0 : b_loff r0 = -1) by reflexivity.
  change (b_rest r) with (b_rest r0) in *. change (b_src r) with (b_src r0). change (b_segs r) with (b_segs r0).
  clearbody r0. clear H r.
  destruct ((n <? s_stop (b_pos r0) - s_start (b_pos r0)) && (s_pad (b_pos r0) =? 0)) eqn:Efast.
  - assert (Ef : n < s_stop (b_pos r0) - s_start (b_pos r0) /\ s_pad (b_pos r0) = 0) by lia.
    destruct Ef as [Ef1 Ef2].
    eexists. split; [reflexivity|].
    destruct (b_in_range r0) eqn:Hin.
    + destruct (binv_in r0 H1 Hin) as (s & pre & post & Hnth & El & Elen & Hok & Ha & Hb & Hc & Hd & Hle & Hlt & Heq).
      unfold seg_ok in Hok. pose proof (bi_fnl r0 H1) as Hf.
      pose proof (in_range_true r0 Hin) as [Hi1 Hi2].
      assert (Hne : b_segs r0 <> []) by (rewrite El; destruct pre; discriminate).
      split; [|split; [reflexivity|split; [reflexivity|]]].
      * apply binv_set_pos; bsimpl; try assumption; try reflexivity; try lia; try (intro; contradiction).
        intros s' Hs'. rewrite Hnth in Hs'. inversion Hs'; subst s'. split; lia.
      * rewrite (b_rest_in r0 Hin). rewrite b_rest_in by (apply in_range_iff; bsimpl; lia).
        unfold b_view. bsimpl. rewrite Ef2. change (spaces_n 0) with (@nil N). cbn [app].
        rewrite skipn_app. rewrite sub_skipn by lia.
        replace (Z.to_nat n - length (sub (b_src r0) (s_start (b_pos r0)) (s_stop (b_pos r0))))%nat with O.
        -- reflexivity.
        -- pose proof (sub_length (b_src r0) (s_start (b_pos r0)) (s_stop (b_pos r0))) as Hsl. unfold zlen in *. lia.
    + rewrite (b_rest_out r0 Hin) in *. unfold zlen in Hn. cbn [length] in Hn. assert (n = 0) by lia. subst n.
      pose proof (bi_pad r0 H1) as Hp. pose proof (bi_fnl r0 H1) as Hf.
      split; [|split; [reflexivity|split; [reflexivity|]]].
      * apply binv_set_pos; bsimpl; try assumption; try reflexivity; try lia.
        -- intros s' Hs'. destruct (bi_pos r0 H1 s' Hs') as (Ha & Hb & Hc & Hd). split; [lia|].
           intros Hx. apply Hd. lia.
        -- intros Hne. destruct (bi_bounds r0 H1) as [(E & E1 & E2)|(E & E1 & E2)]; [contradiction | lia].
        -- intros He. destruct (bi_bounds r0 H1) as [(E & E1 & E2)|(E & E1 & E2)]; [lia | contradiction].
      * cbn [skipn Z.to_nat]. apply b_rest_out, in_range_false_intro. bsimpl.
        intros Hx. assert (Hy : b_in_range r0 = true) by (apply in_range_iff; lia). congruence.
  - apply b_advance_slow_spec; try assumption; lia.
Qed.

(* ---------- SetPosition ---------- *)
Lemma nth_error_beyond {A} (l : list A) i s : zlen l <= i -> nth_error l (Z.to_nat i) = Some s -> False.
Proof.
  intros Hi Hs. assert (Hn : nth_error l (Z.to_nat i) <> None) by congruence.
  apply nth_error_Some in Hn. unfold zlen in Hi. lia.
Qed.

Lemma b_set_position_spec r line pos : BInv r -> b_saved_from (b_src r) (b_segs r) line pos ->
  (b_segs r <> [] \/ b_pos r = pos) ->
  exists r', b_set_position r line pos = Ok r' /\ BInv r' /\ b_src r' = b_src r /\ b_segs r' = b_segs r /\
             b_position r' = (line, pos).
Proof.
  intros H (r0 & H0 & Esrc & Esegs & Epos) Hor. unfold b_position in Epos. inversion Epos; subst line pos. clear Epos.
  pose proof (bi_line r0 H0) as Hline0. pose proof (bi_pad r0 H0) as Hpad0. pose proof (bi_fnl r0 H0) as Hfnl0.
  pose proof (bi_bounds r0 H0) as Hb0. pose proof (bi_bounds r H) as Hb.
  unfold b_set_position, b_nsegs. bsimpl.
  destruct (Z.eqb_spec (s_start (b_pos r0)) (-1)) as [Em|Em].
  - (* the marker -1: only over an empty block *)
    destruct Hb0 as [(E & E1 & E2)|(E & E1 & E2)]; [|lia].
    rewrite Esegs in E. assert (Hz : zlen (b_segs r) = 0) by (rewrite E; reflexivity).
    replace (b_line r0 <? zlen (b_segs r)) with false by lia.
    eexists. split; [reflexivity|].
    destruct Hor as [Hor|Hor]; [contradiction|].
    destruct Hb as [(F & F1 & F2)|(F & F1 & F2)]; [|contradiction].
    split; [|split; [reflexivity|split; [reflexivity|]]].
    + destruct H as [Hsegs Hlast Hline Hpad Hfnl Hpos Hbb Hloff]. constructor; bsimpl; try assumption.
      * intros s Hs. exfalso. rewrite E in Hs. destruct (Z.to_nat (b_line r0)); discriminate.
      * intros C. exfalso. apply C. reflexivity.
    + unfold b_position. bsimpl. rewrite Hor. reflexivity.
  - destruct (Z.ltb_spec (b_line r0) (zlen (b_segs r))) as [Hlt|Hge].
    + destruct (nth_error_ex (b_segs r) (b_line r0)) as [t Ht]; [lia|].
      rewrite (seg_at_ok _ _ t) by (try lia; exact Ht). bsimpl.
      destruct (nth_facts _ _ _ _ (bi_segs r H) Ht) as (pre' & post' & El' & Elen' & Hok' & _ & _ & _).
      unfold seg_ok in Hok'.
      assert (Hne : b_segs r <> []) by (rewrite El'; destruct pre'; discriminate).
      eexists. split; [reflexivity|].
      split; [|split; [reflexivity|split; [reflexivity|reflexivity]]].
      rewrite <- Esegs in Ht, Hne.
      destruct (bi_pos r0 H0 t Ht) as (Ha & Hb' & Hc & Hd).
      destruct Hb0 as [(E & E1 & E2)|(E & E1 & E2)]; [contradiction|].
      rewrite Esegs in Ht, Hne. rewrite Esrc in E2.
      pose proof (bi_last r0 H0) as Hlast0. rewrite Esegs in Hlast0.
      destruct H as [Hsegs Hlast Hline Hpad Hfnl Hpos Hbb Hloff]. constructor; bsimpl; try assumption.
      * intros s Hs. rewrite Ht in Hs. inversion Hs; subst s. repeat split; try lia.
      * right. repeat split; try assumption; lia.
      * intros C. exfalso. apply C. reflexivity.
    + eexists. split; [reflexivity|].
      split; [|split; [reflexivity|split; [reflexivity|reflexivity]]].
      destruct Hb0 as [(E & E1 & E2)|(E & E1 & E2)]; [lia|].
      rewrite Esegs in E. rewrite Esrc in E2.
      destruct Hb as [(F & F1 & F2)|(F & F1 & F2)]; [contradiction|].
      destruct H as [Hsegs Hlast Hline Hpad Hfnl Hpos Hbb Hloff]. constructor; bsimpl; try assumption.
      * intros s Hs. exfalso. exact (nth_error_beyond _ _ _ Hge Hs).
      * right. repeat split; try assumption; lia.
      * intros C. exfalso. apply C. reflexivity.
Qed.

(* SetPosition never panics for a non-negative line number *)
Lemma b_set_position_total r line pos : 0 <= line -> exists r', b_set_position r line pos = Ok r'.
Proof.
  intros Hl. unfold b_set_position, b_nsegs. bsimpl.
  destruct (s_start pos =? -1).
  - destruct (Z.ltb_spec line (zlen (b_segs r))) as [Hlt|Hge]; [|eexists; reflexivity].
    destruct (nth_error_ex (b_segs r) line) as [t Ht]; [lia|].
    rewrite (seg_at_ok _ _ t) by (try lia; exact Ht). eexists. reflexivity.
  - destruct (Z.ltb_spec line (zlen (b_segs r))) as [Hlt|Hge]; [|eexists; reflexivity].
    destruct (nth_error_ex (b_segs r) line) as [t Ht]; [lia|].
    rewrite (seg_at_ok _ _ t) by (try lia; exact Ht). eexists. reflexivity.
Qed.

(* ---------- LineOffset ---------- *)
Lemma b_line_offset_spec r : BInv r ->
  exists r', b_line_offset r = Ok (r', b_column r) /\ BInv r' /\ b_position r' = b_position r /\
             b_src r' = b_src r /\ b_segs r' = b_segs r.
Proof.
  intros H. unfold b_line_offset.
  destruct (Z.ltb_spec (b_loff r) 0) as [Hneg|Hpos].
  - assert (Hinv : forall o, o = b_column r -> BInv (bset_loff r o)).
    { intros o Ho. destruct H as [Hsegs Hlast Hline Hpad Hfnl Hpos Hbb Hloff]. constructor; bsimpl; try assumption.
      intros _. exact Ho. }
    destruct (Z.ltb_spec (b_head r) (s_start (b_pos r))) as [Hlt|Hge].
    + destruct (bi_bounds r H) as [(E & E1 & E2)|(E & E1 & E2)]; [lia|].
      rewrite slice_ok by lia. cbn [bind].
      eexists. split; [reflexivity|]. split; [apply Hinv; reflexivity|]. repeat split.
    + assert (Hc : 0 - s_pad (b_pos r) = b_column r).
      { unfold b_column. rewrite sub_empty by lia. reflexivity. }
      rewrite Hc. eexists. split; [reflexivity|]. split; [apply Hinv; reflexivity|]. repeat split.
  - rewrite (bi_loff r H) by lia. exists r. split; [reflexivity|]. split; [exact H|]. repeat split.
Qed.

(* ---------- Value ---------- *)
Lemma sorted_after src post : forall s t, segs_ok src (s :: post) -> In t post -> s_stop s <= s_start t.
Proof.
  induction post as [|u post IH]; intros s t Hok Hin; [destruct Hin|].
  pose proof (segs_ok_cons_inv _ _ _ Hok) as [_ Hu].
  destruct Hok as [_ HS]. cbn in HS. destruct HS as [Hsu _].
  destruct Hin as [Hin|Hin].
  - subst u. exact Hsu.
  - pose proof (IH u t Hu Hin) as Hx.
    destruct Hu as [HF _]. inversion HF as [|x xs Hx' _]; subst. unfold seg_ok in Hx'. lia.
Qed.

Lemma sorted_nth src l k j s t : segs_ok src l -> nth_error l k = Some s -> nth_error l j = Some t ->
  (k < j)%nat -> s_stop s <= s_start t.
Proof.
  intros Hok Hk Hj Hkj. destruct (nth_error_split _ _ Hk) as (pre & post & El & Elen). subst l.
  apply (sorted_after src post s t).
  - exact (segs_ok_app_inv _ _ _ Hok).
  - rewrite nth_error_app2 in Hj by lia.
    destruct (j - length pre)%nat as [|m] eqn:Em; [lia|]. cbn in Hj. exact (nth_error_In _ _ Hj).
Qed.

Lemma find_line_spec src segs k s start : segs_ok src segs -> nth_error segs k = Some s ->
  s_start s <= start < s_stop s ->
  forall fuel line, Z.of_nat k <= line < zlen segs -> line - Z.of_nat k < Z.of_nat fuel ->
  b_value_find_line fuel segs line start = Ok (Z.of_nat k).
Proof.
  intros Hok Hk Hst. induction fuel as [|f IH]; intros line Hl Hf; [lia|].
  cbn [b_value_find_line]. replace (0 <=? line) with true by lia.
  destruct (nth_error_ex segs line) as [t Ht]; [lia|].
  rewrite (seg_at_ok _ _ t) by (try lia; exact Ht). cbn [bind].
  destruct (Z.eq_dec line (Z.of_nat k)) as [E|E].
  - subst line. rewrite Nat2Z.id in Ht. rewrite Hk in Ht. inversion Ht; subst t.
    replace (s_start s <=? start) with true by lia. reflexivity.
  - pose proof (sorted_nth src segs k (Z.to_nat line) s t Hok Hk Ht) as Hx.
    replace (s_start t <=? start) with false by lia.
    apply IH; lia.
Qed.

Lemma b_value_spec r sg k s : segs_ok (b_src r) (b_segs r) ->
  nth_error (b_segs r) k = Some s ->
  s_start s <= s_start sg <= s_stop sg -> s_stop sg <= s_stop s -> s_start sg < s_stop s ->
  0 <= s_pad sg -> s_fnl sg = false ->
  b_value r sg = seg_value (b_src r) sg.
Proof.
  intros Hok Hk H1 H2 H3 Hp Hf.
  destruct (nth_facts _ _ _ _ Hok Hk) as (pre & post & El & Elen & Hsok & _ & _ & _). unfold seg_ok in Hsok.
  assert (Hklt : (k < length (b_segs r))%nat) by (apply nth_error_Some; congruence).
  unfold b_value. replace (s_stop sg - s_start sg + 1 <? 0) with false by lia.
  rewrite (find_line_spec (b_src r) (b_segs r) k s (s_start sg) Hok Hk) by (unfold b_nsegs, zlen; lia).
  cbn [bind]. replace (s_start sg <? 0) with false by lia. replace (Z.of_nat k <? 0) with false by lia.
  replace (length (b_segs r) + 1)%nat with (S (length (b_segs r))) by lia.
  cbn [b_value_loop]. replace (Z.of_nat k <? b_nsegs r) with true by (unfold b_nsegs, zlen; lia).
  rewrite (seg_at_ok _ _ s) by (try lia; rewrite Nat2Z.id; exact Hk). cbn [bind].
  replace (s_start sg <? 0) with false by lia.
  replace (s_stop sg <=? s_stop s) with true by lia.
  unfold copy_range, seg_value. replace (Z.min (s_stop sg) (s_stop s)) with (s_stop sg) by lia.
  rewrite (slice_ok (b_src r) (s_start sg) (s_stop sg)) by lia. cbn [bind app].
  rewrite Hf. replace (s_pad sg <? 0) with false by lia. unfold pad_bytes.
  destruct (Z.ltb_spec (s_start sg) (s_stop sg)) as [Hlt|Hge].
  - cbn [bind].
    destruct (Z.eqb_spec (s_pad sg) 0) as [E|E].
    + replace (0 <? s_pad sg) with false by lia. reflexivity.
    + replace (0 <? s_pad sg) with true by lia. reflexivity.
  - cbn [bind]. rewrite sub_empty by lia. rewrite app_nil_r.
    destruct (Z.eqb_spec (s_pad sg) 0) as [E|E].
    + replace (0 <? s_pad sg) with false by lia. reflexivity.
    + replace (0 <? s_pad sg) with true by lia. rewrite app_nil_r. reflexivity.
Qed.

(* ---------- NewBlockReader ---------- *)
Lemma seg_at_last l : l <> [] -> exists x, seg_at l (zlen l - 1) = Ok x /\ last_stop l = s_stop x.
Proof.
  intros Hl. unfold last_stop. destruct (rev l) as [|x xs] eqn:E.
  - exfalso. apply Hl. apply rev_nil_inv. exact E.
  - exists x. split; [|reflexivity].
    assert (El : l = rev xs ++ [x]).
    { rewrite <- (rev_involutive l), E. reflexivity. }
    apply seg_at_ok.
    + subst l. rewrite zlen_app, zlen_cons. pose proof (zlen_nonneg (rev xs)). change (zlen (@nil seg)) with 0. lia.
    + subst l. rewrite zlen_app, zlen_cons. change (zlen (@nil seg)) with 0.
      replace (Z.to_nat (zlen (rev xs) + (1 + 0) - 1)) with (length (rev xs)) by (unfold zlen; lia).
      rewrite nth_error_app2 by lia. rewrite Nat.sub_diag. reflexivity.
Qed.

Lemma new_block_reader_spec src segs : segs_ok src segs ->
  exists r, new_block_reader src segs = Ok r /\ BInv r /\ b_src r = src /\ b_segs r = segs.
Proof.
  intros Hok. unfold new_block_reader, b_reset_position, b_nsegs. bsimpl.
  destruct segs as [|a l].
  - cbn. eexists. split; [reflexivity|]. split; [|split; reflexivity].
    constructor; cbn; try lia; try reflexivity; try assumption.
    + intros s Hs. discriminate.
    + left. auto.
  - destruct (seg_at_last (a :: l)) as (x & Hx & Hlast); [discriminate|].
    replace (0 <? zlen (a :: l)) with true by (rewrite zlen_cons; pose proof (zlen_nonneg l); lia).
    rewrite Hx. cbn [bind].
    unfold b_advance_line, b_set_position, b_nsegs. bsimpl.
    change (-1 =? -1) with true. cbv iota. change (-1 + 1) with 0.
    replace (0 <? zlen (a :: l)) with true by (rewrite zlen_cons; pose proof (zlen_nonneg l); lia).
    change (seg_at (a :: l) 0) with (Ok a). bsimpl.
    pose proof (segs_ok_cons_inv _ _ _ Hok) as [Ha _]. unfold seg_ok in Ha.
    eexists. split; [reflexivity|]. split; [|split; reflexivity].
    constructor; bsimpl; try lia; try assumption.
    + rewrite <- Hlast. reflexivity.
    + intros s Hs. cbn in Hs. inversion Hs; subst s. repeat split; try lia.
    + right. repeat split; try lia. discriminate.
Qed.

(* ---------- FindClosure ---------- *)
Definition is_ok {A} (x : result A) : Prop := match x with Ok _ => True | _ => False end.

Lemma tick_run_ge : forall bs i cnt c j, tick_run bs i cnt = (c, j) -> i - 1 <= j.
Proof.
  induction bs as [|ch tl IH]; intros i cnt c j H; cbn [tick_run] in H.
  - inversion H. lia.
  - destruct (N.eqb ch 96).
    + apply IH in H. lia.
    + inversion H. lia.
Qed.

Lemma tick_run_first ch tl i cnt c j : N.eqb ch 96 = true -> tick_run (ch :: tl) i cnt = (c, j) -> i <= j.
Proof.
  intros E H. cbn [tick_run] in H. rewrite E in H. apply tick_run_ge in H. lia.
Qed.

Section FC.
Variable punct_table : list N.

Lemma fc_scan_closed opts o c : forall fuel bs i opened cso k,
  fc_scan punct_table fuel opts o c bs i opened cso = Ok (FcClosed k) -> i <= k < i + zlen bs.
Proof.
  induction fuel as [|f IH]; intros bs i opened cso k H; cbn [fc_scan] in H; [discriminate|].
  destruct bs as [|ch tl]; [discriminate|].
  assert (Htl : forall i' opened' cso', fc_scan punct_table f opts o c tl i' opened' cso' = Ok (FcClosed k) ->
                 i' = i + 1 -> i <= k < i + zlen (ch :: tl)).
  { intros i' opened' cso' Hx Hi. apply IH in Hx. rewrite zlen_cons. lia. }
  assert (Hsk : forall m i' opened' cso', fc_scan punct_table f opts o c (skipn m (ch :: tl)) i' opened' cso' = Ok (FcClosed k) ->
                 i <= i' -> i' = i + Z.of_nat m -> i <= k < i + zlen (ch :: tl)).
  { intros m i' opened' cso' Hx Hi Hm. apply IH in Hx. unfold zlen in *. rewrite skipn_length in Hx. lia. }
  repeat match type of H with
  | (if ?b then _ else _) = _ => destruct b eqn:?
  | (let '(_, _) := ?p in _) = _ => destruct p eqn:?
  end;
  try discriminate;
  try (eapply Htl; [exact H | lia]).
  - match goal with Ht : tick_run _ _ _ = _ |- _ => apply tick_run_ge in Ht end.
    eapply Hsk; [exact H | lia | lia].
  - eapply (Hsk 2%nat); [exact H | lia | lia].
  - match goal with Ht : tick_run _ _ _ = _ |- _ => apply tick_run_ge in Ht end.
    eapply Hsk; [exact H | lia | lia].
  - inversion H; subst k. rewrite zlen_cons. pose proof (zlen_nonneg tl). lia.
Qed.

Lemma fc_scan_total opts o c : forall fuel bs i opened cso,
  (length bs < fuel)%nat -> is_ok (fc_scan punct_table fuel opts o c bs i opened cso).
Proof.
  induction fuel as [|f IH]; intros bs i opened cso Hf; [lia|].
  cbn [fc_scan]. destruct bs as [|ch tl]; [exact I|]. cbn [length] in Hf.
  assert (Htl : forall i' opened' cso', is_ok (fc_scan punct_table f opts o c tl i' opened' cso')).
  { intros. apply IH. lia. }
  assert (Hsk : forall m i' opened' cso', (1 <= m)%nat ->
             is_ok (fc_scan punct_table f opts o c (skipn m (ch :: tl)) i' opened' cso')).
  { intros m i' opened' cso' Hm. apply IH. rewrite skipn_length. cbn [length]. lia. }
  repeat match goal with
  | |- is_ok (if ?b then _ else _) => destruct b eqn:?
  | |- is_ok (let '(_, _) := ?p in _) => destruct p eqn:?
  end;
  try exact I; try apply Htl.
  - apply Hsk.
    match goal with Ht : tick_run _ _ _ = _ |- _ => apply tick_run_first in Ht; [lia|] end.
    match goal with Hc : _ && _ && N.eqb ch 96 = true |- _ => apply andb_prop in Hc; exact (proj2 Hc) end.
  - apply Hsk. lia.
  - apply Hsk.
    match goal with Ht : tick_run _ _ _ = _ |- _ => apply tick_run_first in Ht; [lia|] end.
    match goal with Hc : _ && _ && N.eqb ch 96 = true |- _ => apply andb_prop in Hc; exact (proj2 Hc) end.
Qed.

Notation b_fc_lines := (fc_lines punct_table breader b_peek_line b_advance b_advance_line).

Lemma fc_lines_spec opts o c : forall fuel r opened cso ret, BInv r ->
  match b_fc_lines fuel opts o c r opened cso ret with
  | Ok (r', _) => BInv r' /\ b_src r' = b_src r /\ b_segs r' = b_segs r /\ (b_segs r = [] -> r' = r)
  | Panic => False
  | OutOfFuel => ~ (zlen (b_segs r) - b_line r < Z.of_nat fuel /\ (0 < fuel)%nat)
  end.
Proof.
  induction fuel as [|f IH]; intros r opened cso ret H.
  - cbn [fc_lines]. lia.
  - cbn [fc_lines]. rewrite (b_peek_line_view r H). cbn [bind].
    destruct (b_in_range r) eqn:Hin.
    + pose proof (in_range_true r Hin) as [Hi1 Hi2].
      assert (Hne : b_segs r <> []).
      { intros E. rewrite E in Hi1. change (zlen (@nil seg)) with 0 in Hi1. pose proof (bi_line r H). lia. }
      pose proof (fc_scan_total opts o c (S (length (b_view r))) (b_view r) 0 opened cso (Nat.lt_succ_diag_r _)) as Hok.
      destruct (fc_scan punct_table (S (length (b_view r))) opts o c (b_view r) 0 opened cso) as [res| |] eqn:Escan;
        try (exfalso; exact Hok).
      cbn [bind]. destruct res as [i| |opened' cso'].
      * apply fc_scan_closed in Escan.
        destruct (b_advance_spec r (i + 1) H) as (r' & Hr' & Hinv' & Hsrc' & Hsegs' & _).
        { rewrite (b_rest_in r Hin), zlen_app.
          pose proof (zlen_nonneg (flat_map (seg_bytes (b_src r)) (skipn (Z.to_nat (b_line r + 1)) (b_segs r)))). lia. }
        rewrite Hr'. cbn [bind]. split; [exact Hinv'|]. split; [exact Hsrc'|]. split; [exact Hsegs'|].
        intros E. contradiction.
      * split; [exact H|]. split; [reflexivity|]. split; [reflexivity|]. reflexivity.
      * destruct (negb (o_newline opts)).
        -- split; [exact H|]. split; [reflexivity|]. split; [reflexivity|]. reflexivity.
        -- destruct (b_advance_line_spec r H) as (r1 & Hr1 & Hinv1 & Hsrc1 & Hsegs1 & _ & Hline1 & _).
           rewrite Hr1. cbn [bind].
           specialize (IH r1 opened' cso' (ret ++ [b_pos r]) Hinv1).
           destruct (b_fc_lines f opts o c r1 opened' cso' (ret ++ [b_pos r])) as [[r' res']| |].
           ++ destruct IH as (Ha & Hb & Hc & _). split; [exact Ha|]. split; [congruence|]. split; [congruence|].
              intros E. contradiction.
           ++ exact IH.
           ++ rewrite Hsegs1, Hline1 in IH. lia.
    + split; [exact H|]. split; [reflexivity|]. split; [reflexivity|]. reflexivity.
Qed.

Lemma b_find_closure_inv fuel r o c opts r' res : BInv r ->
  b_find_closure punct_table fuel r o c opts = Ok (r', res) ->
  BInv r' /\ b_src r' = b_src r /\ b_segs r' = b_segs r /\
  (o_advance opts = false -> b_position r' = b_position r).
Proof.
  intros H Hfc. unfold b_find_closure, find_closure, b_position in Hfc.
  pose proof (fc_lines_spec opts o c fuel r 1 0 [] H) as Hl.
  destruct (b_fc_lines fuel opts o c r 1 0 []) as [[r1 res1]| |]; cbn [bind] in Hfc; try discriminate.
  destruct Hl as (Hinv1 & Hsrc1 & Hsegs1 & Hsame).
  destruct (o_advance opts); cbn [negb bind] in Hfc.
  - inversion Hfc; subst r' res. split; [exact Hinv1|]. split; [exact Hsrc1|]. split; [exact Hsegs1|].
    intros C. discriminate.
  - destruct (b_set_position_spec r1 (b_line r) (b_pos r) Hinv1) as (r2 & Hr2 & Hinv2 & Hsrc2 & Hsegs2 & Hpos2).
    + exists r. split; [exact H|]. split; [congruence|]. split; [congruence|]. reflexivity.
    + destruct (b_segs r1) as [|a l] eqn:E.
      * right. rewrite Hsame by congruence. reflexivity.
      * left. discriminate.
    + rewrite Hr2 in Hfc. cbn [bind] in Hfc. inversion Hfc; subst r' res.
      split; [exact Hinv2|]. split; [congruence|]. split; [congruence|]. intros _. exact Hpos2.
Qed.

Lemma b_find_closure_ok r o c opts : BInv r ->
  exists r' res, b_find_closure punct_table (length (b_segs r) + 2) r o c opts = Ok (r', res).
Proof.
  intros H. unfold b_find_closure, find_closure, b_position.
  pose proof (fc_lines_spec opts o c (length (b_segs r) + 2) r 1 0 [] H) as Hl.
  destruct (b_fc_lines (length (b_segs r) + 2) opts o c r 1 0 []) as [[r1 res1]| |]; cbn [bind].
  - destruct (negb (o_advance opts)).
    + destruct (b_set_position_total r1 (b_line r) (b_pos r) (bi_line r H)) as [r2 Hr2].
      rewrite Hr2. cbn [bind]. eexists. eexists. reflexivity.
    + cbn [bind]. eexists. eexists. reflexivity.
  - contradiction.
  - exfalso. apply Hl. pose proof (bi_line r H). unfold zlen. lia.
Qed.
End FC.

(* ================= the theorems ================= *)
Section BlockReader.
Variable space_table : list N.
Variable punct_table : list N.

(* NewBlockReader over well-formed line segments establishes the invariant *)
Theorem new_block_reader_inv src segs : segs_ok src segs ->
  exists r, new_block_reader src segs = Ok r /\ BInv r /\ b_src r = src /\ b_segs r = segs.
Proof. apply new_block_reader_spec. Qed.

Theorem b_peek_line_is_view r : BInv r ->
  b_peek_line r = Ok (r, (if b_in_range r then Some (b_view r) else None), b_pos r).
Proof. apply b_peek_line_view. Qed.

Theorem b_peek_is_head r : BInv r ->
  b_peek r = Ok (if b_in_range r then hd 255%N (b_view r) else 255%N).
Proof. apply b_peek_head. Qed.

Theorem b_view_prefix_rest r : BInv r -> b_in_range r = true ->
  b_view r <> [] /\ exists tl, b_rest r = b_view r ++ tl.
Proof.
  intros H Hin. split.
  - intros E. pose proof (view_length r H Hin) as Hvl. rewrite E in Hvl. change (zlen (@nil N)) with 0 in Hvl.
    destruct (binv_in r H Hin) as (s & pre & post & Hn & El & Elen & Hok & Ha & Hb & Hc & Hd & Hle & Hlt & Heq).
    pose proof (bi_pad r H). lia.
  - eexists. apply b_rest_in. exact Hin.
Qed.

(* Advance(n), n no larger than what remains, moves forward exactly n bytes of the view,
   crossing lines as needed *)
Theorem b_advance_skips r n : BInv r -> 0 <= n <= zlen (b_rest r) ->
  exists r', b_advance r n = Ok r' /\ BInv r' /\ b_src r' = b_src r /\ b_segs r' = b_segs r /\
             b_rest r' = skipn (Z.to_nat n) (b_rest r).
Proof. apply b_advance_spec. Qed.

Theorem b_advance_line_skips r : BInv r ->
  exists r', b_advance_line r = Ok r' /\ BInv r' /\ b_src r' = b_src r /\ b_segs r' = b_segs r /\
  (b_in_range r = true -> b_rest r' = skipn (length (b_view r)) (b_rest r)).
Proof.
  intros H. destruct (b_advance_line_spec r H) as (r' & Hr' & Hinv & Hsrc & Hsegs & _ & _ & Hrest).
  exists r'. split; [exact Hr'|]. split; [exact Hinv|]. split; [exact Hsrc|]. split; [exact Hsegs|exact Hrest].
Qed.

(* statement adjusted: precondition (b_segs r <> [] \/ b_pos r = pos) added, see the header *)
Theorem b_set_position_restores r line pos : BInv r -> b_saved_from (b_src r) (b_segs r) line pos ->
  (b_segs r <> [] \/ b_pos r = pos) ->
  exists r', b_set_position r line pos = Ok r' /\ BInv r' /\ b_src r' = b_src r /\ b_segs r' = b_segs r /\
             b_position r' = (line, pos).
Proof. apply b_set_position_spec. Qed.

(* SetPosition never panics for a line number >= 0, whatever the position *)
Theorem b_set_position_never_panics r line pos : 0 <= line -> exists r', b_set_position r line pos = Ok r'.
Proof. apply b_set_position_total. Qed.

Theorem b_set_padding_inv r v : BInv r -> 0 <= v ->
  BInv (b_set_padding r v) /\ b_src (b_set_padding r v) = b_src r /\ b_segs (b_set_padding r v) = b_segs r /\
  s_start (b_pos (b_set_padding r v)) = s_start (b_pos r) /\ s_pad (b_pos (b_set_padding r v)) = v.
Proof.
  intros H Hv. split; [apply b_set_padding_binv; assumption|]. repeat split.
Qed.

(* LineOffset is the tab-expanded column counted from the start of the current line segment
   (statement strengthened: no b_in_range hypothesis, see the header) *)
Theorem b_line_offset_is_column r : BInv r ->
  exists r', b_line_offset r = Ok (r', b_column r) /\ BInv r' /\ b_position r' = b_position r /\
             b_src r' = b_src r /\ b_segs r' = b_segs r.
Proof. apply b_line_offset_spec. Qed.

(* Value(seg) equals the segment's own value, for a segment lying within one line of the block *)
Theorem b_value_is_segment_value r sg k s : BInv r ->
  nth_error (b_segs r) k = Some s ->
  s_start s <= s_start sg <= s_stop sg -> s_stop sg <= s_stop s -> s_start sg < s_stop s ->
  0 <= s_pad sg -> s_fnl sg = false ->
  b_value r sg = seg_value (b_src r) sg.
Proof. intros H. apply b_value_spec. exact (bi_segs r H). Qed.

Theorem b_find_closure_pure r fuel o c opts r' res : BInv r -> o_advance opts = false ->
  b_find_closure punct_table fuel r o c opts = Ok (r', res) ->
  b_position r' = b_position r /\ BInv r' /\ b_src r' = b_src r /\ b_segs r' = b_segs r.
Proof.
  intros H Hadv Hfc. destruct (b_find_closure_inv punct_table fuel r o c opts r' res H Hfc) as (Ha & Hb & Hc & Hd).
  split; [exact (Hd Hadv)|]. split; [exact Ha|]. split; [exact Hb|exact Hc].
Qed.

(* with or without Advance, FindClosure keeps the invariant, the source and the lines *)
Theorem b_find_closure_keeps_inv r fuel o c opts r' res : BInv r ->
  b_find_closure punct_table fuel r o c opts = Ok (r', res) ->
  BInv r' /\ b_src r' = b_src r /\ b_segs r' = b_segs r.
Proof.
  intros H Hfc. destruct (b_find_closure_inv punct_table fuel r o c opts r' res H Hfc) as (Ha & Hb & Hc & Hd).
  split; [exact Ha|]. split; [exact Hb|exact Hc].
Qed.

Theorem b_find_closure_total r o c opts : BInv r ->
  exists r' res, b_find_closure punct_table (length (b_segs r) + 2) r o c opts = Ok (r', res).
Proof. apply b_find_closure_ok. Qed.

Theorem b_inv_in_range r : BInv r -> b_in_range r = true ->
  0 <= s_start (b_pos r) <= s_stop (b_pos r) /\ s_stop (b_pos r) <= zlen (b_src r).
Proof.
  intros H Hin.
  destruct (binv_in r H Hin) as (s & pre & post & Hn & El & Elen & Hok & Ha & Hb & Hc & Hd & Hle & Hlt & Heq).
  unfold seg_ok in Hok. lia.
Qed.

End BlockReader.
