(* Plain paragraphs, inline phase: the inline children of a paragraph of the fragment of
   SpecParaBytes.v (lines of letters and blanks) are one text node per line, soft line breaks
   between them.  The model of model/InlineParse.v is run symbolically: one equation per model
   function on explicit reader and heap states, chained in the loop lemma. *)
Require Import GM.model.Base GM.model.Util GM.model.UtilI GM.model.Reader GM.model.ListItem GM.model.HtmlWriter GM.model.Html
               GM.model.SpecDoc GM.model.BlockParse GM.model.InlineParse GM.model.DelimI GM.model.ParseI.
Require Import GM.gen.Tables GM.gen.Regexes.
Require Import GM.proofs.SpecParaBytes.
From Coq Require Import List NArith ZArith Bool Lia.
Import ListNotations.
Open Scope Z_scope.

Notation SCAN := (scan_line space_table punct_table ToLinkReference url_table email_table re_emailDomain re_openTag re_closeTag
                    PunctRune SpaceRune).
Notation LOOP := (parse_block_loop space_table punct_table ToLinkReference url_table email_table re_emailDomain re_openTag re_closeTag
                    PunctRune SpaceRune).
Notation PBLOCK := (parse_block space_table punct_table ToLinkReference url_table email_table re_emailDomain re_openTag re_closeTag
                    PunctRune SpaceRune).

(* ---------- lists ---------- *)
Lemma spi_nth_error_mid {A} (a : list A) x b : nth_error (a ++ x :: b) (length a) = Some x.
Proof. induction a as [|y a IH]; cbn [app length nth_error]; [reflexivity|exact IH]. Qed.
Lemma spi_iset_last (h : iheap) x y : iset (h ++ [x]) (length h) y = h ++ [y].
Proof. induction h as [|z h IH]; cbn [app length iset]; [reflexivity|rewrite IH; reflexivity]. Qed.
Lemma spi_nth_error_last {A} (l : list A) d : l <> [] -> nth_error l (length l - 1) = Some (last l d).
Proof.
  induction l as [|x l IH]; intros H; [congruence|].
  destruct l as [|y l]; [reflexivity|].
  replace (length (x :: y :: l) - 1)%nat with (S (length (y :: l) - 1)) by (cbn [length]; lia).
  cbn [nth_error]. rewrite IH by discriminate. reflexivity.
Qed.
Lemma spi_skipn_app {A} (a b : list A) : skipn (length a) (a ++ b) = b.
Proof. induction a as [|x a IH]; cbn [length app skipn]; [reflexivity|exact IH]. Qed.
Lemma spi_firstn_app {A} (a b : list A) : firstn (length a) (a ++ b) = a.
Proof. induction a as [|x a IH]; cbn [length app firstn]; [reflexivity|rewrite IH; reflexivity]. Qed.
Lemma spi_nth_app {A} (a : list A) x b d : nth (length a) (a ++ x :: b) d = x.
Proof. induction a as [|y a IH]; cbn [app length nth]; [reflexivity|exact IH]. Qed.

Lemma spi_to_nat_zlen {A} (l : list A) : Z.to_nat (zlen l) = length l.
Proof. unfold zlen. apply Nat2Z.id. Qed.

(* source[a:b] of the middle part *)
Lemma spi_slice_mid (pre v post : bytes) a b : a = zlen pre -> b = zlen pre + zlen v ->
  slice (pre ++ v ++ post) a b = Ok v.
Proof.
  intros -> ->. unfold slice.
  pose proof (zlen_nonneg pre) as H1. pose proof (zlen_nonneg v) as H2. pose proof (zlen_nonneg post) as H3.
  replace ((0 <=? zlen pre) && (zlen pre <=? zlen pre + zlen v) && (zlen pre + zlen v <=? zlen (pre ++ v ++ post))) with true.
  2:{ symmetry. rewrite !zlen_app. apply andb_true_iff. split; [apply andb_true_iff; split|]; apply Z.leb_le; lia. }
  replace (zlen pre + zlen v - zlen pre) with (zlen v) by lia.
  rewrite !spi_to_nat_zlen, spi_skipn_app, spi_firstn_app. reflexivity.
Qed.

(* ---------- bytes of the fragment ---------- *)
Lemma textc_not c k : textc c = true -> (k < 32 \/ 32 < k < 97 \/ 122 < k)%N -> N.eqb c k = false.
Proof. intros H Hk. apply textc_range in H. apply N.eqb_neq. lia. Qed.
Lemma wordc_not c k : wordc c = true -> (k < 97 \/ 122 < k)%N -> N.eqb c k = false.
Proof. intros H Hk. apply wordc_range in H. apply N.eqb_neq. lia. Qed.

(* ---------- the scan of one line: no byte of the fragment starts an inline ---------- *)
Lemma scan_text refs : forall todo done tail fuel sp s,
  forallb textc todo = true -> tail = [] \/ tail = [10%N] -> (length todo < fuel)%nat ->
  SCAN refs fuel (done ++ todo ++ tail) (zlen done) (zlen (done ++ todo ++ tail)) (zlen done) false sp s 0%nat
  = Ok (inr (s, zlen done + zlen todo, sp)).
Proof.
  induction todo as [|c todo IH]; intros done tail fuel sp s Ht Htail Hf; (destruct fuel as [|f]; [cbn [length] in Hf; lia|]);
    cbn [scan_line].
  - change (zlen (@nil N)) with 0. rewrite Z.add_0_r. cbn [app].
    destruct (zlen (done ++ tail) <=? zlen done); [reflexivity|].
    unfold zskip. rewrite spi_to_nat_zlen, spi_skipn_app.
    destruct Htail as [-> | ->]; reflexivity.
  - cbn [forallb] in Ht. apply andb_true_iff in Ht. destruct Ht as [Hc Ht].
    replace (zlen (done ++ (c :: todo) ++ tail) <=? zlen done) with false.
    2:{ symmetry. apply Z.leb_gt. rewrite !zlen_app, zlen_cons.
        pose proof (zlen_nonneg todo). pose proof (zlen_nonneg tail). lia. }
    unfold zskip at 1. rewrite spi_to_nat_zlen, spi_skipn_app. cbn [app].
    rewrite (textc_not c 10 Hc) by lia.
    rewrite (text_not_punct c Hc). cbn [andb orb negb].
    rewrite !andb_true_r.
    destruct (is_space space_table c && negb (N.eqb c 13) || (zlen done =? 0)); cbn [inline_parsers].
    1: change (inline_parsers 32) with (@nil iparser).
    all: cbn [bind]; rewrite (textc_not c 92 Hc) by lia.
    all: replace (done ++ c :: todo ++ tail) with ((done ++ [c]) ++ todo ++ tail) by (rewrite <- app_assoc; reflexivity).
    all: replace (zlen done + 1) with (zlen (done ++ [c])) by (rewrite zlen_app, zlen_cons; change (zlen (@nil N)) with 0; lia).
    all: rewrite IH; [|exact Ht|exact Htail|cbn [length] in Hf; lia].
    all: rewrite zlen_app, !zlen_cons; change (zlen (@nil N)) with 0; replace (zlen done + (1 + 0) + zlen todo) with (zlen done + (1 + zlen todo)) by lia; reflexivity.
Qed.

(* ---------- the block reader on explicit states ---------- *)
Definition rdr (src : bytes) (segs : list seg) (line : Z) (pos : seg) (hd last : Z) : breader :=
  {| b_src := src; b_segs := segs; b_line := line; b_pos := pos; b_head := hd; b_last := last; b_loff := -1 |}.
Ltac rsimp := unfold b_nsegs, bset_pos, bset_line, bset_head, bset_loff, bset_last, rdr;
              cbn [b_src b_segs b_line b_pos b_head b_last b_loff s_start s_stop s_pad s_fnl mkseg mksegp bind].

Lemma seg_value_plain src a e v : slice src a e = Ok v -> seg_value src (mkseg a e) = Ok v.
Proof. intros H. unfold seg_value. rsimp. rewrite H. reflexivity. Qed.

Lemma peek_rdr src segs line a e hd L v :
  line < zlen segs -> 0 <= a < L -> slice src a e = Ok v ->
  b_peek_line (rdr src segs line (mkseg a e) hd L) = Ok (rdr src segs line (mkseg a e) hd L, Some v, mkseg a e).
Proof.
  intros Hl Ha Hs. unfold b_peek_line, b_in_range, b_nsegs. rsimp.
  replace ((line <? zlen segs) && (0 <=? a) && (a <? L)) with true.
  2:{ symmetry. apply andb_true_iff. split; [apply andb_true_iff; split|]; [apply Z.ltb_lt|apply Z.leb_le|apply Z.ltb_lt]; lia. }
  rewrite (seg_value_plain _ _ _ _ Hs). reflexivity.
Qed.
Lemma peek_rdr_end src segs line pos hd L : zlen segs <= line ->
  b_peek_line (rdr src segs line pos hd L) = Ok (rdr src segs line pos hd L, None, pos).
Proof.
  intros Hl. unfold b_peek_line, b_in_range, b_nsegs. rsimp.
  replace (line <? zlen segs) with false by (symmetry; apply Z.ltb_ge; lia). reflexivity.
Qed.

Lemma adv_fast src segs line a e hd L n : n < e - a ->
  b_advance (rdr src segs line (mkseg a e) hd L) n = Ok (rdr src segs line (mkseg (a + n) e) hd L).
Proof.
  intros Hn. unfold b_advance. rsimp.
  replace (n <? e - a) with true by (symmetry; apply Z.ltb_lt; lia). reflexivity.
Qed.

Lemma adv_slow_loop src segs line e hd : forall k fuel a, (k < fuel)%nat ->
  b_advance_slow fuel (rdr src segs line (mkseg a e) hd e) (Z.of_nat k) = Ok (rdr src segs line (mkseg (a + Z.of_nat k) e) hd e).
Proof.
  induction k as [|k IH]; intros fuel a Hf; (destruct fuel as [|f]; [lia|]); cbn [b_advance_slow].
  - change (0 <? Z.of_nat 0) with false. cbv iota. rewrite Z.add_0_r. reflexivity.
  - replace (0 <? Z.of_nat (S k)) with true by (symmetry; apply Z.ltb_lt; lia). rsimp.
    rewrite Z.ltb_irrefl, andb_false_r. cbn [negb Z.eqb].
    replace (Z.of_nat (S k) - 1) with (Z.of_nat k) by lia.
    match goal with |- b_advance_slow _ ?r _ = _ => change r with (rdr src segs line (mkseg (a + 1) e) hd e) end.
    rewrite IH by lia. replace (a + 1 + Z.of_nat k) with (a + Z.of_nat (S k)) by lia. reflexivity.
Qed.
Lemma adv_slow src segs line a e hd : a <= e ->
  b_advance (rdr src segs line (mkseg a e) hd e) (e - a) = Ok (rdr src segs line (mkseg e e) hd e).
Proof.
  intros Hae. unfold b_advance. rsimp. rewrite Z.ltb_irrefl. cbn [andb].
  match goal with |- b_advance_slow _ ?r _ = _ => change r with (rdr src segs line (mkseg a e) hd e) end.
  replace (e - a) with (Z.of_nat (Z.to_nat (e - a))) at 2 by lia.
  rewrite adv_slow_loop by lia. replace (a + Z.of_nat (Z.to_nat (e - a))) with e by lia. reflexivity.
Qed.

Lemma seg_at_nth (l : list seg) i s : 0 <= i -> nth_error l (Z.to_nat i) = Some s -> seg_at l i = Ok s.
Proof.
  intros Hi H. unfold seg_at. rewrite H.
  assert (Hlt : (Z.to_nat i < length l)%nat) by (apply nth_error_Some; rewrite H; discriminate).
  replace ((0 <=? i) && (i <? zlen l)) with true; [reflexivity|].
  symmetry. apply andb_true_iff. split; [apply Z.leb_le; lia|apply Z.ltb_lt; unfold zlen; lia].
Qed.

Lemma adv_line_next src segs line pos hd L nxt :
  0 <= line + 1 -> nth_error segs (Z.to_nat (line + 1)) = Some nxt ->
  b_advance_line (rdr src segs line pos hd L) = Ok (rdr src segs (line + 1) nxt (s_start nxt) L).
Proof.
  intros Hl H. unfold b_advance_line, b_set_position. rsimp. change (-1 =? -1) with true. cbv iota.
  assert (Hlt : (Z.to_nat (line + 1) < length segs)%nat) by (apply nth_error_Some; rewrite H; discriminate).
  replace (line + 1 <? zlen segs) with true by (symmetry; apply Z.ltb_lt; unfold zlen; lia).
  rewrite (seg_at_nth _ _ _ Hl H). rsimp. reflexivity.
Qed.
Lemma adv_line_end src segs line pos hd L : zlen segs <= line + 1 ->
  b_advance_line (rdr src segs line pos hd L) = Ok (rdr src segs (line + 1) pos (s_start pos) L).
Proof.
  intros Hl. unfold b_advance_line, b_set_position. rsimp. change (-1 =? -1) with true. cbv iota.
  replace (line + 1 <? zlen segs) with false by (symmetry; apply Z.ltb_ge; lia). rsimp. reflexivity.
Qed.

Lemma new_reader_rdr src s0 tl :
  new_block_reader src (s0 :: tl) = Ok (rdr src (s0 :: tl) 0 s0 (s_start s0) (s_stop (last (s0 :: tl) s0))).
Proof.
  unfold new_block_reader, b_reset_position. rsimp.
  replace (0 <? zlen (s0 :: tl)) with true by (symmetry; apply Z.ltb_lt; rewrite zlen_cons; pose proof (zlen_nonneg tl); lia).
  rewrite (seg_at_nth (s0 :: tl) (zlen (s0 :: tl) - 1) (last (s0 :: tl) s0)).
  2:{ rewrite zlen_cons. pose proof (zlen_nonneg tl). lia. }
  2:{ replace (Z.to_nat (zlen (s0 :: tl) - 1)) with (length (s0 :: tl) - 1)%nat by (unfold zlen; lia).
      apply spi_nth_error_last. discriminate. }
  rsimp. unfold b_advance_line, b_set_position. rsimp. change (-1 =? -1) with true. cbv iota.
  change (-1 + 1) with 0.
  replace (0 <? zlen (s0 :: tl)) with true by (symmetry; apply Z.ltb_lt; rewrite zlen_cons; pose proof (zlen_nonneg tl); lia).
  rewrite (seg_at_nth (s0 :: tl) 0 s0); [|lia|reflexivity]. rsimp. reflexivity.
Qed.

(* ---------- the inline heap: the root and one text node per line ---------- *)
Definition tnode (t : seg * bool) : inode := {| ik := IText (fst t) (snd t) false false; ipar := Some 0%nat; ich := [] |}.
Definition heap_of (ts : list (seg * bool)) : iheap :=
  {| ik := IRoot; ipar := None; ich := seq 1 (length ts) |} :: map tnode ts.
Definition ctx_of (h : iheap) : ictx := {| i_h := h; i_dfirst := None; i_dlast := None; i_labels := None; i_bottoms := [] |}.

Lemma heap_of_length ts : length (heap_of ts) = S (length ts).
Proof. unfold heap_of. cbn [length]. rewrite map_length. reflexivity. Qed.

Lemma heap_append ts sg soft :
  i_append (heap_of ts ++ [{| ik := IText sg soft false false; ipar := None; ich := [] |}]) 0 (length (heap_of ts))
  = Ok (heap_of (ts ++ [(sg, soft)])).
Proof.
  unfold i_append, i_detach, iupd, iget. rewrite spi_nth_error_mid. cbn [bind ipar].
  rewrite spi_nth_error_mid. cbn [bind]. rewrite spi_iset_last.
  unfold heap_of at 1 2. cbn [app nth_error bind iset iset_ch iset_par ik ipar ich].
  unfold heap_of. rewrite map_app, app_length. cbn [length map]. rewrite Nat.add_1_r, seq_S, map_length.
  reflexivity.
Qed.

(* ---------- the line tests of parseBlock ---------- *)
Lemma last_byte_1 l c : last_byte (l ++ [c]) 1 = c.
Proof.
  unfold last_byte, nth_byte. rewrite zlen_app, zlen_cons. change (zlen (@nil N)) with 0.
  replace (Z.to_nat (zlen l + (1 + 0) - 1)) with (length l) by (unfold zlen; lia). apply spi_nth_app.
Qed.
Lemma last_byte_2 l c d : last_byte (l ++ [c; d]) 2 = c.
Proof.
  unfold last_byte, nth_byte. rewrite zlen_app, !zlen_cons. change (zlen (@nil N)) with 0.
  replace (Z.to_nat (zlen l + (1 + (1 + 0)) - 2)) with (length l) by (unfold zlen; lia). apply spi_nth_app.
Qed.
Lemma no_backslash_end l c : N.eqb c 92 = false -> ends_with_unescaped_backslash (l ++ [c]) = false.
Proof. intros H. unfold ends_with_unescaped_backslash. rewrite rev_app_distr. cbn [rev app count_trailing_bs]. rewrite H. reflexivity. Qed.
Lemma zfirst_snoc (l : bytes) c : zfirst (zlen (l ++ [c]) - 1) (l ++ [c]) = l.
Proof.
  unfold zfirst. rewrite zlen_app, zlen_cons. change (zlen (@nil N)) with 0.
  replace (Z.to_nat (zlen l + (1 + 0) - 1)) with (length l) by (unfold zlen; lia). apply spi_firstn_app.
Qed.

Lemma trim_letter_end src a e r c : wordc c = true -> slice src a e = Ok (r ++ [c]) ->
  seg_trim_right_space space_table src (mksegp a e 0) = Ok (mkseg a e).
Proof.
  intros Hc Hs. unfold seg_trim_right_space. cbn [s_start s_stop s_pad mksegp]. rewrite Hs. cbn [bind].
  unfold trim_right_space_len. rewrite rev_app_distr. cbn [rev app trim_left_space_len].
  rewrite (word_not_space c Hc).
  replace (0 =? zlen (r ++ [c])) with false.
  2:{ symmetry. apply Z.eqb_neq. rewrite zlen_app, zlen_cons. pose proof (zlen_nonneg r). change (zlen (@nil N)) with 0. lia. }
  rewrite Z.sub_0_r. reflexivity.
Qed.

(* ---------- one line of the block ---------- *)
Lemma seg_between_same a e a' : seg_between (mkseg a e) (mkseg a' e) = Ok (mksegp a a' 0).
Proof. unfold seg_between. cbn [s_start s_stop s_pad mkseg]. rewrite Z.eqb_refl. reflexivity. Qed.

Lemma b_line_rdr src segs line pos hd L : b_line (rdr src segs line pos hd L) = line. Proof. reflexivity. Qed.
Lemma b_pos_rdr src segs line pos hd L : b_pos (rdr src segs line pos hd L) = pos. Proof. reflexivity. Qed.
Lemma b_src_rdr src segs line pos hd L : b_src (rdr src segs line pos hd L) = src. Proof. reflexivity. Qed.
Lemma seg_nonempty a e : a < e -> seg_is_empty (mkseg a e) = false.
Proof. intros H. unfold seg_is_empty. cbn [s_start s_stop mkseg]. replace (e <=? a) with false by (symmetry; apply Z.leb_gt; lia). reflexivity. Qed.

Lemma step_mid refs f src segs line off b hd L ts nxt :
  body_okb b = true -> 0 <= line -> 0 <= off < L ->
  nth_error segs (Z.to_nat (line + 1)) = Some nxt ->
  slice src off (off + zlen b + 1) = Ok (b ++ [10%N]) -> slice src off (off + zlen b) = Ok b ->
  LOOP refs (S f) {| t_c := ctx_of (heap_of ts); t_r := rdr src segs line (mkseg off (off + zlen b + 1)) hd L |} 0%nat false
  = LOOP refs f {| t_c := ctx_of (heap_of (ts ++ [(mkseg off (off + zlen b), true)]));
                   t_r := rdr src segs (line + 1) nxt (s_start nxt) L |} 0%nat false.
Proof.
  intros Hb Hline Hoff Hnxt Hs1 Hs2.
  assert (Hlt : (Z.to_nat (line + 1) < length segs)%nat) by (apply nth_error_Some; rewrite Hnxt; discriminate).
  destruct (body_ok_last b Hb) as (r & c & Eb & Hc).
  pose proof (body_ok_text b Hb) as Htext.
  pose proof (body_ok_nonempty b Hb) as Hpos.
  cbn [parse_block_loop]. cbn [t_r t_c ist_r].
  rewrite (peek_rdr src segs line off (off + zlen b + 1) hd L (b ++ [10%N])); [|unfold zlen; lia|lia|exact Hs1].
  cbn [bind]. cbn [t_r t_c ist_r].
  rewrite (last_byte_1 b 10). change (N.eqb 10 10) with true. rewrite zfirst_snoc.
  rewrite Eb at 1. rewrite (no_backslash_end r c) by (apply wordc_not; [exact Hc|lia]). cbn [andb].
  assert (Hl2 : last_byte (b ++ [10%N]) 2 = c).
  { rewrite Eb, <- app_assoc. apply last_byte_2. }
  rewrite Hl2. rewrite (wordc_not c 13 Hc), (wordc_not c 32 Hc) by lia.
  rewrite !andb_false_r. cbn [andb]. cbv beta iota.
  pose proof (scan_text refs b [] [10%N] (S (length (b ++ [10%N])))) as Hscan.
  cbn [app] in Hscan. change (zlen (@nil N)) with 0 in Hscan.
  rewrite Hscan; [|exact Htext|right; reflexivity|rewrite app_length; lia]. clear Hscan.
  cbn [bind]. cbn [ist_r t_r t_c]. rewrite Z.add_0_l.
  replace (zlen b =? 0) with false by (symmetry; apply Z.eqb_neq; lia). cbn [negb].
  rewrite adv_fast by lia. cbn [bind].
  rewrite !b_line_rdr, !b_pos_rdr, !b_src_rdr. rewrite Z.eqb_refl. cbn [negb].
  rewrite seg_between_same. cbn [bind].
  rewrite (trim_letter_end src off (off + zlen b) r c Hc) by (rewrite <- Eb; exact Hs2). cbn [bind].
  rewrite seg_nonempty by lia. cbn [bind]. cbv beta iota.
  unfold new_inode. cbn [ctx_of i_h cx_h i_dfirst i_dlast i_labels i_bottoms].
  rewrite heap_append. cbn [bind].
  rewrite (adv_line_next src segs line _ hd L nxt) by (try exact Hnxt; lia). cbn [bind].
  reflexivity.
Qed.

Lemma step_last refs f src segs line off b hd ts :
  body_okb b = true -> 0 <= line -> line + 1 = zlen segs -> 0 <= off ->
  slice src off (off + zlen b) = Ok b ->
  LOOP refs (S (S f)) {| t_c := ctx_of (heap_of ts); t_r := rdr src segs line (mkseg off (off + zlen b)) hd (off + zlen b) |} 0%nat false
  = Ok {| t_c := ctx_of (heap_of (ts ++ [(mkseg off (off + zlen b), false)]));
          t_r := rdr src segs (line + 1) (mkseg (off + zlen b) (off + zlen b)) (off + zlen b) (off + zlen b) |}.
Proof.
  intros Hb Hline Hlast Hoff Hs2.
  destruct (body_ok_last b Hb) as (r & c & Eb & Hc).
  pose proof (body_ok_text b Hb) as Htext.
  pose proof (body_ok_nonempty b Hb) as Hpos.
  cbn [parse_block_loop]. cbn [t_r t_c ist_r].
  rewrite (peek_rdr src segs line off (off + zlen b) hd (off + zlen b) b); [|lia|lia|exact Hs2].
  cbn [bind]. cbn [t_r t_c ist_r].
  assert (Hl1 : last_byte b 1 = c) by (rewrite Eb; apply last_byte_1).
  rewrite Hl1. rewrite (wordc_not c 10 Hc) by lia.
  rewrite !andb_false_r. cbn [andb]. cbv beta iota.
  pose proof (scan_text refs b [] [] (S (length b))) as Hscan.
  cbn [app] in Hscan. rewrite app_nil_r in Hscan. change (zlen (@nil N)) with 0 in Hscan.
  rewrite Hscan; [|exact Htext|left; reflexivity|lia]. clear Hscan.
  cbn [bind]. cbn [ist_r t_r t_c]. rewrite Z.add_0_l.
  replace (zlen b =? 0) with false by (symmetry; apply Z.eqb_neq; lia). cbn [negb].
  replace (zlen b) with (off + zlen b - off) at 3 by lia.
  rewrite adv_slow by lia. cbn [bind].
  rewrite !b_line_rdr, !b_pos_rdr, !b_src_rdr. rewrite Z.eqb_refl. cbn [negb].
  rewrite seg_between_same. cbn [bind].
  rewrite (trim_letter_end src off (off + zlen b) r c Hc) by (rewrite <- Eb; exact Hs2). cbn [bind].
  rewrite seg_nonempty by lia. cbn [bind]. cbv beta iota.
  unfold new_inode. cbn [ctx_of i_h cx_h i_dfirst i_dlast i_labels i_bottoms].
  rewrite heap_append. cbn [bind].
  rewrite adv_line_end by lia. cbn [bind]. cbn [t_r t_c ist_r].
  rewrite peek_rdr_end by lia. cbn [bind].
  reflexivity.
Qed.

(* ---------- the loop over the lines ---------- *)
Fixpoint para_its (off : Z) (p : list bytes) : list (seg * bool) :=
  match p with
  | [] => []
  | [b] => [(mkseg off (off + zlen b), false)]
  | b :: r => (mkseg off (off + zlen b), true) :: para_its (off + zlen b + 1) r
  end.

Lemma para_segs_cons off b rest : exists s tl, para_segs off (b :: rest) = s :: tl.
Proof. destruct rest as [|b' rest]; cbn [para_segs]; eauto. Qed.

Lemma loop_para refs src post : forall rest b cons off hd ts fuel A,
  body_okb b = true -> forallb body_okb rest = true ->
  src = A ++ para_src (b :: rest) ++ post -> off = zlen A ->
  (S (length rest) < fuel)%nat ->
  exists r', LOOP refs fuel {| t_c := ctx_of (heap_of ts);
                               t_r := rdr src (cons ++ para_segs off (b :: rest)) (zlen cons)
                                          (List.hd (mkseg 0 0) (para_segs off (b :: rest))) hd
                                          (off + zlen (para_src (b :: rest))) |} 0%nat false
             = Ok {| t_c := ctx_of (heap_of (ts ++ para_its off (b :: rest))); t_r := r' |}.
Proof.
  induction rest as [|b' rest IH]; intros b cons off hd ts fuel A Hb Hrest Hsrc Hoff Hf.
  - destruct fuel as [|[|f]]; [cbn [length] in Hf; lia|cbn [length] in Hf; lia|].
    cbn [para_segs para_src join List.hd para_its]. unfold para_src in Hsrc. cbn [join] in Hsrc.
    eexists. apply step_last; [exact Hb|apply zlen_nonneg| |subst off; apply zlen_nonneg|].
    + rewrite zlen_app, zlen_cons. change (zlen (@nil seg)) with 0. lia.
    + rewrite Hsrc. apply spi_slice_mid; [exact Hoff|lia].
  - destruct fuel as [|f]; [lia|].
    cbn [forallb] in Hrest. apply andb_true_iff in Hrest. destruct Hrest as [Hb' Hrest].
    change (para_segs off (b :: b' :: rest)) with (mkseg off (off + zlen b + 1) :: para_segs (off + zlen b + 1) (b' :: rest)).
    change (para_its off (b :: b' :: rest)) with ((mkseg off (off + zlen b), true) :: para_its (off + zlen b + 1) (b' :: rest)).
    rewrite para_src_cons2 in Hsrc |- *. cbn [List.hd].
    destruct (para_segs_cons (off + zlen b + 1) b' rest) as (nxt & tl & Enxt).
    pose proof (zlen_nonneg A) as HA. pose proof (body_ok_nonempty b Hb) as Hbpos.
    pose proof (zlen_nonneg (para_src (b' :: rest))) as Hrpos.
    rewrite (step_mid refs f src _ (zlen cons) off b hd _ ts nxt); [|exact Hb|apply zlen_nonneg| | | |].
    + specialize (IH b' (cons ++ [mkseg off (off + zlen b + 1)]) (off + zlen b + 1) (s_start nxt)
                     (ts ++ [(mkseg off (off + zlen b), true)]) f (A ++ b ++ [10%N]) Hb' Hrest).
      rewrite Enxt in IH. cbn [List.hd] in IH. rewrite <- Enxt in IH.
      rewrite <- !app_assoc in IH. cbn [app] in IH.
      replace (zlen (cons ++ [mkseg off (off + zlen b + 1)])) with (zlen cons + 1) in IH
        by (rewrite zlen_app, zlen_cons; change (zlen (@nil seg)) with 0; lia).
      replace (off + zlen b + 1 + zlen (para_src (b' :: rest))) with (off + zlen (b ++ [10%N] ++ para_src (b' :: rest))) in IH
        by (rewrite !zlen_app, zlen_cons; change (zlen (@nil N)) with 0; lia).
      apply IH; [rewrite Hsrc, <- !app_assoc; reflexivity| |cbn [length] in Hf |- *; lia].
      rewrite !zlen_app, zlen_cons. change (zlen (@nil N)) with 0. lia.
    + rewrite !zlen_app, zlen_cons. change (zlen (@nil N)) with 0. lia.
    + replace (Z.to_nat (zlen cons + 1)) with (S (length cons)) by (unfold zlen; lia).
      rewrite Enxt. replace (cons ++ mkseg off (off + zlen b + 1) :: nxt :: tl) with ((cons ++ [mkseg off (off + zlen b + 1)]) ++ nxt :: tl)
        by (rewrite <- app_assoc; reflexivity).
      replace (S (length cons)) with (length (cons ++ [mkseg off (off + zlen b + 1)])) by (rewrite app_length; cbn [length]; lia).
      apply spi_nth_error_mid.
    + rewrite Hsrc. replace (A ++ (b ++ [10%N] ++ para_src (b' :: rest)) ++ post) with (A ++ (b ++ [10%N]) ++ para_src (b' :: rest) ++ post)
        by (rewrite <- !app_assoc; reflexivity).
      apply spi_slice_mid; [exact Hoff|]. rewrite zlen_app, zlen_cons. change (zlen (@nil N)) with 0. lia.
    + rewrite Hsrc. rewrite <- app_assoc. apply spi_slice_mid; [exact Hoff|lia].
Qed.

(* ---------- from the heap to the trees ---------- *)
Definition ttree (t : seg * bool) : tree := Node (KText (fst t) (snd t) false false) [] None [].

Lemma para_its_texts : forall p off, map ttree (para_its off p) = para_texts off p.
Proof.
  induction p as [|b [|b' r] IH]; intros off; [reflexivity|reflexivity|].
  change (para_its off (b :: b' :: r)) with ((mkseg off (off + zlen b), true) :: para_its (off + zlen b + 1) (b' :: r)).
  change (para_texts off (b :: b' :: r)) with (text_node off b true :: para_texts (off + zlen b + 1) (b' :: r)).
  cbn [map]. rewrite IH. reflexivity.
Qed.

Lemma itree_kids src f : forall l a,
  map_res (itree (S f) src (heap_of (a ++ l))) (seq (S (length a)) (length l)) = Ok (map ttree l).
Proof.
  induction l as [|x l IH]; intros a; [reflexivity|].
  cbn [length seq map_res].
  replace (itree (S f) src (heap_of (a ++ x :: l)) (S (length a))) with (Ok (ttree x)).
  2:{ cbn [itree]. unfold iget, heap_of. cbn [nth_error]. rewrite map_app. cbn [map].
      rewrite <- (map_length tnode a), spi_nth_error_mid. cbn [bind tnode ich map_res ik]. reflexivity. }
  cbn [bind].
  replace (a ++ x :: l) with ((a ++ [x]) ++ l) by (rewrite <- app_assoc; reflexivity).
  replace (S (S (length a))) with (S (length (a ++ [x]))) by (rewrite app_length; cbn [length]; lia).
  rewrite IH. reflexivity.
Qed.

Lemma itree_heap src ts :
  itree (S (length (heap_of ts))) src (heap_of ts) 0%nat = Ok (Node KOther [] None (map ttree ts)).
Proof.
  rewrite heap_of_length. remember (S (length ts)) as f eqn:Ef. cbn [itree]. unfold iget. unfold heap_of at 1.
  cbn [nth_error bind ich ik]. subst f.
  pose proof (itree_kids src (length ts) ts []) as Hk. cbn [app length] in Hk.
  rewrite Hk. reflexivity.
Qed.

(* ---------- the inline children of a plain paragraph ---------- *)
Lemma last_para_segs : forall p off d, p <> [] -> s_stop (last (para_segs off p) d) = off + zlen (para_src p).
Proof.
  induction p as [|b [|b' r] IH]; intros off d Hp; [congruence|reflexivity|].
  change (para_segs off (b :: b' :: r)) with (mkseg off (off + zlen b + 1) :: para_segs (off + zlen b + 1) (b' :: r)).
  destruct (para_segs_cons (off + zlen b + 1) b' r) as (s & tl & E).
  rewrite E. change (last (mkseg off (off + zlen b + 1) :: s :: tl) d) with (last (s :: tl) d).
  rewrite <- E, IH by discriminate.
  rewrite para_src_cons2, !zlen_app, zlen_cons. change (zlen (@nil N)) with 0. lia.
Qed.

Theorem para_inline : forall refs pre p post src,
  para_ok p = true -> src = pre ++ para_src p ++ post ->
  InlineChildren refs src (para_segs (zlen pre) p) = Ok (para_texts (zlen pre) p).
Proof.
  intros refs pre p post src Hp Hsrc.
  destruct (para_ok_inv p Hp) as (b & rest & -> & Hb & Hrest).
  unfold InlineChildren, inline_children, parse_block.
  destruct (para_segs_cons (zlen pre) b rest) as (s0 & tl & E0).
  destruct (loop_para refs src post rest b [] (zlen pre) (s_start s0) [] (2 * length src + 2 * length (para_segs (zlen pre) (b :: rest)) + 8)
              pre Hb Hrest Hsrc eq_refl) as (r' & Hloop).
  { assert (Hlen : forall q off, length (para_segs off q) = length q).
    { induction q as [|x [|y q] IHq]; intros off; [reflexivity|reflexivity|].
      change (para_segs off (x :: y :: q)) with (mkseg off (off + zlen x + 1) :: para_segs (off + zlen x + 1) (y :: q)).
      cbn [length] in IHq |- *. rewrite IHq. reflexivity. }
    rewrite Hlen. cbn [length]. lia. }
  cbn [app] in Hloop. change (zlen (@nil seg)) with 0 in Hloop.
  rewrite <- (last_para_segs (b :: rest) (zlen pre) s0) in Hloop by discriminate.
  rewrite E0 in Hloop |- *. cbn [List.hd] in Hloop.
  rewrite new_reader_rdr. cbn [bind].
  change init_ictx with (ctx_of (heap_of [])).
  rewrite Hloop. cbn [bind t_c].
  unfold process_delimiters. cbn [ctx_of i_dlast bind].
  unfold link_close_block. cbn [ctx_of cx_bottoms i_labels i_h i_dfirst i_dlast close_labels bind].
  rewrite itree_heap. cbn [bind t_children]. rewrite para_its_texts. reflexivity.
Qed.
