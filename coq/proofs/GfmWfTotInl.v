(* C01 (inline phase of the GFM parser model, model/InlineParseX.v): inline_childrenX never panics
   and never runs out of fuel on a block whose lines satisfy lines_ok.  Port of
   proofs/ParseInlineTotal.v (inline_children_total / InlineChildren_total) to the generalised
   drivers, with the strikethrough, task check box and linkify parsers.  Hypotheses about the tables
   and regular expressions may be added as Section Hypotheses when a proof needs them (as Hopen and
   Hclose in ParseInlineTotal.v); each must then be discharged for the tables and regular expressions
   regenerated from the code in the corollary at the end.  Helper files: proofs/GfmWfTotInl*.v. *)
Require Import GM.model.Base GM.model.Util GM.model.UtilI GM.model.Reader GM.model.ReaderSpec GM.model.Blocks GM.model.ListItem
               GM.model.LeafBlocks GM.model.CodeSpan GM.model.LinkDest GM.model.Regex GM.model.Delim GM.model.DelimI GM.model.HtmlWriter
               GM.model.Html GM.model.HtmlSpec GM.model.BlockParse GM.model.InlineParse GM.model.InlineParseX.
Require Import GM.gen.Tables GM.gen.Regexes.
Require Import GM.proofs.MiscProofs GM.proofs.ReaderProofs GM.proofs.BReaderProofs GM.proofs.BlockRangeProofs GM.proofs.ParseInv.
Require Import GM.proofs.ParseInlineTotalReader2.
(* helper libraries, in compile order: GfmWfTotInlRe (regular expression facts), GfmWfTotInlDelim (closer_loopX,
   process_delimitersX), GfmWfTotInlLink (process_link_labelX, link_parseX), GfmWfTotInlNew (strike_parse, task_parse,
   linkify_parse), GfmWfTotInlDrive (ip_parseX ... parse_blockX, itreeX) *)
Require Import GM.proofs.GfmWfTotInlRe GM.proofs.GfmWfTotInlDrive.
From Coq Require Import ZArith Lia List.
Import ListNotations.
Open Scope Z_scope.

Section S.
Variable xc : xcfg.
Variable space_table punct_table : list N.
Variable norm : bytes -> bytes.
Variable url_table email_table : list N.
Variable re_email_domain re_open_tag re_close_tag : re.
Variable punct_rune space_rune : N -> bool.
Variable re_task re_url re_www : re.
Notation ICX := (inline_childrenX xc space_table punct_table norm url_table email_table
                   re_email_domain re_open_tag re_close_tag punct_rune space_rune re_task re_url re_www).
Hypothesis Hopen : re_nonempty re_open_tag = true.
Hypothesis Hclose : re_nonempty re_close_tag = true.
(* taskCheckBoxParser.Parse reads line[m[2]:m[3]][0]: whenever the task list expression matches, its
   group 1 must have taken part in the match, be non-empty and lie inside the line (otherwise the
   model, like the Go code, panics), and the whole match must be non-empty (the parser returns a
   node over m[1] bytes; a node over zero bytes makes parseBlock retry at the same position for ever). *)
Hypothesis Htask : task_caps_ok re_task.
(* linkifyParser.Parse runs the two URL expressions on a line that begins with "http:", "https:",
   "ftp:" or "www."; the rules for a final ')' and ';' and the removal of trailing punctuation keep
   at least one byte of the match (and "&...;" is looked for inside the line only) provided that
   every match reaches beyond that prefix: at least 7 bytes (re_minlen computes a lower bound of the
   length of all matches from the syntax of the expression). *)
Hypothesis Hurl : 7 <= re_minlen re_url.
Hypothesis Hwww : 7 <= re_minlen re_www.

Theorem inline_childrenX_total : forall refs in_item src lines,
  bytes_ok src -> lines_ok src lines -> exists ts, ICX refs in_item src lines = Ok ts.
Proof.
  intros refs in_item src lines _ Hlines.
  apply inline_childrenX_total_gen; assumption.
Qed.

End S.

(* the tables and regular expressions of model/GfmI.v ParseTreeX *)
Corollary InlineChildrenX_total : forall xc refs in_item src lines,
  bytes_ok src -> lines_ok src lines ->
  exists ts, inline_childrenX xc space_table punct_table ToLinkReference url_table email_table re_emailDomain
               re_openTag re_closeTag PunctRune SpaceRune re_taskList re_url re_wwwURL refs in_item src lines = Ok ts.
Proof.
  intros xc refs in_item src lines Hsrc Hlines.
  apply inline_childrenX_total; [vm_compute; reflexivity|vm_compute; reflexivity|exact task_caps_ok_taskList| | |exact Hsrc|exact Hlines].
  - vm_compute. discriminate.
  - vm_compute. discriminate.
Qed.
