(* Block quotes around plain paragraphs: the source reader behind block quote markers (the
   position differs from the head of the line), and the block quote marker code on it. *)
Require Import GM.model.Base GM.model.Util GM.model.Reader GM.model.ListItem GM.model.Blocks.
Require Import GM.gen.Tables GM.proofs.SpecParaBytes GM.proofs.SpecParaReader.
From Coq Require Import List NArith ZArith Bool Lia.
Import ListNotations.
Open Scope Z_scope.

(* ---------- the line offset behind the markers ---------- *)
Definition lofs (src : bytes) (hd st : Z) : Z :=
  if hd <? st then match slice src hd st with Ok v => col_width v 0 | _ => 0 end else 0.
Lemma col_width_ge v : forall acc, acc <= col_width v acc.
Proof.
  induction v as [|c v IH]; intros acc; cbn [col_width]; [lia|].
  destruct (N.eqb c 9).
  - specialize (IH (acc + (4 - acc mod 4))). pose proof (Z.mod_pos_bound acc 4). lia.
  - specialize (IH (acc + 1)). lia.
Qed.
Lemma lofs_nonneg src hd st : 0 <= lofs src hd st.
Proof.
  unfold lofs. destruct (hd <? st); [|lia]. destruct (slice src hd st) as [v| |]; try lia.
  apply (col_width_ge v 0).
Qed.
Lemma slice_ok src a b : 0 <= a -> a <= b -> b <= zlen src -> exists v, slice src a b = Ok v.
Proof.
  intros H1 H2 H3. unfold slice.
  replace ((0 <=? a) && (a <=? b) && (b <=? zlen src))%bool with true; [eexists; reflexivity|].
  symmetry. rewrite !andb_true_iff. repeat split; apply Z.leb_le; lia.
Qed.
Lemma line_offset_at src k hd b st pk : 0 <= hd -> st <= zlen src ->
  r_line_offset (rd src k hd b st pk (-1)) = Ok (rd src k hd b st pk (lofs src hd st), lofs src hd st).
Proof.
  intros H1 H3. unfold r_line_offset, rd, rset_loff, lofs. cbn [r_loff r_head r_pos s_start s_pad r_src r_line r_peeked].
  change (-1 <? 0) with true. cbv iota. destruct (Z.ltb_spec hd st) as [Hlt|Hge].
  - destruct (slice_ok src hd st) as [v Hv]; [lia|lia|lia|]. rewrite Hv. cbn [bind]. rewrite Z.sub_0_r. reflexivity.
  - reflexivity.
Qed.
Lemma line_offset_any src k hd b st pk lo : 0 <= hd -> st <= zlen src -> lo = -1 \/ lo = lofs src hd st ->
  r_line_offset (rd src k hd b st pk lo) = Ok (rd src k hd b st pk (lofs src hd st), lofs src hd st).
Proof.
  intros H1 H3 [-> | ->]; [apply line_offset_at; assumption|].
  unfold r_line_offset, rd. cbn [r_loff]. pose proof (lofs_nonneg src hd st) as Hn.
  replace (lofs src hd st <? 0) with false by (symmetry; apply Z.ltb_ge; lia). reflexivity.
Qed.

(* ---------- peeking and advancing anywhere on the line ---------- *)
Lemma peek_at src pre line rest k hd b st lo : at_line src pre line rest st b -> line <> [] ->
  r_peek_line (rd src k hd b st None lo) = Ok (rd src k hd b st (Some line) lo, Some line, lseg st b).
Proof.
  intros Hat Hne. pose proof (at_line_in_range _ _ _ _ _ _ Hat Hne) as Hr.
  unfold r_peek_line. rewrite in_range_rd by lia.
  unfold rd at 1. cbn [r_peeked]. unfold rd at 1 2. cbn [r_src r_pos].
  unfold seg_value. cbn [s_start s_stop s_pad s_fnl].
  destruct Hat as (Hs & Ha & Hb). rewrite Hs at 1. rewrite (slice_mid pre line rest st b Ha Hb).
  cbn [bind]. change (0 =? 0) with true. change (0 <? 0) with false. cbn iota. reflexivity.
Qed.
Lemma peek_cached_at src k hd b st v lo : 0 <= st < zlen src ->
  r_peek_line (rd src k hd b st (Some v) lo) = Ok (rd src k hd b st (Some v) lo, Some v, lseg st b).
Proof. intros H. unfold r_peek_line. rewrite in_range_rd by lia. reflexivity. Qed.
Lemma peek_any src pre line rest k hd b st pk lo : at_line src pre line rest st b -> line <> [] ->
  pk = None \/ pk = Some line ->
  r_peek_line (rd src k hd b st pk lo) = Ok (rd src k hd b st (Some line) lo, Some line, lseg st b).
Proof.
  intros Hat Hne [-> | ->]; [apply (peek_at src pre line rest); assumption|].
  apply peek_cached_at. pose proof (at_line_in_range _ _ _ _ _ _ Hat Hne). lia.
Qed.
Lemma advance_fast_at src k hd b st v lo n : n < zlen v ->
  r_advance (rd src k hd b st (Some v) lo) n = Ok (rd src k hd b (st + n) None (-1)).
Proof.
  intros H. unfold r_advance, rd, rset_loff. cbn [r_peeked r_pos s_pad r_src r_line r_head r_loff s_start s_stop s_fnl].
  replace (n <? zlen v) with true by (symmetry; apply Z.ltb_lt; exact H).
  change (0 =? 0) with true. cbn [andb]. cbv iota. reflexivity.
Qed.
(* one blank, without a cached line *)
Lemma advance_blank src k hd b st lo c : 0 <= st < zlen src -> at_ src st = Ok c -> c <> 10%N ->
  r_advance_and_set_padding (rd src k hd b st None lo) 1 0 = Ok (rd src k hd b (st + 1) None (-1)).
Proof.
  intros Hr Hat Hc. unfold r_advance_and_set_padding, r_advance, rd, rset_loff, rset_peeked.
  cbn [r_peeked r_pos s_pad r_src r_line r_head r_loff s_start s_stop s_fnl].
  change (1 <? 0) with false. cbn [andb]. cbv iota. change (Z.to_nat 1 + 1)%nat with 2%nat.
  cbn [r_advance_slow]. unfold r_len, rset_pos. cbn [r_peeked r_pos s_pad r_src r_line r_head r_loff s_start s_stop s_fnl].
  change (0 <? 1) with true. replace (st <? zlen src) with true by (symmetry; apply Z.ltb_lt; lia). cbn [andb]. cbv iota.
  change (0 =? 0) with true. cbn [negb]. cbv iota. rewrite Hat. cbn [bind].
  replace (N.eqb c 10) with false by (symmetry; apply N.eqb_neq; exact Hc). cbv iota.
  change (0 <? 1 - 1) with false. cbn [andb]. cbv iota. cbn [bind r_pos s_pad]. change (0 <? 0) with false. cbv iota. reflexivity.
Qed.

(* ---------- the block quote marker ---------- *)
Lemma at_line_at0 src pre c more rest st b : at_line src pre (c :: more) rest st b -> at_ src st = Ok c.
Proof. intros (Hs & Ha & Hb). rewrite Hs. cbn [app]. apply at_mid. exact Ha. Qed.
Lemma at_line_at1 src pre c d more rest st b : at_line src pre (c :: d :: more) rest st b -> at_ src (st + 1) = Ok d.
Proof.
  intros (Hs & Ha & Hb). rewrite Hs. cbn [app].
  replace (pre ++ c :: d :: more ++ rest) with ((pre ++ [c]) ++ d :: more ++ rest) by (rewrite <- app_assoc; reflexivity).
  apply at_mid. rewrite zlen_app, zlen_cons, zlen_nil. lia.
Qed.
Lemma at_0 (c : N) more : at_ (c :: more) 0 = Ok c.
Proof. apply (at_mid [] c more 0). reflexivity. Qed.
Lemma at_1 (c d : N) more : at_ (c :: d :: more) 1 = Ok d.
Proof. apply (at_mid [c] d more 1). reflexivity. Qed.
Lemma indent_width_nb c more o : c <> 32%N -> c <> 9%N -> indent_width (c :: more) o = (0, 0).
Proof.
  intros H1 H2. unfold indent_width. cbn [indent_width_pos].
  replace (N.eqb c 32) with false by (symmetry; apply N.eqb_neq; exact H1).
  replace (N.eqb c 9) with false by (symmetry; apply N.eqb_neq; exact H2). reflexivity.
Qed.

Section Marker.
Variables (src pre line rest : bytes) (k hd b st lo : Z).
Hypothesis Hat : at_line src pre line rest st b.
Hypothesis Hhd : 0 <= hd.
Hypothesis Hlo : lo = -1 \/ lo = lofs src hd st.

Lemma marker_range : line <> [] -> 0 <= st /\ st < b /\ b <= zlen src.
Proof. intros Hne. apply (at_line_in_range _ _ _ _ _ _ Hat Hne). Qed.

(* ">" before anything but a blank or a tab (a letter, another marker, the end of the line) *)
Lemma bq_bare d more : line = 62%N :: d :: more -> d <> 32%N -> d <> 9%N ->
  bq_process_total (rd src k hd b st (SomeB line) lo) = Ok (rd src k hd b (st + 1) None (-1), true).
Proof.
  intros Hl H32 H9. assert (Hne : line <> []) by (rewrite Hl; discriminate).
  pose proof (marker_range Hne) as Hr.
  unfold bq_process_total. rewrite peek_cached_at by lia. cbn [bind].
  unfold bq_process. rewrite peek_cached_at by lia. cbn [bind].
  rewrite (line_offset_any src k hd b st _ lo Hhd) by (try exact Hlo; lia). cbn [bind].
  rewrite Hl at 1. rewrite indent_width_nb by discriminate.
  change (3 <? 0) with false. replace (zlen line <=? 0) with false by (symmetry; apply Z.leb_gt; rewrite Hl, zlen_cons; pose proof (zlen_nonneg (d :: more)); lia).
  cbn [orb]. cbv iota.
  replace (at_ line 0) with (Ok 62%N) by (rewrite Hl; symmetry; apply at_0). cbn [bind]. change (N.eqb 62 62) with true. cbn [negb]. cbv iota.
  change (0 + 1) with 1.
  replace (zlen line <=? 1) with false by (symmetry; apply Z.leb_gt; rewrite Hl, !zlen_cons; pose proof (zlen_nonneg more); lia).
  replace (at_ line 1) with (Ok d) by (rewrite Hl; symmetry; apply at_1). cbn [bind].
  assert (Hadv : r_advance (rd src k hd b st (SomeB line) (lofs src hd st)) 1 = Ok (rd src k hd b (st + 1) None (-1))).
  { apply advance_fast_at. rewrite Hl, !zlen_cons. pose proof (zlen_nonneg more). lia. }
  rewrite Hadv. cbn [bind].
  replace (N.eqb d 32) with false by (symmetry; apply N.eqb_neq; exact H32).
  replace (N.eqb d 9) with false by (symmetry; apply N.eqb_neq; exact H9). cbn [orb].
  destruct (N.eqb d 10); reflexivity.
Qed.

(* "> " *)
Lemma bq_blank more : line = 62%N :: 32%N :: more ->
  bq_process_total (rd src k hd b st (SomeB line) lo) = Ok (rd src k hd b (st + 2) None (-1), true).
Proof.
  intros Hl. assert (Hne : line <> []) by (rewrite Hl; discriminate).
  pose proof (marker_range Hne) as Hr.
  assert (Hb2 : st + 2 <= b).
  { destruct Hat as (_ & Ha & Hb). rewrite Hb, Hl, !zlen_cons. pose proof (zlen_nonneg more). lia. }
  unfold bq_process_total. rewrite peek_cached_at by lia. cbn [bind].
  unfold bq_process. rewrite peek_cached_at by lia. cbn [bind].
  rewrite (line_offset_any src k hd b st _ lo Hhd) by (try exact Hlo; lia). cbn [bind].
  rewrite Hl at 1. rewrite indent_width_nb by discriminate.
  change (3 <? 0) with false. replace (zlen line <=? 0) with false by (symmetry; apply Z.leb_gt; rewrite Hl, zlen_cons; pose proof (zlen_nonneg (32%N :: more)); lia).
  cbn [orb]. cbv iota.
  replace (at_ line 0) with (Ok 62%N) by (rewrite Hl; symmetry; apply at_0). cbn [bind]. change (N.eqb 62 62) with true. cbn [negb]. cbv iota.
  change (0 + 1) with 1.
  replace (zlen line <=? 1) with false by (symmetry; apply Z.leb_gt; rewrite Hl, !zlen_cons; pose proof (zlen_nonneg more); lia).
  replace (at_ line 1) with (Ok 32%N) by (rewrite Hl; symmetry; apply at_1). cbn [bind].
  change (N.eqb 32 10) with false. cbv iota.
  assert (Hadv : r_advance (rd src k hd b st (SomeB line) (lofs src hd st)) 1 = Ok (rd src k hd b (st + 1) None (-1))).
  { apply advance_fast_at. rewrite Hl, !zlen_cons. pose proof (zlen_nonneg more). lia. }
  rewrite Hadv. cbn [bind]. change (N.eqb 32 32) with true. cbn [orb]. cbv iota.
  rewrite line_offset_at by lia. cbn [bind]. change (N.eqb 32 9) with false. cbv iota.
  rewrite (advance_blank src k hd b (st + 1) _ 32%N); [| lia | | discriminate].
  2:{ rewrite Hl in Hat. exact (at_line_at1 _ _ _ _ _ _ _ _ Hat). }
  cbn [bind]. replace (st + 1 + 1) with (st + 2) by lia. reflexivity.
Qed.

(* no marker: the rest of the line is empty *)
Lemma bq_none more : line = 10%N :: more ->
  bq_process_total (rd src k hd b st (SomeB line) lo) = Ok (rd src k hd b st (SomeB line) (lofs src hd st), false).
Proof.
  intros Hl. assert (Hne : line <> []) by (rewrite Hl; discriminate).
  pose proof (marker_range Hne) as Hr.
  unfold bq_process_total. rewrite peek_cached_at by lia. cbn [bind].
  unfold bq_process. rewrite peek_cached_at by lia. cbn [bind].
  rewrite (line_offset_any src k hd b st _ lo Hhd) by (try exact Hlo; lia). cbn [bind].
  rewrite Hl at 1. rewrite indent_width_nb by discriminate.
  change (3 <? 0) with false. replace (zlen line <=? 0) with false by (symmetry; apply Z.leb_gt; rewrite Hl, zlen_cons; pose proof (zlen_nonneg more); lia).
  cbn [orb]. cbv iota.
  replace (at_ line 0) with (Ok 10%N) by (rewrite Hl; symmetry; apply at_0). cbn [bind]. reflexivity.
Qed.
End Marker.
