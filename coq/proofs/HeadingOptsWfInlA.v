(* HeadingOptsWfInl, part A (hwInl): two block readers over the same source, one over the lines `pre`
   (non-empty segments) and one over `pre ++ [e]` with e an EMPTY segment behind them, run in lock step.
   Sim r r' holds when both are at the same position of the same line of pre (EQ) or when both are
   out of range (END); every reader primitive the inline parsers use preserves it and delivers the
   same bytes.  RInv0 is strong enough to give back the invariant RI of the core proofs. *)
Require Import GM.model.Base GM.model.Util GM.model.Reader GM.model.ReaderSpec.
Require Import GM.proofs.BReaderProofs.
From Coq Require Import ZArith Lia ZifyBool List Bool.
Import ListNotations.
Open Scope Z_scope.

Lemma nth_error_app_last {A} (l : list A) x j : nth_error (l ++ [x]) j =
  if (j <? length l)%nat then nth_error l j else if (j =? length l)%nat then Some x else None.
Proof.
  destruct (Nat.ltb_spec j (length l)) as [H|H].
  - apply nth_error_app1. exact H.
  - rewrite nth_error_app2 by exact H. destruct (Nat.eqb_spec j (length l)) as [E|E].
    + subst j. rewrite Nat.sub_diag. reflexivity.
    + destruct (j - length l)%nat as [|d] eqn:Ed; [lia|]. cbn. destruct d; reflexivity.
Qed.

Section Sim.
Variable src : bytes.
Variable pre : list seg.
Variable e : seg.
Hypothesis Hpre : segs_ok src pre.
Hypothesis Hpads : Forall (fun s => s_pad s = 0) pre.
Hypothesis Hne : pre <> [].
Hypothesis He1 : s_start e = s_stop e.
Hypothesis He2 : s_pad e = 0.
Hypothesis He3 : s_fnl e = false.
Hypothesis Hke : last_stop pre <= s_start e.

Notation k' := (last_stop pre).
Notation k := (s_start e).
Notation m := (zlen pre).

Lemma m_pos : 1 <= m.
Proof. destruct pre; [congruence|]. unfold zlen. cbn [length]. lia. Qed.

(* the segment of a line of pre *)
Lemma cur_facts j sg : nth_error pre j = Some sg ->
  0 <= s_start sg < s_stop sg /\ s_stop sg <= k' /\ s_stop sg <= zlen src /\ s_pad sg = 0 /\ s_fnl sg = false /\
  Z.of_nat j < m /\ (Z.of_nat j < m - 1 -> s_stop sg < k') /\ (Z.of_nat j = m - 1 -> s_stop sg = k').
Proof.
  intros Hn. destruct (nth_facts src pre j sg Hpre Hn) as (p0 & post & El & Elen & Hok & Hle & Hlt & Heq).
  assert (Hp : s_pad sg = 0). { rewrite Forall_forall in Hpads. apply Hpads. eapply nth_error_In. exact Hn. }
  assert (Hm : m = Z.of_nat j + 1 + zlen post).
  { rewrite El. unfold zlen. rewrite app_length. cbn [length]. lia. }
  unfold seg_ok in Hok. pose proof (zlen_nonneg post) as Hpn.
  split; [lia|]. split; [lia|]. split; [lia|]. split; [exact Hp|]. split; [tauto|]. split; [lia|]. split.
  - intros Hj. apply Hlt. intros ->. unfold zlen in *. cbn [length] in Hm. lia.
  - intros Hj. apply Heq. destruct post; [reflexivity|]. unfold zlen in *. cbn [length] in Hm. lia.
Qed.

Lemma kp_pos : 1 <= k' /\ k' <= zlen src.
Proof.
  pose proof m_pos as Hm. destruct (nth_error_ex pre (m - 1)) as [sg Hsg]; [lia|].
  destruct (cur_facts _ _ Hsg) as (H1 & H2 & H3 & _ & _ & _ & _ & H8).
  rewrite Z2Nat.id in H8 by lia. specialize (H8 eq_refl). lia.
Qed.

Lemma nth_pre_e i : 0 <= i -> nth_error (pre ++ [e]) (Z.to_nat i) =
  if i <? m then nth_error pre (Z.to_nat i) else if i =? m then Some e else None.
Proof.
  intros Hi. rewrite nth_error_app_last. unfold zlen.
  destruct (Nat.ltb_spec (Z.to_nat i) (length pre)) as [H|H]; destruct (Z.ltb_spec i (Z.of_nat (length pre))) as [H'|H']; try lia; [reflexivity|].
  destruct (Nat.eqb_spec (Z.to_nat i) (length pre)) as [E|E]; destruct (Z.eqb_spec i (Z.of_nat (length pre))) as [E'|E']; try lia; reflexivity.
Qed.

Lemma zlen_pre_e : zlen (pre ++ [e]) = m + 1.
Proof. unfold zlen. rewrite app_length. cbn [length]. lia. Qed.

Lemma seg_at_pre i sg : 0 <= i -> nth_error pre (Z.to_nat i) = Some sg -> seg_at pre i = Ok sg /\ seg_at (pre ++ [e]) i = Ok sg.
Proof.
  intros Hi Hn. split; [apply seg_at_ok; assumption|]. apply seg_at_ok; [exact Hi|].
  rewrite nth_pre_e by exact Hi. destruct (cur_facts _ _ Hn) as (_ & _ & _ & _ & _ & Hlt & _). rewrite Z2Nat.id in Hlt by lia.
  replace (i <? m) with true by lia. exact Hn.
Qed.

Lemma seg_at_e : seg_at (pre ++ [e]) m = Ok e.
Proof.
  pose proof m_pos. apply seg_at_ok; [lia|]. rewrite nth_pre_e by lia. replace (m <? m) with false by lia. rewrite Z.eqb_refl. reflexivity.
Qed.

Lemma nth_pre_lt i : 0 <= i < m -> exists sg, nth_error pre (Z.to_nat i) = Some sg.
Proof. apply nth_error_ex. Qed.

Lemma nth_pre_ge i sg : m <= i -> nth_error pre (Z.to_nat i) = Some sg -> False.
Proof. intros Hi Hn. destruct (cur_facts _ _ Hn) as (_ & _ & _ & _ & _ & Hlt & _). pose proof m_pos. rewrite Z2Nat.id in Hlt by lia. lia. Qed.

(* ---------- the invariants of the two readers ---------- *)
Record RInv0 (r : breader) : Prop := {
  i_src : b_src r = src;
  i_segs : b_segs r = pre;
  i_last : b_last r = k';
  i_line : 0 <= b_line r;
  i_pad : s_pad (b_pos r) = 0;
  i_fnl : s_fnl (b_pos r) = false;
  i_loff : b_loff r = -1;
  i_cur : forall sg, nth_error pre (Z.to_nat (b_line r)) = Some sg ->
          s_stop (b_pos r) = s_stop sg /\ s_start sg <= s_start (b_pos r) /\ b_head r = s_start sg /\
          (s_start (b_pos r) < k' \/ b_line r < m - 1 -> s_start (b_pos r) < s_stop sg)
}.

Record RInv1 (r : breader) : Prop := {
  j_src : b_src r = src;
  j_segs : b_segs r = pre ++ [e];
  j_last : b_last r = k;
  j_line : 0 <= b_line r;
  j_pad : s_pad (b_pos r) = 0;
  j_fnl : s_fnl (b_pos r) = false;
  j_cur : forall sg, nth_error pre (Z.to_nat (b_line r)) = Some sg ->
          s_stop (b_pos r) = s_stop sg /\ s_start sg <= s_start (b_pos r) /\
          (s_start (b_pos r) < k' \/ k' < k \/ b_line r < m - 1 -> s_start (b_pos r) < s_stop sg);
  j_end : b_line r = m -> s_stop (b_pos r) = k /\ k <= s_start (b_pos r)
}.

Definition EQ (r r' : breader) : Prop :=
  b_line r' = b_line r /\ b_pos r' = b_pos r /\ b_line r < m /\ (s_start (b_pos r) < k' \/ k' = k).
Definition Out (r : breader) : Prop := m <= b_line r \/ (b_line r = m - 1 /\ k' <= s_start (b_pos r)).
Definition Out' (r : breader) : Prop := m <= b_line r \/ (b_line r = m - 1 /\ k <= s_start (b_pos r)).
Definition Sim (r r' : breader) : Prop := RInv0 r /\ RInv1 r' /\ (EQ r r' \/ (Out r /\ Out' r')).
Definition EQS (r r' : breader) : Prop := RInv0 r /\ RInv1 r' /\ EQ r r'.

Lemma seg_eq_dec (a b : seg) : {a = b} + {a <> b}.
Proof. decide equality; [apply Bool.bool_dec|apply Z.eq_dec|apply Z.eq_dec|apply Z.eq_dec]. Qed.
Lemma EQ_dec r r' : EQ r r' \/ ~ EQ r r'.
Proof.
  unfold EQ. destruct (Z.eq_dec (b_line r') (b_line r)); [|right; tauto]. destruct (seg_eq_dec (b_pos r') (b_pos r)); [|right; tauto].
  destruct (Z_lt_dec (b_line r) m); [|right; tauto]. destruct (Z_lt_dec (s_start (b_pos r)) k'); [left; tauto|].
  destruct (Z.eq_dec k' k); [left; tauto|right; tauto].
Qed.

Lemma eqs_sim r r' : EQS r r' -> Sim r r'.
Proof. intros (A & B & C). split; [exact A|]. split; [exact B|]. left. exact C. Qed.

Lemma out_range r : RInv0 r -> Out r -> b_in_range r = false.
Proof. intros I O. unfold b_in_range, b_nsegs. rewrite (i_segs _ I), (i_last _ I). destruct O; lia. Qed.
Lemma out_range' r : RInv1 r -> Out' r -> b_in_range r = false.
Proof.
  intros I O. unfold b_in_range, b_nsegs. rewrite (j_segs _ I), (j_last _ I), zlen_pre_e.
  destruct O as [O|O]; [|lia]. destruct (Z.eq_dec (b_line r) m) as [E|E]; [|lia].
  destruct (j_end _ I E). lia.
Qed.
Lemma eq_range r r' : RInv0 r -> RInv1 r' -> EQ r r' -> b_in_range r' = b_in_range r.
Proof.
  intros I J (El & Ep & Hl & Hs). unfold b_in_range, b_nsegs.
  rewrite (i_segs _ I), (i_last _ I), (j_segs _ J), (j_last _ J), zlen_pre_e, El, Ep. lia.
Qed.
Lemma sim_range r r' : Sim r r' -> b_in_range r' = b_in_range r.
Proof.
  intros (I & J & [E|[O O']]); [apply eq_range; assumption|].
  rewrite (out_range _ I O), (out_range' _ J O'). reflexivity.
Qed.
Lemma sim_in_eqs r r' : Sim r r' -> b_in_range r = true -> EQS r r'.
Proof.
  intros (I & J & [E|[O O']]) Hin; [split; [exact I|split; [exact J|exact E]]|].
  rewrite (out_range _ I O) in Hin. discriminate.
Qed.

(* ---------- Peek, PeekLine ---------- *)
Lemma sim_peek r r' : Sim r r' -> b_peek r' = b_peek r.
Proof.
  intros H. unfold b_peek. rewrite (sim_range _ _ H). destruct (b_in_range r) eqn:Hin; [|reflexivity].
  destruct (sim_in_eqs _ _ H Hin) as (I & J & (_ & Ep & _)). rewrite Ep, (i_src _ I), (j_src _ J). reflexivity.
Qed.

Lemma sim_peek_line r r' r1 ln sg : Sim r r' -> b_peek_line r = Ok (r1, ln, sg) ->
  r1 = r /\
  ((exists v, ln = Some v /\ b_in_range r = true /\ EQS r r' /\ sg = b_pos r /\ b_peek_line r' = Ok (r', Some v, sg)) \/
   (ln = None /\ b_in_range r = false /\ b_peek_line r' = Ok (r', None, b_pos r'))).
Proof.
  intros H Hp. unfold b_peek_line in *. rewrite (sim_range _ _ H). destruct (b_in_range r) eqn:Hin.
  - pose proof (sim_in_eqs _ _ H Hin) as Q. destruct Q as (I & J & (El & Ep & Hq)).
    rewrite Ep, (j_src _ J), <- (i_src _ I).
    destruct (seg_value (b_src r) (b_pos r)) as [v| |]; cbn [bind] in *; try discriminate.
    inversion Hp; subst r1 ln sg. split; [reflexivity|]. left. exists v.
    split; [reflexivity|]. split; [reflexivity|]. split; [exact (sim_in_eqs _ _ H Hin)|]. split; reflexivity.
  - inversion Hp; subst r1 ln sg. split; [reflexivity|]. right. auto.
Qed.

(* ---------- SetPosition ---------- *)
Lemma setpos0 r r0 : RInv0 r -> RInv0 r0 ->
  exists r1, b_set_position r (b_line r0) (b_pos r0) = Ok r1 /\ RInv0 r1 /\ b_line r1 = b_line r0 /\
             (b_line r0 < m -> b_pos r1 = b_pos r0).
Proof.
  intros I I0. unfold b_set_position, b_nsegs. bsimpl. rewrite (i_segs _ I).
  pose proof (i_line _ I0) as Hl0.
  destruct (Z.ltb_spec (b_line r0) m) as [Hlt|Hge].
  - destruct (nth_pre_lt (b_line r0)) as [sg Hsg]; [lia|].
    destruct (seg_at_pre _ _ Hl0 Hsg) as [Ea _]. destruct (i_cur _ I0 sg Hsg) as (C1 & C2 & C3 & C4).
    destruct (cur_facts _ _ Hsg) as (F1 & _).
    replace (s_start (b_pos r0) =? -1) with false by lia. rewrite Ea. cbn [bind].
    eexists. split; [reflexivity|]. split; [|split; [reflexivity|intros _; reflexivity]].
    constructor; bsimpl; try (apply I); try (apply I0); try reflexivity; try exact Hl0.
    intros sg' Hsg'. rewrite Hsg in Hsg'. inversion Hsg'; subst sg'. auto.
  - assert (Hnone : forall sg, nth_error pre (Z.to_nat (b_line r0)) = Some sg -> False) by (intros sg; apply nth_pre_ge; exact Hge).
    destruct (s_start (b_pos r0) =? -1); (eexists; split; [reflexivity|]; split; [|split; [reflexivity|intros C; lia]]);
      (constructor; bsimpl; try (apply I); try (apply I0); try reflexivity; try exact Hl0; intros sg Hsg; destruct (Hnone sg Hsg)).
Qed.

Lemma setpos1 r r0 : RInv1 r -> RInv1 r0 ->
  exists r1, b_set_position r (b_line r0) (b_pos r0) = Ok r1 /\ RInv1 r1 /\ b_line r1 = b_line r0 /\
             (b_line r0 <= m -> b_pos r1 = b_pos r0).
Proof.
  intros I I0. unfold b_set_position, b_nsegs. bsimpl. rewrite (j_segs _ I), zlen_pre_e.
  pose proof (j_line _ I0) as Hl0. pose proof kp_pos as Hk.
  destruct (Z.ltb_spec (b_line r0) m) as [Hlt|Hge].
  - destruct (nth_pre_lt (b_line r0)) as [sg Hsg]; [lia|].
    destruct (seg_at_pre _ _ Hl0 Hsg) as [_ Ea]. destruct (j_cur _ I0 sg Hsg) as (C1 & C2 & C3).
    destruct (cur_facts _ _ Hsg) as (F1 & _).
    replace (s_start (b_pos r0) =? -1) with false by lia. replace (b_line r0 <? m + 1) with true by lia. rewrite Ea. cbn [bind].
    eexists. split; [reflexivity|]. split; [|split; [reflexivity|intros _; reflexivity]].
    constructor; bsimpl; try (apply I); try (apply I0); try reflexivity; try exact Hl0.
  - assert (Hnone : forall sg, nth_error pre (Z.to_nat (b_line r0)) = Some sg -> False) by (intros sg; apply nth_pre_ge; exact Hge).
    destruct (Z.eq_dec (b_line r0) m) as [Em|Em].
    + destruct (j_end _ I0 Em) as [E1 E2]. replace (s_start (b_pos r0) =? -1) with false by lia.
      rewrite Em. replace (m <? m + 1) with true by lia. rewrite seg_at_e. cbn [bind].
      eexists. split; [reflexivity|]. split; [|split; [reflexivity|intros _; reflexivity]].
      constructor; bsimpl; try (apply I); try (apply I0); try reflexivity; try lia.
      intros sg Hsg. rewrite Em in Hnone. destruct (Hnone sg Hsg).
    + replace (b_line r0 <? m + 1) with false by lia.
      destruct (s_start (b_pos r0) =? -1); (eexists; split; [reflexivity|]; split; [|split; [reflexivity|intros C; lia]]);
        (constructor; bsimpl; try (apply I); try (apply I0); try reflexivity; try exact Hl0;
         try (intros sg Hsg; destruct (Hnone sg Hsg)); try (intros C; lia)).
Qed.

Lemma sim_set_position r r' r0 r0' r1 : RInv0 r -> RInv1 r' -> Sim r0 r0' ->
  b_set_position r (b_line r0) (b_pos r0) = Ok r1 ->
  exists r1', b_set_position r' (b_line r0') (b_pos r0') = Ok r1' /\ Sim r1 r1' /\
              (EQ r0 r0' -> EQS r1 r1' /\ b_line r1 = b_line r0 /\ b_pos r1 = b_pos r0).
Proof.
  intros I J (I0 & J0 & Hm) Hs.
  destruct (setpos0 r r0 I I0) as (x & Ex & Ix & Lx & Px). rewrite Hs in Ex. inversion Ex; subst x. clear Ex.
  destruct (setpos1 r' r0' J J0) as (r1' & E1 & J1 & L1 & P1). exists r1'. split; [exact E1|].
  assert (Heq : EQ r0 r0' -> EQ r1 r1' /\ b_line r1 = b_line r0 /\ b_pos r1 = b_pos r0).
  { intros (El & Ep & Hl & Hq). rewrite (Px Hl). split; [|auto]. unfold EQ. rewrite L1, Lx, (Px Hl), P1 by lia. auto. }
  split.
  - split; [exact Ix|]. split; [exact J1|]. destruct Hm as [Q|[O O']]; [left; apply Heq; exact Q|right].
    split.
    + unfold Out in *. rewrite Lx. destruct O as [O1|[O1 O2]]; [left; exact O1|right]. rewrite Px by lia. auto.
    + unfold Out' in *. rewrite L1. destruct O' as [O1|[O1 O2]]; [left; exact O1|right]. rewrite P1 by lia. auto.
  - intros Q. destruct (Heq Q) as (Q1 & Q2 & Q3). split; [|auto]. split; [exact Ix|]. split; [exact J1|exact Q1].
Qed.

(* ---------- AdvanceLine ---------- *)
Lemma adv_line0 r : RInv0 r ->
  exists r1, b_advance_line r = Ok r1 /\ RInv0 r1 /\ b_line r1 = b_line r + 1 /\
    (forall sg, nth_error pre (Z.to_nat (b_line r + 1)) = Some sg -> b_pos r1 = sg) /\
    (m <= b_line r + 1 -> b_pos r1 = b_pos r).
Proof.
  intros I. unfold b_advance_line, b_set_position, b_nsegs. bsimpl. rewrite (i_segs _ I). pose proof (i_line _ I) as Hl.
  destruct (Z.ltb_spec (b_line r + 1) m) as [Hlt|Hge].
  - destruct (nth_pre_lt (b_line r + 1)) as [sg Hsg]; [lia|].
    destruct (seg_at_pre (b_line r + 1) sg ltac:(lia) Hsg) as [Ea _]. rewrite Ea. cbn [bind]. bsimpl.
    destruct (cur_facts _ _ Hsg) as (F1 & F2 & F3 & F4 & F5 & _).
    eexists. split; [reflexivity|]. split; [|split; [reflexivity|split; [intros sg' Hsg'; rewrite Hsg in Hsg'; inversion Hsg'; reflexivity|intros C; lia]]].
    constructor; bsimpl; try (apply I); try reflexivity; try lia; try assumption.
    intros sg' Hsg'. rewrite Hsg in Hsg'. inversion Hsg'; subst sg'. repeat split; lia.
  - eexists. split; [reflexivity|]. split; [|split; [reflexivity|split; [intros sg Hsg; destruct (nth_pre_ge _ _ Hge Hsg)|intros _; reflexivity]]].
    constructor; bsimpl; try (apply I); try reflexivity; try lia.
    intros sg Hsg. destruct (nth_pre_ge _ _ Hge Hsg).
Qed.

Lemma adv_line1 r : RInv1 r ->
  exists r1, b_advance_line r = Ok r1 /\ RInv1 r1 /\ b_line r1 = b_line r + 1 /\
    (forall sg, nth_error pre (Z.to_nat (b_line r + 1)) = Some sg -> b_pos r1 = sg) /\
    (b_line r + 1 = m -> b_pos r1 = e) /\
    (m + 1 <= b_line r + 1 -> b_pos r1 = b_pos r).
Proof.
  intros I. unfold b_advance_line, b_set_position, b_nsegs. bsimpl. rewrite (j_segs _ I), zlen_pre_e. pose proof (j_line _ I) as Hl.
  destruct (Z.ltb_spec (b_line r + 1) m) as [Hlt|Hge].
  - destruct (nth_pre_lt (b_line r + 1)) as [sg Hsg]; [lia|].
    destruct (seg_at_pre (b_line r + 1) sg ltac:(lia) Hsg) as [_ Ea]. replace (b_line r + 1 <? m + 1) with true by lia. rewrite Ea. cbn [bind]. bsimpl.
    destruct (cur_facts _ _ Hsg) as (F1 & F2 & F3 & F4 & F5 & _).
    eexists. split; [reflexivity|]. split; [|split; [reflexivity|split; [intros sg' Hsg'; rewrite Hsg in Hsg'; inversion Hsg'; reflexivity|split; intros C; lia]]].
    constructor; bsimpl; try (apply I); try reflexivity; try lia; try assumption.
    intros sg' Hsg'. rewrite Hsg in Hsg'. inversion Hsg'; subst sg'. repeat split; lia.
  - destruct (Z.eq_dec (b_line r + 1) m) as [Em|Em].
    + rewrite Em. replace (m <? m + 1) with true by lia. rewrite seg_at_e. cbn [bind]. bsimpl.
      eexists. split; [reflexivity|]. split; [|split; [reflexivity|split; [intros sg Hsg; destruct (nth_pre_ge m sg ltac:(lia) Hsg)|split; [intros _; reflexivity|intros C; lia]]]].
      constructor; bsimpl; try (apply I); try reflexivity; try lia; try assumption.
      * intros sg Hsg. destruct (nth_pre_ge m sg ltac:(lia) Hsg).
    + replace (b_line r + 1 <? m + 1) with false by lia.
      eexists. split; [reflexivity|]. split; [|split; [reflexivity|split; [intros sg Hsg; destruct (nth_pre_ge _ _ Hge Hsg)|split; [intros C; lia|intros _; reflexivity]]]].
      constructor; bsimpl; try (apply I); try reflexivity; try lia.
      * intros sg Hsg. destruct (nth_pre_ge _ _ Hge Hsg).
Qed.

Lemma sim_advance_line r r' r1 : Sim r r' -> b_advance_line r = Ok r1 ->
  exists r1', b_advance_line r' = Ok r1' /\ Sim r1 r1' /\
              (EQ r r' -> b_line r + 1 < m -> EQS r1 r1' /\ b_in_range r1 = true).
Proof.
  intros (I & J & Hm) Ha.
  destruct (adv_line0 r I) as (x & Ex & Ix & Lx & Px & Qx). rewrite Ha in Ex. inversion Ex; subst x. clear Ex.
  destruct (adv_line1 r' J) as (r1' & E1 & J1 & L1 & P1 & Pe & Q1). exists r1'. split; [exact E1|].
  assert (Heq : EQ r r' -> b_line r + 1 < m -> EQ r1 r1' /\ b_in_range r1 = true).
  { intros (El & Ep & Hl & Hq) Hlt. destruct (nth_pre_lt (b_line r + 1)) as [sg Hsg]; [pose proof (i_line _ I); lia|].
    destruct (cur_facts _ _ Hsg) as (F1 & F2 & _).
    assert (Hp : b_pos r1 = sg) by (apply Px; exact Hsg).
    assert (Hp' : b_pos r1' = sg) by (apply P1; rewrite El; exact Hsg).
    split.
    - unfold EQ. rewrite L1, Lx, Hp, Hp', El. repeat split; try lia.
    - unfold b_in_range, b_nsegs. rewrite (i_segs _ Ix), (i_last _ Ix), Lx, Hp. lia. }
  split.
  - split; [exact Ix|]. split; [exact J1|].
    destruct Hm as [Q|[O O']].
    + destruct (Z.ltb_spec (b_line r + 1) m) as [Hlt|Hge]; [left; apply Heq; assumption|right].
      destruct Q as (El & _). unfold Out, Out'. rewrite Lx, L1, El. split; left; lia.
    + right. unfold Out, Out' in *. rewrite Lx, L1. split; left; lia.
  - intros Q Hlt. destruct (Heq Q Hlt) as [Q1' Q2]. split; [|exact Q2]. split; [exact Ix|]. split; [exact J1|exact Q1'].
Qed.

(* ---------- Advance ---------- *)
Definition pos_add (p : seg) (n : Z) : seg := {| s_start := s_start p + n; s_stop := s_stop p; s_pad := s_pad p; s_fnl := s_fnl p |}.

Lemma rinv0_add r n : RInv0 r -> 0 <= n ->
  (forall sg, nth_error pre (Z.to_nat (b_line r)) = Some sg -> s_start (b_pos r) + n < k' \/ b_line r < m - 1 -> s_start (b_pos r) + n < s_stop sg) ->
  RInv0 (bset_pos (bset_loff r (-1)) (pos_add (b_pos r) n)).
Proof.
  intros I Hn Hc. constructor; bsimpl; unfold pos_add; bsimpl; try (apply I); try reflexivity.
  intros sg Hsg. destruct (i_cur _ I sg Hsg) as (C1 & C2 & C3 & C4). repeat split; try lia; try assumption. apply Hc. exact Hsg.
Qed.
Lemma rinv1_loff r v : RInv1 r -> RInv1 (bset_loff r v).
Proof. intros I. constructor; bsimpl; apply I. Qed.
Lemma rinv1_add r n : RInv1 r -> 0 <= n ->
  (forall sg, nth_error pre (Z.to_nat (b_line r)) = Some sg -> s_start (b_pos r) + n < k' \/ k' < k \/ b_line r < m - 1 -> s_start (b_pos r) + n < s_stop sg) ->
  RInv1 (bset_pos r (pos_add (b_pos r) n)).
Proof.
  intros I Hn Hc. constructor; bsimpl; unfold pos_add; bsimpl; try (apply I); try reflexivity.
  - intros sg Hsg. destruct (j_cur _ I sg Hsg) as (C1 & C2 & C3). repeat split; try lia; try assumption. apply Hc. exact Hsg.
  - intros E. destruct (j_end _ I E). split; lia.
Qed.
Lemma bset_loff_id0 r : RInv0 r -> bset_loff r (-1) = r.
Proof. intros I. destruct r. unfold bset_loff. cbn. pose proof (i_loff _ I) as H. cbn in H. rewrite H. reflexivity. Qed.

(* the fast path: strictly inside the line *)
Lemma sim_advance_fast r r' n : EQS r r' -> 0 <= n < s_stop (b_pos r) - s_start (b_pos r) ->
  exists r1 r1', b_advance r n = Ok r1 /\ b_advance r' n = Ok r1' /\ EQS r1 r1' /\
                 b_line r1 = b_line r /\ b_pos r1 = pos_add (b_pos r) n.
Proof.
  intros (I & J & (El & Ep & Hl & Hq)) Hn. unfold b_advance. bsimpl. rewrite Ep.
  assert (Hp : (s_pad (b_pos r) =? 0) = true) by (pose proof (i_pad _ I); lia). rewrite Hp.
  replace (n <? s_stop (b_pos r) - s_start (b_pos r)) with true by lia. cbn [andb].
  eexists. eexists. split; [reflexivity|]. split; [reflexivity|].
  destruct (nth_pre_lt (b_line r)) as [sg Hsg]; [pose proof (i_line _ I); lia|].
  destruct (i_cur _ I sg Hsg) as (C1 & C2 & C3 & C4). destruct (cur_facts _ _ Hsg) as (F1 & F2 & _).
  split; [|split; reflexivity]. split; [|split].
  - apply (rinv0_add r n I); [lia|]. intros sg' Hsg' _. rewrite Hsg in Hsg'. inversion Hsg'; subst sg'. lia.
  - rewrite <- Ep. apply (rinv1_add (bset_loff r' (-1)) n (rinv1_loff _ _ J)); [lia|]. bsimpl. intros sg' Hsg' _. rewrite El, Hsg in Hsg'. inversion Hsg'; subst sg'. rewrite Ep. lia.
  - unfold EQ. bsimpl. unfold pos_add. bsimpl. repeat split; try assumption. left. lia.
Qed.

(* one step of the slow path *)
Lemma b_step_pad0 r : s_pad (b_pos r) = 0 ->
  b_step r = if (s_stop (b_pos r) - 1 <=? s_start (b_pos r)) && (s_stop (b_pos r) <? b_last r) then b_advance_line r
             else Ok (bset_pos r (pos_add (b_pos r) 1)).
Proof. intros H. unfold b_step. replace (s_pad (b_pos r) =? 0) with true by lia. reflexivity. Qed.

Lemma step_u0 r : RInv0 r ->
  RInv0 (bset_pos r (pos_add (b_pos r) 1)) \/
  exists sg, nth_error pre (Z.to_nat (b_line r)) = Some sg /\ (s_start (b_pos r) + 1 < k' \/ b_line r < m - 1) /\ s_stop sg <= s_start (b_pos r) + 1.
Proof.
  intros I. destruct (nth_error pre (Z.to_nat (b_line r))) as [sg|] eqn:Hsg.
  - destruct (Z_lt_dec (s_start (b_pos r) + 1) (s_stop sg)) as [Hlt2|Hge2].
    + left. rewrite <- (bset_loff_id0 r I) at 1. apply rinv0_add; [exact I|lia|]. intros sg' Hsg'. rewrite Hsg in Hsg'. inversion Hsg'; subst sg'. lia.
    + destruct (Z_lt_dec (s_start (b_pos r) + 1) k') as [Hlt|Hge]; [right; exists sg; split; [reflexivity|lia]|].
      destruct (Z_lt_dec (b_line r) (m - 1)) as [Hlt3|Hge3]; [right; exists sg; split; [reflexivity|lia]|].
      left. rewrite <- (bset_loff_id0 r I) at 1. apply rinv0_add; [exact I|lia|]. intros sg' _ C. lia.
  - left. rewrite <- (bset_loff_id0 r I) at 1. apply rinv0_add; [exact I|lia|]. intros sg' Hsg'. rewrite Hsg in Hsg'. discriminate Hsg'.
Qed.

(* a reader that is out of range stays out of range *)
Lemma out_step0 r r1 : RInv0 r -> Out r -> b_step r = Ok r1 ->
  RInv0 r1 /\ Out r1 /\ (b_line r <= m - 1 -> b_line r1 <= m - 1) /\ (b_line r = m - 1 -> r1 = bset_pos r (pos_add (b_pos r) 1)).
Proof.
  intros I O Hs. rewrite (b_step_pad0 r (i_pad _ I)), (i_last _ I) in Hs. pose proof (i_line _ I) as Hl0. pose proof m_pos as Hmp.
  pose proof (step_u0 r I) as U0'.
  destruct O as [O1|[O1 O2]].
  - destruct ((s_stop (b_pos r) - 1 <=? s_start (b_pos r)) && (s_stop (b_pos r) <? k')).
    + destruct (adv_line0 r I) as (y & Ey & Iy & Ly & _). rewrite Hs in Ey. inversion Ey; subst y. split; [exact Iy|]. split; [left; lia|lia].
    + inversion Hs; subst r1. split; [|split; [left; bsimpl; lia|bsimpl; lia]].
      destruct U0' as [I1|(sg2 & Hsg2 & _)]; [exact I1|]. destruct (nth_pre_ge _ _ O1 Hsg2).
  - destruct (nth_pre_lt (b_line r)) as [sg Hsg]; [lia|].
    destruct (i_cur _ I sg Hsg) as (C1 & _). destruct (cur_facts _ _ Hsg) as (_ & _ & _ & _ & _ & _ & _ & F8).
    rewrite Z2Nat.id in F8 by lia. specialize (F8 O1).
    replace (s_stop (b_pos r) <? k') with false in Hs by lia. rewrite andb_false_r in Hs. inversion Hs; subst r1.
    split; [|split; [right; bsimpl; unfold pos_add; bsimpl; lia|split; [bsimpl; lia|reflexivity]]].
    destruct U0' as [I1|(sg2 & Hsg2 & X1 & X2)]; [exact I1|lia].
Qed.

Lemma out_step1 r : RInv1 r -> Out' r ->
  exists r1, b_step r = Ok r1 /\ RInv1 r1 /\ Out' r1 /\ (b_line r <= m -> b_line r1 <= m) /\
             (b_line r = m - 1 -> r1 = bset_pos r (pos_add (b_pos r) 1)).
Proof.
  intros J O'. rewrite (b_step_pad0 r (j_pad _ J)), (j_last _ J). pose proof (j_line _ J) as Hl1. pose proof m_pos as Hmp.
  assert (U1' : (forall sg, nth_error pre (Z.to_nat (b_line r)) = Some sg -> s_start (b_pos r) + 1 < k' \/ k' < k \/ b_line r < m - 1 -> s_start (b_pos r) + 1 < s_stop sg) ->
                RInv1 (bset_pos r (pos_add (b_pos r) 1))).
  { intros Hc. apply rinv1_add; [exact J|lia|exact Hc]. }
  destruct O' as [O1'|[O1' O2']].
  - destruct (Z.eq_dec (b_line r) m) as [Em|Em].
    + destruct (j_end _ J Em) as [E1 E2]. replace (s_stop (b_pos r) <? k) with false by lia. rewrite andb_false_r.
      eexists. split; [reflexivity|]. split; [|split; [left; bsimpl; lia|split; [bsimpl; lia|intros C; lia]]].
      apply U1'. intros sg Hsg. rewrite Em in Hsg. destruct (nth_pre_ge m sg ltac:(lia) Hsg).
    + destruct ((s_stop (b_pos r) - 1 <=? s_start (b_pos r)) && (s_stop (b_pos r) <? k)).
      * destruct (adv_line1 r J) as (r1' & E1 & J1 & L1 & _). exists r1'. split; [exact E1|]. split; [exact J1|]. split; [left; lia|lia].
      * eexists. split; [reflexivity|]. split; [|split; [left; bsimpl; lia|split; [bsimpl; lia|intros C; lia]]].
        apply U1'. intros sg Hsg. destruct (nth_pre_ge (b_line r) sg ltac:(lia) Hsg).
  - destruct (nth_pre_lt (b_line r)) as [sg Hsg]; [lia|].
    destruct (j_cur _ J sg Hsg) as (D1 & D2 & D3). destruct (cur_facts _ _ Hsg) as (_ & _ & _ & _ & _ & _ & _ & F8).
    rewrite Z2Nat.id in F8 by lia. specialize (F8 O1').
    assert (Ek : k' = k). { destruct (Z_lt_dec k' k) as [X|X]; [|lia]. assert (s_start (b_pos r) < s_stop sg) by (apply D3; right; left; exact X). lia. }
    replace (s_stop (b_pos r) <? k) with false by lia. rewrite andb_false_r.
    eexists. split; [reflexivity|]. split; [|split; [right; bsimpl; unfold pos_add; bsimpl; lia|split; [bsimpl; lia|reflexivity]]].
    apply U1'. intros sg2 Hsg2 Hc. lia.
Qed.

Lemma sim_step r r' r1 : Sim r r' -> b_step r = Ok r1 ->
  exists r1', b_step r' = Ok r1' /\ Sim r1 r1' /\ (k' = k -> EQ r r' -> EQ r1 r1') /\
    (b_line r <= m - 1 -> b_line r1 <= m - 1) /\ (b_line r' <= m -> b_line r1' <= m).
Proof.
  intros (I & J & Hm) Hs.
  destruct Hm as [(El & Ep & Hl & Hq)|[O O']].
  - (* EQ *)
    rewrite (b_step_pad0 r (i_pad _ I)) in Hs. rewrite (b_step_pad0 r' (j_pad _ J)).
    rewrite (i_last _ I) in Hs. rewrite (j_last _ J).
    pose proof (i_line _ I) as Hl0. pose proof (j_line _ J) as Hl1. pose proof m_pos as Hmp.
    assert (U0 : forall x, b_advance_line r = Ok x -> RInv0 x /\ b_line x = b_line r + 1).
    { intros x Hx. destruct (adv_line0 r I) as (y & Ey & Iy & Ly & _). rewrite Hx in Ey. inversion Ey; subst y. auto. }
    pose proof (step_u0 r I) as U0'.
    assert (U1 : forall x, b_advance_line r' = Ok x -> RInv1 x /\ b_line x = b_line r' + 1).
    { intros x Hx. destruct (adv_line1 r' J) as (y & Ey & Iy & Ly & _). rewrite Hx in Ey. inversion Ey; subst y. auto. }
    assert (U1' : (forall sg, nth_error pre (Z.to_nat (b_line r')) = Some sg -> s_start (b_pos r') + 1 < k' \/ k' < k \/ b_line r' < m - 1 -> s_start (b_pos r') + 1 < s_stop sg) ->
                  RInv1 (bset_pos r' (pos_add (b_pos r') 1))).
    { intros Hc. apply rinv1_add; [exact J|lia|exact Hc]. }
    destruct (nth_pre_lt (b_line r)) as [sg Hsg]; [lia|].
    destruct (i_cur _ I sg Hsg) as (C1 & C2 & C3 & C4). destruct (cur_facts _ _ Hsg) as (F1 & F2 & F3 & F4 & F5 & F6 & F7 & F8).
    rewrite Z2Nat.id in F7, F8 by lia.
    assert (Hsg' : nth_error pre (Z.to_nat (b_line r')) = Some sg) by (rewrite El; exact Hsg).
    destruct (j_cur _ J sg Hsg') as (D1 & D2 & D3). rewrite Ep in D1, D2, D3.
    assert (HJ1 : s_start (b_pos r) + 1 < s_stop sg -> RInv1 (bset_pos r' (pos_add (b_pos r) 1))).
    { intros Hlt. rewrite <- Ep. apply U1'. intros sg2 Hsg2 _. rewrite Hsg' in Hsg2. inversion Hsg2; subst sg2. rewrite Ep. exact Hlt. }
    assert (HEQ : s_start (b_pos r) + 1 < k' \/ k' = k -> EQ (bset_pos r (pos_add (b_pos r) 1)) (bset_pos r' (pos_add (b_pos r) 1))).
    { intros Hc. unfold EQ. bsimpl. unfold pos_add. bsimpl. repeat split; assumption. }
    rewrite Ep.
    destruct (Z.eq_dec (b_line r) (m - 1)) as [Elast|Nlast].
    + (* the last line of pre *)
      specialize (F8 Elast). replace (s_stop (b_pos r) <? k') with false in Hs by lia. rewrite andb_false_r in Hs.
      inversion Hs; subst r1. clear Hs.
      destruct U0' as [I1|(sg2 & Hsg2 & X1 & X2)]; [|rewrite Hsg in Hsg2; inversion Hsg2; subst sg2; lia].
      destruct (Z_lt_dec k' k) as [Hgap|Hnogap].
      * assert (Hst : s_start (b_pos r) < k') by lia. specialize (C4 (or_introl Hst)).
        destruct (Z.eq_dec (s_start (b_pos r)) (k' - 1)) as [Eend|Nend].
        -- replace ((s_stop (b_pos r) - 1 <=? s_start (b_pos r)) && (s_stop (b_pos r) <? k)) with true by lia.
           destruct (adv_line1 r' J) as (r1' & E1 & J1 & L1 & _ & Pe & _). exists r1'. split; [exact E1|].
           split; [|split; [intros C; lia|split; [bsimpl; lia|intros _; lia]]].
           split; [exact I1|]. split; [exact J1|]. right. unfold Out, Out'. bsimpl. unfold pos_add. bsimpl. split; [right; lia|left; lia].
        -- replace ((s_stop (b_pos r) - 1 <=? s_start (b_pos r)) && (s_stop (b_pos r) <? k)) with false by lia.
           eexists. split; [reflexivity|]. split; [|split; [intros C; lia|split; [bsimpl; lia|bsimpl; lia]]].
           split; [exact I1|]. split; [apply HJ1; lia|left; apply HEQ; left; lia].
      * assert (Ek : k' = k) by lia.
        replace ((s_stop (b_pos r) - 1 <=? s_start (b_pos r)) && (s_stop (b_pos r) <? k)) with false by lia.
        eexists. split; [reflexivity|]. split; [|split; [intros _ _; apply HEQ; right; exact Ek|split; [bsimpl; lia|bsimpl; lia]]].
        split; [exact I1|]. split; [|left; apply HEQ; right; exact Ek].
        rewrite <- Ep. apply U1'. intros sg2 Hsg2 Hc. rewrite Hsg' in Hsg2. inversion Hsg2; subst sg2. rewrite Ep in *. lia.
    + (* a line before the last: the stop is below both ends *)
      assert (Hlt : b_line r < m - 1) by lia. specialize (F7 Hlt).
      assert (Hst : s_start (b_pos r) < s_stop sg).
      { apply C4. right. exact Hlt. }
      replace (s_stop (b_pos r) <? k') with true in Hs by lia. replace (s_stop (b_pos r) <? k) with true by lia. rewrite andb_true_r in *.
      destruct (s_stop (b_pos r) - 1 <=? s_start (b_pos r)) eqn:Ec.
      * destruct (sim_advance_line r r' r1 ltac:(split; [exact I|split; [exact J|left; repeat split; assumption]]) Hs) as (r1' & E1 & S1 & Q1).
        exists r1'. split; [exact E1|]. split; [exact S1|].
        destruct (U0 r1 Hs) as [_ L0]. destruct (U1 r1' E1) as [_ L1].
        split; [intros _ Q; apply Q1; [exact Q|lia]|]. split; lia.
      * inversion Hs; subst r1. clear Hs.
        destruct U0' as [I1|(sg2 & Hsg2 & X1 & X2)]; [|rewrite Hsg in Hsg2; inversion Hsg2; subst sg2; lia].
        eexists. split; [reflexivity|]. split; [|split; [intros _ _; apply HEQ; left; lia|split; [bsimpl; lia|bsimpl; lia]]].
        split; [exact I1|]. split; [apply HJ1; lia|left; apply HEQ; left; lia].
  - (* both out of range *)
    destruct (out_step0 r r1 I O Hs) as (I1 & O1 & B1 & X0).
    destruct (out_step1 r' J O') as (r1' & E1 & J1 & O1' & B1' & X1). exists r1'. split; [exact E1|].
    split; [split; [exact I1|split; [exact J1|right; split; assumption]]|].
    split; [|split; assumption].
    intros Ek (El & Ep & Hl & Hq). destruct O as [X|[Y1 Y2]]; [lia|].
    rewrite (X0 Y1), (X1 ltac:(lia)). unfold EQ. bsimpl. rewrite Ep. unfold pos_add. bsimpl. repeat split; try assumption. right. exact Ek.
Qed.

(* the slow path *)
Lemma out_slow0 : forall fuel r n r1, RInv0 r -> Out r -> b_advance_slow fuel r n = Ok r1 ->
  RInv0 r1 /\ Out r1 /\ (b_line r <= m - 1 -> b_line r1 <= m - 1).
Proof.
  induction fuel as [|f IH]; intros r n r1 I O H; [discriminate H|]. rewrite b_advance_slow_step in H.
  destruct (0 <? n); [|inversion H; subst r1; auto].
  destruct (b_step r) as [r2| |] eqn:E2; cbn [bind] in H; try discriminate.
  destruct (out_step0 r r2 I O E2) as (I2 & O2 & B2 & _).
  destruct (IH r2 (n - 1) r1 I2 O2 H) as (I1 & O1 & B1). split; [exact I1|]. split; [exact O1|]. intros C. apply B1, B2, C.
Qed.
Lemma out_slow1 : forall fuel r n, RInv1 r -> Out' r ->
  exists r1, b_advance_slow (S fuel) r n = Ok r1 /\ RInv1 r1 /\ Out' r1 /\ (b_line r <= m -> b_line r1 <= m) \/ Z.of_nat fuel < n.
Proof.
  induction fuel as [|f IH]; intros r n J O; rewrite b_advance_slow_step.
  - destruct (Z.ltb_spec 0 n) as [Hn|Hn]; [exists r; right; lia|]. exists r. left. auto.
  - destruct (Z.ltb_spec 0 n) as [Hn|Hn]; [|exists r; left; auto].
    destruct (out_step1 r J O) as (r2 & E2 & J2 & O2 & B2 & _). rewrite E2. cbn [bind].
    destruct (IH r2 (n - 1) J2 O2) as (r1 & [(E1 & J1 & O1 & B1)|C]); exists r1; [left|right; lia].
    split; [exact E1|]. split; [exact J1|]. split; [exact O1|]. intros C. apply B1, B2, C.
Qed.

Lemma sim_slow : forall fuel r r' n r1, Sim r r' -> b_advance_slow fuel r n = Ok r1 ->
  exists r1', b_advance_slow fuel r' n = Ok r1' /\ Sim r1 r1' /\ (k' = k -> EQ r r' -> EQ r1 r1') /\
    (b_line r <= m - 1 -> b_line r1 <= m - 1) /\ (b_line r' <= m -> b_line r1' <= m).
Proof.
  induction fuel as [|f IH]; intros r r' n r1 S H; [discriminate H|]. rewrite b_advance_slow_step in *.
  destruct (0 <? n); [|inversion H; subst r1; exists r'; auto].
  destruct (b_step r) as [r2| |] eqn:E2; cbn [bind] in H; try discriminate.
  destruct (sim_step r r' r2 S E2) as (r2' & E2' & S2 & Q2 & B2 & B2'). rewrite E2'. cbn [bind].
  destruct (IH r2 r2' (n - 1) r1 S2 H) as (r1' & E1' & S1 & Q1 & B1 & B1'). exists r1'. split; [exact E1'|]. split; [exact S1|].
  split; [intros Ek Q; apply Q1; [exact Ek|apply Q2; assumption]|]. split; intros C; [apply B1, B2, C|apply B1', B2', C].
Qed.

Lemma rinv0_loff r : RInv0 r -> RInv0 (bset_loff r (-1)).
Proof. intros I. rewrite (bset_loff_id0 r I). exact I. Qed.

(* Advance: n >= 0 *)
Lemma sim_advance r r' n r1 : Sim r r' -> 0 <= n -> b_advance r n = Ok r1 ->
  exists r1', b_advance r' n = Ok r1' /\ Sim r1 r1' /\ (k' = k -> EQ r r' -> EQ r1 r1') /\
    (b_line r <= m - 1 -> b_line r1 <= m - 1) /\ (b_line r' <= m -> b_line r1' <= m).
Proof.
  intros (I & J & Hm) Hn H.
  assert (Hp : (s_pad (b_pos r) =? 0) = true) by (pose proof (i_pad _ I); lia).
  assert (Hp' : (s_pad (b_pos r') =? 0) = true) by (pose proof (j_pad _ J); lia).
  pose proof (i_line _ I) as Hl0. pose proof (j_line _ J) as Hl1. pose proof m_pos as Hmp.
  assert (SL : Sim (bset_loff r (-1)) (bset_loff r' (-1))).
  { split; [apply rinv0_loff; exact I|]. split; [apply rinv1_loff; exact J|]. exact Hm. }
  (* the reader over pre ++ [e] on its own, out of range *)
  assert (A1 : Out' r' -> exists r1', b_advance r' n = Ok r1' /\ RInv1 r1' /\ Out' r1' /\ (b_line r' <= m -> b_line r1' <= m)).
  { intros O'. unfold b_advance. bsimpl. rewrite Hp', andb_true_r.
    destruct (n <? s_stop (b_pos r') - s_start (b_pos r')) eqn:Ef.
    - eexists. split; [reflexivity|]. split; [|split; [|bsimpl; lia]].
      + apply (rinv1_add (bset_loff r' (-1)) n (rinv1_loff _ _ J) Hn). bsimpl. intros sg Hsg Hc.
        destruct (j_cur _ J sg Hsg) as (D1 & _). lia.
      + unfold Out' in *. bsimpl. unfold pos_add; bsimpl. destruct O' as [O1|[O1 O2]]; [left; exact O1|right; lia].
    - replace (Z.to_nat n + 1)%nat with (S (Z.to_nat n)) by lia.
      destruct (out_slow1 (Z.to_nat n) (bset_loff r' (-1)) n (rinv1_loff _ _ J) O') as (r1' & [X|X]); [exists r1'; exact X|lia]. }
  unfold b_advance in H. bsimpl. rewrite Hp, andb_true_r in H.
  assert (Hm2 : EQ r r' \/ ((Out r /\ Out' r') /\ ~ EQ r r')) by (destruct (EQ_dec r r'); [left; assumption|right; destruct Hm; tauto]).
  destruct Hm2 as [(El & Ep & Hl & Hq)|[[O O'] Hneq]].
  - unfold b_advance. bsimpl. rewrite Hp', andb_true_r, Ep.
    destruct (n <? s_stop (b_pos r) - s_start (b_pos r)) eqn:Ef.
    + inversion H; subst r1. clear H. eexists. split; [reflexivity|].
      destruct (nth_pre_lt (b_line r)) as [sg Hsg]; [lia|].
      destruct (i_cur _ I sg Hsg) as (C1 & C2 & C3 & C4). destruct (cur_facts _ _ Hsg) as (F1 & F2 & _).
      assert (HE : EQ (bset_pos (bset_loff r (-1)) (pos_add (b_pos r) n)) (bset_pos (bset_loff r' (-1)) (pos_add (b_pos r) n))).
      { unfold EQ. bsimpl. unfold pos_add. bsimpl. repeat split; try assumption. left. lia. }
      split; [|split; [intros _ _; exact HE|bsimpl; lia]].
      split; [|split; [|left; exact HE]].
      * apply (rinv0_add r n I Hn). intros sg' Hsg' _. rewrite Hsg in Hsg'. inversion Hsg'; subst sg'. lia.
      * rewrite <- Ep. apply (rinv1_add (bset_loff r' (-1)) n (rinv1_loff _ _ J) Hn). bsimpl. intros sg' Hsg' _.
        rewrite El, Hsg in Hsg'. inversion Hsg'; subst sg'. rewrite Ep. lia.
    + destruct (sim_slow _ _ _ _ _ SL H) as (r1' & E1 & S1 & Q1 & B1 & B1'). exists r1'. split; [exact E1|]. split; [exact S1|].
      split; [intros Ek _; apply Q1; [exact Ek|unfold EQ; bsimpl; auto]|]. bsimpl. auto.
  - destruct (A1 O') as (r1' & E1 & J1 & O1' & B1'). exists r1'. split; [exact E1|].
    assert (R0 : RInv0 r1 /\ Out r1 /\ (b_line r <= m - 1 -> b_line r1 <= m - 1)).
    { destruct (n <? s_stop (b_pos r) - s_start (b_pos r)) eqn:Ef.
      - inversion H; subst r1. split; [|split; [|bsimpl; lia]].
        + apply (rinv0_add r n I Hn). intros sg Hsg Hc. destruct (i_cur _ I sg Hsg) as (C1 & _). lia.
        + unfold Out in *. bsimpl. unfold pos_add; bsimpl. destruct O as [O1|[O1 O2]]; [left; exact O1|right; lia].
      - exact (out_slow0 _ _ _ _ (rinv0_loff _ I) O H). }
    destruct R0 as (I1 & O1 & B1).
    split; [split; [exact I1|split; [exact J1|right; split; assumption]]|].
    split; [|split; assumption].
    (* both EQ and out of range: only with k' = k at the end of the last line; both take the same path *)
    intros _ Q. destruct (Hneq Q).
Qed.

(* the reader over pre on its last line: Advance only moves the start *)
Lemma step_last0 r r1 : RInv0 r -> b_line r = m - 1 -> b_step r = Ok r1 ->
  RInv0 r1 /\ b_line r1 = m - 1 /\ s_start (b_pos r1) = s_start (b_pos r) + 1.
Proof.
  intros I Hl Hs. rewrite (b_step_pad0 r (i_pad _ I)), (i_last _ I) in Hs. pose proof m_pos as Hmp.
  destruct (nth_pre_lt (b_line r)) as [sg Hsg]; [lia|].
  destruct (i_cur _ I sg Hsg) as (C1 & _). destruct (cur_facts _ _ Hsg) as (_ & _ & _ & _ & _ & _ & _ & F8).
  rewrite Z2Nat.id in F8 by lia. specialize (F8 Hl).
  replace (s_stop (b_pos r) <? k') with false in Hs by lia. rewrite andb_false_r in Hs. inversion Hs; subst r1.
  split; [|split; [exact Hl|reflexivity]].
  destruct (step_u0 r I) as [I1|(sg2 & Hsg2 & X1 & X2)]; [exact I1|]. rewrite Hsg in Hsg2. inversion Hsg2; subst sg2.
  destruct (i_cur _ I sg Hsg) as (_ & _ & _ & C4). lia.
Qed.
Lemma slow_last0 : forall fuel r n r1, RInv0 r -> b_line r = m - 1 -> b_advance_slow fuel r n = Ok r1 ->
  b_line r1 = m - 1 /\ s_start (b_pos r1) = s_start (b_pos r) + Z.max 0 n.
Proof.
  induction fuel as [|f IH]; intros r n r1 I Hl H; [discriminate H|]. rewrite b_advance_slow_step in H.
  destruct (Z.ltb_spec 0 n) as [Hn|Hn]; [|inversion H; subst r1; split; [exact Hl|lia]].
  destruct (b_step r) as [r2| |] eqn:E2; cbn [bind] in H; try discriminate.
  destruct (step_last0 r r2 I Hl E2) as (I2 & L2 & P2). destruct (IH r2 (n - 1) r1 I2 L2 H) as [L1 P1]. split; [exact L1|lia].
Qed.
Lemma adv_last0 r n r1 : RInv0 r -> b_line r = m - 1 -> 0 <= n -> b_advance r n = Ok r1 ->
  b_line r1 = m - 1 /\ s_start (b_pos r1) = s_start (b_pos r) + n.
Proof.
  intros I Hl Hn H. unfold b_advance in H. bsimpl.
  destruct ((n <? s_stop (b_pos r) - s_start (b_pos r)) && (s_pad (b_pos r) =? 0)).
  - inversion H; subst r1. bsimpl. auto.
  - destruct (slow_last0 _ _ _ _ (rinv0_loff _ I) Hl H) as [L1 P1]. bsimpl. split; [exact L1|lia].
Qed.

(* ---------- Value: the empty segment behind the lines contributes nothing ---------- *)
Lemma find_line_pre start : forall fuel line, line < m ->
  b_value_find_line fuel (pre ++ [e]) line start = b_value_find_line fuel pre line start.
Proof.
  induction fuel as [|f IH]; intros line Hl; [reflexivity|]. cbn [b_value_find_line].
  destruct (Z.leb_spec 0 line) as [H0|H0]; [|reflexivity].
  destruct (nth_pre_lt line) as [sg Hsg]; [lia|]. destruct (seg_at_pre line sg H0 Hsg) as [E1 E2]. rewrite E1, E2. cbn [bind].
  destruct (s_start sg <=? start); [reflexivity|]. apply IH. lia.
Qed.

Lemma value_loop_pre r r' sg : b_src r = src -> b_segs r = pre -> b_src r' = src -> b_segs r' = pre ++ [e] ->
  forall fuel line i acc v, line < m \/ i < 0 ->
  b_value_loop fuel r sg line i acc = Ok v -> b_value_loop (S fuel) r' sg line i acc = Ok v.
Proof.
  intros Hs Hg Hs' Hg'. induction fuel as [|f IH]; intros line i acc v Hli H; [discriminate H|].
  cbn [b_value_loop] in H. remember (S f) as f1 eqn:Ef1. cbn [b_value_loop]. subst f1.
  unfold b_nsegs in *. rewrite Hg in H. rewrite Hg', zlen_pre_e. rewrite Hs in H. rewrite Hs'.
  destruct (Z.ltb_spec line m) as [Hlt|Hge].
  - replace (line <? m + 1) with true by lia.
    destruct (Z_lt_dec line 0) as [Hneg|Hnn].
    { unfold seg_at in H. replace ((0 <=? line) && (line <? zlen pre)) with false in H by lia. discriminate H. }
    destruct (nth_pre_lt line) as [s Hsg]; [lia|]. destruct (seg_at_pre line s ltac:(lia) Hsg) as [E1 E2]. rewrite E1 in H. rewrite E2. cbn [bind] in *.
    destruct (if i <? 0 then (s_start s, acc ++ pad_bytes s) else (i, acc ++ pad_bytes sg)) as [i1 acc1].
    destruct (copy_range src i1 (s_stop sg) (s_stop s)) as [w| |]; cbn [bind] in *; try discriminate.
    destruct (s_stop sg <=? s_stop s); [exact H|]. apply IH; [right; lia|exact H].
  - inversion H; subst v. clear H.
    destruct (Z.ltb_spec line (m + 1)) as [Hlt1|Hge1]; [|reflexivity].
    assert (line = m) by lia. subst line. rewrite seg_at_e. cbn [bind].
    assert (Hi : i < 0) by (destruct Hli; [lia|assumption]). replace (i <? 0) with true by lia.
    assert (Hpb : pad_bytes e = []) by (unfold pad_bytes; rewrite He2; reflexivity). rewrite Hpb, app_nil_r.
    unfold copy_range. replace (k <? Z.min (s_stop sg) (s_stop e)) with false by lia. cbn [bind]. rewrite app_nil_r.
    destruct (s_stop sg <=? s_stop e); [reflexivity|].
    cbn [b_value_loop]. unfold b_nsegs. rewrite Hg', zlen_pre_e. replace (m + 1 <? m + 1) with false by lia. reflexivity.
Qed.

Lemma sim_value r r' sg v : b_src r = src -> b_segs r = pre -> b_src r' = src -> b_segs r' = pre ++ [e] ->
  b_value r sg = Ok v -> b_value r' sg = Ok v.
Proof.
  intros Hs Hg Hs' Hg' H. unfold b_value in *. destruct (s_stop sg - s_start sg + 1 <? 0); [discriminate H|].
  unfold b_nsegs in *. rewrite Hg in H. rewrite Hg', zlen_pre_e. pose proof m_pos as Hmp.
  replace (length (pre ++ [e]) + 1)%nat with (S (length pre + 1)) by (rewrite app_length; cbn [length]; lia).
  assert (Hfl : b_value_find_line (S (length pre + 1)) (pre ++ [e]) (m + 1 - 1) (s_start sg) =
                if k <=? s_start sg then Ok m else b_value_find_line (length pre + 1) pre (m - 1) (s_start sg)).
  { replace (m + 1 - 1) with m by lia. cbn [b_value_find_line]. replace (0 <=? m) with true by lia. rewrite seg_at_e. cbn [bind].
    destruct (k <=? s_start sg); [reflexivity|]. apply find_line_pre. lia. }
  rewrite Hfl. clear Hfl.
  destruct (Z.leb_spec k (s_start sg)) as [Hk|Hk].
  - (* the segment lies behind all lines *)
    pose proof kp_pos as Hkp. cbn [bind]. replace (s_start sg <? 0) with false by lia. replace (m <? 0) with false by lia.
    replace (s_start sg <? 0) with false in H by lia.
    destruct (nth_pre_lt (m - 1)) as [ls Hls]; [lia|]. destruct (seg_at_pre (m - 1) ls ltac:(lia) Hls) as [El _].
    destruct (cur_facts _ _ Hls) as (F1 & _ & _ & _ & _ & _ & _ & F8). rewrite Z2Nat.id in F8 by lia. specialize (F8 eq_refl).
    replace (length pre + 1)%nat with (S (length pre)) in H by lia. cbn [b_value_find_line] in H.
    replace (0 <=? m - 1) with true in H by lia. rewrite El in H. cbn [bind] in H. replace (s_start ls <=? s_start sg) with true in H by lia.
    cbn [bind] in H. replace (m - 1 <? 0) with false in H by lia.
    destruct (length pre) as [|lp] eqn:Elp; [unfold zlen in Hmp; rewrite Elp in Hmp; cbn in Hmp; lia|].
    cbn [b_value_loop] in H. unfold b_nsegs in H. rewrite Hg, Hs in H. replace (m - 1 <? m) with true in H by lia. rewrite El in H. cbn [bind] in H.
    replace (s_start sg <? 0) with false in H by lia.
    unfold copy_range in H. replace (s_start sg <? Z.min (s_stop sg) (s_stop ls)) with false in H by lia. cbn [bind] in H. rewrite app_nil_r in H.
    assert (Hv : v = [] ++ pad_bytes sg).
    { destruct (s_stop sg <=? s_stop ls); [inversion H; reflexivity|].
      replace (m - 1 + 1 <? m) with false in H by lia. inversion H; reflexivity. }
    cbn [Nat.add b_value_loop]. unfold b_nsegs. rewrite Hg', Hs', zlen_pre_e. replace (m <? m + 1) with true by lia. rewrite seg_at_e. cbn [bind].
    replace (s_start sg <? 0) with false by lia.
    unfold copy_range. replace (s_start sg <? Z.min (s_stop sg) (s_stop e)) with false by lia. cbn [bind]. rewrite app_nil_r.
    destruct (s_stop sg <=? s_stop e); [rewrite Hv; reflexivity|].
    replace (m + 1 <? m + 1) with false by lia. rewrite Hv. reflexivity.
  - destruct (b_value_find_line (length pre + 1) pre (m - 1) (s_start sg)) as [line| |] eqn:Ef; cbn [bind] in *; try discriminate.
    assert (Hline : line < m).
    { assert (G : forall fuel l0, l0 < m -> b_value_find_line fuel pre l0 (s_start sg) = Ok line -> line < m).
      { induction fuel as [|f IH]; intros l0 Hl0 Hf; [discriminate Hf|]. cbn [b_value_find_line] in Hf.
        destruct (0 <=? l0); [|injection Hf as <-; exact Hl0]. destruct (seg_at pre l0) as [s| |]; cbn [bind] in Hf; try discriminate.
        destruct (s_start s <=? s_start sg); [injection Hf as <-; exact Hl0|]. apply (IH (l0 - 1)); [lia|exact Hf]. }
      exact (G _ (m - 1) ltac:(lia) Ef). }
    destruct (s_start sg <? 0).
    + apply (value_loop_pre r r' sg Hs Hg Hs' Hg'); [right; lia|exact H].
    + destruct (line <? 0).
      * replace (0 <? m) with true in H by lia. discriminate H.
      * apply (value_loop_pre r r' sg Hs Hg Hs' Hg'); [left; exact Hline|exact H].
Qed.

(* ---------- PrecendingCharacter (at the same position of a line of pre) ---------- *)
Lemma sim_preceding r r' : EQS r r' -> b_preceding r' = b_preceding r.
Proof.
  intros (I & J & (El & Ep & Hl & Hq)). unfold b_preceding, b_nsegs.
  rewrite (i_segs _ I), (j_segs _ J), (i_src _ I), (j_src _ J), zlen_pre_e, El, Ep.
  pose proof m_pos as Hmp. pose proof (i_line _ I) as Hl0.
  destruct (negb (s_pad (b_pos r) =? 0)); [reflexivity|].
  replace (m + 1 <? 1) with false by lia. replace (m <? 1) with false by lia.
  destruct (nth_pre_lt 0) as [fs Hfs]; [lia|]. destruct (seg_at_pre 0 fs ltac:(lia) Hfs) as [E0 E0']. rewrite E0, E0'. cbn [bind].
  destruct ((b_line r =? 0) && (s_start (b_pos r) <=? s_start fs)); [reflexivity|].
  replace (b_line r <? m + 1) with true by lia. replace (b_line r <? m) with true by lia.
  destruct (nth_pre_lt (b_line r)) as [cs Hcs]; [lia|]. destruct (seg_at_pre (b_line r) cs Hl0 Hcs) as [Ec Ec']. rewrite Ec, Ec'.
  destruct (Z.ltb_spec 0 (b_line r)) as [Hpos|Hz]; cbn [andb bind]; [|reflexivity].
  destruct (s_start (b_pos r) <=? s_start cs); [|reflexivity].
  destruct (nth_pre_lt (b_line r - 1)) as [ps Hps]; [lia|]. destruct (seg_at_pre (b_line r - 1) ps ltac:(lia) Hps) as [Ep1 Ep1']. rewrite Ep1, Ep1'.
  reflexivity.
Qed.

(* ---------- NewBlockReader ---------- *)
Lemma sim_new r : new_block_reader src pre = Ok r ->
  exists r', new_block_reader src (pre ++ [e]) = Ok r' /\ EQS r r' /\ b_in_range r = true.
Proof.
  intros H. unfold new_block_reader, b_reset_position, b_nsegs in *. bsimpl. rewrite zlen_pre_e. pose proof m_pos as Hmp.
  replace (0 <? m) with true in H by lia. replace (0 <? m + 1) with true by lia.
  destruct (seg_at_last pre Hne) as (ls & Els & Hls). rewrite Els in H. replace (m + 1 - 1) with m by lia. rewrite seg_at_e. cbn [bind] in *. bsimpl.
  unfold b_advance_line, b_set_position, b_nsegs in *. bsimpl. rewrite zlen_pre_e. replace (-1 + 1) with 0 in * by lia.
  replace (0 <? m) with true in H by lia. replace (0 <? m + 1) with true by lia. cbn [Z.eqb] in *.
  destruct (nth_pre_lt 0) as [fs Hfs]; [lia|]. destruct (seg_at_pre 0 fs ltac:(lia) Hfs) as [E0 E0']. rewrite E0 in H. rewrite E0'. cbn [bind] in *. bsimpl.
  inversion H; subst r. clear H. eexists. split; [reflexivity|].
  destruct (cur_facts _ _ Hfs) as (F1 & F2 & F3 & F4 & F5 & _).
  split; [split; [|split]|].
  - constructor; bsimpl; try reflexivity; try lia; try assumption; try (symmetry; exact Hls).
    intros sg Hsg. change (Z.to_nat 0) with O in *. rewrite Hfs in Hsg. inversion Hsg; subst sg. repeat split; lia.
  - constructor; bsimpl; try reflexivity; try lia; try assumption; try (symmetry; exact He1).
    intros sg Hsg. change (Z.to_nat 0) with O in *. rewrite Hfs in Hsg. inversion Hsg; subst sg. repeat split; lia.
  - unfold EQ. bsimpl. repeat split; try lia.
  - unfold b_in_range, b_nsegs. bsimpl. lia.
Qed.

End Sim.
