(* Helper file 5 for TypoDefWfTotBlkOpenA.v: try_parsersD over the dispatch list of a line whose first
   byte behind the indentation is ':' ([DDefList; DDefDesc] ++ the free parsers) below a parent that is
   no DefinitionList. *)
Require Import GM.model.Base GM.model.Util GM.model.Reader GM.model.ReaderSpec GM.model.Blocks GM.model.ListItem
               GM.model.LeafBlocks GM.model.CodeBlock GM.model.LinkDest GM.model.Regex GM.model.BlockParse
               GM.model.TypoDefParseD.
Require Import GM.proofs.ReaderProofs GM.proofs.BlocksProofs
               GM.proofs.ParseBlocksTotalReader GM.proofs.ParseBlocksTotalDefs GM.proofs.ParseBlocksTotalSpec
               GM.proofs.ParseBlocksTotalSt GM.proofs.ParseBlocksTotalShape GM.proofs.ParseBlocksTotalLeaf
               GM.proofs.ParseBlocksTotalOpen
               GM.proofs.GfmConservativeDefs GM.proofs.TypoDefConservativeBlkInv
               GM.proofs.TypoDefWfTotBlkDefs GM.proofs.TypoDefWfTotBlkSpec GM.proofs.TypoDefWfTotBlkOpenI
               GM.proofs.TypoDefWfTotBlkOpenAI GM.proofs.TypoDefWfTotBlkOpenA1 GM.proofs.TypoDefWfTotBlkOpenA2
               GM.proofs.TypoDefWfTotBlkOpenA3 GM.proofs.TypoDefWfTotBlkOpenA4.
From Coq Require Import ZArith Lia List Bool.
Import ListNotations.
Open Scope Z_scope.

Lemma scache_dcl s s' : scache s s' -> dcl s s'.
Proof. intros (E1 & E2 & E3). unfold dcl. rewrite E2. csplit; auto. Qed.

Lemma BoffOK_same s s' : BoffOK s -> same_pos (s_r s) (s_r s') -> c_boff (s_c s') = c_boff (s_c s) -> BoffOK s'.
Proof.
  intros [B1 B2] Sp Eb. unfold BoffOK, sview. rewrite (same_pos_view _ _ Sp), Eb.
  destruct Sp as (_ & Ep & _). rewrite Ep. split; assumption.
Qed.

Section S.
Variable space_table punct_table : list N.
Variable norm : bytes -> bytes.
Variable re_t1o re_t1c re_t2 re_t3 re_t4 re_t5 re_t6 re_t7 : re.
Variable allowed_tags : list bytes.
Variable src : bytes.
Hypothesis tbl : TblOK space_table.
Notation SI := (SI space_table src).
Notation SD := (SD space_table src).
Notation TPD := (try_parsersD space_table punct_table norm re_t1o re_t2 re_t3 re_t4 re_t5 re_t6 re_t7 allowed_tags).
Notation OPop := (OPop space_table src).
Notation OPush := (OPush space_table src).
Notation ODecl := (ODecl space_table src).
Notation OPopD := (OPopD space_table src).
Notation OPushDL := (OPushDL space_table src).
Notation try_parsersD_cons := (try_parsersD_cons space_table punct_table norm re_t1o re_t2 re_t3 re_t4 re_t5 re_t6 re_t7 allowed_tags).
Notation try_parsersD_ok := (try_parsersD_ok space_table punct_table norm re_t1o re_t1c re_t2 re_t3 re_t4 re_t5 re_t6 re_t7 allowed_tags src tbl).
Notation i_deflist_open_ok := (i_deflist_open_ok space_table punct_table norm re_t1o re_t1c re_t2 re_t3 re_t4 re_t5 re_t6 re_t7 allowed_tags src tbl).
Notation i_defdesc_open_none := (i_defdesc_open_none space_table punct_table norm re_t1o re_t1c re_t2 re_t3 re_t4 re_t5 re_t6 re_t7 allowed_tags src tbl).
Notation dl_new_ok := (dl_new_ok space_table punct_table norm re_t1o re_t1c re_t2 re_t3 re_t4 re_t5 re_t6 re_t7 allowed_tags src tbl).
Notation dl_move_ok := (dl_move_ok space_table punct_table norm re_t1o re_t1c re_t2 re_t3 re_t4 re_t5 re_t6 re_t7 allowed_tags src tbl).

Lemma colon_ok parent pn blank cont res w s0 s : dcl s0 s -> SD s -> sin s -> BoffOK s -> OffOK s ->
  nth_error (s_h s) parent = Some pn -> is_dl pn = false -> lastatt s -> bk pn <> BList ->
  exists t, TPD [DDefList; DDefDesc; DCore PCodeBlock; DCore PParagraph] parent blank cont res w s = Ok t /\
    (((ODecl pn free_parsers cont res w s0 t \/ OPop parent pn res w s0 t \/ OPush parent pn cont s0 t) /\
      TCK (s_h s0) t /\ DN (s_h s0) t)
     \/ OPopD parent pn res w s0 t \/ OPushDL parent pn cont s0 t).
Proof using All.
  intros D [HS HT] Hin HB HO Hp Hndl Hatt Hnl.
  assert (Rest : forall s2, dcl s0 s2 -> SI s2 -> TC (s_h s2) -> sin s2 -> BoffOK s2 ->
            nth_error (s_h s2) parent = Some pn -> lastatt s2 ->
            exists t, TPD (map DCore free_parsers) parent blank cont res w s2 = Ok t /\
              (((ODecl pn free_parsers cont res w s0 t \/ OPop parent pn res w s0 t \/ OPush parent pn cont s0 t) /\
                TCK (s_h s0) t /\ DN (s_h s0) t)
               \/ OPopD parent pn res w s0 t \/ OPushDL parent pn cont s0 t)).
  { intros s2 D2 S2 T2 Hin2 HB2 Hp2 Hatt2.
    destruct (try_parsersD_ok parent pn blank cont res w s0 free_parsers s2 D2) as (t & Et & O); [|exact T2|].
    - unfold TI. csplit; auto; [intros K; contradiction|]. intros C. cbn in C. intuition discriminate.
    - exists t. split; [exact Et|left; exact O]. }
  rewrite try_parsersD_cons. cbn [can_interrupt_paragraphD can_accept_indentedD negb]. rewrite andb_false_r, andb_true_r.
  destruct (3 <? w) eqn:C2.
  - rewrite try_parsersD_cons. cbn [can_interrupt_paragraphD can_accept_indentedD negb]. rewrite andb_false_r, andb_true_r, C2.
    apply (Rest s); auto.
  - cbn [p_openD].
    destruct (i_deflist_open_ok s parent pn (conj HS HT) Hin HB HO Hp) as (s1 & o & E & [S1 T1] & Sp & Ec & Ho).
    rewrite E. cbn [bind]. cbv iota beta.
    destruct o as [[[node kids] req]|].
    + destruct Ho as (-> & _ & HDL & l & ln & W & Hl & El & HW & Hcase).
      assert (Fin : forall t, OPopD parent pn res w s t \/ OPushDL parent pn cont s t ->
                ((ODecl pn free_parsers cont res w s0 t \/ OPop parent pn res w s0 t \/ OPush parent pn cont s0 t) /\
                 TCK (s_h s0) t /\ DN (s_h s0) t)
                \/ OPopD parent pn res w s0 t \/ OPushDL parent pn cont s0 t).
      { intros t [O|O]; right; [left; eapply OPopD_pre; eassumption|right; eapply OPushDL_pre; eassumption]. }
      destruct Hcase as [(-> & Kl & -> & Eh)|[(-> & Kl & Hne & Hc & nn & En & Hdl & Eh)|(-> & Hdl & -> & Eh)]].
      * destruct (dl_new_ok parent pn blank cont res w s s1 l ln W (conj HS HT) Hin Hp Hatt Hnl C2 HDL HW (conj S1 T1) Sp Ec Hl El Kl Eh)
          as (t & Et & O).
        exists t. split; [exact Et|]. apply Fin, O.
      * destruct (dl_move_ok parent pn blank cont res s s1 node nn W (para_ref l) (conj HS HT) Hin Hp Hatt Hnl HDL HW (conj S1 T1) Sp Ec Hc En Hdl Eh)
          as (t & Et & O).
        { intros x Ex. unfold para_ref in Ex. injection Ex as <-.
          destruct (TC_last_attached (s_h s) parent pn l HT Hp Hl) as (ln' & El' & Pl).
          rewrite El in El'. injection El' as <-. exists l, ln. auto. }
        exists t. split; [exact Et|]. apply Fin. right. exact O.
      * destruct (dl_move_ok parent pn blank cont res s s1 l ln W None (conj HS HT) Hin Hp Hatt Hnl HDL HW (conj S1 T1) Sp Ec (last_id_in _ _ Hl) El Hdl Eh)
          as (t & Et & O).
        { intros x Ex. discriminate. }
        exists t. split; [exact Et|]. apply Fin. right. exact O.
    + assert (D1 : dcl s s1) by (unfold dcl; rewrite Ec; csplit; auto).
      rewrite try_parsersD_cons. cbn [can_interrupt_paragraphD can_accept_indentedD negb]. rewrite andb_false_r, andb_true_r, C2.
      cbn [p_openD].
      assert (HB1 : BoffOK s1) by (eapply BoffOK_same; [exact HB|exact Sp|rewrite Ec; reflexivity]).
      destruct (i_defdesc_open_none s1 parent pn S1 (proj1 (dcl_sin _ _ D1) Hin) HB1) as (s2 & E2 & S2 & C12);
        [rewrite Ho; exact Hp|exact Hndl|].
      rewrite E2. cbn [bind]. cbv iota beta.
      pose proof (scache_dcl _ _ C12) as D2. pose proof (dcl_trans _ _ _ D1 D2) as D12.
      apply (Rest s2).
      * eapply dcl_trans; eassumption.
      * exact S2.
      * destruct D12 as (Eh & _). rewrite Eh. exact HT.
      * apply (dcl_sin _ _ D12), Hin.
      * destruct C12 as (_ & Ec2 & Sp2). eapply BoffOK_same; [exact HB1|exact Sp2|rewrite Ec2; reflexivity].
      * destruct D12 as (Eh & _). rewrite Eh. exact Hp.
      * apply (dcl_lastatt _ _ D12 Hatt).
Qed.

End S.
