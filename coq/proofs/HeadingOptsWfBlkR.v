(* HeadingOptsWf, part R: Open of the ATX heading parser with the Attribute option (model/HeadingOpts.v: atx_open_h)
   satisfies the Open post-condition of part C (open_post PATX) and keeps the attribute invariant AI. *)
Require Import GM.model.Base GM.model.Util GM.model.Reader GM.model.ReaderSpec GM.model.Blocks GM.model.ListItem
               GM.model.LeafBlocks GM.model.CodeBlock GM.model.LinkDest GM.model.Regex GM.model.HtmlWriter
               GM.model.Html GM.model.HtmlSpec GM.model.Attr GM.model.Ids GM.model.BlockParse GM.model.InlineParse
               GM.model.HeadingOpts.
Require Import GM.proofs.ReaderProofs GM.proofs.BlockRangeProofs GM.proofs.ParseInv
               GM.proofs.ParseBlocksRangeA GM.proofs.HeadingOptsWfBlkB GM.proofs.HeadingOptsWfBlkC
               GM.proofs.HeadingOptsWfDefs GM.proofs.HeadingOptsWfAttr.
From Coq Require Import ZArith Lia Sorted.
Open Scope Z_scope.

(* the "!parsed" path of atx_open_h (a local function there) *)
Definition plainH (level : Z) (body : option (Z * Z)) (sg : seg) (x : sth) : result (sth * open_res) :=
  let lines := match body with
               | None => []
               | Some (a, b) => [mkseg (s_start sg + a - s_pad sg) (s_start sg + b - s_pad sg)]
               end in
  let '(s, id) := new_node (hx_s x) (set_lines (mknode BHeading level) lines) in
  Ok (sth_s x s, Some (id, false, false)).

Section R.
Variable hc : hcfg.
Variable space_table punct_table : list N.
Variable norm : bytes -> bytes.
Variable re_t1o re_t1c re_t2 re_t3 re_t4 re_t5 re_t6 re_t7 : re.
Variable allowed_tags : list bytes.
Variable utf8len_table : list N.
Variable spaces : bytes.
Variable src : bytes.
Hypothesis sp32 : is_space space_table 32%N = true.
Set Default Proof Using "All".

Notation CC f := (f space_table punct_table norm re_t1o re_t1c re_t2 re_t3 re_t4 re_t5 re_t6 re_t7 allowed_tags src sp32) (only parsing).
Notation SInv := (SInv space_table src).
Notation HI := (HI space_table src).
Notation nodeP := (nodeP space_table src).
Notation oline := (oline src).
Notation olineE := (olineE src).
Notation fin_lines := (fin_lines src).
Notation fin_linesH := (fin_linesH src).
Notation open_post := (open_post space_table src).
Notation parse_attrs := (ParseAttributesModel space_table punct_table).
Hypothesis Hsrc : bytes_ok src.

Ltac node_cbn := cbn [mknode set_lines set_seg set_i2 set_blank set_tight blines b_seg bk b_i1 bch bpar].

(* ---------- atx_open_h with the local function named ---------- *)
Lemma atx_open_h_eq x : atx_open_h hc space_table punct_table x =
  (y <- peek_line_s (hx_s x) ;;
   let '(s, line, sg) := y in
   let x := sth_s x s in
   let line := line_of line in
   let pos := c_boff (s_c s) in
   a <- atx_open space_table line pos ;;
   match a with
   | None => Ok (x, None)
   | Some (level, body) =>
     if negb (h_attr hc) then plainH level body sg x
     else
       match atx_bounds space_table line pos with
       | None => plainH level body sg x
       | Some (origstart, stop) =>
         cl <- closure_scan space_table punct_table (S (length line)) line (origstart - 1) stop ;;
         match cl with
         | None => plainH level body sg x
         | Some (copen, cclose) =>
           if negb (0 <? cclose) then plainH level body sg x
           else
             r <- r_advance (s_r (hx_s x)) cclose ;;
             z <- parse_attrs r ;;
             let '(r, res) := z in
             w <- r_peek_line r ;;
             let '(r, rest, _) := w in
             let x := sth_s x (st_r (hx_s x) r) in
             match res with
             | Some attrs =>
               if Reader.is_blank space_table (line_of rest) then
                 let ln := mkseg (s_start sg + origstart - s_pad sg) (s_start sg + copen - s_pad sg) in
                 let '(s, id) := new_node (hx_s x) (set_lines (mknode BHeading level) [ln]) in
                 Ok (set_node_attrs (sth_s x s) id attrs, Some (id, false, false))
               else plainH level body sg x
             | None => plainH level body sg x
             end
         end
       end
   end).
Proof. reflexivity. Qed.

(* ---------- the scan for the closing sequence ---------- *)
Lemma closure_scan_range line stop : forall fuel j co cc,
  closure_scan space_table punct_table fuel line j stop = Ok (Some (co, cc)) -> j + 1 <= co < stop.
Proof.
  induction fuel as [|f IH]; intros j co cc H; [discriminate|]. cbn [closure_scan] in H.
  destruct (Z.ltb_spec j stop) as [Hj|Hj]; [|discriminate]. bind_inv H c Ec.
  destruct (N.eqb c 92 && (j <? zlen line - 1) && is_punct punct_table (nth_byte line (j + 1)))%bool.
  - apply IH in H. lia.
  - destruct (is_space space_table c); cbn [andb] in H.
    + destruct (Z.ltb_spec j (stop - 1)) as [Hj1|Hj1]; cbn [andb] in H.
      * destruct (N.eqb (nth_byte line (j + 1)) 35).
        -- injection H as <- _. lia.
        -- apply IH in H. lia.
      * apply IH in H. lia.
    + apply IH in H. lia.
Qed.

(* origstart and stop of Open *)
Lemma atx_bounds_range line pos os stop : 0 <= pos -> 1 <= count_byte 35 (zskip pos line) -> atx_bounds space_table line pos = Some (os, stop) ->
  pos + count_byte 35 (zskip pos line) <= os <= zlen line - 1 /\ stop <= zlen line.
Proof.
  intros Hp Hc1 H. unfold atx_bounds in H. cbv zeta in H.
  pose proof (br_count_byte_range 35 (zskip pos line)) as Hk. rewrite br_zlen_zskip in Hk.
  set (i := pos + count_byte 35 (zskip pos line)) in *.
  destruct (Z.eqb_spec i (zlen line)) as [E|E]; [discriminate|]. injection H as <- <-.
  pose proof (br_tls_range space_table (zskip i line)) as Htl.
  pose proof (br_trs_range space_table line) as Htr.
  pose proof (br_zlen_nonneg line) as Hl.
  assert (i <= zlen line) as Hi by (unfold i; lia).
  destruct (Z.leb_spec (zlen line) (i + trim_left_space_len space_table (zskip i line))); lia.
Qed.

(* the line on which Open does not decline starts (at pos) with '#' *)
Lemma atx_open_pos_any line pos lv body : atx_open space_table line pos = Ok (Some (lv, body)) ->
  0 <= pos /\ nth (Z.to_nat pos) line 0%N = 35%N /\ 1 <= count_byte 35 (zskip pos line).
Proof.
  intros H. unfold atx_open in H. destruct (Z.ltb_spec pos 0) as [Hn|Hn]; [discriminate|]. split; [exact Hn|].
  cbv zeta in H.
  destruct (Z.eqb_spec (pos + count_byte 35 (zskip pos line)) pos) as [E|E]; cbn [orb] in H; [discriminate|].
  pose proof (br_count_byte_range 35 (zskip pos line)) as Hc.
  destruct (count_byte_pos 35 (zskip pos line) ltac:(lia)) as [r Hr].
  unfold zskip in Hr. apply (skipn_hd_nth 0%N) in Hr. split; [apply Hr|lia].
Qed.

(* ---------- a heading node on top of a state with the heap and the opened blocks of s ---------- *)
Lemma heading_post s s2 level lines A D N :
  SInv FF s2 A D N -> s_h s2 = s_h s -> c_arr (s_c s2) = c_arr (s_c s) -> c_len (s_c s2) = c_len (s_c s) ->
  1 <= level <= 6 -> Forall (seg_inr src) lines -> fin_linesH lines ->
  open_post PATX s (st_h s2 (s_h s2 ++ [set_lines (mknode BHeading level) lines]))
    (Some (length (s_h s2), false, false)) A D N.
Proof.
  intros HS Eh Ea El Hlv Hin Hfin. unfold HeadingOptsWfBlkC.open_post. cbn [st_h s_c s_h]. csplit; auto; try congruence; try discriminate.
  - eexists. rewrite Eh. csplit; try reflexivity; [intros _; node_cbn; exact Hfin|discriminate].
  - apply (CC SInv_alloc); [apply (CC SInv_FW); exact HS| |reflexivity|reflexivity|discriminate].
    constructor; node_cbn; try discriminate; auto.
Qed.

(* the single line Open without the option gives the heading *)
Lemma body_lines_ok s sg l level body A D N : SInv FF s A D N ->
  sg = r_pos (s_r s) -> l = (if r_in_range (s_r s) then Some (r_view (s_r s)) else None) ->
  atx_open space_table (line_of l) (c_boff (s_c s)) = Ok (Some (level, body)) ->
  let lines := match body with
               | None => []
               | Some (a, b) => [mkseg (s_start sg + a - s_pad sg) (s_start sg + b - s_pad sg)]
               end in
  Forall (seg_inr src) lines /\ fin_lines lines.
Proof.
  intros HS Esg El Ea lines.
  assert (Forall oline lines /\ Forall (seg_inr src) lines) as [Hol Hin].
  { destruct body as [[a b]|]; [|split; constructor]. subst lines.
    destruct l as [v|]; [|cbn [line_of] in Ea; rewrite (CC atx_open_nil) in Ea; discriminate].
    destruct (peeked_some _ _ El v eq_refl) as [Hir Hv]. cbn [line_of] in Ea.
    destruct (atx_open_in_range space_table _ _ _ _ _ Ea) as [_ [Hpa [Hab Hbl]]].
    destruct (atx_open_pos space_table _ _ _ _ _ Ea) as [Hp0 Hnth].
    pose proof (CC R2_bounds _ (proj1 HS)) as Hb. destruct HS as [[Hinv [Hsrc' _]] _].
    rewrite Hv in Hnth, Hbl. rewrite view_spaces in Hnth. rewrite view_zlen in Hbl by exact Hinv.
    pose proof (view_idx_pad _ _ _ _ Hp0 Hnth ltac:(discriminate)) as Hpp. subst sg.
    assert (oline (mkseg (s_start (r_pos (s_r s)) + a - s_pad (r_pos (s_r s))) (s_start (r_pos (s_r s)) + b - s_pad (r_pos (s_r s))))) as Ho.
    { unfold HeadingOptsWfBlkB.oline. cbn [mkseg s_start s_stop s_pad s_fnl]. csplit; try lia; reflexivity. }
    split; constructor; [exact Ho|constructor| |constructor].
    unfold HeadingOptsWfBlkB.oline in Ho. unfold seg_inr. cbn [mkseg s_start s_stop s_pad s_fnl] in *. lia. }
  split; [exact Hin|]. split; [exact Hol|]. destruct body as [[a b]|]; subst lines; [apply (CC sorted_single)|constructor].
Qed.

Lemma plainH_ok s x2 sg level body x' o A D N :
  SInv FF (hx_s x2) A D N -> s_h (hx_s x2) = s_h s -> c_arr (s_c (hx_s x2)) = c_arr (s_c s) -> c_len (s_c (hx_s x2)) = c_len (s_c s) ->
  1 <= level <= 6 ->
  (let lines := match body with
                | None => []
                | Some (a, b) => [mkseg (s_start sg + a - s_pad sg) (s_start sg + b - s_pad sg)]
                end in Forall (seg_inr src) lines /\ fin_lines lines) ->
  AI (hx_attrs x2) -> plainH level body sg x2 = Ok (x', o) ->
  open_post PATX s (hx_s x') o A D N /\ AI (hx_attrs x').
Proof.
  intros HS Eh Ea El Hlv [Hin Hfin] HA H. unfold plainH, new_node, halloc in H. cbv beta iota zeta in H.
  injection H as <- <-. cbn [sth_s hx_s hx_attrs]. split; [|exact HA].
  apply heading_post; auto. eapply fin_lines_H. exact Hfin.
Qed.

(* ---------- atxHeadingParser.Open with the Attribute option ---------- *)
Lemma atx_open_h_ok x x' o A D N : SInv FF (hx_s x) A D N -> AI (hx_attrs x) ->
  atx_open_h hc space_table punct_table x = Ok (x', o) ->
  open_post PATX (hx_s x) (hx_s x') o A D N /\ AI (hx_attrs x').
Proof.
  intros HS HA H. rewrite atx_open_h_eq in H.
  bind_inv H y Ey. destruct y as [[s1 l] sg].
  destruct (CC peek_s_ok _ _ _ _ _ _ _ HS Ey) as [HS1 [Eh1 [Ec1 [Ep1 [Esg [El [Ein Esrc1]]]]]]].
  cbv zeta in H. bind_inv H a Ea. destruct a as [[level body]|].
  2: { injection H as <- <-. cbn [sth_s hx_s hx_attrs]. split; [|exact HA].
       unfold HeadingOptsWfBlkC.open_post. rewrite Ec1. csplit; auto. }
  pose proof (atx_open_level space_table _ _ _ _ Ea) as Hlv.
  rewrite Ec1 in Ea.
  pose proof (body_lines_ok _ _ _ _ _ _ _ _ HS Esg El Ea) as Hlines.
  assert (forall x2, SInv FF (hx_s x2) A D N -> s_h (hx_s x2) = s_h (hx_s x) ->
            c_arr (s_c (hx_s x2)) = c_arr (s_c (hx_s x)) -> c_len (s_c (hx_s x2)) = c_len (s_c (hx_s x)) ->
            AI (hx_attrs x2) -> plainH level body sg x2 = Ok (x', o) ->
            open_post PATX (hx_s x) (hx_s x') o A D N /\ AI (hx_attrs x')) as Hplain.
  { intros x2 H1 H2 H3 H4 H5 H6. eapply plainH_ok; eassumption. }
  assert (plainH level body sg (sth_s x s1) = Ok (x', o) ->
          open_post PATX (hx_s x) (hx_s x') o A D N /\ AI (hx_attrs x')) as Hp1.
  { apply Hplain; cbn [sth_s hx_s hx_attrs]; auto; congruence. }
  destruct (negb (h_attr hc)); [exact (Hp1 H)|].
  destruct (atx_bounds space_table (line_of l) (c_boff (s_c s1))) as [[os stop]|] eqn:Eb; [|exact (Hp1 H)].
  bind_inv H cl Ecl. destruct cl as [[co cc]|]; [|exact (Hp1 H)].
  destruct (Z.ltb_spec 0 cc) as [Hcc|Hcc]; cbn [negb] in H; [|exact (Hp1 H)].
  cbn [sth_s hx_s] in H. bind_inv H r1 Er1. bind_inv H z Ez. destruct z as [r2 res]. bind_inv H w Ew. destruct w as [[r3 rest] sg3].
  destruct (adv_R2 src (s_r s1) cc r1 (proj1 HS1) ltac:(lia) Er1) as [HR1 Hle1].
  destruct (parse_attrs_R2 space_table punct_table src _ _ _ HR1 Ez) as [HR2 Hle2].
  destruct (peek_R2 src _ _ _ _ HR2 Ew) as [HR3 [Hle3 _]].
  assert (SInv FF (st_r s1 r3) A D N) as HS3.
  { apply (CC SInv_reader); [exact HS1|exact HR3|]. eapply Rle_trans; [exact Hle1|]. eapply Rle_trans; eassumption. }
  assert (plainH level body sg (sth_s (sth_s x s1) (st_r s1 r3)) = Ok (x', o) ->
          open_post PATX (hx_s x) (hx_s x') o A D N /\ AI (hx_attrs x')) as Hp3.
  { apply Hplain; cbn [sth_s hx_s hx_attrs st_r s_h s_c]; auto; congruence. }
  destruct res as [attrs|]; [|exact (Hp3 H)].
  destruct (Reader.is_blank space_table (line_of rest)); [|exact (Hp3 H)].
  unfold new_node, halloc in H. cbv beta iota zeta in H. injection H as <- <-.
  rewrite set_node_attrs_s. cbn [sth_s hx_s hx_attrs]. split.
  - (* the heading whose line ends before the closing sequence; the line may be empty *)
    destruct l as [v|]; [|cbn [line_of] in Ea; rewrite (CC atx_open_nil) in Ea; discriminate].
    destruct (peeked_some _ _ El v eq_refl) as [Hir Hv]. cbn [line_of] in Ea, Eb, Ecl. rewrite Ec1 in Eb.
    destruct (atx_open_pos_any _ _ _ _ Ea) as [Hp0 [Hnth Hk]].
    destruct (atx_bounds_range _ _ _ _ Hp0 Hk Eb) as [Hos Hstop].
    pose proof (closure_scan_range _ _ _ _ _ _ Ecl) as Hco.
    pose proof (CC R2_bounds _ (proj1 HS)) as Hb. destruct HS as [[Hinv [Hsrc' _]] _].
    rewrite Hv in Hnth, Hos, Hstop, Hk. rewrite view_spaces in Hnth. rewrite view_zlen in Hos, Hstop by exact Hinv.
    pose proof (view_idx_pad _ _ _ _ Hp0 Hnth ltac:(discriminate)) as Hpp. subst sg.
    pose proof (ri_pad _ Hinv) as Hpad.
    replace (length (s_h (hx_s x))) with (length (s_h (st_r s1 r3))) by (cbn [st_r s_h]; congruence).
    change (s_h s1 ++ ?n) with (s_h (st_r s1 r3) ++ n).
    apply (heading_post (hx_s x) (st_r s1 r3)); cbn [st_r s_h s_c]; auto; try congruence.
    + constructor; [|constructor]. unfold seg_inr. cbn [mkseg s_start s_stop s_pad]. lia.
    + split; [|split].
      * constructor; [|constructor]. unfold HeadingOptsWfBlkB.olineE. cbn [mkseg s_start s_stop s_pad s_fnl]. csplit; try lia; reflexivity.
      * apply (CC sorted_single).
      * cbn [removelast]. constructor.
  - apply AI_set_node_attrs; [exact HA|].
    eapply (parse_attrs_pattr_ok space_table punct_table r1 r2); [exact (proj1 HR1)| |exact Ez].
    rewrite (proj1 (proj2 HR1)). exact Hsrc.
Qed.

(* Open leaves the context alone (the reader and the heap change) *)
Lemma plainH_ctx level body sg x2 x' o : plainH level body sg x2 = Ok (x', o) -> s_c (hx_s x') = s_c (hx_s x2).
Proof. unfold plainH, new_node, halloc. cbv beta iota zeta. intros H. injection H as <- _. reflexivity. Qed.

Lemma atx_open_h_ctx x x' o : atx_open_h hc space_table punct_table x = Ok (x', o) -> s_c (hx_s x') = s_c (hx_s x).
Proof.
  intros H. rewrite atx_open_h_eq in H. bind_inv H y Ey. destruct y as [[s1 l] sg].
  assert (s_c s1 = s_c (hx_s x)) as Ec1.
  { unfold peek_line_s in Ey. bind_inv Ey z Ez. destruct z as [[r l1] sg1]. injection Ey as <- _ _. reflexivity. }
  cbv zeta in H. bind_inv H a Ea. destruct a as [[level body]|]; [|injection H as <- _; exact Ec1].
  assert (forall x2, s_c (hx_s x2) = s_c (hx_s x) -> plainH level body sg x2 = Ok (x', o) -> s_c (hx_s x') = s_c (hx_s x)) as Hp.
  { intros x2 E2 H2. apply plainH_ctx in H2. congruence. }
  destruct (negb (h_attr hc)); [(eapply Hp; [|exact H]; cbn [sth_s hx_s st_r s_c]; exact Ec1)|].
  destruct (atx_bounds space_table (line_of l) (c_boff (s_c s1))) as [[os stop]|]; [|(eapply Hp; [|exact H]; cbn [sth_s hx_s st_r s_c]; exact Ec1)].
  bind_inv H cl Ecl. destruct cl as [[co cc]|]; [|(eapply Hp; [|exact H]; cbn [sth_s hx_s st_r s_c]; exact Ec1)].
  destruct (negb (0 <? cc)); [(eapply Hp; [|exact H]; cbn [sth_s hx_s st_r s_c]; exact Ec1)|].
  bind_inv H r1 Er1. bind_inv H z Ez. destruct z as [r2 res]. bind_inv H w Ew. destruct w as [[r3 rest] sg3].
  destruct res as [attrs|]; [|(eapply Hp; [|exact H]; cbn [sth_s hx_s st_r s_c]; exact Ec1)].
  destruct (Reader.is_blank space_table (line_of rest)); [|(eapply Hp; [|exact H]; cbn [sth_s hx_s st_r s_c]; exact Ec1)].
  unfold new_node, halloc in H. cbv beta iota zeta in H. injection H as <- _.
  rewrite set_node_attrs_s. exact Ec1.
Qed.

End R.
