(* Helper library for FootnoteWfBlk.v, part Inv: the footnote facts the block driver of
   model/FootnoteParseBlock.v carries next to the invariant of the core block phase
   (ParseBlocksRangeB.SInv / ParseBlocksRangeE.OInv), and the frame `cfr` of the heap that
   the block parsers of the core keep (proved for them in FootnoteWfBlkFrame.v). *)
Require Import GM.model.Base GM.model.Util GM.model.Reader GM.model.BlockParse GM.model.FootnoteParseBlock.
Require Import GM.proofs.ReaderProofs GM.proofs.ParseInv GM.proofs.ParseBlocksRangeA GM.proofs.ParseBlocksRangeB GM.proofs.FootnoteWfDefs.
From Coq Require Import List ZArith Lia Bool.
Import ListNotations.
Open Scope Z_scope.

(* ---------- the footnote facts ---------- *)
(* fl_kids is stated with the parent link (heapS has: child of p -> parent p, not the converse);
   fl_par: no dangling parent links, so that a fresh FootnoteList has no would-be children *)
Record FL (h : heap) (lst : option nat) : Prop := {
  fl_nodes : fn_nodes_ok h lst;
  fl_list : forall l, lst = Some l -> exists ln, nth_error h l = Some ln /\ is_fnlist_node ln = true /\ bpar ln <> None;
  fl_kids : forall l c nc, lst = Some l -> nth_error h c = Some nc -> bpar nc = Some l -> is_footnote_node nc = true;
  fl_par : forall c nc q, nth_error h c = Some nc -> bpar nc = Some q -> (q < length h)%nat
}.
(* ... and the FootnoteList is not one of the opened blocks E *)
Definition FLI (h : heap) (lst : option nat) (E : list nat) : Prop :=
  FL h lst /\ forall l, lst = Some l -> ~ In l E.

Lemma is_footnote_node_spec n : is_footnote_node n = true <-> bk n = BBlockquote /\ b_i1 n = 1.
Proof.
  unfold is_footnote_node, fn_footnote. rewrite andb_true_iff, Z.eqb_eq. split; intros [H1 H2]; split; auto.
  - destruct (bk n); cbn in H1; congruence.
  - rewrite H1. reflexivity.
Qed.
Lemma is_fnlist_node_spec n : is_fnlist_node n = true <-> bk n = BBlockquote /\ b_i1 n = 2.
Proof.
  unfold is_fnlist_node, fn_list. rewrite andb_true_iff, Z.eqb_eq. split; intros [H1 H2]; split; auto.
  - destruct (bk n); cbn in H1; congruence.
  - rewrite H1. reflexivity.
Qed.

Section S.
Variable space_table : list N.
Variable src : bytes.

(* with the parent / child consistency of the core invariant: the statement of FootnoteWfDefs *)
Lemma FL_list_ok h lst : heapS space_table src h -> FL h lst -> fn_list_ok h lst.
Proof.
  intros HS HF l El. destruct (fl_list _ _ HF l El) as [ln [En [Kl Pl]]]. exists ln. csplit; auto.
  intros c Hc. destruct (hs_K _ _ _ HS l ln c En Hc) as [nc [Ec Pc]]. exists nc. split; [exact Ec|].
  eapply fl_kids; eassumption.
Qed.

(* the list is not the root *)
Lemma FL_list_not_root h lst l : heapS space_table src h -> FL h lst -> lst = Some l -> l <> 0%nat.
Proof.
  intros HS HF El ->. destruct (fl_list _ _ HF _ El) as [ln [En [Kl _]]]. apply is_fnlist_node_spec in Kl.
  destruct (hs_root _ _ _ HS) as [n0 [E0 [K0 _]]]. assert (n0 = ln) by congruence. subst. destruct Kl. congruence.
Qed.
End S.

Lemma FL_list_lt h lst l : FL h lst -> lst = Some l -> (l < length h)%nat.
Proof. intros HF El. destruct (fl_list _ _ HF _ El) as [ln [En _]]. eapply nth_some_lt. exact En. Qed.

Lemma FLI_incl h lst E E' : FLI h lst E -> (forall x, In x E' -> In x E) -> FLI h lst E'.
Proof. intros [HF Hn] Hi. split; [exact HF|]. intros l El Hin. apply (Hn l El). apply Hi. exact Hin. Qed.

(* ---------- the frame of the core block parsers ---------- *)
(* 1 the heap grows; 2 an old node keeps kind and numbers, and when it is written as a block quote
   also its segment and its parent; 3 a new node written as a block quote is a block quote;
   4 a parent link of the new heap is an old link of the same node, or it points to the parent of an
   old node that is not written as a block quote (ReplaceChild, InsertAfter). *)
Definition cfr (h h' : heap) : Prop :=
  (length h <= length h')%nat /\
  (forall i n, nth_error h i = Some n -> exists n', nth_error h' i = Some n' /\ bk n' = bk n /\ b_i1 n' = b_i1 n /\
       b_i2 n' = b_i2 n /\ (bk n = BBlockquote -> b_seg n' = b_seg n /\ bpar n' = bpar n)) /\
  (forall i n', nth_error h' i = Some n' -> (length h <= i)%nat -> bk n' = BBlockquote -> b_i1 n' = 0) /\
  (forall c nc' q, nth_error h' c = Some nc' -> bpar nc' = Some q ->
       (exists nc, nth_error h c = Some nc /\ bpar nc = Some q) \/
       (exists d nd, nth_error h d = Some nd /\ bpar nd = Some q /\ bk nd <> BBlockquote)).

Lemma cfr_refl h : cfr h h.
Proof.
  unfold cfr. csplit; auto.
  - intros i n E. exists n. csplit; auto.
  - intros i n' E Hi. apply nth_some_lt in E. lia.
  - intros c nc' q E P. left. eauto.
Qed.

Lemma cfr_trans a b c : cfr a b -> cfr b c -> cfr a c.
Proof.
  intros [A1 [A2 [A3 A4]]] [B1 [B2 [B3 B4]]]. unfold cfr. csplit.
  - lia.
  - intros i n E. destruct (A2 i n E) as [n1 [E1 [K1 [I1 [J1 S1]]]]]. destruct (B2 i n1 E1) as [n2 [E2 [K2 [I2 [J2 S2]]]]].
    exists n2. csplit; try congruence. intros K. destruct (S1 K) as [X1 Y1]. destruct S2 as [X2 Y2]; [congruence|].
    split; congruence.
  - intros i n' E Hi K. destruct (Nat.le_gt_cases (length b) i) as [Hb|Hb]; [eapply B3; eassumption|].
    destruct (nth_error b i) as [n1|] eqn:E1; [|apply nth_error_None in E1; lia].
    destruct (B2 i n1 E1) as [n2 [E2 [K2 [I2 _]]]]. assert (n2 = n') by congruence. subst n2.
    rewrite I2. eapply A3; [exact E1|exact Hi|congruence].
  - intros x nx q E P.
    assert (forall d nd, nth_error b d = Some nd -> bpar nd = Some q -> bk nd <> BBlockquote ->
              exists d0 nd0, nth_error a d0 = Some nd0 /\ bpar nd0 = Some q /\ bk nd0 <> BBlockquote) as Hsec.
    { intros d nd Ed Pd Kd. destruct (A4 d nd q Ed Pd) as [[nd0 [Ed0 Pd0]]|Hd]; [|exact Hd].
      exists d, nd0. csplit; auto. destruct (A2 d nd0 Ed0) as [nd' [Ed' [Kd' _]]]. congruence. }
    destruct (B4 x nx q E P) as [[n1 [E1 P1]]|[d [nd [Ed [Pd Kd]]]]].
    + destruct (A4 x n1 q E1 P1) as [Hl|Hr]; [left; exact Hl|right; exact Hr].
    + right. eapply Hsec; eassumption.
Qed.

Lemma cfr_length h h' : cfr h h' -> (length h <= length h')%nat.
Proof. intros [H _]. exact H. Qed.

Lemma cfr_FL h h' lst : cfr h h' -> FL h lst -> FL h' lst.
Proof.
  intros [C1 [C2 [C3 C4]]] [F1 F2 F3 F4]. constructor.
  - intros i n' E K. destruct (nth_error h i) as [n|] eqn:En.
    + destruct (C2 i n En) as [n1 [E1 [K1 [I1 [J1 S1]]]]]. assert (n1 = n') by congruence. subst n1.
      assert (bk n = BBlockquote) as Kn by congruence. destruct (S1 Kn) as [Sg _].
      rewrite I1, J1, Sg. exact (F1 i n En Kn).
    + apply nth_error_None in En. left. eapply C3; eassumption.
  - intros l El. destruct (F2 l El) as [ln [En [Kl Pl]]]. destruct (C2 l ln En) as [n1 [E1 [K1 [I1 [_ S1]]]]].
    apply is_fnlist_node_spec in Kl. destruct Kl as [Kb Ki]. destruct (S1 Kb) as [_ Pp].
    exists n1. csplit; auto; [|congruence]. apply is_fnlist_node_spec. split; congruence.
  - intros l c nc' El E P. destruct (C4 c nc' l E P) as [[nc [Ec Pc]]|[d [nd [Ed [Pd Kd]]]]].
    + pose proof (F3 l c nc El Ec Pc) as Hf. apply is_footnote_node_spec in Hf. destruct Hf as [Kb Ki].
      destruct (C2 c nc Ec) as [n1 [E1 [K1 [I1 _]]]]. assert (n1 = nc') by congruence. subst n1.
      apply is_footnote_node_spec. split; congruence.
    + exfalso. pose proof (F3 l d nd El Ed Pd) as Hf. apply is_footnote_node_spec in Hf. destruct Hf. congruence.
  - intros c nc' q E P. destruct (C4 c nc' q E P) as [[nc [Ec Pc]]|[d [nd [Ed [Pd _]]]]].
    + pose proof (F4 c nc q Ec Pc). lia.
    + pose proof (F4 d nd q Ed Pd). lia.
Qed.

Lemma cfr_FLI h h' lst E : cfr h h' -> FLI h lst E -> FLI h' lst E.
Proof. intros Hc [HF Hn]. split; [eapply cfr_FL; eassumption|exact Hn]. Qed.

(* ---------- primitive steps ---------- *)
Lemma cfr_app h n : bpar n = None -> (bk n = BBlockquote -> b_i1 n = 0) -> cfr h (h ++ [n]).
Proof.
  intros P K. unfold cfr. csplit.
  - rewrite app_length. cbn [length]. lia.
  - intros i m E. exists m. rewrite nth_error_app1 by (eapply nth_some_lt; eassumption). csplit; auto.
  - intros i n' E Hi Kn. apply nth_app_inv in E. destruct E as [[_ ->]|[Hlt _]]; [auto|lia].
  - intros c nc' q E Pq. apply nth_app_inv in E. destruct E as [[_ ->]|[_ E]]; [congruence|]. left. eauto.
Qed.

(* an update that keeps kind, numbers, parent, and the segment of nodes written as block quotes *)
Definition keepsF (n n' : bnode) : Prop :=
  bk n' = bk n /\ b_i1 n' = b_i1 n /\ b_i2 n' = b_i2 n /\ bpar n' = bpar n /\ (bk n = BBlockquote -> b_seg n' = b_seg n).

Lemma cfr_hset h i n n' : nth_error h i = Some n -> keepsF n n' -> cfr h (hset h i n').
Proof.
  intros E [K [I1 [I2 [P S]]]]. unfold cfr. csplit.
  - rewrite length_hset. lia.
  - intros j m Ej. destruct (Nat.eq_dec j i) as [->|Hne].
    + assert (m = n) by congruence. subst m. exists n'. rewrite nth_hset_eq by (eapply nth_some_lt; eassumption). csplit; auto.
    + exists m. rewrite nth_hset_ne by congruence. csplit; auto.
  - intros j m Ej Hj. apply nth_some_lt in Ej. rewrite length_hset in Ej. lia.
  - intros c nc' q Ec Pq. left. apply nth_hset_inv in Ec. destruct Ec as [[-> [-> _]]|[_ Ec]].
    + exists n. split; [exact E|congruence].
    + eauto.
Qed.

Lemma cfr_hupd h i f h' : hupd h i f = Ok h' -> (forall n, nth_error h i = Some n -> keepsF n (f n)) -> cfr h h'.
Proof. intros H Hf. apply hupd_ok in H. destruct H as [n [En ->]]. eapply cfr_hset; [exact En|auto]. Qed.

(* ---------- the footnote facts under steps of the driver ---------- *)
(* a detached node that is not written as a block quote with b_i1 <> 0 ... : any new node with the right numbers *)
Lemma FL_app h lst n : FL h lst -> bpar n = None ->
  (bk n = BBlockquote -> b_i1 n = 0 \/ (b_i1 n = 1 /\ b_i2 n = -1 /\ exists sg, b_seg n = Some sg)) -> FL (h ++ [n]) lst.
Proof.
  intros [F1 F2 F3 F4] P K. constructor.
  - intros i m E Km. apply nth_app_inv in E. destruct E as [[_ ->]|[_ E]]; [|eapply F1; eassumption].
    destruct (K Km) as [H|H]; [left; exact H|right; left; exact H].
  - intros l El. destruct (F2 l El) as [ln [En H]]. exists ln. split; [|exact H].
    rewrite nth_error_app1 by (eapply nth_some_lt; eassumption). exact En.
  - intros l c nc El E Pc. apply nth_app_inv in E. destruct E as [[_ ->]|[_ E]]; [congruence|eapply F3; eassumption].
  - intros c nc q E Pc. rewrite app_length. cbn [length]. apply nth_app_inv in E. destruct E as [[_ ->]|[_ E]]; [congruence|].
    pose proof (F4 c nc q E Pc). lia.
Qed.

(* AppendChild of a detached node c below p, neither being the FootnoteList *)
Lemma FL_append h lst p c h1 : FL h lst -> append_child h p c = Ok h1 -> c <> p ->
  (forall l, lst = Some l -> l <> p /\ l <> c) -> FL h1 lst.
Proof.
  intros [F1 F2 F3 F4] Ha Hcp Hl. destruct (append_child_spec _ _ _ _ Ha Hcp) as [nc [np [Ec [Ep [Hlen [E1c [E1p E1o]]]]]]].
  constructor.
  - intros i m E Km. eapply append_cases in E; try eassumption. destruct E as [[-> ->]|[[-> ->]|[_ [_ E]]]].
    + exact (F1 _ _ Ec Km).
    + exact (F1 _ _ Ep Km).
    + exact (F1 _ _ E Km).
  - intros l El. destruct (Hl l El) as [L1 L2]. destruct (F2 l El) as [ln [En H]]. exists ln. split; [|exact H].
    rewrite E1o by assumption. exact En.
  - intros l x nx El E Px. destruct (Hl l El) as [L1 L2]. eapply append_cases in E; try eassumption.
    destruct E as [[-> ->]|[[-> ->]|[_ [_ E]]]].
    + cbn [set_par bpar] in Px. congruence.
    + cbn [set_ch bpar] in Px. pose proof (F3 l p np El Ep Px) as H. exact H.
    + eapply F3; eassumption.
  - intros x nx q E Px. rewrite Hlen. eapply append_cases in E; try eassumption.
    destruct E as [[-> ->]|[[-> ->]|[_ [_ E]]]].
    + cbn [set_par bpar] in Px. injection Px as <-. eapply nth_some_lt. exact Ep.
    + cbn [set_ch bpar] in Px. eapply F4; eassumption.
    + eapply F4; eassumption.
Qed.
