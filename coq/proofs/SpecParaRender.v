(* Plain paragraphs, renderer side: the HTML renderer model applied to the tree of a plain-paragraph
   document (SpecParaBytes.doc_full) writes "<p>" line bodies joined by newlines "</p>\n" for each paragraph. *)
Require Import GM.model.Base GM.model.Util GM.model.Reader GM.model.HtmlWriter GM.model.Html GM.model.HtmlI.
Require Import GM.gen.Tables GM.gen.Entities GM.gen.Filters.
Require Import GM.proofs.SpecParaBytes.
From Coq Require Import List NArith ZArith Bool Lia.
Import ListNotations.
Open Scope N_scope.

(* ---------- slices ---------- *)
Lemma slice_mid (pre b post : bytes) :
  slice (pre ++ b ++ post) (zlen pre) (zlen pre + zlen b) = Ok b.
Proof.
  unfold slice.
  assert (E : ((0 <=? zlen pre) && (zlen pre <=? zlen pre + zlen b) && (zlen pre + zlen b <=? zlen (pre ++ b ++ post)))%Z = true).
  { rewrite !zlen_app. pose proof (zlen_nonneg pre) as H1. pose proof (zlen_nonneg b) as H2. pose proof (zlen_nonneg post) as H3.
    apply andb_true_iff. split; [apply andb_true_iff; split|]; apply Z.leb_le; lia. }
  rewrite E.
  replace (Z.to_nat (zlen pre + zlen b - zlen pre)) with (length b) by (unfold zlen; lia).
  replace (Z.to_nat (zlen pre)) with (length pre) by (unfold zlen; lia).
  rewrite skipn_app, skipn_all, Nat.sub_diag. cbn [skipn app].
  rewrite firstn_app, firstn_all, Nat.sub_diag. cbn [firstn]. rewrite app_nil_r. reflexivity.
Qed.

Lemma seg_value_mid (pre b post : bytes) :
  seg_value (pre ++ b ++ post) (mkseg (zlen pre) (zlen pre + zlen b)) = Ok b.
Proof.
  unfold seg_value, mkseg. cbn [s_start s_stop s_pad s_fnl]. rewrite slice_mid. reflexivity.
Qed.

(* ---------- the text writer on letters and blanks ---------- *)
Lemma writer_write_fuel_text (v : bytes) :
  forallb textc v = true ->
  writer_write_fuel html_escape_table punct_table entities (length v) false v = v.
Proof.
  induction v as [|x v IH]; intros H; [reflexivity|].
  cbn [forallb] in H. apply andb_true_iff in H. destruct H as [Hx Hv].
  cbn [length writer_write_fuel].
  pose proof (textc_range x Hx) as R.
  replace (x =? 92) with false by (symmetry; apply N.eqb_neq; lia).
  replace (x =? 0) with false by (symmetry; apply N.eqb_neq; lia).
  replace (x =? 38) with false by (symmetry; apply N.eqb_neq; lia).
  rewrite (text_esc1 x Hx), (IH Hv). reflexivity.
Qed.
Lemma writer_write_text (v : bytes) :
  forallb textc v = true -> writer_write html_escape_table punct_table entities false v = v.
Proof. intros H. unfold writer_write. apply writer_write_fuel_text. exact H. Qed.

(* ---------- the walk, with the local loop named ---------- *)
Notation RN := (render_node html_escape_table punct_table entities url_escape_table utf8len_table
  f_global f_blockquote f_list f_listitem f_thematic f_link f_image f_table f_thead f_tr f_th f_td).
Notation RE := (render_enter html_escape_table punct_table entities url_escape_table utf8len_table
  f_global f_blockquote f_list f_listitem f_thematic f_link f_image f_table f_thead f_tr f_th f_td).

Definition render_list (c : rcfg) (src : bytes) (k : kind) : list tree -> result bytes :=
  fix go (l : list tree) : result bytes :=
  match l with
  | [] => Ok []
  | ch :: rest =>
      a <- RN c src (Some k) (match rest with [] => false | _ => true end)
                             (match rest with [] => true | _ => false end) ch ;;
      b <- go rest ;; Ok (a ++ b)
  end.
Lemma render_list_nil c src k : render_list c src k [] = Ok [].
Proof. reflexivity. Qed.
Lemma render_list_cons c src k ch rest :
  render_list c src k (ch :: rest) =
  (a <- RN c src (Some k) (match rest with [] => false | _ => true end)
                          (match rest with [] => true | _ => false end) ch ;;
   b <- render_list c src k rest ;; Ok (a ++ b)).
Proof. reflexivity. Qed.

Lemma render_node_eq c src parent has_next is_last t :
  RN c src parent has_next is_last t =
  (e <- RE c src parent t ;;
   let '(open, walk) := e in
   inner <- (if walk then render_list c src (t_kind t) (t_children t) else Ok []) ;;
   close <- (match t_kind t, parent with
             | KTableCell _, Some KTableHeader => Ok (tag_close n_th ++ [10])
             | KTableCell _, _ => Ok (tag_close n_td ++ [10])
             | _, _ => render_leave c src has_next is_last t
             end) ;;
   Ok (open ++ inner ++ close)).
Proof. destruct t as [k ls a cs]. reflexivity. Qed.

(* ---------- one line ---------- *)
Lemma render_text_node c pre b post parent has_next is_last soft :
  hardwraps c = false -> forallb textc b = true ->
  RN c (pre ++ b ++ post) parent has_next is_last (text_node (zlen pre) b soft)
  = Ok (b ++ (if soft then [10] else [])).
Proof.
  intros Hc Hb. rewrite render_node_eq. unfold text_node.
  cbn [render_enter t_kind t_children render_leave].
  rewrite seg_value_mid. cbn [bind]. rewrite Hc, (writer_write_text b Hb).
  rewrite andb_false_r. cbn [orb render_list bind app]. rewrite app_nil_r. reflexivity.
Qed.

(* ---------- the lines of one paragraph ---------- *)
Lemma render_para_texts c p : forall pre post,
  hardwraps c = false -> forallb body_okb p = true ->
  render_list c (pre ++ para_src p ++ post) KParagraph (para_texts (zlen pre) p) = Ok (para_src p).
Proof.
  induction p as [|b r IH]; intros pre post Hc Hp; [reflexivity|].
  cbn [forallb] in Hp. apply andb_true_iff in Hp. destruct Hp as [Hb Hr].
  destruct r as [|b' r'].
  - cbn [para_texts render_list]. change (para_src [b]) with b.
    rewrite (render_text_node c pre b post _ _ _ false Hc (body_ok_text b Hb)).
    cbn [bind]. rewrite !app_nil_r. reflexivity.
  - change (para_texts (zlen pre) (b :: b' :: r'))
      with (text_node (zlen pre) b true :: para_texts (zlen pre + zlen b + 1) (b' :: r')).
    rewrite para_src_cons2. cbn [render_list].
    rewrite <- (app_assoc b ([10] ++ para_src (b' :: r')) post).
    rewrite (render_text_node c pre b _ _ _ _ true Hc (body_ok_text b Hb)). cbn [bind].
    replace (pre ++ b ++ ([10] ++ para_src (b' :: r')) ++ post)
      with ((pre ++ b ++ [10]) ++ para_src (b' :: r') ++ post)
      by (rewrite <- !app_assoc; reflexivity).
    replace (zlen pre + zlen b + 1)%Z with (zlen (pre ++ b ++ [10]))
      by (rewrite !zlen_app, zlen_cons, zlen_nil; lia).
    rewrite (IH (pre ++ b ++ [10]) post Hc Hr). cbn [bind]. rewrite <- app_assoc. reflexivity.
Qed.

(* ---------- one paragraph ---------- *)
Lemma render_para c p pre post has_next is_last :
  hardwraps c = false -> para_ok p = true ->
  RN c (pre ++ para_src p ++ post) (Some KDocument) has_next is_last
     (Node KParagraph (para_segs (zlen pre) p) None (para_texts (zlen pre) p)) = Ok (para_html p).
Proof.
  intros Hc Hp. destruct (para_ok_inv p Hp) as (b & r & -> & Hb & Hr).
  rewrite render_node_eq. cbn [render_enter t_kind t_children render_leave bind attrs_of].
  rewrite render_para_texts; [|exact Hc|cbn [forallb]; rewrite Hb, Hr; reflexivity].
  cbn [bind]. reflexivity.
Qed.

(* ---------- the paragraphs of a document ---------- *)
Lemma pdoc_body_cons2 p p' r : pdoc_body (p :: p' :: r) = para_src p ++ [10;10] ++ pdoc_body (p' :: r).
Proof. reflexivity. Qed.

Lemma render_doc_full c d : forall pre post,
  hardwraps c = false -> forallb para_ok d = true ->
  render_list c (pre ++ pdoc_body d ++ post) KDocument (doc_full (zlen pre) d) = Ok (pdoc_html d).
Proof.
  induction d as [|p r IH]; intros pre post Hc Hd; [reflexivity|].
  cbn [forallb] in Hd. apply andb_true_iff in Hd. destruct Hd as [Hp Hr].
  cbn [doc_full render_list]. destruct r as [|p' r'].
  - change (pdoc_body [p]) with (para_src p).
    rewrite (render_para c p pre post _ _ Hc Hp). cbn [doc_full render_list bind pdoc_html flat_map].
    reflexivity.
  - rewrite pdoc_body_cons2.
    rewrite <- (app_assoc (para_src p) ([10;10] ++ pdoc_body (p' :: r')) post).
    rewrite (render_para c p pre _ _ _ Hc Hp). cbn [bind].
    replace (pre ++ para_src p ++ ([10; 10] ++ pdoc_body (p' :: r')) ++ post)
      with ((pre ++ para_src p ++ [10;10]) ++ pdoc_body (p' :: r') ++ post)
      by (rewrite <- !app_assoc; reflexivity).
    replace (zlen pre + zlen (para_src p) + 2)%Z with (zlen (pre ++ para_src p ++ [10;10]))
      by (rewrite !zlen_app, !zlen_cons, zlen_nil; lia).
    rewrite (IH (pre ++ para_src p ++ [10;10]) post Hc Hr). cbn [bind]. reflexivity.
Qed.

(* ---------- the document ---------- *)
Theorem render_plain : forall c d post,
  hardwraps c = false -> doc_ok d = true ->
  RenderHTML c (pdoc_body d ++ post) (Node KDocument [] None (doc_full 0 d)) = Ok (pdoc_html d).
Proof.
  intros c d post Hc Hd. unfold doc_ok in Hd. apply andb_true_iff in Hd. destruct Hd as [_ Hd].
  unfold RenderHTML, render. rewrite render_node_eq.
  cbn [render_enter t_kind t_children render_leave bind].
  change (pdoc_body d ++ post) with ([] ++ pdoc_body d ++ post).
  change 0%Z with (zlen (@nil N)).
  rewrite (render_doc_full c d [] post Hc Hd). cbn [bind app]. rewrite app_nil_r. reflexivity.
Qed.
