(* The driver of model/HeadingOpts.v with automatic heading ids only, in lockstep with the driver of
   the default parser and the invariant of proofs/ParseBlocksRange*.v, part A: the invariant QH under
   heap changes, closing a heading, closeBlocks. *)
Require Import GM.model.Base GM.model.Util GM.model.Reader GM.model.ReaderSpec GM.model.Blocks GM.model.ListItem
               GM.model.LeafBlocks GM.model.CodeBlock GM.model.LinkDest GM.model.Regex GM.model.HtmlWriter
               GM.model.Html GM.model.HtmlSpec GM.model.Attr GM.model.Ids GM.model.BlockParse GM.model.InlineParse GM.model.HeadingOpts.
Require Import GM.proofs.MiscProofs GM.proofs.ReaderProofs GM.proofs.BlockRangeProofs GM.proofs.ParseInv GM.proofs.IdsProofs
               GM.proofs.ParseBlocksRangeA GM.proofs.ParseBlocksRangeB GM.proofs.ParseBlocksRangeC
               GM.proofs.ParseBlocksRangeD GM.proofs.ParseBlocksRangeE
               GM.proofs.ParseBlocksRangeG GM.proofs.ParseBlocksRangeH GM.proofs.ParseBlocksRangeI GM.proofs.ParseBlocksRangeJ
               GM.proofs.ParseBlocksRangeL GM.proofs.ParseBlocksRangeM.
Require Import GM.proofs.HeadingOptsEqDefs GM.proofs.HeadingOptsEqHp GM.proofs.HeadingOptsEqFrame.
From Coq Require Import List ZArith NArith Bool Lia Sorted.
Import ListNotations.
Open Scope Z_scope.

(* ================= facts that do not depend on the driver ================= *)
Lemma in_mid_h {X} (A D N : list X) e : In e (A ++ (D ++ [e]) ++ N).
Proof. apply in_or_app. right. apply in_or_app. left. apply in_or_app. right. left. reflexivity. Qed.
Lemma exists_last_or_nil_h {X} (l : list X) : l = [] \/ exists l' x, l = l' ++ [x].
Proof.
  induction l as [|a l IH]; [left; reflexivity|right]. destruct IH as [->|[l' [x ->]]].
  - exists [], a. reflexivity.
  - exists (a :: l'), x. reflexivity.
Qed.
Lemma Adj_last_cons_h (l' : list nat) z : Adj (0%nat :: l' ++ [z]) (last (0%nat :: l') 0%nat) z.
Proof.
  destruct (exists_last_or_nil_h l') as [->|[l'' [y ->]]].
  - exists [], []. reflexivity.
  - change (last (0%nat :: l'' ++ [y]) 0%nat) with (last ((0%nat :: l'') ++ [y]) 0%nat). rewrite last_app_single.
    exists (0%nat :: l''), []. cbn [app]. rewrite <- app_assoc. reflexivity.
Qed.
(* the last node of a spine below the root is somebody's child *)
Lemma spine_last_child h chain : spineL h (0%nat :: chain) -> chain <> [] -> exists q, child h q (last chain 0%nat).
Proof.
  intros Hsp Hne. destruct (exists_last_or_nil_h chain) as [->|[l' [z ->]]]; [congruence|].
  rewrite last_app_single. exists (last (0%nat :: l') 0%nat). apply spineL_chainL in Hsp. apply Hsp. apply Adj_last_cons_h.
Qed.
Lemma nth_error_mid_h {X} (P : list X) e R : nth_error (P ++ e :: R) (length P) = Some e.
Proof. rewrite nth_error_app2 by lia. rewrite Nat.sub_diag. reflexivity. Qed.
Lemma hd_ids_app E1 E2 : hd_ids (E1 ++ E2) = hd_ids E1 ++ hd_ids E2.
Proof. unfold hd_ids. rewrite filter_app, map_app. reflexivity. Qed.
Lemma hd_ids_cons e E : hd_ids (e :: E) = if is_hp (snd e) then fst e :: hd_ids E else hd_ids E.
Proof. unfold hd_ids. cbn [filter]. destruct (is_hp (snd e)); reflexivity. Qed.
Lemma hd_ids_nil_iff E : hd_ids E = [] <-> forall y bq, In (y, bq) E -> is_hp bq = false.
Proof.
  induction E as [|[z bz] E IH]; cbn [In].
  - split; [intros _ y bq []|reflexivity].
  - rewrite hd_ids_cons. cbn [fst snd]. split.
    + intros H y bq [Heq|Hin].
      * injection Heq as <- <-. destruct (is_hp bz); [discriminate|reflexivity].
      * destruct (is_hp bz); [discriminate|]. apply (proj1 IH H y bq Hin).
    + intros H. rewrite (H z bz (or_introl eq_refl)). apply IH. intros y bq Hin. apply (H y bq). right. exact Hin.
Qed.
Lemma hd_ids_in E x : In x (hd_ids E) -> exists bp, In (x, bp) E /\ is_hp bp = true.
Proof.
  unfold hd_ids. intros H. apply in_map_iff in H. destruct H as [[y bp] [<- H]]. apply filter_In in H.
  exists bp. exact H.
Qed.

(* a node of the heading order is a heading node *)
Lemma hp_in_heading h : (forall i l, hp h i l -> forall x, In x l -> exists n, nth_error h x = Some n /\ bk n = BHeading) /\
                        (forall cs l, hps h cs l -> forall x, In x l -> exists n, nth_error h x = Some n /\ bk n = BHeading).
Proof.
  apply hp_hps_ind.
  - intros i n En Kn x [<-|[]]. eauto.
  - intros i n l En Kn _ IH x Hx. apply IH. exact Hx.
  - intros i n En Kn x [].
  - intros x [].
  - intros c cs l1 l2 _ IH1 _ IH2 x Hx. apply in_app_or in Hx. destruct Hx as [Hx|Hx]; [apply IH1|apply IH2]; exact Hx.
Qed.

Section WithTables.
Variable utf8len_table space_table : list N.
Variable spaces : bytes.
Notation run_log := (run_log utf8len_table space_table spaces).

Lemma run_log_app l1 : forall l2 t a,
  run_log (l1 ++ l2) t a = (r <- run_log l1 t a ;; run_log l2 (fst r) (snd r)).
Proof.
  induction l1 as [|[n v] l1 IH]; intros l2 t a; cbn [app HeadingOptsEqDefs.run_log].
  - reflexivity.
  - destruct (generate utf8len_table space_table spaces t v true) as [[id t']| |]; cbn [bind]; try reflexivity.
    apply IH.
Qed.

Lemma node_attrs_put l : forall i a j, node_attrs (put_node_attrs l i a) j = if Nat.eqb j i then Some a else node_attrs l j.
Proof.
  induction l as [|[k b] l IH]; intros i a j; cbn [put_node_attrs node_attrs].
  - reflexivity.
  - destruct (Nat.eqb i k) eqn:Eik; cbn [node_attrs].
    + apply Nat.eqb_eq in Eik. subst k. destruct (Nat.eqb j i); reflexivity.
    + rewrite IH. destruct (Nat.eqb j k) eqn:Ejk; [|reflexivity].
      apply Nat.eqb_eq in Ejk. subst k. destruct (Nat.eqb j i) eqn:Eji; [|reflexivity].
      apply Nat.eqb_eq in Eji. subst j. rewrite Nat.eqb_refl in Eik. discriminate.
Qed.

(* nodes outside the log have the attributes they had *)
Lemma run_log_other log : forall t a t' a' i, run_log log t a = Ok (t', a') -> ~ In i (map fst log) ->
  node_attrs a' i = node_attrs a i.
Proof.
  induction log as [|[n v] log IH]; intros t a t' a' i H Hi; cbn [HeadingOptsEqDefs.run_log] in H.
  - injection H as <- <-. reflexivity.
  - destruct (generate utf8len_table space_table spaces t v true) as [[id t1]| |]; cbn [bind] in H; try discriminate.
    cbn [map fst In] in Hi. rewrite (IH _ _ _ _ i H) by tauto. rewrite node_attrs_put.
    destruct (Nat.eqb i n) eqn:E; [|reflexivity]. apply Nat.eqb_eq in E. subst i. tauto.
Qed.

End WithTables.

(* ================= the driver ================= *)
Section D.
Variable hc : hcfg.
Hypothesis Hattr : h_attr hc = false.
Hypothesis Hauto : h_autoid hc = true.
Variable space_table punct_table : list N.
Variable norm : bytes -> bytes.
Variable re_t1o re_t1c re_t2 re_t3 re_t4 re_t5 re_t6 re_t7 : re.
Variable allowed_tags : list bytes.
Variable utf8len_table : list N.
Variable spaces : bytes.
Variable src : bytes.
Hypothesis sp32 : is_space space_table 32%N = true.
Hypothesis Hsrc : bytes_ok src.
Set Default Proof Using "All".

Notation CC f := (f space_table punct_table norm re_t1o re_t1c re_t2 re_t3 re_t4 re_t5 re_t6 re_t7 allowed_tags src sp32) (only parsing).
Notation CE f := (f space_table punct_table norm re_t1o re_t1c re_t2 re_t3 re_t4 re_t5 re_t6 re_t7 allowed_tags src sp32) (only parsing).
Notation CJ f := (f space_table punct_table norm re_t1o re_t1c re_t2 re_t3 re_t4 re_t5 re_t6 re_t7 allowed_tags src sp32 Hsrc) (only parsing).
Notation SInv := (SInv space_table src).
Notation OInv := (OInv space_table src).
Notation heapS := (heapS space_table src).
Notation run_log := (run_log utf8len_table space_table spaces).
Notation QH := (QH utf8len_table space_table spaces src).
Notation TP := (transform_paragraph space_table punct_table norm).
Notation p_close := (p_close space_table).
Notation p_closeH := (p_close_h hc space_table punct_table utf8len_table spaces).
Notation CR := (close_range space_table punct_table norm).
Notation CRH := (close_rangeH hc space_table punct_table norm utf8len_table spaces).
Notation CB := (close_blocks space_table punct_table norm).
Notation CBH := (close_blocksH hc space_table punct_table norm utf8len_table spaces).

(* the invariant with the log and the list of the headings that are still open given as such *)
Definition QLg (log : list (nat * bytes)) (x : sth) (tail : list nat) : Prop :=
    hp (s_h (hx_s x)) 0%nat (map fst log ++ tail) /\
    NoDup (map fst log ++ tail) /\
    run_log log [] [] = Ok (hx_ids x, hx_attrs x) /\
    forall n v, In (n, v) log ->
      exists m, nth_error (s_h (hx_s x)) n = Some m /\ bk m = BHeading /\ last_text src (blines m) = Ok v.
Definition QL (x : sth) (tail : list nat) : Prop := exists log, QLg log x tail.

Lemma QH_QL x E : QH x E <-> QL x (hd_ids E).
Proof. reflexivity. Qed.

Lemma heapS_SInv fl s A D N : SInv fl s A D N -> heapS (s_h s).
Proof. intros [_ HH]. exact (hi_heap _ _ _ _ _ _ _ _ HH). Qed.
Lemma closed_SInv fl s A D N : SInv fl s A D N -> closed (s_h s).
Proof. intros H. apply TS_closed. eapply TS_heapS. eapply heapS_SInv. exact H. Qed.

(* the nodes of the log and the open headings are nodes of the heap *)
Lemma QLg_bound log x tail : QLg log x tail -> forall j, In j (map fst log ++ tail) -> (j < length (s_h (hx_s x)))%nat.
Proof.
  intros [Hhp _] j Hj. destruct (proj1 (hp_in_heading _) _ _ Hhp j Hj) as [n [En _]]. eapply nth_some_lt. exact En.
Qed.

(* the invariant along a heap change: the exceptions are not in the log *)
Lemma QLg_hstep exc log x tail s' :
  QLg log x tail -> hstep exc (s_h (hx_s x)) (s_h s') -> closed (s_h (hx_s x)) ->
  (forall j, exc j -> In j tail \/ forall m, nth_error (s_h (hx_s x)) j = Some m -> bk m <> BHeading) ->
  QLg log (sth_s x s') tail.
Proof.
  intros [Hhp [Hnd [Hrun Htx]]] Hst Hcl Hexc. unfold QLg. cbn [sth_s hx_s hx_ids hx_attrs].
  split; [eapply hp_hstep; eassumption|]. split; [exact Hnd|]. split; [exact Hrun|].
  intros n v Hin. destruct (Htx n v Hin) as [m [Em [Km Ht]]].
  destruct Hst as [_ [_ Hst]]. destruct (Hst n m Em) as [m' [Em' [Km' [_ Hl]]]].
  exists m'. split; [exact Em'|]. split; [congruence|]. rewrite Hl; [exact Ht|exact Km|].
  intros He. destruct (Hexc n He) as [Hin'|Hk].
  - clear - Hnd Hin Hin'. induction log as [|[a b] log IH]; [destruct Hin|].
    cbn [map fst app] in Hnd. inversion Hnd as [|? ? Hna Hnd']; subst. destruct Hin as [Heq|Hin].
    + injection Heq as -> ->. apply Hna. apply in_or_app. right. exact Hin'.
    + apply IH; assumption.
  - apply (Hk m Em Km).
Qed.
Lemma QL_hstep exc x tail s' :
  QL x tail -> hstep exc (s_h (hx_s x)) (s_h s') -> closed (s_h (hx_s x)) ->
  (forall j, exc j -> In j tail \/ forall m, nth_error (s_h (hx_s x)) j = Some m -> bk m <> BHeading) ->
  QL (sth_s x s') tail.
Proof. intros [log H] H1 H2 H3. exists log. eapply QLg_hstep; eassumption. Qed.

(* AppendChild of a fresh node to the last node of the rightmost spine *)
Lemma QLg_append log x tail chain p np node nn h' s' :
  QLg log x tail -> TS (s_h (hx_s x)) -> spineL (s_h (hx_s x)) (0%nat :: chain) -> p = last chain 0%nat ->
  nth_error (s_h (hx_s x)) p = Some np -> container (bk np) = true ->
  nth_error (s_h (hx_s x)) node = Some nn -> bpar nn = None -> bch nn = [] -> node <> 0%nat ->
  ~ In node (map fst log ++ tail) ->
  append_child (s_h (hx_s x)) p node = Ok h' -> s_h s' = h' ->
  QLg log (sth_s x s') (tail ++ (if is_hd (bk nn) then [node] else [])).
Proof.
  intros [Hhp [Hnd [Hrun Htx]]] HTS Hsp Hp Enp Knp Enn Pnn Cnn Hn0 Hfresh Happ Eh.
  unfold QLg. cbn [sth_s hx_s hx_ids hx_attrs]. rewrite Eh. rewrite app_assoc.
  split; [eapply hp_append_spine; eassumption|]. split.
  - destruct (is_hd (bk nn)); [|rewrite app_nil_r; exact Hnd]. apply NoDup_app_snoc; assumption.
  - split; [exact Hrun|]. intros n v Hin. destruct (Htx n v Hin) as [m [Em [Km Ht]]].
    assert (node <> p) as Hnp.
    { intros ->. destruct chain as [|c0 chain']; [cbn in Hp; congruence|].
      destruct (spine_last_child _ _ Hsp) as [q [nq [Eq Hq]]]; [discriminate|].
      destruct HTS as [_ [HK _]]. destruct (HK _ _ _ Eq Hq) as [nc [Ec' Pc]]. rewrite <- Hp in Ec'.
      assert (nc = nn) by congruence. subst nc. congruence. }
    destruct (append_child_spec _ _ _ _ Happ Hnp) as [nc [np' [Ec [Ep [_ [Ec' [Ep' Hoth]]]]]]].
    destruct (Nat.eq_dec n node) as [->|Hne1]; [|destruct (Nat.eq_dec n p) as [->|Hne2]].
    + exfalso. apply Hfresh. apply in_or_app. left. apply (in_map fst) in Hin. exact Hin.
    + assert (np' = m) by congruence. subst np'. eexists. split; [exact Ep'|]. cbn [set_ch bk blines]. auto.
    + exists m. rewrite Hoth by assumption. auto.
Qed.

(* closing a heading: generateAutoHeadingID on the first of the headings that are still open *)
Lemma auto_heading_id_QL y x tail : QL y (x :: tail) -> heapS (s_h (hx_s y)) -> src_of (hx_s y) = src ->
  exists y', auto_heading_id space_table utf8len_table spaces y x = Ok y' /\ hx_s y' = hx_s y /\ QL y' tail.
Proof.
  intros [log [Hhp [Hnd [Hrun Htx]]]] HhS Esrc. unfold QL, QLg.
  destruct (proj1 (hp_in_heading _) _ _ Hhp x) as [n [En Kn]]; [apply in_or_app; right; left; reflexivity|].
  assert (~ In x (map fst log)) as Hnot.
  { intros Hi. apply NoDup_remove_2 in Hnd. apply Hnd. apply in_or_app. left. exact Hi. }
  unfold auto_heading_id, node_id_attr.
  rewrite (run_log_other _ _ _ _ _ _ _ _ x Hrun Hnot). cbn [node_attrs].
  unfold hget. rewrite En. cbn [bind]. rewrite Esrc.
  assert (exists v, last_text src (blines n) = Ok v) as [v Hv].
  { unfold last_text. destruct (rev (blines n)) as [|l pre] eqn:Er; [eexists; reflexivity|].
    assert (In l (blines n)) as Hl by (apply in_rev; rewrite Er; left; reflexivity).
    pose proof (np_lines _ _ _ (hs_node _ _ _ HhS _ _ En)) as Hln. rewrite Forall_forall in Hln.
    destruct (Hln l Hl) as [H1 [H2 H3]]. apply seg_value_total; [unfold seg_range; lia|exact H3]. }
  unfold last_text in Hv.
  assert ((match rev (blines n) with [] => Ok [] | last :: _ => seg_value src last end) = Ok v) as Hv' by exact Hv.
  rewrite Hv'. cbn [bind].
  destruct (generate_total utf8len_table space_table spaces (hx_ids y) v true) as [id [t' Hg]].
  rewrite Hg. cbn [bind]. eexists. split; [reflexivity|]. split; [reflexivity|].
  exists (log ++ [(x, v)]). unfold set_node_attr, sth_ids, sth_attrs. cbn [hx_s hx_ids hx_attrs].
  rewrite map_app. cbn [map fst]. rewrite <- app_assoc. cbn [app].
  split; [exact Hhp|]. split; [exact Hnd|]. split.
  - rewrite run_log_app, Hrun. cbn [bind fst snd HeadingOptsEqDefs.run_log]. rewrite Hg. cbn [bind].
    rewrite (run_log_other _ _ _ _ _ _ _ _ x Hrun Hnot). cbn [node_attrs]. reflexivity.
  - intros n0 v0 Hin. apply in_app_or in Hin. destruct Hin as [Hin|[Heq|[]]]; [apply Htx; exact Hin|].
    injection Heq as <- <-. exists n. auto.
Qed.

(* ---------- the opened blocks below the one being closed are no headings ---------- *)
Lemma entry_child fl s A D N x bp y bq : SInv fl s A (D ++ [(x, bp)]) N -> In (y, bq) (A ++ D) ->
  exists z, child (s_h s) y z.
Proof.
  intros [_ HH] Hin. pose proof (hi_open _ _ _ _ _ _ _ _ HH) as HO.
  pose proof (os_spine _ _ _ _ _ _ HO) as Hsp. apply spineL_chainL in Hsp.
  pose proof (os_chain _ _ _ _ _ _ HO) as Hch.
  apply in_app_or in Hin. destruct Hin as [Hin|Hin].
  - apply in_ids in Hin. destruct (Nat.eq_dec y (last (ids A) 0%nat)) as [E|E].
    + unfold lastid in Hch. rewrite <- E in Hch. rewrite (CC ids_snoc) in Hch.
      destruct (ids D ++ [fst (x, bp)]) as [|d t] eqn:Ed; [destruct (ids D); discriminate|].
      exists d. apply Hch. exists [], t. reflexivity.
    + destruct (CC not_last_adj _ _ Hin E) as [z Hz]. exists z. apply Hsp. apply Adj_cons. right.
      rewrite ids_app. apply Adj_app_l. exact Hz.
  - apply in_ids in Hin. rewrite (CC ids_snoc) in Hch.
    assert (In y (ids D ++ [fst (x, bp)])) as Hin2 by (apply in_or_app; left; exact Hin).
    destruct (Nat.eq_dec y (last (ids D ++ [fst (x, bp)]) 0%nat)) as [E|E].
    + exfalso. rewrite last_app_single in E. cbn [fst] in E. subst y.
      pose proof (os_nodup _ _ _ _ _ _ HO) as Hnd. apply (CE dropD_notin) in Hnd. apply Hnd.
      rewrite !ids_app. apply in_or_app. right. apply in_or_app. left. exact Hin.
    + destruct (CC not_last_adj _ _ Hin2 E) as [z Hz]. exists z. apply Hch. apply Adj_cons. right. exact Hz.
Qed.

Lemma entries_no_heading fl s A D N x bp : SInv fl s A (D ++ [(x, bp)]) N -> hd_ids A = [] /\ hd_ids D = [].
Proof.
  intros HS.
  assert (forall y bq, In (y, bq) (A ++ D) -> is_hp bq = false) as H.
  { intros y bq Hin. destruct (entry_child _ _ _ _ _ _ _ _ _ HS Hin) as [z Hz].
    destruct (parent_container _ _ _ _ _ (heapS_SInv _ _ _ _ _ HS) Hz) as [nq [Eq Kq]].
    assert (In (y, bq) (A ++ (D ++ [(x, bp)]) ++ N)) as Hin'.
    { apply in_app_or in Hin. apply in_or_app. destruct Hin as [Hin|Hin]; [left; exact Hin|right].
      apply in_or_app. left. apply in_or_app. left. exact Hin. }
    destruct (CE SInv_entry _ _ _ _ _ _ _ HS Hin') as [n0 [En0 [K0 _]]].
    assert (n0 = nq) by congruence. subst n0. rewrite K0 in Kq. destruct bq; cbn in *; congruence. }
  split; apply hd_ids_nil_iff; intros y bq Hin; apply (H y bq); apply in_or_app; [left|right]; exact Hin.
Qed.

(* the invariant looks at the heap, the id table and the attributes only *)
Lemma QH_same x x' E : QH x E -> s_h (hx_s x') = s_h (hx_s x) -> hx_ids x' = hx_ids x -> hx_attrs x' = hx_attrs x -> QH x' E.
Proof.
  intros [log [H1 [H2 [H3 H4]]]] Eh Ei Ea. exists log. rewrite Eh, Ei, Ea. auto.
Qed.
Lemma QH_sth_s x s E : QH x E -> s_h s = s_h (hx_s x) -> QH (sth_s x s) E.
Proof. intros HQ Eh. eapply QH_same; [exact HQ|exact Eh|reflexivity|reflexivity]. Qed.

(* the invariant depends on the opened blocks only through their headings *)
Lemma QH_ext x E E' : hd_ids E = hd_ids E' -> QH x E -> QH x E'.
Proof. unfold HeadingOptsEqDefs.QH. intros ->. auto. Qed.

Lemma hd_ids_drop_mid A D N x bp : is_hp bp = false ->
  hd_ids (A ++ (D ++ [(x, bp)]) ++ N) = hd_ids (A ++ D ++ N).
Proof.
  intros Hb. rewrite !hd_ids_app. rewrite (hd_ids_cons (x, bp) []). cbn [snd]. rewrite Hb. rewrite app_nil_r. reflexivity.
Qed.

Lemma hd_ids_heading_mid fl s A D N x bp : SInv fl s A (D ++ [(x, bp)]) N -> is_hp bp = true ->
  hd_ids (A ++ (D ++ [(x, bp)]) ++ N) = x :: hd_ids (A ++ D ++ N).
Proof.
  intros HS Hb. destruct (entries_no_heading _ _ _ _ _ _ _ HS) as [HA HD].
  rewrite !hd_ids_app. rewrite (hd_ids_cons (x, bp) []). cbn [snd fst]. rewrite Hb, HA, HD. reflexivity.
Qed.

(* ---------- one round of closeBlocks ---------- *)
Lemma close_stepH_ft fl x x0 bp s1 s2 isp att att' A D N :
  SInv fl (hx_s x) A (D ++ [(x0, bp)]) N -> uniqS (A ++ (D ++ [(x0, bp)]) ++ N) ->
  QH x (A ++ (D ++ [(x0, bp)]) ++ N) ->
  is_paragraph (s_h (hx_s x)) x0 = Ok isp -> attached (s_h (hx_s x)) x0 = Ok att ->
  (if (isp && att)%bool then (y <- TP (hx_s x) x0 ;; Ok (fst y)) else Ok (hx_s x)) = Ok s1 ->
  attached (s_h s1) x0 = Ok att' ->
  (if att' then p_close bp s1 x0 else Ok s1) = Ok s2 ->
  exists x1 x2,
    (if (isp && att)%bool then (y <- TP (hx_s x) x0 ;; Ok (sth_s x (fst y))) else Ok x) = Ok x1 /\ hx_s x1 = s1 /\
    (if att' then p_closeH bp x1 x0 else Ok x1) = Ok x2 /\ hx_s x2 = s2 /\ QH x2 (A ++ D ++ N).
Proof.
  intros HS Hu HQ Hisp Hatt Ht Hatt' Hc.
  pose proof (CJ close_step_ok fl (hx_s x) x0 bp s1 s2 isp att att' A D N HS Hu Hisp Hatt Ht Hatt' Hc) as [HS2 _].
  assert (In (x0, bp) (A ++ (D ++ [(x0, bp)]) ++ N)) as Hin by apply in_mid_h.
  destruct (CE SInv_entry _ _ _ _ _ _ _ HS Hin) as [n [En [K _]]].
  pose proof (closed_SInv _ _ _ _ _ HS) as Hcl.
  destruct (CE opened_attached _ _ _ _ _ _ HS (in_ids _ _ _ Hin)) as [q [n' [En' Pq]]].
  assert (n' = n) by congruence. subst n'.
  unfold is_paragraph, hget in Hisp. rewrite En in Hisp. cbn [bind] in Hisp. injection Hisp as <-.
  unfold attached, hget in Hatt. rewrite En in Hatt. cbn [bind] in Hatt. rewrite Pq in Hatt. injection Hatt as <-.
  rewrite andb_true_r in *.
  destruct (bkind_eqb (bk n) BParagraph) eqn:Ek.
  - (* a paragraph: transformed, then closed if it is still attached *)
    apply (CE bkind_eqb_eq) in Ek.
    assert (bp = PParagraph) as -> by (apply (CE pkind_para); congruence).
    bind_inv Ht y Ey. destruct y as [s1' gone]. cbn [fst] in Ht. injection Ht as <-.
    rewrite Ey. cbn [bind fst].
    pose proof (transform_paragraph_hstep _ _ _ _ _ _ _ _ Ey En Ek) as Hst1.
    assert (QH (sth_s x s1') (A ++ (D ++ [(x0, PParagraph)]) ++ N)) as HQ1.
    { apply QH_QL. eapply QL_hstep; [apply QH_QL; exact HQ|exact Hst1|exact Hcl|]. intros j []. }
    destruct Hst1 as [_ [Hcl1 Hst1]]. specialize (Hcl1 Hcl). destruct (Hst1 _ _ En) as [n1 [En1 [K1 _]]].
    exists (sth_s x s1'). destruct att'.
    + cbn [p_close_h]. unfold hlift0. cbn [hx_s sth_s]. rewrite Hc. cbn [bind].
      exists (sth_s (sth_s x s1') s2). csplit; try reflexivity.
      apply (QH_ext _ (A ++ (D ++ [(x0, PParagraph)]) ++ N)); [apply hd_ids_drop_mid; reflexivity|].
      apply QH_QL. eapply (QL_hstep (eq x0)); [apply QH_QL; exact HQ1| |exact Hcl1|].
      * cbn [hx_s sth_s]. eapply p_close_hstep; [exact Hc|exact En1|congruence|discriminate].
      * intros j <-. right. cbn [hx_s sth_s]. intros m Em. assert (m = n1) by congruence. subst m. congruence.
    + injection Hc as <-. exists (sth_s x s1'). csplit; try reflexivity.
      apply (QH_ext _ (A ++ (D ++ [(x0, PParagraph)]) ++ N)); [apply hd_ids_drop_mid; reflexivity|exact HQ1].
  - (* any other block: it is attached *)
    injection Ht as <-. unfold attached, hget in Hatt'. rewrite En in Hatt'. cbn [bind] in Hatt'. rewrite Pq in Hatt'.
    injection Hatt' as <-. exists x.
    destruct (is_hp bp) eqn:Ehp.
    + (* a heading *)
      assert (QL x (x0 :: hd_ids (A ++ D ++ N))) as HQL.
      { rewrite <- (hd_ids_heading_mid _ _ _ _ _ _ _ HS Ehp). apply QH_QL. exact HQ. }
      destruct bp; try discriminate Ehp; cbn [p_close_h BlockParse.p_close] in *.
      * (* setext: the paragraph's lines are taken over, then the id *)
        unfold setext_close_h. unfold hlift0. rewrite Hc. cbn [bind]. rewrite Hattr, Hauto.
        assert (QL (sth_s x s2) (x0 :: hd_ids (A ++ D ++ N))) as HQL2.
        { eapply (QL_hstep (eq x0)); [exact HQL| |exact Hcl|].
          - eapply (p_close_hstep _ PSetext); [exact Hc|exact En|exact K|]. intros _.
            destruct HS as [_ HH]. destruct (os_tmp _ _ _ _ _ _ (hi_open _ _ _ _ _ _ _ _ HH) x0 Hin) as [tmp [t [T1 [T2 [T3 _]]]]].
            exists tmp, t. csplit; auto.
            exact (proj2 (proj2 (np_para _ _ _ (hs_node _ _ _ (hi_heap _ _ _ _ _ _ _ _ HH) _ _ T2) T3))).
          - intros j <-. left. left. reflexivity. }
        destruct (auto_heading_id_QL (sth_s x s2) x0 _ HQL2) as [y' [Ey' [Es' HQ']]].
        -- cbn [hx_s sth_s]. eapply heapS_SInv. exact HS2.
        -- cbn [hx_s sth_s]. eapply (CE SInv_src). exact HS2.
        -- exists y'. csplit; auto.
      * (* ATX *)
        injection Hc as <-. unfold atx_close_h. rewrite Hattr, Hauto. cbn [bind].
        destruct (auto_heading_id_QL x x0 _ HQL) as [y' [Ey' [Es' HQ']]].
        -- eapply heapS_SInv. exact HS.
        -- eapply (CE SInv_src). exact HS.
        -- exists y'. csplit; auto.
    + (* not a heading: Close of the default parser *)
      assert (p_closeH bp x x0 = hlift0 x (p_close bp (hx_s x) x0)) as -> by (destruct bp; try discriminate Ehp; reflexivity).
      unfold hlift0. rewrite Hc. cbn [bind]. exists (sth_s x s2). csplit; try reflexivity.
      apply (QH_ext _ (A ++ (D ++ [(x0, bp)]) ++ N)); [apply hd_ids_drop_mid; exact Ehp|].
      apply QH_QL. eapply (QL_hstep (eq x0)); [apply QH_QL; exact HQ| |exact Hcl|].
      * cbn [hx_s sth_s]. eapply p_close_hstep; [exact Hc|exact En|exact K|]. intros ->. discriminate Ehp.
      * intros j <-. right. intros m Em. assert (m = n) by congruence. subst m. rewrite K. destruct bp; cbn; try discriminate; discriminate Ehp.
Qed.

(* ---------- closeBlocks: the blocks D2 are closed from the last one down ---------- *)
Lemma close_rangeH_ft fl A N : forall D2 R D1 x s' blocks i,
  blocks = A ++ D1 ++ D2 ++ R -> i = zlen (A ++ D1 ++ D2) - 1 ->
  SInv fl (hx_s x) A (D1 ++ D2) N -> uniqS (A ++ (D1 ++ D2) ++ N) ->
  QH x (A ++ (D1 ++ D2) ++ N) ->
  CR (hx_s x) blocks (length D2) i = Ok s' ->
  exists x', CRH x blocks (length D2) i = Ok x' /\ hx_s x' = s' /\ QH x' (A ++ D1 ++ N).
Proof.
  intros D2. induction D2 as [|[x0 bp] D2' IH] using rev_ind; intros R D1 x s' blocks i Hb Hi HS Hu HQ H.
  - cbn [length close_range close_rangeH] in *. injection H as <-. rewrite app_nil_r in HQ. exists x. auto.
  - rewrite app_length in *. cbn [length] in *. rewrite Nat.add_1_r in *. cbn [close_range] in H. cbn [close_rangeH].
    destruct ((i <? 0) || (zlen blocks <=? i))%bool; [discriminate|].
    assert (nth_error blocks (Z.to_nat i) = Some (x0, bp)) as Enth.
    { subst blocks i. rewrite !app_assoc. rewrite <- (app_assoc _ [(x0, bp)] R). cbn [app].
      replace (Z.to_nat (zlen (((A ++ D1) ++ D2') ++ [(x0, bp)]) - 1)) with (length ((A ++ D1) ++ D2')).
      - apply nth_error_mid_h.
      - unfold zlen. rewrite (app_length _ [(x0, bp)]). cbn [length]. lia. }
    rewrite Enth in *.
    bind_inv H isp Eisp. bind_inv H att Eatt. bind_inv H s1 Es1. bind_inv H att' Eatt'. bind_inv H s2 Es2.
    rewrite (app_assoc D1 D2' [(x0, bp)]) in HS, Hu, HQ.
    destruct (close_stepH_ft fl x x0 bp s1 s2 isp att att' A (D1 ++ D2') N HS Hu HQ Eisp Eatt Es1 Eatt' Es2)
      as [x1 [x2 [E1 [Eh1 [E2 [Eh2 HQ2]]]]]].
    pose proof (CJ close_step_ok fl (hx_s x) x0 bp s1 s2 isp att att' A (D1 ++ D2') N HS Hu Eisp Eatt Es1 Eatt' Es2) as [HS2 _].
    rewrite Eisp. cbn [bind]. rewrite Eatt. cbn [bind]. rewrite E1. cbn [bind]. rewrite Eh1, Eatt'. cbn [bind].
    rewrite E2. cbn [bind]. subst s2.
    destruct (IH ((x0, bp) :: R) D1 x2 s' blocks (i - 1)) as [x' [E' [Eh' HQ']]]; auto.
    + subst blocks. rewrite <- !app_assoc. reflexivity.
    + subst i. unfold zlen. rewrite !app_length. cbn [length]. lia.
    + eapply (CE uniqS_incl); [exact Hu|]. intros e He. apply in_app_or in He. apply in_or_app.
      destruct He as [He|He]; [left; exact He|right]. apply in_app_or in He. apply in_or_app.
      destruct He as [He|He]; [left; apply in_or_app; left; exact He|right; exact He].
    + exists x'. auto.
Qed.

Lemma close_blocksH_ft fl x s' A D N from to : OInv fl (hx_s x) A D N -> to = zlen A -> from = zlen A + zlen D - 1 ->
  QH x (A ++ D ++ N) ->
  CB (hx_s x) from to = Ok s' ->
  exists x', CBH x from to = Ok x' /\ hx_s x' = s' /\ QH x' (A ++ [] ++ N).
Proof.
  intros [HS [[Ho Hl] Hu]] Hto Hfrom HQ H. unfold close_blocks in H. unfold close_blocksH. bind_inv H s1 E1.
  replace (Z.to_nat (from - to + 1)) with (length D) in * by (subst; unfold zlen; lia).
  destruct (close_rangeH_ft fl A N D N [] x s1 (opened (s_c (hx_s x))) from) as [x1 [Ex1 [Eh1 HQ1]]]; auto.
  { subst from. cbn [app]. rewrite zlen_app. lia. }
  rewrite Ex1. cbn [bind]. rewrite Eh1.
  destruct (from =? Z.of_nat (c_len (s_c s1)) - 1).
  - destruct ((to <? 0) || (Z.of_nat (c_len (s_c s1)) <? to))%bool; [discriminate|]. injection H as <-.
    eexists. split; [reflexivity|]. split; [reflexivity|]. apply QH_sth_s; [exact HQ1|rewrite Eh1; reflexivity].
  - destruct ((to <? 0) || (from + 1 <? to) || (Z.of_nat (c_len (s_c s1)) <? from + 1))%bool; [discriminate|]. injection H as <-.
    eexists. split; [reflexivity|]. split; [reflexivity|]. apply QH_sth_s; [exact HQ1|rewrite Eh1; reflexivity].
Qed.

End D.
