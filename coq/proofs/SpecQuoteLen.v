(* Block quotes around plain paragraphs: lengths of the source of a quoted document. *)
Require Import GM.model.Base GM.model.Util GM.model.Reader GM.model.SpecDoc.
Require Import GM.proofs.SpecParaBytes GM.proofs.SpecQuoteShape.
From Coq Require Import List NArith ZArith Bool Lia.
Import ListNotations.
Open Scope Z_scope.

Lemma zlen_mk st : zlen (mk st) = if st then 2 else 1.
Proof. destruct st; reflexivity. Qed.
Lemma zlen_mk_pos st : 1 <= zlen (mk st) <= 2.
Proof. rewrite zlen_mk. destruct st; lia. Qed.

Lemma plen_cons2 L b b' r : plen L (b :: b' :: r) = L + zlen b + 1 + plen L (b' :: r).
Proof. reflexivity. Qed.
Lemma psrc_cons2 (pfx b b' : bytes) r :
  join nl (map (app pfx) (b :: b' :: r)) = (pfx ++ b) ++ nl ++ join nl (map (app pfx) (b' :: r)).
Proof. reflexivity. Qed.

Lemma plen_src pfx L p : zlen pfx = L -> zlen (join nl (map (app pfx) p)) = plen L p.
Proof.
  intros HL. induction p as [|b [|b' r] IH].
  - reflexivity.
  - cbn [map join plen]. rewrite zlen_app. lia.
  - rewrite psrc_cons2, plen_cons2. rewrite !zlen_app. change (zlen nl) with 1. unfold bytes in *. lia.
Qed.

Lemma qb_qbs_len_src :
  (forall b pfx L, zlen pfx = L -> zlen (qb_src pfx b) = qb_len L b) /\
  (forall bs pfx sep L Ls, zlen pfx = L -> zlen sep = Ls -> zlen (qbs_src pfx sep bs) = qbs_len L Ls bs).
Proof.
  apply qb_qbs_ind.
  - intros p pfx L HL. cbn [qb_src qb_len]. apply plen_src. exact HL.
  - intros st bs IH pfx L HL. cbn [qb_src qb_len]. apply IH.
    + rewrite zlen_app. lia.
    + rewrite zlen_app. change (zlen [62%N]) with 1. lia.
  - intros b IH pfx sep L Ls HL HLs. cbn [qbs_src qbs_len]. apply IH. exact HL.
  - intros b IHb r IHr pfx sep L Ls HL HLs. cbn [qbs_src qbs_len].
    rewrite !zlen_app, (IHb pfx L HL), (IHr pfx sep L Ls HL HLs). change (zlen nl) with 1. lia.
Qed.
Lemma qb_len_src b pfx : zlen (qb_src pfx b) = qb_len (zlen pfx) b.
Proof. apply (proj1 qb_qbs_len_src). reflexivity. Qed.
Lemma qbs_len_src bs pfx sep : zlen (qbs_src pfx sep bs) = qbs_len (zlen pfx) (zlen sep) bs.
Proof. apply (proj2 qb_qbs_len_src); reflexivity. Qed.

Lemma plen_nonneg L p : 0 <= L -> 0 <= plen L p.
Proof.
  intros HL. induction p as [|b [|b' r] IH]; [cbn [plen]; lia|cbn [plen]; pose proof (zlen_nonneg b); lia|].
  rewrite plen_cons2. pose proof (zlen_nonneg b). lia.
Qed.
