(* C11 for the GFM parser model (model/GfmI.v): an extension that is switched on does not change
   the tree of a source that has none of the characters its syntax needs - for every source and
   whatever the other three extensions are. *)
Require Import GM.model.Base GM.model.Util GM.model.Reader GM.model.Regex GM.model.HtmlWriter GM.model.Html GM.model.HtmlI
               GM.model.TableX GM.model.BlockParse GM.model.InlineParse GM.model.BlockParseX GM.model.InlineParseX
               GM.model.GfmParse GM.model.GfmI GM.model.ParseI.
Require Import GM.model.UtilI GM.model.DelimI GM.gen.Tables GM.gen.Regexes.
Require Import GM.proofs.GfmConservativeDefs GM.proofs.GfmConservativeBlk GM.proofs.GfmConservativeTree
               GM.proofs.GfmConservativeSrc GM.proofs.GfmConservativeInl GM.proofs.GfmConservativeTableB GM.proofs.GfmConservativeTableCP.
Require Import GM.proofs.ParseInv.
From Coq Require Import List NArith Bool.
Import ListNotations.
Open Scope N_scope.

Definition with_strike (xc : xcfg) (b : bool) : xcfg := {| x_strike := b; x_task := x_task xc; x_table := x_table xc; x_linkify := x_linkify xc |}.
Definition with_task (xc : xcfg) (b : bool) : xcfg := {| x_strike := x_strike xc; x_task := b; x_table := x_table xc; x_linkify := x_linkify xc |}.
Definition with_table (xc : xcfg) (b : bool) : xcfg := {| x_strike := x_strike xc; x_task := x_task xc; x_table := b; x_linkify := x_linkify xc |}.
Definition lacks (c : N) (src : bytes) : Prop := ~ In c src.

(* Strikethrough without '~' *)
Theorem strike_conservative : forall xc src, lacks 126 src -> ParseTreeX (with_strike xc true) src = ParseTreeX (with_strike xc false) src.
Proof.
  intros xc src Hl. unfold ParseTreeX, parse_treeX, parse_blocks_treeX. cbn [x_table with_strike].
  apply gc_bind_ext. intros [t refs] _.
  rewrite (attach_inlinesX_ext _ _ (fun b lines =>
    inline_childrenX_strike (with_strike xc true) (with_strike xc false) _ _ _ _ _ _ _ _ _ _ _ _ _ refs b src lines
      eq_refl eq_refl Hl)).
  reflexivity.
Qed.
(* TaskList without '[' *)
Theorem task_conservative : forall xc src, lacks 91 src -> ParseTreeX (with_task xc true) src = ParseTreeX (with_task xc false) src.
Proof.
  intros xc src Hl. unfold ParseTreeX, parse_treeX, parse_blocks_treeX. cbn [x_table with_task].
  apply gc_bind_ext. intros [t refs] _.
  rewrite (attach_inlinesX_ext _ _ (fun b lines =>
    inline_childrenX_task (with_task xc true) (with_task xc false) _ _ _ _ _ _ _ _ _ _ _ _ _ refs b src lines
      eq_refl eq_refl Hl)).
  reflexivity.
Qed.
(* Table without '-' *)
(* from the block phase to the tree: if the block phase with the table paragraph transformer is the
   block phase without it, the trees are the same (the inline parsers do not read x_table, and
   the table AST transformer finds no cell) *)
Definition BlocksX (table_on : bool) (src : bytes) : result stx :=
  parse_blocksX table_on space_table punct_table ToLinkReference
    re_htmlBlockType1Open re_htmlBlockType1Close re_htmlBlockType2Open re_htmlBlockType3Open
    re_htmlBlockType4Open re_htmlBlockType5Open re_htmlBlockType6 re_htmlBlockType7 allowed_block_tags src.

Lemma inline_childrenX_not_cell xc refs b src lines ts :
  inline_childrenX xc space_table punct_table ToLinkReference url_table email_table re_emailDomain re_openTag re_closeTag
                   PunctRune SpaceRune re_taskList re_url re_wwwURL refs b src lines = Ok ts ->
  Forall (kinds_in not_cell) ts.
Proof.
  unfold inline_childrenX. intros H. gc_bind H x Ex. destruct x as [c http]. gc_bind H t0 Et0. injection H as <-.
  apply kinds_in_children. eapply itreeX_not_cell. exact Et0.
Qed.

Lemma table_tree_level xc src : BlocksX true src = BlocksX false src ->
  ParseTreeX (with_table xc true) src = ParseTreeX (with_table xc false) src.
Proof.
  unfold BlocksX. intros Hblk. unfold ParseTreeX, parse_treeX, parse_blocks_treeX. cbn [x_table with_table].
  rewrite Hblk. rewrite parse_blocksX_off.
  destruct (parse_blocks _ _ _ _ _ _ _ _ _ _ _ _ src) as [s| |]; cbn [bind]; try reflexivity.
  cbn [bx_s bx_tabs]. rewrite to_treeX_nil.
  destruct (to_tree (S (length (s_h s))) src (s_h s) 0%nat) as [t| |] eqn:Et; cbn [bind]; try reflexivity.
  rewrite (attach_inlinesX_ext _ _ (fun b lines =>
    inline_childrenX_agree (with_table xc true) (with_table xc false) _ _ _ _ _ _ _ _ _ _ _ _ _ (c_refs (s_c s)) b src lines
      (fun c _ => eq_refl))).
  match goal with |- (t <- ?e ;; _) = _ => destruct e as [t'| |] eqn:Ea end; cbn [bind]; try reflexivity.
  apply table_ast_transform_id.
  eapply attach_inlinesX_not_cell; [|eapply to_tree_bkinds; exact Et|exact Ea].
  intros b lines ts H. eapply inline_childrenX_not_cell. exact H.
Qed.

(* without any hypothesis on the source besides "no '-'": whenever the parser with the Table
   extension returns a tree, the parser without it returns the same tree *)
Theorem table_conservative_ok : forall xc src t, lacks 45 src ->
  ParseTreeX (with_table xc true) src = Ok t -> ParseTreeX (with_table xc false) src = Ok t.
Proof.
  intros xc src t Hl H. rewrite <- (table_tree_level xc src); [exact H|].
  destruct (BlocksX true src) as [x| |] eqn:Ex.
  - symmetry. unfold BlocksX in *. apply parse_blocksX_table_ok; [exact Hl|exact Ex].
  - exfalso. unfold ParseTreeX, parse_treeX, parse_blocks_treeX in H. cbn [x_table with_table] in H.
    unfold BlocksX in Ex. rewrite Ex in H. discriminate H.
  - exfalso. unfold ParseTreeX, parse_treeX, parse_blocks_treeX in H. cbn [x_table with_table] in H.
    unfold BlocksX in Ex. rewrite Ex in H. discriminate H.
Qed.

(* The statement of the skeleton,

     Theorem table_conservative : forall xc src, lacks 45 src ->
       ParseTreeX (with_table xc true) src = ParseTreeX (with_table xc false) src.

   is UNPROVED as written: the run with the Table extension reads the text of every line of a
   paragraph (Segment.Value), so the two runs can only be equal - and not differ in a failure -
   if those lines are segments inside the source; that is the block-phase invariant of
   proofs/ParseBlocksRange*.v, which is proved for sources that are byte strings (bytes_ok src:
   every element of the list is < 256).  Proved instead: table_conservative_ok above (no
   hypothesis on the source: a tree returned with the extension is returned without it) and the
   equality for byte strings: *)
Lemma space_table_sp32 : is_space space_table 32%N = true.
Proof. vm_compute. reflexivity. Qed.

Theorem table_conservative_bytes : forall xc src, bytes_ok src -> lacks 45 src ->
  ParseTreeX (with_table xc true) src = ParseTreeX (with_table xc false) src.
Proof.
  intros xc src Hb Hl. apply table_tree_level. unfold BlocksX.
  apply parse_blocksX_table; [exact space_table_sp32|exact Hb|exact Hl].
Qed.

(* with all four extensions off the GFM model is the model of the default parser *)
Definition gfm_none : xcfg := {| x_strike := false; x_task := false; x_table := false; x_linkify := false |}.
Theorem none_is_default : forall src, ParseTreeX gfm_none src = ParseTree src.
Proof.
  intros src. unfold ParseTreeX, parse_treeX, parse_blocks_treeX, ParseTree, ParseBlocksTree, ParseBlocks.
  cbn [x_table gfm_none]. rewrite parse_blocksX_off.
  destruct (parse_blocks _ _ _ _ _ _ _ _ _ _ _ _ src) as [s| |]; cbn [bind]; try reflexivity.
  cbn [bx_s bx_tabs]. rewrite to_treeX_nil.
  destruct (to_tree (S (length (s_h s))) src (s_h s) 0%nat) as [t| |] eqn:Et; cbn [bind]; try reflexivity.
  rewrite (attach_inlinesX_core _ (InlineChildren (c_refs (s_c s)) src)).
  - apply gc_bind_eta.
  - intros b lines. unfold InlineChildren. apply inline_children_core; reflexivity.
  - eapply to_tree_bkinds. exact Et.
Qed.
