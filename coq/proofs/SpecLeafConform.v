(* C02 on a larger fragment, for EVERY document of the fragment: plain paragraphs, ATX headings,
   thematic breaks and fenced code blocks.  Builds on proofs/SpecPara*.v.  Helper files:
   proofs/SpecLeaf*.v. *)
Require Import GM.model.Base GM.model.Util GM.model.UtilI GM.model.Reader GM.model.HtmlWriter GM.model.Html GM.model.HtmlI
               GM.model.SpecDoc GM.model.BlockParse GM.model.InlineParse GM.model.ParseI.
Require Import GM.proofs.SpecConformance GM.proofs.SpecParaConform.
Require Import GM.proofs.SpecLeafBytes GM.proofs.SpecLeafSpec GM.proofs.SpecLeafCompose.
From Coq Require Import List NArith ZArith Bool Lia.
Import ListNotations.
Open Scope N_scope.

(* a line of code: lower-case letters and blanks (possibly empty) *)
Definition code_line (l : bytes) : bool := forallb (fun c => ((97 <=? c) && (c <=? 122)) || (c =? 32)) l.
Definition leaf_block (b : block) : bool :=
  match b with
  | BPara 0 a => plain_para (BPara 0 a)
  (* ATX heading "## words", levels 1..6, no closing sequence *)
  | SpecDoc.BHeading 0 lv 0 0 a => (1 <=? lv) && (lv <=? 6) &&
      match a with [] => false | _ => forallb (fun x => match x with AWord w => is_word w | _ => false end) a end
  (* thematic break in the spellings of hr_md *)
  | BHr 0 st => st <=? 2
  (* fenced code block: three backticks, no indentation, an info word or none *)
  | BCode 2 0 3 info lines => (match info with [] => true | _ => is_word info end) && forallb code_line lines
  | _ => false
  end.
Definition leaf_doc (d : doc) : bool := negb (match d with [] => true | _ => false end) && forallb leaf_block d.

(* html_of writes <hr /> as the specification's examples do: the XHTML option *)
Theorem leaf_doc_conforms : forall c fin d,
  hardwraps c = false -> xhtml c = true -> leaf_doc d = true ->
  ConvertModel c (md_of false fin d) = Ok (html_of d).
Proof.
  intros c fin d Hc Hx Hd.
  destruct (leaf_doc_shape d Hd) as (d' & Hok & Hmd & Hhtml).
  rewrite (Hmd fin), Hhtml. apply convert_leaf; assumption.
Qed.
