(* C11 for the footnote parser model: Open, Continue, Close of the ten default block parsers and
   the paragraph transformer are `ext` steps (FootnoteConservativeSt.v): they keep the heap
   plain, the reader on src with a clean cache, and the opened-blocks array. *)
Require Import GM.model.Base GM.model.Util GM.model.Reader GM.model.Blocks GM.model.ListItem
               GM.model.LeafBlocks GM.model.CodeBlock GM.model.LinkDest GM.model.Regex GM.model.BlockParse.
Require Import GM.proofs.FootnoteConservativeDefs GM.proofs.FootnoteConservativeRd GM.proofs.FootnoteConservativeSt.
From Coq Require Import List ZArith NArith Bool Lia.
Import ListNotations.
Open Scope Z_scope.

Section P.
Variable src : bytes.
Hypothesis Hsrc : nfm src = true.
Variable space_table punct_table : list N.
Variable norm : bytes -> bytes.
Variable re_t1o re_t1c re_t2 re_t3 re_t4 re_t5 re_t6 re_t7 : re.
Variable allowed_tags : list bytes.
Notation RB := (RB src).
Notation ext := (ext src).

Ltac pn := unfold plain_node; repeat match goal with |- context [if ?b then _ else _] => destruct b end; cbn; intros K; first [discriminate K|reflexivity].

(* hstep h0 h from the equations of the heap operations that lead from h0 to h *)
Ltac hs_go :=
  lazymatch goal with
  | |- hstep ?h ?h => apply hstep_refl
  | |- hstep ?h0 ?h =>
    match goal with
    | H : hupd ?h1 _ _ = Ok h |- _ => apply (hstep_trans h0 h1 h); [hs_go|eapply hupd_hstep; [exact H|keeps_tac]]
    | H : remove_child ?h1 _ _ = Ok h |- _ => apply (hstep_trans h0 h1 h); [hs_go|exact (remove_child_hstep _ _ _ _ H)]
    | H : replace_child ?h1 _ _ _ = Ok h |- _ => apply (hstep_trans h0 h1 h); [hs_go|exact (replace_child_hstep _ _ _ _ _ H)]
    | H : insert_after ?h1 _ _ _ = Ok h |- _ => apply (hstep_trans h0 h1 h); [hs_go|exact (insert_after_hstep _ _ _ _ _ H)]
    | H : append_child ?h1 _ _ = Ok h |- _ => apply (hstep_trans h0 h1 h); [hs_go|exact (append_child_hstep _ _ _ _ H)]
    end
  end.

(* ext s X from the equations of the calls that lead from s to X *)
Ltac ext_go :=
  lazymatch goal with
  | |- ext ?s ?s => apply ext_refl
  | |- ext ?s (st_r ?y ?r) => apply (ext_trans src s y); [ext_go|apply ext_st_r; cbn [s_r st_r st_h st_c]; intros HRB; eauto using RB_advance, RB_adv_pad, RB_code_block_open, RB_code_block_continue, RB_fence_continue_r, RB_bq_process_total, RB_list_item_open, RB_peek1, RB_loff]
  | |- ext ?s (st_c ?y ?c) => apply (ext_trans src s y); [ext_go|apply ext_st_c; reflexivity]
  | |- ext ?s (st_h ?y ?h) =>
    apply (ext_trans src s y);
    [ext_go|apply ext_st_h; cbn [s_h s_c s_r st_r st_h st_c] in *; hs_go]
  | |- ext ?s (if ?b then ?x else ?y) => destruct b; ext_go
  | |- ext ?s ?y =>
    match goal with
    | H : peek_line_s ?x = Ok (y, _, _) |- _ => apply (ext_trans src s x y); [ext_go|exact (peek_line_s_ext src Hsrc _ _ _ _ H)]
    | H : line_offset_s ?x = Ok (y, _) |- _ => apply (ext_trans src s x y); [ext_go|exact (line_offset_s_ext src _ _ _ H)]
    | H : advance_s ?x _ = Ok y |- _ => apply (ext_trans src s x y); [ext_go|exact (advance_s_ext src _ _ _ H)]
    | H : new_node ?x _ = (y, _) |- _ => apply (ext_trans src s x y); [ext_go|apply (new_node_ext src _ _ _ _ H); pn]
    end
  end.

(* inner computations (the value of a bind that is an if or a match) *)
Ltac crunch_all :=
  repeat match goal with
  | E : (if _ then _ else _) = Ok _ |- _ => crunch E; try (inversion E; subst; clear E)
  | E : match _ with _ => _ end = Ok _ |- _ => crunch E; try (inversion E; subst; clear E)
  end.

Lemma paragraph_open_ext s s' o : paragraph_open space_table s = Ok (s', o) -> ext s s'.
Proof. unfold paragraph_open. intros H. crunch H; injection H as <- <-; ext_go. Qed.

Lemma paragraph_continue_ext s node s' b : paragraph_continue space_table s node = Ok (s', b) -> ext s s'.
Proof. unfold paragraph_continue. intros H. crunch H; injection H as <- <-; ext_go. Qed.

Lemma paragraph_close_ext s node s' : paragraph_close space_table s node = Ok s' -> ext s s'.
Proof. unfold paragraph_close. intros H. crunch H; injection H as <-; ext_go. Qed.

Lemma thematic_open_ext s s' o : thematic_open space_table s = Ok (s', o) -> ext s s'.
Proof. unfold thematic_open. intros H. crunch H; injection H as <- <-; ext_go. Qed.

Lemma atx_open_s_ext s s' o : atx_open_s space_table s = Ok (s', o) -> ext s s'.
Proof. unfold atx_open_s. intros H. crunch H; injection H as <- <-; ext_go. Qed.

Lemma fenced_open_ext s s' o : fenced_open space_table s = Ok (s', o) -> ext s s'.
Proof. unfold fenced_open. intros H. crunch H; injection H as <- <-; ext_go. Qed.

Lemma fenced_continue_ext s node s' b : fenced_continue space_table s node = Ok (s', b) -> ext s s'.
Proof. unfold fenced_continue. intros H. crunch H; injection H as <- <-; ext_go. Qed.

Lemma fenced_close_ext s node s' : fenced_close s node = Ok s' -> ext s s'.
Proof. unfold fenced_close. intros H. crunch H; injection H as <-; ext_go. Qed.

Lemma code_open_ext s s' o : code_open space_table s = Ok (s', o) -> ext s s'.
Proof. unfold code_open. intros H. crunch H; injection H as <- <-; ext_go. Qed.

Lemma code_continue_ext s node s' b : code_continue space_table s node = Ok (s', b) -> ext s s'.
Proof. unfold code_continue. intros H. crunch H; injection H as <- <-; ext_go. Qed.

Lemma code_close_ext s node s' : code_close space_table s node = Ok s' -> ext s s'.
Proof. unfold code_close. intros H. crunch H; injection H as <-; ext_go. Qed.

Lemma bq_open_ext s s' o : bq_open s = Ok (s', o) -> ext s s'.
Proof. unfold bq_open. intros H. crunch H; injection H as <- <-; ext_go. Qed.

Lemma bq_continue_ext s s' b : bq_continue s = Ok (s', b) -> ext s s'.
Proof. unfold bq_continue. intros H. crunch H; injection H as <- <-; ext_go. Qed.

Lemma setext_open_ext s parent s' o : setext_open space_table s parent = Ok (s', o) -> ext s s'.
Proof. unfold setext_open. intros H. crunch H; injection H as <- <-; ext_go. Qed.

Lemma html_open_ext s s' o :
  html_open space_table re_t1o re_t2 re_t3 re_t4 re_t5 re_t6 re_t7 allowed_tags s = Ok (s', o) -> ext s s'.
Proof. unfold html_open. intros H. cbv zeta in H. crunch H; injection H as <- <-; ext_go. Qed.

Lemma html_continue_ext s node s' b : html_continue space_table re_t1c s node = Ok (s', b) -> ext s s'.
Proof. unfold html_continue. intros H. cbv zeta in H. crunch H; injection H as <- <-; ext_go. Qed.

Lemma list_open_ext s parent s' o : list_open space_table s parent = Ok (s', o) -> ext s s'.
Proof. unfold list_open. intros H. cbv zeta in H. crunch H; injection H as <- <-; ext_go. Qed.

Lemma list_continue_ext s node s' b : list_continue space_table s node = Ok (s', b) -> ext s s'.
Proof. unfold list_continue. intros H. cbv zeta in H. crunch H; injection H as <- <-; ext_go. Qed.

Lemma list_item_open_s_ext s parent s' o : list_item_open_s space_table s parent = Ok (s', o) -> ext s s'.
Proof. unfold list_item_open_s. intros H. crunch H; injection H as <- <-; ext_go. Qed.

Lemma list_item_continue_ext s node s' b : list_item_continue space_table s node = Ok (s', b) -> ext s s'.
Proof. unfold list_item_continue. intros H. cbv zeta in H. crunch H; injection H as <- <-; ext_go. Qed.

Lemma setext_close_ext s node s' : setext_close space_table s node = Ok s' -> ext s s'.
Proof. unfold setext_close. intros H. cbv zeta in H. crunch H; crunch_all; injection H as <-; ext_go. Qed.

Lemma list_close_ext s node s' : list_close s node = Ok s' -> ext s s'.
Proof.
  unfold list_close. intros H. fc_bind H n En. fc_bind H tight Et. fc_bind H h Eh. cbv zeta in H.
  assert (X : ext s (st_h s h)) by ext_go.
  destruct (negb tight); [injection H as <-; exact X|].
  eapply ext_trans; [exact X|]. clear X Et Eh En. revert H. generalize (st_h s h). generalize (bch n).
  induction l as [|c rest IH]; intros s0 H; [injection H as <-; apply ext_refl|].
  fc_bind H cn Ecn. fc_bind H s1 E1. eapply ext_trans; [|apply IH; exact H].
  clear H Ecn IH. revert s0 E1. generalize (bch cn).
  induction l as [|g tl IH]; intros s0 H; [injection H as <-; apply ext_refl|].
  fc_bind H gn Egn. destruct (bkind_eqb (bk gn) BParagraph); [|apply IH; exact H].
  destruct (new_node s0 _) as [s2 t] eqn:En. fc_bind H h2 Eh2.
  eapply ext_trans; [|apply IH; exact H]. ext_go.
Qed.

Lemma add_ref_arr c l d t : c_arr (add_ref norm c l d t) = c_arr c.
Proof. unfold add_ref. cbv zeta. destruct (existsb _ _); reflexivity. Qed.

Lemma parse_lrd_arr r c r' c' a b : parse_lrd space_table punct_table norm r c = Ok (r', c', a, b) -> c_arr c' = c_arr c.
Proof.
  unfold parse_lrd. intros H. cbv zeta in H. crunch H; inversion H; subst; try reflexivity; apply add_ref_arr.
Qed.

Lemma lrd_loop_arr : forall fuel r c rm c' rm', lrd_loop space_table punct_table norm fuel r c rm = Ok (c', rm') -> c_arr c' = c_arr c.
Proof.
  induction fuel as [|f IH]; intros r c rm c' rm' H; [discriminate|]. cbn [lrd_loop] in H.
  fc_bind H x Ex. destruct x as [[[r1 c1] a] b]. apply parse_lrd_arr in Ex.
  destruct (-1 <? a); [apply IH in H; congruence|injection H as <- <-; exact Ex].
Qed.

Lemma lrd_transform_ext s node s' : lrd_transform space_table punct_table norm s node = Ok s' -> ext s s'.
Proof.
  unfold lrd_transform. intros H. fc_bind H n En. fc_bind H br Ebr. fc_bind H x Ex. destruct x as [c removes].
  apply lrd_loop_arr in Ex. cbv zeta in H.
  assert (X : ext s (st_c s c)) by (apply ext_st_c; exact Ex).
  eapply ext_trans; [exact X|]. clear X. crunch H; injection H as <-; ext_go.
Qed.

Lemma transform_paragraph_ext s node s' g : transform_paragraph space_table punct_table norm s node = Ok (s', g) -> ext s s'.
Proof.
  unfold transform_paragraph. intros H. fc_bind H s1 E1. fc_bind H n En. injection H as <- <-.
  eapply lrd_transform_ext. exact E1.
Qed.

Notation p_open := (p_open space_table re_t1o re_t2 re_t3 re_t4 re_t5 re_t6 re_t7 allowed_tags).
Notation p_continue := (p_continue space_table re_t1c).
Notation p_close := (p_close space_table).

Lemma p_open_ext p s parent s' o : p_open p s parent = Ok (s', o) -> ext s s'.
Proof.
  destruct p; cbn [BlockParse.p_open]; intros H.
  - eapply setext_open_ext; exact H.
  - eapply thematic_open_ext; exact H.
  - eapply list_open_ext; exact H.
  - eapply list_item_open_s_ext; exact H.
  - eapply code_open_ext; exact H.
  - eapply atx_open_s_ext; exact H.
  - eapply fenced_open_ext; exact H.
  - eapply bq_open_ext; exact H.
  - eapply html_open_ext; exact H.
  - eapply paragraph_open_ext; exact H.
Qed.

Lemma p_continue_ext p s node s' c k : p_continue p s node = Ok (s', c, k) -> ext s s'.
Proof.
  destruct p; cbn [BlockParse.p_continue]; intros H;
    try (injection H as <- <- <-; apply ext_refl);
    fc_bind H x Ex; destruct x as [s1 b1]; injection H as <- <- <-; cbn [fst].
  - eapply list_continue_ext; exact Ex.
  - eapply list_item_continue_ext; exact Ex.
  - eapply code_continue_ext; exact Ex.
  - eapply fenced_continue_ext; exact Ex.
  - eapply bq_continue_ext; exact Ex.
  - eapply html_continue_ext; exact Ex.
  - eapply paragraph_continue_ext; exact Ex.
Qed.

Lemma p_close_ext p s node s' : p_close p s node = Ok s' -> ext s s'.
Proof.
  destruct p; cbn [BlockParse.p_close]; intros H; try (injection H as <-; apply ext_refl).
  - eapply setext_close_ext; exact H.
  - eapply list_close_ext; exact H.
  - eapply code_close_ext; exact H.
  - eapply fenced_close_ext; exact H.
  - eapply paragraph_close_ext; exact H.
Qed.

End P.
