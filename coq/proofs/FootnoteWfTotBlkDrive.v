(* Helper file for FootnoteWfTotBlk.v (fork of ParseBlocksTotalDrive.v without the conversion to a tree, ported
   to the driver of model/FootnoteParseBlock.v): the outer loops lines_loopF, parse_blocks_loopF, parse_blocksF
   under the interface statement open_blocksF_spec (FootnoteWfTotBlkOpenI.v).  States are x : stf with
   s := bf_s x and the invariant parameter bf_list x. *)
Require Import GM.model.Base GM.model.Util GM.model.Reader GM.model.ReaderSpec GM.model.Blocks GM.model.ListItem
               GM.model.LeafBlocks GM.model.CodeBlock GM.model.LinkDest GM.model.Regex
               GM.model.BlockParse GM.model.FootnoteParseBlock.
Require Import GM.proofs.ReaderProofs GM.proofs.BlocksProofs
               GM.proofs.ParseBlocksTotalReader GM.proofs.FootnoteWfTotBlkPad GM.proofs.FootnoteWfTotBlkDefs
               GM.proofs.FootnoteWfTotBlkSpec
               GM.proofs.FootnoteWfTotBlkSt GM.proofs.FootnoteWfTotBlkShape
               GM.proofs.FootnoteWfTotBlkClose GM.proofs.FootnoteWfTotBlkOpenI
               GM.proofs.FootnoteWfTotBlkEachA GM.proofs.FootnoteWfTotBlkEach.
From Coq Require Import ZArith Lia List Bool.
Import ListNotations.
Open Scope Z_scope.

(* skipping blank lines only peeks and advances lines: the padding of the position stays <= 3 *)
Lemma PadB_skip_blank_lines space_table fuel : forall r lines r' sg n ok,
  skip_blank_lines space_table reader r_peek_line r_advance_line_res fuel r lines = Ok (r', sg, n, ok) ->
  PadB r -> PadB r'.
Proof.
  induction fuel as [|f IH]; intros r lines r' sg n ok E HP; [discriminate|]. cbn [skip_blank_lines] in E.
  destruct (r_peek_line r) as [[[r1 line] sg1]| |] eqn:Ep; cbn [bind] in E; try discriminate.
  destruct (PadB_peek_line _ _ _ _ Ep HP) as [HP1 _].
  destruct line as [l|].
  - destruct (Reader.is_blank space_table l).
    + unfold r_advance_line_res in E at 1. cbn [bind] in E. eapply IH; [exact E|]. apply PadB_advance_line, HP1.
    + injection E as <- _ _ _. exact HP1.
  - injection E as <- _ _ _. exact HP1.
Qed.

Section S.
Variable space_table punct_table : list N.
Variable norm : bytes -> bytes.
Variable re_t1o re_t1c re_t2 re_t3 re_t4 re_t5 re_t6 re_t7 : re.
Variable allowed_tags : list bytes.
Variable src : bytes.
Hypothesis tbl : TblOK space_table.
Hypothesis OBK : open_blocksF_spec space_table punct_table norm re_t1o re_t1c re_t2 re_t3 re_t4 re_t5 re_t6 re_t7
                                    allowed_tags src.
Notation SI := (SI space_table src).
Notation SIx x := (SI (bf_list x) (bf_s x)).
Notation HInv := (HInv space_table src).
Notation LineInv := (LineInv space_table src).
Notation LIx x := (LineInv (bf_list x) (bf_s x)).
Notation LLF := (lines_loopF space_table punct_table norm re_t1o re_t1c re_t2 re_t3 re_t4 re_t5 re_t6 re_t7 allowed_tags).
Notation PBLF := (parse_blocks_loopF space_table punct_table norm re_t1o re_t1c re_t2 re_t3 re_t4 re_t5 re_t6 re_t7 allowed_tags).
Notation EOK := (each_opened_ok space_table punct_table norm re_t1o re_t1c re_t2 re_t3 re_t4 re_t5 re_t6 re_t7 allowed_tags src tbl OBK).
Notation EA lem := (lem space_table src).

(* ---------- the start of a line ---------- *)
Lemma Below_le h r r' : Below h r -> r_le r r' -> Below h r'.
Proof.
  intros HB (_ & Hs & _) i n Hn Hk. specialize (HB i n Hn Hk).
  eapply Forall_impl; [|exact HB]. cbv beta. intros sg Hsg. lia.
Qed.

Lemma LineInv_set_r lst s r' : LineInv lst s -> RI r' -> r_le (s_r s) r' -> PadB r' -> LineInv lst (st_r s r').
Proof.
  intros [L1 L2 L3 L4] HR HL HP. constructor; cbn [st_r s_h s_c s_r]; auto. apply SI_set_r; assumption.
Qed.

Lemma line_start lst s : LineInv lst s ->
  LineInv lst (advance_line_s s) /\ Below (s_h (advance_line_s s)) (s_r (advance_line_s s)) /\
  ops (advance_line_s s) = ops s /\ r_le (s_r s) (s_r (advance_line_s s)) /\
  s_start (r_pos (s_r (advance_line_s s))) = s_stop (r_pos (s_r s)).
Proof.
  intros HL. pose proof (li_si _ _ _ _ HL) as HS.
  destruct (ri_advance_line (s_r s) (si_r _ _ _ _ HS)) as (A & B & C).
  unfold advance_line_s. csplit; auto.
  - apply LineInv_set_r; try assumption. apply PadB_advance_line, (si_pad _ _ _ _ HS).
  - cbn [st_r s_h s_r]. intros i n Hn Hk. pose proof (si_lim _ _ _ _ HS i n Hn Hk) as HF.
    eapply Forall_impl; [|exact HF]. cbv beta. intros sg Hsg. lia.
Qed.

(* ---------- lines_loopF ---------- *)
Lemma lines_loop_ok : forall fuel stats x, LIx x -> Below (s_h (bf_s x)) (s_r (bf_s x)) ->
  (Z.to_nat (zlen src - s_start (r_pos (s_r (bf_s x)))) < fuel)%nat ->
  exists r stats', LLF fuel 0%nat stats x = Ok (r, stats') /\
    match r with
    | inl x' => SIx x'
    | inr x' => LIx x' /\ ops (bf_s x') = [] /\ Below (s_h (bf_s x')) (s_r (bf_s x')) /\
                r_le (s_r (bf_s x)) (s_r (bf_s x'))
    end.
Proof using All.
  induction fuel as [|f IH]; intros stats x HL HB Hf; [lia|]. cbn [lines_loopF]. set (s := bf_s x) in *. fold (ops s).
  destruct (ops s) as [|e cap'] eqn:Ecap.
  - exists (inr x), stats. split; [reflexivity|]. fold s. csplit; auto. apply r_le_refl.
  - rewrite <- Ecap. set (cap := ops s).
    assert (Hne : 0 < zlen cap) by (unfold cap; rewrite Ecap, zlen_cons; pose proof (zlen_nonneg cap'); lia).
    destruct (EOK cap (S (length cap)) 0 stats x) as [r [stats' [E Hr]]].
    { unfold LineMid. fold s. csplit; auto. }
    { lia. }
    { unfold zlen. lia. }
    { cbn [Z.to_nat]. intros it. apply (EA eo_root_not_item (bf_list x) s it HL). }
    rewrite E. cbn [bind]. destruct r as [x'|x'].
    + exists (inl x'), stats'. split; [reflexivity|exact Hr].
    + destruct Hr as (s'' & L1 & L2 & Eadv & L3). fold s in L2, L3. specialize (L3 ltac:(lia)).
      unfold advance_line_f. rewrite Eadv.
      destruct (line_start (bf_list x') s'' L1) as (M1 & M2 & M3 & M4 & M5).
      pose proof (li_si _ _ _ _ HL) as HS. pose proof (ri_bounds _ (si_r _ _ _ _ HS)) as Hb.
      apply in_range_true in L3.
      pose proof (inv_bounds_in _ (proj1 (si_r _ _ _ _ HS)) ltac:(lia)) as Hlt.
      destruct L2 as (Q1 & Q2 & Q3).
      pose proof (ri_bounds _ (si_r _ _ _ _ (li_si _ _ _ _ M1))) as Hb'.
      rewrite (si_src _ _ _ _ (li_si _ _ _ _ M1)) in Hb'. rewrite (si_src _ _ _ _ HS) in L3.
      destruct (IH stats' (stf_s x' (advance_line_s s'')) M1 M2) as [r2 [stats2 [E2 Hr2]]].
      { cbn [stf_s bf_s]. rewrite M5. lia. }
      rewrite E2. exists r2, stats2. split; [reflexivity|].
      destruct r2 as [x2|x2]; [exact Hr2|]. cbn [stf_s bf_s bf_list] in Hr2. destruct Hr2 as (N1 & N2 & N3 & N4). csplit; auto.
      eapply r_le_trans; [|exact N4]. eapply r_le_trans; [|exact M4]. unfold r_le. auto.
Qed.

(* ---------- parse_blocks_loopF ---------- *)
Lemma last_opened_nth c n p : (c_len c <= length (c_arr c))%nat -> last_opened c = Some (n, p) ->
  nth_error (opened c) (pred (length (opened c))) = Some (n, p).
Proof.
  intros H E. rewrite last_opened_spec in E by exact H. rewrite (opened_length c H).
  destruct (c_len c); [discriminate|exact E].
Qed.

Lemma parse_blocks_loop_ok : forall fuel stats x, LIx x -> ops (bf_s x) = [] -> Below (s_h (bf_s x)) (s_r (bf_s x)) ->
  (Z.to_nat (zlen src - s_start (r_pos (s_r (bf_s x)))) < fuel)%nat ->
  exists x', PBLF fuel 0%nat stats x = Ok x' /\ SIx x'.
Proof using All.
  induction fuel as [|f IH]; intros stats x HL Hops HB Hf; [lia|]. cbn [parse_blocks_loopF]. cbv zeta.
  set (s := bf_s x) in *. set (lst := bf_list x) in *.
  pose proof (li_si _ _ _ _ HL) as HS. pose proof (si_src _ _ _ _ HS) as Hsrc. unfold src_of. rewrite Hsrc.
  unfold r_skip_blank_lines.
  destruct (ri_skip_blank_lines space_table (S (length src)) (s_r s) 0 (si_r _ _ _ _ HS)) as (r1 & sg & nl & ok & E1 & R1 & Q1 & Q2 & Q3).
  { rewrite Hsrc. unfold zlen. pose proof (ri_bounds _ (si_r _ _ _ _ HS)). lia. }
  pose proof (PadB_skip_blank_lines _ _ _ _ _ _ _ _ E1 (si_pad _ _ _ _ HS)) as P1.
  rewrite E1. cbn [bind]. cbv beta iota.
  set (s1 := st_r s r1). set (x1 := stf_s x s1).
  assert (HL1 : LineInv lst s1) by (apply LineInv_set_r; assumption).
  assert (Hops1 : ops s1 = []) by exact Hops.
  assert (HB1 : Below (s_h s1) (s_r s1)) by (eapply Below_le; [exact HB|exact Q1]).
  destruct ok; cbn [negb].
  2:{ exists x1. split; [reflexivity|apply HL1]. }
  specialize (Q2 eq_refl).
  pose proof (li_si _ _ _ _ HL1) as HS1.
  cbn [st_r s_r]. fold s1. replace (r_src r1) with src by (destruct Q1 as (A & _); congruence).
  destruct (li_root _ _ _ _ HL1) as [n0 [H0 K0]].
  match goal with |- context [open_blocksF _ _ _ _ _ _ _ _ _ _ _ _ ?fu _ ?bl x1] => set (fu1 := fu); set (blank := bl) end.
  pose proof (OBK fu1 0%nat n0 blank x1) as HO. cbv zeta in HO. change (bf_s x1) with s1 in HO. change (bf_list x1) with lst in HO.
  destruct (HO HS1 H0) as (res & x2 & E2 & S2 & R2 & Cf & Ct & Ctl & Hcase); clear HO.
  { intros K. congruence. }
  { intros e n He. rewrite Hops1 in He. contradiction. }
  { intros k e He. rewrite Hops1 in He. destruct k; discriminate. }
  { exact HB1. }
  { unfold fu1. pose proof (ri_bounds _ (si_r _ _ _ _ HS1)) as Hb. rewrite (si_src _ _ _ _ HS1) in Hb. unfold zlen in Hb.
    unfold s1 in *. cbn [st_r s_r] in *.
    replace (r_src r1) with src by (destruct Q1 as (A & _); congruence). lia. }
  rewrite E2. cbn [bind]. cbv beta iota. set (s2 := bf_s x2) in *.
  destruct Hcase as [Hc|Hc].
  { destruct Hc as (Hres & _). exists x2. split; [|exact S2]. destruct Hres as [->| ->]; reflexivity. }
  destruct Hc as (Hres & base' & new & Hops2 & Hnew & Hbase & HOF & HCh & Hfresh & _ & Hlastnew).
  subst res. cbn [Z.eqb negb]. change (newBlocksOpened =? newBlocksOpened) with true. cbn [negb].
  assert (Hb' : base' = []).
  { destruct Hbase as [->|[y Hy]]; [exact Hops1|]. rewrite Hops1 in Hy. destruct base'; discriminate. }
  subst base'. cbn [app] in Hops2.
  assert (HL2 : LineInv (bf_list x2) s2).
  { constructor.
    - exact S2.
    - rewrite Hops2. exact HCh.
    - intros n p nn Hlo Hn. pose proof (last_opened_nth _ n p (ci_len _ _ _ (si_c _ _ _ _ S2)) Hlo) as Hnth.
      fold (ops s2) in Hnth. rewrite Hops2 in Hnth. destruct (Hlastnew n p nn Hnth Hn) as (A & B & C & D). split.
      + intros ->. destruct (A eq_refl) as (ch & ind & fl & E). rewrite E. discriminate.
      + intros ->. destruct (C eq_refl) as (C1 & C2 & _). auto.
    - destruct HOF as [_ HOF]. destruct (HOF 0%nat n0 H0) as [n0' (A & B & _)]. exists n0'. split; [exact A|congruence]. }
  destruct (line_start (bf_list x2) s2 HL2) as (M1 & M2 & M3 & M4 & M5).
  unfold advance_line_f. fold s2. set (s3 := advance_line_s s2) in *. cbn [stf_s bf_s].
  replace (r_src (s_r s3)) with src by (symmetry; apply (si_src _ _ _ _ (li_si _ _ _ _ M1))).
  match goal with |- context [lines_loopF _ _ _ _ _ _ _ _ _ _ _ _ _ _ ?st (stf_s x2 s3)] => set (stats3 := st) end.
  destruct (lines_loop_ok (S (length src)) stats3 (stf_s x2 s3) M1 M2) as [r [stats' [E3 Hr]]].
  { cbn [stf_s bf_s]. pose proof (ri_bounds _ (si_r _ _ _ _ (li_si _ _ _ _ M1))) as Hb. unfold zlen. lia. }
  rewrite E3. cbn [bind]. cbv beta iota. destruct r as [x4|x4].
  - exists x4. split; [reflexivity|exact Hr].
  - cbn [stf_s bf_s] in Hr. destruct Hr as (N1 & N2 & N3 & N4). apply IH; auto.
    apply in_range_true in Q2.
    assert (Hlt : s_start (r_pos r1) < s_stop (r_pos r1)) by (apply (inv_bounds_in r1 (proj1 R1)); lia).
    destruct N4 as (_ & N4 & _). destruct R2 as (_ & _ & R2). destruct Q1 as (Q0 & Q1 & _).
    unfold s1 in *. cbn [st_r s_r] in *. rewrite Q0, Hsrc in Q2. lia.
Qed.

(* ---------- parse_blocksF ---------- *)
Lemma init_LineInv : LineInv None {| s_h := [mknode BDocument 0]; s_c := init_ctx; s_r := new_reader src |}.
Proof.
  constructor; cbn [s_h s_c s_r].
  - constructor; cbn [s_h s_c s_r].
    + split; [apply new_reader_inv|]. unfold new_reader. rewrite r_advance_line_eq by (rsimpl; lia). rsimpl. lia.
    + unfold new_reader. apply advance_line_src.
    + constructor.
      * discriminate.
      * intros i n Hn. destruct i as [|[|i]]; cbn in Hn; try discriminate. injection Hn as <-. constructor.
      * intros i n p Hn Hp. destruct i as [|[|i]]; cbn in Hn; try discriminate. injection Hn as <-. discriminate.
      * intros i n Hn. destruct i as [|[|i]]; cbn in Hn; try discriminate. injection Hn as <-. exact I.
      * intros i n c cn Hn K. destruct i as [|[|i]]; cbn in Hn; try discriminate. injection Hn as <-. discriminate.
      * intros c cn p pn Hn Hp. destruct c as [|[|c]]; cbn in Hn; try discriminate. injection Hn as <-. discriminate.
      * intros c cn p pn Hn K. destruct c as [|[|c]]; cbn in Hn; try discriminate. injection Hn as <-. discriminate.
      * intros l E. discriminate.
    + constructor; cbn [init_ctx c_len c_arr c_tmp_para c_fence]; try lia; try contradiction; discriminate.
    + intros i n Hn K. destruct i as [|[|i]]; cbn in Hn; try discriminate. injection Hn as <-. discriminate.
    + unfold new_reader. apply PadB_advance_line. unfold PadB. cbn. lia.
  - constructor; unfold ops, opened; cbn [init_ctx c_len c_arr firstn].
    + intros k n p E. destruct k; discriminate.
    + intros k e E. destruct k; discriminate.
    + intros k L E. destruct k; discriminate.
  - intros n p nn E. discriminate.
  - exists (mknode BDocument 0). split; reflexivity.
Qed.

(* the block phase of the footnote model never fails, and the final state satisfies the invariant *)
Lemma parse_blocksF_ok :
  exists x, parse_blocksF space_table punct_table norm re_t1o re_t1c re_t2 re_t3 re_t4 re_t5 re_t6 re_t7 allowed_tags src = Ok x /\
            SI (bf_list x) (bf_s x).
Proof using All.
  unfold parse_blocksF. apply parse_blocks_loop_ok; cbn [bf_s bf_list].
  - apply init_LineInv.
  - reflexivity.
  - intros i n Hn K. cbn [s_h] in Hn. destruct i as [|[|i]]; cbn in Hn; try discriminate. injection Hn as <-. discriminate.
  - cbn [s_r]. pose proof (ri_bounds _ (si_r _ _ _ _ (li_si _ _ _ _ init_LineInv))) as Hb. cbn [s_r] in Hb. unfold zlen. lia.
Qed.

End S.
