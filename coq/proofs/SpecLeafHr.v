(* Leaf blocks, block phase: a thematic break "***", "---" or "___" opens a thematic break node
   (for '-' the Setext parser is asked first and declines, the list parsers come later in the
   priority order and are not asked), closed by the following empty line or the end of the source. *)
Require Import GM.model.Base GM.model.Util GM.model.Reader GM.model.ListItem GM.model.Blocks GM.model.LeafBlocks GM.model.CodeBlock
               GM.model.Regex GM.model.BlockParse.
Require Import GM.gen.Tables GM.proofs.SpecParaBytes GM.proofs.SpecParaReader GM.proofs.SpecParaBlocks GM.proofs.SpecParaBlocks2
               GM.proofs.SpecLeafBytes GM.proofs.SpecLeafStep.
From Coq Require Import List NArith ZArith Bool Lia.
Import ListNotations.
Open Scope Z_scope.

Opaque space_table punct_table.

Lemma hr_line_thematic ch term : hr_char ch = true -> term = [10%N] \/ term = [] ->
  is_thematic_break space_table ([ch; ch; ch] ++ term) 0 = true.
Proof.
  intros Hch Ht. destruct (hr_char_cases ch Hch) as [->|[->| ->]]; destruct Ht as [->| ->]; vm_compute; reflexivity.
Qed.
Lemma hr_no_nl ch : hr_char ch = true -> no_nl [ch; ch; ch].
Proof. intros Hch. destruct (hr_char_cases ch Hch) as [->|[->| ->]]; reflexivity. Qed.
Lemma hr_startc ch : hr_char ch = true -> startc ch = true.
Proof. intros Hch. destruct (hr_char_cases ch Hch) as [->|[->| ->]]; reflexivity. Qed.

Section Driver.
Variable norm : bytes -> bytes.
Variables re_t1o re_t1c re_t2 re_t3 re_t4 re_t5 re_t6 re_t7 : re.
Variable allowed_tags : list bytes.
Notation TRY := (try_parsers space_table punct_table norm re_t1o re_t2 re_t3 re_t4 re_t5 re_t6 re_t7 allowed_tags).
Notation STEP := (block_step norm re_t1o re_t1c re_t2 re_t3 re_t4 re_t5 re_t6 re_t7 allowed_tags).

(* the thematic break parser opens *)
Lemma thematic_open_line h c src pre ch term rest k a b :
  at_line src pre ([ch; ch; ch] ++ term) rest a b -> hr_char ch = true -> term = [10%N] \/ term = [] ->
  thematic_open space_table (mkst h c (rd src k a b a (SomeB ([ch; ch; ch] ++ term)) 0)) =
  Ok (mkst (h ++ [mknode BThematicBreak 0]) c (rd src k a b (b - 1) None (-1)), Some (length h, false, false)).
Proof.
  intros Hat Hch Ht.
  assert (Hr : 0 <= a /\ a < b /\ b <= zlen src) by (apply (at_line_in_range _ _ _ _ _ _ Hat); discriminate).
  assert (Hlen : b - a = zlen ([ch; ch; ch] ++ term)) by (destruct Hat as (_ & Ha & Hb); lia).
  unfold thematic_open. rewrite peek_s_cached by lia. cbn [bind].
  unfold line_offset_s. cbn [s_r]. rewrite line_offset_cached. cbn [bind line_of]. unfold st_r. cbn [s_h s_c s_r].
  rewrite (hr_line_thematic ch term Hch Ht).
  unfold seg_len, lseg. cbn [s_start s_stop s_pad].
  rewrite advance_s_fast by lia. cbn [bind].
  unfold new_node, halloc, st_h. cbn [s_h s_c s_r].
  replace (a + (b - a + 0 - 1)) with (b - 1) by lia. reflexivity.
Qed.

(* the Setext heading parser declines when no block is open *)
Lemma try_setext_idle rest parent blank w s :
  last_opened (s_c s) = None ->
  TRY (PSetext :: rest) parent blank false noBlocksOpened w s = TRY rest parent blank false noBlocksOpened w s \/ (3 <? w) = true.
Proof.
  intros Hl. destruct (3 <? w) eqn:E; [right; reflexivity|left].
  cbn [try_parsers andb]. rewrite E. cbn [andb]. cbv iota. cbn [p_open]. unfold setext_open. rewrite Hl. cbn [bind]. reflexivity.
Qed.

Lemma hr_try cs cl arr src pre ch term rest k blank :
  src = pre ++ ([ch; ch; ch] ++ term) ++ rest -> hr_char ch = true -> term = [10%N] \/ term = [] ->
  TRY (candidates ch) 0%nat blank false noBlocksOpened 0
      (mkst (dnode cs :: cl) (ctx arr 0)
            (rd src k (zlen pre) (zlen pre + zlen ([ch; ch; ch] ++ term)) (zlen pre) (SomeB ([ch; ch; ch] ++ term)) 0)) =
  Ok (TDone newBlocksOpened
        (mkst (dnode (cs ++ [S (length cl)]) :: cl ++ [node_of (zlen pre) (LHr ch) blank])
              (ctx ((S (length cl), PThematic) :: skipn 1 arr) 1)
              (rd src k (zlen pre) (zlen pre + zlen ([ch; ch; ch] ++ term)) (zlen pre + zlen ([ch; ch; ch] ++ term) - 1) None (-1)))).
Proof.
  intros Hsrc Hch Ht.
  assert (Hat : at_line src pre ([ch; ch; ch] ++ term) rest (zlen pre) (zlen pre + zlen ([ch; ch; ch] ++ term))) by (rewrite Hsrc; apply at_line_here).
  assert (Hopen : forall rest',
    TRY (PThematic :: rest') 0%nat blank false noBlocksOpened 0
      (mkst (dnode cs :: cl) (ctx arr 0)
            (rd src k (zlen pre) (zlen pre + zlen ([ch; ch; ch] ++ term)) (zlen pre) (SomeB ([ch; ch; ch] ++ term)) 0)) =
    Ok (TDone newBlocksOpened
        (mkst (dnode (cs ++ [S (length cl)]) :: cl ++ [node_of (zlen pre) (LHr ch) blank])
              (ctx ((S (length cl), PThematic) :: skipn 1 arr) 1)
              (rd src k (zlen pre) (zlen pre + zlen ([ch; ch; ch] ++ term)) (zlen pre + zlen ([ch; ch; ch] ++ term) - 1) None (-1))))).
  { intros rest'. rewrite ctx_ctxG.
    rewrite (try_opened norm re_t1o re_t2 re_t3 re_t4 re_t5 re_t6 re_t7 allowed_tags PThematic rest' cs cl arr 0 0 None
               (mknode BThematicBreak 0)
               (rd src k (zlen pre) (zlen pre + zlen ([ch; ch; ch] ++ term)) (zlen pre + zlen ([ch; ch; ch] ++ term) - 1) None (-1)) blank).
    - reflexivity.
    - reflexivity.
    - cbn [p_open]. rewrite (thematic_open_line _ _ src pre ch term rest k _ _ Hat Hch Ht). reflexivity. }
  destruct (hr_char_cases ch Hch) as [E|[E|E]]; rewrite E at 1.
  - change (candidates 42) with [PThematic; PList; PListItem; PCodeBlock; PParagraph]. apply Hopen.
  - change (candidates 45) with [PSetext; PThematic; PList; PListItem; PCodeBlock; PParagraph].
    destruct (try_setext_idle [PThematic; PList; PListItem; PCodeBlock; PParagraph] 0%nat blank 0
                (mkst (dnode cs :: cl) (ctx arr 0)
                   (rd src k (zlen pre) (zlen pre + zlen ([ch; ch; ch] ++ term)) (zlen pre) (SomeB ([ch; ch; ch] ++ term)) 0)) eq_refl) as [Hs|Hs];
      [|discriminate].
    rewrite Hs. apply Hopen.
  - change (candidates 95) with [PThematic; PCodeBlock; PParagraph]. apply Hopen.
Qed.

Lemma hr_block_step ch : lblock_ok (LHr ch) = true -> STEP (LHr ch).
Proof.
  cbn [lblock_ok]. intros Hch.
  intros f eb term suf next cs cl arr pre k stats src Hpt Ht Hsrc Hnext.
  cbn [lblock_src] in *.
  destruct (oneline_step norm re_t1o re_t1c re_t2 re_t3 re_t4 re_t5 re_t6 re_t7 allowed_tags
              PThematic [ch; ch; ch] (node_of (zlen pre) (LHr ch)) (S f) eb term suf next cs cl arr pre k stats src ch [ch; ch])
    as (stats' & sfin & bl & Hrun & Hheap & Hcx & Hrd); try assumption.
  - right. reflexivity.
  - reflexivity.
  - apply hr_startc. exact Hch.
  - apply hr_no_nl. exact Hch.
  - intros blank. eexists _, _, _.
    apply (hr_try cs cl arr src pre ch term suf k blank); [|exact Hch|apply (term_ok_cases _ _ Ht)].
    rewrite Hsrc. rewrite <- !app_assoc. reflexivity.
  - intros blank. split; reflexivity.
  - exists stats', sfin, bl. split; [exact Hrun|]. split; [exact Hheap|]. split; [rewrite Hcx; reflexivity|].
    intros Heb. eexists _, _, _. split; [exact Hcx|]. split; [|split; [|exact (Hrd Heb)]].
    + subst eb. destruct (ptail_nil_inv _ _ _ Hpt) as [(Hf & _)|(_ & ->)]; [discriminate|].
      rewrite Hsrc. rewrite (term_ok_nonempty term _ Ht) by discriminate. rewrite <- !app_assoc. reflexivity.
    + subst eb. destruct (ptail_nil_inv _ _ _ Hpt) as [(Hf & _)|(_ & Hs)]; [discriminate|]. subst suf.
      rewrite (term_ok_nonempty term _ Ht) by discriminate. rewrite !zlen_app. change (zlen [10%N]) with 1. lia.
Qed.
End Driver.
