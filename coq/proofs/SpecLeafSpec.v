(* Leaf blocks, specification side: a document tree made of plain paragraphs, ATX headings,
   thematic breaks and fenced code blocks (leaf_doc of SpecLeafConform.v) is printed by md_of as a
   source of the shape of SpecLeafBytes (blocks joined by one empty line), and the HTML the
   specification prescribes for it is the HTML of that shape. *)
Require Import GM.model.Base GM.model.Util GM.model.SpecDoc.
Require Import GM.proofs.SpecParaBytes GM.proofs.SpecParaSpec GM.proofs.SpecParaWords GM.proofs.SpecParaConform
               GM.proofs.SpecLeafBytes.
From Coq Require Import List NArith ZArith Bool Lia.
Import ListNotations.
Open Scope N_scope.

(* verbatim copies (suffix _s) of the definitions of SpecLeafConform.v *)
Definition code_line_s (l : bytes) : bool := forallb (fun c => ((97 <=? c) && (c <=? 122)) || (c =? 32)) l.
Definition leaf_block_s (b : block) : bool :=
  match b with
  | BPara 0 a => plain_para (BPara 0 a)
  (* ATX heading "## words", levels 1..6, no closing sequence *)
  | SpecDoc.BHeading 0 lv 0 0 a => (1 <=? lv) && (lv <=? 6) &&
      match a with [] => false | _ => forallb (fun x => match x with AWord w => is_word w | _ => false end) a end
  (* thematic break in the spellings of hr_md *)
  | BHr 0 st => st <=? 2
  (* fenced code block: three backticks, no indentation, an info word or none *)
  | BCode 2 0 3 info lines => (match info with [] => true | _ => is_word info end) && forallb code_line_s lines
  | _ => false
  end.
Definition leaf_doc_s (d : doc) : bool := negb (match d with [] => true | _ => false end) && forallb leaf_block_s d.

(* ---------- the witness ---------- *)
Definition hr_byte (st : N) : N := if st =? 0 then 42 else if st =? 1 then 45 else 95.
Definition lb_of (b : block) : lblock :=
  match b with
  | BPara _ a => LPara (lines_of [] a)
  | SpecDoc.BHeading _ lv _ _ a => LAtx lv (atoms_md a)
  | BHr _ st => LHr (hr_byte st)
  | BCode _ _ _ info lines => LFence info lines
  | _ => LPara []
  end.

(* the blocks of the fragment *)
Definition word_atoms (a : list atom) : bool :=
  forallb (fun x => match x with AWord w => is_word w | _ => false end) a.
Inductive leaf_shape : block -> Prop :=
| LS_para a : plain_atoms_s true a = true -> leaf_shape (BPara 0 a)
| LS_atx lv a : 1 <= lv <= 6 -> a <> [] -> word_atoms a = true -> leaf_shape (SpecDoc.BHeading 0 lv 0 0 a)
| LS_hr st : st <= 2 -> leaf_shape (BHr 0 st)
| LS_code info lines : (info = [] \/ is_word_s info = true) -> forallb (forallb textc) lines = true ->
    leaf_shape (BCode 2 0 3 info lines).

Lemma leaf_block_inv b : leaf_block_s b = true -> leaf_shape b.
Proof.
  destruct b as [ind a|ind lv st ex a|ind st|st ind fl info lines|st bs|ind gap o s dl mk tg its|lines];
    cbn [leaf_block_s]; intros H; try discriminate.
  - destruct ind as [|p]; [|discriminate].
    change (plain_para_s (BPara 0 a) = true) in H.
    destruct (plain_para_inv _ H) as (a' & Ea & Ha). injection Ea as <-. apply LS_para. exact Ha.
  - destruct ind as [|p]; [|discriminate]. destruct st as [|p]; [|discriminate]. destruct ex as [|p]; [|discriminate].
    apply andb_true_iff in H. destruct H as [H Ha]. apply andb_true_iff in H. destruct H as [H1 H6].
    apply N.leb_le in H1. apply N.leb_le in H6.
    apply LS_atx; [lia| |].
    + destruct a; [discriminate|discriminate].
    + destruct a; [discriminate|exact Ha].
  - destruct ind as [|p]; [|discriminate]. apply N.leb_le in H. apply LS_hr. exact H.
  - destruct st as [|[p|[p|p|]|]]; try discriminate.
    destruct ind as [|p]; [|discriminate].
    destruct fl as [|[[p|p|]|p|]]; try discriminate.
    apply andb_true_iff in H. destruct H as [Hi Hl].
    apply LS_code; [|exact Hl].
    destruct info as [|c r]; [left; reflexivity|right; exact Hi].
Qed.

(* ---------- word lists ---------- *)
Lemma word_atoms_inv a : word_atoms a = true -> exists ws, a = map AWord ws /\ forallb is_word_s ws = true.
Proof.
  induction a as [|x r IH]; intros H.
  - exists []. split; reflexivity.
  - unfold word_atoms in H. cbn [forallb] in H. apply andb_true_iff in H. destruct H as [Hx Hr].
    destruct x as [w| | | | | | | | | | |]; try discriminate.
    destruct (IH Hr) as (ws & -> & Hws). exists (w :: ws). split; [reflexivity|].
    cbn [forallb]. change (is_word_s w) with (is_word w). rewrite Hx. exact Hws.
Qed.
Lemma word_atoms_plain a : a <> [] -> word_atoms a = true -> plain_atoms_s true a = true.
Proof.
  intros Hne H. destruct (word_atoms_inv a H) as (ws & -> & Hws).
  apply words_plain; [exact Hws|]. intros ->. contradiction.
Qed.
Lemma word_atoms_body a : a <> [] -> word_atoms a = true -> body_okb (atoms_md a) = true.
Proof.
  intros Hne H. pose proof (word_atoms_plain a Hne H) as Hp.
  destruct (word_atoms_inv a H) as (ws & E & _).
  pose proof (para_lines_ok a Hp) as Hok. pose proof (para_lines_src a Hp) as Hsrc.
  destruct (words_one_line ws []) as [b Hb]. rewrite <- E in Hb. rewrite Hb in Hok, Hsrc.
  unfold para_src in Hsrc. cbn [join] in Hsrc. subst b.
  unfold para_ok in Hok. cbn [is_nil negb forallb andb] in Hok. rewrite andb_true_r in Hok. exact Hok.
Qed.

(* ---------- esc_html is the identity on the bytes of the fragment ---------- *)
Lemma esc_html_text l : forallb textc l = true -> esc_html l = l.
Proof.
  induction l as [|c r IH]; intros H; [reflexivity|].
  cbn [forallb] in H. apply andb_true_iff in H. destruct H as [Hc Hr].
  unfold esc_html in *. cbn [flat_map]. rewrite (IH Hr).
  apply textc_range in Hc. unfold esc_html1.
  repeat match goal with |- context [N.eqb c ?k] => replace (N.eqb c k) with false by (symmetry; apply N.eqb_neq; lia) end.
  reflexivity.
Qed.
Lemma word_text w : is_word_s w = true -> forallb textc w = true.
Proof. intros H. apply body_ok_text. apply word_body. exact H. Qed.
Lemma word_wordc w : is_word_s w = true -> forallb wordc w = true.
Proof. unfold is_word_s. intros H. apply andb_true_iff in H. destruct H as [_ H]. exact H. Qed.
Lemma code_text_html ls : forallb (forallb textc) ls = true -> flat_map (fun l => esc_html l ++ nl) ls = code_text ls.
Proof.
  induction ls as [|l r IH]; intros H; [reflexivity|].
  cbn [forallb] in H. apply andb_true_iff in H. destruct H as [Hl Hr].
  unfold code_text in *. cbn [flat_map]. rewrite (esc_html_text l Hl), (IH Hr). reflexivity.
Qed.

(* ---------- the lines of a fenced code block ---------- *)
Lemma fence_join ls : forall x t, join nl (x :: (ls ++ [t])) = x ++ nl ++ code_text ls ++ t.
Proof.
  induction ls as [|l r IH]; intros x t.
  - reflexivity.
  - change (x :: ((l :: r) ++ [t])) with (x :: l :: (r ++ [t])). rewrite join_cons_ne. rewrite IH.
    unfold code_text. cbn [flat_map]. rewrite <- !app_assoc. reflexivity.
Qed.
Lemma code_lines_md ls :
  map (line_md false) (map (fun l : bytes => (@nil N, match l with [] => [] | _ => spaces 0 ++ l end)) ls) = ls.
Proof.
  rewrite map_map. rewrite <- (map_id ls) at 2. apply map_ext. intros l. destruct l; reflexivity.
Qed.

(* ---------- one block ---------- *)
Lemma leaf_ok b : leaf_shape b -> lblock_ok (lb_of b) = true.
Proof.
  intros H. destruct H as [a Ha|lv a Hlv Hne Ha|st Hst|info lines Hi Hl]; cbn [lb_of lblock_ok].
  - exact (para_lines_ok a Ha).
  - rewrite (word_atoms_body a Hne Ha). rewrite andb_true_r. apply andb_true_iff. split; apply N.leb_le; lia.
  - assert (E : st = 0 \/ st = 1 \/ st = 2) by lia. destruct E as [->|[->| ->]]; reflexivity.
  - rewrite Hl. rewrite andb_true_r. destruct Hi as [->|Hi]; [reflexivity|apply word_wordc; exact Hi].
Qed.
Lemma leaf_defs b : leaf_shape b -> block_defs b = [].
Proof.
  intros H. destruct H as [a Ha|lv a Hlv Hne Ha|st Hst|info lines Hi Hl]; cbn [block_defs]; try reflexivity.
  - exact (atoms_defs_plain a true Ha).
  - exact (atoms_defs_plain a true (word_atoms_plain a Hne Ha)).
Qed.
Lemma leaf_lines b : leaf_shape b ->
  map (line_md false) (block_lines b) <> [] /\ join nl (map (line_md false) (block_lines b)) = lblock_src (lb_of b).
Proof.
  intros H. destruct H as [a Ha|lv a Hlv Hne Ha|st Hst|info lines Hi Hl]; cbn [lb_of lblock_src].
  - rewrite (para_block_lines a Ha). split; [|reflexivity].
    destruct (lines_of_cons [] a) as (h & t & ->). discriminate.
  - cbn [block_lines]. change (0 =? 2) with false. change (0 =? 1) with false. cbv iota.
    cbn [map]. split; [discriminate|]. unfold line_md. cbn [fst snd join]. unfold spaces. cbn [N.to_nat repeat app].
    rewrite app_nil_r. reflexivity.
  - cbn [block_lines map]. split; [discriminate|].
    assert (E : st = 0 \/ st = 1 \/ st = 2) by lia. destruct E as [->|[->| ->]]; reflexivity.
  - cbn [block_lines]. change (2 =? 0) with false. change (2 =? 1) with false. change (2 =? 2) with true. cbv iota.
    rewrite !map_app. rewrite code_lines_md. cbn [map]. split; [discriminate|].
    cbn [app]. rewrite fence_join. unfold line_md. cbn [fst snd]. unfold spaces. cbn [N.to_nat repeat app].
    reflexivity.
Qed.
Lemma leaf_html b : leaf_shape b -> block_html b = lblock_html (lb_of b).
Proof.
  intros H. destruct H as [a Ha|lv a Hlv Hne Ha|st Hst|info lines Hi Hl]; cbn [lb_of lblock_html].
  - exact (para_block_html a Ha).
  - cbn [block_html]. rewrite (atoms_html_md a true (word_atoms_plain a Hne Ha)).
    unfold tag, ctag. rewrite <- !app_assoc. reflexivity.
  - reflexivity.
  - cbn [block_html]. change (2 <=? 2) with true. cbv iota. rewrite (code_text_html lines Hl).
    destruct Hi as [->|Hi]; [reflexivity|].
    rewrite (esc_html_text info (word_text info Hi)). reflexivity.
Qed.

(* ---------- documents ---------- *)
Lemma ldoc_shapes d : forallb leaf_block_s d = true -> Forall leaf_shape d.
Proof.
  induction d as [|b r IH]; intros H; [constructor|].
  cbn [forallb] in H. apply andb_true_iff in H. destruct H as [Hb Hr].
  constructor; [apply leaf_block_inv; exact Hb|exact (IH Hr)].
Qed.
Lemma ldoc_oks d : Forall leaf_shape d -> forallb lblock_ok (map lb_of d) = true.
Proof.
  induction 1 as [|b r Hb Hr IH]; [reflexivity|].
  cbn [map forallb]. rewrite (leaf_ok b Hb). exact IH.
Qed.
Lemma ldoc_defs d : Forall leaf_shape d -> flat_map block_defs d = [].
Proof.
  induction 1 as [|b r Hb Hr IH]; [reflexivity|].
  cbn [flat_map]. rewrite (leaf_defs b Hb). exact IH.
Qed.
Lemma ldoc_html_eq d : Forall leaf_shape d -> html_of d = ldoc_html (map lb_of d).
Proof.
  induction 1 as [|b r Hb Hr IH]; [reflexivity|].
  unfold html_of, ldoc_html in *. cbn [map flat_map]. rewrite (leaf_html b Hb), IH. reflexivity.
Qed.
Lemma ldoc_lines_ne d : d <> [] -> Forall leaf_shape d -> map (line_md false) (doc_lines d) <> [].
Proof.
  intros Hne H. destruct H as [|b r Hb Hr]; [contradiction|].
  destruct (leaf_lines b Hb) as [Hn _].
  destruct r as [|b2 r'].
  - exact Hn.
  - change (doc_lines (b :: b2 :: r')) with (block_lines b ++ [blank] ++ doc_lines (b2 :: r')).
    rewrite map_app. intros E. apply app_eq_nil in E. destruct E as [E _]. exact (Hn E).
Qed.
Lemma ldoc_md d : d <> [] -> Forall leaf_shape d ->
  join nl (map (line_md false) (doc_lines d)) = ldoc_body (map lb_of d).
Proof.
  intros Hne H. induction H as [|b r Hb Hr IH]; [contradiction|].
  destruct (leaf_lines b Hb) as [Hn Hj].
  destruct r as [|b2 r'].
  - cbn [doc_lines]. rewrite Hj. reflexivity.
  - specialize (IH ltac:(discriminate)).
    change (doc_lines (b :: b2 :: r')) with (block_lines b ++ [blank] ++ doc_lines (b2 :: r')).
    rewrite !map_app.
    rewrite join_app_ne; [|exact Hn|discriminate].
    rewrite join_app_ne; [|discriminate|apply ldoc_lines_ne; [discriminate|exact Hr]].
    rewrite IH, Hj. cbn [map]. rewrite ldoc_body_cons2. reflexivity.
Qed.

Theorem leaf_doc_shape : forall d, leaf_doc_s d = true ->
  exists d', ldoc_ok d' = true /\ (forall fin, md_of false fin d = ldoc_src d' fin) /\ html_of d = ldoc_html d'.
Proof.
  intros d H. unfold leaf_doc_s in H. apply andb_true_iff in H. destruct H as [Hne Hd].
  assert (Hne' : d <> []) by (destruct d; [discriminate|discriminate]).
  pose proof (ldoc_shapes d Hd) as Hs.
  exists (map lb_of d). split; [|split].
  - unfold ldoc_ok. rewrite (ldoc_oks d Hs). destruct d; [contradiction|reflexivity].
  - intros fin. unfold md_of, ldoc_src. rewrite (ldoc_defs d Hs). rewrite app_nil_r.
    rewrite (ldoc_md d Hne' Hs). reflexivity.
  - exact (ldoc_html_eq d Hs).
Qed.
