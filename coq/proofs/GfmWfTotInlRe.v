(* Facts about the regular expressions of the GFM inline parsers (extension/tasklist.go,
   extension/linkify.go) that the totality of model/InlineParseX.v needs:
   - re_minlen: a lower bound of the length of every match, computed from the syntax;
   - task_caps_ok: whenever the task list expression matches, group 1 took part in the match, is
     not empty and lies inside the line (taskCheckBoxParser.Parse indexes line[m[2]:m[3]][0]);
     proved for the regenerated expression re_taskList = ^\[([\sxX])\]\s* by following the
     matcher of model/Regex.v. *)
Require Import GM.model.Base GM.model.Util GM.model.Regex.
Require Import GM.gen.Regexes.
Require Import GM.proofs.BReaderProofs GM.proofs.RegexProofs.
From Coq Require Import ZArith Lia List.
Import ListNotations.
Open Scope Z_scope.

(* ---------- a lower bound of the length of a match ---------- *)
Fixpoint re_minlen (r : re) : Z :=
  match r with
  | RLit _ | RClass _ | RAny | RAnyNotNL => 1
  | RCat a b => re_minlen a + re_minlen b
  | RAlt a b => Z.min (re_minlen a) (re_minlen b)
  | RPlus _ a => re_minlen a
  | RCap _ a => re_minlen a
  | _ => 0
  end.

Lemma matches_minlen s r i j : Matches s r i j -> 0 <= i <= zlen s -> i + re_minlen r <= j.
Proof.
  intros H. induction H as
    [i|x i r w Hd Hne He|rs i r w Hd Hne He|i r w Hd Hne|i r w Hd Hne He| |i He
    |a b i j k Ha IHa Hb IHb|a b i j Ha IHa|a b i j Hb IHb|g a i
    |g a i j k Ha IHa Hb IHb|g a i j k Ha IHa Hb IHb|g a i|g a i j Ha IHa|n a i j Ha IHa];
    intros Hi; cbn [re_minlen];
    try (pose proof (rune_step_range s i r w (proj1 Hi) Hne Hd); lia); try lia.
  - pose proof (Matches_range _ _ _ _ Ha Hi) as Hj. assert (Hj' : 0 <= j <= zlen s) by lia.
    specialize (IHa Hi). specialize (IHb Hj'). lia.
  - pose proof (Matches_range _ _ _ _ Ha Hi) as Hj. assert (Hj' : 0 <= j <= zlen s) by lia.
    pose proof (Matches_range _ _ _ _ Hb Hj') as Hk. lia.
  - pose proof (Matches_range _ _ _ _ Ha Hi) as Hj. assert (Hj' : 0 <= j <= zlen s) by lia.
    pose proof (Matches_range _ _ _ _ Hb Hj') as Hk. specialize (IHa Hi). lia.
  - pose proof (Matches_range _ _ _ _ Ha Hi) as Hj. lia.
Qed.

Lemma re_find_minlen rx inp caps : re_find rx inp = Some caps ->
  exists a b, cap_at caps 0 = Some (a, b) /\ 0 <= a /\ a + re_minlen rx <= b /\ b <= zlen inp.
Proof.
  intros H. destruct (re_find_sound rx inp caps H) as (i & j & Hc & Hij & Hj & Hm).
  exists i, j. split; [exact Hc|]. split; [lia|]. split; [|exact Hj].
  apply (matches_minlen inp rx i j Hm). lia.
Qed.

(* ---------- the capture group of the task list expression ---------- *)
Definition task_caps_ok (rx : re) : Prop :=
  forall line caps, re_find rx line = Some caps ->
    exists a m1 m2 m3, cap_at caps 0 = Some (a, m1) /\ cap_at caps 1 = Some (m2, m3) /\
      0 <= m2 < m3 /\ m3 <= zlen line /\ 0 < m1 <= zlen line.

(* a star over a character class leaves the captures alone *)
Lemma star_class_caps s rs g fuel (k : kont) : forall f i c res, 0 <= i <= zlen s ->
  star_loop (m (RClass rs) fuel) g f (i, suffix_at s i) c k = Some res ->
  exists j, i <= j <= zlen s /\ k (j, suffix_at s j) c = Some res.
Proof.
  induction f as [|f IH]; intros i c res Hi H; cbn [star_loop] in H; [discriminate|].
  assert (Hk : k (i, suffix_at s i) c = Some res -> exists j, i <= j <= zlen s /\ k (j, suffix_at s j) c = Some res).
  { intros E. exists i. split; [lia|exact E]. }
  assert (Hiter : m (RClass rs) fuel (i, suffix_at s i) c
            (fun p' c' => if fst p' =? fst (i, suffix_at s i) then None
                          else star_loop (m (RClass rs) fuel) g f p' c' k) = Some res ->
          exists j, i <= j <= zlen s /\ k (j, suffix_at s j) c = Some res).
  { cbn [m]. intros E. destruct (step_rune (i, suffix_at s i)) as [[y p']|] eqn:Hs; [|discriminate].
    destruct (in_ranges rs y); [|discriminate].
    apply step_rune_inv in Hs; [|lia]. destruct Hs as (w & Hne & Hd & ->).
    pose proof (rune_step_range s i y w (proj1 Hi) Hne Hd) as Hw.
    cbn [fst] in E. destruct (i + Z.of_N w =? i); [discriminate|].
    apply IH in E; [|lia]. destruct E as (j & Hj & E). exists j. split; [lia|exact E]. }
  destruct g.
  - match type of H with match ?e with _ => _ end = _ => destruct e as [x|] eqn:E end.
    + inversion H; subst x. apply Hiter. first [exact E | reflexivity].
    + apply Hk, H.
  - match type of H with match ?e with _ => _ end = _ => destruct e as [x|] eqn:E end.
    + inversion H; subst x. apply Hk. first [exact E | reflexivity].
    + apply Hiter, H.
Qed.

(* the expression is anchored: no match starts after the beginning of the text *)
Lemma task_find_from_later s fuel : forall n i, 0 < i ->
  find_from re_taskList fuel n (i, suffix_at s i) = None.
Proof.
  induction n as [|n IH]; intros i Hi; cbn [find_from].
  - unfold re_taskList. cbn [m fst]. destruct (Z.eqb_spec i 0) as [E|_]; [lia|reflexivity].
  - unfold re_taskList at 1. cbn [m fst]. destruct (Z.eqb_spec i 0) as [E|_]; [lia|].
    destruct (step_rune (i, suffix_at s i)) as [[y p']|] eqn:Hs; [|reflexivity].
    apply step_rune_inv in Hs; [|lia]. destruct Hs as (w & Hne & Hd & ->).
    apply IH. destruct (decode_rune_width _ _ _ Hne Hd) as [Hw _]. lia.
Qed.

Lemma task_match_here s fuel caps :
  m re_taskList fuel (0, suffix_at s 0) [] (fun p' c' => Some (set_cap c' 0 (0, fst p'))) = Some caps ->
  exists m1 m2 m3, cap_at caps 0 = Some (0, m1) /\ cap_at caps 1 = Some (m2, m3) /\
    0 <= m2 < m3 /\ m3 <= zlen s /\ 0 < m1 <= zlen s.
Proof.
  unfold re_taskList. cbn [m fst]. cbn [Z.eqb]. intros H.
  pose proof (zlen_nonneg s) as Hs0.
  (* '[' *)
  destruct (step_rune (0, suffix_at s 0)) as [[y1 p1]|] eqn:S1; [|discriminate].
  destruct (N.eqb 91 y1); [|discriminate].
  apply step_rune_inv in S1; [|lia]. destruct S1 as (w1 & Hne1 & Hd1 & ->).
  pose proof (rune_step_range s 0 y1 w1 ltac:(lia) Hne1 Hd1) as Hw1.
  (* the class inside the group *)
  destruct (step_rune (0 + Z.of_N w1, suffix_at s (0 + Z.of_N w1))) as [[y2 p2]|] eqn:S2; [|discriminate].
  destruct (in_ranges _ y2); [|discriminate].
  apply step_rune_inv in S2; [|lia]. destruct S2 as (w2 & Hne2 & Hd2 & ->).
  assert (Hw2 : 0 + Z.of_N w1 < 0 + Z.of_N w1 + Z.of_N w2 <= zlen s) by (apply (rune_step_range s _ y2 w2); [lia|exact Hne2|exact Hd2]).
  cbn [fst] in H.
  (* ']' *)
  destruct (step_rune (0 + Z.of_N w1 + Z.of_N w2, suffix_at s (0 + Z.of_N w1 + Z.of_N w2))) as [[y3 p3]|] eqn:S3; [|discriminate].
  destruct (N.eqb 93 y3); [|discriminate].
  apply step_rune_inv in S3; [|lia]. destruct S3 as (w3 & Hne3 & Hd3 & ->).
  assert (Hw3 : 0 + Z.of_N w1 + Z.of_N w2 < 0 + Z.of_N w1 + Z.of_N w2 + Z.of_N w3 <= zlen s) by (apply (rune_step_range s _ y3 w3); [lia|exact Hne3|exact Hd3]).
  (* the trailing white space *)
  apply (star_class_caps s _ true fuel) in H; [|lia]. destruct H as (j & Hj & H). cbn [fst] in H.
  inversion H; subst caps.
  exists j, (0 + Z.of_N w1), (0 + Z.of_N w1 + Z.of_N w2).
  split; [reflexivity|]. split; [reflexivity|]. lia.
Qed.

Lemma task_caps_ok_taskList : task_caps_ok re_taskList.
Proof.
  intros line caps H. unfold re_find in H.
  remember (S (length line)) as fuel eqn:Ef. clear Ef.
  assert (X : exists m1 m2 m3, cap_at caps 0 = Some (0, m1) /\ cap_at caps 1 = Some (m2, m3) /\
            0 <= m2 < m3 /\ m3 <= zlen line /\ 0 < m1 <= zlen line).
  { destruct (length line) as [|n]; cbn [find_from] in H.
    - cbn [fst] in H. destruct (m re_taskList _ _ _ _) as [x|] eqn:E; [|discriminate].
      inversion H; subst x. apply (task_match_here line fuel caps). rewrite suffix_0. exact E.
    - cbn [fst] in H. destruct (m re_taskList _ _ _ _) as [x|] eqn:E.
      + inversion H; subst x. apply (task_match_here line fuel caps). rewrite suffix_0. exact E.
      + exfalso. rewrite <- (suffix_0 line) in H at 1.
        destruct (step_rune (0, suffix_at line 0)) as [[y p']|] eqn:Hs; [|discriminate].
        apply step_rune_inv in Hs; [|lia]. destruct Hs as (w & Hne & Hd & ->).
        rewrite task_find_from_later in H; [discriminate|].
        destruct (decode_rune_width _ _ _ Hne Hd) as [Hw _]. lia. }
  destruct X as (m1 & m2 & m3 & X). exists 0, m1, m2, m3. exact X.
Qed.
