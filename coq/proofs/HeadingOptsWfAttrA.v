(* Helper for HeadingOptsWfAttr.v: the attribute parser (model/Attr.v) over the plain reader, for a
   generic reader invariant Inv (instantiated with RInv, R2 src and RI):  every function returns
   Ok with a reader that satisfies Inv over the same source at a position that is not smaller
   (no Panic), and it runs out of fuel only when the fuel is below  2 * remaining bytes + c. *)
Require Import GM.model.Base GM.model.Util GM.model.Reader GM.model.ReaderSpec GM.model.HtmlWriter GM.model.Html GM.model.HtmlSpec
               GM.model.Attr.
Require Import GM.proofs.ReaderProofs GM.proofs.ParseInv GM.proofs.AttrProofs GM.proofs.ParseBlocksRangeA.
From Coq Require Import List ZArith Bool Lia.
Import ListNotations.
Open Scope Z_scope.

(* ---------- a small calculus: Ok with a post-condition, never Panic, OutOfFuel only if F ---------- *)
Definition spec {A} (x : result A) (P : A -> Prop) (F : Prop) : Prop :=
  match x with Ok a => P a | Panic => False | OutOfFuel => F end.

Lemma spec_bind {A B} (x : result A) (f : A -> result B) (P : A -> Prop) (F : Prop) (Q : B -> Prop) (F' : Prop) :
  spec x P F -> (F -> F') -> (forall a, P a -> spec (f a) Q F') -> spec (bind x f) Q F'.
Proof.
  unfold spec. destruct x as [a| |]; cbn [bind]; intros H HF Hk; [apply Hk; exact H|exact H|apply HF; exact H].
Qed.

Lemma spec_bind0 {A B} (x : result A) (f : A -> result B) (P : A -> Prop) (Q : B -> Prop) (F' : Prop) :
  spec x P False -> (forall a, P a -> spec (f a) Q F') -> spec (bind x f) Q F'.
Proof. intros H Hk. eapply spec_bind; [exact H|intros []|exact Hk]. Qed.

Lemma spec_ok {A} (x : result A) P F a : spec x P F -> x = Ok a -> P a.
Proof. intros H E. rewrite E in H. exact H. Qed.

Lemma spec_imp {A} (x : result A) (P Q : A -> Prop) (F F' : Prop) :
  spec x P F -> (forall a, P a -> Q a) -> (F -> F') -> spec x Q F'.
Proof. unfold spec. destruct x as [a| |]; intros H HP HF; auto. Qed.

Lemma spec_ret {A} (a : A) (P : A -> Prop) F : P a -> spec (Ok a) P F.
Proof. intros H. exact H. Qed.

Lemma spec_total {A} (x : result A) P : spec x P False -> exists a, x = Ok a /\ P a.
Proof. unfold spec. destruct x as [a| |]; intros H; try contradiction. exists a. auto. Qed.

Lemma spec_of_total {A} (x : result A) (P : A -> Prop) F : (exists a, x = Ok a /\ P a) -> spec x P F.
Proof. intros [a [E H]]. rewrite E. exact H. Qed.

(* ---------- bytes ---------- *)
Lemma bok_nil : bytes_ok []. Proof. reflexivity. Qed.
Lemma bok_cons c l : bytes_ok (c :: l) <-> (c < 256)%N /\ bytes_ok l.
Proof.
  unfold bytes_ok, all_bytes_b. cbn [forallb]. rewrite andb_true_iff, N.ltb_lt. reflexivity.
Qed.
Lemma bok_app a b : bytes_ok (a ++ b) <-> bytes_ok a /\ bytes_ok b.
Proof. unfold bytes_ok, all_bytes_b. rewrite forallb_app, andb_true_iff. reflexivity. Qed.
Lemma bok_in v : bytes_ok v <-> forall c, In c v -> (c < 256)%N.
Proof.
  unfold bytes_ok, all_bytes_b. rewrite forallb_forall. split; intros H c Hc; specialize (H c Hc); apply N.ltb_lt; exact H.
Qed.
Lemma bok_firstn n : forall v, bytes_ok v -> bytes_ok (firstn n v).
Proof.
  induction n as [|n IH]; intros [|c v] H; cbn [firstn]; try apply bok_nil.
  apply bok_cons in H as [Hc Hv]. apply bok_cons. split; [exact Hc|apply IH, Hv].
Qed.
Lemma bok_skipn n : forall v, bytes_ok v -> bytes_ok (skipn n v).
Proof.
  induction n as [|n IH]; intros [|c v] H; cbn [skipn]; try exact H.
  apply bok_cons in H as [Hc Hv]. apply IH, Hv.
Qed.
Lemma bok_spaces p : bytes_ok (spaces_n p).
Proof. rewrite bok_in. unfold spaces_n. intros c Hc. apply repeat_spec in Hc. subst c. reflexivity. Qed.
Lemma bok_view r : bytes_ok (r_src r) -> bytes_ok (r_view r).
Proof.
  intros H. unfold r_view, sub. apply bok_app. split; [apply bok_spaces|]. apply bok_firstn, bok_skipn, H.
Qed.
Lemma bok_take_while f l : bytes_ok l -> bytes_ok (take_while f l).
Proof.
  induction l as [|c l IH]; intros H; cbn [take_while]; [exact H|].
  apply bok_cons in H as [Hc Hl]. destruct (f c); [|apply bok_nil]. apply bok_cons. split; [exact Hc|apply IH, Hl].
Qed.

(* ---------- the reader: remaining bytes ---------- *)
Definition rem (r : reader) : nat := Z.to_nat (zlen (r_src r) - s_start (r_pos r)).

Lemma rem_le_len r : RInv r -> (rem r <= length (r_src r))%nat.
Proof. intros Hi. pose proof (ri_range r Hi). unfold rem, zlen in *. lia. Qed.

Lemma rest_zlen r : RInv r ->
  zlen (r_rest r) = if r_in_range r then s_pad (r_pos r) + (zlen (r_src r) - s_start (r_pos r)) else 0.
Proof.
  intros Hi. destruct (r_in_range r) eqn:Hin.
  - apply in_range_true in Hin. rewrite r_rest_in by lia.
    rewrite zlen_app, zlen_spaces, zlen_skipn by (try apply Hi; lia). reflexivity.
  - apply in_range_false in Hin; [|exact Hi]. rewrite r_rest_out by lia. reflexivity.
Qed.

Lemma rest_same a b : r_pos a = r_pos b -> r_src a = r_src b -> r_rest a = r_rest b.
Proof. intros H1 H2. unfold r_rest. rewrite H1, H2. reflexivity. Qed.

(* the first byte of a view that is not a blank: no padding *)
Lemma view_head_pad r c tl : RInv r -> r_view r = c :: tl -> c <> 32%N -> s_pad (r_pos r) = 0.
Proof.
  intros Hi E Hc. pose proof (ri_pad r Hi) as Hp.
  destruct (Z.eq_dec (s_pad (r_pos r)) 0) as [E0|E0]; [exact E0|].
  unfold r_view in E. rewrite spaces_pos in E by lia. cbn [app] in E. congruence.
Qed.

Section Gen.
Variable space_table punct_table : list N.
Notation st := space_table.
Notation pt := punct_table.
Variable Inv : reader -> Prop.
Hypothesis Inv_RInv : forall r, Inv r -> RInv r.
Hypothesis Inv_adv : forall r n r', Inv r -> 0 <= n -> r_advance r n = Ok r' -> Inv r'.
Hypothesis Inv_peek : forall r r' l sg, Inv r -> r_peek_line r = Ok (r', l, sg) -> Inv r'.
Hypothesis Inv_setpos : forall r0 r r', Inv r0 -> Inv r -> r_src r = r_src r0 ->
  s_start (r_pos r0) <= s_start (r_pos r) -> r_set_position r (r_line r0) (r_pos r0) = Ok r' -> Inv r'.

Local Notation rs r := (s_start (r_pos r)).

(* the reader afterwards: invariant, same source, not before *)
Definition St (r r' : reader) : Prop := Inv r' /\ r_src r' = r_src r /\ rs r <= rs r'.

Lemma St_refl r : Inv r -> St r r.
Proof. intros H. unfold St. csplit; auto. lia. Qed.
Lemma St_trans a b c : St a b -> St b c -> St a c.
Proof. unfold St. intros (A1 & A2 & A3) (B1 & B2 & B3). csplit; [exact B1|congruence|lia]. Qed.
Lemma St_rem a b : St a b -> (rem b <= rem a)%nat.
Proof. unfold St, rem. intros (A1 & A2 & A3). rewrite A2. lia. Qed.
Lemma St_rem_lt a b : St a b -> Inv a -> rs a < rs b -> (rem b < rem a)%nat.
Proof.
  unfold St, rem. intros (A1 & A2 & A3) Ha Hlt. pose proof (ri_range b (Inv_RInv b A1)) as Hr. rewrite A2 in *. lia.
Qed.

(* ---------- Peek ---------- *)
Lemma peek_spec r : Inv r ->
  spec (r_peek r) (fun c => (c <> 255%N -> r_in_range r = true) /\
                            (c <> 255%N -> c <> 32%N -> s_pad (r_pos r) = 0)) False.
Proof.
  intros HI. pose proof (Inv_RInv r HI) as Hi. unfold r_peek. destruct (r_in_range r) eqn:Hin.
  - destruct (Z.eqb_spec (s_pad (r_pos r)) 0) as [Hp|Hp]; cbn [negb].
    + apply in_range_true in Hin. rewrite at_nth by lia. cbn [spec]. auto.
    + cbn [spec]. split; [auto|]. intros _ H. congruence.
  - cbn [spec]. split; intros H; congruence.
Qed.

(* ---------- Advance ---------- *)
Lemma adv_spec r n : Inv r -> 0 <= n ->
  spec (r_advance r n)
       (fun r' => St r r' /\ r_rest r' = skipn (Z.to_nat n) (r_rest r) /\
                  (1 <= n -> r_in_range r = true -> s_pad (r_pos r) = 0 -> rs r < rs r')) False.
Proof.
  intros HI Hn. pose proof (Inv_RInv r HI) as Hi.
  destruct (advance_skips_gen r n Hi Hn) as [r' (E & Hi' & Hs & Hrest)].
  apply spec_of_total. exists r'. split; [exact E|].
  destruct (adv_ok r n r' Hi Hn E) as (_ & [_ Hle] & _ & Hlt).
  split; [unfold St; csplit; eauto|]. split; [exact Hrest|].
  intros H1 Hin Hp. apply in_range_true in Hin. apply Hlt; lia.
Qed.

(* ---------- PeekLine ---------- *)
Lemma peek_line_b_spec r : Inv r ->
  spec (peek_line_b r)
       (fun x => St r (fst x) /\ r_pos (fst x) = r_pos r /\ snd x = (if r_in_range r then r_view r else [])) False.
Proof.
  intros HI. pose proof (Inv_RInv r HI) as Hi. unfold peek_line_b.
  destruct (peek_line_is_view r Hi) as [r' (E & Hi' & Hp & Hs)]. rewrite E. cbn [bind spec fst snd].
  unfold r_position in Hp. injection Hp as Hl Hp.
  split; [unfold St; csplit; [eapply Inv_peek; eauto|exact Hs|rewrite Hp; lia]|]. split; [exact Hp|].
  destruct (r_in_range r); reflexivity.
Qed.

(* ---------- skipSpaces ---------- *)
Lemma skip_inner_spec : forall l i r chars sg tl, Inv r -> r_rest r = l ++ tl ->
  spec (skip_spaces_inner st reader r_advance l i r chars sg)
       (fun x => St r (fst x) /\ (snd x = None -> r_rest (fst x) = tl)) False.
Proof.
  induction l as [|c l IH]; intros i r chars sg tl HI Hrest; cbn [skip_spaces_inner].
  - cbn [spec fst snd]. split; [apply St_refl, HI|auto].
  - destruct (is_space st c).
    + eapply spec_bind0; [apply adv_spec; [exact HI|lia]|]. intros r1 (S1 & R1 & _).
      rewrite Hrest in R1. change (Z.to_nat 1) with 1%nat in R1. cbn [skipn app] in R1.
      eapply spec_imp; [apply IH; [apply S1|exact R1]| |auto].
      intros [r2 res] [S2 H2]. cbn [fst snd] in *. split; [eapply St_trans; eassumption|exact H2].
    + cbn [spec fst snd]. split; [apply St_refl, HI|discriminate].
Qed.

Lemma skip_spaces_spec : forall fuel r chars, Inv r -> (rem r < fuel)%nat ->
  spec (skip_spaces st reader r_peek_line r_advance fuel r chars) (fun x => St r (fst (fst (fst x)))) False.
Proof.
  induction fuel as [|f IH]; intros r chars HI Hf; [lia|]. cbn [skip_spaces].
  pose proof (Inv_RInv r HI) as Hi.
  destruct (peek_line_is_view r Hi) as [r1 (E & Hi1 & Hp & Hs)]. rewrite E. cbn [bind].
  unfold r_position in Hp. injection Hp as Hl Hp.
  assert (HI1 : Inv r1) by (eapply Inv_peek; eauto).
  assert (S1 : St r r1) by (unfold St; csplit; [exact HI1|exact Hs|rewrite Hp; lia]).
  destruct (r_in_range r) eqn:Hin.
  2: { cbn [spec fst]. exact S1. }
  destruct (view_prefix_rest r Hi Hin) as [_ [tl Htl]].
  eapply spec_bind0; [apply (skip_inner_spec (r_view r) 0 r1 chars (r_pos r) tl HI1)|].
  { rewrite (rest_same r1 r Hp Hs). exact Htl. }
  intros [r2 res] [S2 H2]. cbn [fst snd] in *. destruct res as [[sg' ch]|].
  { cbn [spec fst]. eapply St_trans; eassumption. }
  specialize (H2 eq_refl).
  assert (S12 : St r r2) by (eapply St_trans; eassumption).
  assert (Hlt : rs r < rs r2).
  { pose proof (rest_zlen r Hi) as Z0. rewrite Hin, Htl, zlen_app, (view_zlen r Hi) in Z0.
    destruct S2 as (HI2 & Hs2 & _). pose proof (Inv_RInv r2 HI2) as Hi2.
    pose proof (rest_zlen r2 Hi2) as Z2. rewrite H2 in Z2. apply in_range_true in Hin.
    pose proof (inv_bounds_in r Hi ltac:(lia)) as Hb. pose proof (ri_pad r2 Hi2) as Hp2.
    destruct (r_in_range r2) eqn:Hin2.
    - rewrite Hs2, Hs in Z2. lia.
    - apply in_range_false in Hin2; [|exact Hi2]. rewrite Hs2, Hs in Hin2. lia. }
  eapply spec_imp; [apply IH; [apply S12|]| |auto].
  - pose proof (St_rem_lt r r2 S12 HI Hlt). lia.
  - intros [[[r3 a] b] c] S3. cbn [fst] in *. eapply St_trans; eassumption.
Qed.

Lemma skip_sp_spec r : Inv r -> spec (skip_sp st r) (fun r' => St r r') False.
Proof.
  intros HI. unfold skip_sp, r_skip_spaces.
  eapply spec_bind0; [apply skip_spaces_spec; [exact HI|]|].
  - pose proof (rem_le_len r (Inv_RInv r HI)). unfold rfuel. lia.
  - intros [[[r1 a] b] c] S1. cbn [fst] in S1. cbn [spec]. exact S1.
Qed.

(* ---------- the failure exit: SetPosition to the saved entry position ---------- *)
Lemma fail_spec (A : Type) r0 r : Inv r0 -> Inv r -> r_src r = r_src r0 -> rs r0 <= rs r ->
  spec (r1 <- r_set_position r (r_line r0) (r_pos r0) ;; Ok (r1, @None A))
       (fun x => Inv (fst x) /\ r_src (fst x) = r_src r0 /\ r_pos (fst x) = r_pos r0 /\ snd x = None) False.
Proof.
  intros HI0 HI Hs Hle.
  destruct (set_position_restores r (r_line r0) (r_pos r0) (Inv_RInv r HI)) as [r' (E & Hi' & Hs' & Hp')].
  { exists r0. csplit; [apply Inv_RInv, HI0|congruence|reflexivity]. }
  rewrite E. cbn [bind spec fst snd]. unfold r_position in Hp'. injection Hp' as Hl Hp.
  csplit; [exact (Inv_setpos r0 r r' HI0 HI Hs Hle E)|congruence|exact Hp|reflexivity].
Qed.


Ltac st_tr :=
  repeat match goal with
  | |- St ?a ?a => apply St_refl; assumption
  | |- St _ _ => first [assumption | eapply St_trans; [eassumption|]]
  end.
Ltac sb0 tac := cbv beta iota; eapply spec_bind0; [tac|].

Lemma peek_total r : Inv r -> exists c, r_peek r = Ok c /\ (c <> 255%N -> r_in_range r = true) /\
  (c <> 255%N -> c <> 32%N -> s_pad (r_pos r) = 0).
Proof. intros HI. apply spec_total. apply peek_spec. exact HI. Qed.

Lemma adv_St r n : Inv r -> 0 <= n -> spec (r_advance r n) (St r) False.
Proof. intros HI Hn. eapply spec_imp; [apply adv_spec; eassumption| |auto]. intros r' H. apply H. Qed.

Lemma opt_adv_St r (b : bool) : Inv r -> spec (if b then r_advance r 1 else Ok r) (St r) False.
Proof. intros HI. destruct b; [apply adv_St; [exact HI|lia]|apply St_refl, HI]. Qed.

Lemma rfuel_rem r : Inv r -> (rem r < rfuel r)%nat.
Proof. intros HI. pose proof (rem_le_len r (Inv_RInv r HI)). unfold rfuel. lia. Qed.

(* ---------- numbers ---------- *)
Lemma numeric_not_eof c : is_numeric c = true -> c <> 255%N /\ c <> 32%N.
Proof.
  unfold is_numeric. intros H. apply andb_true_iff in H as [H1 H2]. apply N.leb_le in H1, H2. split; lia.
Qed.

Lemma scan_decimal_spec : forall fuel r acc, Inv r -> (rem r < fuel)%nat ->
  spec (scan_decimal fuel r acc)
       (fun x => St r (fst x) /\ (forall c, r_peek r = Ok c -> is_numeric c = true -> rs r < rs (fst x))) False.
Proof.
  induction fuel as [|f IH]; intros r acc HI Hf; [lia|]. cbn [scan_decimal].
  destruct (peek_total r HI) as [c (Ec & P1 & P2)]. rewrite Ec. cbn [bind].
  destruct (is_numeric c) eqn:Hn.
  - destruct (numeric_not_eof c Hn) as [N1 N2]. specialize (P1 N1). specialize (P2 N1 N2).
    sb0 ltac:(apply adv_spec; [exact HI|lia]). intros r1 (S1 & _ & L1). specialize (L1 ltac:(lia) P1 P2).
    eapply spec_imp; [apply IH; [apply S1|]| |auto].
    + pose proof (St_rem_lt r r1 S1 HI L1). lia.
    + intros [r2 a] [S2 _]. cbn [fst] in *. split; [st_tr|]. intros c' _ _. destruct S2 as (_ & _ & ?). lia.
  - cbn [spec fst]. split; [apply St_refl, HI|]. intros c' E' Hn'. congruence.
Qed.

Lemma scan_St r acc : Inv r -> spec (scan_decimal (rfuel r) r acc) (fun x => St r (fst x)) False.
Proof.
  intros HI. eapply spec_imp; [apply scan_decimal_spec; [exact HI|apply rfuel_rem, HI]| |auto]. intros x H. apply H.
Qed.

Lemma parse_number_spec r : Inv r ->
  spec (parse_number r) (fun x => St r (fst x) /\ (snd x = true -> rs r < rs (fst x))) False.
Proof.
  intros HI. unfold parse_number.
  sb0 ltac:(apply peek_spec, HI). intros c0 _.
  sb0 ltac:(apply opt_adv_St, HI). intros r1 S1. pose proof S1 as (HI1 & _ & L1).
  destruct (peek_total r1 HI1) as [c1 (E1 & _ & _)]. rewrite E1. cbn [bind].
  destruct (is_numeric c1) eqn:Hn; cbn [negb].
  2: { cbn [spec fst snd]. split; [exact S1|discriminate]. }
  sb0 ltac:(apply scan_decimal_spec; [exact HI1|apply rfuel_rem, HI1]). intros [r2 ints] [S2 L2]. cbn [fst] in S2, L2.
  specialize (L2 c1 E1 Hn). pose proof S2 as (HI2 & _ & _).
  cbv beta iota.
  eapply spec_imp with (P := fun x => St r2 (fst x)) (F := False).
  2: { intros [r9 ok] S9. cbn [fst snd] in *. split; [st_tr|]. intros _. destruct S9 as (_ & _ & ?). lia. }
  2: { auto. }
  sb0 ltac:(apply peek_spec, HI2). intros c2 _.
  eapply spec_bind0 with (P := fun y => St r2 (fst y)).
  { destruct (N.eqb c2 46); [|cbn [spec fst]; apply St_refl, HI2].
    sb0 ltac:(apply adv_St; [exact HI2|lia]). intros r3 S3.
    eapply spec_imp; [apply scan_St; apply S3| |auto]. intros [r4 a] S4. cbn [fst] in *. st_tr. }
  intros [r4 fracs] S4. cbn [fst] in S4. pose proof S4 as (HI4 & _ & _).
  sb0 ltac:(apply peek_spec, HI4). intros c4 _.
  destruct (N.eqb c4 101 || N.eqb c4 69).
  - sb0 ltac:(apply adv_St; [exact HI4|lia]). intros r5 S5. pose proof S5 as (HI5 & _ & _).
    sb0 ltac:(apply peek_spec, HI5). intros c5 _.
    sb0 ltac:(apply opt_adv_St, HI5). intros r6 S6.
    sb0 ltac:(apply scan_St; apply S6). intros [r7 exps] S7. cbn [fst] in S7. cbn [spec fst]. st_tr.
  - cbn [spec fst]. exact S4.
Qed.

(* ---------- strings ---------- *)
Lemma bok_snoc acc c : bytes_ok acc -> (c < 256)%N -> bytes_ok (acc ++ [c]).
Proof. intros Ha Hc. apply bok_app. split; [exact Ha|]. apply bok_cons. split; [exact Hc|apply bok_nil]. Qed.

Lemma string_scan_ok : forall fuel line i acc v adv, string_scan fuel line i acc = Some (v, adv) ->
  i < adv /\ (bytes_ok line -> bytes_ok acc -> bytes_ok v).
Proof.
  induction fuel as [|f IH]; intros line i acc v adv H; [discriminate|].
  cbn [string_scan] in H. destruct line as [|c rest]; [discriminate|]. destruct rest as [|n rest'].
  - destruct (N.eqb c 34); [|discriminate]. injection H as <- <-. split; [lia|auto].
  - repeat match type of H with (if ?b then _ else _) = _ => destruct b end;
    try (injection H as <- <-; split; [lia|auto]);
    (apply IH in H; destruct H as [H1 H2]; split; [lia|]; intros Hl Ha;
     apply bok_cons in Hl as [Hc Hl]; pose proof Hl as Hl'; apply bok_cons in Hl' as [Hn Hl'];
     apply H2; [assumption|apply bok_snoc; [exact Ha|first [assumption|reflexivity]]]).
Qed.

Lemma line_bok r (line : bytes) : bytes_ok (r_src r) -> line = (if r_in_range r then r_view r else []) -> bytes_ok line.
Proof. intros Hs ->. destruct (r_in_range r); [apply bok_view, Hs|apply bok_nil]. Qed.

Lemma parse_string_spec r : Inv r ->
  spec (parse_string r)
       (fun x => St r (fst x) /\ (r_in_range r = true -> s_pad (r_pos r) = 0 -> rs r < rs (fst x)) /\
                 (bytes_ok (r_src r) -> forall v, snd x = Some v -> bytes_ok v)) False.
Proof.
  intros HI. unfold parse_string.
  sb0 ltac:(apply adv_spec; [exact HI|lia]). intros r1 (S1 & _ & L1). pose proof S1 as (HI1 & Hs1 & _).
  sb0 ltac:(apply peek_line_b_spec, HI1). intros [r2 line] (S2 & P2 & Hl). cbn [fst snd] in *.
  destruct (string_scan (S (length line)) line 0 []) as [[v adv]|] eqn:Es.
  - apply string_scan_ok in Es as [Hadv Hb].
    sb0 ltac:(apply adv_spec; [apply S2|lia]). intros r3 (S3 & _ & _). cbn [spec fst snd]. csplit.
    + st_tr.
    + intros Hin Hp. specialize (L1 ltac:(lia) Hin Hp). destruct S2 as (_ & _ & ?), S3 as (_ & _ & ?). lia.
    + intros Hsrc v' E. injection E as <-. apply Hb; [|apply bok_nil]. eapply line_bok; [|exact Hl]. rewrite Hs1. exact Hsrc.
  - cbn [spec fst snd]. csplit.
    + st_tr.
    + intros Hin Hp. specialize (L1 ltac:(lia) Hin Hp). destruct S2 as (_ & _ & ?). lia.
    + intros _ v' E. discriminate E.
Qed.

(* ---------- true / false / null / a bare word ---------- *)
Lemma name_start_not_blank c : is_name_start c = true -> c <> 32%N.
Proof. intros H ->. discriminate H. Qed.

Lemma take_while_name_len c tl : is_name_start c = true -> 1 <= zlen (take_while is_name_char (c :: tl)).
Proof.
  intros H. cbn [take_while]. rewrite (name_start_char c H). rewrite zlen_cons.
  pose proof (zlen_nonneg (take_while is_name_char tl)). lia.
Qed.

Lemma parse_others_spec r : Inv r -> r_in_range r = true ->
  spec (parse_others r)
       (fun x => St r (fst x) /\ (snd x <> None -> rs r < rs (fst x)) /\
                 (bytes_ok (r_src r) -> forall b, snd x = Some (PBytes b) -> bytes_ok b)) False.
Proof.
  intros HI Hin. pose proof (Inv_RInv r HI) as Hi. unfold parse_others.
  sb0 ltac:(apply peek_line_b_spec, HI). intros [r1 line] (S1 & P1 & Hl). cbn [fst snd] in *. rewrite Hin in Hl.
  pose proof (view_nonempty r Hi Hin) as Hne.
  destruct line as [|c tl]; [rewrite <- Hl, zlen_nil in Hne; lia|].
  destruct (is_name_start c) eqn:Hc; cbn [negb].
  2: { cbn [spec fst snd]. csplit; [exact S1|congruence|intros _ b E; discriminate E]. }
  pose proof (take_while_name_len c tl Hc) as Hlen.
  assert (Hp0 : s_pad (r_pos r) = 0) by (eapply view_head_pad; [exact Hi|symmetry; exact Hl|apply name_start_not_blank, Hc]).
  pose proof S1 as (HI1 & Hs1 & _).
  sb0 ltac:(apply adv_spec; [exact HI1|lia]). intros r2 (S2 & _ & L2).
  specialize (L2 Hlen). rewrite (in_range_eq r1 r P1 Hs1), P1 in L2. specialize (L2 Hin Hp0).
  cbn [spec fst snd]. csplit.
  - st_tr.
  - intros _. lia.
  - intros Hsrc b E.
    assert (Hv : bytes_ok (take_while is_name_char (c :: tl))).
    { apply bok_take_while. rewrite Hl. apply bok_view, Hsrc. }
    repeat match type of E with Some (if ?c then _ else _) = _ => destruct c end; try discriminate E.
    injection E as <-. exact Hv.
Qed.

(* ---------- parseAttribute ---------- *)
Definition val_ok (v : pval) : Prop := match v with PBytes b => bytes_ok b | _ => True end.
Definition aval_ok (a : bytes * pval) : Prop := val_ok (snd a).

Definition PV (r : reader) (x : reader * option pval) : Prop :=
  St r (fst x) /\ (snd x <> None -> rs r < rs (fst x)) /\
  (bytes_ok (r_src r) -> forall v, snd x = Some v -> val_ok v).

Section Loop.
Variable pv : reader -> result (reader * option pval).
Variable f : nat.
Hypothesis Hpv : forall r, Inv r -> spec (pv r) (PV r) (f < 2 * rem r + 2)%nat.

Ltac fin_none := cbn [spec fst snd]; csplit; [st_tr|intros Hne; congruence|intros _ a E; discriminate E].

Lemma parse_attr1_spec c r : Inv r -> r_peek r = Ok c ->
  spec (parse_attr1 st pt pv c r)
       (fun x => St r (fst x) /\ (snd x <> None -> rs r < rs (fst x)) /\
                 (bytes_ok (r_src r) -> forall a, snd x = Some a -> aval_ok a)) (f < 2 * rem r)%nat.
Proof.
  intros HI Ec. pose proof (Inv_RInv r HI) as Hi.
  destruct (peek_total r HI) as [c' (Ec' & P1 & P2)]. rewrite Ec in Ec'. injection Ec' as <-.
  unfold parse_attr1. destruct (N.eqb c 35 || N.eqb c 46) eqn:Hc.
  - assert (c <> 255%N /\ c <> 32%N) as [N1 N2].
    { apply orb_true_iff in Hc as [Hc|Hc]; apply N.eqb_eq in Hc; subst c; split; discriminate. }
    specialize (P1 N1). specialize (P2 N1 N2).
    sb0 ltac:(apply adv_spec; [exact HI|lia]). intros r1 (S1 & _ & L1). specialize (L1 ltac:(lia) P1 P2).
    pose proof S1 as (HI1 & Hs1 & _).
    sb0 ltac:(apply peek_line_b_spec, HI1). intros [r2 line] (S2 & P2' & Hl). cbn [fst snd] in *.
    sb0 ltac:(apply adv_St; [apply S2|apply zlen_nonneg]). intros r3 S3.
    cbn [spec fst snd]. csplit.
    + st_tr.
    + intros _. destruct S2 as (_ & _ & ?), S3 as (_ & _ & ?). lia.
    + intros Hsrc a E. injection E as <-. unfold aval_ok. cbn [snd val_ok]. apply bok_take_while.
      eapply line_bok; [|exact Hl]. rewrite Hs1. exact Hsrc.
  - sb0 ltac:(apply peek_line_b_spec, HI). intros [r1 line] (S1 & P1' & Hl). cbn [fst snd] in *.
    destruct line as [|c0 tl]; [fin_none|].
    destruct (is_name_start c0) eqn:Hc0; cbn [negb]; [|fin_none].
    destruct (r_in_range r) eqn:Hin; [|discriminate Hl].
    assert (Hp0 : s_pad (r_pos r) = 0) by (eapply view_head_pad; [exact Hi|symmetry; exact Hl|apply name_start_not_blank, Hc0]).
    pose proof (take_while_name_len c0 tl Hc0) as Hlen.
    pose proof S1 as (HI1 & Hs1 & _).
    sb0 ltac:(apply adv_spec; [exact HI1|lia]). intros r2 (S2 & _ & L2).
    specialize (L2 Hlen). rewrite (in_range_eq r1 r P1' Hs1), P1' in L2. specialize (L2 Hin Hp0).
    assert (S02 : St r r2) by st_tr.
    pose proof (St_rem_lt r r2 S02 HI L2) as Hrem.
    sb0 ltac:(apply skip_sp_spec; apply S2). intros r3 S3. pose proof S3 as (HI3 & _ & _).
    sb0 ltac:(apply peek_spec, HI3). intros c3 _.
    destruct (N.eqb c3 61); cbn [negb]; [|fin_none].
    sb0 ltac:(apply adv_St; [exact HI3|lia]). intros r4 S4.
    sb0 ltac:(apply skip_sp_spec; apply S4). intros r5 S5.
    assert (S25 : St r2 r5) by st_tr. pose proof (St_rem r2 r5 S25) as Hrem5.
    cbv beta iota. eapply spec_bind; [apply Hpv; apply S5|intros HF; lia|].
    intros [r6 v] (S6 & L6 & B6). cbn [fst snd] in *.
    assert (S06 : St r r6) by st_tr.
    assert (L06 : rs r < rs r6) by (destruct S25 as (_ & _ & ?), S6 as (_ & _ & ?); lia).
    assert (Hs5 : r_src r5 = r_src r) by (destruct S25 as (_ & -> & _); apply S02).
    destruct v as [v|]; [|fin_none].
    assert (Hv : bytes_ok (r_src r) -> val_ok v) by (intros Hsrc; apply B6; [rewrite Hs5; exact Hsrc|reflexivity]).
    destruct (bytes_eqb (take_while is_name_char (c0 :: tl)) n_class); [destruct v|];
      cbn [spec fst snd]; (csplit; [exact S06|intros _; exact L06|]);
      intros Hsrc a E; try discriminate E; injection E as <-; unfold aval_ok; cbn [snd]; apply Hv, Hsrc.
Qed.

Lemma merge_class_vok : forall l v l', merge_class l v = Some l' -> Forall aval_ok l -> bytes_ok v -> Forall aval_ok l'.
Proof.
  induction l as [|[n x] l IH]; intros v l' H Hl Hv; cbn [merge_class] in H; [discriminate|].
  inversion Hl as [|a0 l0 Hx Hl']; subst.
  destruct (bytes_eqb n n_class).
  - destruct x; try discriminate. injection H as <-. constructor; [|exact Hl'].
    unfold aval_ok in *. cbn [snd val_ok] in *. apply bok_app. split; [exact Hx|]. apply bok_cons. split; [reflexivity|exact Hv].
  - destruct (merge_class l v) as [tl'|] eqn:E; [|discriminate]. injection H as <-.
    constructor; [exact Hx|eapply IH; eauto].
Qed.

Lemma add_attr_vok acc name v : Forall aval_ok acc -> val_ok v -> Forall aval_ok (add_attr acc name v).
Proof.
  intros Hacc Hv.
  assert (Happ : Forall aval_ok (acc ++ [(name, v)])).
  { apply Forall_app. split; [exact Hacc|]. constructor; [exact Hv|constructor]. }
  unfold add_attr. destruct (bytes_eqb name n_class); [|exact Happ].
  destruct v; try exact Happ.
  destruct (merge_class acc v) as [l|] eqn:E; [|exact Happ].
  eapply merge_class_vok; [exact E|exact Hacc|exact Hv].
Qed.

(* ---------- the attribute loop of ParseAttributes ---------- *)
Lemma attr_loop_S fail n r attrs :
  attr_loop st pt pv fail (S n) r attrs =
    (c <- r_peek r ;;
     if N.eqb c 125 then (r <- r_advance r 1 ;; Ok (r, Some attrs))
     else
       r <- skip_sp st r ;;
       c <- r_peek r ;;
       a <- parse_attr1 st pt pv c r ;;
       let '(r, attr) := a in
       match attr with
       | None => fail r
       | Some (name, v) =>
         r <- skip_sp st r ;;
         c <- r_peek r ;;
         r <- (if N.eqb c 44 then (r <- r_advance r 1 ;; skip_sp st r) else Ok r) ;;
         attr_loop st pt pv fail n r (add_attr attrs name v)
       end).
Proof. reflexivity. Qed.

Definition PL (r0 r : reader) (x : reader * option (list (bytes * pval))) : Prop :=
  Inv (fst x) /\ r_src (fst x) = r_src r0 /\ (snd x = None -> r_pos (fst x) = r_pos r0) /\
  (snd x <> None -> rs r < rs (fst x)) /\
  (bytes_ok (r_src r0) -> forall l, snd x = Some l -> Forall aval_ok l).

Lemma attr_loop_spec r0 : Inv r0 -> forall n r attrs, Inv r -> r_src r = r_src r0 -> rs r0 <= rs r ->
  (bytes_ok (r_src r0) -> Forall aval_ok attrs) ->
  spec (attr_loop st pt pv (fun r => r1 <- r_set_position r (r_line r0) (r_pos r0) ;; Ok (r1, None)) n r attrs)
       (PL r0 r) ((n <= rem r)%nat \/ (f < 2 * rem r)%nat).
Proof.
  intros HI0. induction n as [|n IH]; intros r attrs HI Hs Hle Hacc.
  { cbn [attr_loop spec]. left. lia. }
  rewrite attr_loop_S.
  destruct (peek_total r HI) as [c (Ec & P1 & P2)]. rewrite Ec. cbn [bind].
  destruct (N.eqb_spec c 125) as [E125|_].
  { subst c. specialize (P1 ltac:(discriminate)). specialize (P2 ltac:(discriminate) ltac:(discriminate)).
    sb0 ltac:(apply adv_spec; [exact HI|lia]). intros r1 (S1 & _ & L1). specialize (L1 ltac:(lia) P1 P2).
    cbn [spec]. unfold PL. cbn [fst snd]. destruct S1 as (HI1 & Hs1 & _).
    csplit; [exact HI1|congruence|discriminate|intros _; exact L1|].
    intros Hsrc l E. injection E as <-. apply Hacc, Hsrc. }
  sb0 ltac:(apply skip_sp_spec, HI). intros r1 S1. pose proof S1 as (HI1 & Hs1 & Hle1).
  destruct (peek_total r1 HI1) as [c1 (Ec1 & _ & _)]. rewrite Ec1. cbn [bind].
  pose proof (St_rem r r1 S1) as Hrem1.
  eapply spec_bind; [apply parse_attr1_spec; [exact HI1|exact Ec1]|intros HF; right; lia|].
  intros [r2 attr] (S2 & L2 & B2). cbn [fst snd] in *. pose proof S2 as (HI2 & Hs2 & Hle2).
  destruct attr as [[name v]|].
  2: { eapply spec_imp; [apply fail_spec; [exact HI0|exact HI2|congruence|lia]| |intros []].
       intros [r3 res] (H1 & H2 & H3 & H4). cbn [fst snd] in *. subst res. unfold PL. cbn [fst snd].
       csplit; [exact H1|exact H2|intros _; exact H3|congruence|intros _ l E; discriminate E]. }
  specialize (L2 ltac:(discriminate)).
  sb0 ltac:(apply skip_sp_spec, HI2). intros r3 S3. pose proof S3 as (HI3 & _ & _).
  sb0 ltac:(apply peek_spec, HI3). intros c3 _.
  eapply spec_bind0 with (P := St r3).
  { destruct (N.eqb c3 44); [|apply St_refl, HI3].
    sb0 ltac:(apply adv_St; [exact HI3|lia]). intros r4 S4.
    eapply spec_imp; [apply skip_sp_spec; apply S4| |auto]. intros r5 S5. st_tr. }
  intros r4 S4.
  assert (S14 : St r1 r4) by st_tr. assert (S04 : St r r4) by st_tr.
  assert (L04 : rs r < rs r4) by (destruct S3 as (_ & _ & ?), S4 as (_ & _ & ?); lia).
  pose proof (St_rem_lt r r4 S04 HI L04) as Hrem4.
  eapply spec_imp; [apply IH| |].
  - apply S4.
  - destruct S04 as (_ & -> & _). exact Hs.
  - lia.
  - intros Hsrc. apply add_attr_vok; [apply Hacc, Hsrc|].
    apply (B2 ltac:(rewrite Hs1, Hs; exact Hsrc) (name, v) eq_refl).
  - intros [r5 res] (H1 & H2 & H3 & H4 & H5). unfold PL. cbn [fst snd] in *.
    csplit; [exact H1|exact H2|exact H3|intros Hne; specialize (H4 Hne); lia|exact H5].
  - intros [HF|HF]; [left|right]; lia.
Qed.

End Loop.

(* ---------- values, arrays, attribute lists: the common fuel ---------- *)
Definition PT (r : reader) (x : reader * option (list (bytes * pval))) : Prop :=
  Inv (fst x) /\ r_src (fst x) = r_src r /\ (snd x = None -> r_pos (fst x) = r_pos r) /\
  (snd x <> None -> rs r < rs (fst x)) /\
  (bytes_ok (r_src r) -> forall l, snd x = Some l -> Forall aval_ok l).

Lemma PT_St r x : Inv r -> PT r x -> St r (fst x).
Proof.
  intros HI (H1 & H2 & H3 & H4 & _). unfold St. csplit; [exact H1|exact H2|].
  destruct (snd x) as [l|]; [specialize (H4 ltac:(discriminate)); lia|rewrite H3 by reflexivity; lia].
Qed.

Lemma parse_mutual_spec : forall fuel,
  (forall r, Inv r -> spec (parse_value st pt fuel r) (PV r) (fuel < 2 * rem r + 2)%nat) /\
  (forall r i acc, Inv r -> spec (parse_array st pt fuel r i acc) (fun x => St r (fst x)) (fuel < 2 * rem r + 3)%nat) /\
  (forall r, Inv r -> spec (parse_attributes st pt fuel r) (PT r) (fuel < 2 * rem r + 1)%nat).
Proof.
  induction fuel as [|f [IHv [IHa IHt]]].
  { repeat split; intros; cbn [parse_value parse_array parse_attributes spec]; lia. }
  split; [|split].
  - (* parse_value *)
    intros r HI. rewrite parse_value_unfold.
    sb0 ltac:(apply skip_sp_spec, HI). intros r1 S1. pose proof S1 as (HI1 & Hs1 & Hle1).
    pose proof (St_rem r r1 S1) as Hrem1.
    destruct (peek_total r1 HI1) as [c (Ec & P1 & P2)]. rewrite Ec. cbn [bind].
    destruct (N.eqb_spec c 255) as [E255|N255].
    { cbn [spec]. unfold PV. cbn [fst snd]. csplit; [exact S1|congruence|intros _ v E; discriminate E]. }
    specialize (P1 N255). specialize (P2 N255).
    destruct (N.eqb_spec c 123) as [E123|_].
    { eapply spec_bind; [apply IHt, HI1|intros HF; lia|].
      intros [r2 res] HT. pose proof (PT_St r1 _ HI1 HT) as S2. destruct HT as (_ & _ & _ & H4 & _). cbn [fst snd] in *.
      cbn [spec]. unfold PV. cbn [fst snd]. csplit; [st_tr| |].
      - intros Hne. destruct res as [l|]; [|congruence]. specialize (H4 ltac:(discriminate)). lia.
      - intros _ v E. destruct res; [|discriminate E]. injection E as <-. exact I. }
    destruct (N.eqb_spec c 91) as [E91|_].
    { subst c. specialize (P2 ltac:(discriminate)).
      sb0 ltac:(apply adv_spec; [exact HI1|lia]). intros r2 (S2 & _ & L2). specialize (L2 ltac:(lia) P1 P2).
      pose proof (St_rem_lt r1 r2 S2 HI1 L2) as Hrem2.
      cbv beta iota. eapply spec_bind; [apply IHa; apply S2|intros HF; lia|].
      intros [r3 res] S3. cbn [fst] in S3. cbn [spec]. unfold PV. cbn [fst snd]. csplit; [st_tr| |].
      - intros _. destruct S3 as (_ & _ & ?). lia.
      - intros _ v E. destruct res; [|discriminate E]. injection E as <-. exact I. }
    destruct (N.eqb_spec c 34) as [E34|_].
    { subst c. specialize (P2 ltac:(discriminate)).
      sb0 ltac:(apply parse_string_spec, HI1). intros [r2 res] (S2 & L2 & B2). cbn [fst snd] in *.
      specialize (L2 P1 P2).
      cbn [spec]. unfold PV. cbn [fst snd]. csplit; [st_tr|intros _; lia|].
      intros Hsrc v E. destruct res as [b|]; [|discriminate E]. injection E as <-. cbn [val_ok].
      apply B2; [rewrite Hs1; exact Hsrc|reflexivity]. }
    destruct (N.eqb c 45 || N.eqb c 43 || is_numeric c).
    { sb0 ltac:(apply parse_number_spec, HI1). intros [r2 ok] (S2 & L2). cbn [fst snd] in *.
      cbn [spec]. unfold PV. cbn [fst snd]. csplit; [st_tr| |].
      - intros Hne. destruct ok; [|congruence]. specialize (L2 eq_refl). lia.
      - intros _ v E. destruct ok; [|discriminate E]. injection E as <-. exact I. }
    eapply spec_imp; [apply parse_others_spec; [exact HI1|exact P1]| |intros []].
    intros [r2 res] (S2 & L2 & B2). unfold PV. cbn [fst snd] in *. csplit; [st_tr| |].
    + intros Hne. specialize (L2 Hne). lia.
    + intros Hsrc v E. destruct v; try exact I. cbn [val_ok]. apply (B2 ltac:(rewrite Hs1; exact Hsrc) _ E).
  - (* parse_array *)
    intros r i acc HI. rewrite parse_array_unfold. cbv zeta.
    sb0 ltac:(apply peek_spec, HI). intros c _.
    sb0 ltac:(apply opt_adv_St, HI). intros r1 S1. pose proof S1 as (HI1 & _ & _).
    pose proof (St_rem r r1 S1) as Hrem1.
    destruct (N.eqb c 93).
    { destruct (negb (negb (i =? 0) && N.eqb c 44)).
      - sb0 ltac:(apply adv_St; [exact HI1|lia]). intros r2 S2. cbn [spec fst]. st_tr.
      - cbn [spec fst]. exact S1. }
    sb0 ltac:(apply skip_sp_spec, HI1). intros r2 S2.
    assert (S02 : St r r2) by st_tr. pose proof (St_rem r r2 S02) as Hrem2.
    cbv beta iota. eapply spec_bind; [apply IHv; apply S2|intros HF; lia|].
    intros [r3 v] (S3 & L3 & _). cbn [fst snd] in *. destruct v as [v|].
    2: { cbn [spec fst]. st_tr. }
    specialize (L3 ltac:(discriminate)).
    sb0 ltac:(apply skip_sp_spec; apply S3). intros r4 S4.
    assert (S04 : St r r4) by st_tr.
    assert (L04 : rs r < rs r4) by (destruct S02 as (_ & _ & ?), S4 as (_ & _ & ?); lia).
    pose proof (St_rem_lt r r4 S04 HI L04) as Hrem4.
    eapply spec_imp; [apply IHa; apply S4| |intros HF; lia].
    intros [r5 res] S5. cbn [fst] in *. st_tr.
  - (* parse_attributes *)
    intros r0 HI0. rewrite parse_attributes_unfold. cbv zeta.
    sb0 ltac:(apply skip_sp_spec, HI0). intros r1 S1. pose proof S1 as (HI1 & Hs1 & Hle1).
    destruct (peek_total r1 HI1) as [c (Ec & P1 & P2)]. rewrite Ec. cbn [bind].
    destruct (N.eqb_spec c 123) as [E123|_]; cbn [negb].
    2: { eapply spec_imp; [apply fail_spec; [exact HI0|exact HI1|exact Hs1|exact Hle1]| |intros []].
         intros [r2 res] (H1 & H2 & H3 & H4). cbn [fst snd] in *. subst res. unfold PT. cbn [fst snd].
         csplit; [exact H1|exact H2|intros _; exact H3|congruence|intros _ l E; discriminate E]. }
    subst c. specialize (P1 ltac:(discriminate)). specialize (P2 ltac:(discriminate) ltac:(discriminate)).
    sb0 ltac:(apply adv_spec; [exact HI1|lia]). intros r2 (S2 & _ & L2). specialize (L2 ltac:(lia) P1 P2).
    assert (S02 : St r0 r2) by st_tr.
    assert (L02 : rs r0 < rs r2) by lia.
    pose proof (St_rem_lt r0 r2 S02 HI0 L02) as Hrem2.
    pose proof S02 as (HI2 & Hs2 & Hle2).
    eapply spec_imp; [apply (attr_loop_spec (parse_value st pt f) f IHv r0 HI0 (rfuel r2) r2 []); [exact HI2|exact Hs2|exact Hle2|intros _; constructor]| |].
    + intros [r3 res] (H1 & H2 & H3 & H4 & H5). unfold PT. cbn [fst snd] in *.
      csplit; [exact H1|exact H2|exact H3|intros Hne; specialize (H4 Hne); lia|exact H5].
    + intros [HF|HF]; [pose proof (rfuel_rem r2 HI2); lia|lia].
Qed.

End Gen.
