(* Helper file for HeadingOptsWfTot.v (fork of the second half of ParseBlocksTotalEach.v, through GfmWfTotBlkEach.v,
   ported to the generalised driver of model/HeadingOpts.v): the loop over the opened blocks for one line
   (each_openedH) under the line invariant LineInv.  openBlocks and closeBlocks are used through the interface
   statements open_blocksH_spec / close_blocksH_spec (HeadingOptsWfTotEachA.v) as Section Hypotheses. *)
Require Import GM.model.Base GM.model.Util GM.model.Reader GM.model.ReaderSpec GM.model.Blocks GM.model.ListItem
               GM.model.LeafBlocks GM.model.CodeBlock GM.model.LinkDest GM.model.Regex GM.model.BlockParse
               GM.model.HtmlWriter GM.model.Html GM.model.Attr GM.model.Ids GM.model.HeadingOpts.
Require Import GM.proofs.ReaderProofs GM.proofs.BlocksProofs
               GM.proofs.ParseBlocksTotalReader GM.proofs.ParseBlocksTotalDefs GM.proofs.ParseBlocksTotalSpec
               GM.proofs.ParseBlocksTotalSt GM.proofs.HeadingOptsWfTotShape
               GM.proofs.ParseBlocksTotalLeaf2 GM.proofs.ParseBlocksTotalCont GM.proofs.ParseBlocksTotalPair
               GM.proofs.HeadingOptsWfTotEachA.
From Coq Require Import ZArith Lia List Bool.
Import ListNotations.
Open Scope Z_scope.

Section S.
Variable hc : hcfg.
Variable space_table punct_table : list N.
Variable norm : bytes -> bytes.
Variable re_t1o re_t1c re_t2 re_t3 re_t4 re_t5 re_t6 re_t7 : re.
Variable allowed_tags : list bytes.
Variable utf8len_table : list N.
Variable spaces : bytes.
Variable src : bytes.
Hypothesis tbl : TblOK space_table.
Hypothesis OBK : open_blocksH_spec hc space_table punct_table norm re_t1o re_t1c re_t2 re_t3 re_t4 re_t5 re_t6 re_t7
                                    allowed_tags utf8len_table spaces src.
Hypothesis CBK : close_blocksH_spec hc space_table punct_table norm utf8len_table spaces src.
Notation SI := (SI space_table src).
Notation LineInv := (LineInv space_table src).
Notation LineMid := (LineMid space_table src).
Notation ReadyLeaf := (ReadyLeaf src).
Notation olineE := (olineE src).
Notation HInv := (HInv space_table src).
Notation EOH := (each_openedH hc space_table punct_table norm re_t1o re_t1c re_t2 re_t3 re_t4 re_t5 re_t6 re_t7 allowed_tags utf8len_table spaces).
Notation OBH := (open_blocksH hc space_table punct_table norm re_t1o re_t1c re_t2 re_t3 re_t4 re_t5 re_t6 re_t7 allowed_tags utf8len_table spaces).
Notation CBH := (close_blocksH hc space_table punct_table norm utf8len_table spaces).
Notation LF2 lem := (lem space_table punct_table norm re_t1o re_t1c re_t2 re_t3 re_t4 re_t5 re_t6 re_t7 allowed_tags src tbl).
Notation CT lem := (lem space_table src tbl).
Notation EA lem := (lem space_table punct_table norm re_t1o re_t1c re_t2 re_t3 re_t4 re_t5 re_t6 re_t7 allowed_tags src tbl).

(* ---------- the pieces of each_openedH ---------- *)
Notation PC := (p_continue space_table re_t1c).

(* the block at index i does not continue: openBlocks below its parent, then closeBlocks *)
Definition open_path (cap : list (nat * bparser)) (root : nat) (i last_index : Z) (stats : list (Z * Z * bool))
                     (fuel : nat) (blank : bool) (x : sth) : result ((sth + sth) * list (Z * Z * bool)) :=
  this_parent <- (if i =? 0 then Ok root
                  else match nth_error cap (Z.to_nat (i - 1)) with Some (p, _) => Ok p | None => Panic end) ;;
  last_node <- match nth_error cap (Z.to_nat last_index) with Some (p, _) => Ok p | None => Panic end ;;
  o <- OBH fuel this_parent blank x ;;
  let '(res, x) := o in
  if negb (res =? paragraphContinuation) then
    now_last <- match nth_error (c_arr (s_c (hx_s x))) (Z.to_nat last_index) with Some (p, _) => Ok p | None => Panic end ;;
    let last_index := if Nat.eqb now_last last_node then last_index else last_index - 1 in
    x <- CBH x last_index i ;;
    Ok (inr x, stats)
  else Ok (inr x, stats).

Lemma eo_unfold f cap root i last_index stats x :
  EOH (S f) cap root i last_index stats x =
  if last_index <? i then Ok (inr x, stats)
  else match nth_error cap (Z.to_nat i) with
       | None => Panic
       | Some (node, bp) =>
         y <- peek_line_s (hx_s x) ;;
         let '(s, line, _) := y in
         let x := sth_s x s in
         match line with
         | None => x <- CBH x last_index 0 ;; Ok (inl (advance_line_h x), stats)
         | Some line =>
           let line_num := rline (hx_s x) in
           let stats := (line_num, i, Reader.is_blank space_table line) :: stats in
           isp <- is_paragraph (s_h (hx_s x)) node ;;
           c <- (if negb isp then y <- PC bp (hx_s x) node ;; let '(s, cont, kids) := y in Ok (sth_s x s, cont, kids)
                 else Ok (x, false, false)) ;;
           let '(x, cont, kids) := c in
           if cont then
             if kids && (i =? last_index) then
               o <- OBH (2 * length line + 8) node (is_blank_line (line_num - 1) i stats) x ;; Ok (inr (snd o), stats)
             else EOH f cap root (i + 1) last_index stats x
           else open_path cap root i last_index stats (2 * length line + 8) (is_blank_line (line_num - 1) i stats) x
         end
       end.
Proof. reflexivity. Qed.

Lemma eo_range_z (base new : list (nat * bparser)) j : 0 <= j <= zlen base ->
  range_of (base ++ new) (Z.to_nat (zlen base - 1 - j + 1)) (zlen base - 1) = skipn (Z.to_nat j) base.
Proof.
  intros Hj. rewrite <- (eo_range_of base new (Z.to_nat j)) by (unfold zlen in Hj; lia). f_equal. lia.
Qed.

(* closeBlocks on the range j .. |base|-1 of the opened blocks base ++ new *)
Lemma eo_close_suffix x1 base new j :
  SI (hx_s x1) -> ops (hx_s x1) = base ++ new -> 0 <= j <= zlen base ->
  match rev (skipn (Z.to_nat j) base) with
  | [] => True
  | e :: t => ReadyLeaf (hx_s x1) (fst e) (snd e) /\ Forall (fun x => is_container (snd x) = true) t
  end ->
  exists xu, CBH x1 (zlen base - 1) j = Ok xu /\ SI (hx_s xu) /\ s_r (hx_s xu) = s_r (hx_s x1) /\
    ops (hx_s xu) = firstn (Z.to_nat j) base ++ new /\
    (forall ch ind fl nd, c_fence (s_c (hx_s x1)) = Some (ch, ind, fl, nd) -> ~ In (nd, PFenced) (rev (skipn (Z.to_nat j) base)) ->
                          c_fence (s_c (hx_s xu)) = c_fence (s_c (hx_s x1))) /\
    ((forall H, ~ In (H, PSetext) (rev (skipn (Z.to_nat j) base))) -> c_tmp_para (s_c (hx_s xu)) = c_tmp_para (s_c (hx_s x1))) /\
    CFrame (Dacc (s_h (hx_s x1)) (s_c (hx_s x1)) (rev (skipn (Z.to_nat j) base)))
           (fun x => In x (map fst (rev (skipn (Z.to_nat j) base)))) (s_h (hx_s x1)) (s_h (hx_s xu)) /\
    eo_bch_frame (eo_Bacc (s_h (hx_s x1)) (s_c (hx_s x1)) (rev (skipn (Z.to_nat j) base))) (s_h (hx_s x1)) (s_h (hx_s xu)).
Proof using All.
  set (t1 := hx_s x1). intros S1 Ho Hj Hready.
  pose proof (CBK x1 (zlen base - 1) j) as HCB. cbv zeta in HCB. fold t1 in HCB.
  specialize (HCB S1 ltac:(lia) ltac:(lia)).
  rewrite <- (EA eo_ops_len t1 S1) in HCB. rewrite Ho in HCB. rewrite app_length in HCB.
  specialize (HCB ltac:(unfold zlen; lia)). rewrite (eo_range_z base new j Hj) in HCB.
  destruct (HCB Hready) as [xu (E & SU & RU & OU & FU & TU & CU & BU)]. exists xu. csplit; auto.
  rewrite OU. replace (Z.to_nat (zlen base - 1 + 1)) with (length base) by (unfold zlen; lia).
  apply eo_after_close. unfold zlen in Hj. lia.
Qed.

Lemma eo_pc_oframe h h' parent x0 : hsame_pc h h' ->
  (forall j n n', Some j <> x0 -> nth_error h j = Some n -> nth_error h' j = Some n' -> blines n' = blines n) ->
  OFrame h h' parent x0.
Proof.
  intros [L H] Hl. split; [lia|]. intros j n Hn. destruct (H j n Hn) as [n' (A & B & C & D)]. exists n'. csplit; auto.
  intros Hne. split; [exact (Hl j n n' Hne Hn A)|exact D].
Qed.

(* the premises of open_blocksX_spec from the invariant in the loop *)
Lemma eo_cont_ops cap t : LineMid cap t ->
  forall k e, nth_error (ops t) k = Some e -> (S k < length (ops t))%nat -> is_container (snd e) = true.
Proof. intros (HL & Ho & _). exact (ch_cont _ _ _ (li_chain _ _ _ HL)). Qed.

(* an entry of a chain does not occur a second time *)
Lemma eo_chain_nodup t base y q : LineInv t -> ops t = base ++ [(y, q)] -> ~ In y (map fst base).
Proof.
  intros HL Ho Hin. apply in_map_iff in Hin. destruct Hin as [[y' q'] [Ey Hin]]. cbn [fst] in Ey. subst y'.
  apply In_nth_error in Hin. destruct Hin as [m Hm]. pose proof (nth_error_lt _ _ _ Hm) as Hml.
  pose proof (li_chain _ _ _ HL) as HC. rewrite Ho in HC.
  pose proof (chain_sorted space_table src _ _ _ (si_h _ _ _ (li_si _ _ _ HL)) HC m (length base) (y, q') (y, q) Hml) as Hlt.
  rewrite nth_error_app1 in Hlt by exact Hml. rewrite nth_error_app2, Nat.sub_diag in Hlt by lia.
  specialize (Hlt Hm eq_refl). cbn [fst] in Hlt. lia.
Qed.

(* what the loops need from the two outcomes of openBlocks, in one form *)
Definition OpenRes (cap : list (nat * bparser)) (parent : nat) (pn : bnode) (t t1 : st) (base' new : list (nat * bparser)) : Prop :=
  ops t1 = base' ++ new /\
  (base' = cap \/ (new <> [] /\ exists x, cap = base' ++ [(x, PParagraph)])) /\
  OFrame (s_h t) (s_h t1) parent (last_para (s_c t)) /\ Chain (s_h t1) parent new /\
  (forall e, In e new -> (length (s_h t) <= fst e)%nat) /\
  (bk pn = BList -> exists it pn', nth_error new 0%nat = Some (it, PListItem) /\
                                   nth_error (s_h t1) parent = Some pn' /\ last_id (bch pn') = Some it) /\
  (forall n p nn, nth_error new (pred (length new)) = Some (n, p) -> nth_error (s_h t1) n = Some nn ->
     (p = PFenced -> exists ch ind fl, c_fence (s_c t1) = Some (ch, ind, fl, n)) /\
     (p = PSetext -> c_tmp_para (s_c t1) <> None /\ blines nn <> [] /\
                     exists x, last_opened (s_c t) = Some (x, PParagraph)) /\
     (p = PATX -> Forall olineE (blines nn)) /\
     (p = PSetext -> exists x xn, c_tmp_para (s_c t1) = Some x /\ nth_error (s_h t1) x = Some xn /\ Forall pad0 (blines xn) /\
                                  cap = base' ++ [(x, PParagraph)]) /\
     (p = PParagraph -> exists q qn, bpar nn = Some q /\ nth_error (s_h t1) q = Some qn /\ last_id (bch qn) = Some n)) /\
  (* a paragraph directly below the parent is opened only when the open paragraph was popped *)
  (forall P Q, new = [(P, PParagraph)] -> last_opened (s_c t) = Some (Q, PParagraph) -> cap = base' ++ [(Q, PParagraph)]) /\
  (base' = cap -> forall n, last_opened (s_c t) = Some (n, PSetext) -> c_tmp_para (s_c t1) = c_tmp_para (s_c t)).

(* openBlocks from a state of the loop *)
Lemma eo_open_call cap x parent pn fuel blank : let t := hx_s x in
  LineMid cap t -> nth_error (s_h t) parent = Some pn -> (bk pn = BList -> LP space_table t parent) ->
  (Z.to_nat (2 * (s_stop (r_pos (s_r t)) - s_start (r_pos (s_r t))) + 8) <= fuel)%nat ->
  exists res x1, OBH fuel parent blank x = Ok (res, x1) /\ let t1 := hx_s x1 in
    SI t1 /\ r_le (s_r t) (s_r t1) /\
    (c_fence (s_c t) <> None -> c_fence (s_c t1) <> None) /\
    (c_tmp_para (s_c t) <> None -> c_tmp_para (s_c t1) <> None) /\
    (forall t0, c_tmp_para (s_c t1) = Some t0 -> (t0 < length (s_h t))%nat) /\
    ((res = paragraphContinuation /\ LineInv t1) \/
     ((res =? paragraphContinuation) = false /\ exists base' new, OpenRes cap parent pn t t1 base' new)).
Proof using All.
  intros t HM Hpn HLP Hfuel. pose proof HM as (HL & Ho & HB). pose proof (li_si _ _ _ HL) as HS.
  pose proof (OBK fuel parent pn blank x) as HO. cbv zeta in HO. fold t in HO.
  destruct (HO HS Hpn HLP (EA eo_attached t HL) (eo_cont_ops cap t HM) HB (EA eo_lastparalc t HL) Hfuel)
    as (res & x1 & E1 & S1 & R1 & Cf & Ct & Ctl & Hcase); clear HO.
  exists res, x1. split; [exact E1|]. cbv zeta. set (t1 := hx_s x1) in *.
  split; [exact S1|]. split; [exact R1|]. split; [exact Cf|]. split; [exact Ct|]. split; [exact Ctl|].
  assert (Hlo1 : ops t1 = ops t -> last_opened (s_c t1) = last_opened (s_c t)).
  { intros E. rewrite (EA eo_last t1 S1), E, <- (EA eo_last t HS). reflexivity. }
  destruct Hcase as [(Hres & Ho1 & Hf1 & Ht1 & Hpc & Hlines & Kpn' & _)
                    |(Hres & base' & new & Ho1 & Hnew & Hbase & HOF & HCh & Hfresh & Hbl & Hlastnew & Hnoint)].
  - destruct Hres as [->| ->].
    + left. split; [reflexivity|]. apply (EA eo_inv_pc t t1 HL S1 Hpc Ho1 Hf1 Ht1).
      intros n p Hlo Hp j y y' Hy Hy'. apply (Hlines j y y'); auto. unfold last_para. rewrite Hlo.
      destruct Hp as [-> | ->]; discriminate.
    + right. split; [reflexivity|]. exists cap, []. unfold OpenRes. rewrite app_nil_r. csplit.
      * congruence.
      * left. reflexivity.
      * apply eo_pc_oframe; assumption.
      * constructor; intros k; intros; destruct k; discriminate.
      * intros e [].
      * intros K. contradiction.
      * intros n p nn C. destruct (pred (length (@nil (nat * bparser)))); discriminate.
      * intros P Q C. discriminate.
      * intros _ n _. exact Ht1.
  - right. subst res. split; [reflexivity|]. exists base', new. rewrite Ho in Hbase, Hnoint. unfold OpenRes. csplit; auto.
    + destruct Hbase as [->|Hx]; [left; reflexivity|right; auto].
    + intros n p nn Hn Hnn. destruct (Hlastnew n p nn Hn Hnn) as (A & B & C & D & E5 & F & G). csplit; auto.
      intros Ep. destruct (F Ep) as (y & yn & Y1 & Y2 & Y3 & Y4 & Y5). exists y, yn. rewrite Ho in Y5. auto.
    + intros P Q En Hlo. destruct Hbase as [Eb|[y Ey]].
      * specialize (Hnoint P En Eb). unfold last_para in Hnoint. rewrite Hlo in Hnoint. discriminate.
      * rewrite Ey. rewrite <- Ho in Ey.
        rewrite (last_opened_app _ _ _ (ci_len _ _ (si_c _ _ _ HS)) Ey) in Hlo. injection Hlo as ->. reflexivity.
    + intros Eb n Hlo.
      destruct (nth_error_ex_lt new (pred (length new))) as [[m p] Hm]; [destruct new; [contradiction|cbn [length]; lia]|].
      assert (Hin : In (m, p) (c_arr (s_c t1))).
      { apply opened_in. fold (ops t1). rewrite Ho1. apply in_or_app. right. eapply nth_error_In, Hm. }
      destruct (ci_arr _ _ (si_c _ _ _ S1) _ Hin) as [mn [Hmn _]]. cbn [fst] in Hmn.
      destruct (Hlastnew m p mn Hm Hmn) as (_ & _ & C & D & _).
      assert (Hdec : p = PSetext \/ p <> PSetext) by (destruct p; (left; reflexivity) || (right; discriminate)).
      destruct Hdec as [Ep|Ep].
      * destruct (C Ep) as (_ & _ & [y Hy]). congruence.
      * destruct (D Ep) as [D1|[y Hy]]; [exact D1|congruence].
Qed.

Lemma eo_open_path cap j x stats fuel blank : let t := hx_s x in
  LineMid cap t -> 0 <= j <= zlen cap - 1 ->
  (forall pn, nth_error (s_h t) (par_at 0%nat cap (Z.to_nat j)) = Some pn -> bk pn = BList ->
              LP space_table t (par_at 0%nat cap (Z.to_nat j))) ->
  (Z.to_nat (2 * (s_stop (r_pos (s_r t)) - s_start (r_pos (s_r t))) + 8) <= fuel)%nat ->
  exists xu, open_path cap 0%nat j (zlen cap - 1) stats fuel blank x = Ok (inr xu, stats) /\
             LineInv (hx_s xu) /\ r_le (s_r t) (s_r (hx_s xu)).
Proof using All.
  intros t HM Hj HLP Hfuel. pose proof HM as (HL & Ho & HB). pose proof (li_si _ _ _ HL) as HS.
  set (jn := Z.to_nat j) in *. assert (Hjn : (jn < length cap)%nat) by (unfold zlen in Hj; lia).
  pose proof (li_chain _ _ _ HL) as HC. rewrite Ho in HC.
  assert (Hcont : forall k e, (k < jn)%nat -> nth_error cap k = Some e -> is_container (snd e) = true).
  { intros k e Hk He. apply (ch_cont _ _ _ HC k e He). lia. }
  destruct (EA eo_par_node t jn HL ltac:(rewrite Ho; lia)) as [pn [Hpn Kpn]]. rewrite Ho in Hpn, Kpn.
  set (parent := par_at 0%nat cap jn) in *.
  destruct (nth_error_ex_lt cap (pred (length cap)) ltac:(lia)) as [[ln lp] Hlast].
  unfold open_path.
  assert (Etp : (if j =? 0 then Ok 0%nat
                 else match nth_error cap (Z.to_nat (j - 1)) with Some (p, _) => Ok p | None => Panic end) = Ok parent).
  { unfold parent. destruct (Z.eqb_spec j 0) as [E0|Hne]; [unfold jn; rewrite E0; reflexivity|].
    destruct (nth_error_ex_lt cap (Z.to_nat (j - 1)) ltac:(lia)) as [[a pa] Ha]. rewrite Ha.
    replace jn with (S (Z.to_nat (j - 1))) by lia. rewrite (EA eo_par_at_S _ _ _ _ Ha). reflexivity. }
  rewrite Etp. cbn [bind].
  replace (Z.to_nat (zlen cap - 1)) with (pred (length cap)) by (unfold zlen; lia).
  rewrite Hlast. cbn [bind].
  pose proof (eo_open_call cap x parent pn fuel blank) as HO. cbv zeta in HO. fold t in HO.
  destruct (HO HM Hpn (HLP pn Hpn) Hfuel) as (res & x1 & E1 & S1 & R1 & Cf & Ct & Ctl & Hcommon); clear HO.
  set (t1 := hx_s x1) in *.
  rewrite E1. cbn [bind]. cbv beta iota.
  destruct Hcommon as [[-> HL1]|(Eres & base' & new & Ho1 & Hbase & HOF & HCh & Hfresh & Hbl & Hlastnew & Hpop & Htmpk)].
  { change (paragraphContinuation =? paragraphContinuation) with true. cbn [negb].
    exists x1. split; [reflexivity|]. split; [exact HL1|exact R1]. }
  rewrite Eres. cbn [negb]. fold t1.
  (* which range is closed *)
  match goal with |- exists xu, ?X = _ /\ _ =>
    assert (Hmid : 0 <= j <= zlen base' /\ firstn jn base' = firstn jn cap /\
              (forall e, In e (skipn jn base') -> In e (skipn jn cap)) /\
              match rev (skipn jn base') with
              | [] => True
              | e :: t => ReadyLeaf t1 (fst e) (snd e) /\ Forall (fun x => is_container (snd x) = true) t
              end /\
              X = (xu <- CBH x1 (zlen base' - 1) j ;; Ok (inr xu, stats)))
  end.
  { assert (Hlt1 : (pred (length cap) < c_len (s_c t1))%nat).
    { rewrite <- (EA eo_ops_len t1 S1), Ho1, app_length.
      destruct Hbase as [->|(Hnew & y & ->)]; [lia|]. rewrite app_length. cbn [length].
      destruct new; [contradiction|cbn [length]; lia]. }
    rewrite <- (opened_nth _ _ Hlt1). fold (ops t1). rewrite Ho1.
    destruct Hbase as [->|(Hnew & y & Ecap)].
    - rewrite nth_error_app1 by lia. rewrite Hlast. cbn [bind]. rewrite Nat.eqb_refl. csplit.
      + lia.
      + lia.
      + reflexivity.
      + auto.
      + apply (EA eo_closed_shape cap jn t t1 HL Ho Hjn Cf).
        intros n p Hlo Hp. split.
        * intros ->. exact (Htmpk eq_refl n Hlo).
        * intros i0 y y1 Hy Hy1. destruct HOF as [_ HOF]. destruct (HOF i0 y Hy) as [n' (A1 & A2 & A3 & A4)].
          rewrite Hy1 in A1. injection A1 as <-. apply A3. unfold last_para. rewrite Hlo.
          destruct Hp as [-> | ->]; discriminate.
      + reflexivity.
    - assert (Elen : length cap = S (length base')) by (rewrite Ecap, app_length; cbn [length]; lia).
      rewrite Elen. cbn [pred]. rewrite nth_error_app2 by lia. rewrite Nat.sub_diag.
      destruct new as [|[n0 p0] new0] eqn:Enew; [contradiction|]. cbn [nth_error bind]. rewrite <- Enew in *.
      assert (Eln : ln = y).
      { rewrite Elen in Hlast. rewrite Ecap in Hlast. cbn [pred] in Hlast. rewrite nth_error_app2 in Hlast by lia.
        rewrite Nat.sub_diag in Hlast. cbn in Hlast. congruence. }
      assert (Hy : (y < length (s_h t))%nat).
      { rewrite <- Ho in Hlast. destruct (EA eo_ops_node t _ ln lp HS Hlast) as [nx [Hnx _]]. subst ln.
        eapply nth_error_lt, Hnx. }
      pose proof (Hfresh (n0, p0) ltac:(rewrite Enew; left; reflexivity)) as Hf0. cbn [fst] in Hf0.
      destruct (Nat.eqb_spec n0 ln) as [C|_]; [lia|].
      assert (Hjb : (jn <= length base')%nat) by lia.
      csplit.
      + lia.
      + unfold zlen. lia.
      + rewrite Ecap, firstn_app. replace (jn - length base')%nat with O by lia. cbn [firstn]. symmetry. apply app_nil_r.
      + intros e He. rewrite Ecap, skipn_app. apply in_or_app. left. exact He.
      + apply (EA eo_all_cont_ready). apply Forall_forall. intros e He. apply in_rev in He.
        apply (EA eo_skipn_nth) in He. destruct He as [m [_ Hm]]. pose proof (nth_error_lt _ _ _ Hm) as Hml.
        apply (ch_cont _ _ _ HC m e); [rewrite Ecap, nth_error_app1 by lia; exact Hm|lia].
      + replace (zlen cap - 1 - 1) with (zlen base' - 1) by (unfold zlen; lia). reflexivity. }
  destruct Hmid as (Hjb & Efirst & Hsub & Hready & ->).
  destruct (eo_close_suffix x1 base' new j S1 Ho1 Hjb Hready) as [xu (E & SU & RU & OU & FU & TU & CU & BU)].
  fold jn in OU, FU, TU, CU, BU. fold t1 in RU, FU, TU, CU, BU.
  assert (Hnotcl : forall y, cap = base' ++ [(y, PParagraph)] -> ~ In y (map fst (rev (skipn jn base')))).
  { intros y Ey Hin. apply (eo_chain_nodup t base' y PParagraph HL ltac:(rewrite Ho; exact Ey)).
    apply in_map_iff in Hin. destruct Hin as [e [Ee Hin]]. apply in_map_iff. exists e. split; [exact Ee|].
    apply in_rev in Hin. eapply eo_in_skipn, Hin. }
  rewrite E. cbn [bind]. exists xu. split; [reflexivity|]. split; [|rewrite RU; exact R1].
  apply (EA eo_finish cap jn t t1 (hx_s xu) new (rev (skipn jn base')) HL Ho ltac:(lia) Hcont S1 HOF HCh).
  - intros e He. split; [apply Hfresh, He|]. apply opened_in. fold (ops t1). rewrite Ho1. apply in_or_app. right. exact He.
  - intros k L Ej Hc. assert (Epl : parent = L) by (unfold parent; rewrite Ej; apply (EA eo_par_at_S _ _ _ _ Hc)).
    destruct (Hbl ltac:(rewrite (Kpn k L PList Ej Hc); reflexivity)) as [it [pn' Hit]]. exists it, pn'.
    rewrite <- Epl. exact Hit.
  - exact Ctl.
  - intros n p nn Hn Hnn. destruct (Hlastnew n p nn Hn Hnn) as (A & B & C & D & G). csplit; auto.
    intros Ep. destruct (D Ep) as (y & yn & Y1 & Y2 & Y3 & Y4). exists y, yn. csplit; auto.
  - intros P Q En Hlo. exact (Hnotcl Q (Hpop P Q En Hlo)).
  - exact SU.
  - rewrite OU, Efirst. reflexivity.
  - intros e He. apply Hsub. apply in_rev. exact He.
  - exact FU.
  - exact TU.
  - exact CU.
  - exact BU.
Qed.

(* ---------- the last block continues and may have children: openBlocks below it ---------- *)
Lemma eo_kids_path cap x node bp fuel blank : let t := hx_s x in
  LineMid cap t -> nth_error cap (pred (length cap)) = Some (node, bp) -> (0 < length cap)%nat ->
  bp = PBlockquote \/ bp = PListItem ->
  (Z.to_nat (2 * (s_stop (r_pos (s_r t)) - s_start (r_pos (s_r t))) + 8) <= fuel)%nat ->
  exists o, OBH fuel node blank x = Ok o /\ LineInv (hx_s (snd o)) /\ r_le (s_r t) (s_r (hx_s (snd o))).
Proof using All.
  intros t HM Hlast Hlen Hbp Hfuel. pose proof HM as (HL & Ho & HB). pose proof (li_si _ _ _ HL) as HS.
  pose proof (li_chain _ _ _ HL) as HC. rewrite Ho in HC.
  set (jn := length cap).
  assert (Hcont : forall k e, (k < jn)%nat -> nth_error cap k = Some e -> is_container (snd e) = true).
  { intros k e Hk He. destruct (Nat.eq_dec (S k) jn) as [Ek|Ek].
    - assert (k = pred (length cap)) by (unfold jn in Ek; lia). subst k. rewrite Hlast in He. injection He as <-.
      destruct Hbp as [->| ->]; reflexivity.
    - apply (ch_cont _ _ _ HC k e He). unfold jn in *. lia. }
  assert (Epar : par_at 0%nat cap jn = node).
  { unfold jn. destruct (length cap) as [|m] eqn:E; [lia|]. cbn [pred] in Hlast. apply (EA eo_par_at_S _ _ _ _ Hlast). }
  destruct (EA eo_ops_node t _ node bp HS ltac:(rewrite Ho; exact Hlast)) as [pn [Hpn Kpn]].
  assert (Knl : bk pn <> BList) by (rewrite Kpn; destruct Hbp as [->| ->]; discriminate).
  pose proof (eo_open_call cap x node pn fuel blank) as HO. cbv zeta in HO. fold t in HO.
  destruct (HO HM Hpn (fun K => False_ind _ (Knl K)) Hfuel) as (res & x1 & E1 & S1 & R1 & Cf & Ct & Ctl & Hcommon); clear HO.
  set (t1 := hx_s x1) in *.
  exists (res, x1). split; [exact E1|]. cbn [snd]. fold t1. split; [|exact R1].
  destruct Hcommon as [[_ HL1]|(_ & base' & new & Ho1 & Hbase & HOF & HCh & Hfresh & Hbl & Hlastnew & _ & _)]; [exact HL1|].
  assert (Eb : base' = cap).
  { destruct Hbase as [E|[_ [y E]]]; [congruence|]. exfalso. rewrite E in Hlast.
    rewrite app_length in Hlast. cbn [length] in Hlast. rewrite nth_error_app2 in Hlast by lia.
    replace (pred (length base' + 1) - length base')%nat with O in Hlast by lia. cbn in Hlast.
    injection Hlast as _ <-. destruct Hbp; discriminate. }
  subst base'.
  apply (EA eo_finish cap jn t t1 t1 new [] HL Ho (le_n _) Hcont S1).
  + rewrite Epar. exact HOF.
  + rewrite Epar. exact HCh.
  + intros e He. split; [apply Hfresh, He|]. apply opened_in. fold (ops t1). rewrite Ho1. apply in_or_app. right. exact He.
  + intros k L Ej Hc. exfalso. assert (k = pred (length cap)) by (unfold jn in Ej; lia). subst k.
    rewrite Hlast in Hc. injection Hc as _ Ebp. subst bp. destruct Hbp; discriminate.
  + exact Ctl.
  + intros n p nn Hn Hnn. destruct (Hlastnew n p nn Hn Hnn) as (A & B & C & D & G). csplit; auto.
    intros Ep. destruct (D Ep) as (y & yn & Y1 & Y2 & Y3 & _). exists y, yn. csplit; auto.
  + intros P Q _ _ [].
  + exact S1.
  + rewrite Ho1. unfold jn. rewrite firstn_all. reflexivity.
  + intros e [].
  + intros; reflexivity.
  + intros; reflexivity.
  + apply CFrame_refl.
  + intros i0 a b Ha Hb. left. congruence.
Qed.

(* ---------- end of input: everything is closed ---------- *)
Lemma eo_eof_close cap x1 : LineMid cap (hx_s x1) -> (0 < length cap)%nat ->
  exists x', CBH x1 (zlen cap - 1) 0 = Ok x' /\ SI (hx_s (advance_line_h x')).
Proof using All.
  set (s1 := hx_s x1). intros (HL & Ho & _) Hlen. pose proof (li_si _ _ _ HL) as HS.
  destruct (eo_close_suffix x1 cap [] 0 HS ltac:(rewrite app_nil_r; exact Ho) ltac:(unfold zlen; lia)) as [xu (E & SU & _)].
  { change (Z.to_nat 0) with O. fold s1. apply (EA eo_closed_shape cap 0%nat s1 s1 HL Ho Hlen); [auto|].
    intros n p _ _. split; [intros _; reflexivity|]. intros i y y1 Hy Hy1. congruence. }
  exists xu. split; [exact E|]. unfold advance_line_h. cbn [sth_s hx_s]. unfold advance_line_s.
  destruct (ri_advance_line (s_r (hx_s xu)) (si_r _ _ _ SU)) as (A & B & _). apply SI_set_r; assumption.
Qed.

(* ---------- Continue of the parsers other than list, list item and paragraph ---------- *)
Lemma eo_continue cap i s1 node bp : LineMid cap s1 -> sin s1 -> nth_error cap i = Some (node, bp) ->
  bp <> PParagraph -> bp <> PList -> bp <> PListItem ->
  exists s2 cont, PC bp s1 node = Ok (s2, cont, is_container bp) /\ (cont = true -> bp <> PSetext /\ bp <> PATX) /\
    exists s2', cont_post space_table src bp node s1 s2' cont (is_container bp) /\
                advance_line_s s2 = advance_line_s s2' /\ (cont = false \/ is_container bp = true -> s2 = s2').
Proof.
  intros (HL & Ho & HB) Hin Hi N1 N2 N3. pose proof (li_si _ _ _ HL) as HS.
  destruct (EA eo_ops_node s1 i node bp HS ltac:(rewrite Ho; exact Hi)) as [nn [Hn Kn]].
  assert (Hplain : is_container bp = false -> PC bp s1 node = Ok (s1, false, false) ->
            exists s2 cont, PC bp s1 node = Ok (s2, cont, is_container bp) /\ (cont = true -> bp <> PSetext /\ bp <> PATX) /\
              exists s2', cont_post space_table src bp node s1 s2' cont (is_container bp) /\
                advance_line_s s2 = advance_line_s s2' /\ (cont = false \/ is_container bp = true -> s2 = s2')).
  { intros Hc E. exists s1, false. rewrite Hc. split; [exact E|]. split; [discriminate|]. exists s1. csplit; auto.
    apply cont_post_scache; [exact Hc|exact HS|apply scache_refl]. }
  destruct bp; try contradiction; cbn [p_continue kind_of_parser is_container] in *.
  - apply Hplain; reflexivity.
  - apply Hplain; reflexivity.
  - destruct (LF2 code_continue_ok s1 node nn HS Hin Hn Kn) as [s2 [cont [E P]]]. rewrite E. cbn [bind fst snd].
    exists s2, cont. split; [reflexivity|]. split; [intros _; split; discriminate|]. exists s2. auto.
  - apply Hplain; reflexivity.
  - assert (Hlast : last_opened (s_c s1) = Some (node, PFenced)).
    { rewrite (EA eo_last s1 HS), Ho. pose proof (nth_error_lt _ _ _ Hi) as Hil.
      destruct (Nat.eq_dec i (pred (length cap))) as [<-|Hne]; [exact Hi|].
      pose proof (li_chain _ _ _ HL) as HC. rewrite Ho in HC.
      pose proof (ch_cont _ _ _ HC i _ Hi ltac:(lia)) as C. discriminate. }
    destruct (li_last _ _ _ HL node PFenced nn Hlast Hn) as (Hf & _).
    destruct (LF2 fenced_continue_ok_fix s1 node nn HS Hin Hn Kn (Hf eq_refl)) as [s2 [cont [E [s2' (P & _ & _ & A & Q)]]]].
    rewrite E. cbn [bind fst snd]. exists s2, cont. split; [reflexivity|]. split; [intros _; split; discriminate|]. exists s2'.
    csplit; auto. intros [C|C]; [exact (Q C)|discriminate].
  - destruct (CT bq_continue_ok s1 node HS Hin) as [s2 [cont [E P]]]. rewrite E. cbn [bind fst snd].
    exists s2, cont. split; [reflexivity|]. split; [intros _; split; discriminate|]. exists s2. auto.
  - destruct (LF2 html_continue_ok s1 node nn HS Hin Hn Kn) as [s2 [cont [E P]]]. rewrite E. cbn [bind fst snd].
    exists s2, cont. split; [reflexivity|]. split; [intros _; split; discriminate|]. exists s2. auto.
Qed.

(* a list item line is a line of the input *)
Lemma eo_sin_item s : SI s -> snd (parse_list_item (sview s)) <> 0%N -> sin s.
Proof.
  intros HS Hp. unfold sin. destruct (r_in_range (s_r s)) eqn:E; [reflexivity|]. exfalso.
  pose proof (si_r _ _ _ HS) as [Hinv Hh]. pose proof (in_range_false _ E Hinv) as Est.
  pose proof (inv_bounds _ Hinv) as Hb.
  assert (Ev : sview s = spaces_n (s_pad (r_pos (s_r s)))).
  { unfold sview, r_view. replace (s_stop (r_pos (s_r s))) with (s_start (r_pos (s_r s))) by lia.
    unfold sub. rewrite Z.sub_diag. cbn [Z.to_nat firstn]. apply app_nil_r. }
  destruct (parse_list_item (sview s)) as [m typ] eqn:Epl. cbn [snd] in Hp.
  destruct (lp_pli_shape _ m typ Epl Hp) as (A1 & A2 & A3 & A4 & A5 & A6).
  assert (Hnb : nth_byte (sview s) (m1 m) = 32%N).
  { rewrite Ev in *. unfold nth_byte, spaces_n in *. apply nth_repeat_in. unfold zlen in A3. rewrite repeat_length in A3. lia. }
  destruct A6 as [(_ & _ & B)|(_ & B & _)]; rewrite Hnb in B.
  - unfold lp_bullet in B. destruct B as [B|[B|B]]; discriminate.
  - unfold lp_digit in B. lia.
Qed.

Lemma eo_bp_cases bp : bp = PParagraph \/ bp = PList \/ bp = PListItem \/ (bp <> PParagraph /\ bp <> PList /\ bp <> PListItem).
Proof. destruct bp; auto; right; right; right; repeat split; discriminate. Qed.

(* ---------- the loop ---------- *)
(* what listItemParser.Continue does after listParser.Continue said "continue" on this line *)
Definition ItemReady (s : st) (it : nat) : Prop :=
  forall s2, SI s2 -> scache s s2 ->
    exists s3 c3, list_item_continue space_table s2 it = Ok (s3, c3) /\
      cont_post space_table src PListItem it s2 s3 c3 true /\
      (c3 = false -> snd (parse_list_item (sview s3)) <> 0%N /\
                     is_thematic_break space_table (sview s3) (soff s3) = false /\ c_skip_list (s_c s3) = true).

Definition EPost (cap : list (nat * bparser)) (i : Z) (s : st) (r : sth + sth) : Prop :=
  match r with
  | inl x' => SI (hx_s x')
  | inr x' => exists s'', LineInv s'' /\ r_le (s_r s) (s_r s'') /\ advance_line_s (hx_s x') = advance_line_s s'' /\
                          (i <= zlen cap - 1 -> r_in_range (s_r s) = true)
  end.

Lemma eo_gen cap : forall f i stats x,
  LineMid cap (hx_s x) -> 0 <= i <= zlen cap -> (Z.to_nat (zlen cap - i) < f)%nat ->
  (forall it, nth_error cap (Z.to_nat i) = Some (it, PListItem) -> ItemReady (hx_s x) it) ->
  exists r stats', EOH f cap 0%nat i (zlen cap - 1) stats x = Ok (r, stats') /\ EPost cap i (hx_s x) r.
Proof using All.
  induction f as [|f IH]; intros i stats x HM Hi Hf Hitem; [lia|]. rewrite eo_unfold.
  set (s := hx_s x) in *.
  pose proof HM as (HL & Ho & HB). pose proof (li_si _ _ _ HL) as HS.
  destruct (Z.ltb_spec (zlen cap - 1) i) as [Hgt|Hle].
  { exists (inr x), stats. split; [reflexivity|]. exists s. csplit; auto; [apply r_le_refl|lia]. }
  set (ii := Z.to_nat i) in *. assert (Hii : (ii < length cap)%nat) by (unfold zlen in Hle; lia).
  destruct (nth_error_ex_lt cap ii Hii) as [[node bp] Hnode]. rewrite Hnode.
  destruct (peek_line_s_ok space_table src s HS) as [s1 (E1 & S1 & C1 & _)]. rewrite E1. cbn [bind]. cbv beta iota.
  pose proof (EA eo_mid_scache cap s s1 HM S1 C1) as HM1. pose proof HM1 as (HL1 & Ho1 & HB1).
  pose proof (li_chain _ _ _ HL1) as HC1. rewrite Ho1 in HC1.
  cbv zeta. set (x1 := sth_s x s1).
  destruct (r_in_range (s_r s)) eqn:Hin.
  2:{ destruct (eo_eof_close cap x1 HM1 ltac:(lia)) as [x' [E P]]. rewrite E. cbn [bind].
      exists (inl (advance_line_h x')), stats. split; [reflexivity|exact P]. }
  assert (Hin1 : sin s1) by (eapply scache_sin; [exact C1|exact Hin]).
  change (hx_s x1) with s1.
  set (line := sview s). set (stats1 := (rline s1, i, Reader.is_blank space_table line) :: stats).
  set (blank := is_blank_line (rline s1 - 1) i stats1). set (fuel := (2 * length line + 8)%nat).
  destruct (EA eo_ops_node s1 ii node bp S1 ltac:(rewrite Ho1; exact Hnode)) as [nn [Hn Kn]].
  unfold is_paragraph. rewrite (hget_some _ _ _ Hn). cbn [bind].
  (* openBlocks has fuel for the rest of the line *)
  assert (Hfu : forall t, same_line (s_r s1) (s_r t) ->
            (Z.to_nat (2 * (s_stop (r_pos (s_r t)) - s_start (r_pos (s_r t))) + 8) <= fuel)%nat).
  { intros t (_ & A & B & _). unfold fuel, line. rewrite <- (scache_view _ _ C1).
    pose proof (view_zlen _ (proj1 (si_r _ _ _ S1))) as Hv. pose proof (ri_bounds _ (si_r _ _ _ S1)) as Hb.
    unfold sview. unfold zlen in Hv. lia. }
  assert (Hle_s1 : r_le (s_r s) (s_r s1)) by (destruct C1 as (_ & _ & C1); apply same_pos_le, C1).
  (* no list: the parent of the block at i is no list unless the block is a list item *)
  assert (HnoLP : forall t, LineMid cap t -> bp <> PListItem ->
            forall pn, nth_error (s_h t) (par_at 0%nat cap ii) = Some pn -> bk pn = BList ->
                       LP space_table t (par_at 0%nat cap ii)).
  { intros t (HLt & Hot & _) Nb pn Hpn Kpn. exfalso. apply Nb. rewrite <- Hot in Hpn.
    apply (EA eo_parent_list t ii node bp pn HLt); [rewrite Hot; exact Hnode|exact Hpn|exact Kpn]. }
  (* what follows the Continue call *)
  assert (Htail : forall x2 s2' cont,
    cont_post space_table src bp node s1 s2' cont (is_container bp) ->
    advance_line_s (hx_s x2) = advance_line_s s2' -> (cont = false \/ is_container bp = true -> hx_s x2 = s2') ->
    (cont = true -> bp <> PSetext /\ bp <> PATX) ->
    (cont = true -> forall it, nth_error cap (S ii) = Some (it, PListItem) -> ItemReady (hx_s x2) it) ->
    (cont = false -> forall pn, nth_error (s_h (hx_s x2)) (par_at 0%nat cap ii) = Some pn -> bk pn = BList ->
                     LP space_table (hx_s x2) (par_at 0%nat cap ii)) ->
    exists r stats',
      (if cont then
         if is_container bp && (i =? zlen cap - 1)
         then o <- OBH fuel node blank x2 ;; Ok (inr (snd o), stats1)
         else EOH f cap 0%nat (i + 1) (zlen cap - 1) stats1 x2
       else open_path cap 0%nat i (zlen cap - 1) stats1 fuel blank x2) = Ok (r, stats') /\ EPost cap i s r).
  { intros x2 s2' cont P Hadv Heq Hnsx Hnext HLP. set (s2 := hx_s x2) in *. destruct cont.
    - destruct (is_container bp) eqn:Ec.
      + pose proof (Heq (or_intror eq_refl)) as <-.
        destruct (EA eo_mid_cont cap bp node s1 s2 true true HM1 P (or_introl Ec)) as [HM2 Hsl].
        assert (Hle2 : r_le (s_r s) (s_r s2)).
        { eapply r_le_trans; [exact Hle_s1|]. apply same_line_le, Hsl. }
        cbn [andb]. destruct (Z.eqb_spec i (zlen cap - 1)) as [Ei|Ei].
        * assert (Elast : ii = pred (length cap)) by (unfold ii, zlen in *; lia).
          assert (Hbp : bp = PBlockquote \/ bp = PListItem).
          { destruct bp; try discriminate; auto. exfalso.
            destruct (ch_list _ _ _ HC1 ii node Hnode) as [it [Ln (A & _)]]. apply nth_error_lt in A. lia. }
          destruct (eo_kids_path cap x2 node bp fuel blank HM2 ltac:(rewrite <- Elast; exact Hnode) ltac:(lia) Hbp (Hfu s2 Hsl))
            as [o (E & LO & RO)].
          rewrite E. cbn [bind]. exists (inr (snd o)), stats1. split; [reflexivity|]. exists (hx_s (snd o)). csplit; auto.
          eapply r_le_trans; eassumption.
        * destruct (IH (i + 1) stats1 x2 HM2 ltac:(lia) ltac:(lia)) as [r [stats' [E P']]].
          { replace (Z.to_nat (i + 1)) with (S ii) by (unfold ii; lia). apply Hnext. reflexivity. }
          exists r, stats'. split; [exact E|]. destruct r as [x'|x']; [exact P'|].
          destruct P' as [s'' (A & B & C & D)]. exists s''. csplit; auto. eapply r_le_trans; eassumption.
      + cbn [andb].
        assert (Elast : i = zlen cap - 1).
        { destruct (Z.eq_dec i (zlen cap - 1)) as [E|E]; [exact E|]. exfalso.
          pose proof (ch_cont _ _ _ HC1 ii _ Hnode ltac:(unfold ii, zlen in *; lia)) as C. cbn [snd] in C. congruence. }
        destruct f as [|f']; [lia|]. rewrite eo_unfold.
        destruct (Z.ltb_spec (zlen cap - 1) (i + 1)) as [_|C]; [|lia].
        exists (inr x2), stats1. split; [reflexivity|]. exists s2'.
        destruct P as (P1 & P2 & P3 & P4 & P5 & P6 & P7 & P8 & P9).
        destruct (EA eo_ops_cframe s1 s2' P3) as [Eo El].
        assert (Hlastbp : last_opened (s_c s1) = Some (node, bp)).
        { rewrite (EA eo_last s1 S1), Ho1. replace (pred (length cap)) with ii by (unfold ii, zlen in *; lia). exact Hnode. }
        csplit; auto.
        * apply (EA eo_inv_pc s1 s2' HL1 P1 (P9 Ec eq_refl) Eo P4 P5).
          intros n p Hlo Hp. exfalso. rewrite Hlastbp in Hlo. injection Hlo as _ Ebp. subst p.
          destruct Hp as [Ep|Ep]; [exact (proj1 (Hnsx eq_refl) Ep)|exact (proj2 (Hnsx eq_refl) Ep)].
        * eapply r_le_trans; eassumption.
    - pose proof (Heq (or_introl eq_refl)) as <-.
      destruct (EA eo_mid_cont cap bp node s1 s2 false (is_container bp) HM1 P (or_intror eq_refl)) as [HM2 Hsl].
      destruct (eo_open_path cap i x2 stats1 fuel blank HM2 ltac:(lia) (HLP eq_refl) (Hfu s2 Hsl)) as [xu (E & LU & RU)].
      exists (inr xu), stats1. split; [exact E|]. exists (hx_s xu). csplit; auto.
      eapply r_le_trans; [exact Hle_s1|]. eapply r_le_trans; [apply same_line_le, Hsl|exact RU]. }
  destruct (eo_bp_cases bp) as [Ebp|[Ebp|[Ebp|(N1 & N2 & N3)]]].
  - (* paragraph *)
    subst bp. rewrite Kn. cbn [kind_of_parser bkind_eqb negb bind].
    apply (Htail x1 s1 false).
    + apply cont_post_scache; [reflexivity|exact S1|apply scache_refl].
    + reflexivity.
    + auto.
    + discriminate.
    + discriminate.
    + intros _. apply (HnoLP s1 HM1). discriminate.
  - (* list *)
    subst bp. rewrite Kn. cbn [kind_of_parser bkind_eqb negb bind p_continue].
    destruct (ch_list _ _ _ HC1 ii node Hnode) as [it [Ln (Hit & HLn & Hlastc)]].
    rewrite Hn in HLn. injection HLn as <-.
    destruct (EA eo_ops_node s1 (S ii) it PListItem S1 ltac:(rewrite Ho1; exact Hit)) as [itn [Hitn Kitn]].
    destruct (ch_par _ _ _ HC1 (S ii) it PListItem Hit) as [itn' [Hitn' Hpar]]. rewrite Hitn in Hitn'.
    injection Hitn' as <-. rewrite (EA eo_par_at_S _ _ _ _ Hnode) in Hpar.
    destruct (CT list_pair_ok s1 node it nn itn S1 Hin1 Hn Kn Hlastc Hitn Kitn Hpar) as [s2 [c1 (E & P & Hnext)]].
    rewrite E. cbn [bind fst snd].
    apply (Htail (sth_s x1 s2) s2 c1 P eq_refl (fun _ => eq_refl)).
    + intros _. split; discriminate.
    + intros Hc1 it' Hit'. rewrite Hit in Hit'. injection Hit' as <-. exact (Hnext Hc1).
    + intros Hc1. destruct (EA eo_mid_cont cap PList node s1 s2 c1 true HM1 P (or_introl eq_refl)) as [HM2 _].
      apply (HnoLP s2 HM2). discriminate.
  - (* list item *)
    subst bp. rewrite Kn. cbn [kind_of_parser bkind_eqb negb bind p_continue].
    destruct (Hitem node Hnode s1 S1 C1) as [s3 [c3 (E & P & Hf3)]].
    rewrite E. cbn [bind fst snd].
    apply (Htail (sth_s x1 s3) s3 c3 P eq_refl (fun _ => eq_refl)).
    + intros _. split; discriminate.
    + intros _ it' Hit'. exfalso. rewrite <- Ho1 in Hit'. destruct (EA eo_item_prev s1 ii it' HL1 Hit') as [L HL'].
      rewrite Ho1, Hnode in HL'. discriminate.
    + intros Hc3 pn Hpn Kpn. destruct (Hf3 Hc3) as (A & B & C). unfold LP. csplit; auto.
      apply eo_sin_item; [apply P|exact A].
  - (* the others *)
    assert (Hnp : bkind_eqb (bk nn) BParagraph = false) by (rewrite Kn; destruct bp; try reflexivity; contradiction).
    rewrite Hnp. cbn [negb].
    destruct (eo_continue cap ii s1 node bp HM1 Hin1 Hnode N1 N2 N3) as [s2 [cont (E & Hnsx & s2' & P & Hadv & Heq)]].
    rewrite E. cbn [bind].
    apply (Htail (sth_s x1 s2) s2' cont P Hadv Heq).
    + exact Hnsx.
    + intros _ it' Hit'. exfalso. rewrite <- Ho1 in Hit'. destruct (EA eo_item_prev s1 ii it' HL1 Hit') as [L HL'].
      rewrite Ho1, Hnode in HL'. injection HL' as _ HL'. contradiction.
    + intros Hc. cbn [sth_s hx_s]. pose proof (Heq (or_introl Hc)) as Es. cbn [sth_s hx_s] in Es. subst s2'.
      destruct (EA eo_mid_cont cap bp node s1 s2 cont (is_container bp) HM1 P (or_intror Hc)) as [HM2 _].
      apply (HnoLP s2 HM2 N3).
Qed.

Lemma each_openedH_ok cap : forall f i stats x,
  LineMid cap (hx_s x) -> 0 <= i <= zlen cap -> (Z.to_nat (zlen cap - i) < f)%nat ->
  (forall it, nth_error cap (Z.to_nat i) <> Some (it, PListItem)) ->
  exists r stats', EOH f cap 0%nat i (zlen cap - 1) stats x = Ok (r, stats') /\
    match r with
    | inl x' => SI (hx_s x')
    | inr x' => exists s'', LineInv s'' /\ r_le (s_r (hx_s x)) (s_r s'') /\ advance_line_s (hx_s x') = advance_line_s s'' /\
                             (i <= zlen cap - 1 -> r_in_range (s_r (hx_s x)) = true)
    end.
Proof using All.
  intros f i stats x HM Hi Hf Hni. apply (eo_gen cap f i stats x HM Hi Hf).
  intros it Hit. exfalso. exact (Hni it Hit).
Qed.

End S.
