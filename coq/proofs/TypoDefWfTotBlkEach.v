(* Helper file for TypoDefWfTotBlk.v (totality of the block phase with extension.DefinitionList on):
   the loop over the opened blocks for one line (each_openedD of model/TypoDefParseD.v) under the
   line invariant LineInvD, given the specification of openBlocks (open_blocksD_spec, Section
   Hypothesis OBK).  Port of the second half of ParseBlocksTotalEach.v; part A:
   TypoDefWfTotBlkEachA.v.  Final lemma: each_openedD_ok. *)
Require Import GM.model.Base GM.model.Util GM.model.Reader GM.model.ReaderSpec GM.model.Blocks GM.model.ListItem
               GM.model.LeafBlocks GM.model.CodeBlock GM.model.LinkDest GM.model.Regex GM.model.BlockParse
               GM.model.TypoDefParseD.
Require Import GM.proofs.ReaderProofs GM.proofs.BlocksProofs
               GM.proofs.ParseBlocksTotalReader GM.proofs.ParseBlocksTotalDefs GM.proofs.ParseBlocksTotalSpec
               GM.proofs.ParseBlocksTotalSt GM.proofs.ParseBlocksTotalShape
               GM.proofs.ParseBlocksTotalLeaf2 GM.proofs.ParseBlocksTotalCont GM.proofs.ParseBlocksTotalPair
               GM.proofs.ParseBlocksTotalClose GM.proofs.ParseBlocksTotalOpen GM.proofs.ParseBlocksTotalEach
               GM.proofs.TypoDefWfTotBlkDefs GM.proofs.TypoDefWfTotBlkSpec GM.proofs.TypoDefWfTotBlkTc
               GM.proofs.TypoDefWfTotBlkDl GM.proofs.TypoDefWfTotBlkClose GM.proofs.TypoDefWfTotBlkOpenI
               GM.proofs.TypoDefWfTotBlkEachA.
From Coq Require Import ZArith Lia List Bool.
Import ListNotations.
Open Scope Z_scope.

Section S.
Variable space_table punct_table : list N.
Variable norm : bytes -> bytes.
Variable re_t1o re_t1c re_t2 re_t3 re_t4 re_t5 re_t6 re_t7 : re.
Variable allowed_tags : list bytes.
Variable src : bytes.
Hypothesis tbl : TblOK space_table.
Hypothesis OBK : open_blocksD_spec space_table punct_table norm re_t1o re_t1c re_t2 re_t3 re_t4 re_t5 re_t6 re_t7 allowed_tags src.
Notation SI := (SI space_table src).
Notation SD := (SD space_table src).
Notation LineInvD := (LineInvD space_table src).
Notation LineMidD := (LineMidD space_table src).
Notation HInv := (HInv space_table src).
Notation EOD := (each_openedD true space_table punct_table norm re_t1o re_t1c re_t2 re_t3 re_t4 re_t5 re_t6 re_t7 allowed_tags).
Notation OBD := (open_blocksD true space_table punct_table norm re_t1o re_t1c re_t2 re_t3 re_t4 re_t5 re_t6 re_t7 allowed_tags).
Notation CBD := (close_blocksD space_table punct_table norm).
Notation CBK := (close_blocksD_ok space_table punct_table norm re_t1o re_t1c re_t2 re_t3 re_t4 re_t5 re_t6 re_t7 allowed_tags src tbl).
Notation LF2 lem := (lem space_table punct_table norm re_t1o re_t1c re_t2 re_t3 re_t4 re_t5 re_t6 re_t7 allowed_tags src tbl).
Notation CT lem := (lem space_table src tbl).
Notation PC := (p_continue space_table re_t1c).
Notation PCD := (p_continueD space_table re_t1c).
Notation eo_ops_len := (eo_ops_len space_table src).
Notation eo_ops_node := (eo_ops_node space_table src).
Notation eo_last := (eo_last space_table src).
Notation PCTC := (p_continue_TC space_table punct_table norm re_t1o re_t1c re_t2 re_t3 re_t4 re_t5 re_t6 re_t7 allowed_tags src).

(* ---------- the pieces of each_openedD ---------- *)
(* the block at index i does not continue: openBlocks below its parent, then closeBlocks *)
Definition open_pathD (cap : list (nat * bparser)) (root : nat) (i last_index : Z) (stats : list (Z * Z * bool))
                      (fuel : nat) (blank : bool) (s : st) : result ((st + st) * list (Z * Z * bool)) :=
  this_parent <- (if i =? 0 then Ok root
                  else match nth_error cap (Z.to_nat (i - 1)) with Some (p, _) => Ok p | None => Panic end) ;;
  last_node <- match nth_error cap (Z.to_nat last_index) with Some (p, _) => Ok p | None => Panic end ;;
  o <- OBD fuel this_parent blank s ;;
  let '(res, s) := o in
  if negb (res =? paragraphContinuation) then
    now_last <- match nth_error (c_arr (s_c s)) (Z.to_nat last_index) with Some (p, _) => Ok p | None => Panic end ;;
    let last_index := if Nat.eqb now_last last_node then last_index else last_index - 1 in
    s <- CBD s last_index i ;;
    Ok (inr s, stats)
  else Ok (inr s, stats).

Lemma eoD_unfold f cap root i last_index stats s :
  EOD (S f) cap root i last_index stats s =
  if last_index <? i then Ok (inr s, stats)
  else match nth_error cap (Z.to_nat i) with
       | None => Panic
       | Some (node, bp) =>
         x <- peek_line_s s ;;
         let '(s, line, _) := x in
         match line with
         | None => s <- CBD s last_index 0 ;; Ok (inl (advance_line_s s), stats)
         | Some line =>
           let line_num := rline s in
           let stats := (line_num, i, Reader.is_blank space_table line) :: stats in
           isp <- is_paragraph (s_h s) node ;;
           c <- (if negb isp then y <- PCD bp s node ;; let '(s, cont, kids) := y in Ok (s, cont, kids)
                 else Ok (s, false, false)) ;;
           let '(s, cont, kids) := c in
           if cont then
             if kids && (i =? last_index) then
               o <- OBD (2 * length line + 8) node (is_blank_line (line_num - 1) i stats) s ;; Ok (inr (snd o), stats)
             else EOD f cap root (i + 1) last_index stats s
           else open_pathD cap root i last_index stats (2 * length line + 8) (is_blank_line (line_num - 1) i stats) s
         end
       end.
Proof. reflexivity. Qed.

(* closeBlocks on the range j .. |base|-1 of the opened blocks base ++ new *)
Lemma eoD_close_suffix t1 base new j :
  SD t1 -> ops t1 = base ++ new -> 0 <= j <= zlen base ->
  match rev (skipn (Z.to_nat j) base) with
  | [] => True
  | e :: t => ReadyLeaf t1 (fst e) (snd e) /\ Forall (fun x => nlp (snd x)) t
  end ->
  exists u, CBD t1 (zlen base - 1) j = Ok u /\ SD u /\ s_r u = s_r t1 /\ kkeep (s_h t1) (s_h u) /\
    ops u = firstn (Z.to_nat j) base ++ new /\
    (forall ch ind fl nd, c_fence (s_c t1) = Some (ch, ind, fl, nd) -> ~ In (nd, PFenced) (rev (skipn (Z.to_nat j) base)) ->
                          c_fence (s_c u) = c_fence (s_c t1)) /\
    ((forall H, ~ In (H, PSetext) (rev (skipn (Z.to_nat j) base))) -> c_tmp_para (s_c u) = c_tmp_para (s_c t1)) /\
    CFrame (DaccD (s_h t1) (s_c t1) (rev (skipn (Z.to_nat j) base)))
           (fun x => In x (map fst (rev (skipn (Z.to_nat j) base)))) (s_h t1) (s_h u).
Proof.
  intros S1 Ho Hj Hready.
  pose proof (CBK t1 (zlen base - 1) j S1 ltac:(lia) ltac:(lia)) as HCB.
  rewrite <- (eo_ops_len t1 (proj1 S1)) in HCB. rewrite Ho in HCB. rewrite app_length in HCB.
  specialize (HCB ltac:(unfold zlen; lia)). cbv zeta in HCB. rewrite (eo_range_z (fun x => x) src base new j Hj) in HCB.
  destruct (HCB Hready) as [u (E & SU & RU & KU & OU & FU & TU & CU)]. exists u. csplit; auto.
  rewrite OU. replace (Z.to_nat (zlen base - 1 + 1)) with (length base) by (unfold zlen; lia).
  apply eo_after_close. unfold zlen in Hj. lia.
Qed.

(* a node that is no paragraph is not the paragraph at the end of the opened blocks *)
Lemma eoD_not_last_para s j n : SI s -> nth_error (s_h s) j = Some n -> bk n <> BParagraph -> Some j <> last_para (s_c s).
Proof.
  intros HS Hn K E. unfold last_para in E. destruct (last_opened (s_c s)) as [[x q]|] eqn:El; [|discriminate].
  destruct q; try discriminate. injection E as <-.
  pose proof (last_opened_in _ _ (ci_len _ _ (si_c _ _ _ HS)) El) as Hin.
  destruct (ci_arr _ _ (si_c _ _ _ HS) _ Hin) as [nx [Hx Kx]]. cbn [fst snd kind_of_parser] in Hx, Kx.
  rewrite Hn in Hx. injection Hx as <-. contradiction.
Qed.

Lemma eoD_pc_oframe h h' parent : hsame_pc h h' ->
  (forall j n n', bk n <> BParagraph -> nth_error h j = Some n -> nth_error h' j = Some n' -> blines n' = blines n) ->
  OFrameD h h' parent.
Proof.
  intros [L H] Hl. split; [lia|]. intros j n Hn. destruct (H j n Hn) as [n' (A & B & C & D)]. exists n'. csplit; auto.
  intros Hne. split; [exact (Hl j n n' Hne Hn A)|exact D].
Qed.

Lemma eoD_is_dl_false h i n : nth_error h i = Some n -> ~ dlk h i -> is_dl n = false.
Proof. intros E H. destruct (is_dl n) eqn:D; [|reflexivity]. exfalso. apply H. exists n. auto. Qed.

Lemma eoD_open_path cap j t stats fuel blank :
  LineMidD cap t -> 0 <= j <= zlen cap - 1 ->
  (forall pn, nth_error (s_h t) (par_at 0%nat cap (Z.to_nat j)) = Some pn -> bk pn = BList ->
              LP space_table t (par_at 0%nat cap (Z.to_nat j))) ->
  ~ dlk (s_h t) (par_at 0%nat cap (Z.to_nat j)) ->
  (Z.to_nat (2 * (s_stop (r_pos (s_r t)) - s_start (r_pos (s_r t))) + 8) <= fuel)%nat ->
  exists u, open_pathD cap 0%nat j (zlen cap - 1) stats fuel blank t = Ok (inr u, stats) /\
            LineInvD u /\ r_le (s_r t) (s_r u).
Proof.
  intros (HL & Ho & HB) Hj HLP Hpdl Hfuel. pose proof (lid_si _ _ _ HL) as HS. pose proof (lid_sd _ _ _ HL) as HSD.
  set (jn := Z.to_nat j) in *. assert (Hjn : (jn < length cap)%nat) by (unfold zlen in Hj; lia).
  pose proof (lid_chain _ _ _ HL) as HC. rewrite Ho in HC.
  assert (Hcont : forall k e, (k < jn)%nat -> nth_error cap k = Some e -> contD (s_h t) e).
  { intros k e Hk He. apply (chd_cont _ _ _ HC k e He). lia. }
  destruct (eoD_par_node space_table src t jn HL ltac:(rewrite Ho; lia)) as [pn [Hpn [_ Kpn]]]. rewrite Ho in Hpn, Kpn.
  set (parent := par_at 0%nat cap jn) in *.
  destruct (nth_error_ex_lt cap (pred (length cap)) ltac:(lia)) as [[ln lp] Hlast].
  unfold open_pathD.
  assert (Etp : (if j =? 0 then Ok 0%nat
                 else match nth_error cap (Z.to_nat (j - 1)) with Some (p, _) => Ok p | None => Panic end) = Ok parent).
  { unfold parent. destruct (Z.eqb_spec j 0) as [E0|Hne]; [unfold jn; rewrite E0; reflexivity|].
    destruct (nth_error_ex_lt cap (Z.to_nat (j - 1)) ltac:(lia)) as [[a pa] Ha]. rewrite Ha.
    replace jn with (S (Z.to_nat (j - 1))) by lia. rewrite (eo_par_at_S _ _ _ _ Ha). reflexivity. }
  rewrite Etp. cbn [bind].
  replace (Z.to_nat (zlen cap - 1)) with (pred (length cap)) by (unfold zlen; lia).
  rewrite Hlast. cbn [bind].
  assert (Hcont' : forall k e, nth_error (ops t) k = Some e -> (S k < length (ops t))%nat -> contD (s_h t) e).
  { rewrite Ho. exact (chd_cont _ _ _ HC). }
  destruct (OBK fuel parent pn blank t HSD Hpn (eoD_is_dl_false _ _ _ Hpn Hpdl) (HLP pn Hpn)
                (eoD_attached space_table src t HL) Hcont' HB Hfuel)
    as (res & t1 & E1 & SD1 & R1 & KK1 & Cf & Ct & Ctl & Hcase).
  pose proof (proj1 SD1) as S1.
  rewrite E1. cbn [bind]. cbv beta iota.
  (* both outcomes in one form *)
  assert (Hcommon : (res = paragraphContinuation /\ LineInvD t1) \/
    ((res =? paragraphContinuation) = false /\ exists base' new, ops t1 = base' ++ new /\
      (base' = cap \/ (new <> [] /\ exists x, cap = base' ++ [(x, PParagraph)])) /\
      OFrameD (s_h t) (s_h t1) parent /\ ChainD (s_h t1) parent new /\
      (forall e, In e new -> (length (s_h t) <= fst e)%nat \/ (snd e = PHTML /\ dlk (s_h t) (fst e))) /\
      (bk pn = BList -> exists it pn', nth_error new 0%nat = Some (it, PListItem) /\
                                       nth_error (s_h t1) parent = Some pn' /\ last_id (bch pn') = Some it) /\
      (forall n p nn, nth_error new (pred (length new)) = Some (n, p) -> nth_error (s_h t1) n = Some nn ->
         (p = PFenced -> exists ch ind fl, c_fence (s_c t1) = Some (ch, ind, fl, n)) /\
         (p = PSetext -> c_tmp_para (s_c t1) <> None /\ blines nn <> [] /\
                         exists x, last_opened (s_c t) = Some (x, PParagraph))))).
  { destruct Hcase as [(Hres & Ho1 & Hf1 & Ht1 & Hpc & Hlines & Kpn')|(Hres & base' & new & Ho1 & Hnew & Hbase & HOF & HCh & Hfresh & Hbl & Hlastnew)].
    - destruct Hres as [->| ->].
      + left. split; [reflexivity|]. apply (eoD_inv_pc space_table src t t1 HL S1 (proj2 SD1) KK1 Hpc Ho1 Hf1 Ht1).
        intros n nn nn' Hlo Hn Hn'. apply (Hlines n nn nn'); auto. unfold last_para. rewrite Hlo. discriminate.
      + right. split; [reflexivity|]. exists cap, []. rewrite app_nil_r. csplit.
        * congruence.
        * left. reflexivity.
        * apply eoD_pc_oframe; [assumption|]. intros x n n' Kn Hn Hn'. apply (Hlines x n n'); auto.
          eapply eoD_not_last_para; eassumption.
        * apply eoD_chain_nil.
        * intros e [].
        * intros K. contradiction.
        * intros n p nn C. destruct (pred (length (@nil (nat * bparser)))); discriminate.
    - right. subst res. split; [reflexivity|]. exists base', new. rewrite Ho in Hbase. csplit; auto.
      + destruct Hbase as [->|Hx]; [left; reflexivity|right; auto].
      + intros n p nn Hn Hnn. destruct (Hlastnew n p nn Hn Hnn) as (A & B & C & D). auto. }
  destruct Hcommon as [[-> HL1]|(Eres & base' & new & Ho1 & Hbase & HOF & HCh & Hfresh & Hbl & Hlastnew)].
  { change (paragraphContinuation =? paragraphContinuation) with true. cbn [negb].
    exists t1. split; [reflexivity|]. split; [exact HL1|exact R1]. }
  rewrite Eres. cbn [negb].
  (* which range is closed *)
  match goal with |- exists u, ?X = _ /\ _ =>
    assert (Hmid : 0 <= j <= zlen base' /\ firstn jn base' = firstn jn cap /\
              (forall e, In e (skipn jn base') -> In e (skipn jn cap)) /\
              match rev (skipn jn base') with
              | [] => True
              | e :: t => ReadyLeaf t1 (fst e) (snd e) /\ Forall (fun x => nlp (snd x)) t
              end /\
              X = (s <- CBD t1 (zlen base' - 1) j ;; Ok (inr s, stats)))
  end.
  { assert (Hlt1 : (pred (length cap) < c_len (s_c t1))%nat).
    { rewrite <- (eo_ops_len t1 S1), Ho1, app_length.
      destruct Hbase as [->|(Hnew & x & ->)]; [lia|]. rewrite app_length. cbn [length].
      destruct new; [contradiction|cbn [length]; lia]. }
    rewrite <- (opened_nth _ _ Hlt1). fold (ops t1). rewrite Ho1.
    destruct Hbase as [->|(Hnew & x & Ecap)].
    - rewrite nth_error_app1 by lia. rewrite Hlast. cbn [bind]. rewrite Nat.eqb_refl. csplit.
      + lia.
      + lia.
      + reflexivity.
      + auto.
      + apply (eoD_closed_shape space_table src cap jn t t1 HL Ho Hjn Cf Ct).
        intros n nn nn1 Hlo Hn Hn1. destruct HOF as [_ HOF]. destruct (HOF n nn Hn) as [n' (A1 & A2 & A3 & A4)].
        rewrite Hn1 in A1. injection A1 as <-. apply A3.
        pose proof (last_opened_in _ _ (ci_len _ _ (si_c _ _ _ HS)) Hlo) as Hin.
        destruct (ci_arr _ _ (si_c _ _ _ HS) _ Hin) as [nx [Hx Kx]]. cbn [fst snd kind_of_parser] in Hx, Kx.
        rewrite Hn in Hx. injection Hx as <-. rewrite Kx. discriminate.
      + reflexivity.
    - assert (Elen : length cap = S (length base')) by (rewrite Ecap, app_length; cbn [length]; lia).
      rewrite Elen. cbn [pred]. rewrite nth_error_app2 by lia. rewrite Nat.sub_diag.
      destruct new as [|[n0 p0] new0] eqn:Enew; [contradiction|]. cbn [nth_error bind]. rewrite <- Enew in *.
      assert (Elast : (ln, lp) = (x, PParagraph)).
      { rewrite Elen in Hlast. rewrite Ecap in Hlast. cbn [pred] in Hlast. rewrite nth_error_app2 in Hlast by lia.
        rewrite Nat.sub_diag in Hlast. cbn in Hlast. congruence. }
      injection Elast as Eln Elp.
      assert (Hx : exists nx, nth_error (s_h t) ln = Some nx /\ bk nx = BParagraph).
      { rewrite <- Ho in Hlast. destruct (eo_ops_node t _ ln lp HS Hlast) as [nx [Hnx Knx]]. exists nx.
        split; [exact Hnx|]. rewrite Knx, Elp. reflexivity. }
      destruct Hx as [nx [Hnx Knx]].
      assert (Hne0 : n0 <> ln).
      { intros C. destruct (Hfresh (n0, p0) ltac:(rewrite Enew; left; reflexivity)) as [Hf0|[_ Hf0]]; cbn [fst] in Hf0.
        - apply nth_error_lt in Hnx. lia.
        - rewrite C in Hf0. pose proof (eoD_dlk_kind _ _ _ Hf0 Hnx). congruence. }
      destruct (Nat.eqb_spec n0 ln) as [C|_]; [contradiction|].
      assert (Hjb : (jn <= length base')%nat) by lia.
      csplit.
      + lia.
      + unfold zlen. lia.
      + rewrite Ecap, firstn_app. replace (jn - length base')%nat with O by lia. cbn [firstn]. symmetry. apply app_nil_r.
      + intros e He. rewrite Ecap, skipn_app. apply in_or_app. left. exact He.
      + apply eoD_all_nlp_ready. apply Forall_forall. intros e He. apply in_rev in He.
        apply (eo_skipn_nth (fun x => x) src) in He. destruct He as [m [_ Hm]]. pose proof (nth_error_lt _ _ _ Hm) as Hml.
        apply (contD_nlp (s_h t)).
        apply (chd_cont _ _ _ HC m e); [rewrite Ecap, nth_error_app1 by lia; exact Hm|lia].
      + replace (zlen cap - 1 - 1) with (zlen base' - 1) by (unfold zlen; lia). reflexivity. }
  destruct Hmid as (Hjb & Efirst & Hsub & Hready & ->).
  destruct (eoD_close_suffix t1 base' new j SD1 Ho1 Hjb Hready) as [u (E & SU & RU & KU & OU & FU & TU & CU)].
  fold jn in OU, FU, TU, CU.
  rewrite E. cbn [bind]. exists u. split; [reflexivity|]. split; [|rewrite RU; exact R1].
  apply (eoD_finish space_table src cap jn t t1 u new (rev (skipn jn base')) HL Ho ltac:(lia) Hcont).
  - intros k L p Ej Hc. assert (Epl : parent = L) by (unfold parent; rewrite Ej; apply (eo_par_at_S _ _ _ _ Hc)).
    rewrite <- Epl. exact Hpdl.
  - exact S1.
  - exact KK1.
  - exact HOF.
  - exact HCh.
  - intros e He. split; [apply Hfresh, He|]. apply opened_in. fold (ops t1). rewrite Ho1. apply in_or_app. right. exact He.
  - intros k L Ej Hc. assert (Epl : parent = L) by (unfold parent; rewrite Ej; apply (eo_par_at_S _ _ _ _ Hc)).
    destruct (Hbl ltac:(rewrite (Kpn k L PList Ej Hc); reflexivity)) as [it [pn' Hit]]. exists it, pn'.
    rewrite <- Epl. exact Hit.
  - exact Ctl.
  - exact Hlastnew.
  - exact SU.
  - exact KU.
  - rewrite OU, Efirst. reflexivity.
  - intros e He. apply Hsub. apply in_rev. exact He.
  - exact FU.
  - exact TU.
  - exact CU.
Qed.

(* ---------- the last block continues and may have children: openBlocks below it ---------- *)
Lemma eoD_kids_path cap t node bp fuel blank :
  LineMidD cap t -> nth_error cap (pred (length cap)) = Some (node, bp) -> (0 < length cap)%nat ->
  contD (s_h t) (node, bp) -> bp <> PList -> ~ dlk (s_h t) node ->
  (Z.to_nat (2 * (s_stop (r_pos (s_r t)) - s_start (r_pos (s_r t))) + 8) <= fuel)%nat ->
  exists o, OBD fuel node blank t = Ok o /\ LineInvD (snd o) /\ r_le (s_r t) (s_r (snd o)).
Proof.
  intros (HL & Ho & HB) Hlast Hlen HcD Hnl Hndl Hfuel. pose proof (lid_si _ _ _ HL) as HS.
  pose proof (lid_sd _ _ _ HL) as HSD.
  pose proof (lid_chain _ _ _ HL) as HC. rewrite Ho in HC.
  set (jn := length cap).
  assert (Hcont : forall k e, (k < jn)%nat -> nth_error cap k = Some e -> contD (s_h t) e).
  { intros k e Hk He. destruct (Nat.eq_dec (S k) jn) as [Ek|Ek].
    - assert (k = pred (length cap)) by (unfold jn in Ek; lia). subst k. rewrite Hlast in He. injection He as <-.
      exact HcD.
    - apply (chd_cont _ _ _ HC k e He). unfold jn in *. lia. }
  assert (Epar : par_at 0%nat cap jn = node).
  { unfold jn. destruct (length cap) as [|m] eqn:E; [lia|]. cbn [pred] in Hlast. apply (eo_par_at_S _ _ _ _ Hlast). }
  destruct (eo_ops_node t _ node bp HS ltac:(rewrite Ho; exact Hlast)) as [pn [Hpn Kpn]].
  assert (Knl : bk pn <> BList) by (intros K; rewrite Kpn in K; apply eoD_kop_list in K; contradiction).
  assert (Hcont' : forall k e, nth_error (ops t) k = Some e -> (S k < length (ops t))%nat -> contD (s_h t) e).
  { rewrite Ho. exact (chd_cont _ _ _ HC). }
  destruct (OBK fuel node pn blank t HSD Hpn (eoD_is_dl_false _ _ _ Hpn Hndl) (fun K => False_ind _ (Knl K))
                (eoD_attached space_table src t HL) Hcont' HB Hfuel)
    as (res & t1 & E1 & SD1 & R1 & KK1 & Cf & Ct & Ctl & Hcase).
  pose proof (proj1 SD1) as S1.
  exists (res, t1). split; [exact E1|]. cbn [snd]. split; [|exact R1].
  destruct Hcase as [(Hres & Ho1 & Hf1 & Ht1 & Hpc & Hlines & _)|(Hres & base' & new & Ho1 & Hnew & Hbase & HOF & HCh & Hfresh & Hbl & Hlastnew)].
  - apply (eoD_inv_pc space_table src t t1 HL S1 (proj2 SD1) KK1 Hpc Ho1 Hf1 Ht1).
    intros n nn nn' Hlo Hn Hn'. apply (Hlines n nn nn'); auto. unfold last_para. rewrite Hlo. discriminate.
  - assert (Eb : base' = cap).
    { destruct Hbase as [E|[x E]]; [congruence|]. rewrite Ho in E. exfalso. rewrite E in Hlast.
      rewrite app_length in Hlast. cbn [length] in Hlast. rewrite nth_error_app2 in Hlast by lia.
      replace (pred (length base' + 1) - length base')%nat with O in Hlast by lia. cbn in Hlast.
      injection Hlast as _ <-. exact (contD_not_para _ _ HcD eq_refl). }
    subst base'.
    apply (eoD_finish space_table src cap jn t t1 t1 new [] HL Ho (le_n _) Hcont).
    + intros k L p Ej Hc. assert (k = pred (length cap)) by (unfold jn in Ej; lia). subst k.
      rewrite Hlast in Hc. injection Hc as <- _. exact Hndl.
    + exact S1.
    + exact KK1.
    + rewrite Epar. exact HOF.
    + rewrite Epar. exact HCh.
    + intros e He. split; [apply Hfresh, He|]. apply opened_in. fold (ops t1). rewrite Ho1. apply in_or_app. right. exact He.
    + intros k L Ej Hc. exfalso. assert (k = pred (length cap)) by (unfold jn in Ej; lia). subst k.
      rewrite Hlast in Hc. injection Hc as _ Ebp. exact (Hnl Ebp).
    + exact Ctl.
    + intros n p nn Hn Hnn. destruct (Hlastnew n p nn Hn Hnn) as (A & B & C & D). auto.
    + exact SD1.
    + apply kkeep_refl.
    + rewrite Ho1. unfold jn. rewrite firstn_all. reflexivity.
    + intros e [].
    + intros; reflexivity.
    + intros; reflexivity.
    + apply CFrame_refl.
Qed.

(* ---------- end of input: everything is closed ---------- *)
Lemma eoD_eof_close cap s1 : LineMidD cap s1 -> (0 < length cap)%nat ->
  exists s', CBD s1 (zlen cap - 1) 0 = Ok s' /\ SD (advance_line_s s').
Proof.
  intros (HL & Ho & _) Hlen. pose proof (lid_si _ _ _ HL) as HS.
  destruct (eoD_close_suffix s1 cap [] 0 (lid_sd _ _ _ HL) ltac:(rewrite app_nil_r; exact Ho) ltac:(unfold zlen; lia))
    as [u (E & [SU TU] & _)].
  { change (Z.to_nat 0) with O. apply (eoD_closed_shape space_table src cap 0%nat s1 s1 HL Ho Hlen); auto. intros; congruence. }
  exists u. split; [exact E|]. unfold advance_line_s.
  destruct (ri_advance_line (s_r u) (si_r _ _ _ SU)) as (A & B & _). split; [apply SI_set_r; assumption|exact TU].
Qed.

(* ---------- Continue of the parsers other than list, list item and paragraph ---------- *)
Lemma eoD_continue cap i s1 node bp : LineMidD cap s1 -> sin s1 -> nth_error cap i = Some (node, bp) ->
  bp <> PParagraph -> bp <> PList -> bp <> PListItem ->
  exists s2 cont, PC bp s1 node = Ok (s2, cont, is_container bp) /\ (cont = true -> bp <> PSetext) /\
    exists s2', cont_post space_table src bp node s1 s2' cont (is_container bp) /\ s_h s2 = s_h s2' /\
                advance_line_s s2 = advance_line_s s2' /\ (cont = false \/ is_container bp = true -> s2 = s2').
Proof.
  intros (HL & Ho & HB) Hin Hi N1 N2 N3. pose proof (lid_si _ _ _ HL) as HS.
  destruct (eo_ops_node s1 i node bp HS ltac:(rewrite Ho; exact Hi)) as [nn [Hn Kn]].
  assert (Hplain : is_container bp = false -> PC bp s1 node = Ok (s1, false, false) ->
            exists s2 cont, PC bp s1 node = Ok (s2, cont, is_container bp) /\ (cont = true -> bp <> PSetext) /\
              exists s2', cont_post space_table src bp node s1 s2' cont (is_container bp) /\ s_h s2 = s_h s2' /\
                advance_line_s s2 = advance_line_s s2' /\ (cont = false \/ is_container bp = true -> s2 = s2')).
  { intros Hc E. exists s1, false. rewrite Hc. split; [exact E|]. split; [discriminate|]. exists s1. csplit; auto.
    apply cont_post_scache; [exact Hc|exact HS|apply scache_refl]. }
  destruct bp; try contradiction; cbn [p_continue kind_of_parser is_container] in *.
  - apply Hplain; reflexivity.
  - apply Hplain; reflexivity.
  - destruct (LF2 code_continue_ok s1 node nn HS Hin Hn Kn) as [s2 [cont [E P]]]. rewrite E. cbn [bind fst snd].
    exists s2, cont. split; [reflexivity|]. split; [discriminate|]. exists s2. auto.
  - apply Hplain; reflexivity.
  - assert (Hlast : last_opened (s_c s1) = Some (node, PFenced)).
    { rewrite (eo_last s1 HS), Ho. pose proof (nth_error_lt _ _ _ Hi) as Hil.
      destruct (Nat.eq_dec i (pred (length cap))) as [<-|Hne]; [exact Hi|].
      pose proof (lid_chain _ _ _ HL) as HC. rewrite Ho in HC.
      pose proof (contD_nlp _ _ (chd_cont _ _ _ HC i _ Hi ltac:(lia))) as [C _]. cbn [snd] in C. contradiction. }
    destruct (lid_last _ _ _ HL node PFenced nn Hlast Hn) as [Hf _].
    destruct (LF2 fenced_continue_ok_fix s1 node nn HS Hin Hn Kn (Hf eq_refl)) as [s2 [cont [E [s2' (P & Eh & _ & A & Q)]]]].
    rewrite E. cbn [bind fst snd]. exists s2, cont. split; [reflexivity|]. split; [discriminate|]. exists s2'.
    csplit; auto. intros [C|C]; [exact (Q C)|discriminate].
  - destruct (CT bq_continue_ok s1 node HS Hin) as [s2 [cont [E P]]]. rewrite E. cbn [bind fst snd].
    exists s2, cont. split; [reflexivity|]. split; [discriminate|]. exists s2. auto.
  - destruct (LF2 html_continue_ok s1 node nn HS Hin Hn Kn) as [s2 [cont [E P]]]. rewrite E. cbn [bind fst snd].
    exists s2, cont. split; [reflexivity|]. split; [discriminate|]. exists s2. auto.
Qed.

(* ---------- the loop ---------- *)
Notation ItemReady := (ItemReady space_table src).

Definition EPostD (cap : list (nat * bparser)) (i : Z) (s : st) (r : st + st) : Prop :=
  match r with
  | inl s' => SD s'
  | inr s' => exists s'', LineInvD s'' /\ r_le (s_r s) (s_r s'') /\ advance_line_s s' = advance_line_s s'' /\
                          (i <= zlen cap - 1 -> r_in_range (s_r s) = true)
  end.

(* what the loop needs after the Continue call of the block (node, bp) at position ii, in the three
   cases: the block does not continue; it continues and may have children; it continues and is a leaf *)
Definition TailPre (cap : list (nat * bparser)) (node : nat) (bp : bparser) (s1 s2 : st) (cont kids : bool) : Prop :=
  (cont = false -> LineMidD cap s2 /\ same_line (s_r s1) (s_r s2) /\ kkeep (s_h s1) (s_h s2)) /\
  (cont = true -> kids = true -> LineMidD cap s2 /\ same_line (s_r s1) (s_r s2) /\ kkeep (s_h s1) (s_h s2) /\
                                 contD (s_h s1) (node, bp)) /\
  (cont = true -> kids = false -> ~ contD (s_h s1) (node, bp) /\
     exists s2', LineInvD s2' /\ r_le (s_r s1) (s_r s2') /\ advance_line_s s2 = advance_line_s s2').

(* the Continue function of a default parser on a node that is no DefinitionList / Description *)
Lemma eoD_tailpre_cont cap ii node bp nn s1 s2 s2' cont :
  LineMidD cap s1 -> nth_error cap ii = Some (node, bp) -> nth_error (s_h s1) node = Some nn ->
  is_dl nn = false -> is_dd nn = false ->
  cont_post space_table src bp node s1 s2' cont (is_container bp) ->
  TC (s_h s2') -> kkeep (s_h s1) (s_h s2') ->
  advance_line_s s2 = advance_line_s s2' -> (cont = false \/ is_container bp = true -> s2 = s2') ->
  (cont = true -> bp <> PSetext) ->
  TailPre cap node bp s1 s2 cont (is_container bp).
Proof.
  intros HM1 Hnode Hn Edl Edd P T' KK Hadv Heq Hnsx. pose proof HM1 as (HL1 & Ho1 & HB1).
  pose proof (lid_si _ _ _ HL1) as S1. split; [|split].
  - intros ->. pose proof (Heq (or_introl eq_refl)) as <-.
    destruct (eoD_mid_cont space_table src cap bp node s1 s2 false (is_container bp) HM1 P T' KK (or_intror eq_refl)) as [HM2 Hsl].
    auto.
  - intros -> Ec. pose proof (Heq (or_intror Ec)) as <-.
    destruct (eoD_mid_cont space_table src cap bp node s1 s2 true (is_container bp) HM1 P T' KK (or_introl Ec)) as [HM2 Hsl].
    csplit; auto. left. exact Ec.
  - intros -> Ec.
    assert (HnD : ~ contD (s_h s1) (node, bp)).
    { intros [C|[_ [C|C]]]; cbn [fst snd] in C.
      - congruence.
      - rewrite (dlk_node _ _ _ Hn C) in Edl. discriminate.
      - rewrite (ddk_node _ _ _ Hn C) in Edd. discriminate. }
    split; [exact HnD|]. exists s2'.
    destruct P as (P1 & P2 & P3 & P4 & P5 & P6 & P7 & P8 & P9).
    destruct (eo_ops_cframe s1 s2' P3) as [Eo El]. csplit; auto.
    apply (eoD_inv_pc space_table src s1 s2' HL1 P1 T' KK (P9 Ec eq_refl) Eo P4 P5).
    intros n x x' Hlo. exfalso. rewrite (eo_last s1 S1), Ho1 in Hlo.
    pose proof (lid_chain _ _ _ HL1) as HC1. rewrite Ho1 in HC1. pose proof (nth_error_lt _ _ _ Hnode) as Hil.
    destruct (Nat.eq_dec ii (pred (length cap))) as [Ei|Ei].
    + rewrite <- Ei, Hnode in Hlo. injection Hlo as _ Ebp. exact (Hnsx eq_refl Ebp).
    + exact (HnD (chd_cont _ _ _ HC1 ii _ Hnode ltac:(lia))).
Qed.

Lemma eoD_gen cap : forall f i stats s,
  LineMidD cap s -> 0 <= i <= zlen cap -> (Z.to_nat (zlen cap - i) < f)%nat ->
  (forall it, nth_error cap (Z.to_nat i) = Some (it, PListItem) -> ItemReady s it) ->
  exists r stats', EOD f cap 0%nat i (zlen cap - 1) stats s = Ok (r, stats') /\ EPostD cap i s r.
Proof.
  induction f as [|f IH]; intros i stats s HM Hi Hf Hitem; [lia|]. rewrite eoD_unfold.
  pose proof HM as (HL & Ho & HB). pose proof (lid_si _ _ _ HL) as HS.
  destruct (Z.ltb_spec (zlen cap - 1) i) as [Hgt|Hle].
  { exists (inr s), stats. split; [reflexivity|]. exists s. csplit; auto; [apply r_le_refl|lia]. }
  set (ii := Z.to_nat i) in *. assert (Hii : (ii < length cap)%nat) by (unfold zlen in Hle; lia).
  destruct (nth_error_ex_lt cap ii Hii) as [[node bp] Hnode]. rewrite Hnode.
  destruct (peek_line_s_ok space_table src s HS) as [s1 (E1 & S1 & C1 & _)]. rewrite E1. cbn [bind]. cbv beta iota.
  pose proof (eoD_mid_scache space_table src cap s s1 HM S1 C1) as HM1. pose proof HM1 as (HL1 & Ho1 & HB1).
  pose proof (lid_chain _ _ _ HL1) as HC1. rewrite Ho1 in HC1.
  destruct (r_in_range (s_r s)) eqn:Hin.
  2:{ destruct (eoD_eof_close cap s1 HM1 ltac:(lia)) as [s' [E P]]. rewrite E. cbn [bind].
      exists (inl (advance_line_s s')), stats. split; [reflexivity|exact P]. }
  assert (Hin1 : sin s1) by (eapply scache_sin; [exact C1|exact Hin]).
  cbv zeta.
  set (line := sview s). set (stats1 := (rline s1, i, Reader.is_blank space_table line) :: stats).
  set (blank := is_blank_line (rline s1 - 1) i stats1). set (fuel := (2 * length line + 8)%nat).
  destruct (eo_ops_node s1 ii node bp S1 ltac:(rewrite Ho1; exact Hnode)) as [nn [Hn Kn]].
  unfold is_paragraph. rewrite (hget_some _ _ _ Hn). cbn [bind].
  (* openBlocks has fuel for the rest of the line *)
  assert (Hfu : forall t, same_line (s_r s1) (s_r t) ->
            (Z.to_nat (2 * (s_stop (r_pos (s_r t)) - s_start (r_pos (s_r t))) + 8) <= fuel)%nat).
  { intros t (_ & A & B & _). unfold fuel, line. rewrite <- (scache_view _ _ C1).
    pose proof (view_zlen _ (proj1 (si_r _ _ _ S1))) as Hv. pose proof (ri_bounds _ (si_r _ _ _ S1)) as Hb.
    unfold sview. unfold zlen in Hv. lia. }
  assert (Hle_s1 : r_le (s_r s) (s_r s1)) by (destruct C1 as (_ & _ & C1); apply same_pos_le, C1).
  (* no list: the parent of the block at i is no list unless the block is a list item *)
  assert (HnoLP : forall t, LineMidD cap t -> bp <> PListItem ->
            forall pn, nth_error (s_h t) (par_at 0%nat cap ii) = Some pn -> bk pn = BList ->
                       LP space_table t (par_at 0%nat cap ii)).
  { intros t (HLt & Hot & _) Nb pn Hpn Kpn. exfalso. apply Nb. rewrite <- Hot in Hpn.
    apply (eoD_parent_list space_table src t ii node bp pn HLt); [rewrite Hot; exact Hnode|exact Hpn|exact Kpn]. }
  (* the next entry is a list item only behind a list *)
  assert (HnoItem : bp <> PList -> forall it, nth_error cap (S ii) <> Some (it, PListItem)).
  { intros Nb it' Hit'. rewrite <- Ho1 in Hit'. destruct (eoD_item_prev space_table src s1 ii it' HL1 Hit') as [L HL'].
    rewrite Ho1, Hnode in HL'. injection HL' as _ HL'. contradiction. }
  (* what follows the Continue call *)
  assert (Htail : forall s2 cont kids,
    TailPre cap node bp s1 s2 cont kids ->
    (cont = false -> is_dd nn = false) ->
    (cont = true -> forall it, nth_error cap (S ii) = Some (it, PListItem) -> ItemReady s2 it) ->
    (cont = false -> forall pn, nth_error (s_h s2) (par_at 0%nat cap ii) = Some pn -> bk pn = BList ->
                     LP space_table s2 (par_at 0%nat cap ii)) ->
    exists r stats',
      (if cont then
         if kids && (i =? zlen cap - 1)
         then o <- OBD fuel node blank s2 ;; Ok (inr (snd o), stats1)
         else EOD f cap 0%nat (i + 1) (zlen cap - 1) stats1 s2
       else open_pathD cap 0%nat i (zlen cap - 1) stats1 fuel blank s2) = Ok (r, stats') /\ EPostD cap i s r).
  { intros s2 cont kids (TP1 & TP2 & TP3) Hndd Hnext HLP. destruct cont.
    - destruct kids.
      + destruct (TP2 eq_refl eq_refl) as (HM2 & Hsl & KK & HcD).
        assert (Hle2 : r_le (s_r s) (s_r s2)).
        { eapply r_le_trans; [exact Hle_s1|]. apply same_line_le, Hsl. }
        cbn [andb]. destruct (Z.eqb_spec i (zlen cap - 1)) as [Ei|Ei].
        * assert (Elast : ii = pred (length cap)) by (unfold ii, zlen in *; lia).
          assert (Hbp : bp <> PList).
          { intros ->. destruct (chd_list _ _ _ HC1 ii node Hnode) as [it [Ln (A & _)]]. apply nth_error_lt in A. lia. }
          assert (Hndl : ~ dlk (s_h s2) node).
          { intros D. apply (dlk_back _ _ _ KK (nth_error_lt _ _ _ Hn)) in D.
            pose proof (eoD_dl_not_last space_table src s1 ii node bp HL1 ltac:(rewrite Ho1; exact Hnode) D) as C.
            rewrite Ho1 in C. lia. }
          destruct (eoD_kids_path cap s2 node bp fuel blank HM2 ltac:(rewrite <- Elast; exact Hnode) ltac:(lia)
                      (contD_keep _ _ _ KK HcD) Hbp Hndl (Hfu s2 Hsl)) as [o (E & LO & RO)].
          rewrite E. cbn [bind]. exists (inr (snd o)), stats1. split; [reflexivity|]. exists (snd o). csplit; auto.
          eapply r_le_trans; eassumption.
        * destruct (IH (i + 1) stats1 s2 HM2 ltac:(lia) ltac:(lia)) as [r [stats' [E P']]].
          { replace (Z.to_nat (i + 1)) with (S ii) by (unfold ii; lia). apply Hnext. reflexivity. }
          exists r, stats'. split; [exact E|]. destruct r as [s'|s']; [exact P'|].
          destruct P' as [s'' (A & B & C & D)]. exists s''. csplit; auto. eapply r_le_trans; eassumption.
      + cbn [andb]. destruct (TP3 eq_refl eq_refl) as (HnD & s2' & L2 & R2 & Hadv).
        assert (Elast : i = zlen cap - 1).
        { destruct (Z.eq_dec i (zlen cap - 1)) as [E|E]; [exact E|]. exfalso.
          exact (HnD (chd_cont _ _ _ HC1 ii _ Hnode ltac:(unfold ii, zlen in *; lia))). }
        destruct f as [|f']; [lia|]. rewrite eoD_unfold.
        destruct (Z.ltb_spec (zlen cap - 1) (i + 1)) as [_|C]; [|lia].
        exists (inr s2), stats1. split; [reflexivity|]. exists s2'. csplit; auto.
        eapply r_le_trans; eassumption.
    - destruct (TP1 eq_refl) as (HM2 & Hsl & KK). pose proof HM2 as (HL2 & Ho2 & _).
      assert (Hpdl : ~ dlk (s_h s2) (par_at 0%nat cap ii)).
      { rewrite <- Ho2. apply (eoD_par_not_dl space_table src s2 ii node bp HL2); [rewrite Ho2; exact Hnode|].
        intros D. apply (ddk_back _ _ _ KK (nth_error_lt _ _ _ Hn)) in D. rewrite (ddk_node _ _ _ Hn D) in Hndd.
        specialize (Hndd eq_refl). discriminate. }
      destruct (eoD_open_path cap i s2 stats1 fuel blank HM2 ltac:(lia) (HLP eq_refl) Hpdl (Hfu s2 Hsl)) as [u (E & LU & RU)].
      exists (inr u), stats1. split; [exact E|]. exists u. csplit; auto.
      eapply r_le_trans; [exact Hle_s1|]. eapply r_le_trans; [apply same_line_le, Hsl|exact RU]. }
  (* the Continue function of a default parser: TailPre from its postcondition *)
  assert (Hcore : is_dl nn = false -> is_dd nn = false -> forall s2 s2' cont,
    PC bp s1 node = Ok (s2, cont, is_container bp) ->
    cont_post space_table src bp node s1 s2' cont (is_container bp) -> s_h s2 = s_h s2' ->
    advance_line_s s2 = advance_line_s s2' -> (cont = false \/ is_container bp = true -> s2 = s2') ->
    (cont = true -> bp <> PSetext) ->
    TailPre cap node bp s1 s2 cont (is_container bp)).
  { intros Edl Edd s2 s2' cont Ep P Eh Hadv Heq Hnsx.
    destruct (PCTC bp s1 node s2 cont (is_container bp) (lid_tc _ _ _ HL1) Ep) as [T2 K2]. rewrite Eh in T2, K2.
    exact (eoD_tailpre_cont cap ii node bp nn s1 s2 s2' cont HM1 Hnode Hn Edl Edd P T2 K2 Hadv Heq Hnsx). }
  destruct (is_dl nn) eqn:Edl.
  { (* a DefinitionList *)
    assert (Ebp : bp = PHTML) by (apply eoD_kop_html; rewrite <- Kn; apply is_dl_kind, Edl). subst bp.
    rewrite (is_dl_kind _ Edl). cbn [bkind_eqb negb].
    rewrite (p_continueD_dl space_table re_t1c PHTML s1 node nn Hn Edl).
    destruct (LF2 deflist_continue_ok s1 node nn S1 Hin1 Hn) as [s2 [c (E & S2 & Eh & Ec & Hsl)]].
    rewrite E. cbn [bind fst snd].
    pose proof (eoD_mid_same space_table src cap s1 s2 HM1 S2 Eh Ec (same_line_le _ _ Hsl)) as HM2.
    apply (Htail s2 c true).
    - split; [|split].
      + intros _. csplit; auto. apply kkeep_eq, Eh.
      + intros _ _. csplit; auto; [apply kkeep_eq, Eh|]. right. split; [reflexivity|]. left. exists nn. auto.
      + intros _ C. discriminate.
    - intros _. apply is_dl_not_dd, Edl.
    - intros _ it' Hit'. exfalso. exact (HnoItem ltac:(discriminate) it' Hit').
    - intros _. apply (HnoLP s2 HM2). discriminate. }
  destruct (is_dd nn) eqn:Edd.
  { (* a DefinitionDescription *)
    assert (Ebp : bp = PHTML) by (apply eoD_kop_html; rewrite <- Kn; apply is_dd_kind, Edd). subst bp.
    rewrite (is_dd_kind _ Edd). cbn [bkind_eqb negb].
    rewrite (p_continueD_dd space_table re_t1c PHTML s1 node nn Hn Edl Edd). cbn [bind].
    apply (Htail s1 true true).
    - split; [|split].
      + intros C. discriminate.
      + intros _ _. csplit; auto; [apply same_line_refl|apply kkeep_refl|]. right. split; [reflexivity|]. right. exists nn. auto.
      + intros _ C. discriminate.
    - intros C. discriminate.
    - intros _ it' Hit'. exfalso. exact (HnoItem ltac:(discriminate) it' Hit').
    - intros C. discriminate. }
  rewrite (p_continueD_core space_table re_t1c bp s1 node nn Hn Edl Edd).
  specialize (Hcore eq_refl eq_refl).
  destruct (eo_bp_cases bp) as [Ebp|[Ebp|[Ebp|(N1 & N2 & N3)]]].
  - (* paragraph *)
    subst bp. rewrite Kn. cbn [kind_of_parser bkind_eqb negb bind].
    apply (Htail s1 false false).
    + apply (eoD_tailpre_cont cap ii node PParagraph nn s1 s1 s1 false HM1 Hnode Hn Edl Edd).
      * apply cont_post_scache; [reflexivity|exact S1|apply scache_refl].
      * apply HL1.
      * apply kkeep_refl.
      * reflexivity.
      * auto.
      * discriminate.
    + intros _. reflexivity.
    + discriminate.
    + intros _. apply (HnoLP s1 HM1). discriminate.
  - (* list *)
    subst bp. rewrite Kn. cbn [kind_of_parser bkind_eqb negb bind].
    destruct (chd_list _ _ _ HC1 ii node Hnode) as [it [Ln (Hit & HLn & Hlastc)]].
    rewrite Hn in HLn. injection HLn as <-.
    destruct (eo_ops_node s1 (S ii) it PListItem S1 ltac:(rewrite Ho1; exact Hit)) as [itn [Hitn Kitn]].
    destruct (chd_par _ _ _ HC1 (S ii) it PListItem Hit) as [itn' [Hitn' Hpar]]. rewrite Hitn in Hitn'.
    injection Hitn' as <-. rewrite (eo_par_at_S _ _ _ _ Hnode) in Hpar.
    destruct (CT list_pair_ok s1 node it nn itn S1 Hin1 Hn Kn Hlastc Hitn Kitn Hpar) as [s2 [c1 (E & P & Hnext)]].
    assert (Ep : PC PList s1 node = Ok (s2, c1, is_container PList)).
    { cbn [p_continue]. rewrite E. reflexivity. }
    rewrite Ep. cbn [bind is_container].
    pose proof (Hcore s2 s2 c1 Ep P eq_refl eq_refl (fun _ => eq_refl) ltac:(discriminate)) as TP.
    apply (Htail s2 c1 true TP).
    + intros _. reflexivity.
    + intros Hc1 it' Hit'. rewrite Hit in Hit'. injection Hit' as <-. exact (Hnext Hc1).
    + intros Hc1. destruct TP as (TP1 & _). destruct (TP1 Hc1) as (HM2 & _). apply (HnoLP s2 HM2). discriminate.
  - (* list item *)
    subst bp. rewrite Kn. cbn [kind_of_parser bkind_eqb negb bind].
    destruct (Hitem node Hnode s1 S1 C1) as [s3 [c3 (E & P & Hf3)]].
    assert (Ep : PC PListItem s1 node = Ok (s3, c3, is_container PListItem)).
    { cbn [p_continue]. rewrite E. reflexivity. }
    rewrite Ep. cbn [bind is_container].
    pose proof (Hcore s3 s3 c3 Ep P eq_refl eq_refl (fun _ => eq_refl) ltac:(discriminate)) as TP.
    apply (Htail s3 c3 true TP).
    + intros _. reflexivity.
    + intros _ it' Hit'. exfalso. exact (HnoItem ltac:(discriminate) it' Hit').
    + intros Hc3 pn Hpn Kpn. destruct (Hf3 Hc3) as (A & B & C). unfold LP. csplit; auto.
      apply (eo_sin_item space_table norm src); [apply P|exact A].
  - (* the others *)
    assert (Hnp : bkind_eqb (bk nn) BParagraph = false) by (rewrite Kn; destruct bp; try reflexivity; contradiction).
    rewrite Hnp. cbn [negb].
    destruct (eoD_continue cap ii s1 node bp HM1 Hin1 Hnode N1 N2 N3) as [s2 [cont (E & Hnsx & s2' & P & Eh & Hadv & Heq)]].
    rewrite E. cbn [bind].
    pose proof (Hcore s2 s2' cont E P Eh Hadv Heq Hnsx) as TP.
    apply (Htail s2 cont (is_container bp) TP).
    + intros _. reflexivity.
    + intros _ it' Hit'. exfalso. exact (HnoItem N2 it' Hit').
    + intros Hc. destruct TP as (TP1 & _). destruct (TP1 Hc) as (HM2 & _). apply (HnoLP s2 HM2 N3).
Qed.

Lemma each_openedD_ok :
  each_openedD_spec space_table punct_table norm re_t1o re_t1c re_t2 re_t3 re_t4 re_t5 re_t6 re_t7 allowed_tags src.
Proof using All.
  intros cap f i stats s HM Hi Hf Hni. apply (eoD_gen cap f i stats s HM Hi Hf).
  intros it Hit. exfalso. exact (Hni it Hit).
Qed.

End S.
