(* Helper file for TypoDefWfTotBlk.v: the interfaces between the proof of openBlocks of the
   generalised driver (open_blocksD: TypoDefWfTotBlkOpen*.v), the proof of the loop over the opened
   blocks (each_openedD: TypoDefWfTotBlkEach*.v) and the outer loops (TypoDefWfTotBlkDrive.v):
   the statements open_blocksD_spec and each_openedD_spec.
   open_blocksD_spec is the postcondition of the core proof (ParseBlocksTotalOpen.v open_blocks_ok_fix) with
     - SD (= SI + tree consistency) and the kind frame kkeep,
     - the hypothesis that the parent is no DefinitionList (the description parser only runs in the
       round behind the definition list parser),
     - contD / ChainD instead of is_container / Chain,
     - a frame (OFrameD) that speaks about the nodes that are no paragraphs only: the definition
       description parser detaches a paragraph that is not the last opened block (a closed paragraph
       that is the last child of the parent) or that stays among the opened blocks (the stale open
       paragraph, TDW_NOTES fact 3),
     - new entries that are old nodes: the definition list parser can return an existing list (a new
       entry is a new node or a PHTML entry whose node is an old DefinitionList). *)
Require Import GM.model.Base GM.model.Util GM.model.Reader GM.model.ReaderSpec GM.model.Blocks GM.model.ListItem
               GM.model.LeafBlocks GM.model.CodeBlock GM.model.LinkDest GM.model.Regex GM.model.BlockParse
               GM.model.TypoDefParseD.
Require Import GM.proofs.ReaderProofs GM.proofs.BlocksProofs
               GM.proofs.ParseBlocksTotalReader GM.proofs.ParseBlocksTotalDefs GM.proofs.ParseBlocksTotalSpec
               GM.proofs.ParseBlocksTotalSt GM.proofs.ParseBlocksTotalShape GM.proofs.ParseBlocksTotalOpen
               GM.proofs.TypoDefWfTotBlkDefs GM.proofs.TypoDefWfTotBlkSpec.
From Coq Require Import ZArith Lia List Bool.
Import ListNotations.
Open Scope Z_scope.

(* last_para (the paragraph at the end of the opened blocks, if any) is that of ParseBlocksTotalOpen.v *)

(* what openBlocks may do to the old nodes: kinds stay; lines and parents of the nodes that are no
   paragraphs stay; the children of List nodes other than `parent0` stay *)
Definition OFrameD (h h' : heap) (parent0 : nat) : Prop :=
  (length h <= length h')%nat /\
  forall j n, nth_error h j = Some n -> exists n', nth_error h' j = Some n' /\ bk n' = bk n /\
    (bk n <> BParagraph -> blines n' = blines n /\ bpar n' = bpar n) /\
    (bk n = BList -> j <> parent0 -> bch n' = bch n).

Section S.
Variable space_table punct_table : list N.
Variable norm : bytes -> bytes.
Variable re_t1o re_t1c re_t2 re_t3 re_t4 re_t5 re_t6 re_t7 : re.
Variable allowed_tags : list bytes.
Variable src : bytes.
Notation SI := (SI space_table src).
Notation SD := (SD space_table src).
Notation LineInvD := (LineInvD space_table src).
Notation OBD := (open_blocksD true space_table punct_table norm re_t1o re_t1c re_t2 re_t3 re_t4 re_t5 re_t6 re_t7 allowed_tags).
Notation EOD := (each_openedD true space_table punct_table norm re_t1o re_t1c re_t2 re_t3 re_t4 re_t5 re_t6 re_t7 allowed_tags).

Definition open_blocksD_spec : Prop :=
  forall fuel parent pn blank s,
  SD s -> nth_error (s_h s) parent = Some pn -> is_dl pn = false ->
  (bk pn = BList -> LP space_table s parent) ->
  (forall e n, In e (ops s) -> nth_error (s_h s) (fst e) = Some n -> bpar n <> None) ->
  (forall k e, nth_error (ops s) k = Some e -> (S k < length (ops s))%nat -> contD (s_h s) e) ->
  Below (s_h s) (s_r s) ->
  (Z.to_nat (2 * (s_stop (r_pos (s_r s)) - s_start (r_pos (s_r s))) + 8) <= fuel)%nat ->
  exists res s', OBD fuel parent blank s = Ok (res, s') /\ SD s' /\ r_le (s_r s) (s_r s') /\
    kkeep (s_h s) (s_h s') /\
    (c_fence (s_c s) <> None -> c_fence (s_c s') <> None) /\
    (c_tmp_para (s_c s) <> None -> c_tmp_para (s_c s') <> None) /\
    (forall t, c_tmp_para (s_c s') = Some t -> (t < length (s_h s))%nat) /\
    (((res = paragraphContinuation \/ res = noBlocksOpened) /\ ops s' = ops s /\
      c_fence (s_c s') = c_fence (s_c s) /\ c_tmp_para (s_c s') = c_tmp_para (s_c s) /\
      hsame_pc (s_h s) (s_h s') /\
      (forall j n n', Some j <> last_para (s_c s) -> nth_error (s_h s) j = Some n -> nth_error (s_h s') j = Some n' ->
                      blines n' = blines n) /\
      bk pn <> BList)
     \/
     (res = newBlocksOpened /\ exists base' new, ops s' = base' ++ new /\ new <> [] /\
      (base' = ops s \/ exists x, ops s = base' ++ [(x, PParagraph)]) /\
      OFrameD (s_h s) (s_h s') parent /\
      ChainD (s_h s') parent new /\
      (forall e, In e new -> (length (s_h s) <= fst e)%nat \/ (snd e = PHTML /\ dlk (s_h s) (fst e))) /\
      (bk pn = BList -> exists it pn', nth_error new 0%nat = Some (it, PListItem) /\
                                       nth_error (s_h s') parent = Some pn' /\ last_id (bch pn') = Some it) /\
      (forall n p nn, nth_error new (pred (length new)) = Some (n, p) -> nth_error (s_h s') n = Some nn ->
         (p = PFenced -> exists ch ind fl, c_fence (s_c s') = Some (ch, ind, fl, n)) /\
         (p <> PFenced -> c_fence (s_c s') = c_fence (s_c s)) /\
         (p = PSetext -> c_tmp_para (s_c s') <> None /\ blines nn <> [] /\
                         exists x, last_opened (s_c s) = Some (x, PParagraph)) /\
         (p <> PSetext -> c_tmp_para (s_c s') = c_tmp_para (s_c s) \/
                          exists x, last_opened (s_c s) = Some (x, PParagraph))))).

(* the invariant inside each_openedD: the opened blocks are still the captured ones, and no paragraph
   line reaches the reader's position *)
Definition LineMidD (cap : list (nat * bparser)) (s : st) : Prop :=
  LineInvD s /\ ops s = cap /\ Below (s_h s) (s_r s).

Definition each_openedD_spec : Prop :=
  forall cap f i stats s,
  LineMidD cap s -> 0 <= i <= zlen cap -> (Z.to_nat (zlen cap - i) < f)%nat ->
  (forall it, nth_error cap (Z.to_nat i) <> Some (it, PListItem)) ->
  exists r stats', EOD f cap 0%nat i (zlen cap - 1) stats s = Ok (r, stats') /\
    match r with
    | inl s' => SD s'
    | inr s' => exists s'', LineInvD s'' /\ r_le (s_r s) (s_r s'') /\ advance_line_s s' = advance_line_s s'' /\
                             (i <= zlen cap - 1 -> r_in_range (s_r s) = true)
    end.

End S.
